import NA.Proofs.F2Names
import NA.Proofs.F2Plan
/-!
# F2: the second compare — after a run of the class `wfB` the device is statically settled

`F2_settled_after`: the configuration read back from the final device of a `wfB` run satisfies every
conjunct of `settledB` against the same target except the one about the line planner (which depends
on the Myers scripts of the second compare).  With `F2_quiet`: idempotence.
-/
namespace NA.F2
open NA.IosDev2
open NA.F1 (genName lookupD addSet sortS isTagged)

/-! ## Where the ACLs of the device come from -/

def chgNames : Chg → List Name
  | .aclMode n => [n]
  | _ => []

def evNames : Ev → List Name
  | .top c => chgNames c
  | .exitTop c => chgNames c
  | .openAcl n => [n]
  | .sub (.acl n) _ => [n]
  | _ => []

def actNames : MA → List Name
  | .transfer n _ => [n]
  | .edit aN _ _ _ => [aN]
  | _ => []

theorem hasAcl_ensure (d : Dev) (n x : Name) (h : hasAcl (ensureAcl d n) x = true) : hasAcl d x = true ∨ x = n := by
  unfold ensureAcl at h
  split at h
  · exact Or.inl h
  · simp only [hasAcl, List.any_append, List.any_cons, List.any_nil, Bool.or_false, Bool.or_eq_true, beq_iff_eq] at h
    rcases h with h | h
    · exact Or.inl h
    · exact Or.inr h.symm

theorem execTop_hasAcl (d d' : Dev) (c : Chg) (h : execTop d c = .ok d') (x : Name) (hx : hasAcl d' x = true) :
    hasAcl d x = true ∨ x ∈ chgNames c := by
  cases c with
  | reseq n s t =>
    simp only [execTop] at h
    split at h
    · injection h with h; rw [← h, hasAcl_setAcl] at hx; exact Or.inl hx
    · cases h
  | aclMode n =>
    simp only [execTop] at h
    injection h with h
    have hx' : hasAcl (ensureAcl d n) x = true := by
      rw [← h] at hx
      unfold ensureAcl
      by_cases hn : hasAcl d n = true
      · rw [if_pos hn] at hx ⊢; exact hx
      · rw [if_neg hn] at hx ⊢; exact hx
    rcases hasAcl_ensure d n x hx' with k | k
    · exact Or.inl k
    · exact Or.inr (by simp [chgNames, k])
  | noAcl n =>
    simp only [execTop] at h
    split at h
    · cases h
    · split at h
      · cases h
      · injection h with h
        rw [← h] at hx
        simp only [hasAcl, List.any_filter, List.any_eq_true, Bool.and_eq_true] at hx
        obtain ⟨p, hp, _, hpx⟩ := hx
        exact Or.inl (List.any_eq_true.mpr ⟨p, hp, hpx⟩)
  | intfMode n =>
    simp only [execTop] at h
    split at h
    · injection h with h; rw [← h] at hx; exact Or.inl hx
    · cases h
  | route r =>
    simp only [execTop] at h
    split at h
    · cases h
    · injection h with h; rw [← h] at hx; exact Or.inl hx
  | noRoute r =>
    simp only [execTop] at h
    split at h
    · injection h with h; rw [← h] at hx; exact Or.inl hx
    · cases h
  | replRoute o n =>
    simp only [execTop] at h
    split at h
    · cases h
    · split at h
      · cases h
      · injection h with h; rw [← h] at hx; exact Or.inl hx
  | exit => simp [execTop] at h
  | entry _ => simp [execTop] at h
  | numEntry _ _ => simp [execTop] at h
  | noNum _ => simp [execTop] at h
  | noEntry _ => simp [execTop] at h
  | move _ _ _ => simp [execTop] at h
  | bind _ _ => simp [execTop] at h
  | noBind _ _ => simp [execTop] at h
  | bad => simp [execTop] at h

theorem evRun_hasAcl (d d' : Dev) (ev : Ev) (h : evRun d ev = some d') (x : Name) (hx : hasAcl d' x = true) :
    hasAcl d x = true ∨ x ∈ evNames ev := by
  cases ev with
  | top c =>
    simp only [evRun] at h
    cases hc : execTop d c with
    | error e => rw [hc] at h; simp [toOpt] at h
    | ok d1 =>
      rw [hc] at h
      simp only [toOpt, Option.map_some, Option.some.injEq] at h
      rw [← h, hasAcl_strip] at hx
      exact execTop_hasAcl d d1 c hc x hx
  | exitTop c =>
    simp only [evRun] at h
    cases hc : execTop d c with
    | error e => rw [hc] at h; simp [toOpt] at h
    | ok d1 =>
      rw [hc] at h
      simp only [toOpt, Option.map_some, Option.some.injEq] at h
      rw [← h, hasAcl_strip] at hx
      exact execTop_hasAcl d d1 c hc x hx
  | openAcl n =>
    simp only [evRun, Option.some.injEq] at h
    rw [← h, hasAcl_strip] at hx
    rcases hasAcl_ensure d n x hx with k | k
    · exact Or.inl k
    · exact Or.inr (by simp [evNames, k])
  | reset =>
    simp only [evRun, Option.some.injEq] at h
    rw [← h, hasAcl_strip] at hx
    exact Or.inl hx
  | sub p c =>
    cases p with
    | acl n =>
      simp only [evRun] at h
      split at h
      · cases he : execEntry (entriesOf (ensureAcl d n) n) c with
        | error e => rw [he] at h; simp [toOpt] at h
        | ok es =>
          rw [he] at h
          simp only [toOpt, Option.map_some, Option.some.injEq] at h
          rw [← h, hasAcl_strip, hasAcl_setAcl] at hx
          rcases hasAcl_ensure d n x hx with k | k
          · exact Or.inl k
          · exact Or.inr (by simp [evNames, k])
      · cases h
    | intf i =>
      simp only [evRun] at h
      split at h
      · cases h
      · cases c with
        | bind a dir =>
          simp only at h
          split at h
          · injection h with h; rw [← h] at hx; exact Or.inl hx
          · cases h
        | noBind a dir =>
          simp only at h
          split at h
          · injection h with h; rw [← h] at hx; exact Or.inl hx
          · cases h
        | reseq _ _ _ => cases h
        | aclMode _ => cases h
        | intfMode _ => cases h
        | exit => cases h
        | entry _ => cases h
        | numEntry _ _ => cases h
        | noNum _ => cases h
        | noEntry _ => cases h
        | move _ _ _ => cases h
        | route _ => cases h
        | noRoute _ => cases h
        | replRoute _ _ => cases h
        | noAcl _ => cases h
        | bad => cases h

theorem evsRun_hasAcl (evs : List Ev) (d d' : Dev) (h : evsRun d evs = some d') (x : Name) (hx : hasAcl d' x = true) :
    hasAcl d x = true ∨ ∃ ev ∈ evs, x ∈ evNames ev := by
  induction evs generalizing d with
  | nil =>
    simp only [evsRun, List.foldlM_nil] at h
    have : d = d' := by simpa using h
    rw [this]; exact Or.inl hx
  | cons ev evs ih =>
    rw [evsRun_cons] at h
    cases h1 : evRun d ev with
    | none => rw [h1] at h; simp at h
    | some d1 =>
      rw [h1, Option.bind_some] at h
      rcases ih d1 h with k | ⟨ev', k1, k2⟩
      · rcases evRun_hasAcl d d1 ev h1 x k with j | j
        · exact Or.inl j
        · exact Or.inr ⟨ev, List.mem_cons_self .., j⟩
      · exact Or.inr ⟨ev', List.mem_cons_of_mem _ k1, k2⟩

theorem editEvents_names (aN : Name) (al bl : List ALine) (rs : List NA.Acl.Range) :
    ∀ ev ∈ editEvents aN al bl rs, ∀ x ∈ evNames ev, x = aN := by
  intro ev hev x hx
  unfold editEvents at hev
  simp only at hev
  split at hev
  · obtain ⟨l, _, rfl⟩ := List.mem_map.mp hev
    simpa [evNames] using hx
  · split at hev
    · simp only [List.mem_singleton] at hev
      rw [hev] at hx; simp [evNames, chgNames] at hx
    · split at hev
      · rcases List.mem_append.mp hev with k | k
        · obtain ⟨l, _, rfl⟩ := List.mem_map.mp k
          simpa [evNames] using hx
        · obtain ⟨l, _, rfl⟩ := List.mem_map.mp k
          simpa [evNames] using hx
      · split at hev
        · simp only [List.mem_singleton] at hev
          rw [hev] at hx; simp [evNames] at hx
        · rcases List.mem_append.mp hev with k | k
          · rcases List.mem_append.mp k with k | k
            · simp only [List.mem_singleton] at k
              rw [k] at hx; simp [evNames, chgNames] at hx
            · obtain ⟨op, _, rfl⟩ := List.mem_map.mp k
              cases op <;> simp [opEv, evNames, chgNames] at hx <;> exact hx
          · simp only [List.mem_singleton] at k
            rw [k] at hx; simp [evNames, chgNames] at hx

theorem expand_names (act : MA) : ∀ ev ∈ expand act, ∀ x ∈ evNames ev, x ∈ actNames act := by
  intro ev hev x hx
  cases act with
  | transfer n ls =>
    simp only [expand, List.mem_cons, List.mem_map] at hev
    rcases hev with rfl | ⟨l, _, rfl⟩
    · simpa [evNames, actNames] using hx
    · simpa [evNames, actNames] using hx
  | edit aN al bl rs =>
    have := editEvents_names aN al bl rs ev hev x hx
    simp [actNames, this]
  | bind i a d =>
    simp only [expand, List.mem_singleton] at hev
    rw [hev] at hx; simp [evNames] at hx
  | unbind i a d =>
    simp only [expand, List.mem_singleton] at hev
    rw [hev] at hx; simp [evNames] at hx
  | route r =>
    simp only [expand, List.mem_singleton] at hev
    rw [hev] at hx; simp [evNames, chgNames] at hx
  | replRoute o n =>
    simp only [expand, List.mem_singleton] at hev
    rw [hev] at hx; simp [evNames, chgNames] at hx
  | noRoute r =>
    simp only [expand, List.mem_singleton] at hev
    rw [hev] at hx; simp [evNames, chgNames] at hx
  | cleanup ns =>
    cases ns with
    | nil => simp [expand] at hev
    | cons n ns =>
      simp only [expand, List.mem_cons, List.mem_map] at hev
      rcases hev with rfl | ⟨l, _, rfl⟩
      · simp [evNames, chgNames] at hx
      · simp [evNames, chgNames] at hx

/-- An ACL of the device after the decisions `acts` was there before or is named by a decision. -/
theorem actsRun_hasAcl (acts : List MA) (d d' : Dev) (h : actsRun d acts = some d') (x : Name) (hx : hasAcl d' x = true) :
    hasAcl d x = true ∨ ∃ act ∈ acts, x ∈ actNames act := by
  rcases evsRun_hasAcl _ d d' h x hx with k | ⟨ev, k1, k2⟩
  · exact Or.inl k
  · obtain ⟨act, hact, hev⟩ := List.mem_flatMap.mp k1
    exact Or.inr ⟨act, hact, expand_names act ev hev x k2⟩

/-! ## The name invariant at the start and after the interface phase -/

theorem ninv_init (a' b : Config) (sc : Scripts) (st2 : St) (hcore : CoreEmpty st2) :
    NInv ⟨a', b, sc⟩ st2.aNeeded (generateNames a' b st2) := by
  obtain ⟨c1, c2, c3, c4, c5, c6⟩ := hcore
  have hr : (generateNames a' b st2).aReady = [] := c4
  constructor
  · intro b1 hb1; rw [hr] at hb1; cases hb1
  · intro bN h; rw [hr] at h; cases h
  · intro bN h; rw [hr] at h; cases h
  · intro bN hb _
    simp only [St.nameOf, generateNames]
    rw [lookup_gen b.acls _ bN hb]; rfl
  · intro n hn; exact Or.inl hn
  · intro n hn; exact hn
  · intro act hact
    have : (generateNames a' b st2).acts = st2.acts := rfl
    rw [this, c6] at hact; cases hact
  · intro act hact
    have : (generateNames a' b st2).acts = st2.acts := rfl
    rw [this, c6] at hact; cases hact

/-- The second-compare relevant facts about the final device `d'` of a run: `nm` names the target
ACLs, `R` are the target ACLs that have been equalised or transferred. -/
structure After (a0 b : Config) (d' : Dev) (nm : Name → Name) (R : List Name) : Prop where
  slotB : ∀ bi ∈ b.intfs, ∀ bd ∈ bi.binds, bd.acl ∈ R ∧ slotOf d' bi.name bd.dir = some (nm bd.acl) ∧
    hasAcl d' (nm bd.acl) = true
  slotNone : ∀ bi ∈ b.intfs, ∀ dir, isDir dir = true → dir ∉ bi.binds.map (·.dir) → slotOf d' bi.name dir = none
  slotU : ∀ x, x ∉ b.intfs.map (·.name) → ∀ dir, isDir dir = true → slotOf d' x dir = slotOf (ofConfig a0) x dir
  aclU : ∀ i ∈ a0.intfs, i.name ∉ b.intfs.map (·.name) → ∀ bd ∈ i.binds, hasAcl d' bd.acl = true
  inj : ∀ b1 ∈ R, ∀ b2 ∈ R, nm b1 = nm b2 → b1 = b2
  boundR : ∀ bN ∈ R, ∃ bi ∈ b.intfs, ∃ bd ∈ bi.binds, bd.acl = bN
  notProt : ∀ bN ∈ R, ∀ i ∈ a0.intfs, i.name ∉ b.intfs.map (·.name) → ∀ bd ∈ i.binds, bd.acl ≠ nm bN
  tagged : ∀ n, hasAcl d' n = true → isTagged n = true →
    (∃ bN ∈ R, n = nm bN) ∨ ∃ i ∈ a0.intfs, i.name ∉ b.intfs.map (·.name) ∧ n ∈ i.binds.map (·.acl)
  routesNd : d'.routes.Nodup
  routes : ∀ t, t ∈ d'.routes ↔ (t ∈ a0.routes.map (·.text) ∧ ¬ DelT (aOf a0 b).routes b.routes t) ∨
    InsT (aOf a0 b).routes b.routes t
  cov : ∀ bi ∈ b.intfs, ∃ ai ∈ (aOf a0 b).intfs, ai.name = bi.name
  subI : ∀ i ∈ (aOf a0 b).intfs, i ∈ a0.intfs
  eqv : ∀ bi ∈ b.intfs, ∀ bd ∈ bi.binds, AclEqv (linesOf d' (nm bd.acl)) (b.lines bd.acl)

/-- A device interface outside the aligned configuration has no partner (when `checkIOSInterfaces` succeeded). -/
theorem unpaired_of_removed {a0 b : Config} (hnd : (a0.intfs.map (·.name)).Nodup)
    (hsub : ∀ i ∈ (aOf a0 b).intfs, i ∈ a0.intfs)
    (hcov : ∀ bi ∈ b.intfs, ∃ ai ∈ (aOf a0 b).intfs, ai.name = bi.name)
    {i : Intf} (hi : i ∈ a0.intfs) (hni : i ∉ (aOf a0 b).intfs) : i.name ∉ b.intfs.map (·.name) := by
  intro hc
  obtain ⟨bi, hbi, hbn⟩ := List.mem_map.mp hc
  obtain ⟨ai, hai, hain⟩ := hcov bi hbi
  have hai0 := hsub ai hai
  obtain ⟨k, hk, hkk⟩ := List.getElem_of_mem hai0
  obtain ⟨k', hk', hkk'⟩ := List.getElem_of_mem hi
  have : k = k' := by
    have h1 : (a0.intfs.map (·.name))[k]'(by simpa using hk) = (a0.intfs.map (·.name))[k']'(by simpa using hk') := by
      simp only [List.getElem_map, hkk, hkk', hain, hbn]
    exact (List.getElem_inj hnd).mp h1
  subst this
  have : ai = i := by rw [← hkk, ← hkk']
  exact hni (this ▸ hai)

/-- The name invariant after the interface phase of a run. -/
theorem ninv_st3 {a0 b : Config} {sc : Scripts} (hw : WF a0 b sc) {d0 d1 : Dev} {σ1 : String → String → Status}
    {π1 : List (Nat × Nat)} {d3 : Dev} {p : List Name} (hc : Core a0 b sc d0 d1 σ1 π1 d3 p) :
    NInv (envOf a0 b sc) (st2Of a0 b).aNeeded (st3Of a0 b sc) ∧
    (∀ k, k < (aOf a0 b).intfs.length → ((aOf a0 b).intfs.getD k default).name ∈ b.intfs.map (·.name) →
      k ∈ (st3Of a0 b sc).iNeeded) := by
  have hhas : ∀ n, (aOf a0 b).hasAcl n = a0.hasAcl n := fun n => by simp [Config.hasAcl, hc.aclsEq]
  have hnd' : ((aOf a0 b).intfs.map (·.name)).Nodup := by
    obtain ⟨_, _, _, ⟨pI, hpI⟩, _⟩ := alignVRFs_spec a0 b {} ⟨rfl, rfl, rfl, rfl, rfl, rfl⟩
    show ((alignVRFs a0 b {}).2.intfs.map (·.name)).Nodup
    rw [hpI]; exact nodup_filter_map _ _ _ hw.aIntfs
  -- the name invariant after the interface phase
  have hstatic : NStatic (envOf a0 b sc) := by
    constructor
    · intro ai hai
      obtain ⟨k1, k2⟩ := hw.aBinds ai (hc.subI ai hai)
      exact ⟨k1, fun bd hbd => (k2 bd hbd).1, fun bd hbd => by
        show (aOf a0 b).hasAcl bd.acl = true
        rw [hhas]; exact (k2 bd hbd).2⟩
    · intro bi hbi
      obtain ⟨k1, k2⟩ := hw.bBinds bi hbi
      exact ⟨k1, fun bd hbd => (k2 bd hbd).1, fun bd hbd => (k2 bd hbd).2⟩
  obtain ⟨hninv, hineed⟩ := ninv_diffIntfs (e := envOf a0 b sc) hstatic hnd'
    (ninv_init (aOf a0 b) b sc (st2Of a0 b) hc.core2)
  exact ⟨hninv, hineed⟩

theorem after_of_core {a0 b : Config} {sc : Scripts} (hw : WF a0 b sc) {d1 : Dev} {σ1 : String → String → Status}
    {π1 : List (Nat × Nat)} {d3 : Dev} {p : List Name} (hc : Core a0 b sc (ofConfig a0) d1 σ1 π1 d3 p) :
    After a0 b (strip d3) (st3Of a0 b sc).nameOf (st3Of a0 b sc).aReady := by
  obtain ⟨e1, e2, e3, e4, e5⟩ := core_e2e hw (reads_ofConfig a0) hc
  have hsem1 := hc.sem
  have hhas : ∀ n, (aOf a0 b).hasAcl n = a0.hasAcl n := fun n => by simp [Config.hasAcl, hc.aclsEq]
  have hslot3 : ∀ x dir, slotOf d3 x dir = slotOf d1 x dir := by
    intro x dir
    simp only [slotOf, hc.intfs3]
  obtain ⟨hninv', hineed⟩ := ninv_st3 hw hc
  -- the initial marks lie in the ACLs of interfaces without partner
  have hbound2 : NeededIn (unpairedAcls a0 b) (st2Of a0 b) := by
    have hbound1 : NeededIn (unpairedAcls a0 b) (alignVRFs a0 b {}).1 := by
      apply alignVRFs_bound a0 b {} _ (by intro n hn; cases hn)
      intro i hi hni n hn
      exact mem_unpairedAcls.mpr ⟨i, hi, Or.inl hni, hn⟩
    apply checkInterfaces_bound (aOf a0 b) b _ _ hbound1
    intro x hx hbf n hn
    exact mem_unpairedAcls.mpr ⟨x, hc.subI x hx, Or.inr ((bFind_none_iff b x.name).mp hbf), hn⟩
  have hPunp : ∀ n ∈ (st2Of a0 b).aNeeded, ∃ i ∈ a0.intfs, i.name ∉ b.intfs.map (·.name) ∧ n ∈ i.binds.map (·.acl) := by
    intro n hn
    obtain ⟨i, hi, hcase, hnb⟩ := mem_unpairedAcls.mp (hbound2 n hn)
    rcases hcase with hcase | hcase
    · exact ⟨i, hi, unpaired_of_removed hw.aIntfs hc.subI hc.cov hi hcase, hnb⟩
    · exact ⟨i, hi, hcase, hnb⟩
  have hslotB : ∀ bi ∈ b.intfs, ∀ bd ∈ bi.binds, bd.acl ∈ (st3Of a0 b sc).aReady ∧
      slotOf (strip d3) bi.name bd.dir = some ((st3Of a0 b sc).nameOf bd.acl) ∧
      hasAcl (strip d3) ((st3Of a0 b sc).nameOf bd.acl) = true := by
    intro bi hbi bd hbd
    obtain ⟨ai, _, _, hdn⟩ := hc.done bi hbi
    have hσ := hdn.settled bd hbd
    have hdir := (hw.bBinds bi hbi).2 bd hbd
    have hs := hsem1.slots bi.name bd.dir hdir.1
    rw [hσ] at hs
    obtain ⟨hr, hs2⟩ := hs
    obtain ⟨_, h2, _, h4⟩ := hsem1.ready bd.acl hr
    have hnp : (st3Of a0 b sc).nameOf bd.acl ∉ p := by
      intro hcc
      obtain ⟨hna, hnn⟩ := hc.pmem _ hcc
      rcases h4 with h4 | h4
      · exact hnn h4
      · have h4' : a0.hasAcl ((st3Of a0 b sc).nameOf bd.acl) = false := by rw [← hhas]; exact h4
        rw [hna] at h4'; cases h4'
    obtain ⟨_, k2⟩ := hc.keep3 _ hnp
    exact ⟨hr, by rw [slotOf_strip, hslot3]; exact hs2, by rw [hasAcl_strip, k2]; exact h2⟩
  refine ⟨hslotB, e2, e4, fun i hi hib bd hbd => (e5 i hi hib bd hbd).1, hninv'.inj,
    fun bN hbN => (hninv'.bound bN hbN).2, ?_, ?_, hc.routesNd, hc.routes3, hc.cov, hc.subI, ?_⟩
  · -- a name of a ready target ACL is not bound by an interface without partner
    intro bN hbN i hi hib bd hbd heq
    have hbdok := (hw.aBinds i hi).2 bd hbd
    have hmarked : bd.acl ∈ (st2Of a0 b).aNeeded := hc.marked i hi hib bd hbd hbdok.2
    rcases hninv'.kind bN hbN with ⟨_, _, k3⟩ | k
    · exact k3 (heq ▸ hmarked)
    · have h1 : (aOf a0 b).hasAcl (genName bN ((aOf a0 b).acls.map (·.1))) = false := genName_not_hasAcl _ bN
      have h2 : (aOf a0 b).hasAcl bd.acl = true := by rw [hhas]; exact hbdok.2
      rw [heq, k] at h2
      rw [h1] at h2; cases h2
  · -- generated names on the final device
    intro n hn htag
    rw [hasAcl_strip] at hn
    have hnp : n ∉ p := fun hcc => by rw [hc.gone3 n hcc] at hn; cases hn
    have hn1 : hasAcl d1 n = true := by rw [← (hc.keep3 n hnp).2]; exact hn
    -- a device ACL that survives the clean-up
    have hdev : a0.hasAcl n = true → (∃ bN ∈ (st3Of a0 b sc).aReady, n = (st3Of a0 b sc).nameOf bN) ∨
        ∃ i ∈ a0.intfs, i.name ∉ b.intfs.map (·.name) ∧ n ∈ i.binds.map (·.acl) := by
      intro hna
      by_cases hN : n ∈ (st3Of a0 b sc).aNeeded
      · rcases hninv'.needed n hN with k | k
        · exact Or.inr (hPunp n k)
        · exact Or.inl k
      · exfalso
        -- `n` is a candidate of `deleteUnused`, so it is still referenced
        have hpd := hc.pdef
        unfold duPending at hpd
        simp only at hpd
        have hnotin : n ∉ sortS ((((envOf a0 b sc).a.acls.map (·.1)).filter fun n =>
            !(st3Of a0 b sc).aNeeded.contains n && ((st3Of a0 b sc).aToDel.contains n || isTagged n)).filter fun n =>
            !(((List.range (envOf a0 b sc).a.intfs.length).filter fun i => !(st3Of a0 b sc).iNeeded.contains i).flatMap fun i =>
              (((List.range ((envOf a0 b sc).a.intfs.getD i default).binds.length).filter fun k =>
                  !(st3Of a0 b sc).bNeeded.contains (i, k)).filterMap fun k =>
                if (envOf a0 b sc).a.hasAcl ((((envOf a0 b sc).a.intfs.getD i default).binds.getD k default).acl) &&
                    !(st3Of a0 b sc).aNeeded.contains ((((envOf a0 b sc).a.intfs.getD i default).binds.getD k default).acl)
                then some ((((envOf a0 b sc).a.intfs.getD i default).binds.getD k default).acl) else none)).contains n) := by
          intro hcc
          apply hnp
          rw [hpd]
          exact hcc
        rw [(perm_sortS _).mem_iff] at hnotin
        have hcand : n ∈ ((envOf a0 b sc).a.acls.map (·.1)).filter fun n =>
            !(st3Of a0 b sc).aNeeded.contains n && ((st3Of a0 b sc).aToDel.contains n || isTagged n) := by
          rw [List.mem_filter]
          refine ⟨?_, ?_⟩
          · show n ∈ (aOf a0 b).acls.map (·.1)
            rw [hc.aclsEq]; exact (hasAcl_config_iff a0 n).mp hna
          · have : (st3Of a0 b sc).aNeeded.contains n = false := by
              rw [Bool.eq_false_iff]; intro hcc; exact hN (List.contains_iff_mem.mp hcc)
            simp only [Bool.and_eq_true, Bool.not_eq_true', Bool.or_eq_true]
            exact ⟨this, Or.inr htag⟩
        have hstill : n ∈ ((List.range (envOf a0 b sc).a.intfs.length).filter fun i => !(st3Of a0 b sc).iNeeded.contains i).flatMap fun i =>
              (((List.range ((envOf a0 b sc).a.intfs.getD i default).binds.length).filter fun k =>
                  !(st3Of a0 b sc).bNeeded.contains (i, k)).filterMap fun k =>
                if (envOf a0 b sc).a.hasAcl ((((envOf a0 b sc).a.intfs.getD i default).binds.getD k default).acl) &&
                    !(st3Of a0 b sc).aNeeded.contains ((((envOf a0 b sc).a.intfs.getD i default).binds.getD k default).acl)
                then some ((((envOf a0 b sc).a.intfs.getD i default).binds.getD k default).acl) else none) := by
          apply Classical.byContradiction
          intro hcc
          apply hnotin
          rw [List.mem_filter]
          refine ⟨hcand, ?_⟩
          simp only [Bool.not_eq_true']
          rw [Bool.eq_false_iff]
          intro h1
          exact hcc (List.contains_iff_mem.mp h1)
        obtain ⟨i, hi, hk⟩ := List.mem_flatMap.mp hstill
        obtain ⟨hi1, hi2⟩ := List.mem_filter.mp hi
        have hilt : i < (aOf a0 b).intfs.length := List.mem_range.mp hi1
        obtain ⟨k, hk1, hk2⟩ := List.mem_filterMap.mp hk
        have hklt : k < ((aOf a0 b).intfs.getD i default).binds.length := List.mem_range.mp (List.mem_filter.mp hk1).1
        have hacl : (((aOf a0 b).intfs.getD i default).binds.getD k default).acl = n := by
          split at hk2
          · exact Option.some.inj hk2
          · cases hk2
        have hai : (aOf a0 b).intfs.getD i default ∈ (aOf a0 b).intfs := getD_mem _ i hilt
        have hbd : ((aOf a0 b).intfs.getD i default).binds.getD k default ∈ ((aOf a0 b).intfs.getD i default).binds :=
          getD_mem _ k hklt
        by_cases hpair : ((aOf a0 b).intfs.getD i default).name ∈ b.intfs.map (·.name)
        · have := hineed i hilt hpair
          have hcc : (st3Of a0 b sc).iNeeded.contains i = true := List.contains_iff_mem.mpr this
          rw [hcc] at hi2; cases hi2
        · have hm := hc.marked _ (hc.subI _ hai) hpair _ hbd (by rw [hacl]; exact hna)
          rw [hacl] at hm
          exact hN (hninv'.pNeeded n hm)
    rcases actsRun_hasAcl _ _ _ hsem1.run n hn1 with k | ⟨act, hact, hnact⟩
    · rw [hasAcl_ofConfig] at k
      exact hdev k
    · obtain ⟨k1, k2⟩ := hninv'.acts act hact
      cases act with
      | transfer n' ls =>
        simp only [actNames, List.mem_singleton] at hnact
        obtain ⟨bN, j1, j2⟩ := k1 n' ls rfl
        exact Or.inl ⟨bN, j1, by rw [hnact]; exact j2⟩
      | edit aN al bl rs =>
        simp only [actNames, List.mem_singleton] at hnact
        have := k2 aN al bl rs rfl
        exact hdev (by rw [hnact, ← hhas]; exact this)
      | bind _ _ _ => simp [actNames] at hnact
      | unbind _ _ _ => simp [actNames] at hnact
      | route _ => simp [actNames] at hnact
      | replRoute _ _ => simp [actNames] at hnact
      | noRoute _ => simp [actNames] at hnact
      | cleanup _ => simp [actNames] at hnact
  · intro bi hbi bd hbd
    obtain ⟨n, k1, _, k3⟩ := e1 bi hbi bd hbd
    have := (hslotB bi hbi bd hbd).2.1
    rw [k1] at this
    rw [← Option.some.inj this]; exact k3

/-! ## The configuration read back from the final device -/

/-- The `ip access-group` sub-commands of interface `x` as a compare reads them. -/
def bindsOf (d : Dev) (x : String) : List Bind :=
  (match slotOf d x "in" with | some a => [⟨a, "in"⟩] | none => []) ++
  (match slotOf d x "out" with | some a => [⟨a, "out"⟩] | none => [])

def reI (d : Dev) (i : Intf) : Intf := { i with binds := bindsOf d i.name }

theorem reconf_intfs (a0 : Config) (refs : List Route) (d : Dev) : (reconf a0 refs d).intfs = a0.intfs.map (reI d) := rfl

theorem mem_bindsOf {d : Dev} {x : String} {bd : Bind} :
    bd ∈ bindsOf d x ↔ isDir bd.dir = true ∧ slotOf d x bd.dir = some bd.acl := by
  obtain ⟨acl, dir⟩ := bd
  unfold bindsOf
  cases hin : slotOf d x "in" <;> cases hout : slotOf d x "out"
  · simp only [List.append_nil, List.not_mem_nil, false_iff, not_and, isDir, Bool.or_eq_true, beq_iff_eq]
    rintro (rfl | rfl)
    · rw [hin]; simp
    · rw [hout]; simp
  · simp only [List.nil_append, List.mem_singleton, Bind.mk.injEq, isDir, Bool.or_eq_true, beq_iff_eq]
    constructor
    · rintro ⟨rfl, rfl⟩; exact ⟨Or.inr rfl, hout⟩
    · rintro ⟨rfl | rfl, h2⟩
      · rw [hin] at h2; cases h2
      · rw [hout] at h2; exact ⟨(Option.some.inj h2).symm, rfl⟩
  · simp only [List.append_nil, List.mem_singleton, Bind.mk.injEq, isDir, Bool.or_eq_true, beq_iff_eq]
    constructor
    · rintro ⟨rfl, rfl⟩; exact ⟨Or.inl rfl, hin⟩
    · rintro ⟨rfl | rfl, h2⟩
      · rw [hin] at h2; exact ⟨(Option.some.inj h2).symm, rfl⟩
      · rw [hout] at h2; cases h2
  · simp only [List.cons_append, List.nil_append, List.mem_cons, Bind.mk.injEq, List.not_mem_nil, or_false, isDir,
      Bool.or_eq_true, beq_iff_eq]
    constructor
    · rintro (⟨rfl, rfl⟩ | ⟨rfl, rfl⟩)
      · exact ⟨Or.inl rfl, hin⟩
      · exact ⟨Or.inr rfl, hout⟩
    · rintro ⟨rfl | rfl, h2⟩
      · rw [hin] at h2; exact Or.inl ⟨(Option.some.inj h2).symm, rfl⟩
      · rw [hout] at h2; exact Or.inr ⟨(Option.some.inj h2).symm, rfl⟩

theorem bindsOf_nodup (d : Dev) (x : String) : ((bindsOf d x).map (·.dir)).Nodup := by
  unfold bindsOf
  cases slotOf d x "in" <;> cases slotOf d x "out" <;> simp

/-! ## `checkIOSInterfaces` looks at name, VRF and `ip inspect` only -/

def okI (b : Config) (ai : Intf) : Bool :=
  match bFind b ai.name with
  | some bi => ai.inspect == bi.inspect && ai.vrf == bi.vrf
  | none => true

theorem checkStep_ok (a b : Config) (s : St × Bool) (ai : Intf) : (checkStep a b s ai).2 = (s.2 && okI b ai) := by
  obtain ⟨st, f⟩ := s
  unfold checkStep okI
  cases f with
  | false => simp
  | true =>
    simp only [Bool.not_true, Bool.false_eq_true, ↓reduceIte, Bool.true_and]
    cases hb : bFind b ai.name with
    | none =>
      simp only
      split <;> rfl
    | some bi =>
      simp only
      by_cases h1 : ai.inspect = bi.inspect
      · by_cases h2 : ai.vrf = bi.vrf
        · simp [h1, h2]
        · simp [h1, h2]
      · simp [h1]

theorem fold_checkStep_ok (a b : Config) (l : List Intf) (s : St × Bool) :
    (l.foldl (checkStep a b) s).2 = (s.2 && l.all (okI b)) := by
  induction l generalizing s with
  | nil => simp
  | cons x l ih =>
    simp only [List.foldl_cons, List.all_cons]
    rw [ih, checkStep_ok, Bool.and_assoc]

theorem checkInterfaces_ok (a b : Config) (st : St) :
    (checkInterfaces a b st).2 = (a.intfs.all (okI b) &&
      (b.intfs.find? fun bi => !(a.intfs.any fun ai => ai.name == bi.name)).isNone) := by
  unfold checkInterfaces
  simp only
  have hf := fold_checkStep_ok a b a.intfs (st, true)
  simp only [Bool.true_and] at hf
  cases hall : a.intfs.all (okI b) with
  | false =>
    rw [hall] at hf
    simp only [hf, Bool.not_false, ↓reduceIte, Bool.false_and]
  | true =>
    rw [hall] at hf
    simp only [hf, Bool.not_true, Bool.false_eq_true, ↓reduceIte, Bool.true_and]
    cases b.intfs.find? fun bi => !(a.intfs.any fun ai => ai.name == bi.name) with
    | none => simp [hf]
    | some bi => simp

theorem engine_ok_eq (a b : Config) (sc : Scripts) :
    (engine a b sc).ok = (checkInterfaces (aOf a b) b (alignVRFs a b {}).1).2 := by
  unfold engine
  simp only
  cases (checkInterfaces (alignVRFs a b {}).2 b (alignVRFs a b {}).1).2 <;> simp

/-- `alignVRFs` on the configuration read back. -/
theorem align_reconf (a0 b : Config) (refs : List Route) (d : Dev) :
    (aOf (reconf a0 refs d) b).intfs = (aOf a0 b).intfs.map (reI d) ∧
    (aOf (reconf a0 refs d) b).acls = (reconf a0 refs d).acls ∧
    (aOf (reconf a0 refs d) b).routes = (if (b.intfs.map (·.vrf) ++ b.routes.map (·.vrf)).isEmpty then (reconf a0 refs d).routes
      else (reconf a0 refs d).routes.filter fun r => (b.intfs.map (·.vrf) ++ b.routes.map (·.vrf)).contains r.vrf) := by
  unfold aOf alignVRFs
  simp only
  by_cases he : (b.intfs.map (·.vrf) ++ b.routes.map (·.vrf)).isEmpty = true
  · simp only [he, ↓reduceIte]
    refine ⟨?_, ?_, ?_⟩ <;> first | trivial | rfl
  · simp only [he, Bool.false_eq_true, ↓reduceIte]
    refine ⟨?_, ?_, ?_⟩
    · rw [reconf_intfs, List.filter_map]
      rfl
    · first | trivial | rfl
    · first | trivial | rfl

theorem engine_ok_reconf (a0 b : Config) (sc sc2 : Scripts) (refs : List Route) (d : Dev) :
    (engine (reconf a0 refs d) b sc2).ok = (engine a0 b sc).ok := by
  rw [engine_ok_eq, engine_ok_eq, checkInterfaces_ok, checkInterfaces_ok, (align_reconf a0 b refs d).1]
  simp only [List.all_map, List.any_map]
  rfl

/-! ## Routes of the final device -/

theorem routes_char {a0 b : Config} {sc : Scripts} (hwf : WF a0 b sc) {Rs : List String}
    (hr : ∀ t, t ∈ Rs ↔ (t ∈ a0.routes.map (·.text) ∧ ¬ DelT (aOf a0 b).routes b.routes t) ∨ InsT (aOf a0 b).routes b.routes t) :
    (∀ r ∈ a0.routes ++ b.routes, r.vrf ∈ b.routes.map (·.vrf) → (r.text ∈ Rs ↔ r.text ∈ b.routes.map (·.text))) ∧
    (∀ t ∈ Rs, t ∈ a0.routes.map (·.text) ∨ t ∈ b.routes.map (·.text)) := by
  have hsubR : ∀ x ∈ (aOf a0 b).routes, x ∈ a0.routes := by
    intro x hx
    unfold aOf alignVRFs at hx
    simp only at hx
    split at hx
    · exact hx
    · exact (List.mem_filter.mp hx).1
  refine ⟨?_, ?_⟩
  · intro r hr0 hv
    rw [hr r.text]
    constructor
    · rintro (⟨h1, h2⟩ | ⟨r', hr', h3, _⟩)
      · apply Classical.byContradiction
        intro hnb
        apply h2
        obtain ⟨r0, hr0m, hr0t⟩ := List.mem_map.mp h1
        have hsame : r0.vrf = r.vrf := by
          rcases List.mem_append.mp hr0 with hra | hrb
          · obtain ⟨k, hk, hkk⟩ := List.getElem_of_mem hr0m
            obtain ⟨k', hk', hkk'⟩ := List.getElem_of_mem hra
            have : k = k' := by
              have h1' : (a0.routes.map (·.text))[k]'(by simpa using hk) = (a0.routes.map (·.text))[k']'(by simpa using hk') := by
                simp only [List.getElem_map, hkk, hkk', hr0t]
              exact (List.getElem_inj hwf.aRoutes).mp h1'
            subst this
            rw [← hkk, ← hkk']
          · exact hwf.routeVrf r0 hr0m r hrb hr0t
        have hkeep : r0 ∈ (aOf a0 b).routes := by
          unfold aOf alignVRFs
          simp only
          split
          · exact hr0m
          · exact List.mem_filter.mpr ⟨hr0m, by rw [hsame]; simp [hv]⟩
        exact ⟨r0, hkeep, hr0t, hnb, by rw [hsame]; simpa using hv⟩
      · rw [← h3]; exact List.mem_map_of_mem hr'
    · intro hb
      by_cases hA : r.text ∈ ((aOf a0 b).routes).map (·.text)
      · left
        obtain ⟨r0, hr0m, hr0t⟩ := List.mem_map.mp hA
        refine ⟨by rw [← hr0t]; exact List.mem_map_of_mem (hsubR r0 hr0m), ?_⟩
        rintro ⟨a, _, _, h4, _⟩
        exact h4 hb
      · right
        obtain ⟨r', hr', hr't⟩ := List.mem_map.mp hb
        exact ⟨r', hr', hr't, hA⟩
  · intro t ht
    rcases (hr t).mp ht with ⟨h1, _⟩ | ⟨r', hr', h3, _⟩
    · exact Or.inl h1
    · exact Or.inr (by rw [← h3]; exact List.mem_map_of_mem hr')

theorem map_find_text (refs : List Route) (l : List String) :
    (l.map fun t => (refs.find? fun r => r.text == t).getD ⟨t, "", "", 0⟩).map (·.text) = l := by
  induction l with
  | nil => rfl
  | cons t l ih =>
    simp only [List.map_cons, ih]
    cases hf : refs.find? fun r => r.text == t with
    | none => rfl
    | some r' =>
      have ht' : r'.text = t := by simpa using List.find?_some hf
      simp [ht']

theorem routes_reconf (a0 : Config) (refs : List Route) (d : Dev) : (reconf a0 refs d).routes.map (·.text) = d.routes :=
  map_find_text refs d.routes

theorem hasAcl_reconf (a0 : Config) (refs : List Route) (d : Dev) (n : Name) : (reconf a0 refs d).hasAcl n = hasAcl d n := by
  simp only [Config.hasAcl, reconf, hasAcl, List.any_map]
  rfl

theorem lines_reconf (a0 : Config) (refs : List Route) (d : Dev) (n : Name) : (reconf a0 refs d).lines n = linesOf d n := by
  simp only [Config.lines, lookupD, reconf, linesOf, entriesOf]
  rw [lookup_map_snd d.acls (fun es : Entries => es.map (·.2)) n]
  cases d.acls.lookup n with
  | none => rfl
  | some es => rfl

/-! ## The second compare is statically settled -/

/-- Bindings read back from an interface with partner: the target's, under the device names. -/
theorem after_K3 {a0 b : Config} {sc : Scripts} (hw : WF a0 b sc) {d' : Dev} {nm : Name → Name} {R : List Name}
    (hA : After a0 b d' nm R) : ∀ bi ∈ b.intfs, ∀ x : String, x = bi.name → ∀ bd : Bind,
      bd ∈ bindsOf d' x ↔ ∃ bb ∈ bi.binds, bb.dir = bd.dir ∧ bd.acl = nm bb.acl := by
    intro bi hbi x hx bd
    subst hx
    constructor
    · intro hbd
      obtain ⟨hdir, hs⟩ := mem_bindsOf.mp hbd
      by_cases hd : bd.dir ∈ bi.binds.map (·.dir)
      · obtain ⟨bb, hbb, hbbd⟩ := List.mem_map.mp hd
        obtain ⟨_, j2, _⟩ := hA.slotB bi hbi bb hbb
        rw [hbbd, hs] at j2
        exact ⟨bb, hbb, hbbd, Option.some.inj j2⟩
      · rw [hA.slotNone bi hbi bd.dir hdir hd] at hs; cases hs
    · rintro ⟨bb, hbb, hbbd, hacl⟩
      obtain ⟨_, j2, _⟩ := hA.slotB bi hbi bb hbb
      refine mem_bindsOf.mpr ⟨by rw [← hbbd]; exact ((hw.bBinds bi hbi).2 bb hbb).1, ?_⟩
      rw [← hbbd, hacl]; exact j2

/-- The pairs the second compare looks at: a target ACL that is bound, with its device name. -/
theorem after_M {a0 b : Config} {sc : Scripts} (hw : WF a0 b sc) {d' : Dev} {nm : Name → Name} {R : List Name}
    (hA : After a0 b d' nm R) (refs : List Route) : ∀ aN bN, (aN, bN) ∈ cmpPairs (aOf (reconf a0 refs d') b) b →
      bN ∈ R ∧ aN = nm bN ∧ ∃ bi ∈ b.intfs, ∃ bd ∈ bi.binds, bd.acl = bN := by
    have K3 := after_K3 hw hA
    obtain ⟨hI2', _, _⟩ := align_reconf a0 b refs d'
    intro aN bN hp
    obtain ⟨ai2, hai2, bi, hbi, hn, ba, hba, bb, hbb, hd, h5, h6⟩ := mem_cmpPairs.mp hp
    rw [hI2'] at hai2
    obtain ⟨ai, hai, rfl⟩ := List.mem_map.mp hai2
    obtain ⟨bb', hbb', hbbd', hacl'⟩ := (K3 bi hbi ai.name hn ba).mp hba
    -- same direction, hence the same target sub-command
    have : bb' = bb := by
      obtain ⟨k, hk, hkk⟩ := List.getElem_of_mem hbb'
      obtain ⟨k', hk', hkk'⟩ := List.getElem_of_mem hbb
      have : k = k' := by
        have h1 : (bi.binds.map (·.dir))[k]'(by simpa using hk) = (bi.binds.map (·.dir))[k']'(by simpa using hk') := by
          simp only [List.getElem_map, hkk, hkk', hbbd', hd]
        exact (List.getElem_inj (hw.bBinds bi hbi).1).mp h1
      subst this
      rw [← hkk, ← hkk']
    subst this
    rw [← h5, ← h6]
    exact ⟨(hA.slotB bi hbi bb' hbb').1, hacl', bi, hbi, bb', hbb', rfl⟩


theorem settled_of_after {a0 b : Config} {sc : Scripts} (hw : WF a0 b sc) (hok : (engine a0 b sc).ok = true)
    {d' : Dev} {nm : Name → Name} {R : List Name} (hA : After a0 b d' nm R) (sc2 : Scripts)
    (hq : ∀ p ∈ cmpPairs (aOf (reconf a0 (a0.routes ++ b.routes) d') b) b,
      quietLines ((reconf a0 (a0.routes ++ b.routes) d').lines p.1) (b.lines p.2) (lookupD sc2.acl p) = true) :
    settledB (reconf a0 (a0.routes ++ b.routes) d') b sc2 = true := by
  obtain ⟨refs, hrefs⟩ : ∃ refs, refs = a0.routes ++ b.routes := ⟨_, rfl⟩
  rw [← hrefs] at hq ⊢
  obtain ⟨hI2', _, hR2'⟩ := align_reconf a0 b refs d'
  have hI2 := reconf_intfs a0 refs d'
  obtain ⟨rc1, rc2⟩ := routes_char hw hA.routes
  -- bindings read back from an interface without partner: the original ones
  have K1 : ∀ i ∈ a0.intfs, i.name ∉ b.intfs.map (·.name) → ∀ bd ∈ bindsOf d' i.name,
      ∃ bd0 ∈ i.binds, bd0.acl = bd.acl ∧ bd0.dir = bd.dir := by
    intro i hi hib bd hbd
    obtain ⟨hdir, hs⟩ := mem_bindsOf.mp hbd
    rw [hA.slotU i.name hib bd.dir hdir, slotOf_ofConfig a0 hw.aIntfs hi bd.dir hdir] at hs
    obtain ⟨bd0, h1, h2, h3⟩ := lastBind_some hs
    exact ⟨bd0, h1, h3, h2⟩
  have K2 : ∀ i ∈ a0.intfs, i.name ∉ b.intfs.map (·.name) → ∀ bd0 ∈ i.binds, (⟨bd0.acl, bd0.dir⟩ : Bind) ∈ bindsOf d' i.name := by
    intro i hi hib bd0 hbd0
    obtain ⟨k1, k2⟩ := hw.aBinds i hi
    refine mem_bindsOf.mpr ⟨(k2 bd0 hbd0).1, ?_⟩
    show slotOf d' i.name bd0.dir = some bd0.acl
    rw [hA.slotU i.name hib bd0.dir (k2 bd0 hbd0).1, slotOf_ofConfig a0 hw.aIntfs hi bd0.dir (k2 bd0 hbd0).1]
    exact lastBind_of_mem k1 hbd0
  have K3 := after_K3 hw hA
  have M : ∀ aN bN, (aN, bN) ∈ cmpPairs (aOf (reconf a0 refs d') b) b → bN ∈ R ∧ aN = nm bN :=
    fun aN bN hp => ⟨(after_M hw hA refs aN bN hp).1, (after_M hw hA refs aN bN hp).2.1⟩
  have Mready : ∀ bN ∈ R, (nm bN, bN) ∈ cmpPairs (aOf (reconf a0 refs d') b) b := by
    intro bN hbN
    obtain ⟨bi, hbi, bd, hbd, rfl⟩ := hA.boundR bN hbN
    obtain ⟨ai, hai, hain⟩ := hA.cov bi hbi
    refine mem_cmpPairs.mpr ⟨reI d' ai, by rw [hI2']; exact List.mem_map_of_mem hai, bi, hbi, hain,
      ⟨nm bd.acl, bd.dir⟩, ?_, bd, hbd, rfl, rfl, rfl⟩
    exact (K3 bi hbi ai.name hain _).mpr ⟨bd, hbd, rfl, rfl⟩
  -- an interface of the configuration read back that has no partner
  have U : ∀ i2 ∈ (reconf a0 refs d').intfs,
      (i2 ∉ (alignVRFs (reconf a0 refs d') b {}).2.intfs ∨ i2.name ∉ b.intfs.map (·.name)) →
      ∃ i ∈ a0.intfs, i2 = reI d' i ∧ i.name ∉ b.intfs.map (·.name) := by
    intro i2 hi2 hcase
    rw [hI2] at hi2
    obtain ⟨i, hi, rfl⟩ := List.mem_map.mp hi2
    refine ⟨i, hi, rfl, ?_⟩
    rcases hcase with hcase | hcase
    · apply unpaired_of_removed hw.aIntfs hA.subI hA.cov hi
      intro hc
      apply hcase
      show reI d' i ∈ (aOf (reconf a0 refs d') b).intfs
      rw [hI2']; exact List.mem_map_of_mem hc
    · exact hcase
  simp only [settledB, Bool.and_eq_true, decide_eq_true_eq, List.all_eq_true, Bool.or_eq_true, bne_iff_ne, ne_eq,
    Bool.not_eq_true', List.any_eq_true, beq_iff_eq]
  refine ⟨⟨⟨⟨⟨⟨⟨⟨⟨⟨⟨⟨?_, ?_⟩, hw.bIntfs⟩, ?_⟩, ?_⟩, ?_⟩, ?_⟩, ?_⟩, hq⟩, ?_⟩, ?_⟩, ?_⟩, ?_⟩
  · rw [engine_ok_reconf a0 b sc sc2]; exact hok
  · rw [hI2, List.map_map]
    exact hw.aIntfs
  · intro x hx
    rw [hI2] at hx
    obtain ⟨i, hi, rfl⟩ := List.mem_map.mp hx
    refine ⟨bindsOf_nodup d' i.name, ?_⟩
    intro bd hbd
    have hbd' : bd ∈ bindsOf d' i.name := hbd
    refine ⟨(mem_bindsOf.mp hbd').1, ?_⟩
    rw [hasAcl_reconf]
    by_cases hib : i.name ∈ b.intfs.map (·.name)
    · obtain ⟨bi, hbi, hbn⟩ := List.mem_map.mp hib
      obtain ⟨bb, hbb, _, hacl⟩ := (K3 bi hbi i.name hbn.symm bd).mp hbd'
      rw [hacl]; exact (hA.slotB bi hbi bb hbb).2.2
    · obtain ⟨bd0, h1, h2, _⟩ := K1 i hi hib bd hbd'
      rw [← h2]; exact hA.aclU i hi hib bd0 h1
  · intro bi hbi
    obtain ⟨k1, k2⟩ := hw.bBinds bi hbi
    exact ⟨k1, fun bd hbd => k2 bd hbd⟩
  · intro x hx bi hbi
    have hx' : x ∈ (aOf (reconf a0 refs d') b).intfs := hx
    rw [hI2'] at hx'
    obtain ⟨ai, hai, rfl⟩ := List.mem_map.mp hx'
    by_cases hn : ai.name = bi.name
    · right
      refine ⟨?_, ?_⟩
      · intro ba hba
        obtain ⟨bb, hbb, hd, _⟩ := (K3 bi hbi ai.name hn ba).mp hba
        exact ⟨bb, hbb, hd⟩
      · intro bb hbb
        exact ⟨⟨nm bb.acl, bb.dir⟩, (K3 bi hbi ai.name hn _).mpr ⟨bb, hbb, rfl, rfl⟩, rfl⟩
    · exact Or.inl hn
  · intro x hx y hy
    obtain ⟨h1, h2⟩ := M x.1 x.2 hx
    obtain ⟨h3, h4⟩ := M y.1 y.2 hy
    by_cases heq : x.2 = y.2
    · have : x.1 = y.1 := by rw [h2, h4, heq]
      have e1 : (x.1 == y.1) = true := by rw [this]; exact beq_self_eq_true _
      have e2 : (x.2 == y.2) = true := by rw [heq]; exact beq_self_eq_true _
      rw [e1, e2]
    · have : x.1 ≠ y.1 := by
        intro hc
        rw [h2, h4] at hc
        exact heq (hA.inj _ h1 _ h3 hc)
      have e1 : (x.1 == y.1) = false := beq_eq_false_iff_ne.mpr this
      have e2 : (x.2 == y.2) = false := beq_eq_false_iff_ne.mpr heq
      rw [e1, e2]
  · intro x hx
    obtain ⟨h1, h2⟩ := M x.1 x.2 hx
    rw [Bool.eq_false_iff]
    intro hcc
    obtain ⟨i2, hi2, hcase, hnb⟩ := mem_unpairedAcls.mp (List.contains_iff_mem.mp hcc)
    obtain ⟨i, hi, rfl, hib⟩ := U i2 hi2 hcase
    obtain ⟨bd, hbd, hbdacl⟩ := List.mem_map.mp hnb
    obtain ⟨bd0, j1, j2, _⟩ := K1 i hi hib bd hbd
    exact hA.notProt x.2 h1 i hi hib bd0 j1 (by rw [j2, hbdacl, h2])
  · -- route lines of the configuration read back
    have : (reconf a0 refs d').routes.map (·.text) = d'.routes := routes_reconf a0 refs d'
    rw [this]; exact hA.routesNd
  · intro rb hrb
    have hrbrefs : rb ∈ refs := by rw [hrefs]; exact List.mem_append_right _ hrb
    have hvb : rb.vrf ∈ b.routes.map (·.vrf) := List.mem_map_of_mem hrb
    have hin : rb.text ∈ d'.routes := (rc1 rb (by rw [← hrefs]; exact hrbrefs) hvb).mpr (List.mem_map_of_mem hrb)
    cases hf : refs.find? fun r => r.text == rb.text with
    | none =>
      have := List.find?_eq_none.mp hf rb hrbrefs
      simp at this
    | some ra =>
      have hrat : ra.text = rb.text := by simpa using List.find?_some hf
      have hramem : ra ∈ refs := List.mem_of_find?_eq_some hf
      have hra2 : ra ∈ (reconf a0 refs d').routes := List.mem_map.mpr ⟨rb.text, hin, by rw [hf]; rfl⟩
      refine ⟨ra, ?_, hrat⟩
      show ra ∈ (aOf (reconf a0 refs d') b).routes
      rw [hR2']
      split
      · exact hra2
      · refine List.mem_filter.mpr ⟨hra2, ?_⟩
        have hvr : ra.vrf ∈ b.routes.map (·.vrf) := by
          rw [hrefs] at hramem
          rcases List.mem_append.mp hramem with k | k
          · rw [hw.routeVrf ra k rb hrb hrat]; exact hvb
          · exact List.mem_map_of_mem k
        exact List.contains_iff_mem.mpr (List.mem_append_right _ hvr)
  · intro ra hra
    have hra' : ra ∈ (aOf (reconf a0 refs d') b).routes := hra
    have hra2 : ra ∈ (reconf a0 refs d').routes := by
      rw [hR2'] at hra'
      split at hra'
      · exact hra'
      · exact (List.mem_filter.mp hra').1
    obtain ⟨t, ht, hget⟩ := List.mem_map.mp hra2
    have hf : (refs.find? fun r => r.text == t) = some ra := by
      cases hf' : refs.find? fun r => r.text == t with
      | some r' => rw [hf'] at hget; exact congrArg some hget
      | none =>
        exfalso
        have hex : ∃ r ∈ refs, r.text = t := by
          rcases rc2 t ht with k | k
          · obtain ⟨r, hr, hrt⟩ := List.mem_map.mp k
            exact ⟨r, by rw [hrefs]; exact List.mem_append_left _ hr, hrt⟩
          · obtain ⟨r, hr, hrt⟩ := List.mem_map.mp k
            exact ⟨r, by rw [hrefs]; exact List.mem_append_right _ hr, hrt⟩
        obtain ⟨r, hr, hrt⟩ := hex
        have := List.find?_eq_none.mp hf' r hr
        simp [hrt] at this
    have hrat : ra.text = t := by simpa using List.find?_some hf
    have hramem : ra ∈ refs := List.mem_of_find?_eq_some hf
    by_cases hv : ra.vrf ∈ b.routes.map (·.vrf)
    · left
      have := (rc1 ra (by rw [← hrefs]; exact hramem) hv).mp (by rw [hrat]; exact ht)
      obtain ⟨rb, hrb, hrbt⟩ := List.mem_map.mp this
      exact ⟨rb, hrb, hrbt⟩
    · right
      rw [Bool.eq_false_iff]
      intro hc
      obtain ⟨rb, hrb, hrbv⟩ := List.any_eq_true.mp hc
      exact hv (List.mem_map.mpr ⟨rb, hrb, by simpa using hrbv⟩)
  · intro x hx
    have hxd : hasAcl d' x = true := by
      rw [← hasAcl_reconf a0 refs d' x]
      exact (hasAcl_config_iff _ x).mpr hx
    by_cases htag : isTagged x = true
    · rcases hA.tagged x hxd htag with ⟨bN, hbN, rfl⟩ | ⟨i, hi, hib, hxb⟩
      · exact Or.inr ⟨(nm bN, bN), Mready bN hbN, rfl⟩
      · left; right
        obtain ⟨bd0, hbd0, rfl⟩ := List.mem_map.mp hxb
        apply List.contains_iff_mem.mpr
        refine mem_unpairedAcls.mpr ⟨reI d' i, by rw [hI2]; exact List.mem_map_of_mem hi, Or.inr hib, ?_⟩
        exact List.mem_map.mpr ⟨⟨bd0.acl, bd0.dir⟩, K2 i hi hib bd0 hbd0, rfl⟩
    · left; left
      simpa using htag

/-- After a run of the class `WF` the configuration read back from the device is statically settled
against the same target as soon as the line planner is quiet on the pairs the second compare looks at. -/
theorem F2_settled_after (a0 b : Config) (sc : Scripts) (hw : WF a0 b sc) (hok : (engine a0 b sc).ok = true) :
    ∃ d' nm R, (exec (ofConfig a0) (engine a0 b sc).script).map strip = some d' ∧ After a0 b d' nm R ∧
      ∀ sc2, (∀ p ∈ cmpPairs (aOf (reconf a0 (a0.routes ++ b.routes) d') b) b,
          quietLines ((reconf a0 (a0.routes ++ b.routes) d').lines p.1) (b.lines p.2) (lookupD sc2.acl p) = true) →
        settledB (reconf a0 (a0.routes ++ b.routes) d') b sc2 = true := by
  obtain ⟨d1, σ1, π1, d3, p, hc⟩ := F2_core a0 b sc hw hok (ofConfig a0) (reads_ofConfig a0)
  have hA := after_of_core hw hc
  exact ⟨strip d3, _, _, hc.exec, hA, fun sc2 hq => settled_of_after hw hok hA sc2 hq⟩

/-! ## Exact convergence without suppressed moves; idempotence without a hypothesis on the planner -/

theorem act_of_flags (a a' : NA.Acl.Act) (h1 : (a == .permit) = (a' == .permit)) (h2 : (a == .remark) = (a' == .remark)) :
    a = a' := by
  cases a <;> cases a' <;> first | rfl | (exfalso; revert h1 h2; decide)

theorem idx_eq_of_mem {l : List String} {x y : String} (hy : y ∈ l) (h : l.idxOf x = l.idxOf y) : x = y := by
  have hx : x ∈ l := by
    rw [← List.idxOf_lt_length_iff, h, List.idxOf_lt_length_iff]; exact hy
  exact idxOf_inj hx hy h

/-- Equal under the numeric encoding ⇒ equal line by line (text, text without `log`, action). -/
theorem linesEq_of_exact {x y : List ALine} (h : ExactEq x y) : linesEqB x y = true := by
  obtain ⟨al, h⟩ := h
  unfold linesEqB
  rw [beq_iff_eq]
  have hgen : ∀ (x' y' : List ALine), (∀ l ∈ y', l ∈ y) → x'.map (encP al y) = y'.map (encP al y) →
      (x'.map fun l => (l.text, l.nolog, l.act)) = (y'.map fun l => (l.text, l.nolog, l.act)) := by
    intro x'
    induction x' with
    | nil =>
      intro y' _ he
      cases y' with
      | nil => rfl
      | cons _ _ => cases he
    | cons lx xs ih =>
      intro y' hsub he
      cases y' with
      | nil => cases he
      | cons ly ys =>
        simp only [List.map_cons, List.cons.injEq] at he ⊢
        obtain ⟨he1, he2⟩ := he
        have hly : ly ∈ y := hsub ly (List.mem_cons_self ..)
        have ht : lx.text = ly.text := by
          apply idx_eq_of_mem (l := tkOf al y)
          · exact List.mem_map.mpr ⟨ly, List.mem_append_right _ hly, rfl⟩
          · exact congrArg NA.Acl.Line.key he1
        have hn : lx.nolog = ly.nolog := by
          apply idx_eq_of_mem (l := mkOf al y)
          · exact List.mem_map.mpr ⟨ly, List.mem_append_right _ hly, rfl⟩
          · exact congrArg NA.Acl.Line.mkey he1
        have ha : lx.act = ly.act :=
          act_of_flags _ _ (congrArg NA.Acl.Line.permit he1) (congrArg NA.Acl.Line.remark he1)
        refine ⟨by rw [ht, hn, ha], ih ys (fun l hl => hsub l (List.mem_cons_of_mem _ hl)) he2⟩
  exact hgen x y (fun _ hl => hl) h

/-- After the run every ACL bound for the target is exactly the target's, unless a move was suppressed. -/
theorem exact_of_core {a0 b : Config} {sc : Scripts} (hw : WF a0 b sc) {d1 : Dev} {σ1 : String → String → Status}
    {π1 : List (Nat × Nat)} {d3 : Dev} {p : List Name} (hc : Core a0 b sc (ofConfig a0) d1 σ1 π1 d3 p) :
    ∀ bi ∈ b.intfs, ∀ bd ∈ bi.binds,
      ExactEq (linesOf (strip d3) ((st3Of a0 b sc).nameOf bd.acl)) (b.lines bd.acl) ∨ SupprT (envOf a0 b sc) bd.acl := by
  intro bi hbi bd hbd
  have hsem1 := hc.sem
  have hhas : ∀ n, (aOf a0 b).hasAcl n = a0.hasAcl n := fun n => by simp [Config.hasAcl, hc.aclsEq]
  obtain ⟨ai, _, _, hdn⟩ := hc.done bi hbi
  have hσ := hdn.settled bd hbd
  have hdir := (hw.bBinds bi hbi).2 bd hbd
  have hs := hsem1.slots bi.name bd.dir hdir.1
  rw [hσ] at hs
  obtain ⟨hr, _⟩ := hs
  obtain ⟨_, _, h3, h4⟩ := hsem1.ready bd.acl hr
  have hnp : (st3Of a0 b sc).nameOf bd.acl ∉ p := by
    intro hcc
    obtain ⟨hna, hnn⟩ := hc.pmem _ hcc
    rcases h4 with h4 | h4
    · exact hnn h4
    · have h4' : a0.hasAcl ((st3Of a0 b sc).nameOf bd.acl) = false := by rw [← hhas]; exact h4
      rw [hna] at h4'; cases h4'
  obtain ⟨k1, _⟩ := hc.keep3 _ hnp
  have : linesOf (strip d3) ((st3Of a0 b sc).nameOf bd.acl) = linesOf d1 ((st3Of a0 b sc).nameOf bd.acl) := by
    simp only [linesOf, entriesOf_strip, k1]
  rw [this]
  exact h3.2

/-- **Idempotence in the class of exact convergence.**  `WF` run in which no compared pair has a
suppressed move; a differ that answers the identity script on lists that are equal line by line
(`IdentityDiffer`): the second compare prints nothing — no hypothesis on the planner's answer. -/
theorem F2_idempotent_exact (a0 b : Config) (sc : Scripts) (hw : WF a0 b sc) (hok : (engine a0 b sc).ok = true)
    (hns : ∀ aN bN, Cmp (envOf a0 b sc) aN bN →
      noSupprPair ((aOf a0 b).lines aN) (b.lines bN) (lookupD sc.acl (aN, bN)) = true) :
    ∃ d', (exec (ofConfig a0) (engine a0 b sc).script).map strip = some d' ∧
      (∀ p ∈ cmpPairs (aOf (reconf a0 (a0.routes ++ b.routes) d') b) b,
        linesEqB ((reconf a0 (a0.routes ++ b.routes) d').lines p.1) (b.lines p.2) = true) ∧
      ∀ sc2, (∀ p ∈ cmpPairs (aOf (reconf a0 (a0.routes ++ b.routes) d') b) b,
          linesEqB ((reconf a0 (a0.routes ++ b.routes) d').lines p.1) (b.lines p.2) = true →
          identityOn ((reconf a0 (a0.routes ++ b.routes) d').lines p.1) (b.lines p.2) (lookupD sc2.acl p) = true) →
        settledB (reconf a0 (a0.routes ++ b.routes) d') b sc2 = true ∧
        (engine (reconf a0 (a0.routes ++ b.routes) d') b sc2).script = [] := by
  obtain ⟨d1, σ1, π1, d3, p, hc⟩ := F2_core a0 b sc hw hok (ofConfig a0) (reads_ofConfig a0)
  have hA := after_of_core hw hc
  have hex := exact_of_core hw hc
  have heq : ∀ p ∈ cmpPairs (aOf (reconf a0 (a0.routes ++ b.routes) (strip d3)) b) b,
      linesEqB ((reconf a0 (a0.routes ++ b.routes) (strip d3)).lines p.1) (b.lines p.2) = true := by
    intro q hq
    obtain ⟨_, h2, bi, hbi, bd, hbd, h3⟩ := after_M hw hA (a0.routes ++ b.routes) q.1 q.2 hq
    rw [lines_reconf, h2, ← h3]
    rcases hex bi hbi bd hbd with k | ⟨aN, hcmp, hsup⟩
    · exact linesEq_of_exact k
    · rw [hns aN bd.acl hcmp] at hsup; cases hsup
  refine ⟨strip d3, hc.exec, heq, ?_⟩
  intro sc2 hid
  have hS := settled_of_after hw hok hA sc2 (fun q hq => identityOn_quiet _ _ _ (hid q hq (heq q hq)))
  exact ⟨hS, F2_quiet _ b sc2 hS⟩

end NA.F2
