import NA.Proofs.C09Inv
/-!
# C09: what one wait for the device (`recv`, `roundTrip`) does to the invariant
-/
namespace NA.C09
open NA.Sess NA.Apply NA.Spec.C09

variable (bad : Role → Reply → Bool)

/-- Running; all replies but the most recent one are good; the most recent one is `s.last`,
read under role `ρ`, and nothing has been recorded since. -/
structure Pd (ρ : Role) (s : St) : Prop where
  mode : s.mode = .run
  split : ∃ tr0, s.tr = tr0 ++ [.got ρ s.last] ∧ safe bad tr0 = true ∧ faulted bad tr0 = false

theorem Pd.safe {ρ : Role} {s : St} (h : Pd bad ρ s) : NA.Spec.C09.safe bad s.tr = true := by
  obtain ⟨tr0, he, hs, _⟩ := h.split
  rw [he, safe_append_quiet bad tr0 _ (by simp [isChangeOrSave])]; exact hs

/-- once the most recent reply is known to be good, the state is clean -/
theorem Pd.clean {ρ : Role} {s : St} (h : Pd bad ρ s) (hg : bad ρ s.last = false) :
    NA.Spec.C09.safe bad s.tr = true ∧ faulted bad s.tr = false := by
  refine ⟨h.safe, ?_⟩
  obtain ⟨tr0, he, _, hf⟩ := h.split
  rw [he, faulted_snoc, hf]; simp [isBadGot, hg]

/-- fields that the checks following a wait do not touch -/
theorem Pd.congr {ρ : Role} {s s' : St} (h : Pd bad ρ s) (ht : s'.tr = s.tr) (hl : s'.last = s.last)
    (hm : s'.mode = .run) : Pd bad ρ s' :=
  ⟨hm, by rw [ht, hl]; exact h.split⟩

/-- an abort while the most recent reply is still unchecked: nothing but the log line follows -/
theorem Pd.abort {ρ : Role} {s : St} (h : Pd bad ρ s) (l : List String) (env : Env) :
    Jv bad (exec (.abort l) env s) ∧ (exec (.abort l) env s).mode = .panic := by
  have hs : NA.Spec.C09.safe bad (s.tr ++ [Ev.logErr]) = true := by
    rw [safe_append_quiet bad _ _ (by simp [isChangeOrSave])]; exact h.safe
  simp only [exec, h.mode, if_true]
  exact ⟨⟨hs, by simp, by simp, by simp⟩, by simp⟩

/-- result of a wait -/
inductive Waited (ρ : Role) (p : Pat) (s s' : St) : Prop
  | got (h : Pd bad ρ s') (he : s'.errv = !p.matches s'.last)
  | nothing (hc : NA.Spec.C09.safe bad s'.tr = true ∧ faulted bad s'.tr = false) (he : s'.errv = true) (hm : s'.mode = .run)

theorem recvLoop_waited (dev : Dev) (ρ : Role) (p : Pat) :
    ∀ (n : Nat) (s : St), s.mode = .run → NA.Spec.C09.safe bad s.tr = true → faulted bad s.tr = false →
      Waited bad ρ p s (recvLoop dev ρ p n s) ∧ (recvLoop dev ρ p n s).ctr = s.ctr := by
  intro n
  induction n with
  | zero =>
    intro s hm hs hf
    exact ⟨.nothing ⟨hs, hf⟩ rfl hm, rfl⟩
  | succ n ih =>
    intro s hm hs hf
    simp only [recvLoop]
    split
    · rename_i hmatch
      exact ⟨.got ⟨hm, s.tr, rfl, hs, hf⟩ (by simp [hmatch]), rfl⟩
    · split
      · have hc := clean_append bad (l := [Ev.skipped (dev s.tr)]) hs hf (by simp [faulted, isBadGot])
        have := ih { s with tr := s.tr ++ [Ev.skipped (dev s.tr)] } hm hc.1 hc.2
        refine ⟨?_, this.2⟩
        cases this.1 with
        | got h he => exact .got h he
        | nothing hc he hm' => exact .nothing hc he hm'
      · rename_i hmatch _
        exact ⟨.got ⟨hm, s.tr, rfl, hs, hf⟩ (by simp [hmatch]), rfl⟩

theorem recv_waited (ρ : Role) (p : Pat) (env : Env) (s : St) (hj : J bad s) (hm : s.mode = .run) :
    Waited bad ρ p s (exec (.recv ρ p) env s) := by
  simp only [exec, hm, if_true]
  exact (recvLoop_waited bad env.dev ρ p _ s hm hj.safe (hj.run hm)).1

end NA.C09
