import NA.Proofs.C09Inv
/-!
# C09: what one wait for the device (`recv`, `roundTrip`) does to the invariant
-/
namespace NA.C09
open NA.Sess NA.Apply NA.Spec.C09

variable (bad : Role → Reply → Bool)

/-- Running; all replies but the most recent one are good; the most recent one is `s.last`,
read under role `ρ`, and nothing has been recorded since. -/
structure Pd (ρ : Role) (s : St) : Prop where
  mode : s.mode = .run
  split : ∃ tr0, s.tr = tr0 ++ [.got ρ s.last] ∧ safe bad tr0 = true ∧ faulted bad tr0 = false

theorem Pd.safe {ρ : Role} {s : St} (h : Pd bad ρ s) : NA.Spec.C09.safe bad s.tr = true := by
  obtain ⟨tr0, he, hs, _⟩ := h.split
  rw [he, safe_append_quiet bad tr0 _ (by simp [isChangeOrSave])]; exact hs

/-- once the most recent reply is known to be good, the state is clean -/
theorem Pd.clean {ρ : Role} {s : St} (h : Pd bad ρ s) (hg : bad ρ s.last = false) :
    NA.Spec.C09.safe bad s.tr = true ∧ faulted bad s.tr = false := by
  refine ⟨h.safe, ?_⟩
  obtain ⟨tr0, he, _, hf⟩ := h.split
  rw [he, faulted_snoc, hf]; simp [isBadGot, hg]

/-- fields that the checks following a wait do not touch -/
theorem Pd.congr {ρ : Role} {s s' : St} (h : Pd bad ρ s) (ht : s'.tr = s.tr) (hl : s'.last = s.last)
    (hm : s'.mode = .run) : Pd bad ρ s' :=
  ⟨hm, by rw [ht, hl]; exact h.split⟩

/-- an abort while the most recent reply is still unchecked: nothing but the log line follows -/
theorem Pd.abort {ρ : Role} {s : St} (h : Pd bad ρ s) (l : List String) (env : Env) :
    Jv bad (exec (.abort l) env s) ∧ (exec (.abort l) env s).mode = .panic := by
  have hs : NA.Spec.C09.safe bad (s.tr ++ [Ev.logErr]) = true := by
    rw [safe_append_quiet bad _ _ (by simp [isChangeOrSave])]; exact h.safe
  simp only [exec, h.mode, if_true]
  exact ⟨⟨hs, by simp, by simp, by simp⟩, by simp⟩

/-- result of a wait -/
inductive Waited (ρ : Role) (p : Pat) (s s' : St) : Prop
  | got (h : Pd bad ρ s') (he : s'.errv = !p.matches s'.last)
  | nothing (hc : NA.Spec.C09.safe bad s'.tr = true ∧ faulted bad s'.tr = false) (he : s'.errv = true) (hm : s'.mode = .run)

theorem recvLoop_waited (dev : Dev) (ρ : Role) (p : Pat) :
    ∀ (n : Nat) (s : St), s.mode = .run → NA.Spec.C09.safe bad s.tr = true → faulted bad s.tr = false →
      Waited bad ρ p s (recvLoop dev ρ p n s) ∧ (recvLoop dev ρ p n s).ctr = s.ctr := by
  intro n
  induction n with
  | zero =>
    intro s hm hs hf
    exact ⟨.nothing ⟨hs, hf⟩ rfl hm, rfl⟩
  | succ n ih =>
    intro s hm hs hf
    simp only [recvLoop]
    split
    · rename_i hmatch
      exact ⟨.got ⟨hm, s.tr, rfl, hs, hf⟩ (by simp [hmatch]), rfl⟩
    · split
      · have hc := clean_append bad (l := [Ev.skipped (dev s.tr)]) hs hf (by simp [faulted, isBadGot])
        have := ih { s with tr := s.tr ++ [Ev.skipped (dev s.tr)] } hm hc.1 hc.2
        refine ⟨?_, this.2⟩
        cases this.1 with
        | got h he => exact .got h he
        | nothing hc he hm' => exact .nothing hc he hm'
      · rename_i hmatch _
        exact ⟨.got ⟨hm, s.tr, rfl, hs, hf⟩ (by simp [hmatch]), rfl⟩

theorem recv_waited (ρ : Role) (p : Pat) (env : Env) (s : St) (hj : J bad s) (hm : s.mode = .run) :
    Waited bad ρ p s (exec (.recv ρ p) env s) := by
  simp only [exec, hm, if_true]
  exact (recvLoop_waited bad env.dev ρ p _ s hm hj.safe (hj.run hm)).1

end NA.C09

namespace NA.C09
open NA.Sess NA.Apply NA.Spec.C09

/-! ## equation lemmas for the control constructs (leave `recv` / `roundTrip` folded) -/
section eqs
variable (env : Env) (s : St)
theorem exec_seq (a b : Sess) : exec (a ;; b) env s = exec b env (exec a env s) := by simp [exec]
theorem exec_skip : exec .skip env s = s := by simp [exec]
theorem exec_call (n : String) (l : List String) (body : Sess) (hm : s.mode = .run) :
    exec (.call n l body) env s =
      (if (exec body env s).mode = .ret then { exec body env s with mode := .run } else exec body env s) := by
  simp [exec, hm]
theorem exec_ite (c : Cond) (l : String) (t e : Sess) (hm : s.mode = .run) :
    exec (.ite c l t e) env s = (if evalCond c env s then exec t env s else exec e env s) := by
  simp [exec, hm]
theorem exec_ret (v : RetV) (l : List String) (hm : s.mode = .run) :
    exec (.ret v l) env s = { s with mode := .ret, errv := match v with | .none => s.errv | .nil => false | .err => true | .keep => s.errv } := by
  cases v <;> simp [exec, hm]
theorem exec_abort (l : List String) (hm : s.mode = .run) :
    exec (.abort l) env s = { s with tr := s.tr ++ [.logErr], mode := .panic } := by simp [exec, hm]
theorem exec_op (n : String) (l : List String) : exec (op n l) env s = s := by
  by_cases hm : s.mode = .run
  · simp [op, exec, hm]
  · exact exec_nonrun _ _ _ hm
end eqs

variable (bad : Role → Reply → Bool)

/-- outcome of a function that waits for the device and aborts when the wait fails -/
inductive Awaited (ρ : Role) (p : Pat) (s s' : St) : Prop
  | ok (h : Pd bad ρ s') (hp : p.matches s'.last = true) (he : s'.errv = false) (hc : s'.ctr = s.ctr)
  | aborted (h : Jv bad s') (hm : s'.mode = .panic)

theorem waitCall_spec (name : String) (cl lits : List String) (ρ : Role) (p : Pat) (env : Env) (s : St)
    (hj : J bad s) (hm : s.mode = .run) :
    Awaited bad ρ p s
      (exec (.call name cl (expectLog ρ p ;; .ite .err "err != nil" (.abort lits) .skip ;; .ret .none ["_"])) env s) := by
  obtain ⟨hw, hctr⟩ := recvLoop_waited bad env.dev ρ p (linesSent s.tr + 1 - repliesRead s.tr) s hm hj.safe (hj.run hm)
  simp only [expectLog, expectLogBody, Bool.false_eq_true, if_false, exec, hm, if_true]
  generalize recvLoop env.dev ρ p (linesSent s.tr + 1 - repliesRead s.tr) s = s1 at hw hctr
  cases hw with
  | got h he =>
    have hm1 := h.mode
    obtain ⟨tr0, hsplit, hs0, hf0⟩ := h.split
    cases hmt : p.matches s1.last with
    | true =>
      have he' : s1.errv = false := by rw [he, hmt]; rfl
      simp only [hm1, he', evalCond, if_true, Bool.false_eq_true, if_false]
      exact .ok ⟨rfl, tr0, hsplit, hs0, hf0⟩ hmt rfl hctr
    | false =>
      have he' : s1.errv = true := by rw [he, hmt]; rfl
      simp only [hm1, he', evalCond, if_true]
      refine .aborted ⟨?_, by simp, by simp, by simp⟩ (by simp)
      show NA.Spec.C09.safe bad (s1.tr ++ [Ev.logErr]) = true
      rw [safe_append_quiet bad _ _ (by simp [isChangeOrSave])]; exact h.safe
  | nothing hc he hm' =>
    simp only [hm', he, evalCond, if_true]
    refine .aborted ⟨?_, by simp, by simp, by simp⟩ (by simp)
    show NA.Spec.C09.safe bad (s1.tr ++ [Ev.logErr]) = true
    rw [safe_append_quiet bad _ _ (by simp [isChangeOrSave])]; exact hc.1

end NA.C09
