import NA.Model.NsxDiff
/-!
Helper lemmas for C04: what an arbitrary VALID edit script says about two address lists
(`addrDiff`), and the three branches of `groupCalls` executed on the strict store.
-/
namespace NA.Nsx

theorem validFrom_le {eq : Nat → Nat → Bool} {aLen bLen : Nat} :
    ∀ (rs : List Range) (x y : Nat), validFrom eq aLen bLen rs x y = true → x ≤ aLen ∧ y ≤ bLen := by
  intro rs
  induction rs with
  | nil =>
    intro x y h
    simp [validFrom] at h
    omega
  | cons r rest ih =>
    intro x y h
    unfold validFrom at h
    by_cases hd : r.isDelete = true
    · simp [hd] at h
      obtain ⟨⟨h1, h2⟩, h3⟩ := h
      have := ih _ _ h3
      omega
    · by_cases hi : r.isInsert = true
      · simp [hd, hi] at h
        obtain ⟨⟨h1, h2⟩, h3⟩ := h
        have := ih _ _ h3
        omega
      · simp [hd, hi] at h
        obtain ⟨⟨⟨⟨⟨h1, h2⟩, h3⟩, h4⟩, _⟩, h6⟩ := h
        have := ih _ _ h6
        omega

theorem take_drop_eq_of_pointwise (a b : List String) (x y n : Nat) (ha : x + n ≤ a.length)
    (hb : y + n ≤ b.length) (h : ∀ i, (hi : i < n) → a[x + i]'(by omega) = b[y + i]'(by omega)) :
    (a.drop x).take n = (b.drop y).take n := by
  apply List.ext_getElem
  · simp [List.length_take, List.length_drop]; omega
  · intro i h1 h2
    simp [List.length_take, List.length_drop] at h1 h2
    have hi := h i (by omega)
    simp [List.getElem_take, List.getElem_drop]
    exact hi

theorem addrDiff_del (r : Range) (rest : List Range) (a b : List String) (h : r.isDelete = true) :
    addrDiff (r :: rest) a b =
      ((a.drop r.lowA).take (r.highA - r.lowA) ++ (addrDiff rest a b).1, (addrDiff rest a b).2) := by
  simp [addrDiff, h]

theorem addrDiff_ins (r : Range) (rest : List Range) (a b : List String) (h : r.isDelete = false)
    (h2 : r.isInsert = true) :
    addrDiff (r :: rest) a b =
      ((addrDiff rest a b).1, (b.drop r.lowB).take (r.highB - r.lowB) ++ (addrDiff rest a b).2) := by
  simp [addrDiff, h, h2]

theorem addrDiff_eq (r : Range) (rest : List Range) (a b : List String) (h : r.isDelete = false)
    (h2 : r.isInsert = false) : addrDiff (r :: rest) a b = addrDiff rest a b := by
  simp [addrDiff, h, h2]

theorem drop_split (a : List String) (x hi : Nat) (h : x ≤ hi) :
    a.drop x = (a.drop x).take (hi - x) ++ a.drop hi := by
  have : a.drop hi = (a.drop x).drop (hi - x) := by
    rw [List.drop_drop]; congr 1; omega
  rw [this, List.take_append_drop]

/-- A valid script splits both lists into the same kept elements plus what is removed
respectively added. -/
theorem addrDiff_perm (a b : List String) (eq : Nat → Nat → Bool)
    (heq : ∀ i j (hi : i < a.length) (hj : j < b.length), eq i j = true → a[i] = b[j]) :
    ∀ (rs : List Range) (x y : Nat),
      validFrom eq a.length b.length rs x y = true →
      ∃ kept, (a.drop x).Perm (kept ++ (addrDiff rs a b).1) ∧ (b.drop y).Perm (kept ++ (addrDiff rs a b).2) := by
  intro rs
  induction rs with
  | nil =>
    intro x y h
    simp [validFrom] at h
    refine ⟨[], ?_, ?_⟩ <;> simp [addrDiff, h.1, h.2]
  | cons r rest ih =>
    intro x y h
    unfold validFrom at h
    cases hd : r.isDelete with
    | true =>
      simp [hd] at h
      obtain ⟨⟨h1, h2⟩, h3⟩ := h
      obtain ⟨kept, p1, p2⟩ := ih _ _ h3
      rw [addrDiff_del r rest a b hd]
      refine ⟨kept, ?_, p2⟩
      subst h1
      refine List.Perm.trans (List.Perm.of_eq (drop_split a r.lowA r.highA h2)) ?_
      refine (List.Perm.append_left _ p1).trans ?_
      simp only [← List.append_assoc]
      exact List.Perm.append_right _ List.perm_append_comm
    | false =>
      cases hi : r.isInsert with
      | true =>
        simp [hd, hi] at h
        obtain ⟨⟨h1, h2⟩, h3⟩ := h
        obtain ⟨kept, p1, p2⟩ := ih _ _ h3
        rw [addrDiff_ins r rest a b hd hi]
        refine ⟨kept, p1, ?_⟩
        subst h1
        refine List.Perm.trans (List.Perm.of_eq (drop_split b r.lowB r.highB h2)) ?_
        refine (List.Perm.append_left _ p2).trans ?_
        simp only [← List.append_assoc]
        exact List.Perm.append_right _ List.perm_append_comm
      | false =>
        simp [hd, hi] at h
        obtain ⟨⟨⟨⟨⟨h1, h2⟩, h3⟩, h4⟩, h5⟩, h6⟩ := h
        obtain ⟨kept, p1, p2⟩ := ih _ _ h6
        have hle' := validFrom_le _ _ _ h6
        subst h1; subst h2
        have hka : (a.drop r.lowA).take (r.highA - r.lowA) = (b.drop r.lowB).take (r.highA - r.lowA) :=
          take_drop_eq_of_pointwise a b r.lowA r.lowB (r.highA - r.lowA) (by omega) (by omega) (by
            intro i hi'
            exact heq _ _ (by omega) (by omega) (h5 i hi'))
        rw [addrDiff_eq r rest a b hd hi]
        refine ⟨(a.drop r.lowA).take (r.highA - r.lowA) ++ kept, ?_, ?_⟩
        · refine List.Perm.trans (List.Perm.of_eq (drop_split a r.lowA r.highA h3)) ?_
          rw [List.append_assoc]
          exact List.Perm.append_left _ p1
        · have hb : r.highB - r.lowB = r.highA - r.lowA := by omega
          refine List.Perm.trans (List.Perm.of_eq (drop_split b r.lowB r.highB (by omega))) ?_
          rw [List.append_assoc, hka, hb]
          exact List.Perm.append_left _ p2

end NA.Nsx

namespace NA.Nsx

/-! ### Executing `groupCalls` on the strict store -/

theorem findGroup_setGroupAddrs (gs : List Group) (id : String) (f : Group → Group)
    (hf : ∀ g, (f g).id = g.id) :
    findGroup (setGroupAddrs gs id f) id = (findGroup gs id).map f := by
  induction gs with
  | nil => rfl
  | cons g rest ih =>
    unfold findGroup at *
    simp only [setGroupAddrs, List.map_cons, List.find?_cons]
    by_cases h : g.id = id
    · simp [h, hf]
    · have h1 : (g.id == id) = false := by simpa using h
      simp only [h1, Bool.false_eq_true, if_false]
      simpa [setGroupAddrs] using ih

theorem setGroupAddrs_comp (gs : List Group) (id : String) (f h : Group → Group) (hf : ∀ g, (f g).id = g.id) :
    setGroupAddrs (setGroupAddrs gs id f) id h = setGroupAddrs gs id (h ∘ f) := by
  simp only [setGroupAddrs, List.map_map]
  apply List.map_congr_left
  intro a _
  by_cases ha : a.id = id <;> simp [ha, hf]

theorem setGroupAddrs_id (gs : List Group) (id : String) : setGroupAddrs gs id (fun g => g) = gs := by
  simp [setGroupAddrs]

theorem exec_remove (S : Store) (gid e : String) (g : Group) (rm : List String)
    (hfind : findGroup S.groups gid = some g) (he : g.exprId = e) (hall : ∀ x ∈ rm, x ∈ g.addrs)
    (hne : ∃ x ∈ g.addrs, x ∉ rm) :
    exec S (.postAddrs gid e false rm) =
      .ok { S with groups := setGroupAddrs S.groups gid fun g => { g with addrs := g.addrs.filter (!rm.contains ·) } } := by
  have h1 : rm.all (g.addrs.contains ·) = true := by
    simp only [List.all_eq_true, List.contains_eq_mem, decide_eq_true_eq]
    exact hall
  have h2 : (g.addrs.filter (!rm.contains ·)).isEmpty = false := by
    obtain ⟨x, hx, hxn⟩ := hne
    rw [Bool.eq_false_iff]
    intro hemp
    have : g.addrs.filter (!rm.contains ·) = [] := by simpa using hemp
    have hm : x ∈ g.addrs.filter (!rm.contains ·) := List.mem_filter.mpr ⟨hx, by simpa using hxn⟩
    rw [this] at hm; cases hm
  simp only [exec, hfind, he, bne_self_eq_false, Bool.false_eq_true, if_false, h1, Bool.not_true, h2]

theorem exec_add (S : Store) (gid e : String) (g : Group) (ad : List String)
    (hfind : findGroup S.groups gid = some g) (he : g.exprId = e) (hall : ∀ x ∈ ad, x ∉ g.addrs) :
    exec S (.postAddrs gid e true ad) =
      .ok { S with groups := setGroupAddrs S.groups gid fun g => { g with addrs := g.addrs ++ ad } } := by
  have : ad.any (g.addrs.contains ·) = false := by
    rw [Bool.eq_false_iff]
    intro h
    simp only [List.any_eq_true, List.contains_eq_mem, decide_eq_true_eq] at h
    obtain ⟨x, hx, hx'⟩ := h
    exact hall x hx hx'
  simp [exec, hfind, he]
  exact hall

/-- The three branches of `equalizeGroups`' address update — PATCH of the whole expression,
remove/add of single addresses, nothing — are accepted by the strict store and leave the device
group with exactly the target's addresses; nothing else changes.  `ga` is the group as the
planner sees it (addresses sorted), `g0` the group on the manager. -/
theorem groupCalls_converges' (diff : Diff)
    (hdiff : ∀ n m eq, validScript n m eq (diff n m eq) = true)
    (S : Store) (ga gb g0 : Group) (hfind : findGroup S.groups ga.id = some g0)
    (he : g0.exprId = ga.exprId) (hp : g0.addrs.Perm ga.addrs)
    (hna : ga.addrs.Nodup) (hnb : gb.addrs.Nodup) (hbne : gb.addrs ≠ []) :
    ∃ S' f, run S (groupCalls diff ga gb) = some S' ∧
      S'.policies = S.policies ∧ S'.services = S.services ∧
      S'.groups = setGroupAddrs S.groups ga.id f ∧
      (∀ g, (f g).id = g.id ∧ (f g).exprId = g.exprId) ∧
      ∀ x, x ∈ (f g0).addrs ↔ x ∈ gb.addrs := by
  unfold groupCalls
  generalize hrs : diff ga.addrs.length gb.addrs.length (fun i j => ga.addrs[i]! == gb.addrs[j]!) = rs
  have hv := hdiff ga.addrs.length gb.addrs.length (fun i j => ga.addrs[i]! == gb.addrs[j]!)
  rw [hrs] at hv
  obtain ⟨kept, pa, pb⟩ := addrDiff_perm ga.addrs gb.addrs _ (by
    intro i j hi hj h
    have e1 : ga.addrs[i]! = ga.addrs[i] := getElem!_pos ga.addrs i hi
    have e2 : gb.addrs[j]! = gb.addrs[j] := getElem!_pos gb.addrs j hj
    simp only [e1, e2] at h
    simpa using h) rs 0 0 hv
  simp only [List.drop_zero] at pa pb
  generalize hrm : (addrDiff rs ga.addrs gb.addrs).1 = rm at pa
  generalize had : (addrDiff rs ga.addrs gb.addrs).2 = ad at pb
  have hsplit : addrDiff rs ga.addrs gb.addrs = (rm, ad) := by rw [← hrm, ← had]
  simp only [hsplit]
  by_cases hpatch : (decide (ga.addrs.length + ad.length < rm.length + rm.length) ||
      (rm.length == ga.addrs.length && decide (0 < rm.length))) = true
  · -- PATCH of the whole expression
    simp only [hpatch, if_true]
    refine ⟨{ S with groups := setGroupAddrs S.groups ga.id fun g => { g with rtype := gb.rtype, addrs := gb.addrs } },
      fun g => { g with rtype := gb.rtype, addrs := gb.addrs }, ?_, rfl, rfl, rfl, fun _ => ⟨rfl, rfl⟩,
      fun _ => Iff.rfl⟩
    have hbe : gb.addrs.isEmpty = false := by cases h : gb.addrs <;> simp_all
    simp [run, exec, hfind, he, hbe]
  · simp only [hpatch, Bool.false_eq_true, if_false]
    have hnotall : ¬(rm.length = ga.addrs.length ∧ 0 < rm.length) := by
      intro h
      apply hpatch
      have h1 : (rm.length == ga.addrs.length) = true := by simp [h.1]
      have h2 : decide (0 < rm.length) = true := by simp [h.2]
      rw [h1, h2]; simp
    have hlen : ga.addrs.length = kept.length + rm.length := by rw [pa.length_eq, List.length_append]
    have hkr : (kept ++ rm).Nodup := pa.nodup_iff.mp hna
    have hka : (kept ++ ad).Nodup := pb.nodup_iff.mp hnb
    have hmemA : ∀ x, x ∈ g0.addrs ↔ x ∈ kept ∨ x ∈ rm := fun x => by rw [hp.mem_iff, pa.mem_iff, List.mem_append]
    have hmemB : ∀ x, x ∈ gb.addrs ↔ x ∈ kept ∨ x ∈ ad := fun x => by rw [pb.mem_iff, List.mem_append]
    have hdisjR : ∀ x, x ∈ kept → x ∉ rm := fun x h1 h2 => (List.nodup_append.mp hkr).2.2 x h1 x h2 rfl
    have hdisjA : ∀ x, x ∈ kept → x ∉ ad := fun x h1 h2 => (List.nodup_append.mp hka).2.2 x h1 x h2 rfl
    have hmem1 : ∀ x, x ∈ g0.addrs.filter (!rm.contains ·) ↔ x ∈ kept := by
      intro x
      simp only [List.mem_filter, hmemA, List.contains_eq_mem, Bool.not_eq_eq_eq_not, Bool.not_true,
        decide_eq_false_iff_not]
      constructor
      · rintro ⟨h | h, hn⟩
        · exact h
        · exact absurd h hn
      · intro h
        exact ⟨Or.inl h, hdisjR x h⟩
    have hrmIn : ∀ x ∈ rm, x ∈ g0.addrs := fun x hx => (hmemA x).mpr (Or.inr hx)
    let fr : Group → Group := fun g => { g with addrs := g.addrs.filter (!rm.contains ·) }
    let fa : Group → Group := fun g => { g with addrs := g.addrs ++ ad }
    have hfr : ∀ g, (fr g).id = g.id := fun _ => rfl
    by_cases hre : rm = []
    · subst hre
      by_cases hae : ad = []
      · subst hae
        refine ⟨S, fun g => g, by simp [run], rfl, rfl, (setGroupAddrs_id _ _).symm, fun _ => ⟨rfl, rfl⟩, ?_⟩
        intro x
        rw [hmemA, hmemB]
      · have hne : ad.isEmpty = false := by cases ad <;> simp_all
        have hx := exec_add S ga.id ga.exprId g0 ad hfind he (by
          intro x hx hx'
          rcases (hmemA x).mp hx' with h | h
          · exact hdisjA x h hx
          · simp at h)
        refine ⟨{ S with groups := setGroupAddrs S.groups ga.id fa }, fa, by simp [run, hne, hx, fa], rfl, rfl, rfl,
          fun _ => ⟨rfl, rfl⟩, ?_⟩
        intro x
        simp only [fa, List.mem_append, hmemA, hmemB]; simp
    · have hrne : rm.isEmpty = false := by cases rm <;> simp_all
      have hkne : ∃ x ∈ g0.addrs, x ∉ rm := by
        have hpos : 0 < rm.length := by cases rm <;> simp_all
        have : kept ≠ [] := by
          intro hk
          apply hnotall
          rw [hlen, hk]; simp [hpos]
        obtain ⟨x, hx⟩ := List.exists_mem_of_ne_nil kept this
        exact ⟨x, (hmemA x).mpr (Or.inl hx), hdisjR x hx⟩
      have hx1 := exec_remove S ga.id ga.exprId g0 rm hfind he hrmIn hkne
      by_cases hae : ad = []
      · subst hae
        refine ⟨{ S with groups := setGroupAddrs S.groups ga.id fr }, fr, by simp [run, hrne, hx1, fr], rfl, rfl, rfl,
          fun _ => ⟨rfl, rfl⟩, ?_⟩
        intro x
        show x ∈ g0.addrs.filter (!rm.contains ·) ↔ _
        rw [hmem1, hmemB]; simp
      · have hne : ad.isEmpty = false := by cases ad <;> simp_all
        let S1 : Store := { S with groups := setGroupAddrs S.groups ga.id fr }
        have hfind1 : findGroup S1.groups ga.id = some (fr g0) := by
          show findGroup (setGroupAddrs S.groups ga.id fr) ga.id = _
          rw [findGroup_setGroupAddrs _ _ _ hfr, hfind]; rfl
        have hx2 := exec_add S1 ga.id ga.exprId (fr g0) ad hfind1 he (by
          intro x hx hx'
          have : x ∈ kept := (hmem1 x).mp hx'
          exact hdisjA x this hx)
        refine ⟨{ S with groups := setGroupAddrs S.groups ga.id (fa ∘ fr) }, fa ∘ fr, ?_, rfl, rfl, rfl,
          fun _ => ⟨rfl, rfl⟩, ?_⟩
        · simp only [run, hrne, hne, List.cons_append, List.nil_append, Bool.false_eq_true, if_false, hx1]
          show (match exec S1 _ with | .ok S' => run S' [] | .error _ => none) = _
          rw [hx2]
          show some { S1 with groups := setGroupAddrs (setGroupAddrs S.groups ga.id fr) ga.id fa } = _
          rw [setGroupAddrs_comp _ _ _ _ hfr]
        · intro x
          show x ∈ g0.addrs.filter (!rm.contains ·) ++ ad ↔ _
          rw [List.mem_append, hmem1, hmemB]

theorem groupCalls_converges (diff : Diff)
    (hdiff : ∀ n m eq, validScript n m eq (diff n m eq) = true)
    (S : Store) (ga gb : Group) (hfind : findGroup S.groups ga.id = some ga)
    (hna : ga.addrs.Nodup) (hnb : gb.addrs.Nodup) (hbne : gb.addrs ≠ []) :
    ∃ S' f, run S (groupCalls diff ga gb) = some S' ∧
      S'.policies = S.policies ∧ S'.services = S.services ∧
      S'.groups = setGroupAddrs S.groups ga.id f ∧
      (∀ g, (f g).id = g.id ∧ (f g).exprId = g.exprId) ∧
      ∀ x, x ∈ (f ga).addrs ↔ x ∈ gb.addrs :=
  groupCalls_converges' diff hdiff S ga gb ga hfind rfl (List.Perm.refl _) hna hnb hbne

end NA.Nsx

namespace NA.Nsx

/-- The simplest valid script (delete everything, insert everything) — shows that the
hypothesis "`diff` returns valid scripts" of the theorems is satisfiable. -/
def trivialDiff : Diff := fun n m _ =>
  if n = 0 then [⟨0, 0, 0, m⟩] else if m = 0 then [⟨0, n, 0, 0⟩] else [⟨0, n, 0, 0⟩, ⟨0, 0, 0, m⟩]

theorem trivialDiff_valid : ∀ n m eq, validScript n m eq (trivialDiff n m eq) = true := by
  intro n m eq
  unfold trivialDiff validScript
  by_cases hn : n = 0
  · subst hn
    by_cases hm : m = 0
    · subst hm; simp [validFrom, Range.isDelete]
    · have : (0 == m) = false := by simp; omega
      simp [validFrom, Range.isDelete, Range.isInsert, this]
  · by_cases hm : m = 0
    · subst hm; simp [hn, validFrom, Range.isDelete]
    · have : (0 == m) = false := by simp; omega
      simp [hn, hm, validFrom, Range.isDelete, Range.isInsert, this]


/-- Length of the longest common prefix under `eq` (position by position). -/
def commonPrefix (eq : Nat → Nat → Bool) (n m : Nat) : Nat → Nat → Nat
  | 0, i => i
  | f + 1, i => if i < n ∧ i < m ∧ eq i i = true then commonPrefix eq n m f (i + 1) else i

theorem commonPrefix_spec (eq : Nat → Nat → Bool) (n m : Nat) : ∀ (f i : Nat), i ≤ n → i ≤ m →
    (∀ j, j < i → eq j j = true) →
    i ≤ commonPrefix eq n m f i ∧ commonPrefix eq n m f i ≤ n ∧ commonPrefix eq n m f i ≤ m ∧
    ∀ j, j < commonPrefix eq n m f i → eq j j = true := by
  intro f
  induction f with
  | zero => intro i h1 h2 h3; exact ⟨Nat.le_refl _, h1, h2, h3⟩
  | succ f ih =>
    intro i h1 h2 h3
    unfold commonPrefix
    by_cases hc : i < n ∧ i < m ∧ eq i i = true
    · simp only [hc, and_self, if_true]
      obtain ⟨a, b, c, d⟩ := ih (i + 1) (by omega) (by omega) (by
        intro j hj
        by_cases e : j = i
        · subst e; exact hc.2.2
        · exact h3 j (by omega))
      exact ⟨by omega, b, c, d⟩
    · simp only [hc, if_false]
      exact ⟨Nat.le_refl _, h1, h2, h3⟩

/-- A simple valid script that keeps the common prefix: used for the examples (the theorems hold
for every valid script, the driver runs the Myers port). -/
def prefixDiff : Diff := fun n m eq =>
  let k := commonPrefix eq n m (min n m) 0
  (if k = 0 then [] else [⟨0, k, 0, k⟩]) ++ (if k < n then [⟨k, n, k, k⟩] else []) ++
    (if k < m then [⟨n, n, k, m⟩] else [])

theorem prefixDiff_valid : ∀ n m eq, validScript n m eq (prefixDiff n m eq) = true := by
  intro n m eq
  unfold prefixDiff validScript
  obtain ⟨_, hkn, hkm, hall⟩ := commonPrefix_spec eq n m (min n m) 0 (by omega) (by omega) (by intro j hj; omega)
  generalize commonPrefix eq n m (min n m) 0 = k at *
  simp only
  have tail : validFrom eq n m ((if k < n then [⟨k, n, k, k⟩] else []) ++
      (if k < m then [⟨n, n, k, m⟩] else [])) k k = true := by
    by_cases h1 : k < n
    · by_cases h2 : k < m
      · have e1 : (k == m) = false := by simp; omega
        simp [h1, h2, validFrom, Range.isDelete, Range.isInsert, e1]; omega
      · have hm : k = m := by omega
        subst hm
        simp [h1, validFrom, Range.isDelete]; omega
    · have hn : k = n := by omega
      subst hn
      by_cases h2 : k < m
      · have e1 : (k == m) = false := by simp; omega
        simp [h2, validFrom, Range.isDelete, Range.isInsert, e1]; omega
      · have hm : k = m := by omega
        subst hm
        simp [validFrom]
  by_cases hk : k = 0
  · subst hk
    simpa using tail
  · have e0 : (0 == k) = false := by simp; omega
    simp only [hk, if_false, List.cons_append, List.nil_append, List.append_assoc]
    unfold validFrom
    simp only [Range.isDelete, Range.isInsert, e0, Bool.false_eq_true, if_false, beq_self_eq_true, Bool.true_and,
      Nat.zero_le, decide_true, Nat.sub_zero, Nat.zero_add, Bool.and_eq_true, List.all_eq_true, List.mem_range]
    exact ⟨fun i hi => hall i hi, tail⟩

end NA.Nsx
