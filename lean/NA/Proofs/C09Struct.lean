import NA.Proofs.C09Inv
/-!
# C09: structural facts about session programs (by induction on the program)

* `quiet p`: `p` contains no send of a change command or save and no scp mark; then whatever
  `p` appends to the trace is harmless even after a failure (used for deferred clean-up).
* `noRet p`, `noCont p`: `p` cannot end in mode `ret` / `cont`.
-/
namespace NA.C09
open NA.Sess NA.Apply NA.Spec.C09

def quietRole : Role → Bool
  | .change | .save => false
  | _ => true

def quiet : Sess → Bool
  | .skip | .recv _ _ | .recvMore _ | .abort _ | .warn _ | .cont | .ret _ _ | .setCtr _ | .decCtr
  | .setPlan | .assumeBanner => true
  | .send ρ _ => quietRole ρ
  | .roundTrip ρ _ _ => quietRole ρ
  | .mark e => !isChangeOrSave e
  | .ite _ _ t e => quiet t && quiet e
  | .seq a b => quiet a && quiet b
  | .forEach b => quiet b
  | .defer c b => quiet c && quiet b
  | .loopN _ b => quiet b
  | .loopFuel b => quiet b
  | .call _ _ b => quiet b
  | .scope _ b => quiet b
  | .when _ b => quiet b

/-- `s'` extends the trace of `s` by harmless events only -/
def QExt (s s' : St) : Prop := ∃ l, s'.tr = s.tr ++ l ∧ ∀ e ∈ l, isChangeOrSave e = false

theorem QExt.refl (s : St) : QExt s s := ⟨[], by simp, by simp⟩
theorem QExt.trans {a b c : St} (h1 : QExt a b) (h2 : QExt b c) : QExt a c := by
  obtain ⟨l1, e1, q1⟩ := h1
  obtain ⟨l2, e2, q2⟩ := h2
  refine ⟨l1 ++ l2, by rw [e2, e1, List.append_assoc], ?_⟩
  intro e he
  rcases List.mem_append.mp he with h | h
  · exact q1 e h
  · exact q2 e h
theorem QExt.of_tr {s s' : St} (h : s'.tr = s.tr) : QExt s s' := ⟨[], by simp [h], by simp⟩
theorem QExt.snoc {s s' : St} (e : Ev) (h : s'.tr = s.tr ++ [e]) (he : isChangeOrSave e = false) : QExt s s' :=
  ⟨[e], h, by simp [he]⟩

theorem recvLoop_qext (dev : Dev) (ρ : Role) (p : Pat) : ∀ (n : Nat) (s : St), QExt s (recvLoop dev ρ p n s) := by
  intro n
  induction n with
  | zero => intro s; exact QExt.of_tr rfl
  | succ n ih =>
    intro s
    simp only [recvLoop]
    split
    · exact QExt.snoc _ rfl rfl
    · split
      · exact (QExt.snoc (s' := { s with tr := s.tr ++ [Ev.skipped (dev s.tr)] }) _ rfl rfl).trans (ih _)
      · exact QExt.snoc _ rfl rfl

theorem recvLoop_mode (dev : Dev) (ρ : Role) (p : Pat) : ∀ (n : Nat) (s : St), (recvLoop dev ρ p n s).mode = s.mode := by
  intro n
  induction n with
  | zero => intro s; rfl
  | succ n ih =>
    intro s
    simp only [recvLoop]
    split
    · rfl
    · split
      · rw [ih]
      · rfl

theorem each_qext (f : List String → St → St) (hf : ∀ pk s, QExt s (f pk s)) :
    ∀ (l : List (List String)) (s : St), QExt s (each f l s) := by
  intro l
  induction l with
  | nil => intro s; exact QExt.refl s
  | cons pk rest ih => intro s; exact (hf pk s).trans (ih _)

theorem iter_qext (f : St → St) (hf : ∀ s, QExt s (f s)) : ∀ (n : Nat) (s : St), QExt s (iter n f s) := by
  intro n
  induction n with
  | zero =>
    intro s
    simp only [iter]
    split
    · exact QExt.of_tr rfl
    · exact QExt.refl s
  | succ n ih =>
    intro s
    simp only [iter]
    split
    · split
      · exact (hf s).trans ((QExt.of_tr (s' := { f s with mode := Mode.run }) rfl).trans (ih _))
      · exact (hf s).trans (ih _)
      · exact hf s
    · exact QExt.refl s

theorem quiet_qext (p : Sess) (hq : quiet p = true) : ∀ (env : Env) (s : St), QExt s (exec p env s) := by
  induction p with
  | skip => intro env s; exact QExt.refl s
  | send ρ t =>
    intro env s
    simp only [exec]
    split
    · refine QExt.snoc _ rfl ?_
      cases ρ <;> simp_all [quiet, quietRole, isChangeOrSave]
    · exact QExt.refl s
  | recv ρ p =>
    intro env s
    simp only [exec]
    split
    · exact recvLoop_qext _ _ _ _ _
    · exact QExt.refl s
  | recvMore p =>
    intro env s
    simp only [exec]
    split
    · exact QExt.of_tr rfl
    · exact QExt.refl s
  | roundTrip ρ t r =>
    intro env s
    have hs : isChangeOrSave (Ev.sent ρ (t.lines env)) = false := by
      cases ρ <;> simp_all [quiet, quietRole, isChangeOrSave]
    simp only [exec]
    split
    · split
      · exact ((QExt.snoc (s' := { s with tr := s.tr ++ [Ev.sent ρ (t.lines env)] }) _ rfl hs).trans
          (recvLoop_qext _ _ _ _ _)).trans
          ((QExt.snoc (s' := { recvLoop env.dev ρ Pat.http 1 { s with tr := s.tr ++ [Ev.sent ρ (t.lines env)] } with
              tr := (recvLoop env.dev ρ Pat.http 1 { s with tr := s.tr ++ [Ev.sent ρ (t.lines env)] }).tr ++
                [Ev.sent ρ (t.lines env)] }) _ rfl hs).trans (recvLoop_qext _ _ _ _ _))
      · exact (QExt.snoc (s' := { s with tr := s.tr ++ [Ev.sent ρ (t.lines env)] }) _ rfl hs).trans
          (recvLoop_qext _ _ _ _ _)
    · exact QExt.refl s
  | ite c l t e iht ihe =>
    intro env s
    simp only [quiet, Bool.and_eq_true] at hq
    simp only [exec]
    split
    · split
      · exact iht hq.1 env s
      · exact ihe hq.2 env s
    · exact QExt.refl s
  | abort l =>
    intro env s
    simp only [exec]
    split
    · exact QExt.snoc _ rfl rfl
    · exact QExt.refl s
  | warn l =>
    intro env s
    simp only [exec]
    split
    · exact QExt.snoc _ rfl rfl
    · exact QExt.refl s
  | mark e =>
    intro env s
    simp only [exec]
    split
    · exact QExt.snoc _ rfl (by simpa [quiet] using hq)
    · exact QExt.refl s
  | seq a b iha ihb =>
    intro env s
    simp only [quiet, Bool.and_eq_true] at hq
    simp only [exec]
    exact (iha hq.1 env s).trans (ihb hq.2 env _)
  | forEach b ih =>
    intro env s
    simp only [exec]
    split
    · exact each_qext _ (fun pk st => ih hq _ st) _ _
    · exact QExt.refl s
  | defer c b ihc ihb =>
    intro env s
    simp only [quiet, Bool.and_eq_true] at hq
    simp only [exec]
    split
    · split
      · exact ihb hq.2 env s
      · split
        · exact ((ihb hq.2 env s).trans (QExt.of_tr (s' := { exec b env s with mode := Mode.run }) rfl)).trans
            ((ihc hq.1 env _).trans (QExt.of_tr rfl))
        · exact ((ihb hq.2 env s).trans (QExt.of_tr (s' := { exec b env s with mode := Mode.run }) rfl)).trans
            (ihc hq.1 env _)
    · exact QExt.refl s
  | loopN n b ih =>
    intro env s
    simp only [exec]
    exact iter_qext _ (fun st => ih hq env st) _ _
  | loopFuel b ih =>
    intro env s
    simp only [exec]
    exact iter_qext _ (fun st => ih hq env st) _ _
  | cont =>
    intro env s
    simp only [exec]
    split
    · exact QExt.of_tr rfl
    · exact QExt.refl s
  | ret v l =>
    intro env s
    simp only [exec]
    split
    · exact QExt.of_tr rfl
    · exact QExt.refl s
  | setCtr n =>
    intro env s
    simp only [exec]
    split
    · exact QExt.of_tr rfl
    · exact QExt.refl s
  | decCtr =>
    intro env s
    simp only [exec]
    split
    · exact QExt.of_tr rfl
    · exact QExt.refl s
  | setPlan =>
    intro env s
    simp only [exec]
    split
    · exact QExt.of_tr rfl
    · exact QExt.refl s
  | call n l b ih =>
    intro env s
    simp only [exec]
    split
    · split
      · exact (ih hq env s).trans (QExt.of_tr rfl)
      · exact ih hq env s
    · exact QExt.refl s
  | scope c b ih =>
    intro env s
    simp only [exec]
    exact ih hq env s
  | «when» c b ih =>
    intro env s
    simp only [exec]
    split
    · split
      · exact ih hq env s
      · exact QExt.refl s
    · exact QExt.refl s
  | assumeBanner =>
    intro env s
    simp only [exec]
    split
    · exact QExt.of_tr rfl
    · exact QExt.refl s

/-- a quiet program keeps the trace safe whatever has happened before -/
theorem quiet_safe (bad : Role → Reply → Bool) (p : Sess) (hq : quiet p = true) (env : Env) (s : St)
    (hs : safe bad s.tr = true) : safe bad (exec p env s).tr = true := by
  obtain ⟨l, he, hl⟩ := quiet_qext p hq env s
  rw [he, safe_append_quiet bad _ _ hl]; exact hs


/-! ## modes -/

def noRet : Sess → Bool
  | .ret _ _ => false
  | .call _ _ _ => true
  | .ite _ _ t e => noRet t && noRet e
  | .seq a b => noRet a && noRet b
  | .forEach b => noRet b
  | .defer c b => noRet c && noRet b
  | .loopN _ b => noRet b
  | .loopFuel b => noRet b
  | .scope _ b => noRet b
  | .when _ b => noRet b
  | _ => true

def noCont : Sess → Bool
  | .cont => false
  | .loopN _ _ => true
  | .loopFuel _ => true
  | .call _ _ b => noCont b
  | .ite _ _ t e => noCont t && noCont e
  | .seq a b => noCont a && noCont b
  | .forEach b => noCont b
  | .defer c b => noCont c && noCont b
  | .scope _ b => noCont b
  | .when c b => c == .never || noCont b
  | _ => true

theorem each_mode_ne (m : Mode) (f : List String → St → St) (hf : ∀ pk s, s.mode ≠ m → (f pk s).mode ≠ m) :
    ∀ (l : List (List String)) (s : St), s.mode ≠ m → (each f l s).mode ≠ m := by
  intro l
  induction l with
  | nil => intro s h; exact h
  | cons pk rest ih => intro s h; exact ih _ (hf pk s h)

theorem iter_ne_ret (f : St → St) (hf : ∀ s, s.mode ≠ .ret → (f s).mode ≠ .ret) :
    ∀ (n : Nat) (s : St), s.mode ≠ .ret → (iter n f s).mode ≠ .ret := by
  intro n
  induction n with
  | zero =>
    intro s h
    simp only [iter]
    split
    · simp
    · exact h
  | succ n ih =>
    intro s h
    simp only [iter]
    split
    · split
      · exact ih _ (by simp)
      · exact ih _ (hf s h)
      · exact hf s h
    · exact h

theorem iter_ne_cont (f : St → St) : ∀ (n : Nat) (s : St), s.mode ≠ .cont → (iter n f s).mode ≠ .cont := by
  intro n
  induction n with
  | zero =>
    intro s h
    simp only [iter]
    split
    · simp
    · exact h
  | succ n ih =>
    intro s h
    simp only [iter]
    split
    · split
      · exact ih _ (by simp)
      · rename_i hr; exact ih _ (by rw [hr]; decide)
      · rename_i hc _; exact hc
    · exact h

theorem noRet_mode (p : Sess) (hq : noRet p = true) : ∀ (env : Env) (s : St), s.mode ≠ .ret → (exec p env s).mode ≠ .ret := by
  induction p with
  | ret v l => simp [noRet] at hq
  | ite c l t e iht ihe =>
    intro env s h
    simp only [noRet, Bool.and_eq_true] at hq
    simp only [exec]
    split
    · split
      · exact iht hq.1 env s h
      · exact ihe hq.2 env s h
    · exact h
  | seq a b iha ihb =>
    intro env s h
    simp only [noRet, Bool.and_eq_true] at hq
    simp only [exec]
    exact ihb hq.2 env _ (iha hq.1 env s h)
  | forEach b ih =>
    intro env s h
    simp only [exec]
    split
    · exact each_mode_ne _ _ (fun pk st hst => ih hq _ st hst) _ _ h
    · exact h
  | defer c b ihc ihb =>
    intro env s h
    simp only [noRet, Bool.and_eq_true] at hq
    simp only [exec]
    split
    · split
      · exact ihb hq.2 env s h
      · split
        · exact ihb hq.2 env s h
        · exact ihc hq.1 env _ (by simp)
    · exact h
  | loopN n b ih =>
    intro env s h
    simp only [exec]
    exact iter_ne_ret _ (fun st hst => ih hq env st hst) _ _ h
  | loopFuel b ih =>
    intro env s h
    simp only [exec]
    exact iter_ne_ret _ (fun st hst => ih hq env st hst) _ _ h
  | call n l b _ =>
    intro env s h
    simp only [exec]
    split
    · split
      · simp
      · rename_i hr; exact hr
    · exact h
  | scope c b ih => intro env s h; simp only [exec]; exact ih hq env s h
  | «when» c b ih =>
    intro env s h
    simp only [exec]
    split
    · split
      · exact ih hq env s h
      · exact h
    · exact h
  | recv ρ p =>
    intro env s h
    simp only [exec]
    split
    · rw [recvLoop_mode]; exact h
    · exact h
  | roundTrip ρ t r =>
    intro env s h
    simp only [exec]
    split
    · split
      · rw [recvLoop_mode]; simp only []; rw [recvLoop_mode]; simpa using h
      · rw [recvLoop_mode]; simpa using h
    · exact h
  | _ =>
    intro env s h
    simp only [exec]
    first | exact h | (split <;> simp_all)

theorem noCont_mode (p : Sess) (hq : noCont p = true) : ∀ (env : Env) (s : St), s.mode ≠ .cont → (exec p env s).mode ≠ .cont := by
  induction p with
  | cont => simp [noCont] at hq
  | ite c l t e iht ihe =>
    intro env s h
    simp only [noCont, Bool.and_eq_true] at hq
    simp only [exec]
    split
    · split
      · exact iht hq.1 env s h
      · exact ihe hq.2 env s h
    · exact h
  | seq a b iha ihb =>
    intro env s h
    simp only [noCont, Bool.and_eq_true] at hq
    simp only [exec]
    exact ihb hq.2 env _ (iha hq.1 env s h)
  | forEach b ih =>
    intro env s h
    simp only [exec]
    split
    · exact each_mode_ne _ _ (fun pk st hst => ih hq _ st hst) _ _ h
    · exact h
  | defer c b ihc ihb =>
    intro env s h
    simp only [noCont, Bool.and_eq_true] at hq
    simp only [exec]
    split
    · split
      · exact ihb hq.2 env s h
      · split
        · exact ihb hq.2 env s h
        · exact ihc hq.1 env _ (by simp)
    · exact h
  | loopN n b _ =>
    intro env s h
    simp only [exec]
    exact iter_ne_cont _ _ _ h
  | loopFuel b _ =>
    intro env s h
    simp only [exec]
    exact iter_ne_cont _ _ _ h
  | call n l b ih =>
    intro env s h
    simp only [exec]
    split
    · split
      · simp
      · exact ih hq env s h
    · exact h
  | scope c b ih => intro env s h; simp only [exec]; exact ih hq env s h
  | «when» c b ih =>
    intro env s h
    simp only [noCont, Bool.or_eq_true, beq_iff_eq] at hq
    simp only [exec]
    split
    · split
      · rename_i hc
        rcases hq with hq | hq
        · subst hq; simp [evalCond] at hc
        · exact ih hq env s h
      · exact h
    · exact h
  | recv ρ p =>
    intro env s h
    simp only [exec]
    split
    · rw [recvLoop_mode]; exact h
    · exact h
  | roundTrip ρ t r =>
    intro env s h
    simp only [exec]
    split
    · split
      · rw [recvLoop_mode]; simp only []; rw [recvLoop_mode]; simpa using h
      · rw [recvLoop_mode]; simpa using h
    · exact h
  | _ =>
    intro env s h
    simp only [exec]
    first | exact h | (split <;> simp_all)


/-! ## programs that always leave normal mode, programs without loops -/

def leaves : Sess → Bool
  | .ret _ _ | .abort _ | .cont => true
  | .seq a b => leaves a || leaves b
  | .ite _ _ t e => leaves t && leaves e
  | .scope _ b => leaves b
  | _ => false

theorem leaves_mode (p : Sess) (hq : leaves p = true) : ∀ (env : Env) (s : St), s.mode = .run → (exec p env s).mode ≠ .run := by
  induction p with
  | ret v l => intro env s h; simp [exec, h]
  | abort l => intro env s h; simp [exec, h]
  | cont => intro env s h; simp [exec, h]
  | seq a b iha ihb =>
    intro env s h
    simp only [leaves, Bool.or_eq_true] at hq
    simp only [exec]
    by_cases hm : (exec a env s).mode = .run
    · rcases hq with ha | hb
      · exact absurd hm (iha ha env s h)
      · exact ihb hb env _ hm
    · rw [exec_nonrun _ _ _ hm]; exact hm
  | ite c l t e iht ihe =>
    intro env s h
    simp only [leaves, Bool.and_eq_true] at hq
    simp only [exec, h, if_true]
    split
    · exact iht hq.1 env s h
    · exact ihe hq.2 env s h
  | scope c b ih => intro env s h; simp only [exec]; exact ih hq env s h
  | _ => simp [leaves] at hq

def noLoop : Sess → Bool
  | .loopN _ _ | .loopFuel _ => false
  | .ite _ _ t e => noLoop t && noLoop e
  | .seq a b => noLoop a && noLoop b
  | .forEach b => noLoop b
  | .defer c b => noLoop c && noLoop b
  | .call _ _ b => noLoop b
  | .scope _ b => noLoop b
  | .when _ b => noLoop b
  | _ => true

theorem noLoop_mode (p : Sess) (hq : noLoop p = true) :
    ∀ (env : Env) (s : St), s.mode ≠ .diverge → (exec p env s).mode ≠ .diverge := by
  induction p with
  | loopN n b _ => simp [noLoop] at hq
  | loopFuel b _ => simp [noLoop] at hq
  | ite c l t e iht ihe =>
    intro env s h
    simp only [noLoop, Bool.and_eq_true] at hq
    simp only [exec]
    split
    · split
      · exact iht hq.1 env s h
      · exact ihe hq.2 env s h
    · exact h
  | seq a b iha ihb =>
    intro env s h
    simp only [noLoop, Bool.and_eq_true] at hq
    simp only [exec]
    exact ihb hq.2 env _ (iha hq.1 env s h)
  | forEach b ih =>
    intro env s h
    simp only [exec]
    split
    · exact each_mode_ne _ _ (fun pk st hst => ih hq _ st hst) _ _ h
    · exact h
  | defer c b ihc ihb =>
    intro env s h
    simp only [noLoop, Bool.and_eq_true] at hq
    simp only [exec]
    split
    · split
      · rename_i hd; exact absurd hd (ihb hq.2 env s h)
      · split
        · exact ihb hq.2 env s h
        · exact ihc hq.1 env _ (by simp)
    · exact h
  | call n l b ih =>
    intro env s h
    simp only [exec]
    split
    · split
      · simp
      · exact ih hq env s h
    · exact h
  | scope c b ih => intro env s h; simp only [exec]; exact ih hq env s h
  | «when» c b ih =>
    intro env s h
    simp only [exec]
    split
    · split
      · exact ih hq env s h
      · exact h
    · exact h
  | recv ρ p =>
    intro env s h
    simp only [exec]
    split
    · rw [recvLoop_mode]; exact h
    · exact h
  | roundTrip ρ t r =>
    intro env s h
    simp only [exec]
    split
    · split
      · rw [recvLoop_mode]; simp only []; rw [recvLoop_mode]; simpa using h
      · rw [recvLoop_mode]; simpa using h
    · exact h
  | _ =>
    intro env s h
    simp only [exec]
    first | exact h | (split <;> simp_all)

/-- the state in which round `k` of a `for { … }` starts when all earlier rounds said `continue` -/
def rounds (f : St → St) : Nat → St → St
  | 0, s => s
  | k+1, s => rounds f k { f s with mode := .run }

/-- A `for { … }` whose body never falls through and never diverges ends (does not run out of
fuel) as soon as some round within the fuel does not say `continue`. -/
theorem iter_total (f : St → St)
    (hf : ∀ s, s.mode = .run → (f s).mode ≠ .run ∧ (f s).mode ≠ .diverge) :
    ∀ (n : Nat) (s : St), s.mode = .run → ∀ k, k < n → (f (rounds f k s)).mode ≠ .cont →
      (iter n f s).mode ≠ .diverge := by
  intro n
  induction n with
  | zero => intro s _ k hk; exact absurd hk (Nat.not_lt_zero k)
  | succ n ih =>
    intro s hs k hk hstop
    simp only [iter, hs, if_true]
    split
    · rename_i hc
      cases k with
      | zero => exact absurd hc hstop
      | succ k' => exact ih _ rfl k' (Nat.lt_of_succ_lt_succ hk) hstop
    · rename_i hr; exact absurd hr (hf s hs).1
    · exact (hf s hs).2

end NA.C09
