import NA.Proofs.C19Calm
/-! # C19 — calm domain: soundness of the transfer function -/
set_option linter.unusedVariables false
set_option linter.unnecessarySimpa false
set_option linter.unusedSimpArgs false
namespace NA.C19

syntax "autoc " ident : tactic
macro_rules
  | `(tactic| autoc $hK) => `(tactic|
    (constructor <;> intro hf <;>
      first
      | (simp at hf; done)
      | exact ($hK).lockFree (by simpa [C3.kept] using hf)
      | exact ($hK).notStale (by simpa [C3.kept, Cmd.wNext, Cmd.wRemote] using hf)
      | exact ($hK).goodR (by simpa [C3.kept, Cmd.wRemote] using hf)
      | exact ($hK).quietF (by simpa [C3.kept, Cmd.wGhost] using hf)
      | exact ($hK).nextNone (by simpa [C3.kept, Cmd.wNext] using hf)
      | exact ($hK).nextEmpty (by simpa [C3.kept, Cmd.wNext] using hf)
      | exact ($hK).headR (by simpa [C3.kept, Cmd.wHead, Cmd.wRemote] using hf)
      | exact ($hK).baseEq (by simpa [C3.kept, Cmd.wBase, Cmd.wRemote] using hf)
      | exact ($hK).hGood (by simpa [C3.kept, Cmd.wHead] using hf)
      | exact ($hK).hashHead (by simpa [C3.kept, Cmd.wHead, Cmd.wHash] using hf)
      | exact ($hK).dirNew (by simpa [C3.kept, Cmd.wDirs, Cmd.wPolicy, Cmd.wRemote] using hf)
      | exact ($hK).curNone (by simpa [C3.kept, Cmd.wCurrent] using hf)
      | exact ($hK).newestF (by simpa [C3.kept, Cmd.wCurrent, Cmd.wDirs, Cmd.wRemote] using hf)
      | skip))

variable {a : F3} {x : C3} {g : G} {p : Proc} {pc : Nat} {t : Bool}

/-- Statement shape shared by all command lemmas. -/
def OkC (c : Cmd) (a : F3) (g : G) (p : Proc) (pc : Nat) (t : Bool) : Prop :=
  match tfc c a (exec c g p).2.2 with
  | some x => Γc x (exec c g p).1 (upd (exec c g p).2.1 pc t)
  | none => False

theorem okc_default {c : Cmd} (hΓ : Γ3 a g p) (hvg : VG g) (h : ∀ ok, tfc c a ok = some (a.c.kept c)) :
    OkC c a g p pc t := by
  unfold OkC; rw [h]; exact keep_all3 c hΓ.c hvg

theorem okc_nop {w : String} (hΓ : Γ3 a g p) (hvg : VG g) : OkC (.nop w) a g p pc t := by
  unfold OkC
  simp [tfc, exec]
  exact keep_all3 (.nop w) hΓ.c hvg

theorem okc_flock (hΓ : Γ3 a g p) (hvg : VG g) : OkC .flockNB a g p pc t := by
  have hK := keep_all3 .flockNB (pc := pc) (t := t) hΓ.c hvg
  unfold OkC
  cases hok : (exec Cmd.flockNB g p).2.2
  · by_cases hl : a.c.lockFree = true
    · exfalso
      have := hΓ.c.lockFree hl
      simp only [exec] at hok
      rcases this with h0 | h0 <;> simp [h0] at hok
    · simp [tfc, hl]; exact hK
  · simp [tfc]; exact hK

theorem okc_uptodate (hΓ : Γ3 a g p) (hvg : VG g) (hgi : GI1 g) (hgi4 : GI4 g) : OkC .uptodateCheck a g p pc t := by
  have hK := keep_all3 .uptodateCheck (pc := pc) (t := t) hΓ.c hvg
  unfold OkC
  cases hok : (exec Cmd.uptodateCheck g p).2.2
  · simp [tfc]; exact hK
  · simp [tfc]
    autoc hK
    rename_i hf
    simp at hf
    have hns := hΓ.c.notStale hf
    have hg : (exec Cmd.uptodateCheck g p).1 = g := by simp only [exec]; split <;> rfl
    rw [hg]
    simp only [exec] at hok
    unfold G.staleNext at hns
    unfold G.uptodateDir at hok
    unfold G.newest
    cases hn : g.next with
    | some d => simp [hn] at hns hok; simp [hns] at hok
    | none =>
      simp [hn] at hok
      cases hc : g.current with
      | none => simp [hc] at hok
      | some n =>
        simp [hc] at hok
        cases hd : lookupDir g.dirs n with
        | none => simp [hd] at hok
        | some d =>
          simp [hd] at hok
          obtain ⟨x, hx, _, hcx, hmx⟩ := hgi4.dirs n d hd (hgi.dirs n d hd)
          rw [hok.2] at hx; injection hx with hx; subst hx
          simp [hd, hgi.dirs n d hd, hok.2, hcx, hmx, treeOf]

theorem okc_rmrf (hΓ : Γ3 a g p) (hvg : VG g) : OkC .rmrfNext a g p pc t := by
  have hK := keep_all3 .rmrfNext (pc := pc) (t := t) hΓ.c hvg
  unfold OkC
  simp [tfc]
  autoc hK
  · simp [exec, G.staleNext]
  · simp [exec]

theorem okc_mkdir (hΓ : Γ3 a g p) (hvg : VG g) : OkC .mkdirNext a g p pc t := by
  have hK := keep_all3 .mkdirNext (pc := pc) (t := t) hΓ.c hvg
  unfold OkC
  cases hok : (exec Cmd.mkdirNext g p).2.2
  · by_cases hl : a.c.nextNone = true
    · exfalso
      have := hΓ.c.nextNone hl
      simp [exec, this] at hok
    · simp [tfc, hl]; exact hK
  · simp [tfc]
    autoc hK
    simp only [exec] at hok ⊢
    cases hn : g.next with
    | none => simp
    | some d => simp [hn] at hok

end NA.C19

namespace NA.C19
variable {a : F3} {x : C3} {g : G} {p : Proc} {pc : Nat} {t : Bool}

theorem next_of_head {h : Nat} (hh : g.nextHead = some h) : ∃ d, g.next = some d ∧ d.head = some h := by
  unfold G.nextHead at hh
  cases hn : g.next with
  | none => simp [hn] at hh
  | some d => simp [hn] at hh; exact ⟨d, rfl, hh⟩

theorem okc_clone (hΓ : Γ3 a g p) (hvg : VG g) : OkC .gitClone a g p pc t := by
  have hK := keep_all3 .gitClone (pc := pc) (t := t) hΓ.c hvg
  unfold OkC
  by_cases hl : a.c.nextEmpty = true
  · obtain ⟨d, hn, hh⟩ := hΓ.c.nextEmpty hl
    have hok : (exec Cmd.gitClone g p).2.2 = true := by simp [exec, hn, hh]
    simp [tfc, hl, hok]
    autoc hK
    · rename_i hf
      have := hΓ.c.quietF hf
      simpa [exec, hn, hh, quiet] using this
    · simp [exec, hn, hh, G.nextHead]
    · simp [exec, hn, hh]
    · rename_i hf
      refine ⟨g.remote, by simp [exec, hn, hh, G.nextHead], ?_⟩
      simpa [exec, hn, hh] using hΓ.c.goodR hf
  · simp [tfc, hl]; exact hK

theorem okc_compile (hΓ : Γ3 a g p) (hvg : VG g) : OkC .compile a g p pc t := by
  have hK := keep_all3 .compile (pc := pc) (t := t) hΓ.c hvg
  unfold OkC
  cases hok : (exec Cmd.compile g p).2.2
  · by_cases hl : a.c.hGood = true
    · exfalso
      obtain ⟨h, hh, hg⟩ := hΓ.c.hGood hl
      obtain ⟨d, hn, hd⟩ := next_of_head hh
      simp [exec, hn, hd, hg] at hok
    · simp [tfc, hl]; exact hK
  · simp [tfc]; exact hK

theorem okc_saveHash (hΓ : Γ3 a g p) (hvg : VG g) : OkC .saveHash a g p pc t := by
  have hK := keep_all3 .saveHash (pc := pc) (t := t) hΓ.c hvg
  unfold OkC
  cases hok : (exec Cmd.saveHash g p).2.2
  · by_cases hl : a.c.hGood = true
    · exfalso
      obtain ⟨h, hh, _⟩ := hΓ.c.hGood hl
      simp [exec, hh] at hok
    · simp [tfc, hl]; exact hK
  · simp [tfc]
    autoc hK
    simp [exec] at hok ⊢
    obtain ⟨h, hh⟩ := Option.isSome_iff_exists.mp hok
    simp [hh]

theorem okc_commit (hΓ : Γ3 a g p) (hvg : VG g) : OkC .gitCommitPolicy a g p pc t := by
  have hK := keep_all3 .gitCommitPolicy (pc := pc) (t := t) hΓ.c hvg
  unfold OkC
  by_cases hl : (a.c.quietF && a.c.headR && a.n.sOk && a.n.hEqR && a.n.polGt) = true
  · have hl' := hl
    simp only [Bool.and_eq_true] at hl'
    obtain ⟨⟨⟨⟨l1, l2⟩, l3⟩, l4⟩, l5⟩ := hl'
    have hq := hΓ.c.quietF l1
    have hh := hΓ.c.headR l2
    have hΓ2 := hΓ.n l1
    have hs := hΓ2.sOk l3
    obtain ⟨_, h', hh', he⟩ := hΓ2.hEqR l4
    obtain ⟨_, hgt, _⟩ := hΓ2.polGt l5
    rw [hh] at hh'; injection hh' with hh'; subst hh'
    have hne : ((commitAt g.store g.remote).pol == some p.policy) = false := by
      cases hp : (commitAt g.store g.remote).pol with
      | none => rfl
      | some r =>
        simp [Rg, polOf, hp] at hgt
        simp; omega
    have hok : (exec Cmd.gitCommitPolicy g p).2.2 = true := by simp [exec, hh, hs, hne]
    simp [tfc, hl, hok]
    autoc hK
    · -- still quiet
      simp [exec, hh, hs, hne, quiet]; exact hq
    · rename_i hf
      obtain ⟨h0, hh0, hg0⟩ := hΓ.c.hGood hf
      rw [hh] at hh0; injection hh0 with hh0; subst hh0
      obtain ⟨d, hn, _⟩ := next_of_head hh
      refine ⟨g.store.length + 1, ?_, ?_⟩
      · simp [exec, hh, hs, hne, snh_head, hn]
      · simp [exec, hh, hs, hne, commitAt_new]; exact hg0
  · have : (a.c.quietF && a.c.headR && a.n.sOk && a.n.hEqR && a.n.polGt) = false := by simpa using hl
    simp [tfc, this]; exact hK

theorem okc_pull (hΓ : Γ3 a g p) (hvg : VG g) : OkC .gitPullMerge a g p pc t := by
  have hK := keep_all3 .gitPullMerge (pc := pc) (t := t) hΓ.c hvg
  unfold OkC
  by_cases hl : (a.c.baseEq && a.c.hGood) = true
  · have hl' := hl
    simp only [Bool.and_eq_true] at hl'
    obtain ⟨l1, l2⟩ := hl'
    have hb := hΓ.c.baseEq l1
    obtain ⟨h, hh, hg⟩ := hΓ.c.hGood l2
    have he : exec Cmd.gitPullMerge g p = (g, { p with fetched := true }, true) := by simp [exec, hh, hb]
    rw [he] at hK
    simp [tfc, hl, he]
    autoc hK
    · rename_i hf; simpa [he] using hΓ.c.quietF hf
    · rename_i hf; exact hΓ.c.headR hf
    · exact hb
    · exact ⟨h, hh, hg⟩
    · rename_i hf; exact hΓ.c.hashHead hf
  · have : (a.c.baseEq && a.c.hGood) = false := by simpa using hl
    simp [tfc, this]; exact hK

theorem okc_push (hΓ : Γ3 a g p) (hvg : VG g) : OkC .gitPush a g p pc t := by
  have hK := keep_all3 .gitPush (pc := pc) (t := t) hΓ.c hvg
  unfold OkC
  by_cases hl : (a.c.baseEq && a.c.hGood) = true
  · have hl' := hl
    simp only [Bool.and_eq_true] at hl'
    obtain ⟨l1, l2⟩ := hl'
    have hb := hΓ.c.baseEq l1
    obtain ⟨h, hh, hg⟩ := hΓ.c.hGood l2
    have he : exec Cmd.gitPush g p = ({ g with remote := h }, { p with base := h, fetched := false }, true) := by
      simp [exec, hh, hb]
    rw [he] at hK
    simp [tfc, hl, he]
    autoc hK
    · exact hg
    · rename_i hf; simpa [quiet] using hΓ.c.quietF hf
    · simpa [G.nextHead] using hh
    · rfl
  · have : (a.c.baseEq && a.c.hGood) = false := by simpa using hl
    simp [tfc, this]; exact hK

theorem okc_reset (hΓ : Γ3 a g p) (hvg : VG g) : OkC .gitResetHash a g p pc t := by
  have hK := keep_all3 .gitResetHash (pc := pc) (t := t) hΓ.c hvg
  unfold OkC
  simp [tfc]
  -- with $HASH = HEAD the reset changes nothing the facts read
  have key : a.c.hashHead = true → (exec Cmd.gitResetHash g p).1.nextHead = g.nextHead ∧
      (exec Cmd.gitResetHash g p).1.remote = g.remote ∧ (exec Cmd.gitResetHash g p).1.store = g.store ∧
      (exec Cmd.gitResetHash g p).2.1.hash = p.hash := by
    intro hf
    have hh := hΓ.c.hashHead hf
    simp only [exec]
    split
    · exact ⟨rfl, rfl, rfl, rfl⟩
    · obtain ⟨d, hn, _⟩ := next_of_head hh
      refine ⟨?_, by simp, by simp, rfl⟩
      rw [snh_head]; simp [hn, hh]
  autoc hK
  · rename_i hf
    simp at hf
    obtain ⟨k1, k2, k3, k4⟩ := key hf.2
    rw [k1, k2]; exact hΓ.c.headR hf.1
  · rename_i hf
    simp at hf
    obtain ⟨k1, k2, k3, k4⟩ := key hf.2
    rw [k1, k3]; exact hΓ.c.hGood hf.1
  · rename_i hf
    simp at hf
    obtain ⟨k1, k2, k3, k4⟩ := key hf
    show _ = some (exec Cmd.gitResetHash g p).2.1.hash
    rw [k1, k4]; exact hΓ.c.hashHead hf

theorem okc_mv (hΓ : Γ3 a g p) (hvg : VG g) (hdh : DirsInHist g) : OkC .mvNextTo a g p pc t := by
  have hK := keep_all3 .mvNextTo (pc := pc) (t := t) hΓ.c hvg
  unfold OkC
  by_cases hl : (a.c.headR && a.s.nextOk && a.k.codeH && a.n.fresh && a.c.quietF) = true
  · have hl' := hl
    simp only [Bool.and_eq_true] at hl'
    obtain ⟨⟨⟨⟨l1, l2⟩, l5⟩, l3⟩, l4⟩ := hl'
    have hh := hΓ.c.headR l1
    obtain ⟨_, d', hn', hb⟩ := hΓ.s.nextOk l2
    obtain ⟨_, hf⟩ := (hΓ.n l4).fresh l3
    obtain ⟨d, hn, hd⟩ := next_of_head hh
    rw [hn] at hn'; injection hn' with hn'; subst hn'
    have hnone : lookupDir g.dirs p.policy = none := by
      cases he : lookupDir g.dirs p.policy with
      | none => rfl
      | some e => exact absurd (hf _ (hdh _ _ he)) (Nat.lt_irrefl _)
    have he : exec Cmd.mvNextTo g p =
        ({ g with dirs := (p.policy, d) :: g.dirs, next := none, hist := p.policy :: g.hist }, p, true) := by
      simp [exec, hn, hnone]
    rw [he] at hK
    simp [tfc, hl, he]
    autoc hK
    · rfl
    · obtain ⟨_, d5, x5, hn5, hx5, hc5, hm5⟩ := hΓ.k.codeH l5
      rw [hn] at hn5; injection hn5 with hn5; subst hn5
      rw [hd] at hx5; injection hx5 with hx5; subst hx5
      exact ⟨d, by simp [lookupDir], hb, hd, by simpa [treeOf] using hc5, hm5⟩
  · have : (a.c.headR && a.s.nextOk && a.k.codeH && a.n.fresh && a.c.quietF) = false := by simpa using hl
    simp [tfc, this]; exact hK

theorem okc_rm (hΓ : Γ3 a g p) (hvg : VG g) : OkC .rmCurrent a g p pc t := by
  have hK := keep_all3 .rmCurrent (pc := pc) (t := t) hΓ.c hvg
  unfold OkC
  simp [tfc]
  autoc hK
  simp [exec]

theorem okc_ln (hΓ : Γ3 a g p) (hvg : VG g) : OkC .lnCurrent a g p pc t := by
  have hK := keep_all3 .lnCurrent (pc := pc) (t := t) hΓ.c hvg
  unfold OkC
  simp [tfc]
  autoc hK
  rename_i hf
  simp at hf
  have hc := hΓ.c.curNone hf.1
  obtain ⟨d, hd, hb, hh, hcd, hmd⟩ := hΓ.c.dirNew hf.2
  simp [exec, hc, G.newest, hd, hb, hh, hcd, hmd, treeOf]

end NA.C19

namespace NA.C19
variable {a : F3} {x : C3} {g : G} {p : Proc} {pc : Nat} {t : Bool}

theorem okc_all (c : Cmd) (hΓ : Γ3 a g p) (hvg : VG g) (hgi : GI1 g) (hgi4 : GI4 g) (hdh : DirsInHist g) :
    OkC c a g p pc t := by
  cases c with
  | nop w => exact okc_nop hΓ hvg
  | flockNB => exact okc_flock hΓ hvg
  | uptodateCheck => exact okc_uptodate hΓ hvg hgi hgi4
  | rmrfNext => exact okc_rmrf hΓ hvg
  | mkdirNext => exact okc_mkdir hΓ hvg
  | gitClone => exact okc_clone hΓ hvg
  | compile => exact okc_compile hΓ hvg
  | saveHash => exact okc_saveHash hΓ hvg
  | gitCommitPolicy => exact okc_commit hΓ hvg
  | gitPullMerge => exact okc_pull hΓ hvg
  | gitPush => exact okc_push hΓ hvg
  | gitResetHash => exact okc_reset hΓ hvg
  | mvNextTo => exact okc_mv hΓ hvg hdh
  | rmCurrent => exact okc_rm hΓ hvg
  | lnCurrent => exact okc_ln hΓ hvg
  | _ => exact okc_default hΓ hvg (fun _ => rfl)

theorem tfc_quiet {c : Cmd} {ok : Bool} (h : tfc c a ok = some x) (hq : x.quietF = true) : a.c.quietF = true := by
  have hk : (a.c.kept c).quietF = true → a.c.quietF = true := by
    intro h; simp [C3.kept] at h; exact h.1
  revert h
  cases c <;> simp only [tfc] <;> (repeat' split) <;> intro h <;>
    first
    | (injection h with h; subst h; first | exact hk hq | (simp at hq; first | exact hq | exact hk hq | simp_all))
    | cases h

end NA.C19
