import NA.Proofs.C09Http
/-!
# C09: a two-class checker for code that returns error values

Class `A`: the invariant `J` (a running state has seen no bad reply).  Class `E`: `Je` (a bad
reply may have been seen, but then an error value is pending).  `stepC bl p c = some c'` means:
started in class `c`, program `p` ends in class `c'`.  After a call the class is `E`; an
`if err != nil { return … }` brings it back to `A`; nothing that changes the device may run in `E`.
-/
namespace NA.C09
open NA.Sess NA.Apply NA.Spec.C09

inductive Cls | A | E
  deriving DecidableEq, Repr

def Cls.join : Cls → Cls → Cls
  | .A, .A => .A
  | _, _ => .E

def isSkip : Sess → Bool
  | .skip => true
  | _ => false

def isOpCall : Sess → Bool
  | .call _ _ b => isSkip b
  | _ => false

def lookupBlock (bl : List (Sess × Cls)) (p : Sess) : Option Cls :=
  (bl.find? (fun x => x.1 == p)).map (·.2)

def stepC (bl : List (Sess × Cls)) : Sess → Cls → Option Cls
  | .skip, c | .warn _, c | .setCtr _, c | .decCtr, c | .setPlan, c | .assumeBanner, c => some c
  | .send ρ _, c => if quietRole ρ then some c else (if c = .A then some .A else none)
  | .mark e, c =>
    if markOk e then (if !isChangeOrSave e then some c else (if c = .A then some .A else none)) else none
  | .abort _, _ => some .A
  | .ret v _, c => if c = .A then some .A else (if v = .nil then none else some .A)
  | .cont, c => if c = .A then some .A else none
  | .recvMore _, c => if c = .A then some .A else none
  | .recv _ _, _ => none
  | .roundTrip _ _ _, _ => none
  | .ite cond l t e, c =>
    match (if c = .A then lookupBlock bl (.ite cond l t e) else none) with
    | some o => some o
    | none =>
      match stepC bl t c, stepC bl e (if cond = .err then .A else c) with
      | some x, some y => some (x.join y)
      | _, _ => none
  | .seq a b, c =>
    match (if c = .A then lookupBlock bl (.seq a b) else none) with
    | some o => some o
    | none =>
      match stepC bl a c with
      | some c1 => stepC bl b c1
      | none => none
  | .forEach b, c => if c = .A ∧ stepC bl b .A = some .A then some .A else none
  | .loopN _ b, c => if c = .A ∧ stepC bl b .A = some .A then some .A else none
  | .loopFuel b, c => if c = .A ∧ stepC bl b .A = some .A then some .A else none
  | .call n l b, c =>
    if isSkip b then some c
    else if c = .A then
      (if chk [] (fun _ => false) b then some .A   -- a function that returns no error value
       else match lookupBlock bl (.call n l b) with
        | some o => some o
        | none => (stepC bl b .A).map (fun _ => Cls.E))
    else none
  | .defer cl b, c => if isOpCall cl then stepC bl b c else none
  | .scope _ b, c => stepC bl b c
  | .when cond b, c =>
    if cond = .never then some c
    else (stepC bl b (if cond = .not .err then .A else c)).map (Cls.join c)

variable (bad : Role → Reply → Bool)

def G (c : Cls) (s : St) : Prop :=
  match c with
  | .A => J bad s
  | .E => Je bad s

theorem G_A_E {s : St} (h : G bad .A s) : G bad .E s := J.toJe bad h

theorem G_nonrun {c c' : Cls} {s : St} (hm : s.mode ≠ .run) (h : G bad c s) : G bad c' s := by
  cases c <;> cases c' <;> simp only [G] at h ⊢
  · exact h
  · exact h.toJe
  · exact ⟨h.safe, fun hr => absurd hr hm, h.cont, h.ret⟩
  · exact h

theorem G_join_left {x y : Cls} {s : St} (h : G bad x s) : G bad (x.join y) s := by
  cases x <;> cases y <;> simp only [Cls.join] <;> first | exact h | exact G_A_E bad h

theorem G_join_right {x y : Cls} {s : St} (h : G bad y s) : G bad (x.join y) s := by
  cases x <;> cases y <;> simp only [Cls.join] <;> first | exact h | exact G_A_E bad h

/-- a state with unchanged trace, mode and error value is in the same class -/
theorem G_congr {c : Cls} {s s' : St} (h : G bad c s) (ht : s'.tr = s.tr) (hm : s'.mode = s.mode) (he : s'.errv = s.errv) :
    G bad c s' := by
  cases c <;> simp only [G] at h ⊢
  · exact ⟨by rw [ht]; exact h.safe, by rw [ht, hm]; exact h.run, by rw [ht, hm]; exact h.cont,
      by rw [ht, hm, he]; exact h.ret⟩
  · exact ⟨by rw [ht]; exact h.safe, by rw [ht, hm, he]; exact h.run, by rw [ht, hm]; exact h.cont,
      by rw [ht, hm, he]; exact h.ret⟩

/-- appending a harmless event (not a reply, not a change) keeps the class -/
theorem G_snoc_quiet {c : Cls} {s s' : St} (e : Ev) (h : G bad c s) (ht : s'.tr = s.tr ++ [e])
    (hq : isChangeOrSave e = false) (hb : isBadGot bad e = false) (hm : s'.mode = s.mode) (he : s'.errv = s.errv) :
    G bad c s' := by
  have hs : ∀ (hs0 : safe bad s.tr = true), safe bad s'.tr = true := fun hs0 => by
    rw [ht, safe_append_quiet bad _ _ (by simp [hq])]; exact hs0
  have hf : faulted bad s'.tr = faulted bad s.tr := by rw [ht, faulted_snoc, hb, Bool.or_false]
  cases c <;> simp only [G] at h ⊢
  · exact ⟨hs h.safe, by rw [hf, hm]; exact h.run, by rw [hf, hm]; exact h.cont, by rw [hf, hm, he]; exact h.ret⟩
  · exact ⟨hs h.safe, by rw [hf, hm, he]; exact h.run, by rw [hf, hm]; exact h.cont, by rw [hf, hm, he]; exact h.ret⟩


theorem G_safe {c : Cls} {s : St} (h : G bad c s) : safe bad s.tr = true := by
  cases c <;> exact h.safe

theorem lookupBlock_mem {bl : List (Sess × Cls)} {p : Sess} {o : Cls} (h : lookupBlock bl p = some o) : (p, o) ∈ bl := by
  simp only [lookupBlock, Option.map_eq_some_iff] at h
  obtain ⟨x, hx, rfl⟩ := h
  have hmem := List.mem_of_find?_eq_some hx
  have hp := List.find?_some hx
  simp only [beq_iff_eq] at hp
  obtain ⟨a, o⟩ := x
  simp only at hp
  subst hp
  exact hmem

theorem each_J (f : List String → St → St) (hf : ∀ pk s, J bad s → J bad (f pk s)) :
    ∀ (l : List (List String)) (s : St), J bad s → J bad (each f l s) := by
  intro l
  induction l with
  | nil => intro s h; exact h
  | cons pk rest ih => intro s h; exact ih _ (hf pk s h)

theorem iter_J (f : St → St) (hf : ∀ s, J bad s → J bad (f s)) : ∀ (n : Nat) (s : St), J bad s → J bad (iter n f s) := by
  intro n
  induction n with
  | zero =>
    intro s h
    simp only [iter]
    split
    · exact ⟨h.safe, by simp, by simp, by simp⟩
    · exact h
  | succ n ih =>
    intro s h
    simp only [iter]
    split
    · have h1 := hf s h
      split
      · rename_i hc
        exact ih _ ⟨h1.safe, fun _ => h1.cont hc, by simp, by simp⟩
      · exact ih _ h1
      · exact h1
    · exact h

theorem exec_defer_op (cl b : Sess) (hc : isOpCall cl = true) (env : Env) (s : St) :
    exec (.defer cl b) env s = exec b env s := by
  by_cases hm : s.mode = .run
  · cases cl with
    | call n l body =>
      cases body with
      | skip =>
        simp only [exec, hm, if_true]
        split
        · rfl
        · simp
      | _ => simp [isOpCall, isSkip] at hc
    | _ => simp [isOpCall] at hc
  · rw [exec_nonrun _ _ _ hm, exec_nonrun _ _ _ hm]

theorem stepC_sound (bl : List (Sess × Cls))
    (hbl : ∀ q o, (q, o) ∈ bl → ∀ env s, J bad s → G bad o (exec q env s)) :
    ∀ (p : Sess) (c c' : Cls), stepC bl p c = some c' → ∀ env s, G bad c s → G bad c' (exec p env s) := by
  intro p
  induction p with
  | skip =>
    intro c c' h env s hg
    simp only [stepC, Option.some.injEq] at h; subst h
    simpa [exec] using hg
  | warn l =>
    intro c c' h env s hg
    simp only [stepC, Option.some.injEq] at h; subst h
    by_cases hm : s.mode = .run
    · simp only [exec, hm, if_true]
      exact G_snoc_quiet bad .logWarn hg rfl rfl rfl hm.symm rfl
    · rw [exec_nonrun _ _ _ hm]; exact hg
  | setCtr n =>
    intro c c' h env s hg
    simp only [stepC, Option.some.injEq] at h; subst h
    by_cases hm : s.mode = .run
    · simp only [exec, hm, if_true]; exact G_congr bad hg rfl hm.symm rfl
    · rw [exec_nonrun _ _ _ hm]; exact hg
  | decCtr =>
    intro c c' h env s hg
    simp only [stepC, Option.some.injEq] at h; subst h
    by_cases hm : s.mode = .run
    · simp only [exec, hm, if_true]; exact G_congr bad hg rfl hm.symm rfl
    · rw [exec_nonrun _ _ _ hm]; exact hg
  | setPlan =>
    intro c c' h env s hg
    simp only [stepC, Option.some.injEq] at h; subst h
    by_cases hm : s.mode = .run
    · simp only [exec, hm, if_true]; exact G_congr bad hg rfl hm.symm rfl
    · rw [exec_nonrun _ _ _ hm]; exact hg
  | assumeBanner =>
    intro c c' h env s hg
    simp only [stepC, Option.some.injEq] at h; subst h
    by_cases hm : s.mode = .run
    · simp only [exec, hm, if_true]; exact G_congr bad hg rfl hm.symm rfl
    · rw [exec_nonrun _ _ _ hm]; exact hg
  | send ρ t =>
    intro c c' h env s hg
    by_cases hm : s.mode = .run
    · simp only [stepC] at h
      split at h
      · rename_i hq
        simp only [Option.some.injEq] at h; subst h
        simp only [exec, hm, if_true]
        refine G_snoc_quiet bad (.sent ρ (t.lines env)) hg rfl ?_ rfl hm.symm rfl
        cases ρ <;> simp_all [quietRole, isChangeOrSave]
      · split at h
        · rename_i hc
          simp only [Option.some.injEq] at h; subst h; subst hc
          exact (presV_send bad ρ t env s hg hm).toJ
        · cases h
    · rw [exec_nonrun _ _ _ hm]; exact G_nonrun bad hm hg
  | mark e =>
    intro c c' h env s hg
    by_cases hm : s.mode = .run
    · simp only [stepC] at h
      split at h
      · rename_i hmk
        have hbg : isBadGot bad e = false := by cases e <;> simp_all [markOk, isBadGot]
        split at h
        · rename_i hq
          simp only [Option.some.injEq] at h; subst h
          simp only [exec, hm, if_true]
          exact G_snoc_quiet bad e hg rfl (by simpa using hq) hbg hm.symm rfl
        · split at h
          · rename_i hc
            simp only [Option.some.injEq] at h; subst h; subst hc
            exact (presV_mark bad e hbg env s hg hm).toJ
          · cases h
      · cases h
    · rw [exec_nonrun _ _ _ hm]; exact G_nonrun bad hm hg
  | abort l =>
    intro c c' h env s hg
    simp only [stepC, Option.some.injEq] at h; subst h
    by_cases hm : s.mode = .run
    · simp only [exec, hm, if_true, G]
      refine ⟨?_, by simp, by simp, by simp⟩
      show safe bad (s.tr ++ [Ev.logErr]) = true
      rw [safe_append_quiet bad _ _ (by simp [isChangeOrSave])]; exact G_safe bad hg
    · rw [exec_nonrun _ _ _ hm]; exact G_nonrun bad hm hg
  | ret v l =>
    intro c c' h env s hg
    by_cases hm : s.mode = .run
    · simp only [stepC] at h
      split at h
      · rename_i hc
        simp only [Option.some.injEq] at h; subst h; subst hc
        exact (presV_ret bad v l env s hg hm).toJ
      · split at h
        · cases h
        · rename_i hc hv
          simp only [Option.some.injEq] at h; subst h
          have hE : c = .E := by cases c <;> simp_all
          subst hE
          simp only [G] at hg
          simp only [exec, hm, if_true, G]
          refine ⟨hg.safe, by simp, by simp, ?_⟩
          intro _ hf
          have := hg.run hm hf
          cases v <;> simp_all
    · rw [exec_nonrun _ _ _ hm]; exact G_nonrun bad hm hg
  | cont =>
    intro c c' h env s hg
    by_cases hm : s.mode = .run
    · simp only [stepC] at h
      split at h
      · rename_i hc
        simp only [Option.some.injEq] at h; subst h; subst hc
        exact (presV_cont bad env s hg hm).toJ
      · cases h
    · rw [exec_nonrun _ _ _ hm]; exact G_nonrun bad hm hg
  | recvMore p =>
    intro c c' h env s hg
    by_cases hm : s.mode = .run
    · simp only [stepC] at h
      split at h
      · rename_i hc
        simp only [Option.some.injEq] at h; subst h; subst hc
        exact (presV_recvMore bad p env s hg hm).toJ
      · cases h
    · rw [exec_nonrun _ _ _ hm]; exact G_nonrun bad hm hg
  | recv ρ p => intro c c' h; simp [stepC] at h
  | roundTrip ρ t r => intro c c' h; simp [stepC] at h
  | ite cond l t e iht ihe =>
    intro c c' h env s hg
    by_cases hm : s.mode = .run
    · simp only [stepC] at h
      split at h
      · rename_i o hlook
        simp only [Option.some.injEq] at h; subst h
        split at hlook
        · rename_i hc; subst hc
          exact hbl _ _ (lookupBlock_mem hlook) env s hg
        · cases hlook
      · split at h
        · rename_i x y hx hy
          simp only [Option.some.injEq] at h; subst h
          simp only [exec, hm, if_true]
          split
          · exact G_join_left bad (iht c x hx env s hg)
          · rename_i hcond
            refine G_join_right bad (ihe _ y hy env s ?_)
            split
            · rename_i hce
              subst hce
              simp only [evalCond, Bool.not_eq_true] at hcond
              cases c with
              | A => exact hg
              | E =>
                simp only [G] at hg ⊢
                refine ⟨hg.safe, fun _ => ?_, hg.cont, hg.ret⟩
                cases hf : faulted bad s.tr with
                | false => rfl
                | true => have := hg.run hm hf; rw [hcond] at this; cases this
            · exact hg
        · cases h
    · rw [exec_nonrun _ _ _ hm]; exact G_nonrun bad hm hg
  | seq a b iha ihb =>
    intro c c' h env s hg
    simp only [stepC] at h
    split at h
    · rename_i o hlook
      simp only [Option.some.injEq] at h; subst h
      split at hlook
      · rename_i hc; subst hc
        exact hbl _ _ (lookupBlock_mem hlook) env s hg
      · cases hlook
    · split at h
      · rename_i c1 h1
        simp only [exec]
        exact ihb c1 c' h env _ (iha c c1 h1 env s hg)
      · cases h
  | forEach b ih =>
    intro c c' h env s hg
    simp only [stepC] at h
    split at h
    · rename_i hc
      simp only [Option.some.injEq] at h; subst h
      obtain ⟨hcA, hb⟩ := hc
      subst hcA
      simp only [exec, G]
      split
      · exact each_J bad _ (fun pk st hst => ih .A .A hb _ st hst) _ _ hg
      · exact hg
    · cases h
  | loopN n b ih =>
    intro c c' h env s hg
    simp only [stepC] at h
    split at h
    · rename_i hc
      simp only [Option.some.injEq] at h; subst h
      obtain ⟨hcA, hb⟩ := hc
      subst hcA
      simp only [exec, G]
      exact iter_J bad _ (fun st hst => ih .A .A hb env st hst) _ _ hg
    · cases h
  | loopFuel b ih =>
    intro c c' h env s hg
    simp only [stepC] at h
    split at h
    · rename_i hc
      simp only [Option.some.injEq] at h; subst h
      obtain ⟨hcA, hb⟩ := hc
      subst hcA
      simp only [exec, G]
      exact iter_J bad _ (fun st hst => ih .A .A hb env st hst) _ _ hg
    · cases h
  | call n l b ih =>
    intro c c' h env s hg
    by_cases hm : s.mode = .run
    · simp only [stepC] at h
      split at h
      · rename_i hsk
        simp only [Option.some.injEq] at h; subst h
        cases b with
        | skip => simpa [exec, hm] using hg
        | _ => simp [isSkip] at hsk
      · split at h
        · rename_i hc; subst hc
          split at h
          · rename_i hvoid
            simp only [Option.some.injEq] at h; subst h
            have hb : PresV bad b := chk_sound bad [] (fun _ => false) (by simp) (by simp) b hvoid
            exact (presV_call bad hb env s hg hm).toJ
          split at h
          · rename_i o hlook
            simp only [Option.some.injEq] at h; subst h
            exact hbl _ _ (lookupBlock_mem hlook) env s hg
          · simp only [Option.map_eq_some_iff] at h
            obtain ⟨x, hx, rfl⟩ := h
            have h1 := ih .A x hx env s hg
            simp only [exec, hm, if_true]
            split
            · rename_i hr
              simp only [G]
              refine ⟨(G_safe bad h1 : safe bad (exec b env s).tr = true), fun _ hf => ?_, by simp, by simp⟩
              cases x with
              | A => exact h1.ret hr hf
              | E => exact h1.ret hr hf
            · cases x with
              | A => exact G_A_E bad h1
              | E => exact h1
        · cases h
    · rw [exec_nonrun _ _ _ hm]; exact G_nonrun bad hm hg
  | defer cl b _ ihb =>
    intro c c' h env s hg
    simp only [stepC] at h
    split at h
    · rename_i hop
      rw [exec_defer_op cl b hop]
      exact ihb c c' h env s hg
    · cases h
  | scope x b ih =>
    intro c c' h env s hg
    simp only [stepC] at h
    simp only [exec]
    exact ih c c' h env s hg
  | «when» cond b ih =>
    intro c c' h env s hg
    simp only [stepC] at h
    by_cases hm : s.mode = .run
    · split at h
      · rename_i hn
        simp only [Option.some.injEq] at h; subst h; subst hn
        simpa [exec, hm, evalCond] using hg
      · simp only [Option.map_eq_some_iff] at h
        obtain ⟨x, hx, rfl⟩ := h
        simp only [exec, hm, if_true]
        by_cases hcond : evalCond cond env s = true
        · simp only [hcond, if_true]
          refine G_join_right bad (ih _ x hx env s ?_)
          split
          · rename_i hce
            subst hce
            simp only [evalCond, Bool.not_eq_true'] at hcond
            cases c with
            | A => exact hg
            | E =>
              simp only [G] at hg ⊢
              refine ⟨hg.safe, fun _ => ?_, hg.cont, hg.ret⟩
              cases hf : faulted bad s.tr with
              | false => rfl
              | true => have := hg.run hm hf; rw [hcond] at this; cases this
          · exact hg
        · simp only [hcond, if_false]
          exact G_join_left bad hg
    · rw [exec_nonrun _ _ _ hm]
      split at h
      · simp only [Option.some.injEq] at h; subst h; exact hg
      · simp only [Option.map_eq_some_iff] at h
        obtain ⟨x, _, rfl⟩ := h
        exact G_join_left bad hg

end NA.C09
