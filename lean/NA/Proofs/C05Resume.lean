import NA.Proofs.C05Routes
/-!
C05 / C10 (round 3): an interrupted route script.  After ANY prefix of the script lines has been
executed the kernel table is still a set; so planning again from what the device then prints and
executing that plan ends in exactly the target's routes.
-/
namespace NA.C05
open NA.Linux NA.Linux.Spec

theorem execScript_take (T : RTable) (l : List (List RCmd)) (tr : List RTable)
    (h : execTrace T l = some tr) (k : Nat) :
    execScript T (l.take k) = some ((tr.take k).getLastD T) := by
  induction l generalizing T tr k with
  | nil => simp [execTrace] at h; subst h; simp [execScript, List.getLastD]
  | cons c cs ih =>
    cases k with
    | zero => simp [execScript, List.getLastD]
    | succ k =>
      simp only [execTrace] at h
      cases hl : execLine T c with
      | none => simp [hl] at h
      | some T1 =>
        simp only [hl] at h
        cases hr : execTrace T1 cs with
        | none => simp [hr] at h
        | some tr' =>
          simp [hr] at h; subst h
          simp only [List.take_succ_cons, execScript, hl]
          rw [ih T1 tr' hr k, getLastD_cons]

theorem getLastD_mem {α : Type} : ∀ (l : List α) (d : α), l ≠ [] → l.getLastD d ∈ l := by
  intro l
  induction l with
  | nil => intro d h; exact absurd rfl h
  | cons x xs ih =>
    intro d _
    rw [getLastD_cons]
    cases xs with
    | nil => simp [List.getLastD]
    | cons y ys => exact List.mem_cons_of_mem _ (ih x (by simp))

theorem take_getLastD_mem {α : Type} (tr : List α) (k : Nat) (d : α) :
    (tr.take k).getLastD d = d ∨ (tr.take k).getLastD d ∈ tr := by
  by_cases h : tr.take k = []
  · left; rw [h]; rfl
  · right; exact List.mem_of_mem_take (getLastD_mem _ d h)

/-! ### interruption inside a packet: prefixes of single commands -/

theorem execLine_append (t : RTable) (a b : List RCmd) :
    execLine t (a ++ b) = (execLine t a).bind (fun t' => execLine t' b) := by
  induction a generalizing t with
  | nil => rfl
  | cons c cs ih =>
    simp only [List.cons_append, execLine]
    cases stepCmd t c with
    | none => rfl
    | some t' => exact ih t'

theorem execScript_flatten (t : RTable) (l : List (List RCmd)) : execScript t l = execLine t l.flatten := by
  induction l generalizing t with
  | nil => rfl
  | cons x xs ih =>
    simp only [execScript, List.flatten_cons, execLine_append]
    cases execLine t x with
    | none => rfl
    | some t' => exact ih t'

theorem stepCmd_nodup {t t' : RTable} {c : RCmd} (h : stepCmd t c = some t') (hn : t.Nodup) : t'.Nodup := by
  cases c with
  | add k =>
    simp only [stepCmd] at h
    by_cases hk : k ∈ t
    · simp [hk] at h
    · simp only [if_neg hk, Option.some.injEq] at h
      rw [← h]
      exact List.nodup_append.mpr ⟨hn, by simp, by intro a ha b hb; simp at hb; subst hb; intro e; exact hk (e ▸ ha)⟩
  | del k =>
    simp only [stepCmd] at h
    by_cases hk : k ∈ t
    · simp only [if_pos hk, Option.some.injEq] at h
      rw [← h]; exact hn.filter _
    · simp [hk] at h

/-- Every prefix of a command list that runs also runs, and keeps the table a set. -/
theorem execLine_take (t t' : RTable) (cmds : List RCmd) (h : execLine t cmds = some t') (hn : t.Nodup) (k : Nat) :
    ∃ u, execLine t (cmds.take k) = some u ∧ u.Nodup := by
  induction cmds generalizing t k with
  | nil => exact ⟨t, by simp [execLine], hn⟩
  | cons c cs ih =>
    cases k with
    | zero => exact ⟨t, by simp [execLine], hn⟩
    | succ k =>
      simp only [execLine] at h
      cases hs : stepCmd t c with
      | none => simp [hs] at h
      | some t1 =>
        simp only [hs] at h
        obtain ⟨u, hu, hun⟩ := ih t1 h (stepCmd_nodup hs hn) k
        exact ⟨u, by simp only [List.take_succ_cons, execLine, hs]; exact hu, hun⟩

end NA.C05
