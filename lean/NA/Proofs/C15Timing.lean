import NA.Model.IosTiming
import NA.Proofs.C15Loop
/-!
# C15 helper lemmas, part 10: reads are independent of how the bytes are cut into pieces
-/
namespace NA.Ios

/-- the pattern fires exactly when `A` has arrived completely, whatever (good) bytes follow -/
structure StableAt (m : Str → Option Nat) (A : Str) (good : Str → Prop) : Prop where
  early : ∀ b x, A = b ++ x → x ≠ [] → m b = none
  hit : ∀ v, good v → m (A ++ v) = some A.length

theorem expectChunks_stable (m : Str → Option Nat) (A : Str) (good : Str → Prop)
    (hgood : ∀ a b, good (a ++ b) → good a)
    (hs : StableAt m A good) (v buf : Str) (chunks : List Str) (hv : good v)
    (hsplit : buf ++ chunks.flatten = A ++ v) :
    ∃ rest cs, expectChunks m buf chunks = some (A, rest, cs) ∧ rest ++ cs.flatten = v := by
  induction chunks generalizing buf with
  | nil =>
    simp only [List.flatten_nil, List.append_nil] at hsplit
    subst hsplit
    refine ⟨v, [], ?_, by simp⟩
    simp [expectChunks, hs.hit v hv]
  | cons c cs ih =>
    rcases List.append_eq_append_iff.1 hsplit with ⟨a', hA, hw⟩ | ⟨c', hbuf, hvv⟩
    · -- buf is a prefix of A
      by_cases ha : a' = []
      · subst ha
        simp only [List.append_nil] at hA
        subst hA
        refine ⟨[], c :: cs, ?_, by simpa using hw⟩
        have := hs.hit [] (hgood [] v (by simpa using hv))
        simp only [List.append_nil] at this
        simp [expectChunks, this]
      · have hnone : m buf = none := hs.early buf a' hA ha
        have := ih (buf ++ c) (by simp only [List.flatten_cons] at hsplit; simpa [List.append_assoc] using hsplit)
        obtain ⟨rest, cs', h1, h2⟩ := this
        exact ⟨rest, cs', by simp [expectChunks, hnone, h1], h2⟩
    · -- A has arrived completely
      subst hbuf
      have hg : good c' := hgood c' _ (by rw [← hvv]; exact hv)
      refine ⟨c', c :: cs, ?_, hvv.symm⟩
      simp [expectChunks, hs.hit c' hg]

/-! ### the standard prompt -/

theorem noPH_append_left (a b : Str) (h : noPH (a ++ b) = true) : noPH a = true := by
  induction a with
  | nil => rfl
  | cons c a ih =>
    simp only [List.cons_append, noPH, Bool.and_eq_true, Bool.or_eq_true, bne_iff_ne, ne_eq,
      Bool.not_eq_true'] at h ⊢
    refine ⟨?_, ih h.2⟩
    rcases h.1 with h1 | h1
    · exact .inl h1
    · right
      -- a prefix test that fails on the longer text fails on the shorter one
      have : ∀ (p a b : Str), p.isPrefixOf (a ++ b) = false → p.isPrefixOf a = false := by
        intro p
        induction p with
        | nil => intro a b h; simp at h
        | cons x p ihp =>
          intro a b h
          cases a with
          | nil => rfl
          | cons y a =>
            simp only [List.cons_append, List.isPrefixOf, Bool.and_eq_false_iff] at h ⊢
            rcases h with h | h
            · exact .inl h
            · exact .inr (ihp a b h)
      exact this _ _ _ h1

theorem runNoHash_append_left (a b : Str) (h : runNoHash (a ++ b) = true) : runNoHash a = true := by
  induction a with
  | nil => rfl
  | cons c a ih =>
    simp only [List.cons_append, runNoHash, Bool.or_eq_true, Bool.and_eq_true] at h ⊢
    rcases h with h | h
    · exact .inl h
    · exact .inr ⟨h.1, ih h.2⟩

def promptFull : Str := promptHead ++ ['#']

/-- the proper prefixes of a text -/
def properPrefixes : Str → List Str
  | [] => []
  | c :: s => [] :: (properPrefixes s).map (c :: ·)

theorem promptFull_prefixes : ∀ p ∈ properPrefixes promptFull, promptFind p = none ∧ (p = [] ∨ p.head? = some '\n') := by
  decide

theorem promptFind_incomplete (u p : Str) (hu : noPH u = true) (hp : p ∈ properPrefixes promptFull) :
    promptFind (u ++ p) = none := by
  induction u with
  | nil => exact (promptFull_prefixes p hp).1
  | cons c u ih =>
    unfold noPH at hu
    simp only [Bool.and_eq_true, Bool.or_eq_true, bne_iff_ne, ne_eq, Bool.not_eq_true'] at hu
    have hhere : promptHead.isPrefixOf (c :: (u ++ p)) = false := by
      rw [promptHead_eq]
      simp only [List.isPrefixOf]
      cases hc : (('\n' : Char) == c) with
      | false => simp
      | true =>
        have hc' : c = '\n' := (beq_iff_eq.1 hc).symm
        have hr : routerName.isPrefixOf u = false := by
          rcases hu.1 with h | h
          · exact absurd hc' h
          · exact h
        rcases (promptFull_prefixes p hp).2 with rfl | hh
        · simp [hr]
        · cases p with
          | nil => simp [hr]
          | cons x p =>
            simp at hh; subst hh
            rw [isPrefixOf_append_of_not_mem _ _ _ _ (by decide)]
            simp [hr]
    show promptFind (c :: (u ++ p)) = none
    unfold promptFind
    simp only [hhere, Bool.false_eq_true, if_false]
    rw [ih hu.2]; rfl

theorem mem_properPrefixes (A b x : Str) (h : A = b ++ x) (hx : x ≠ []) : b ∈ properPrefixes A := by
  subst h
  induction b with
  | nil =>
    cases x with
    | nil => exact absurd rfl hx
    | cons y x => simp [properPrefixes]
  | cons c b ih =>
    simp only [List.cons_append, properPrefixes, List.mem_cons, List.mem_map]
    exact .inr ⟨b, ih, rfl⟩

/-- the standard prompt after a text `u` without device name at a line start fires exactly when
`u ++ "\nrouter#"` has arrived, whatever `#`-free word follows -/
theorem prompt_stable (u : Str) (hu : noPH u = true) :
    StableAt promptEnd (u ++ promptFull) (fun v => runNoHash v = true) := by
  constructor
  · intro b x hA hx
    -- b is a proper prefix of u ++ promptFull
    unfold promptEnd
    rcases List.append_eq_append_iff.1 hA.symm with ⟨a', hu', _⟩ | ⟨c', hb, hpf⟩
    · -- b is a prefix of u
      have hnb : noPH b = true := noPH_append_left b a' (by rw [← hu']; exact hu)
      have := promptFind_incomplete b [] hnb (by decide)
      simp only [List.append_nil] at this
      simp [this]
    · -- b = u ++ c', c' a proper prefix of promptFull
      have : promptFind b = none := by
        rw [hb]
        exact promptFind_incomplete u c' hu (mem_properPrefixes promptFull c' x hpf hx)
      simp [this]
  · intro v hv
    unfold promptEnd promptFull
    have := promptFind_at u v hu hv
    have e : u ++ (promptHead ++ ['#']) ++ v = u ++ promptHead ++ '#' :: v := by simp
    rw [e, this]
    simp [promptHead_len]

/-- **reading up to the prompt does not depend on how the bytes arrive** -/
theorem prompt_read_chunk_independent (u v buf : Str) (chunks : List Str) (hu : noPH u = true)
    (hv : runNoHash v = true) (hsplit : buf ++ chunks.flatten = u ++ promptFull ++ v) :
    ∃ rest cs, expectChunks promptEnd buf chunks = some (u ++ promptFull, rest, cs) ∧
      rest ++ cs.flatten = v :=
  expectChunks_stable promptEnd (u ++ promptFull) _ (fun a b h => runNoHash_append_left a b h)
    (prompt_stable u hu) v buf chunks hv hsplit

/-! ### `WaitShort("[#] ?$")` -/

theorem endsWithHash_false_of_no_hash (b : Str) (h : '#' ∉ b) : endsWithHash b = false := by
  unfold endsWithHash
  have hr : '#' ∉ b.reverse := by simpa using h
  cases hb : b.reverse with
  | nil => rfl
  | cons x r =>
    rw [hb] at hr
    have hx : x ≠ '#' := fun e => hr (by simp [e])
    cases r with
    | nil =>
      by_cases hsp : x = ' '
      · subst hsp; rfl
      · simp [hx]
    | cons y r =>
      have hy : y ≠ '#' := fun e => hr (by simp [e])
      by_cases hsp : x = ' '
      · subst hsp; simp [hy]
      · simp [hx, hsp]

/-- a `#`-free text followed by `#` at the very end of the stream: `[#] ?$` fires exactly when
everything has arrived -/
theorem hashEnd_stable (w : Str) (hw : '#' ∉ w) :
    StableAt hashEnd (w ++ ['#']) (fun v => v = []) := by
  constructor
  · intro b x hA hx
    have hb : '#' ∉ b := by
      intro hm
      rcases List.append_eq_append_iff.1 hA.symm with ⟨a', hw', _⟩ | ⟨c', hb', hxx⟩
      · exact hw (by rw [hw']; exact List.mem_append_left _ hm)
      · -- b = w ++ c' with c' ++ x = ['#'], x ≠ [] ⇒ c' = []
        cases c' with
        | nil => rw [hb', List.append_nil] at hm; exact hw hm
        | cons y c' =>
          have hl : (['#'] : Str).length = (y :: c' ++ x).length := congrArg List.length hxx
          simp only [List.length_cons, List.length_nil, List.length_append] at hl
          have : x = [] := List.eq_nil_of_length_eq_zero (by omega)
          exact hx this
    simp [hashEnd, endsWithHash_false_of_no_hash b hb]
  · intro v hv
    subst hv
    simp [hashEnd, endsWithHash_append]

theorem hash_read_chunk_independent (w buf : Str) (chunks : List Str) (hw : '#' ∉ w)
    (hsplit : buf ++ chunks.flatten = w ++ ['#']) :
    ∃ cs, expectChunks hashEnd buf chunks = some (w ++ ['#'], [], cs) ∧ cs.flatten = [] := by
  obtain ⟨rest, cs, h1, h2⟩ := expectChunks_stable hashEnd (w ++ ['#']) (fun v => v = [])
    (fun a b h => by simp at h; exact h.1) (hashEnd_stable w hw) [] buf chunks rfl (by simpa using hsplit)
  have hr : rest = [] := (List.append_eq_nil_iff.1 h2).1
  subst hr
  exact ⟨cs, h1, by simpa using h2⟩

/-! ### every answer of the scripted device: the first prompt is found independently of the pieces -/

theorem promptFull_eq : promptFull = '\n' :: prompt := by decide

theorem lines_snoc_noPH (Y u : Str) (hY : Y = u ++ ['\n']) (hn : noPH Y = true) : noPH u = true :=
  noPH_drop_last u (hY ▸ hn)

/-- `replyFor ci b ++ rest` = (text without device name at a line start) ++ first prompt ++ (text
starting with a `#`-free word) -/
theorem reply_first_prompt (ci : Str) (b : Behav) (rest : Str) (hc : CleanCmd ci) (hb : CleanBehav b)
    (hr : runNoHash rest = true) :
    ∃ u v, replyFor ci b ++ rest = u ++ promptFull ++ v ∧ noPH u = true ∧ runNoHash v = true := by
  have hbell : '\x07' ∉ ci ++ '\n' :: b.out := by
    intro h; rcases List.mem_append.1 h with h | h
    · exact hc.noBell h
    · rcases List.mem_cons.1 h with h | h
      · cases h
      · exact hb.out.noBell h
  obtain ⟨u0, hu0⟩ := echo_out_endsNL ci b.out hb.out
  have hn0 : noPH u0 = true := noPH_drop_last u0 (by rw [← hu0]; exact noPH_echo_out ci b.out hc hb.out)
  unfold replyFor
  cases hf : b.form with
  | none =>
    refine ⟨u0, rest, ?_, hn0, hr⟩
    have : ci ++ ['\n'] ++ b.out = u0 ++ ['\n'] := by simpa using hu0
    rw [this, promptFull_eq]; simp
  | before pad =>
    have hm := hb.msg (by rw [hf]; simp)
    refine ⟨nls pad ++ bannerText b.msg, ci ++ '\n' :: b.out ++ prompt ++ rest, ?_, ?_, ?_⟩
    · rw [promptFull_eq]; simp
    · have : noPH (nls pad ++ bannerText b.msg ++ []) = true := by
        rw [noPH_banner _ _ _ hm.noNL, noPH_nls']; decide
      simpa using this
    · have := hc.runNoHash_append (b.out ++ prompt ++ rest); simpa using this
  | inside off =>
    have hm := hb.msg (by rw [hf]; simp)
    obtain ⟨u1, hu1⟩ := echo_out_endsNL (ci.drop off) b.out hb.out
    refine ⟨ci.take off ++ bannerText b.msg ++ u1, rest, ?_, ?_, hr⟩
    · have : ci.drop off ++ ['\n'] ++ b.out = u1 ++ ['\n'] := by simpa using hu1
      rw [promptFull_eq]
      calc ci.take off ++ bannerText b.msg ++ ci.drop off ++ ['\n'] ++ b.out ++ prompt ++ rest
          = ci.take off ++ bannerText b.msg ++ (ci.drop off ++ ['\n'] ++ b.out) ++ prompt ++ rest := by simp
        _ = _ := by rw [this]; simp
    · apply noPH_drop_last
      have e : ci.take off ++ bannerText b.msg ++ u1 ++ ['\n'] =
          ci.take off ++ bannerText b.msg ++ (ci.drop off ++ '\n' :: b.out) := by rw [hu1]; simp
      rw [e, noPH_banner _ _ _ hm.noNL]
      have h1 : noPH (ci.take off) = true := noPH_of_no_nl _ (fun e => hc.noNL (List.mem_of_mem_take e))
      have h2 : routerName.isPrefixOf (ci.drop off ++ '\n' :: b.out) = false := by
        rw [isPrefixOf_append_of_not_mem _ _ _ _ (by decide)]; exact hc.noName off
      have h3 : noPH (ci.drop off ++ '\n' :: b.out) = true := by
        have h := hb.out.noName
        rw [noPH] at h
        simp only [bne_self_eq_false, Bool.false_or, Bool.and_eq_true, Bool.not_eq_true'] at h
        rw [noPH_append_nl, noPH_of_no_nl _ (fun e => hc.noNL (List.mem_of_mem_drop e)), h.1, h.2]; rfl
      simp [h1, h2, h3]
  | afterPrompt pad =>
    have hm := hb.msg (by rw [hf]; simp)
    have hbody : dropLastNL (ci ++ ['\n'] ++ b.out) = u0 := by
      have : ci ++ ['\n'] ++ b.out = u0 ++ ['\n'] := by simpa using hu0
      rw [this]; exact dropLastNL_snoc u0
    refine ⟨u0 ++ nls pad ++ bannerText b.msg, '\n' :: prompt ++ rest, ?_, ?_, ?_⟩
    · rw [hbody, promptFull_eq]; simp
    · have : noPH (u0 ++ nls pad ++ bannerText b.msg ++ []) = true := by
        rw [noPH_banner _ _ _ hm.noNL, noPH_append_nls, hn0]; decide
      simpa using this
    · simp [runNoHash, isReSpace]
  | after =>
    have hm := hb.msg (by rw [hf]; simp)
    have hbody : dropLastNL (ci ++ ['\n'] ++ b.out) = u0 := by
      have : ci ++ ['\n'] ++ b.out = u0 ++ ['\n'] := by simpa using hu0
      rw [this]; exact dropLastNL_snoc u0
    refine ⟨u0 ++ bannerText b.msg, rest, ?_, ?_, hr⟩
    · rw [hbody, promptFull_eq]; simp
    · have : noPH (u0 ++ bannerText b.msg ++ []) = true := by
        rw [noPH_banner _ _ _ hm.noNL, hn0]; decide
      simpa using this
  | afterLine pre post =>
    have hm := hb.msg (by rw [hf]; simp)
    have hline : ci ++ ['\n'] ++ b.out = u0 ++ ['\n'] := by simpa using hu0
    -- the text in front of the prompt ends in a line feed: the banner's own, or the last empty line
    obtain ⟨u', hu'⟩ : ∃ u', u0 ++ nls (pre + 1) ++ bannerText b.msg ++ nls post = u' ++ ['\n'] := by
      cases post with
      | zero => exact ⟨u0 ++ nls (pre + 1) ++ (bannerHead ++ b.msg ++ lit "\n***"), by
          rw [bannerText_snoc]; simp [nls]⟩
      | succ k => exact ⟨u0 ++ nls (pre + 1) ++ bannerText b.msg ++ nls k, by
          rw [← nls_add k 1]; simp [nls]⟩
    have hn' : noPH u' = true := by
      apply noPH_drop_last
      rw [← hu', noPH_banner _ _ _ hm.noNL, noPH_append_nls, hn0, router_not_prefix_nls, noPH_nls']; rfl
    refine ⟨u', rest, ?_, hn', hr⟩
    have e : ci ++ ['\n'] ++ b.out ++ nls pre ++ bannerText b.msg ++ nls post ++ prompt ++ rest =
        (u0 ++ nls (pre + 1) ++ bannerText b.msg ++ nls post) ++ prompt ++ rest := by
      rw [hline, nls_succ]; simp
    rw [e, hu', promptFull_eq]; simp

end NA.Ios
