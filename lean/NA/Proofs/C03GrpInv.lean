import NA.Proofs.C03GrpModel
/-
C03, whole-vsys theorems with address-groups, part 3: the invariants of the claims (`GInv`), the
group table of the device (`SimG`), and `adaptGroups`.  Core Lean only.
-/
namespace NA.PanOs

/-- What the flags of the groups mean.  `Ref x`: a rule of the target names `x`. -/
structure GInv (Ref : String → Prop) (st : St) : Prop where
  anodup : (st.aGrp.map (·.g.name)).Nodup
  bnodup : (st.bGrp.map (·.g.name)).Nodup
  ane : ∀ ga ∈ st.aGrp, ga.g.name ≠ ""
  fresh : ∀ gb ∈ st.bGrp, gb.newName ≠ "" ∧ gb.newName ∉ st.aGrp.map (·.g.name)
  aplain : ∀ ga ∈ st.aGrp, ∀ m ∈ ga.g.members, st.aGrpIdx m = none
  bplain : ∀ gb ∈ st.bGrp, ∀ m ∈ gb.g.members, st.bGrpIdx m = none
  amemnd : ∀ ga ∈ st.aGrp, ga.g.members.Nodup
  bmemnd : ∀ gb ∈ st.bGrp, gb.g.members.Nodup
  c0 : ∀ gb ∈ st.bGrp, gb.onDev = "" → Ref gb.g.name → gb.needed = true
  c1 : ∀ gb ∈ st.bGrp, gb.onDev = gb.newName → gb.needed = true
  c2 : ∀ gb ∈ st.bGrp, ∀ ga ∈ st.aGrp, gb.onDev = ga.g.name → ga.needed = true
  c3 : ∀ gb ∈ st.bGrp, gb.onDev = "" ∨ gb.onDev = gb.newName ∨ gb.onDev ∈ st.aGrp.map (·.g.name)
  bne : ∀ gb ∈ st.bGrp, gb.g.name ≠ ""
  c4 : ∀ ga ∈ st.aGrp, ga.needed = true → ∃ gb ∈ st.bGrp, gb.onDev = ga.g.name
  c5 : ∀ gb ∈ st.bGrp, gb.onDev ≠ "" → Ref gb.g.name

/-- The group table of the device while the group-member requests are executed. -/
structure SimG (sh : Shared) (Ref : String → Prop) (st : St) (vg : Vsys) : Prop where
  U : ∀ ga ∈ st.aGrp, ga.needed = false →
    ∃ ms, lookupGrp vg.groups ga.g.name = some ms ∧ SameMem ms ga.g.members ∧ ms.Nodup
  K : ∀ gb ∈ st.bGrp, ∀ ga ∈ st.aGrp, gb.onDev = ga.g.name →
    ∃ ms, lookupGrp vg.groups ga.g.name = some ms ∧ SameMem ms gb.g.members
  anames : ∀ ga ∈ st.aGrp, ga.g.name ∈ vg.groups.map (·.name)
  mems : ∀ gb ∈ st.bGrp, Ref gb.g.name → ∀ m ∈ gb.g.members, addrRefOk sh vg m = true

/-! ### Static parts under `GMono` -/

theorem mem_of_map_eq {α β : Type} {l l' : List α} {f : α → β} (h : l'.map f = l.map f) {x : α} (hx : x ∈ l') :
    ∃ y ∈ l, f y = f x := by
  have : f x ∈ l.map f := by rw [← h]; exact List.mem_map_of_mem hx
  obtain ⟨y, hy, e⟩ := List.mem_map.mp this
  exact ⟨y, hy, e⟩

theorem GMono.amem {st st' : St} (h : GMono st st') {ga' : AGrp} (hx : ga' ∈ st'.aGrp) :
    ∃ ga ∈ st.aGrp, ga.g = ga'.g := mem_of_map_eq h.ag hx

theorem GMono.bmem {st st' : St} (h : GMono st st') {gb' : BGrp} (hx : gb' ∈ st'.bGrp) :
    ∃ gb ∈ st.bGrp, gb.g = gb'.g ∧ gb.newName = gb'.newName := by
  obtain ⟨y, hy, e⟩ := mem_of_map_eq h.bg hx
  simp only [Prod.mk.injEq] at e
  exact ⟨y, hy, e.1, e.2⟩

/-! ### A claim keeps the invariants -/

theorem idx_of_name {l : List AGrp} (hnd : (l.map (·.g.name)).Nodup) {i j : Nat} {x y : AGrp}
    (hi : l[i]? = some x) (hj : l[j]? = some y) (e : x.g.name = y.g.name) : i = j := by
  have h1 : (l.map (·.g.name))[i]? = some x.g.name := by rw [List.getElem?_map, hi]; rfl
  have h2 : (l.map (·.g.name))[j]? = some x.g.name := by rw [List.getElem?_map, hj, e]; rfl
  exact nodup_getElem?_inj hnd h1 h2

/-- The planner state after device group `i` is claimed for target group `gbi`. -/
def claimSt (st : St) (i gbi : Nat) (name : String) : St :=
  { st with
    aGrp := modAt st.aGrp i (fun g => { g with needed := true }),
    bGrp := modAt st.bGrp gbi (fun g => { g with needed := false, onDev := name }) }

theorem claimSt_aIdx (st : St) (i gbi : Nat) (name x : String) : (claimSt st i gbi name).aGrpIdx x = st.aGrpIdx x := by
  unfold St.aGrpIdx claimSt
  simp only
  rw [modAt_map st.aGrp i (fun g => { g with needed := true }) (fun x => x.g.name) (fun _ => rfl)]

theorem claimSt_bIdx (st : St) (i gbi : Nat) (name x : String) : (claimSt st i gbi name).bGrpIdx x = st.bGrpIdx x := by
  unfold St.bGrpIdx claimSt
  simp only
  rw [modAt_map st.bGrp gbi (fun g => { g with needed := false, onDev := name }) (fun x => x.g.name) (fun _ => rfl)]

theorem GInv.claim {Ref : String → Prop} {st : St} (h : GInv Ref st) (i gbi : Nat) (ga : AGrp) (gb : BGrp)
    (hi : st.aGrp[i]? = some ga) (hb : st.bGrp[gbi]? = some gb) (h0 : gb.onDev = "") (hr : Ref gb.g.name) :
    GInv Ref (claimSt st i gbi ga.g.name) := by
  have hmono : GMono st (claimSt st i gbi ga.g.name) :=
    GMono.claim st i gbi ga.g.name (fun gb' hb' => by rw [hb] at hb'; cases hb'; exact h0)
  have hgamem : ga ∈ st.aGrp := List.mem_of_getElem? hi
  have hname_ne : ga.g.name ≠ "" := h.ane ga hgamem
  -- elements of the new tables
  have amem : ∀ ga' ∈ (claimSt st i gbi ga.g.name).aGrp,
      (ga' ∈ st.aGrp) ∨ (ga' = { ga with needed := true }) := by
    intro ga' hga'
    rcases mem_modAt hga' with h1 | ⟨y, hy, e⟩
    · exact Or.inl h1
    · rw [hi] at hy; cases hy; exact Or.inr e
  have bmem : ∀ gb' ∈ (claimSt st i gbi ga.g.name).bGrp,
      (gb' ∈ st.bGrp) ∨ (gb' = { gb with needed := false, onDev := ga.g.name }) := by
    intro gb' hgb'
    rcases mem_modAt hgb' with h1 | ⟨y, hy, e⟩
    · exact Or.inl h1
    · rw [hb] at hy; cases hy; exact Or.inr e
  have hgbmem : gb ∈ st.bGrp := List.mem_of_getElem? hb
  refine ⟨by rw [hmono.anames]; exact h.anodup, by rw [hmono.bnames]; exact h.bnodup, ?_, ?_, ?_, ?_, ?_, ?_,
    ?_, ?_, ?_, ?_, ?_, ?_, ?_⟩
  rotate_right
  · -- c5
    intro gb' hgb' hne'
    rcases bmem gb' hgb' with h1 | h1
    · exact h.c5 gb' h1 hne'
    · rw [h1]; exact hr
  rotate_right
  · -- c4
    intro ga' hga' hn'
    have hnew : ({ gb with needed := false, onDev := ga.g.name } : BGrp) ∈ (claimSt st i gbi ga.g.name).bGrp := by
      apply List.mem_of_getElem? (i := gbi)
      simp [claimSt, modAt_getElem?, hb]
    rcases amem ga' hga' with h1 | h1
    · obtain ⟨gb0, hgb0, e0⟩ := h.c4 ga' h1 hn'
      -- the old witness is still there (it is not the entry `gbi`, whose name on the device was empty)
      obtain ⟨j, hj⟩ := List.getElem?_of_mem hgb0
      have hjne : j ≠ gbi := by
        intro e
        subst e
        rw [hb] at hj; cases hj
        rw [h0] at e0
        exact h.ane ga' h1 e0.symm
      refine ⟨gb0, ?_, e0⟩
      apply List.mem_of_getElem? (i := j)
      simp only [claimSt, modAt_getElem?, hjne, if_false]
      exact hj
    · rw [h1]; exact ⟨_, hnew, rfl⟩
  · intro ga' hga'
    rcases amem ga' hga' with h1 | h1
    · exact h.ane ga' h1
    · rw [h1]; exact hname_ne
  · intro gb' hgb'
    rw [hmono.anames]
    rcases bmem gb' hgb' with h1 | h1
    · exact h.fresh gb' h1
    · rw [h1]; exact h.fresh gb hgbmem
  · intro ga' hga' m hm
    rw [claimSt_aIdx]
    rcases amem ga' hga' with h1 | h1
    · exact h.aplain ga' h1 m hm
    · rw [h1] at hm; exact h.aplain ga hgamem m hm
  · intro gb' hgb' m hm
    rw [claimSt_bIdx]
    rcases bmem gb' hgb' with h1 | h1
    · exact h.bplain gb' h1 m hm
    · rw [h1] at hm; exact h.bplain gb hgbmem m hm
  · intro ga' hga'
    rcases amem ga' hga' with h1 | h1
    · exact h.amemnd ga' h1
    · rw [h1]; exact h.amemnd ga hgamem
  · intro gb' hgb'
    rcases bmem gb' hgb' with h1 | h1
    · exact h.bmemnd gb' h1
    · rw [h1]; exact h.bmemnd gb hgbmem
  · -- c0
    intro gb' hgb' he hr
    rcases bmem gb' hgb' with h1 | h1
    · exact h.c0 gb' h1 he hr
    · rw [h1] at he; exact absurd he hname_ne
  · -- c1
    intro gb' hgb' he
    rcases bmem gb' hgb' with h1 | h1
    · exact h.c1 gb' h1 he
    · rw [h1] at he
      simp only at he
      exact absurd (he ▸ List.mem_map_of_mem hgamem) (h.fresh gb hgbmem).2
  · -- c2
    intro gb' hgb' ga' hga' he
    rcases amem ga' hga' with h2 | h2
    · rcases bmem gb' hgb' with h1 | h1
      · -- both old: the old device group was needed; is it still?  it is the same entry
        exact h.c2 gb' h1 ga' h2 he
      · rw [h1] at he
        simp only at he
        -- ga' has the name of ga: it is the entry at index i, which … is `ga` itself (old), so `ga' = ga`
        obtain ⟨j, hj⟩ := List.getElem?_of_mem h2
        have := idx_of_name h.anodup hi hj he
        subst this
        rw [hi] at hj; cases hj
        -- but `ga'` is an element of the NEW table: at index i the new table holds the claimed entry
        obtain ⟨j', hj'⟩ := List.getElem?_of_mem hga'
        have hj'' := hj'
        simp only [claimSt, modAt_getElem?] at hj''
        split at hj''
        · rename_i e; subst e
          rw [hi] at hj''; simp only [Option.map_some, Option.some.injEq] at hj''
          rw [← hj'']
        · -- another index with the same name: impossible
          have := idx_of_name h.anodup hi hj'' rfl
          omega
    · rw [h2]
  · -- c3
    intro gb' hgb'
    rw [hmono.anames]
    rcases bmem gb' hgb' with h1 | h1
    · exact h.c3 gb' h1
    · rw [h1]; exact Or.inr (Or.inr (List.mem_map_of_mem hgamem))
  · intro gb' hgb'
    rcases bmem gb' hgb' with h1 | h1
    · exact h.bne gb' h1
    · rw [h1]; exact h.bne gb hgbmem

end NA.PanOs
