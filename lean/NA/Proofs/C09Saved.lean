import NA.Proofs.C09Sends
import NA.Proofs.C09Term
/-!
# C09: the save step returns normally only after the device confirmed it
(ASA `write memory`, IOS `writeMem`, PAN-OS `commit`)
-/
namespace NA.C09
open NA.Sess NA.Apply NA.Spec.C09

/-- the trivial failure predicate: the structural lemmas about waits can be reused without
any assumption on the state -/
def noBad : Role → Reply → Bool := fun _ _ => false

theorem safeFrom_noBad (l : List Ev) : safeFrom noBad false l = true := by
  induction l with
  | nil => rfl
  | cons e t ih => simp only [safeFrom, Bool.false_and, Bool.not_false, Bool.true_and, Bool.false_or]
                   have : isBadGot noBad e = false := by cases e <;> simp [isBadGot, noBad]
                   rw [this]; exact ih

theorem J_noBad (s : St) : J noBad s := by
  have hf : faulted noBad s.tr = false := by
    simp only [faulted, List.any_eq_false]
    intro e _
    cases e <;> simp [isBadGot, noBad]
  exact ⟨safeFrom_noBad _, fun _ => hf, fun _ => hf, fun _ h => by rw [hf] at h; cases h⟩

theorem saveConfirmed_snoc (tr0 : List Ev) (r : Reply)
    (h : Flag.okMark ∈ r.flags ∨ Flag.jobOk ∈ r.flags ∨ Flag.noChanges ∈ r.flags) :
    saveConfirmed (tr0 ++ [Ev.got .save r]) = true := by
  simp only [saveConfirmed, List.any_append, List.any_cons, List.any_nil, Bool.or_false, Bool.or_eq_true]
  right
  rcases h with h | h | h <;> simp [h]

theorem saveConfirmed_mono (a b : List Ev) (h : saveConfirmed a = true) : saveConfirmed (a ++ b) = true := by
  simp only [saveConfirmed, List.any_append, Bool.or_eq_true] at h ⊢
  exact Or.inl h

/-- ASA: the `write memory` block ends in normal mode only if the reply contained `[OK]` -/
theorem asa_saved_if_completes (env : Env) (s : St) (hm : s.mode = .run)
    (hend : (exec (GetCmdOutput .save (.lit "write memory") ["write memory"] ;;
       .ite (.not (.flag .okMark)) "¬strings.Contains($GetCmdOutput, \"[OK]\")"
         (.abort ["Command 'write memory' failed, missing [OK] in output:\n%s", "_"]) .skip) env s).mode = .run) :
    saveConfirmed (exec (GetCmdOutput .save (.lit "write memory") ["write memory"] ;;
       .ite (.not (.flag .okMark)) "¬strings.Contains($GetCmdOutput, \"[OK]\")"
         (.abort ["Command 'write memory' failed, missing [OK] in output:\n%s", "_"]) .skip) env s).tr = true := by
  have h1 := getCmdOutput_spec noBad .save (.lit "write memory") ["write memory"] env s (J_noBad s) hm
  rw [exec_seq] at hend ⊢
  generalize exec (GetCmdOutput .save (.lit "write memory") ["write memory"]) env s = s1 at h1 hend ⊢
  cases h1 with
  | aborted h hp =>
    have hne : s1.mode ≠ .run := by rw [hp]; decide
    rw [exec_nonrun _ _ _ hne] at hend
    exact absurd hend hne
  | ok h harr hecho he hc =>
    have hm1 := h.mode
    obtain ⟨tr0, hsplit, _, _⟩ := h.split
    by_cases h0 : Flag.okMark ∈ s1.last.flags
    · simp [exec, hm1, evalCond, h0]
      rw [hsplit]; exact saveConfirmed_snoc _ _ (Or.inl h0)
    · simp [exec, hm1, evalCond, h0] at hend


/-- a `for { … }` that ends by `return` ends with the result of one of its rounds -/
theorem iter_ret (f : St → St) : ∀ (n : Nat) (s : St), s.mode = .run → (iter n f s).mode = .ret →
    ∃ st, st.mode = .run ∧ iter n f s = f st := by
  intro n
  induction n with
  | zero => intro s hs h; simp [iter, hs] at h
  | succ n ih =>
    intro s hs h
    rw [iter] at h ⊢
    simp only [hs, if_true] at h ⊢
    split at h
    · exact ih _ rfl h
    · rename_i hr; exact ih _ hr h
    · exact ⟨s, hs, rfl⟩

/-- a `for { … }` whose body never falls through does not end in normal mode -/
theorem iter_ne_run (f : St → St) (hf : ∀ st, st.mode = .run → (f st).mode ≠ .run) :
    ∀ (n : Nat) (s : St), (iter n f s).mode ≠ .run := by
  intro n
  induction n with
  | zero =>
    intro s
    simp only [iter]
    split
    · simp
    · rename_i h; exact h
  | succ n ih =>
    intro s
    simp only [iter]
    split
    · rename_i hs
      split
      · exact ih _
      · rename_i hr; exact absurd hr (hf s hs)
      · rename_i _ h2; exact h2
    · rename_i h; exact h

/-- the tail of an IOS `writeMem` round returns only on `[OK]` -/
theorem ios_tail_ret (env : Env) (sX : St) (h : Pd noBad .save sX)
    (hr : (exec (
      .ite (.flag .okMark) "strings.Contains($IssueCmd, \"[OK]\")" (.ret .none []) .skip ;;
      .ite (.flag .openFailed) "strings.Contains($IssueCmd, \"startup-config file open failed\")"
        (.ite .ctrPos "$v > 0" (.decCtr ;; .cont) .skip ;;
         .abort ["write mem: startup-config open failed - giving up"]) .skip ;;
      .abort ["write mem: unexpected result: %s", "_"]) env sX).mode = .ret) :
    saveConfirmed (exec (
      .ite (.flag .okMark) "strings.Contains($IssueCmd, \"[OK]\")" (.ret .none []) .skip ;;
      .ite (.flag .openFailed) "strings.Contains($IssueCmd, \"startup-config file open failed\")"
        (.ite .ctrPos "$v > 0" (.decCtr ;; .cont) .skip ;;
         .abort ["write mem: startup-config open failed - giving up"]) .skip ;;
      .abort ["write mem: unexpected result: %s", "_"]) env sX).tr = true := by
  have hm1 := h.mode
  obtain ⟨tr0, hsplit, _, _⟩ := h.split
  by_cases hok : Flag.okMark ∈ sX.last.flags
  · simp [exec, hm1, evalCond, hok]
    rw [hsplit]; exact saveConfirmed_snoc _ _ (Or.inl hok)
  · by_cases hof : Flag.openFailed ∈ sX.last.flags
    · by_cases hctr : sX.ctr > 0
      · simp [exec, hm1, evalCond, hok, hof, hctr] at hr
      · simp [exec, hm1, evalCond, hok, hof, hctr] at hr
    · simp [exec, hm1, evalCond, hok, hof] at hr

/-- IOS: a round of `writeMem` returns only after `[OK]` -/
theorem ios_round_ret (env : Env) (s : St) (hm : s.mode = .run)
    (hr : (exec iosWriteMemRound env s).mode = .ret) : saveConfirmed (exec iosWriteMemRound env s).tr = true := by
  unfold iosWriteMemRound at *
  have h1 := issueCmd_spec noBad .save (.lit "write memory") (.stdOr [.confirm])
    ["write memory", "#[ ]?|\\[confirm\\]"] env s (J_noBad s) hm
  rw [exec_seq] at hr ⊢
  generalize exec (IssueCmd .save (.lit "write memory") (.stdOr [.confirm]) ["write memory", "#[ ]?|\\[confirm\\]"]) env s = s1 at h1 hr ⊢
  cases h1 with
  | aborted h hp =>
    have hne : s1.mode ≠ .run := by rw [hp]; decide
    rw [exec_nonrun _ _ _ hne, hp] at hr
    cases hr
  | ok h hpm he hc =>
    have hm1 := h.mode
    rw [exec_seq, exec_ite _ _ _ _ _ _ hm1] at hr ⊢
    by_cases hov : Flag.overwrite ∈ s1.last.flags
    · have h2 := getCmdOutput_spec noBad .save (.lit "") [""] env s1 (J_noBad s1) hm1
      simp only [evalCond, List.contains_iff_mem, hov, if_true] at hr ⊢
      generalize exec (GetCmdOutput .save (.lit "") [""]) env s1 = s2 at h2 hr ⊢
      cases h2 with
      | aborted h' hp' =>
        have hne : s2.mode ≠ .run := by rw [hp']; decide
        rw [exec_nonrun _ _ _ hne, hp'] at hr
        cases hr
      | ok h' _ _ _ _ => exact ios_tail_ret env s2 h' hr
    · simp only [evalCond, List.contains_iff_mem, hov, if_false, exec_skip] at hr ⊢
      exact ios_tail_ret env s1 h hr

/-- **IOS: `writeMem` comes back (no abort) only after the device answered `[OK]`.** -/
theorem ios_saved_if_completes (env : Env) (s : St) (hm : s.mode = .run)
    (hend : (exec iosWriteMem env s).mode = .run) : saveConfirmed (exec iosWriteMem env s).tr = true := by
  rw [iosWriteMem, iosWriteMemBody_eq, exec_call _ _ _ _ _ hm, exec_seq, exec_loopN] at hend ⊢
  have hm' : (exec (.setCtr 2) env s).mode = .run := by simp [exec, hm]
  generalize exec (.setCtr 2) env s = s0 at hm' hend ⊢
  split at hend
  · rename_i hret
    simp only [hret, if_true]
    obtain ⟨st, hst, heq⟩ := iter_ret _ 3 s0 hm' hret
    rw [heq] at hret ⊢
    exact ios_round_ret env st hst hret
  · rename_i hnr
    -- the loop never ends in normal mode
    exfalso
    have := iter_ne_run (exec iosWriteMemRound env) (fun st hst => leaves_mode iosWriteMemRound (by decide) env st hst) 3 s0
    exact this hend


/-! ## PAN-OS -/

/-- one round of the PAN-OS job poll (the body of the `for { … }` in `commit`) -/
def panosPollRound : Sess :=
  panosDoCmd .save (.lit "show jobs") ;;
  .ite .err "err != nil" (.ret .keep ["err"]) .skip ;;
  xmlUnmarshal ;;
  .ite .err "err != nil" (.ret .keep ["err"]) .skip ;;
  .ite (.flag .pend) "¬$v.Result != \"PEND\"" .cont
    (.ite (.flag .jobOk) "¬$v.Result != \"OK\"" (.ret .nil ["nil"]) (.ret .err ["_"]))

/-- the commit request and the inspection of its answer -/
def panosCommitHead : Sess :=
  panosDoCmd .save (.lit "commit") ;;
  .ite .err "err != nil" (.ret .keep ["err"]) .skip ;;
  .ite (.flag .noChanges)
    "strings.Contains($doCmd.1, \"There are no changes to commit\") || strings.Contains($doCmd.1, \"The result of this commit would be the same\")"
    (.ret .nil ["nil"]) .skip ;;
  .ite (.not (.flag .msgEmpty)) "$doCmd.1 != \"\"" (.ret .err ["_"]) .skip

theorem panosCommitBody_eq : panosCommitBody =
    (panosCommitHead ;; xmlUnmarshal ;; .ite .err "err != nil" (.ret .keep ["err"]) .skip ;; .loopFuel panosPollRound) := rfl

theorem noBad_rep : PanosRep noBad := fun _ _ _ => rfl

/-- a poll round returns nil only on job result OK -/
theorem panos_round_ret_nil (env : Env) (s : St) (hm : s.mode = .run)
    (hr : (exec panosPollRound env s).mode = .ret) (he : (exec panosPollRound env s).errv = false) :
    saveConfirmed (exec panosPollRound env s).tr = true := by
  unfold panosPollRound at *
  have h1 := panosDoCmd_spec noBad noBad_rep .save (.lit "show jobs") env s (J_noBad s) hm
  rw [exec_seq] at hr he ⊢
  generalize exec (panosDoCmd .save (.lit "show jobs")) env s = s1 at h1 hr he ⊢
  cases h1 with
  | err hs he1 hm1 => simp [xmlUnmarshal, exec, hm1, evalCond, he1] at he
  | ok h hk he1 =>
    have hm1 := h.mode
    obtain ⟨tr0, hsplit, _, _⟩ := h.split
    by_cases hw : Flag.wellFormed ∈ s1.last.flags
    · by_cases hp : Flag.pend ∈ s1.last.flags
      · simp [xmlUnmarshal, exec, hm1, evalCond, he1, hw, hp] at hr
      · by_cases hok : Flag.jobOk ∈ s1.last.flags
        · simp [xmlUnmarshal, exec, hm1, evalCond, he1, hw, hp, hok]
          rw [hsplit]; exact saveConfirmed_snoc _ _ (Or.inr (Or.inl hok))
        · simp [xmlUnmarshal, exec, hm1, evalCond, he1, hw, hp, hok] at he
    · simp [xmlUnmarshal, exec, hm1, evalCond, he1, hw] at he

/-- **PAN-OS: `commit` returns nil only after the device said "no changes" or the job result was OK.** -/
theorem panos_saved_if_commit_returns_nil (env : Env) (s : St) (hm : s.mode = .run)
    (hend : (exec panosCommit env s).mode = .run) (herr : (exec panosCommit env s).errv = false) :
    saveConfirmed (exec panosCommit env s).tr = true := by
  rw [panosCommit, panosCommitBody_eq, exec_call _ _ _ _ _ hm] at hend herr ⊢
  rw [exec_seq] at hend herr ⊢
  have h1 := panosDoCmd_spec noBad noBad_rep .save (.lit "commit") env s (J_noBad s) hm
  -- the head
  have hhead : ∀ sH, sH = exec panosCommitHead env s →
      (sH.mode = .ret ∧ sH.errv = true) ∨ (sH.mode = .ret ∧ saveConfirmed sH.tr = true) ∨ (sH.mode = .run) := by
    intro sH hsH
    rw [hsH, panosCommitHead, exec_seq]
    generalize exec (panosDoCmd .save (.lit "commit")) env s = s1 at h1
    cases h1 with
    | err hs he1 hm1 => left; simp [exec, hm1, evalCond, he1]
    | ok h hk he1 =>
      have hm1 := h.mode
      obtain ⟨tr0, hsplit, _, _⟩ := h.split
      by_cases hn : Flag.noChanges ∈ s1.last.flags
      · right; left
        simp [exec, hm1, evalCond, he1, hn]
        rw [hsplit]; exact saveConfirmed_snoc _ _ (Or.inr (Or.inr hn))
      · by_cases hme : Flag.msgEmpty ∈ s1.last.flags
        · right; right; simp [exec, hm1, evalCond, he1, hn, hme]
        · left; simp [exec, hm1, evalCond, he1, hn, hme]
  generalize hH : exec panosCommitHead env s = sH at hend herr ⊢
  rcases hhead sH hH.symm with ⟨hmH, heH⟩ | ⟨hmH, hcH⟩ | hmH
  · have hne : sH.mode ≠ .run := by rw [hmH]; decide
    rw [exec_nonrun _ _ _ hne] at herr
    simp [hmH, heH] at herr
  · have hne : sH.mode ≠ .run := by rw [hmH]; decide
    rw [exec_nonrun _ _ _ hne]
    simp only [hmH, if_true]
    exact hcH
  · -- the job was enqueued: decode the job id, then poll
    rw [exec_seq, exec_seq] at hend herr ⊢
    have hU : (exec xmlUnmarshal env sH).mode = .run ∧ (exec xmlUnmarshal env sH).tr = sH.tr := by
      by_cases hw : Flag.wellFormed ∈ sH.last.flags <;> simp [xmlUnmarshal, exec, hmH, evalCond, hw]
    generalize exec xmlUnmarshal env sH = sU at hU hend herr ⊢
    by_cases heU : sU.errv = true
    · have hI : (exec (.ite .err "err != nil" (.ret .keep ["err"]) .skip) env sU).mode = .ret
          ∧ (exec (.ite .err "err != nil" (.ret .keep ["err"]) .skip) env sU).errv = true := by
        simp [exec, hU.1, evalCond, heU]
      generalize exec (.ite .err "err != nil" (.ret .keep ["err"]) .skip) env sU = sI at hI hend herr
      have hne : sI.mode ≠ .run := by rw [hI.1]; decide
      rw [exec_nonrun _ _ _ hne] at herr
      simp [hI.1, hI.2] at herr
    · have heU' : sU.errv = false := by simpa using heU
      have hI : exec (.ite .err "err != nil" (.ret .keep ["err"]) .skip) env sU = sU := by
        simp [exec, hU.1, evalCond, heU']
      rw [hI] at hend herr ⊢
      have hL : exec (.loopFuel panosPollRound) env sU = iter env.fuel (exec panosPollRound env) sU := by simp [exec]
      rw [hL] at hend herr ⊢
      split at hend
      · rename_i hret
        simp only [hret, if_true] at herr ⊢
        obtain ⟨st, hst, heq⟩ := iter_ret _ env.fuel sU hU.1 hret
        rw [heq] at hret herr ⊢
        exact panos_round_ret_nil env st hst hret herr
      · exfalso
        exact iter_ne_run (exec panosPollRound env) (fun st hst => leaves_mode panosPollRound (by decide) env st hst)
          env.fuel sU hend

end NA.C09
