import NA.Proofs.F1Routes
import NA.Proofs.F1DiffUnordered
import NA.Proofs.C14Routes
/-!
# F1: the route commands of the tied `diffRoutes` model have the shape assumed by `NA.Route.routes_covered`

Route-level operations `RO` whose rendering IS the engine's route script; the hypotheses `phaseA`, `phaseB`,
`hall` of `NA.Route.routes_covered` are proved for them (through an injective numbering of the routes).
-/
namespace NA.F1
open NA.Acl (Range)

/-! ## What `diffRoutes` reads off the `diffUnordered` script -/

theorem filter_eq_range {α : Type} [Inhabited α] (Q : α → Bool) : ∀ (l : List α),
    l.filter Q = ((List.range l.length).filter fun i => Q (l.getD i default)).map (l.getD · default) := by
  intro l
  induction l with
  | nil => rfl
  | cons x xs ih =>
    have hs : ∀ i, (x :: xs).getD (i + 1) default = xs.getD i default := fun i => by simp [List.getD]
    have e1 : ((fun i => Q ((x :: xs).getD i default)) ∘ Nat.succ) = fun i => Q (xs.getD i default) := by
      funext i; simp [Function.comp]
    have e2 : ((fun i => (x :: xs).getD i default) ∘ Nat.succ) = fun i => xs.getD i default := by
      funext i; simp [Function.comp]
    have h0 : Q ((x :: xs).getD 0 default) = Q x := rfl
    rw [List.length_cons, List.range_succ_eq_map, List.filter_cons, List.filter_cons, List.filter_map, e1, h0]
    by_cases hq : Q x = true
    · rw [if_pos hq, if_pos hq, List.map_cons, List.map_map, e2, ← ih]; rfl
    · rw [if_neg hq, if_neg hq, List.map_map, e2, ← ih]

theorem flatMap_congr_mem {α β : Type} (f g : α → List β) : ∀ (l : List α), (∀ x ∈ l, f x = g x) →
    l.flatMap f = l.flatMap g := by
  intro l
  induction l with
  | nil => intro _; rfl
  | cons x xs ih =>
    intro h
    rw [List.flatMap_cons, List.flatMap_cons, h x List.mem_cons_self, ih (fun y hy => h y (List.mem_cons_of_mem _ hy))]

theorem slice_eq_map_getD {α : Type} [Inhabited α] (l : List α) (lo hi : Nat) (h1 : lo ≤ hi) (h2 : hi ≤ l.length) :
    slice l lo hi = (List.range (hi - lo)).map fun t => l.getD (lo + t) default := by
  unfold slice
  apply List.ext_getElem
  · simp; omega
  · intro i hi1 hi2
    simp only [List.getElem_take, List.getElem_drop, List.getElem_map, List.getElem_range]
    have : lo + i < l.length := by simp at hi1; omega
    rw [List.getD_eq_getElem?_getD, List.getElem?_eq_getElem this]; rfl

theorem routeDels_idx (al : List Route) (diff : List Range) :
    routeDels al diff = (delIdxOf diff).map fun i => (i, al.getD i default) := by
  unfold routeDels delIdxOf
  rw [List.map_flatMap]
  congr 1
  funext r
  split <;> simp [List.map_map, Function.comp_def]

theorem routeInss_idx (bl : List Route) (diff : List Range)
    (h : ∀ p ∈ diff, p.isInsert = true → p.lowB ≤ p.highB ∧ p.highB ≤ bl.length) :
    routeInss bl diff = (insIdxOf diff).map fun t => bl.getD t default := by
  unfold routeInss insIdxOf
  rw [List.map_flatMap]
  apply flatMap_congr_mem
  intro r hr
  by_cases hi : r.isInsert = true
  · rw [if_pos hi, if_pos hi]
    obtain ⟨h1, h2⟩ := h r hr hi
    rw [slice_eq_map_getD bl r.lowB r.highB h1 h2, List.map_map]
    rfl
  · rw [if_neg hi, if_neg hi]; rfl

theorem getD_map_text (al : List Route) (i : Nat) (hi : i < al.length) :
    (al.map (·.text)).getD i "" = (al.getD i default).text := by
  rw [List.getD_eq_getElem?_getD, List.getD_eq_getElem?_getD, List.getElem?_eq_getElem (by simpa using hi),
    List.getElem?_eq_getElem hi]
  simp

/-- The deleted device routes are those whose text the target does not have (with pairwise different indices);
the inserted target routes those whose text the device does not have. -/
theorem routeDelsInss_spec (al bl : List Route) (hnd : (al.map (·.text)).Nodup) :
    (routeDelsOf al bl).map (·.2) = al.filter (fun a => !(bl.map (·.text)).contains a.text) ∧
    ((routeDelsOf al bl).map (·.1)).Nodup ∧
    routeInssOf al bl = bl.filter (fun r => !(al.map (·.text)).contains r.text) := by
  unfold routeDelsOf routeInssOf
  by_cases ha : al.isEmpty = true
  · have : al = [] := by simpa using ha
    subst this
    refine ⟨rfl, List.nodup_nil, ?_⟩
    simp only [List.isEmpty_nil, if_true, List.map_nil, List.contains_nil, Bool.not_false]
    exact (List.filter_eq_self.mpr (fun _ _ => rfl)).symm
  · rw [if_neg ha, if_neg ha]
    obtain ⟨s1, s2, _, s4⟩ := diffUnordered_spec (al.map (·.text)) (bl.map (·.text)) hnd
    have hd := routeDels_idx al (diffUnordered (al.map (·.text)) (bl.map (·.text)))
    unfold routeDels at hd
    have hi := routeInss_idx bl (diffUnordered (al.map (·.text)) (bl.map (·.text))) (by
      intro p hp hpi
      obtain ⟨_, v2, v3, _⟩ := s4 p hp
      exact ⟨v2, by simpa using v3 hpi⟩)
    unfold routeInss at hi
    rw [hd, hi, s1, s2]
    refine ⟨?_, ?_, ?_⟩
    · rw [List.map_map, filter_eq_range (fun a => !(bl.map (·.text)).contains a.text) al]
      simp only [List.length_map]
      have : ((fun (x : Nat × Route) => x.2) ∘ fun i => (i, al.getD i default)) = fun i => al.getD i default := by
        funext i; rfl
      rw [this]
      congr 1
      apply List.filter_congr
      intro i hi'
      rw [getD_map_text al i (List.mem_range.mp hi')]
    · rw [List.map_map]
      have : ((fun (x : Nat × Route) => x.1) ∘ fun i => (i, al.getD i default)) = id := by funext i; rfl
      rw [this, List.map_id]
      exact List.Nodup.sublist List.filter_sublist List.nodup_range
    · rw [filter_eq_range (fun r => !(al.map (·.text)).contains r.text) bl]
      simp only [List.length_map]
      congr 1
      apply List.filter_congr
      intro i hi'
      rw [getD_map_text bl i (List.mem_range.mp hi')]

/-! ## Route-level operations -/

inductive RO
  | add (r : Route)
  | repl (o n : Route)     -- `no route o` and `route n` joined in one line
  | del (r : Route)
  deriving DecidableEq, Repr

def RO.toChg : RO → Chg
  | .add r => .route r.text
  | .repl o n => .join (.noRoute o.text) (.route n.text)
  | .del r => .noRoute r.text

/-- Second loop of `diffRoutes` at route level (same recursion as `routeAdds`). -/
def routeAddOps (dels : List (Nat × Route)) : List Route → List Nat → List String → List RO × List Nat
  | [], used, _ => ([], used)
  | r :: rs, used, gone =>
    match (dels.filter fun d => d.2.dst == r.dst && !gone.contains r.dst).getLast? with
    | some d =>
      let (cs, u) := routeAddOps dels rs (d.1 :: used) (r.dst :: gone)
      (RO.repl d.2 r :: cs, u)
    | none =>
      let (cs, u) := routeAddOps dels rs used gone
      (RO.add r :: cs, u)

theorem routeAdds_eq_ops (dels : List (Nat × Route)) : ∀ (rs : List Route) (used : List Nat) (gone : List String),
    routeAdds dels rs used gone = ((routeAddOps dels rs used gone).1.map RO.toChg, (routeAddOps dels rs used gone).2) := by
  intro rs
  induction rs with
  | nil => intro used gone; rfl
  | cons r rs ih =>
    intro used gone
    cases hm : (dels.filter fun d => d.2.dst == r.dst && !gone.contains r.dst).getLast? with
    | some d =>
      rw [routeAdds_some dels r rs used gone d hm, ih]
      simp only [routeAddOps, hm]
      rfl
    | none =>
      rw [routeAdds_none dels r rs used gone hm, ih]
      simp only [routeAddOps, hm]
      rfl

/-- The route commands of `diffRoutes`, at route level, in the emitted order. -/
def routeOps (bl : List Route) (dels : List (Nat × Route)) (inss : List Route) : List RO :=
  (routeAddOps dels inss [] []).1 ++
    (if bl.isEmpty then [] else (dels.filter fun d => !(routeAddOps dels inss [] []).2.contains d.1).map fun d => RO.del d.2)

theorem routePlan_eq_ops (bl : List Route) (dels : List (Nat × Route)) (inss : List Route) :
    routePlan bl dels inss = (routeOps bl dels inss).map RO.toChg := by
  unfold routePlan routeOps
  rw [routeAdds_eq_ops, List.map_append]
  simp only []
  congr 1
  split
  · rfl
  · simp [List.map_map, Function.comp_def, RO.toChg]

def routeOpsOf (al bl : List Route) : List RO := routeOps bl (routeDelsOf al bl) (routeInssOf al bl)

theorem diffRoutes_frame_ops (st : St) (al bl : List Route) :
    RouteFrame st (diffRoutes st al bl) ((routeOpsOf al bl).map RO.toChg) := by
  have hframe := diffRoutes_frame st al bl
  have hplan : (if al.isEmpty then bl.map (fun r => Chg.route r.text)
       else routePlan bl (routeDels al (diffUnordered (al.map (·.text)) (bl.map (·.text))))
              (routeInss bl (diffUnordered (al.map (·.text)) (bl.map (·.text))))) =
      routePlan bl (routeDelsOf al bl) (routeInssOf al bl) := by
    unfold routeDelsOf routeInssOf
    split
    · rw [routePlan_nodels]
    · rfl
  rw [hplan, routePlan_eq_ops] at hframe
  exact hframe

/-- **Tie to the engine model**: what `diffRoutes` appends to the script is the rendering of `routeOpsOf`. -/
theorem diffRoutes_out (st : St) (al bl : List Route) :
    (diffRoutes st al bl).out = st.out ++ (routeOpsOf al bl).map RO.toChg := (diffRoutes_frame_ops st al bl).out

/-- Shape of the second loop: every operation adds an inserted route, possibly replacing a deleted device route
with the same destination; every inserted route is added. -/
theorem routeAddOps_shape (dels : List (Nat × Route)) : ∀ (rs : List Route) (used : List Nat) (gone : List String),
    (∀ op ∈ (routeAddOps dels rs used gone).1, (∃ n ∈ rs, op = RO.add n) ∨
      (∃ o n, op = RO.repl o n ∧ o ∈ dels.map (·.2) ∧ n ∈ rs ∧ o.dst = n.dst)) ∧
    (∀ n ∈ rs, ∃ op ∈ (routeAddOps dels rs used gone).1, op = RO.add n ∨ ∃ o, op = RO.repl o n) := by
  intro rs
  induction rs with
  | nil => intro used gone; exact ⟨fun op hop => by simp [routeAddOps] at hop, fun n hn => by simp at hn⟩
  | cons r rs ih =>
    intro used gone
    cases hm : (dels.filter fun d => d.2.dst == r.dst && !gone.contains r.dst).getLast? with
    | some d =>
      obtain ⟨i1, i2⟩ := ih (d.1 :: used) (r.dst :: gone)
      have hd := List.mem_filter.mp (List.mem_of_getLast? hm)
      have hdst : d.2.dst = r.dst := by
        have := hd.2
        simp only [Bool.and_eq_true, beq_iff_eq] at this
        exact this.1
      simp only [routeAddOps, hm]
      refine ⟨?_, ?_⟩
      · intro op hop
        rcases List.mem_cons.mp hop with e1 | e1
        · right; exact ⟨d.2, r, e1, List.mem_map.mpr ⟨d, hd.1, rfl⟩, List.mem_cons_self, hdst⟩
        · rcases i1 op e1 with ⟨n, hn, h1⟩ | ⟨o, n, h1, h2, h3, h4⟩
          · left; exact ⟨n, List.mem_cons_of_mem _ hn, h1⟩
          · right; exact ⟨o, n, h1, h2, List.mem_cons_of_mem _ h3, h4⟩
      · intro n hn
        rcases List.mem_cons.mp hn with e1 | e1
        · exact ⟨_, List.mem_cons_self, Or.inr ⟨d.2, by rw [e1]⟩⟩
        · obtain ⟨op, hop, h1⟩ := i2 n e1
          exact ⟨op, List.mem_cons_of_mem _ hop, h1⟩
    | none =>
      obtain ⟨i1, i2⟩ := ih used gone
      simp only [routeAddOps, hm]
      refine ⟨?_, ?_⟩
      · intro op hop
        rcases List.mem_cons.mp hop with e1 | e1
        · left; exact ⟨r, List.mem_cons_self, e1⟩
        · rcases i1 op e1 with ⟨n, hn, h1⟩ | ⟨o, n, h1, h2, h3, h4⟩
          · left; exact ⟨n, List.mem_cons_of_mem _ hn, h1⟩
          · right; exact ⟨o, n, h1, h2, List.mem_cons_of_mem _ h3, h4⟩
      · intro n hn
        rcases List.mem_cons.mp hn with e1 | e1
        · exact ⟨_, List.mem_cons_self, Or.inl (by rw [e1])⟩
        · obtain ⟨op, hop, h1⟩ := i2 n e1
          exact ⟨op, List.mem_cons_of_mem _ hop, h1⟩

/-! ## Execution at route level and its numbering into `NA.Route` -/

def roExec (s : List Route) : RO → List Route
  | .add r => s ++ [r]
  | .repl o n => (s.filter (· != o)) ++ [n]
  | .del r => s.filter (· != r)

/-- The route table after each command. -/
def roTrace : List Route → List RO → List (List Route)
  | _, [] => []
  | s, op :: ops => roExec s op :: roTrace (roExec s op) ops

/-- Numbering of the routes of `U`: destination ↦ its first position among the destinations, route ↦ its first
position. -/
def encR (U : List Route) (r : Route) : NA.Route.Route := ⟨0, (U.map (·.dst)).idxOf r.dst, U.idxOf r⟩

def encOp (U : List Route) : RO → NA.Route.ROp
  | .add r => .add (encR U r)
  | .repl o n => .repl (encR U o) (encR U n)
  | .del r => .del (encR U r)

theorem idxOf_inj {α : Type} [DecidableEq α] {l : List α} {x y : α} (hx : x ∈ l) (h : l.idxOf x = l.idxOf y) : x = y := by
  have h1 : l.idxOf x < l.length := List.idxOf_lt_length_of_mem hx
  have h2 : l[l.idxOf x] = x := List.getElem_idxOf h1
  have h3 : l.idxOf y < l.length := h ▸ h1
  have h4 : l[l.idxOf y] = y := List.getElem_idxOf h3
  rw [← h2, ← h4]
  congr 1

theorem encR_inj {U : List Route} {x y : Route} (hx : x ∈ U) (h : encR U x = encR U y) : x = y := by
  unfold encR at h
  have := (NA.Route.Route.mk.injEq ..).mp h
  exact idxOf_inj hx this.2.2

theorem map_filter_ne (U : List Route) (o : Route) : ∀ (s : List Route), (∀ r ∈ s, r ∈ U) →
    (s.filter (· != o)).map (encR U) = (s.map (encR U)).filter (· != encR U o) := by
  intro s
  induction s with
  | nil => intro _; rfl
  | cons x xs ih =>
    intro hs
    have hx : x ∈ U := hs x List.mem_cons_self
    rw [List.map_cons, List.filter_cons, List.filter_cons]
    by_cases e1 : x = o
    · subst e1
      simp only [bne_self_eq_false, Bool.false_eq_true, if_false]
      exact ih (fun r hr => hs r (List.mem_cons_of_mem _ hr))
    · have h1 : (x != o) = true := by simpa using e1
      have h2 : (encR U x != encR U o) = true := by
        simp only [bne_iff_ne, ne_eq]
        exact fun h => e1 (encR_inj hx h)
      rw [h1, h2]
      simp only [if_true, List.map_cons]
      rw [ih (fun r hr => hs r (List.mem_cons_of_mem _ hr))]

def RO.routes : RO → List Route
  | .add r => [r]
  | .repl o n => [o, n]
  | .del r => [r]

theorem roExec_enc (U : List Route) (s : List Route) (hs : ∀ r ∈ s, r ∈ U) (op : RO) :
    (roExec s op).map (encR U) = NA.Route.rexec1 (s.map (encR U)) (encOp U op) := by
  cases op with
  | add r => simp [roExec, encOp, NA.Route.rexec1]
  | repl o n => simp only [roExec, encOp, NA.Route.rexec1, List.map_append, map_filter_ne U o s hs]; rfl
  | del r => simp only [roExec, encOp, NA.Route.rexec1, map_filter_ne U r s hs]

theorem roExec_sub (U : List Route) (s : List Route) (hs : ∀ r ∈ s, r ∈ U) (op : RO) (hop : ∀ r ∈ op.routes, r ∈ U) :
    ∀ r ∈ roExec s op, r ∈ U := by
  intro r hr
  cases op with
  | add x =>
    rcases List.mem_append.mp hr with h | h
    · exact hs r h
    · have : r = x := by simpa using h
      exact this ▸ hop x (by simp [RO.routes])
  | repl o n =>
    rcases List.mem_append.mp hr with h | h
    · exact hs r (List.mem_filter.mp h).1
    · have : r = n := by simpa using h
      exact this ▸ hop n (by simp [RO.routes])
  | del x => exact hs r (List.mem_filter.mp hr).1

theorem roTrace_enc (U : List Route) : ∀ (ops : List RO) (s : List Route), (∀ r ∈ s, r ∈ U) →
    (∀ op ∈ ops, ∀ r ∈ op.routes, r ∈ U) →
    (roTrace s ops).map (List.map (encR U)) = NA.Route.rtrace (s.map (encR U)) (ops.map (encOp U)) := by
  intro ops
  induction ops with
  | nil => intro s _ _; rfl
  | cons op ops ih =>
    intro s hs hops
    simp only [roTrace, List.map_cons, NA.Route.rtrace]
    rw [roExec_enc U s hs op]
    congr 1
    rw [← roExec_enc U s hs op]
    exact ih _ (roExec_sub U s hs op (hops op List.mem_cons_self)) (fun o ho => hops o (List.mem_cons_of_mem _ ho))

theorem foldl_enc (U : List Route) : ∀ (ops : List RO) (s : List Route), (∀ r ∈ s, r ∈ U) →
    (∀ op ∈ ops, ∀ r ∈ op.routes, r ∈ U) →
    (ops.foldl roExec s).map (encR U) = (ops.map (encOp U)).foldl NA.Route.rexec1 (s.map (encR U)) ∧
    ∀ r ∈ ops.foldl roExec s, r ∈ U := by
  intro ops
  induction ops with
  | nil => intro s hs _; exact ⟨rfl, hs⟩
  | cons op ops ih =>
    intro s hs hops
    simp only [List.foldl_cons, List.map_cons]
    rw [← roExec_enc U s hs op]
    exact ih _ (roExec_sub U s hs op (hops op List.mem_cons_self)) (fun o ho => hops o (List.mem_cons_of_mem _ ho))

theorem covered_enc (U : List Route) (s : List Route) (hs : ∀ r ∈ s, r ∈ U) (d : String) :
    NA.Route.covered (s.map (encR U)) 0 ((U.map (·.dst)).idxOf d) = true ↔ ∃ r ∈ s, r.dst = d := by
  simp only [NA.Route.covered, List.any_eq_true, List.mem_map, Bool.and_eq_true, beq_iff_eq]
  constructor
  · rintro ⟨x, ⟨r, hr, rfl⟩, _, h2⟩
    refine ⟨r, hr, ?_⟩
    exact idxOf_inj (List.mem_map.mpr ⟨r, hs r hr, rfl⟩) h2
  · rintro ⟨r, hr, rfl⟩
    exact ⟨encR U r, ⟨r, hr, rfl⟩, rfl, rfl⟩

/-! ## The hypotheses of `NA.Route.routes_covered` for the emitted script -/

/-- Input well-formedness: a route is determined by its text (destination and sort key are parsed from it). -/
def RouteWF (U : List Route) : Prop := ∀ r ∈ U, ∀ r' ∈ U, r.text = r'.text → r = r'

/-- Keeping: an operation of the second loop removes only deleted device routes. -/
theorem foldl_keep (Dset : List Route) : ∀ (ops : List RO) (s : List Route),
    (∀ op ∈ ops, (∃ n, op = RO.add n) ∨ (∃ o n, op = RO.repl o n ∧ o ∈ Dset)) →
    ∀ r, r ∉ Dset → r ∈ s → r ∈ ops.foldl roExec s := by
  intro ops
  induction ops with
  | nil => intro s _ r _ hr; exact hr
  | cons op ops ih =>
    intro s hops r hrD hr
    rw [List.foldl_cons]
    apply ih _ (fun o ho => hops o (List.mem_cons_of_mem _ ho)) r hrD
    rcases hops op List.mem_cons_self with ⟨n, rfl⟩ | ⟨o, n, rfl, ho⟩
    · exact List.mem_append_left _ hr
    · apply List.mem_append_left
      apply List.mem_filter.mpr
      refine ⟨hr, ?_⟩
      simp only [bne_iff_ne, ne_eq]
      exact fun h => hrD (h ▸ ho)

theorem foldl_added (Dset : List Route) : ∀ (ops : List RO) (s : List Route),
    (∀ op ∈ ops, (∃ n, op = RO.add n) ∨ (∃ o n, op = RO.repl o n ∧ o ∈ Dset)) →
    ∀ n, n ∉ Dset → (∃ op ∈ ops, op = RO.add n ∨ ∃ o, op = RO.repl o n) → n ∈ ops.foldl roExec s := by
  intro ops
  induction ops with
  | nil => intro s _ n _ h; obtain ⟨op, hop, _⟩ := h; simp at hop
  | cons op ops ih =>
    intro s hops n hnD h
    rw [List.foldl_cons]
    obtain ⟨op', hop', h1⟩ := h
    rcases List.mem_cons.mp hop' with e1 | e1
    · subst e1
      apply foldl_keep Dset ops _ (fun o ho => hops o (List.mem_cons_of_mem _ ho)) n hnD
      rcases h1 with rfl | ⟨o, rfl⟩
      · simp [roExec]
      · simp [roExec]
    · exact ih _ (fun o ho => hops o (List.mem_cons_of_mem _ ho)) n hnD ⟨op', e1, h1⟩

/-- The three hypotheses of `NA.Route.routes_covered` hold for the route commands of the tied `diffRoutes`
model (numbered by `encR`), and the numbering is faithful. -/
theorem routeOps_phases (al bl : List Route) (hnd : (al.map (·.text)).Nodup) (hwf : RouteWF (al ++ bl)) :
    ∃ opsA opsB, routeOpsOf al bl = opsA ++ opsB ∧
      NA.Route.phaseA (opsA.map (encOp (al ++ bl))) = true ∧
      NA.Route.phaseB (bl.map (encR (al ++ bl))) (opsB.map (encOp (al ++ bl))) = true ∧
      (∀ r ∈ bl.map (encR (al ++ bl)), r ∈ (opsA.map (encOp (al ++ bl))).foldl NA.Route.rexec1 (al.map (encR (al ++ bl)))) ∧
      (∀ op ∈ opsA ++ opsB, ∀ r ∈ op.routes, r ∈ al ++ bl) := by
  obtain ⟨sd, _, si⟩ := routeDelsInss_spec al bl hnd
  obtain ⟨sh1, sh2⟩ := routeAddOps_shape (routeDelsOf al bl) (routeInssOf al bl) [] []
  -- membership facts
  have hdel : ∀ o ∈ (routeDelsOf al bl).map (·.2), o ∈ al ∧ o ∉ bl := by
    intro o ho
    rw [sd] at ho
    obtain ⟨h1, h2⟩ := List.mem_filter.mp ho
    refine ⟨h1, fun hb => ?_⟩
    have : o.text ∈ bl.map (·.text) := List.mem_map.mpr ⟨o, hb, rfl⟩
    simp [this] at h2
  have hins : ∀ n ∈ routeInssOf al bl, n ∈ bl := by
    intro n hn; rw [si] at hn; exact (List.mem_filter.mp hn).1
  refine ⟨(routeAddOps (routeDelsOf al bl) (routeInssOf al bl) [] []).1,
    (if bl.isEmpty then [] else ((routeDelsOf al bl).filter fun d =>
      !(routeAddOps (routeDelsOf al bl) (routeInssOf al bl) [] []).2.contains d.1).map fun d => RO.del d.2), rfl, ?_, ?_, ?_, ?_⟩
  · -- phase A
    unfold NA.Route.phaseA
    apply List.all_eq_true.mpr
    intro x hx
    obtain ⟨op, hop, rfl⟩ := List.mem_map.mp hx
    rcases sh1 op hop with ⟨n, _, rfl⟩ | ⟨o, n, rfl, _, _, h4⟩
    · rfl
    · simp [encOp, encR, h4]
  · -- phase B
    unfold NA.Route.phaseB
    apply List.all_eq_true.mpr
    intro x hx
    obtain ⟨op, hop, rfl⟩ := List.mem_map.mp hx
    split at hop
    · simp at hop
    · obtain ⟨d, hd, rfl⟩ := List.mem_map.mp hop
      have hd' := hdel d.2 (List.mem_map.mpr ⟨d, (List.mem_filter.mp hd).1, rfl⟩)
      simp only [encOp, Bool.not_eq_true', List.contains_eq_mem, decide_eq_false_iff_not, List.mem_map]
      rintro ⟨r, hr, he⟩
      have : r = d.2 := encR_inj (List.mem_append_right _ hr) he
      exact hd'.2 (this ▸ hr)
  · -- after phase A the whole target is there
    intro x hx
    obtain ⟨r, hr, rfl⟩ := List.mem_map.mp hx
    have hops : ∀ op ∈ (routeAddOps (routeDelsOf al bl) (routeInssOf al bl) [] []).1,
        (∃ n, op = RO.add n) ∨ (∃ o n, op = RO.repl o n ∧ o ∈ (routeDelsOf al bl).map (·.2)) := by
      intro op hop
      rcases sh1 op hop with ⟨n, _, h1⟩ | ⟨o, n, h1, h2, _, _⟩
      · exact Or.inl ⟨n, h1⟩
      · exact Or.inr ⟨o, n, h1, h2⟩
    have hrD : r ∉ (routeDelsOf al bl).map (·.2) := fun h => (hdel r h).2 hr
    have hnative : r ∈ (routeAddOps (routeDelsOf al bl) (routeInssOf al bl) [] []).1.foldl roExec al := by
      by_cases ht : r.text ∈ al.map (·.text)
      · obtain ⟨a, ha, hat⟩ := List.mem_map.mp ht
        have : a = r := hwf a (List.mem_append_left _ ha) r (List.mem_append_right _ hr) hat
        exact foldl_keep _ _ al hops r hrD (this ▸ ha)
      · have hri : r ∈ routeInssOf al bl := by
          rw [si]; exact List.mem_filter.mpr ⟨hr, by simpa using ht⟩
        exact foldl_added _ _ al hops r hrD (sh2 r hri)
    have hU : ∀ op ∈ (routeAddOps (routeDelsOf al bl) (routeInssOf al bl) [] []).1, ∀ r ∈ op.routes, r ∈ al ++ bl := by
      intro op hop x hx
      rcases sh1 op hop with ⟨n, hn, rfl⟩ | ⟨o, n, rfl, h2, h3, _⟩
      · have : x = n := by simpa [RO.routes] using hx
        exact this ▸ List.mem_append_right _ (hins n hn)
      · simp only [RO.routes, List.mem_cons, List.not_mem_nil, or_false] at hx
        rcases hx with rfl | rfl
        · exact List.mem_append_left _ (hdel _ h2).1
        · exact List.mem_append_right _ (hins _ h3)
    obtain ⟨f1, _⟩ := foldl_enc (al ++ bl) _ al (fun r hr => List.mem_append_left _ hr) hU
    rw [← f1]
    exact List.mem_map.mpr ⟨r, hnative, rfl⟩
  · intro op hop x hx
    rcases List.mem_append.mp hop with h | h
    · rcases sh1 op h with ⟨n, hn, rfl⟩ | ⟨o, n, rfl, h2, h3, _⟩
      · have : x = n := by simpa [RO.routes] using hx
        exact this ▸ List.mem_append_right _ (hins n hn)
      · simp only [RO.routes, List.mem_cons, List.not_mem_nil, or_false] at hx
        rcases hx with rfl | rfl
        · exact List.mem_append_left _ (hdel _ h2).1
        · exact List.mem_append_right _ (hins _ h3)
    · split at h
      · simp at h
      · obtain ⟨d, hd, rfl⟩ := List.mem_map.mp h
        have : x = d.2 := by simpa [RO.routes] using hx
        exact this ▸ List.mem_append_left _ (hdel d.2 (List.mem_map.mpr ⟨d, (List.mem_filter.mp hd).1, rfl⟩)).1

/-- `NA.Route.routes_covered` (NA/Props/C14.lean), restated here from the same lemmas of NA/Proofs/C14Routes.lean
so that this file does not import a Props module. -/
theorem routes_covered_c14 (old new : List NA.Route.Route) (opsA opsB : List NA.Route.ROp) (v d : Nat)
    (hA : NA.Route.phaseA opsA = true) (hB : NA.Route.phaseB new opsB = true)
    (hall : ∀ r ∈ new, r ∈ opsA.foldl NA.Route.rexec1 old)
    (hold : NA.Route.covered old v d = true) (hnew : NA.Route.covered new v d = true) :
    ∀ t ∈ NA.Route.rtrace old opsA ++ NA.Route.rtrace (opsA.foldl NA.Route.rexec1 old) opsB,
      NA.Route.covered t v d = true := by
  intro t ht
  rcases List.mem_append.mp ht with ht | ht
  · exact NA.Route.phaseA_trace old opsA v d hA hold t ht
  · exact NA.Route.covered_of_subset new t v d (NA.Route.phaseB_trace new _ opsB hB hall t ht) hnew

theorem roTrace_append : ∀ (ops1 ops2 : List RO) (s : List Route),
    roTrace s (ops1 ++ ops2) = roTrace s ops1 ++ roTrace (ops1.foldl roExec s) ops2 := by
  intro ops1
  induction ops1 with
  | nil => intro ops2 s; rfl
  | cons op ops ih => intro ops2 s; simp [roTrace, ih]

/-- **Every destination that has a route before and after has one after each emitted command.** -/
theorem routes_covered_every_step (al bl : List Route) (hnd : (al.map (·.text)).Nodup) (hwf : RouteWF (al ++ bl))
    (d : String) (hold : ∃ r ∈ al, r.dst = d) (hnew : ∃ r ∈ bl, r.dst = d) :
    ∀ t ∈ roTrace al (routeOpsOf al bl), ∃ r ∈ t, r.dst = d := by
  obtain ⟨opsA, opsB, hsplit, hA, hB, hall, hU⟩ := routeOps_phases al bl hnd hwf
  have hUA : ∀ op ∈ opsA, ∀ r ∈ op.routes, r ∈ al ++ bl := fun op hop => hU op (List.mem_append_left _ hop)
  have hUB : ∀ op ∈ opsB, ∀ r ∈ op.routes, r ∈ al ++ bl := fun op hop => hU op (List.mem_append_right _ hop)
  have hal : ∀ r ∈ al, r ∈ al ++ bl := fun r hr => List.mem_append_left _ hr
  have hbl : ∀ r ∈ bl, r ∈ al ++ bl := fun r hr => List.mem_append_right _ hr
  have key := routes_covered_c14 (al.map (encR (al ++ bl))) (bl.map (encR (al ++ bl)))
    (opsA.map (encOp (al ++ bl))) (opsB.map (encOp (al ++ bl))) 0 (((al ++ bl).map (·.dst)).idxOf d) hA hB hall
    ((covered_enc (al ++ bl) al hal d).mpr hold) ((covered_enc (al ++ bl) bl hbl d).mpr hnew)
  obtain ⟨fA, fAU⟩ := foldl_enc (al ++ bl) opsA al hal hUA
  rw [hsplit, roTrace_append]
  intro t ht
  have hsub : ∀ r ∈ t, r ∈ al ++ bl := by
    -- every state of the trace stays inside `al ++ bl`
    have gen : ∀ (ops : List RO) (s : List Route), (∀ r ∈ s, r ∈ al ++ bl) → (∀ op ∈ ops, ∀ r ∈ op.routes, r ∈ al ++ bl) →
        ∀ t ∈ roTrace s ops, ∀ r ∈ t, r ∈ al ++ bl := by
      intro ops
      induction ops with
      | nil => intro s _ _ t ht; simp [roTrace] at ht
      | cons op ops ih =>
        intro s hs hops t ht
        have h1 := roExec_sub (al ++ bl) s hs op (hops op List.mem_cons_self)
        rcases List.mem_cons.mp ht with e1 | e1
        · rw [e1]; exact h1
        · exact ih _ h1 (fun o ho => hops o (List.mem_cons_of_mem _ ho)) t e1
    rcases List.mem_append.mp ht with h | h
    · exact gen opsA al hal hUA t h
    · exact gen opsB _ fAU hUB t h
  apply (covered_enc (al ++ bl) t hsub d).mp
  apply key
  rcases List.mem_append.mp ht with h | h
  · apply List.mem_append_left
    rw [← roTrace_enc (al ++ bl) opsA al hal hUA]
    exact List.mem_map.mpr ⟨t, h, rfl⟩
  · apply List.mem_append_right
    rw [← fA, ← roTrace_enc (al ++ bl) opsB _ fAU hUB]
    exact List.mem_map.mpr ⟨t, h, rfl⟩

end NA.F1
