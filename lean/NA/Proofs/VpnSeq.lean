import NA.Model.CryptoMap
/-!
Fresh sequence numbers of `matchCryptoMap`: `nextUp` / `nextDown` find the nearest free number, the
numbers handed out by `freshSeqs` are free, strictly monotone per kind, and the static and the
dynamic ones cannot meet as long as `2·|used| + |added| < 65534`.
-/
namespace NA.Vpn

/-! ## a list that contains `n` consecutive integers has at least `n` elements -/

theorem covers_length : ∀ (n : Nat) (a : Int) (l : List Int),
    (∀ t, a ≤ t → t < a + n → t ∈ l) → n ≤ l.length
  | 0, _, _, _ => Nat.zero_le _
  | n + 1, a, l, h => by
    have hm : a + n ∈ l := h (a + n) (by omega) (by omega)
    have ih := covers_length n a (l.erase (a + n)) (by
      intro t h1 h2
      exact (List.mem_erase_of_ne (by omega)).2 (h t h1 (by omega)))
    rw [List.length_erase_of_mem hm] at ih
    have : 0 < l.length := List.length_pos_of_mem hm
    omega

/-! ## nextUp -/

def cntGE (used : List Int) (s : Int) : Nat := (used.filter fun x => decide (s ≤ x)).length

theorem cntGE_le (used : List Int) (s : Int) : cntGE used s ≤ used.length := List.length_filter_le _ _

theorem cntGE_succ_le : ∀ (used : List Int) (s : Int), cntGE used (s + 1) ≤ cntGE used s
  | [], _ => Nat.le_refl _
  | x :: xs, s => by
    have ih := cntGE_succ_le xs s
    unfold cntGE at *
    simp only [List.filter_cons]
    by_cases h1 : s + 1 ≤ x
    · have h2 : s ≤ x := by omega
      simp [h1, h2]; omega
    · by_cases h2 : s ≤ x
      · simp [h1, h2]; omega
      · simp [h1, h2]; omega

theorem cntGE_succ_lt : ∀ (used : List Int) (s : Int), s ∈ used → cntGE used (s + 1) < cntGE used s
  | [], _, h => by cases h
  | x :: xs, s, h => by
    have hle := cntGE_succ_le xs s
    unfold cntGE at *
    simp only [List.filter_cons]
    by_cases hx : x = s
    · subst hx
      have h1 : ¬ (x + 1 ≤ x) := by omega
      simp [h1]; omega
    · have hm : s ∈ xs := by
        cases h with
        | head => exact absurd rfl hx
        | tail _ h => exact h
      have ih := cntGE_succ_lt xs s hm
      unfold cntGE at ih
      by_cases h1 : s + 1 ≤ x
      · have h2 : s ≤ x := by omega
        simp [h1, h2]; omega
      · by_cases h2 : s ≤ x
        · simp [h1, h2]; omega
        · simp [h1, h2]; omega

/-- `nextUp` returns the least free number `≥ s` (enough fuel). -/
theorem nextUp_spec (used : List Int) : ∀ (fuel : Nat) (s : Int), cntGE used s < fuel →
    nextUp used fuel s ∉ used ∧ s ≤ nextUp used fuel s ∧
      ∀ t, s ≤ t → t < nextUp used fuel s → t ∈ used
  | 0, _, h => by omega
  | fuel + 1, s, h => by
    unfold nextUp
    by_cases hs : s ∈ used
    · rw [if_pos hs]
      have hlt := cntGE_succ_lt used s hs
      have ih := nextUp_spec used fuel (s + 1) (by omega)
      refine ⟨ih.1, by omega, ?_⟩
      intro t h1 h2
      by_cases ht : t = s
      · subst ht; exact hs
      · exact ih.2.2 t (by omega) h2
    · rw [if_neg hs]
      exact ⟨hs, Int.le_refl _, by intro t h1 h2; omega⟩

theorem nextUp_full (used : List Int) (s : Int) :
    nextUp used (used.length + 1) s ∉ used ∧ s ≤ nextUp used (used.length + 1) s ∧
      ∀ t, s ≤ t → t < nextUp used (used.length + 1) s → t ∈ used :=
  nextUp_spec used _ s (by have := cntGE_le used s; omega)

/-! ## nextDown -/

def cntLE (used : List Int) (s : Int) : Nat := (used.filter fun x => decide (x ≤ s)).length

theorem cntLE_le (used : List Int) (s : Int) : cntLE used s ≤ used.length := List.length_filter_le _ _

theorem cntLE_pred_le : ∀ (used : List Int) (s : Int), cntLE used (s - 1) ≤ cntLE used s
  | [], _ => Nat.le_refl _
  | x :: xs, s => by
    have ih := cntLE_pred_le xs s
    unfold cntLE at *
    simp only [List.filter_cons]
    by_cases h1 : x ≤ s - 1
    · have h2 : x ≤ s := by omega
      simp [h1, h2]; omega
    · by_cases h2 : x ≤ s
      · simp [h1, h2]; omega
      · simp [h1, h2]; omega

theorem cntLE_pred_lt : ∀ (used : List Int) (s : Int), s ∈ used → cntLE used (s - 1) < cntLE used s
  | [], _, h => by cases h
  | x :: xs, s, h => by
    have hle := cntLE_pred_le xs s
    unfold cntLE at *
    simp only [List.filter_cons]
    by_cases hx : x = s
    · subst hx
      have h1 : ¬ (x ≤ x - 1) := by omega
      simp [h1]; omega
    · have hm : s ∈ xs := by
        cases h with
        | head => exact absurd rfl hx
        | tail _ h => exact h
      have ih := cntLE_pred_lt xs s hm
      unfold cntLE at ih
      by_cases h1 : x ≤ s - 1
      · have h2 : x ≤ s := by omega
        simp [h1, h2]; omega
      · by_cases h2 : x ≤ s
        · simp [h1, h2]; omega
        · simp [h1, h2]; omega

/-- `nextDown` returns the greatest free number `≤ s` (enough fuel). -/
theorem nextDown_spec (used : List Int) : ∀ (fuel : Nat) (s : Int), cntLE used s < fuel →
    nextDown used fuel s ∉ used ∧ nextDown used fuel s ≤ s ∧
      ∀ t, t ≤ s → nextDown used fuel s < t → t ∈ used
  | 0, _, h => by omega
  | fuel + 1, s, h => by
    unfold nextDown
    by_cases hs : s ∈ used
    · rw [if_pos hs]
      have hlt := cntLE_pred_lt used s hs
      have ih := nextDown_spec used fuel (s - 1) (by omega)
      refine ⟨ih.1, by omega, ?_⟩
      intro t h1 h2
      by_cases ht : t = s
      · subst ht; exact hs
      · exact ih.2.2 t (by omega) h2
    · rw [if_neg hs]
      exact ⟨hs, Int.le_refl _, by intro t h1 h2; omega⟩

theorem nextDown_full (used : List Int) (s : Int) :
    nextDown used (used.length + 1) s ∉ used ∧ nextDown used (used.length + 1) s ≤ s ∧
      ∀ t, t ≤ s → nextDown used (used.length + 1) s < t → t ∈ used :=
  nextDown_spec used _ s (by have := cntLE_le used s; omega)

/-! ## the numbers handed out -/

/-- the static / dynamic part of the handed-out numbers -/
def part (k : Bool) : List Int → List Bool → List Int
  | x :: xs, b :: bs => if b = k then x :: part k xs bs else part k xs bs
  | _, _ => []

/-- `xs` is what a counter that starts at `st`, skips used numbers and steps by one hands out. -/
def ChainUp (used : List Int) : Int → List Int → Prop
  | _, [] => True
  | st, x :: xs => st ≤ x ∧ x ∉ used ∧ (∀ t, st ≤ t → t < x → t ∈ used) ∧ ChainUp used (x + 1) xs

def ChainDown (used : List Int) : Int → List Int → Prop
  | _, [] => True
  | dy, x :: xs => x ≤ dy ∧ x ∉ used ∧ (∀ t, t ≤ dy → x < t → t ∈ used) ∧ ChainDown used (x - 1) xs

theorem freshSeqs_length (used : List Int) : ∀ (ks : List Bool) (st dy : Int),
    (freshSeqs used ks st dy).length = ks.length
  | [], _, _ => rfl
  | true :: ks, st, dy => by simp [freshSeqs, freshSeqs_length used ks]
  | false :: ks, st, dy => by simp [freshSeqs, freshSeqs_length used ks]

theorem freshSeqs_chainUp (used : List Int) : ∀ (ks : List Bool) (st dy : Int),
    ChainUp used st (part true (freshSeqs used ks st dy) ks)
  | [], _, _ => trivial
  | true :: ks, st, dy => by
    have h := nextUp_full used st
    simp only [freshSeqs, part, if_true]
    exact ⟨h.2.1, h.1, h.2.2, freshSeqs_chainUp used ks _ _⟩
  | false :: ks, st, dy => by
    simp only [freshSeqs, part]
    exact freshSeqs_chainUp used ks _ _

theorem freshSeqs_chainDown (used : List Int) : ∀ (ks : List Bool) (st dy : Int),
    ChainDown used dy (part false (freshSeqs used ks st dy) ks)
  | [], _, _ => trivial
  | false :: ks, st, dy => by
    have h := nextDown_full used dy
    simp only [freshSeqs, part, if_true]
    exact ⟨h.2.1, h.1, h.2.2, freshSeqs_chainDown used ks _ _⟩
  | true :: ks, st, dy => by
    simp only [freshSeqs, part]
    exact freshSeqs_chainDown used ks _ _

theorem mem_part {k : Bool} : ∀ (xs : List Int) (bs : List Bool) (x : Int), x ∈ part k xs bs → x ∈ xs
  | [], _, _, h => by simp [part] at h
  | _ :: _, [], _, h => by simp [part] at h
  | y :: ys, b :: bs, x, h => by
    simp only [part] at h
    by_cases hb : b = k
    · simp only [hb, if_true] at h
      cases h with
      | head => exact List.mem_cons_self
      | tail _ h => exact List.mem_cons_of_mem _ (mem_part ys bs x h)
    · simp only [hb, if_false] at h
      exact List.mem_cons_of_mem _ (mem_part ys bs x h)

/-- every handed-out number belongs to its part -/
theorem mem_parts : ∀ (xs : List Int) (bs : List Bool), xs.length = bs.length → ∀ x ∈ xs,
    x ∈ part true xs bs ∨ x ∈ part false xs bs
  | [], _, _, _, h => by cases h
  | y :: ys, [], hl, _, _ => by simp at hl
  | y :: ys, b :: bs, hl, x, h => by
    have hl' : ys.length = bs.length := by simpa using hl
    cases b <;> simp only [part] <;> cases h with
    | head => simp
    | tail _ h =>
      rcases mem_parts ys bs hl' x h with h | h
      · left; simp [h]
      · right; simp [h]

theorem part_length_le {k : Bool} : ∀ (xs : List Int) (bs : List Bool), (part k xs bs).length ≤ bs.length
  | [], _ => by simp [part]
  | _ :: _, [] => by simp [part]
  | y :: ys, b :: bs => by
    have := part_length_le (k := k) ys bs
    simp only [part]
    by_cases hb : b = k <;> simp [hb] <;> omega

theorem parts_length : ∀ (xs : List Int) (bs : List Bool), xs.length = bs.length →
    (part true xs bs).length + (part false xs bs).length = bs.length
  | [], [], _ => rfl
  | [], _ :: _, h => by simp at h
  | _ :: _, [], h => by simp at h
  | y :: ys, b :: bs, h => by
    have := parts_length ys bs (by simpa using h)
    cases b <;> simp [part] <;> omega

/-! ## consequences of the chains -/

theorem chainUp_free {used : List Int} : ∀ {st : Int} {xs : List Int}, ChainUp used st xs → ∀ x ∈ xs, x ∉ used
  | _, [], _, _, h => by cases h
  | _, y :: ys, hc, x, h => by
    cases h with
    | head => exact hc.2.1
    | tail _ h => exact chainUp_free hc.2.2.2 x h

theorem chainUp_lb {used : List Int} : ∀ {st : Int} {xs : List Int}, ChainUp used st xs → ∀ x ∈ xs, st ≤ x
  | _, [], _, _, h => by cases h
  | _, y :: ys, hc, x, h => by
    cases h with
    | head => exact hc.1
    | tail _ h => have := chainUp_lb hc.2.2.2 x h; have := hc.1; omega

/-- strictly ascending -/
theorem chainUp_sorted {used : List Int} : ∀ {st : Int} {xs : List Int}, ChainUp used st xs → xs.Pairwise (· < ·)
  | _, [], _ => List.Pairwise.nil
  | _, y :: ys, hc => by
    refine List.Pairwise.cons ?_ (chainUp_sorted hc.2.2.2)
    intro x hx
    have := chainUp_lb hc.2.2.2 x hx
    omega

/-- everything between the start and a handed-out number is used or was handed out before -/
theorem chainUp_cover {used : List Int} : ∀ {st : Int} {xs : List Int}, ChainUp used st xs →
    ∀ x ∈ xs, ∀ t, st ≤ t → t < x → t ∈ used ∨ t ∈ xs
  | _, [], _, _, h => by cases h
  | st, y :: ys, hc, x, h => by
    intro t h1 h2
    cases h with
    | head => exact Or.inl (hc.2.2.1 t h1 h2)
    | tail _ h =>
      by_cases hty : t < y
      · exact Or.inl (hc.2.2.1 t h1 hty)
      · by_cases hey : t = y
        · subst hey; exact Or.inr List.mem_cons_self
        · rcases chainUp_cover hc.2.2.2 x h t (by omega) h2 with h' | h'
          · exact Or.inl h'
          · exact Or.inr (List.mem_cons_of_mem _ h')

theorem chainUp_ub {used : List Int} {st : Int} {xs : List Int} (hc : ChainUp used st xs) :
    ∀ x ∈ xs, x ≤ st + (used.length + xs.length : Nat) := by
  intro x hx
  have hlb := chainUp_lb hc x hx
  have := covers_length (x - st).toNat st (used ++ xs) (by
    intro t h1 h2
    rcases chainUp_cover hc x hx t h1 (by omega) with h | h
    · exact List.mem_append_left _ h
    · exact List.mem_append_right _ h)
  rw [List.length_append] at this
  omega

theorem chainDown_free {used : List Int} : ∀ {dy : Int} {xs : List Int}, ChainDown used dy xs → ∀ x ∈ xs, x ∉ used
  | _, [], _, _, h => by cases h
  | _, y :: ys, hc, x, h => by
    cases h with
    | head => exact hc.2.1
    | tail _ h => exact chainDown_free hc.2.2.2 x h

theorem chainDown_ub {used : List Int} : ∀ {dy : Int} {xs : List Int}, ChainDown used dy xs → ∀ x ∈ xs, x ≤ dy
  | _, [], _, _, h => by cases h
  | _, y :: ys, hc, x, h => by
    cases h with
    | head => exact hc.1
    | tail _ h => have := chainDown_ub hc.2.2.2 x h; have := hc.1; omega

/-- strictly descending -/
theorem chainDown_sorted {used : List Int} : ∀ {dy : Int} {xs : List Int}, ChainDown used dy xs → xs.Pairwise (· > ·)
  | _, [], _ => List.Pairwise.nil
  | _, y :: ys, hc => by
    refine List.Pairwise.cons ?_ (chainDown_sorted hc.2.2.2)
    intro x hx
    have := chainDown_ub hc.2.2.2 x hx
    omega

theorem chainDown_cover {used : List Int} : ∀ {dy : Int} {xs : List Int}, ChainDown used dy xs →
    ∀ x ∈ xs, ∀ t, t ≤ dy → x < t → t ∈ used ∨ t ∈ xs
  | _, [], _, _, h => by cases h
  | dy, y :: ys, hc, x, h => by
    intro t h1 h2
    cases h with
    | head => exact Or.inl (hc.2.2.1 t h1 h2)
    | tail _ h =>
      by_cases hty : y < t
      · exact Or.inl (hc.2.2.1 t h1 hty)
      · by_cases hey : t = y
        · subst hey; exact Or.inr List.mem_cons_self
        · rcases chainDown_cover hc.2.2.2 x h t (by omega) h2 with h' | h'
          · exact Or.inl h'
          · exact Or.inr (List.mem_cons_of_mem _ h')

theorem chainDown_lb {used : List Int} {dy : Int} {xs : List Int} (hc : ChainDown used dy xs) :
    ∀ x ∈ xs, dy - (used.length + xs.length : Nat) ≤ x := by
  intro x hx
  have hub := chainDown_ub hc x hx
  have := covers_length (dy - x).toNat (x + 1) (used ++ xs) (by
    intro t h1 h2
    rcases chainDown_cover hc x hx t (by omega) (by omega) with h | h
    · exact List.mem_append_left _ h
    · exact List.mem_append_right _ h)
  rw [List.length_append] at this
  omega

end NA.Vpn
