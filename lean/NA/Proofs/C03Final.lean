import NA.Proofs.C03Phase2
import NA.Proofs.C03Transfer
import NA.Proofs.C03PlanFlags
/-
C03, whole-vsys theorems, part 11: the remaining pieces — removals on the device, the position
of every target rule in `targetOrder`, equivalence from rule-wise facts.  Core Lean only.
-/
namespace NA.PanOs

/-! ### `sort.Strings` is a permutation -/

theorem insertSorted_perm (x : String) (l : List String) : (insertSorted x l).Perm (x :: l) := by
  induction l with
  | nil => exact List.Perm.refl _
  | cons y ys ih =>
    simp only [insertSorted]
    split
    · exact (List.Perm.cons y ih).trans (List.Perm.swap x y ys)
    · exact List.Perm.refl _

theorem sortStrings_perm (l : List String) : (sortStrings l).Perm l := by
  unfold sortStrings
  induction l with
  | nil => exact List.Perm.refl _
  | cons x xs ih =>
    simp only [List.foldr_cons]
    exact (insertSorted_perm x _).trans (List.Perm.cons x ih)

theorem sortStrings_nodup {l : List String} (h : l.Nodup) : (sortStrings l).Nodup :=
  (sortStrings_perm l).nodup_iff.mpr h

theorem sortStrings_sameMem (l : List String) : SameMem l (sortStrings l) :=
  (SameMem.of_perm (sortStrings_perm l)).symm

/-! ### Rules found under their names -/

theorem findRule_of_getElem? {rs : List Rule} (hnd : (ruleNames rs).Nodup) {t : Nat} {r : Rule}
    (h : rs[t]? = some r) : findRule rs r.name = some r := by
  unfold findRule
  induction rs generalizing t with
  | nil => simp at h
  | cons x xs ih =>
    simp only [ruleNames, List.map_cons, List.nodup_cons] at hnd
    cases t with
    | zero =>
      simp only [List.getElem?_cons_zero, Option.some.injEq] at h
      subst h
      simp
    | succ t =>
      simp only [List.getElem?_cons_succ] at h
      have hne : (x.name == r.name) = false := by
        have : x.name ≠ r.name := fun e => hnd.1 (e ▸ List.mem_map_of_mem (List.mem_of_getElem? h))
        simpa using this
      simp only [List.find?_cons, hne]
      exact ih hnd.2 h

/-! ### Removals -/

theorem lookupObj_filter (l : List Obj) (x n : String) (h : n ≠ x) :
    lookupObj (l.filter (·.name != x)) n = lookupObj l n := by
  unfold lookupObj
  induction l with
  | nil => rfl
  | cons o os ih =>
    by_cases hox : o.name = x
    · have h1 : (o.name != x) = false := by simp [hox]
      have h2 : (o.name == n) = false := by
        have : o.name ≠ n := fun e => h (e.symm.trans hox)
        simpa using this
      simp only [List.filter_cons, h1, Bool.false_eq_true, if_false, List.find?_cons, h2]
      exact ih
    · have h1 : (o.name != x) = true := by simpa using hox
      simp only [List.filter_cons, h1, if_true, List.find?_cons]
      cases hb : (o.name == n) with
      | true => rfl
      | false => exact ih

theorem runs_delAddrs (sh : Shared) : ∀ (xs : List String) (v : Vsys), xs.Nodup →
    (∀ x ∈ xs, x ∈ v.addrs.map (·.name)) → (∀ x ∈ xs, addrUsed v x = false) →
    ∃ w, Runs sh v (xs.map Cmd.delAddr) w ∧ w.rules = v.rules ∧ w.svcs = v.svcs ∧ w.groups = v.groups ∧
      w.sgroups = v.sgroups ∧ w.name = v.name ∧
      (∀ n, n ∉ xs → lookupObj w.addrs n = lookupObj v.addrs n) ∧
      (∀ n, n ∈ xs → lookupObj w.addrs n = none) := by
  intro xs
  induction xs with
  | nil => intro v _ _ _; exact ⟨v, Runs.nil sh v, rfl, rfl, rfl, rfl, rfl, fun _ _ => rfl, fun _ h => by cases h⟩
  | cons x xs ih =>
    intro v hnd hmem hused
    rw [List.nodup_cons] at hnd
    have hany : v.addrs.any (·.name == x) = true := by
      obtain ⟨o, ho, hn⟩ := List.mem_map.mp (hmem x (by simp))
      simp only [List.any_eq_true, beq_iff_eq]
      exact ⟨o, ho, hn⟩
    have hexec : exec sh v (.delAddr x) = .ok { v with addrs := v.addrs.filter (·.name != x) } := by
      simp only [exec, hany, hused x (by simp), Bool.not_true, Bool.false_eq_true, if_false]
    obtain ⟨w, hw, r1, r2, r3, r4, r5, p, pg⟩ := ih { v with addrs := v.addrs.filter (·.name != x) } hnd.2
      (by
        intro y hy
        obtain ⟨o, ho, hn⟩ := List.mem_map.mp (hmem y (List.mem_cons_of_mem _ hy))
        refine List.mem_map.mpr ⟨o, List.mem_filter.mpr ⟨ho, ?_⟩, hn⟩
        have : o.name ≠ x := fun e => hnd.1 (by rw [← e, hn]; exact hy)
        simpa using this)
      (by
        intro y hy
        have := hused y (List.mem_cons_of_mem _ hy)
        simpa [addrUsed] using this)
    refine ⟨w, Runs.cons hexec hw, r1, r2, r3, r4, r5, ?_, ?_⟩
    · intro n hn
      simp only [List.mem_cons, not_or] at hn
      rw [p n hn.2]
      exact lookupObj_filter _ _ _ hn.1
    · intro n hn
      rcases List.mem_cons.mp hn with hn | hn
      · subst hn
        rw [p n hnd.1, lookupObj_none_iff]
        intro hm
        obtain ⟨o, ho, he⟩ := List.mem_map.mp hm
        have := (List.mem_filter.mp ho).2
        simp [he] at this
      · exact pg n hn

theorem runs_delSvcs (sh : Shared) : ∀ (xs : List String) (v : Vsys), xs.Nodup →
    (∀ x ∈ xs, x ∈ v.svcs.map (·.name)) → (∀ x ∈ xs, srvUsed v x = false) →
    ∃ w, Runs sh v (xs.map Cmd.delSvc) w ∧ w.rules = v.rules ∧ w.addrs = v.addrs ∧ w.groups = v.groups ∧
      w.sgroups = v.sgroups ∧ w.name = v.name ∧
      (∀ n, n ∉ xs → lookupObj w.svcs n = lookupObj v.svcs n) ∧
      (∀ n, n ∈ xs → lookupObj w.svcs n = none) := by
  intro xs
  induction xs with
  | nil => intro v _ _ _; exact ⟨v, Runs.nil sh v, rfl, rfl, rfl, rfl, rfl, fun _ _ => rfl, fun _ h => by cases h⟩
  | cons x xs ih =>
    intro v hnd hmem hused
    rw [List.nodup_cons] at hnd
    have hany : v.svcs.any (·.name == x) = true := by
      obtain ⟨o, ho, hn⟩ := List.mem_map.mp (hmem x (by simp))
      simp only [List.any_eq_true, beq_iff_eq]
      exact ⟨o, ho, hn⟩
    have hexec : exec sh v (.delSvc x) = .ok { v with svcs := v.svcs.filter (·.name != x) } := by
      simp only [exec, hany, hused x (by simp), Bool.not_true, Bool.false_eq_true, if_false]
    obtain ⟨w, hw, r1, r2, r3, r4, r5, p, pg⟩ := ih { v with svcs := v.svcs.filter (·.name != x) } hnd.2
      (by
        intro y hy
        obtain ⟨o, ho, hn⟩ := List.mem_map.mp (hmem y (List.mem_cons_of_mem _ hy))
        refine List.mem_map.mpr ⟨o, List.mem_filter.mpr ⟨ho, ?_⟩, hn⟩
        have : o.name ≠ x := fun e => hnd.1 (by rw [← e, hn]; exact hy)
        simpa using this)
      (by
        intro y hy
        have := hused y (List.mem_cons_of_mem _ hy)
        simpa [srvUsed] using this)
    refine ⟨w, Runs.cons hexec hw, r1, r2, r3, r4, r5, ?_, ?_⟩
    · intro n hn
      simp only [List.mem_cons, not_or] at hn
      rw [p n hn.2]
      exact lookupObj_filter _ _ _ hn.1
    · intro n hn
      rcases List.mem_cons.mp hn with hn | hn
      · subst hn
        rw [p n hnd.1, lookupObj_none_iff]
        intro hm
        obtain ⟨o, ho, he⟩ := List.mem_map.mp hm
        have := (List.mem_filter.mp ho).2
        simp [he] at this
      · exact pg n hn

/-! ### Where each target rule sits in `targetOrder` -/

/-- Position `t` of the target is either kept (paired with device index `i`) or inserted. -/
theorem targetOrder_spec {eq : Nat → Nat → Bool} (a b : List String) :
    ∀ (rs : List Range) (x y : Nat), validFrom eq a.length b.length x y rs = true →
      ∀ t, y ≤ t → t < b.length →
        (∃ i, (i, t) ∈ eqPairs rs ∧ (targetOrder a b rs)[t - y]? = a[i]?) ∨
        (t ∈ insIdxs rs ∧ (targetOrder a b rs)[t - y]? = b[t]?) := by
  intro rs
  induction rs with
  | nil =>
    intro x y hv t hy ht
    obtain ⟨_, hm⟩ := validFrom_nil hv
    omega
  | cons r rs ih =>
    intro x y hv t hy ht
    have hfull := hv
    obtain ⟨h1, h2, h3, h4, h5, h6, h7⟩ := validFrom_cons hv
    subst h1; subst h2
    cases hk : r.kind with
    | del =>
      have hlb := kind_del_lowB hk
      rcases ih r.highA r.highB h7 t (by omega) ht with ⟨i, hi, he⟩ | ⟨hi, he⟩
      · left
        refine ⟨i, by simp only [eqPairs, hk, List.nil_append]; exact hi, ?_⟩
        simp only [targetOrder, hk]
        rw [hlb]; exact he
      · right
        refine ⟨by simp only [insIdxs, hk, List.nil_append]; exact hi, ?_⟩
        simp only [targetOrder, hk]
        rw [hlb]; exact he
    | ins =>
      obtain ⟨hlA, _⟩ := kind_ins_lowA hk
      by_cases hin : t < r.highB
      · right
        refine ⟨?_, ?_⟩
        · simp only [insIdxs, hk, List.mem_append, List.mem_map, List.mem_range]
          exact Or.inl ⟨t - r.lowB, by omega, by omega⟩
        · simp only [targetOrder, hk]
          have hlen : (b.extract r.lowB r.highB).length = r.highB - r.lowB := by
            simp [List.extract, List.length_take, List.length_drop]; omega
          rw [List.getElem?_append_left (by omega)]
          simp only [List.extract, List.getElem?_take, List.getElem?_drop]
          have : t - r.lowB < r.highB - r.lowB := by omega
          simp only [this, if_true]
          congr 1; omega
      · rcases ih r.highA r.highB h7 t (by omega) ht with ⟨i, hi, he⟩ | ⟨hi, he⟩
        · left
          refine ⟨i, by simp only [eqPairs, hk, List.nil_append]; exact hi, ?_⟩
          simp only [targetOrder, hk]
          have hlen : (b.extract r.lowB r.highB).length = r.highB - r.lowB := by
            simp [List.extract, List.length_take, List.length_drop]; omega
          rw [List.getElem?_append_right (by omega), hlen]
          rw [show t - r.lowB - (r.highB - r.lowB) = t - r.highB by omega]
          exact he
        · right
          refine ⟨by simp only [insIdxs, hk, List.mem_append]; exact Or.inr hi, ?_⟩
          simp only [targetOrder, hk]
          have hlen : (b.extract r.lowB r.highB).length = r.highB - r.lowB := by
            simp [List.extract, List.length_take, List.length_drop]; omega
          rw [List.getElem?_append_right (by omega), hlen]
          rw [show t - r.lowB - (r.highB - r.lowB) = t - r.highB by omega]
          exact he
    | eq =>
      obtain ⟨hlen', _⟩ := kind_eq_len hfull hk
      have hlen : (a.extract r.lowA r.highA).length = r.highA - r.lowA := by
        simp [List.extract, List.length_take, List.length_drop]; omega
      by_cases hin : t < r.highB
      · left
        refine ⟨r.lowA + (t - r.lowB), ?_, ?_⟩
        · simp only [eqPairs, hk, List.mem_append, List.mem_map, List.mem_range]
          exact Or.inl ⟨t - r.lowB, by omega, by simp; omega⟩
        · simp only [targetOrder, hk]
          rw [List.getElem?_append_left (by omega)]
          simp only [List.extract, List.getElem?_take, List.getElem?_drop]
          have : t - r.lowB < r.highA - r.lowA := by omega
          simp only [this, if_true]
      · rcases ih r.highA r.highB h7 t (by omega) ht with ⟨i, hi, he⟩ | ⟨hi, he⟩
        · left
          refine ⟨i, by simp only [eqPairs, hk, List.mem_append]; exact Or.inr hi, ?_⟩
          simp only [targetOrder, hk]
          rw [List.getElem?_append_right (by omega), hlen]
          rw [show t - r.lowB - (r.highA - r.lowA) = t - r.highB by omega]
          exact he
        · right
          refine ⟨by simp only [insIdxs, hk, List.nil_append]; exact hi, ?_⟩
          simp only [targetOrder, hk]
          rw [List.getElem?_append_right (by omega), hlen]
          rw [show t - r.lowB - (r.highA - r.lowA) = t - r.highB by omega]
          exact he

/-! ### Equivalence from position-wise facts -/

theorem rulesEquiv_of_forall (dv tv : Vsys) : ∀ (ds ts : List Rule), ds.length = ts.length →
    (∀ (t : Nat) (d r : Rule), ds[t]? = some d → ts[t]? = some r → ruleEquiv dv d tv r = true) →
    rulesEquiv dv tv ds ts = true := by
  intro ds
  induction ds with
  | nil => intro ts hl _; cases ts with | nil => rfl | cons _ _ => simp at hl
  | cons d ds ih =>
    intro ts hl h
    cases ts with
    | nil => simp at hl
    | cons r ts =>
      simp only [rulesEquiv, Bool.and_eq_true]
      refine ⟨h 0 d r rfl rfl, ih ts (by simpa using hl) ?_⟩
      intro t d' r' hd hr
      exact h (t + 1) d' r' (by simpa using hd) (by simpa using hr)

theorem sameSet_of (f g : String → List Leaf) (l l' : List String) (hs : SameMem l l')
    (hfg : ∀ x ∈ l', f x = g x) : sameSet (l.flatMap f) (l'.flatMap g) = true := by
  unfold sameSet
  simp only [Bool.and_eq_true, List.all_eq_true, List.contains_iff_mem, List.mem_flatMap]
  constructor
  · rintro y ⟨x, hx, hy⟩
    have hx' := (hs x).mp hx
    exact ⟨x, hx', by rw [← hfg x hx']; exact hy⟩
  · rintro y ⟨x, hx, hy⟩
    exact ⟨x, (hs x).mpr hx, by rw [hfg x hx]; exact hy⟩

/-- Content of a member of a vsys without groups. -/
theorem expandAddr_noGroups (v : Vsys) (hg : v.groups = []) (x : String) :
    expandAddr v (v.groups.length + 1) x =
      match lookupObj v.addrs x with
      | some val => [.val val]
      | none => [.ext x] := by
  simp only [hg, expandAddr, List.find?_nil, lookupObj]
  cases v.addrs.find? (·.name == x) <;> rfl

theorem expandSrv_noGroups (v : Vsys) (hg : v.sgroups = []) (x : String) :
    expandSrv v (v.sgroups.length + 1) x =
      match lookupObj v.svcs x with
      | some val => [.val val]
      | none => [.ext x] := by
  simp only [hg, expandSrv, List.find?_nil, lookupObj]
  cases v.svcs.find? (·.name == x) <;> rfl

end NA.PanOs
