import NA.Proofs.F1Routes
import NA.Proofs.F1TailBinds
/-!
# F1: the whole engine on the strict device, class K2

Several access-group commands (in and out, known and unknown interfaces), shared and unshared
object-groups, all four branches of `diffAcl`, routes, `deleteUnused`.
-/
namespace NA.F1
open NA.AsaDev
open NA.Acl (Range)

/-! ## The state after `checkASAInterfaces` -/

theorem mem_foldl_addSet (g : Name) : ∀ (l s : List Name), g ∈ l.foldl (fun s g => addSet g s) s ↔ g ∈ l ∨ g ∈ s := by
  intro l
  induction l with
  | nil => intro s; simp
  | cons x xs ih =>
    intro s
    rw [List.foldl_cons, ih, mem_addSet]
    simp only [List.mem_cons]
    constructor
    · rintro (h | h | h)
      · exact Or.inl (Or.inr h)
      · exact Or.inl (Or.inl h)
      · exact Or.inr h
    · rintro ((h | h) | h)
      · exact Or.inr (Or.inl h)
      · exact Or.inl h
      · exact Or.inr (Or.inr h)

/-- What `markNeeded` of the commands of unknown interfaces leaves. -/
structure CIMarks (e : Env) (s : St) : Prop where
  aReady : s.aReady = []
  closed : ∀ X ∈ s.aNeeded, ∀ l ∈ e.aLines X, ∀ g ∈ l.refs, g ∈ s.gNeeded

theorem markNeededBind_marks (e : Env) (s : St) (i : Nat) (h : CIMarks e s) :
    CIMarks e ((markNeededBind e s i).hit "intf:unmanaged-binding") := by
  refine ⟨h.aReady, ?_⟩
  intro X hX l hl g hg
  show g ∈ ((e.aLines (e.a.binds.getD i default).acl).flatMap (·.refs)).foldl (fun s g => addSet g s) s.gNeeded
  rw [mem_foldl_addSet]
  have hX' : X ∈ addSet (e.a.binds.getD i default).acl s.aNeeded := hX
  rcases mem_addSet.mp hX' with e1 | e1
  · left
    subst e1
    exact List.mem_flatMap.mpr ⟨l, hl, hg⟩
  · right; exact h.closed X e1 l hl g hg

theorem markFold_needed (e : Env) : ∀ (l : List Nat) (s : St),
    (∀ i ∈ l, aclOfI e i ∈ (l.foldl (fun st i => (markNeededBind e st i).hit "intf:unmanaged-binding") s).aNeeded) ∧
    (∀ x ∈ s.aNeeded, x ∈ (l.foldl (fun st i => (markNeededBind e st i).hit "intf:unmanaged-binding") s).aNeeded) := by
  intro l
  induction l with
  | nil => intro s; exact ⟨fun i hi => by simp at hi, fun x hx => hx⟩
  | cons j js ih =>
    intro s
    rw [List.foldl_cons]
    obtain ⟨h1, h2⟩ := ih ((markNeededBind e s j).hit "intf:unmanaged-binding")
    refine ⟨?_, ?_⟩
    · intro i hi
      rcases List.mem_cons.mp hi with e1 | e1
      · subst e1
        apply h2
        show aclOfI e i ∈ addSet (e.a.binds.getD i default).acl s.aNeeded
        exact mem_addSet.mpr (Or.inl rfl)
      · exact h1 i e1
    · intro x hx
      apply h2
      show x ∈ addSet (e.a.binds.getD j default).acl s.aNeeded
      exact mem_addSet.mpr (Or.inr hx)

theorem checkInterfaces_marks (e : Env) (st : St) (managed : List Nat) (h : checkInterfaces e {} = some (st, managed)) :
    CIMarks e st ∧ (∀ i, i < e.a.binds.length → i ∈ managed ∨ aclOfI e i ∈ st.aNeeded) ∧
    (∀ i ∈ managed, i < e.a.binds.length) := by
  unfold checkInterfaces at h
  simp only [] at h
  split at h
  · simp only [Option.some.injEq, Prod.mk.injEq] at h
    obtain ⟨h1, h2⟩ := h
    refine ⟨?_, ?_, ?_⟩
    · rw [← h1]
      apply foldl_inv (CIMarks e)
      · intro s i _ hs; exact markNeededBind_marks e s i hs
      · exact ⟨rfl, fun X hX => by simp at hX⟩
    · intro i hi
      rw [← h1, ← h2]
      by_cases hu : i ∈ ((e.a.intfs.filter fun n => !(e.b.binds.map (·.intf)).contains n).flatMap (bindsOf e.a.binds)).eraseDups
      · right; exact (markFold_needed e _ {}).1 i hu
      · left
        apply List.mem_filter.mpr
        refine ⟨List.mem_range.mpr hi, ?_⟩
        simpa using hu
    · intro i hi
      rw [← h2] at hi
      exact List.mem_range.mp (List.mem_filter.mp hi).1
  · exact absurd h (by simp)

theorem lookup_map_gen' {β : Type} (f : Name → Name) (bN : Name) : ∀ (l : List (Name × β)), bN ∈ l.map (·.1) →
    (l.map fun g => (g.1, f g.1)).lookup bN = some (f bN) := by
  intro l
  induction l with
  | nil => intro h; simp at h
  | cons p ps ih =>
    intro h
    simp only [List.map_cons, List.lookup]
    by_cases e1 : bN = p.1
    · subst e1; simp
    · have hb : (bN == p.1) = false := by simpa using e1
      simp only [hb]
      apply ih
      simp only [List.map_cons, List.mem_cons] at h
      rcases h with h | h
      · exact absurd h e1
      · exact h

/-- The invariant of the whole run holds between the state after `checkASAInterfaces` and
`generateNamesForTransfer` and the unchanged device. -/
theorem full_init (a b : Config) (sc : Scripts) (st : St) (managed : List Nat)
    (h : checkInterfaces ⟨a, b, sc⟩ {} = some (st, managed)) (hAclNames : (a.acls.map (·.1)).Nodup) :
    Full ⟨a, b, sc⟩ (generateNames ⟨a, b, sc⟩ st) (ofConfig a) := by
  obtain ⟨hm, _, _⟩ := checkInterfaces_marks _ st managed h
  have hkeys := aclKeys_ofConfig a
  refine ⟨sem_init a b sc st managed h, by rw [hkeys]; exact hAclNames, ?_, ?_, ?_, ?_, ?_⟩
  · intro n hn
    apply (hasAcl_iff_keys _ n).mpr
    rw [hkeys]; exact hn
  · intro n _ _
    rw [linesOf_ofConfig]; rfl
  · intro bN hbN
    have : (generateNames ⟨a, b, sc⟩ st).aReady = st.aReady := rfl
    rw [this, hm.aReady] at hbN; simp at hbN
  · intro bN hbN _
    have hn : (generateNames ⟨a, b, sc⟩ st).aNameOf bN = genName bN (a.acls.map (·.1)) := by
      unfold St.aNameOf generateNames
      simp only []
      rw [lookup_map_gen' (fun n => genName n (a.acls.map (·.1))) bN b.acls hbN]
      rfl
    refine ⟨hn, ?_⟩
    cases hh : hasAcl (ofConfig a) (genName bN (A0 ⟨a, b, sc⟩))
    · rfl
    · have := (hasAcl_iff_keys _ _).mp hh
      rw [hkeys] at this
      exact absurd this (genName_fresh bN _)
  · intro X hX hf l hl x hx
    have hXA : X ∈ a.acls.map (·.1) := by
      have := (hasAcl_iff_keys _ _).mp hX
      rw [hkeys] at this; exact this
    rcases hf with hf | hf
    · rw [linesOf_ofConfig] at hl
      obtain ⟨l0, hl0, rfl⟩ := List.mem_map.mp hl
      left
      exact hm.closed X hf l0 hl0 x hx
    · exact absurd hXA hf

theorem lookup_filter_keepK {κ β : Type} [BEq κ] [LawfulBEq κ] (keep : κ → Bool) (k : κ) (hk : keep k = true) : ∀ (m : List (κ × β)),
    (m.filter fun p => keep p.1).lookup k = m.lookup k := by
  intro m
  induction m with
  | nil => rfl
  | cons p ps ih =>
    obtain ⟨k2, v2⟩ := p
    by_cases e : k = k2
    · subst e; simp [List.filter, hk, List.lookup]
    · have hb : (k == k2) = false := by simpa using e
      simp only [List.filter]
      split
      · simp only [List.lookup, hb]; exact ih
      · simp only [List.lookup, hb]; exact ih

/-- An access-group command that is not compared belongs to an interface unknown to the target. -/
theorem unmanaged_intf (e : Env) (st : St) (managed : List Nat) (h : checkInterfaces e {} = some (st, managed))
    (i : Nat) (hi : i < e.a.binds.length) (hm : i ∉ managed) :
    (e.a.binds.getD i default).intf ∉ e.b.binds.map (·.intf) := by
  unfold checkInterfaces at h
  simp only [] at h
  split at h
  · simp only [Option.some.injEq, Prod.mk.injEq] at h
    obtain ⟨_, h2⟩ := h
    rw [← h2] at hm
    have hu : i ∈ ((e.a.intfs.filter fun n => !(e.b.binds.map (·.intf)).contains n).flatMap (bindsOf e.a.binds)).eraseDups := by
      by_cases hx : i ∈ ((e.a.intfs.filter fun n => !(e.b.binds.map (·.intf)).contains n).flatMap (bindsOf e.a.binds)).eraseDups
      · exact hx
      · exfalso; apply hm
        exact List.mem_filter.mpr ⟨List.mem_range.mpr hi, by simpa using hx⟩
    rw [List.mem_eraseDups] at hu
    obtain ⟨n, hn, hin⟩ := List.mem_flatMap.mp hu
    have hn' := (List.mem_filter.mp hn).2
    unfold bindsOf at hin
    have := (List.mem_filter.mp hin).2
    simp only [beq_iff_eq] at this
    rw [this]
    simpa using hn'
  · exact absurd h (by simp)

/-- ... and the invariant of the run over the access-group commands. -/
theorem binv_init (a b : Config) (sc : Scripts) (st : St) (managed : List Nat)
    (h : checkInterfaces ⟨a, b, sc⟩ {} = some (st, managed)) (hAclNames : (a.acls.map (·.1)).Nodup)
    (hkeys : (a.binds.map fun x => (x.dir, x.intf)).Nodup)
    (hmk : (managed.map (keyOf ⟨a, b, sc⟩)).Nodup) :
    BInv ⟨a, b, sc⟩ managed (generateNames ⟨a, b, sc⟩ st) (ofConfig a) managed [] := by
  obtain ⟨_, hm2, hm3⟩ := checkInterfaces_marks _ st managed h
  have hbk : (ofConfig a).binds.map (·.1) = a.binds.map fun x => (x.dir, x.intf) := by
    simp [ofConfig, List.map_map, Function.comp_def]
  refine ⟨full_init a b sc st managed h hAclNames, rfl, by rw [hbk]; exact hkeys, ?_, hmk, hm3, ?_, ?_, fun b hb => by simp at hb,
    fun b hb => by simp at hb, rfl⟩
  · intro i hi
    have hi' := hm3 i hi
    apply lookup_of_mem_nodup' _ _ _ (by rw [hbk]; exact hkeys)
    simp only [ofConfig, List.mem_map]
    refine ⟨a.binds[i], List.getElem_mem hi', ?_⟩
    simp [keyOf, aclOfI, List.getD_eq_getElem?_getD, List.getElem?_eq_getElem hi']
  · intro p hp
    simp only [ofConfig, List.mem_map] at hp
    obtain ⟨x, hx, rfl⟩ := hp
    obtain ⟨i, hi, rfl⟩ := List.getElem_of_mem hx
    rcases hm2 i hi with h1 | h1
    · right
      refine ⟨i, h1, ?_⟩
      simp [keyOf, List.getD_eq_getElem?_getD, List.getElem?_eq_getElem hi]
    · left; left
      have : aclOfI ⟨a, b, sc⟩ i = a.binds[i].acl := by
        simp [aclOfI, List.getD_eq_getElem?_getD, List.getElem?_eq_getElem hi]
      rw [← this]
      exact h1
  · intro p hp
    simp only [ofConfig, List.mem_map] at hp
    obtain ⟨x, hx, rfl⟩ := hp
    obtain ⟨i, hi, rfl⟩ := List.getElem_of_mem hx
    have hk : ((a.binds[i].dir, a.binds[i].intf) : String × Name) = keyOf ⟨a, b, sc⟩ i := by
      simp [keyOf, List.getD_eq_getElem?_getD, List.getElem?_eq_getElem hi]
    by_cases hmm : i ∈ managed
    · exact Or.inl ⟨i, hmm, hk⟩
    · exact Or.inr (Or.inr ⟨i, hi, hmm, hk⟩)

/-! ## What is pending in `deleteUnused` when every compared access-group command is `needed` -/

theorem duPending_allNeeded (e : Env) (st : St) (managed : List Nat)
    (hb : ∀ i ∈ managed, i ∈ st.bNeeded ∨ i ∈ st.bToDel) :
    (duPending e st managed).1.binds = (managed.filter fun i => !st.bNeeded.contains i && st.bToDel.contains i) ∧
    (∀ m ∈ (duPending e st managed).1.acls, m ∈ A0 e ∧ m ∉ st.aNeeded) ∧
    (∀ g ∈ (duPending e st managed).1.grps, g ∈ D0 e ∧ g ∉ st.gNeeded ∧
      ∀ n ∈ A0 e, n ∉ st.aNeeded → n ∉ (duPending e st managed).1.acls → ∀ l ∈ e.aLines n, g ∉ l.refs) ∧
    ((A0 e).Nodup → (duPending e st managed).1.acls.Nodup) ∧
    ((D0 e).Nodup → (duPending e st managed).1.grps.Nodup) := by
  unfold duPending
  have hB1 : (managed.filter fun i => !st.bNeeded.contains i && !st.bToDel.contains i) = [] := by
    apply List.filter_eq_nil_iff.mpr
    intro i hi
    rcases hb i hi with h | h <;> simp [h]
  simp only [hB1, List.map_nil, List.filter_nil, List.contains_nil, Bool.or_false, Bool.not_false]
  have hfT : ∀ (l : List Name), l.filter (fun _ => true) = l := fun l => List.filter_eq_self.mpr (fun _ _ => rfl)
  simp only [hfT]
  refine ⟨trivial, ?_, ?_, ?_, ?_⟩
  · intro m hm
    have hm' := (List.mem_filter.mp (mem_sortS.mp hm))
    refine ⟨hm'.1, ?_⟩
    have := hm'.2
    simp only [Bool.and_eq_true, Bool.not_eq_true', List.contains_eq_mem, decide_eq_false_iff_not] at this
    exact this.1
  · intro g hg
    have hg' := List.mem_filter.mp (mem_sortS.mp hg)
    have hg1 := List.mem_filter.mp hg'.1
    have hgn : g ∉ st.gNeeded := by
      have := hg1.2
      simp only [Bool.and_eq_true, Bool.not_eq_true', List.contains_eq_mem, decide_eq_false_iff_not] at this
      exact this.1
    refine ⟨hg1.1, hgn, ?_⟩
    intro n hn' hna hnp l hl hgl
    have hnot : ¬ (n ∈ (e.a.acls.map (·.1)).filter fun n =>
        !st.aNeeded.contains n && (st.aToDel.contains n || isTagged n)) := fun hx => hnp (mem_sortS.mpr hx)
    have hunt : n ∈ (e.a.acls.map (·.1)).filter fun n =>
        !st.aNeeded.contains n && (!st.aToDel.contains n && !isTagged n) := by
      apply List.mem_filter.mpr
      refine ⟨hn', ?_⟩
      have h1 : st.aNeeded.contains n = false := by
        simp only [List.contains_eq_mem, decide_eq_false_iff_not]; exact hna
      have h2 : (st.aToDel.contains n || isTagged n) = false := by
        cases hh : (st.aToDel.contains n || isTagged n)
        · rfl
        · exfalso; apply hnot; exact List.mem_filter.mpr ⟨hn', by rw [h1, hh]; rfl⟩
      rw [Bool.or_eq_false_iff] at h2
      rw [h1, h2.1, h2.2]; rfl
    have hstill := hg'.2
    simp only [Bool.not_eq_true', List.contains_eq_mem, decide_eq_false_iff_not] at hstill
    simp only [List.contains_eq_mem] at hunt
    apply hstill
    apply List.mem_filter.mpr
    refine ⟨List.mem_flatMap.mpr ⟨n, hunt, List.mem_flatMap.mpr ⟨l, hl, hgl⟩⟩, ?_⟩
    simp only [Bool.not_eq_true', List.contains_eq_mem, decide_eq_false_iff_not]
    exact hgn
  · intro hnd; exact sortS_nodup (List.Nodup.sublist List.filter_sublist hnd)
  · intro hnd; exact sortS_nodup (List.Nodup.sublist List.filter_sublist (List.Nodup.sublist List.filter_sublist hnd))

/-! ## End to end -/

/-- Final equivalence of a device access list and a target access list: line by line the same text up to group
names; each referenced device group exists and has the target group's members. -/
def AclEquiv (e : Env) (d : Dev) (ls : List RLine) (bl : List Line) : Prop :=
  ls.length = bl.length ∧ ∀ p ∈ ls.zip bl, LineEquiv e d p.1 p.2

/-- **The device carries the target** (fragment F1): same interfaces; an access-group command only at a place the
target names or at a place of an interface unknown to the target (where the device had one);
at every place named by the target an access list equivalent to the target's one is bound;
the routes are the target's routes (or, if the target has none, the old ones). -/
structure Converged (e : Env) (d' : Dev) : Prop where
  intfs : d'.intfs = e.a.intfs
  bindsFrom : ∀ p ∈ d'.binds, (∃ x ∈ e.b.binds, p.1 = (x.dir, x.intf)) ∨
    (∃ y ∈ e.a.binds, p.1 = (y.dir, y.intf) ∧ y.intf ∉ e.b.binds.map (·.intf))
  binds : ∀ x ∈ e.b.binds, ∃ X, d'.binds.lookup (x.dir, x.intf) = some X ∧
    AclEquiv e d' (linesOf d' X) (e.bLines x.acl)
  routes : e.b.routes ≠ [] → ∀ r, r ∈ d'.routes ↔ r ∈ e.b.routes.map (·.text)
  routesKept : e.b.routes = [] → d'.routes = e.a.routes.map (·.text)

/-- The state handed to `diffRoutes`. -/
def afterBinds (e : Env) (st0 : St) (managed : List Nat) : St :=
  if managed.isEmpty && e.b.binds.isEmpty then generateNames e st0 else diffBinds e (generateNames e st0) managed e.b.binds

/-- The state at the end of `diffConfig`. -/
def finalSt (e : Env) (st0 : St) (managed : List Nat) : St :=
  deleteUnused e (diffRoutes (afterBinds e st0 managed) (sortRoutes e.a.routes) (sortRoutes e.b.routes)) managed

theorem engine_eq (a b : Config) (sc : Scripts) (st0 : St) (managed : List Nat)
    (h : checkInterfaces ⟨a, b, sc⟩ {} = some (st0, managed)) :
    (engine a b sc).map (·.script) = some (finalSt ⟨a, b, sc⟩ st0 managed).out := by
  unfold engine
  simp only [h]
  rfl

theorem transferAcl_bmarks (e : Env) (st : St) (bN : Name) :
    (transferAcl e st bN).bNeeded = st.bNeeded ∧ (transferAcl e st bN).bToDel = st.bToDel := by
  unfold transferAcl
  split
  · exact ⟨rfl, rfl⟩
  · have := SameAclMarks.foldl (fun st l => emitLine e st (Chg.acl (st.aNameOf bN) none) l) (e.bLines bN)
      ({ st with aReady := bN :: st.aReady }.hit "acl:transfer") (fun s x => emitLine_aclMarks e s _ x)
    exact ⟨this.bNeeded, this.bToDel⟩

/-- The access-group part of the run. -/
theorem binds_run (e : Env) (hw : WF e) (hA : RefsClosedA e) (hB : RefsClosedB e) (st0 : St) (managed : List Nat)
    (hI0 : ∀ (_ : (managed.map (keyOf e)).Nodup), BInv e managed (generateNames e st0) (ofConfig e.a) managed [])
    (hc : bindsCheck e (generateNames e st0) managed = true) :
    ∃ d1 pend dn, Step e (generateNames e st0) (ofConfig e.a) (afterBinds e st0 managed) d1 ∧
      BInv e managed (afterBinds e st0 managed) d1 pend dn ∧ (∀ x ∈ e.b.binds, x ∈ dn) ∧ (∀ x ∈ dn, x ∈ e.b.binds) ∧
      (managed.map (keyOf e)).Nodup ∧
      (∀ i ∈ managed, i ∈ (afterBinds e st0 managed).bNeeded ∨ i ∈ pend) ∧
      (∀ i ∈ pend, i ∈ managed ∧ i ∉ (afterBinds e st0 managed).bNeeded ∧ i ∈ (afterBinds e st0 managed).bToDel) := by
  unfold bindsCheck at hc
  unfold afterBinds
  by_cases h0 : (managed.isEmpty && e.b.binds.isEmpty) = true
  · rw [if_pos h0]
    simp only [Bool.and_eq_true, List.isEmpty_iff] at h0
    obtain ⟨m0, b0⟩ := h0
    subst m0
    exact ⟨_, [], [], Step.refl _ _ _, hI0 (by simp), fun x hx => by rw [b0] at hx; simp at hx, fun x hx => by simp at hx,
      by simp, fun i hi => by simp at hi, fun i hi => by simp at hi⟩
  · rw [if_neg h0] at hc ⊢
    simp only [Bool.and_eq_true, decide_eq_true_eq, Bool.not_eq_true'] at hc
    obtain ⟨⟨c1, c3⟩, hc⟩ := hc
    by_cases h2 : (diffUnordered (managed.map fun i => (e.a.binds.getD i default).key) (e.b.binds.map (·.key))).any (·.isEqual) = true
    · rw [if_pos h2] at hc
      simp only [Bool.and_eq_true, List.isEmpty_iff] at hc
      obtain ⟨⟨⟨c4, c5⟩, c6⟩, c7⟩ := hc
      rw [diffBinds_eq_ops e _ managed e.b.binds c1 h2]
      generalize bindOps managed e.b.binds
        (diffUnordered (managed.map fun i => (e.a.binds.getD i default).key) (e.b.binds.map (·.key))) = ops at c4 c5 c6 c7 ⊢
      obtain ⟨d1, s1, i1, k1, _⟩ := opsFold_full e managed hw hA hB ops (generateNames e st0) (ofConfig e.a) managed [] (hI0 c3) c4
      rw [c5] at i1 k1
      refine ⟨d1, [], _, s1, i1, ?_, ?_, c3, ?_, fun i hi => by simp at hi⟩
      · intro x hx
        have := List.all_eq_true.mp c6 x hx
        simpa using this
      · intro x hx
        have := List.all_eq_true.mp c7 x hx
        simpa using this
      · intro i hi
        rcases k1 i hi with h | h
        · simp at h
        · exact Or.inl h
    · have h2' : (diffUnordered (managed.map fun i => (e.a.binds.getD i default).key) (e.b.binds.map (·.key))).any (·.isEqual) = false := by
        simpa using h2
      rw [if_neg h2] at hc
      simp only [Bool.and_eq_true] at hc
      obtain ⟨c4, c5⟩ := hc
      rw [diffBinds_noparts e _ managed e.b.binds c1 h2']
      -- marking keeps the invariant
      have hcore : Core (generateNames e st0) (nopartsSt e (generateNames e st0) managed) := by
        unfold nopartsSt
        split
        · exact Core.refl _
        · exact (⟨rfl, rfl, rfl, rfl, rfl, rfl, rfl, rfl, rfl⟩ : Core (generateNames e st0) ((generateNames e st0).hit "bind:no-parts-equal")).trans
            (markDeletedBinds_core e _ managed)
      have htoDel : ∀ i ∈ managed, i ∈ (nopartsSt e (generateNames e st0) managed).bToDel := by
        intro i hi
        unfold nopartsSt
        split
        · rename_i hm
          have : managed = [] := by simpa using hm
          rw [this] at hi; simp at hi
        · exact (markDeletedBinds_toDel e managed _).1 i hi
      have hI1 := (hI0 c3).of_core hcore
      have s0 : Step e (generateNames e st0) (ofConfig e.a) (nopartsSt e (generateNames e st0) managed) (ofConfig e.a) :=
        Step.of_marks hcore.out hcore.gNeeded hcore.aNeeded hcore.aReady hcore.aName
      generalize nopartsSt e (generateNames e st0) managed = st1 at c5 hcore htoDel hI1 s0 ⊢
      obtain ⟨d1, s1, i1, _, _⟩ := opsFold_full e managed hw hA hB (e.b.binds.map BOp.add) st1 (ofConfig e.a) managed [] hI1 c5
      rw [opsEnd_adds] at i1
      simp only [List.nil_append] at i1
      -- `addCmds` touches neither `needed` nor `toDelete` of the access-group commands
      have hadds : ∀ (bs : List Bind) (s : St), ((bs.map BOp.add).foldl (applyOp e) s).bNeeded = s.bNeeded ∧
          ((bs.map BOp.add).foldl (applyOp e) s).bToDel = s.bToDel := by
        intro bs
        induction bs with
        | nil => intro s; exact ⟨rfl, rfl⟩
        | cons b bs ih =>
          intro s
          rw [List.map_cons, List.foldl_cons]
          obtain ⟨r1, r2⟩ := ih (applyOp e s (.add b))
          have hm := transferAcl_bmarks e s b.acl
          refine ⟨r1.trans ?_, r2.trans ?_⟩
          · show (transferAcl e s b.acl).bNeeded = s.bNeeded
            exact hm.1
          · show (transferAcl e s b.acl).bToDel = s.bToDel
            exact hm.2
      obtain ⟨hn, ht⟩ := hadds e.b.binds st1
      refine ⟨d1, managed, e.b.binds, s0.trans s1, i1, fun x hx => hx, fun x hx => hx, c3, fun i hi => Or.inr hi, ?_⟩
      intro i hi
      refine ⟨hi, ?_, by rw [ht]; exact htoDel i hi⟩
      rw [hn, hcore.bNeeded]
      have := List.all_eq_true.mp c4 i hi
      simpa using this

/-- **The whole engine on the strict device, class K2.** -/
theorem k2_core (e : Env) (hw : WF e) (hA : RefsClosedA e) (hB : RefsClosedB e) (st0 : St) (managed : List Nat)
    (hci : checkInterfaces e {} = some (st0, managed))
    (hAclNames : (A0 e).Nodup) (hGrpNames : (D0 e).Nodup)
    (hkeys : (e.a.binds.map fun x => (x.dir, x.intf)).Nodup)
    (hcb : bindsCheck e (generateNames e st0) managed = true)
    (hcr : routesCheck (sortRoutes e.a.routes) (sortRoutes e.b.routes)
      (routeDelsOf (sortRoutes e.a.routes) (sortRoutes e.b.routes))
      (routeInssOf (sortRoutes e.a.routes) (sortRoutes e.b.routes)) = true) :
    ∃ d', exec (ofConfig e.a) (finalSt e st0 managed).out = some d' ∧ Converged e d' := by
  have hI0 : ∀ (_ : (managed.map (keyOf e)).Nodup), BInv e managed (generateNames e st0) (ofConfig e.a) managed [] :=
    fun hmk => binv_init e.a e.b e.sc st0 managed hci hAclNames hkeys hmk
  have hout0 : (generateNames e st0).out = [] := (checkInterfaces_init e st0 managed hci).1
  obtain ⟨d1, pend, dn, s1, i1, hcov, hsub, hmk, hbn, hpend⟩ := binds_run e hw hA hB st0 managed hI0 hcb
  unfold finalSt
  generalize afterBinds e st0 managed = stB at s1 i1 hbn hpend ⊢
  obtain ⟨cs1, ho1, he1⟩ := s1.out
  obtain ⟨d2, cs2, fr, he2, f2, b2, n2, a2, g2, ro2, rk2⟩ := diffRoutes_full e stB d1 i1.full i1.routes hcr
  generalize hstR : diffRoutes stB (sortRoutes e.a.routes) (sortRoutes e.b.routes) = stR at fr f2 ⊢
  -- what is pending
  obtain ⟨pb, pa, pg, pan, pgn⟩ := duPending_allNeeded e stR managed (fun i hi => by
    rw [fr.bNeeded, fr.bToDel]
    rcases hbn i hi with h | h
    · exact Or.inl h
    · exact Or.inr (hpend i h).2.2)
  have hPB : ∀ i, i ∈ (duPending e stR managed).1.binds ↔ i ∈ pend := by
    intro i
    rw [pb, List.mem_filter, fr.bNeeded, fr.bToDel]
    simp only [Bool.and_eq_true, Bool.not_eq_true', List.contains_eq_mem, decide_eq_false_iff_not, decide_eq_true_eq]
    constructor
    · rintro ⟨h1, h2, _⟩
      rcases hbn i h1 with h | h
      · exact absurd h h2
      · exact h
    · intro h
      obtain ⟨x1, x2, x3⟩ := hpend i h
      exact ⟨x1, x2, x3⟩
  have hfrozenB : ∀ p ∈ d1.binds, p.1 ∉ (duPending e stR managed).1.binds.map (keyOf e) → FrozenAcl e stR p.2 := by
    intro p hp hk
    rcases i1.frozenVals p hp with h | ⟨j, hj, h3⟩
    · exact h.mono (fun y hy => by rw [fr.aNeeded]; exact hy)
    · exact absurd (List.mem_map.mpr ⟨j, (hPB j).mpr hj, h3.symm⟩) hk
  have hnotpendA : ∀ X, FrozenAcl e stR X → X ∉ (duPending e stR managed).1.acls := by
    intro X hf hx
    obtain ⟨m1, m2⟩ := pa X hx
    rcases hf with hf | hf
    · exact m2 hf
    · exact hf m1
  have hnotpendG : ∀ x, Frozen e stR x → x ∉ (duPending e stR managed).1.grps := by
    intro x hf hx
    obtain ⟨g1, g2', _⟩ := pg x hx
    rcases hf with hf | hf
    · exact g2' hf
    · exact hf g1
  have hlinesOf : ∀ p ∈ d2.acls, linesOf d2 p.1 = p.2 := by
    intro p hp
    unfold linesOf
    rw [lookup_of_mem_nodup d2.acls p.1 p.2 f2.keysNodup hp]; rfl
  obtain ⟨tail, d3, hot, het, hacl3, hgrp3, hb3, hr3, hi3⟩ := deleteUnused_exec e stR managed d2 f2.sem.mode
    (by
      rw [pb]
      exact List.Nodup.sublist (List.filter_sublist.map _) hmk)
    (by
      intro i hi
      rw [b2]; exact i1.pendOrig i ((hPB i).mp hi))
    (pan hAclNames) (pgn hGrpNames)
    (by
      intro m hm
      obtain ⟨m1, m2⟩ := pa m hm
      refine ⟨f2.devAcls m m1, ?_⟩
      intro p hp hk e1
      rw [b2] at hp
      exact hnotpendA m (e1 ▸ hfrozenB p hp hk) hm)
    (by
      intro p hp hpA
      obtain ⟨m1, m2⟩ := pa p.1 hpA
      rw [← hlinesOf p hp]
      exact f2.untouched p.1 m1 m2)
    (by
      intro g hg
      obtain ⟨g1, g2', g3⟩ := pg g hg
      refine ⟨f2.sem.dev g g1, ?_⟩
      intro p hp hpA l hl hgl
      have hpl := hlinesOf p hp
      have hX : hasAcl d2 p.1 = true := (hasAcl_iff_keys d2 p.1).mpr (List.mem_map.mpr ⟨p, hp, rfl⟩)
      by_cases hf : FrozenAcl e stR p.1
      · exact hnotpendG g (f2.frozenLines p.1 hX hf l (by rw [hpl]; exact hl) g hgl) hg
      · have hnn : p.1 ∉ stR.aNeeded := fun hx => hf (Or.inl hx)
        have hin : p.1 ∈ A0 e := by
          by_cases hx : p.1 ∈ A0 e
          · exact hx
          · exact absurd (Or.inr hx) hf
        have hun := f2.untouched p.1 hin hnn
        rw [hpl] at hun
        rw [hun] at hl
        obtain ⟨l0, hl0, rfl⟩ := List.mem_map.mp hl
        exact g3 p.1 hin hnn hpA l0 hl0 hgl)
    (by
      intro h
      rcases h with h | h
      · obtain ⟨m, hm⟩ := List.exists_mem_of_ne_nil _ h
        have := (pa m hm).1
        have hl : 0 < (A0 e).length := List.length_pos_of_mem this
        simp only [List.length_map] at hl
        omega
      · obtain ⟨g, hg⟩ := List.exists_mem_of_ne_nil _ h
        have := (pg g hg).1
        have hl : 0 < (D0 e).length := List.length_pos_of_mem this
        simp only [List.length_map] at hl
        omega)
  have hkeepB : ∀ x ∈ dn, (fun (k : BKey) => !((duPending e stR managed).1.binds.map (keyOf e)).contains k) (x.dir, x.intf) = true := by
    intro x hx
    simp only [Bool.not_eq_true', List.contains_eq_mem, decide_eq_false_iff_not, List.mem_map]
    rintro ⟨i, hi, hik⟩
    exact i1.doneDisj x hx i ((hPB i).mp hi) hik.symm
  refine ⟨d3, ?_, ?_⟩
  · rw [hot, fr.out, ho1, hout0, List.nil_append]
    exact exec_append_some (exec_append_some he1 he2) het
  · refine ⟨by rw [hi3, n2]; exact i1.intfs, ?_, ?_, ?_, ?_⟩
    · intro p hp
      rw [hb3, b2] at hp
      obtain ⟨hp1, hp2⟩ := List.mem_filter.mp hp
      rcases i1.keysFrom p hp1 with ⟨j, hj, h3⟩ | ⟨x, hx, h3⟩ | ⟨j, hj, hjm, h3⟩
      · exfalso
        have : p.1 ∈ (duPending e stR managed).1.binds.map (keyOf e) := List.mem_map.mpr ⟨j, (hPB j).mpr hj, h3.symm⟩
        simp [this] at hp2
      · exact Or.inl ⟨x, hsub x hx, h3⟩
      · right
        refine ⟨e.a.binds.getD j default, ?_, h3, unmanaged_intf e st0 managed hci j hj hjm⟩
        rw [List.getD_eq_getElem?_getD, List.getElem?_eq_getElem hj]
        exact List.getElem_mem hj
    · intro x hx
      obtain ⟨q1, q2⟩ := i1.doneOK x (hcov x hx)
      have hname : stR.aNameOf x.acl = stB.aNameOf x.acl := by unfold St.aNameOf; rw [fr.aName]
      obtain ⟨r1, r2, r3⟩ := f2.ready x.acl (by rw [fr.aReady]; exact q1)
      rw [hname] at r1 r2 r3
      refine ⟨stB.aNameOf x.acl, ?_, ?_⟩
      · rw [hb3, b2, lookup_filter_keepK (fun (k : BKey) => !((duPending e stR managed).1.binds.map (keyOf e)).contains k) (x.dir, x.intf) (hkeepB x (hcov x hx))]; exact q2
      have hkeep : (fun (n : Name) => !(duPending e stR managed).1.acls.contains n) (stB.aNameOf x.acl) = true := by
        simp only [Bool.not_eq_true', List.contains_eq_mem, decide_eq_false_iff_not]
        exact hnotpendA _ r3
      have hl3 : linesOf d3 (stB.aNameOf x.acl) = linesOf d2 (stB.aNameOf x.acl) := by
        unfold linesOf
        rw [hacl3, lookup_filter_keep (fun n => !(duPending e stR managed).1.acls.contains n) _ hkeep]
      rw [hl3]
      refine ⟨r2.1, ?_⟩
      intro p hp
      obtain ⟨hbody', _, hnames⟩ := r2.2 p hp
      refine ⟨hbody', ?_⟩
      intro q hq
      obtain ⟨k1, k2, k3⟩ := hnames q hq
      obtain ⟨j1, j2⟩ := hgrp3 q.1 (hnotpendG q.1 k3)
      refine ⟨?_, ?_⟩
      · unfold hasGroup at k1 ⊢; rw [j2]; exact k1
      · unfold membersOf at k2 ⊢; rw [j1]; exact k2
    · intro hne r; rw [hr3]; exact ro2 hne r
    · intro hnil; rw [hr3, rk2 hnil]; exact i1.routes

/-- **`asa_F1_converges`** with ONE decidable hypothesis, evaluated by the driver on every generated case. -/
theorem k2_converges (a b : Config) (sc : Scripts) (hc : k2Check a b sc = true) :
    ∃ script d', (engine a b sc).map (·.script) = some script ∧ exec (ofConfig a) script = some d' ∧
      Converged ⟨a, b, sc⟩ d' := by
  unfold k2Check at hc
  split at hc
  · exact absurd hc (by decide)
  · rename_i st0 managed hci
    simp only [Bool.and_eq_true, decide_eq_true_eq] at hc
    obtain ⟨⟨⟨⟨⟨⟨⟨c1, c2⟩, c3⟩, c4⟩, c5⟩, c6⟩, c7⟩, c8⟩ := hc
    obtain ⟨d', h1, h2⟩ := k2_core ⟨a, b, sc⟩ (WF.of_check c1) (RefsClosedA.of_check c2) (RefsClosedB.of_check c3)
      st0 managed hci c4 c5 c6 c7 c8
    exact ⟨_, d', engine_eq a b sc st0 managed hci, h1, h2⟩

end NA.F1
