import NA.Model.PanOs
/-
C03, reuse of address-groups (`findGroupOnDevice`, `hasEqualizedGroups`): only a device group
that this plan has neither claimed nor changed and whose (sorted) member list is identical is
taken over; a claimed group is never changed for another target group.  Core Lean only.
-/
namespace NA.PanOs

theorem findGroupOnDeviceFrom_spec (ms : List String) :
    ∀ (l : List AGrp) (k i : Nat) (name : String),
      findGroupOnDeviceFrom ms l k = some (i, name) →
        k ≤ i ∧ ∃ ga, l[i - k]? = some ga ∧ ga.needed = false ∧ ga.g.members = ms ∧ ga.g.name = name ∧
          ∀ j, j < i - k → ∀ g, l[j]? = some g → ¬ (g.needed = false ∧ g.g.members = ms) := by
  intro l
  induction l with
  | nil => intro k i name h; simp [findGroupOnDeviceFrom] at h
  | cons x xs ih =>
    intro k i name h
    simp only [findGroupOnDeviceFrom] at h
    split at h
    · rename_i hx
      simp only [Option.some.injEq, Prod.mk.injEq] at h
      obtain ⟨rfl, rfl⟩ := h
      simp only [Bool.and_eq_true, Bool.not_eq_true', beq_iff_eq] at hx
      refine ⟨Nat.le_refl _, x, by simp, hx.1, hx.2, rfl, ?_⟩
      intro j hj; omega
    · rename_i hx
      obtain ⟨hk, ga, hga, h1, h2, h3, h4⟩ := ih (k + 1) i name h
      refine ⟨by omega, ga, ?_, h1, h2, h3, ?_⟩
      · have : i - k = (i - (k + 1)) + 1 := by omega
        rw [this]; simpa using hga
      · intro j hj g hg
        cases j with
        | zero =>
          simp only [List.getElem?_cons_zero, Option.some.injEq] at hg
          subst hg
          intro hc
          apply hx
          simp [hc.1, hc.2]
        | succ j =>
          simp only [List.getElem?_cons_succ] at hg
          exact h4 j (by omega) g hg

theorem findGroupOnDeviceFrom_none (ms : List String) :
    ∀ (l : List AGrp) (k : Nat), findGroupOnDeviceFrom ms l k = none →
      ∀ g ∈ l, ¬ (g.needed = false ∧ g.g.members = ms) := by
  intro l
  induction l with
  | nil => intro k _ g hg; cases hg
  | cons x xs ih =>
    intro k h g hg
    simp only [findGroupOnDeviceFrom] at h
    split at h
    · cases h
    · rename_i hx
      rcases List.mem_cons.mp hg with rfl | hg
      · intro hc; apply hx; simp [hc.1, hc.2]
      · exact ih (k + 1) h g hg

/-- **`findGroupOnDevice` is sound.**  If it names a device group for the target group with
index `gbi`, that is the first device group which was not marked `needed` (so: neither claimed
for another target group nor changed by this plan) and whose member list is identical to the
target group's; the only change of the planner state is: that device group becomes `needed`
(never removed, never offered again), the target group is no longer transferred and remembers
the device name.  If it names none, no such device group exists and the state is unchanged. -/
theorem findGroupOnDevice_sound (st : St) (gbi : Nat) :
    let ms := (st.bGrp[gbi]?.map (·.g.members)).getD []
    (∃ i ga, st.aGrp[i]? = some ga ∧ ga.needed = false ∧ ga.g.members = ms ∧
        (∀ j, j < i → ∀ g, st.aGrp[j]? = some g → ¬ (g.needed = false ∧ g.g.members = ms)) ∧
        findGroupOnDevice st gbi = (ga.g.name, { st with
          aGrp := modAt st.aGrp i (fun g => { g with needed := true }),
          bGrp := modAt st.bGrp gbi (fun g => { g with needed := false, onDev := ga.g.name }) })) ∨
    ((∀ g ∈ st.aGrp, ¬ (g.needed = false ∧ g.g.members = ms)) ∧ findGroupOnDevice st gbi = ("", st)) := by
  intro ms
  unfold findGroupOnDevice
  cases h : findGroupOnDeviceFrom ms st.aGrp 0 with
  | none =>
    right
    exact ⟨findGroupOnDeviceFrom_none ms _ 0 h, by simp only [ms] at h; simp [h]⟩
  | some p =>
    obtain ⟨i, name⟩ := p
    left
    obtain ⟨_, ga, hga, h1, h2, h3, h4⟩ := findGroupOnDeviceFrom_spec ms _ 0 i name h
    simp only [Nat.sub_zero] at hga h4
    refine ⟨i, ga, hga, h1, h2, h4, ?_⟩
    simp only [ms] at h
    simp [h, h3]

/-- A device group that is already `needed` is never changed again by `hasEqualizedGroups`:
the call leaves the whole planner state (output included) as it is. -/
theorem eqGroups_needed_unchanged (recur : St → List String → List String → MPath → Bool × St)
    (st : St) (gai gbi : Nat) (h : (st.aGrp[gai]?.getD default).needed = true) :
    (eqGroups recur st gai gbi).2 = st := by
  unfold eqGroups
  simp only
  split
  · rfl
  · simp [h]

/-- … and it answers `true` only for the target group the device group was claimed for. -/
theorem eqGroups_needed_true (recur : St → List String → List String → MPath → Bool × St)
    (st : St) (gai gbi : Nat) (h : (st.aGrp[gai]?.getD default).needed = true)
    (ht : (eqGroups recur st gai gbi).1 = true) :
    (st.bGrp[gbi]?.getD default).onDev = (st.aGrp[gai]?.getD default).g.name ∧
      (st.bGrp[gbi]?.getD default).onDev ≠ "" := by
  unfold eqGroups at ht
  simp only at ht
  split at ht
  · rename_i hne
    exact ⟨by simpa using ht, by simpa using hne⟩
  · simp [h] at ht

end NA.PanOs
