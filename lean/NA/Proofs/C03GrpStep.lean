import NA.Proofs.C03GrpBlock
import NA.Proofs.C03RuleBlock
/-
C03, whole-vsys theorems with address-groups, part 6: one step of the planner seen from the
device (`Step`): the requests it appends, split into group-member requests (executed on the
group table) and rule requests (only collected); `hasEqualizedGroups`.  Core Lean only.
-/
namespace NA.PanOs

/-- From planner state `st` / group table `vg` to `st'` / `vg'`; `rcs`: the rule requests appended. -/
structure Step (sh : Shared) (st : St) (vg : Vsys) (st' : St) (vg' : Vsys) (rcs : List Cmd) : Prop where
  ex : ∃ cs, st'.out = st.out ++ cs ∧ cs.filter (fun c => !c.isGrpMem) = rcs ∧
    Runs sh vg (cs.filter Cmd.isGrpMem) vg' ∧
    (∀ c ∈ cs, (c.isGrpMem = true ∧ c.grpTarget ∈ st.aGrp.map (·.g.name)) ∨ c.onRules = true)
  mono : GMono st st'
  rules : vg'.rules = vg.rules
  addrs : vg'.addrs = vg.addrs
  svcs : vg'.svcs = vg.svcs
  sgroups : vg'.sgroups = vg.sgroups
  name : vg'.name = vg.name
  gnames : vg'.groups.map (·.name) = vg.groups.map (·.name)

theorem Step.of_silent {sh : Shared} {st st' : St} (vg : Vsys) (ho : st'.out = st.out) (hm : GMono st st') :
    Step sh st vg st' vg [] :=
  ⟨⟨[], by simp [ho], rfl, Runs.nil sh vg, fun _ h => by cases h⟩, hm, rfl, rfl, rfl, rfl, rfl, rfl⟩

theorem Step.refl (sh : Shared) (st : St) (vg : Vsys) : Step sh st vg st vg [] :=
  Step.of_silent vg rfl (GMono.refl st)

theorem Step.trans {sh : Shared} {s1 s2 s3 : St} {v1 v2 v3 : Vsys} {r1 r2 : List Cmd}
    (h₁ : Step sh s1 v1 s2 v2 r1) (h₂ : Step sh s2 v2 s3 v3 r2) : Step sh s1 v1 s3 v3 (r1 ++ r2) := by
  obtain ⟨c1, o1, f1, g1, k1⟩ := h₁.ex
  obtain ⟨c2, o2, f2, g2, k2⟩ := h₂.ex
  refine ⟨⟨c1 ++ c2, by rw [o2, o1, List.append_assoc], by rw [List.filter_append, f1, f2],
    by rw [List.filter_append]; exact g1.append g2, ?_⟩, h₁.mono.trans h₂.mono, h₂.rules.trans h₁.rules,
    h₂.addrs.trans h₁.addrs, h₂.svcs.trans h₁.svcs, h₂.sgroups.trans h₁.sgroups, h₂.name.trans h₁.name,
    h₂.gnames.trans h₁.gnames⟩
  intro c hc
  rcases List.mem_append.mp hc with h | h
  · exact k1 c h
  · rw [← h₁.mono.anames]; exact k2 c h

/-- Rule requests are appended; nothing else happens. -/
theorem Step.ruleCmds (sh : Shared) (st : St) (vg : Vsys) (cs : List Cmd) (h : ∀ c ∈ cs, c.onRules = true) :
    Step sh st vg (st.emitAll cs) vg cs := by
  have hf1 : cs.filter (fun c => !c.isGrpMem) = cs := by
    rw [List.filter_eq_self]
    intro c hc
    simp [onRules_not_grpMem (h c hc)]
  have hf2 : cs.filter Cmd.isGrpMem = [] := by
    rw [List.filter_eq_nil_iff]
    intro c hc
    simp [onRules_not_grpMem (h c hc)]
  exact ⟨⟨cs, rfl, hf1, by rw [hf2]; exact Runs.nil sh vg, fun c hc => Or.inr (h c hc)⟩, GMono.of_out st cs,
    rfl, rfl, rfl, rfl, rfl, rfl⟩

/-! ### `hasEqualizedGroups` -/

theorem onGroup_listCmds (g : String) (la lb : List String) (rs : List Range) :
    OnGroup g (listCmds (.group g) la lb rs) := by
  intro c hc
  unfold listCmds at hc
  rcases List.mem_append.mp hc with h | h
  · obtain ⟨m, _, rfl⟩ := List.mem_map.mp h
    exact Or.inl ⟨m, rfl⟩
  · split at h
    · cases h
    · simp only [List.mem_cons, List.not_mem_nil, or_false] at h
      exact Or.inr ⟨_, h⟩

theorem identity_not_replace (diff : Differ) (hid : IdentityDiffer diff) (st : St) (l : List String)
    (hA : ∀ x ∈ l, st.aGrpIdx x = none) (hB : ∀ y ∈ l, st.bGrpIdx y = none) :
    replaceInstead l.length (deletedCount (diff l.length l.length
      (fun i j => memberEq st (l.getD i "") (l.getD j "")))) = false := by
  have hd : diff l.length l.length (fun i j => memberEq st (l.getD i "") (l.getD j "")) =
      [⟨0, l.length, 0, l.length⟩] := by
    apply hid
    intro i hi
    unfold memberEq
    rw [hA _ (getD_mem hi), hB _ (getD_mem hi)]
    simp
  rw [hd, (identity_listCmds (.group "") l).2]
  simp [replaceInstead]

/-- **`hasEqualizedGroups`** for device group `gai` and target group `gbi`. -/
theorem eqGroups_sim {sh : Shared} {Ref : String → Prop} (diff : Differ) (hd : GoodDiffer diff)
    (hid : IdentityDiffer diff) (fuel : Nat) (st : St) (vg : Vsys) (gai gbi : Nat) (ga : AGrp) (gb : BGrp)
    (hI : GInv Ref st) (hS : SimG sh Ref st vg) (hga : st.aGrp[gai]? = some ga) (hgb : st.bGrp[gbi]? = some gb)
    (hrefgb : Ref gb.g.name) :
    ∃ b st' vg', eqGroups (hasEqLists diff (fuel + 1)) st gai gbi = (b, st') ∧ Step sh st vg st' vg' [] ∧
      GInv Ref st' ∧ SimG sh Ref st' vg' ∧
      (b = true → ∃ gb', st'.bGrp[gbi]? = some gb' ∧ gb'.onDev = ga.g.name) ∧
      (b = false → st' = st ∧ vg' = vg ∧
        ((gb.onDev ≠ "" ∧ gb.onDev ≠ ga.g.name) ∨
         (gb.onDev = "" ∧ (ga.needed = true ∨ ga.g.members ≠ gb.g.members)))) := by
  have hgamem : ga ∈ st.aGrp := List.mem_of_getElem? hga
  have hgbmem : gb ∈ st.bGrp := List.mem_of_getElem? hgb
  unfold eqGroups
  simp only [hga, hgb, Option.getD_some]
  by_cases hon : gb.onDev = ""
  · have hc1 : (gb.onDev != "") = false := by simp [hon]
    simp only [hc1, Bool.false_eq_true, if_false]
    cases hn : ga.needed with
    | true =>
      simp only [if_true]
      exact ⟨false, st, vg, rfl, Step.refl sh st vg, hI, hS, (fun h => by cases h),
        fun _ => ⟨rfl, rfl, Or.inr ⟨hon, Or.inl (by first | rfl | trivial)⟩⟩⟩
    | false =>
      simp only [Bool.false_eq_true, if_false]
      have hA := hI.aplain ga hgamem
      have hB := hI.bplain gb hgbmem
      obtain ⟨hv, _⟩ := hd ga.g.members.length gb.g.members.length
        (fun i j => memberEq st (ga.g.members.getD i "") (gb.g.members.getD j ""))
      rw [hasEqLists_plain diff fuel st ga.g.members gb.g.members (.group ga.g.name) hA hB (validScript_bounds hv)]
      cases hrep : replaceInstead ga.g.members.length (deletedCount (diff ga.g.members.length gb.g.members.length
          (fun i j => memberEq st (ga.g.members.getD i "") (gb.g.members.getD j ""))))
      · -- incremental: the group is changed in place and claimed
        simp only [Bool.false_eq_true, if_false, if_true]
        have hvf := validScript_incremental hv hrep
        obtain ⟨hrun, hperm⟩ := members_incremental ga.g.members gb.g.members _
          (memberEq_plain st ga.g.members gb.g.members hA hB) _ hvf (hI.amemnd ga hgamem) (hI.bmemnd gb hgbmem)
        obtain ⟨ms, hms, hsame, _⟩ := hS.U ga hgamem hn
        obtain ⟨r', hr', hsm⟩ := runMem_sameMem _ ga.g.members ms _ hsame.symm hrun
        generalize hcs : listCmds (.group ga.g.name) ga.g.members gb.g.members (diff ga.g.members.length
          gb.g.members.length (fun i j => memberEq st (ga.g.members.getD i "") (gb.g.members.getD j ""))) = cs
        have hon' : OnGroup ga.g.name cs := by rw [← hcs]; exact onGroup_listCmds _ _ _ _
        obtain ⟨vg', hw, hl', hoth, t1, t2, t3, t4, t5, t6⟩ := runs_onGroup sh ga.g.name cs vg ms r' hon' hms
          (by rw [← hcs, listCmds_memOf]; exact hr')
          (by
            intro c hc ms' he m hm
            subst he
            rw [← hcs] at hc
            unfold listCmds at hc
            rcases List.mem_append.mp hc with h | h
            · obtain ⟨x, _, hx⟩ := List.mem_map.mp h
              simp [MPath.delCmd] at hx
            · split at h
              · cases h
              · simp only [List.mem_cons, List.not_mem_nil, or_false, MPath.addCmd, Cmd.setGrp.injEq] at h
                rw [h.2] at hm
                exact hS.mems gb hgbmem hrefgb m (insertedOf_mem gb.g.members hvf hm))
        have hgrp : ∀ c ∈ cs, c.isGrpMem = true ∧ c.grpTarget = ga.g.name := by
          intro c hc
          rcases hon' c hc with ⟨m, rfl⟩ | ⟨ms', rfl⟩ <;> exact ⟨rfl, rfl⟩
        have hf1 : cs.filter (fun c => !c.isGrpMem) = [] := by
          rw [List.filter_eq_nil_iff]
          intro c hc
          simp [(hgrp c hc).1]
        have hf2 : cs.filter Cmd.isGrpMem = cs := by
          rw [List.filter_eq_self]
          intro c hc
          exact (hgrp c hc).1
        have hm1 : GMono st (st.emitAll cs) := GMono.of_out st cs
        have hm2 : GMono (st.emitAll cs) (claimSt (st.emitAll cs) gai gbi ga.g.name) :=
          GMono.claim _ gai gbi ga.g.name (fun gb' hb' => by
            have hb'' : st.bGrp[gbi]? = some gb' := hb'
            rw [hgb] at hb''; cases hb''; exact hon)
        -- the invariants do not look at the output
        have hI1 : GInv Ref (st.emitAll cs) := ⟨hI.anodup, hI.bnodup, hI.ane, hI.fresh, hI.aplain, hI.bplain,
          hI.amemnd, hI.bmemnd, hI.c0, hI.c1, hI.c2, hI.c3, hI.bne, hI.c4, hI.c5⟩
        have hS1 : SimG sh Ref (st.emitAll cs) vg := ⟨hS.U, hS.K, hS.anames, hS.mems⟩
        refine ⟨true, claimSt (st.emitAll cs) gai gbi ga.g.name, vg', rfl, ?_, hI1.claim gai gbi ga gb hga hgb hon hrefgb,
          hS1.claim hI1 gai gbi ga gb hga hgb hn t6 (fun m => addrRefOk_congr sh t2 t6 m) hoth
            ⟨r', hl', hsm.symm.trans (SameMem.of_perm hperm)⟩, ?_, (fun h => by cases h)⟩
        · refine ⟨⟨cs, rfl, hf1, by rw [hf2]; exact hw, ?_⟩, hm1.trans hm2, t1, t2, t3, t4, t5, t6⟩
          intro c hc
          exact Or.inl ⟨(hgrp c hc).1, by rw [(hgrp c hc).2]; exact List.mem_map_of_mem hgamem⟩
        · intro _
          exact ⟨{ gb with needed := false, onDev := ga.g.name }, by simp [claimSt, St.emitAll, modAt_getElem?, hgb], rfl⟩
      · -- too different: nothing happens here
        simp only [if_true, Bool.false_eq_true, if_false]
        refine ⟨false, st, vg, rfl, Step.refl sh st vg, hI, hS, (fun h => by cases h),
          fun _ => ⟨rfl, rfl, Or.inr ⟨hon, Or.inr ?_⟩⟩⟩
        intro heq
        rw [← heq] at hrep
        rw [identity_not_replace diff hid st ga.g.members hA (by rw [heq]; exact hB)] at hrep
        cases hrep
  · have hc1 : (gb.onDev != "") = true := by simpa using hon
    simp only [hc1, if_true]
    by_cases he : gb.onDev = ga.g.name
    · refine ⟨true, st, vg, by simp [he], Step.refl sh st vg, hI, hS, fun _ => ⟨gb, hgb, he⟩, (fun h => by cases h)⟩
    · have : (gb.onDev == ga.g.name) = false := by simpa using he
      exact ⟨false, st, vg, by simp [this], Step.refl sh st vg, hI, hS, (fun h => by cases h),
        fun _ => ⟨rfl, rfl, Or.inl ⟨hon, he⟩⟩⟩

end NA.PanOs
