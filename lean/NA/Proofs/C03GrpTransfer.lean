import NA.Proofs.C03GrpPlan
/-
C03, whole-vsys theorems with address-groups, part 11: the transfer phase with address-groups:
addresses, then the groups that are transferred under their new names, then services.
Core Lean only.
-/
namespace NA.PanOs

/-- The address flags of a planner state, by name, for the names with property `R`. -/
structure AddrSumR (R : String → Prop) (a b : Vsys) (st : St) : Prop where
  bdefs : st.bAddr.map (·.o) = b.addrs
  adefs : st.aAddr.map (·.o) = a.addrs
  editHas : ∀ ob ∈ st.bAddr, ob.edit = true → ob.o.name ∈ a.addrs.map (·.name)
  setLacks : ∀ ob ∈ st.bAddr, ob.needed = true → ob.o.name ∉ a.addrs.map (·.name)
  covered : ∀ x, R x → x ∈ b.addrs.map (·.name) → ∃ ob ∈ st.bAddr, ob.o.name = x ∧
    ((x ∈ a.addrs.map (·.name) ∧ (lookupObj a.addrs x = some ob.o.val ∨ ob.edit = true)) ∨
      (x ∉ a.addrs.map (·.name) ∧ ob.needed = true))
  marked : ∀ x, R x → x ∈ b.addrs.map (·.name) → ∀ oa ∈ st.aAddr, oa.o.name = x → oa.needed = true

theorem addrSumR_of (R : String → Prop) {a b : Vsys} {st : St}
    (hb : st.bAddr.map (·.o) = b.addrs) (hadef : st.aAddr.map (·.o) = a.addrs) (hs : FlagSound st)
    (hc : ∀ x, R x → x ∈ b.addrs.map (·.name) → Covered st x ∧ Marked st x)
    (ha : (a.addrs.map (·.name)).Nodup) : AddrSumR R a b st := by
  have hbn := map_o_name hb
  have han := map_o_name_a hadef
  refine ⟨hb, hadef, ?_, ?_, ?_, ?_⟩
  · intro ob hob he
    obtain ⟨bi, hbi⟩ := List.getElem?_of_mem hob
    obtain ⟨ai, oa, q1, _, _⟩ := (hs bi ob hbi).2 he
    have := lastIdx_spec q1
    rw [han] at this
    exact List.mem_of_getElem? this
  · intro ob hob hn
    obtain ⟨bi, hbi⟩ := List.getElem?_of_mem hob
    have := (hs bi ob hbi).1 hn
    unfold St.aAddrIdx at this
    rw [han] at this
    exact lastIdx_none_not_mem this
  · intro x hrx hxb
    have hsome : (st.bAddrIdx x).isSome := by
      unfold St.bAddrIdx; rw [hbn]; exact lastIdx_isSome_of_mem hxb
    cases hbi : st.bAddrIdx x with
    | none => simp [hbi] at hsome
    | some bi =>
      obtain ⟨ob, hob, hcase⟩ := (hc x hrx hxb).1 bi hbi
      have hname : ob.o.name = x := by
        have := lastIdx_spec hbi
        rw [List.getElem?_map, hob] at this
        simpa using this
      refine ⟨ob, List.mem_of_getElem? hob, hname, ?_⟩
      rcases hcase with ⟨ai, oa, q1, q2, q3⟩ | ⟨q1, q2⟩
      · left
        have hn := lastIdx_spec q1
        have hoaname : oa.o.name = x := by
          rw [List.getElem?_map, q2] at hn
          simpa using hn
        have hmem : oa.o ∈ a.addrs := by
          rw [← hadef]; exact List.mem_map_of_mem (List.mem_of_getElem? q2)
        refine ⟨by rw [← hoaname]; exact List.mem_map_of_mem hmem, ?_⟩
        rcases q3 with q3 | q3
        · left
          rw [← hoaname, lookupObj_of_mem ha hmem, q3]
        · exact Or.inr q3
      · right
        unfold St.aAddrIdx at q1
        rw [han] at q1
        exact ⟨lastIdx_none_not_mem q1, q2⟩
  · intro x hrx hxb oa hoa hn
    obtain ⟨i, hi⟩ := List.getElem?_of_mem hoa
    have hix : (st.aAddr.map (·.o.name))[i]? = some x := by
      rw [List.getElem?_map, hi]; simp [hn]
    have hsome : (st.aAddrIdx x).isSome := by
      unfold St.aAddrIdx; exact lastIdx_isSome_of_mem (List.mem_of_getElem? hix)
    cases hai : st.aAddrIdx x with
    | none => simp [hai] at hsome
    | some ai =>
      have haix := lastIdx_spec hai
      have : i = ai := nodup_getElem?_inj (by rw [han]; exact ha) hix haix
      subst this
      obtain ⟨o', ho', hn'⟩ := (hc x hrx hxb).2 i hai
      rw [hi] at ho'
      cases ho'
      exact hn'

/-! ### Creating the transferred groups -/

def grpTransfer (gs : List BGrp) : List Cmd :=
  gs.filterMap (fun g => if g.needed then some (.setGrp g.newName g.g.members) else none)

def newGroups (gs : List BGrp) : List Grp :=
  (gs.filter (·.needed)).map (fun g => ⟨g.newName, g.g.members⟩)

theorem mergeMembers_nil (ms : List String) (h : ms.Nodup) : mergeMembers [] ms = ms := by
  unfold mergeMembers
  suffices hs : ∀ (acc ms : List String), (acc ++ ms).Nodup →
      ms.foldl (fun acc m => if acc.contains m then acc else acc ++ [m]) acc = acc ++ ms by
    simpa using hs [] ms (by simpa using h)
  intro acc ms
  induction ms generalizing acc with
  | nil => intro _; simp
  | cons m ms ih =>
    intro hnd
    simp only [List.foldl_cons]
    have hnot : acc.contains m = false := by
      have : m ∉ acc := by
        intro hm
        have := (List.nodup_append.mp hnd).2.2 m hm m (by simp)
        exact this rfl
      simpa using this
    simp only [hnot, Bool.false_eq_true, if_false]
    rw [ih (acc ++ [m]) (by simpa [List.append_assoc] using hnd)]
    simp [List.append_assoc]

/-- **The transferred groups are created**, one after the other, each with its member list. -/
theorem runs_grpTransfer (sh : Shared) : ∀ (gs : List BGrp) (v : Vsys),
    ((gs.filter (·.needed)).map (·.newName)).Nodup →
    (∀ g ∈ gs, g.needed = true → g.newName ∉ v.groups.map (·.name)) →
    (∀ g ∈ gs, g.needed = true → g.g.members.Nodup ∧ ∀ m ∈ g.g.members, v.addrs.any (·.name == m) = true) →
    ∃ w, Runs sh v (grpTransfer gs) w ∧ w.rules = v.rules ∧ w.addrs = v.addrs ∧ w.svcs = v.svcs ∧
      w.sgroups = v.sgroups ∧ w.name = v.name ∧ w.groups = v.groups ++ newGroups gs := by
  intro gs
  induction gs with
  | nil => intro v _ _ _; exact ⟨v, Runs.nil sh v, rfl, rfl, rfl, rfl, rfl, by simp [newGroups]⟩
  | cons g gs ih =>
    intro v hnd hfresh hmem
    cases hn : g.needed with
    | false =>
      have e1 : grpTransfer (g :: gs) = grpTransfer gs := by simp [grpTransfer, hn]
      have e2 : newGroups (g :: gs) = newGroups gs := by simp [newGroups, hn]
      rw [e1, e2]
      exact ih v (by simpa [hn] using hnd) (fun g' hg' => hfresh g' (List.mem_cons_of_mem _ hg'))
        (fun g' hg' => hmem g' (List.mem_cons_of_mem _ hg'))
    | true =>
      have e1 : grpTransfer (g :: gs) = .setGrp g.newName g.g.members :: grpTransfer gs := by
        simp [grpTransfer, hn]
      have e2 : newGroups (g :: gs) = ⟨g.newName, g.g.members⟩ :: newGroups gs := by simp [newGroups, hn]
      obtain ⟨hmnd, hmex⟩ := hmem g (by simp) hn
      have hnot : v.groups.any (·.name == g.newName) = false := by
        have := hfresh g (by simp) hn
        rw [Bool.eq_false_iff]
        intro hany
        simp only [List.any_eq_true, beq_iff_eq] at hany
        obtain ⟨x, hx, e⟩ := hany
        exact this (e ▸ List.mem_map_of_mem hx)
      have hall : g.g.members.all (addrRefOk sh v) = true := by
        rw [List.all_eq_true]
        intro m hm
        simp [addrRefOk, hmex m hm]
      have hexec : exec sh v (.setGrp g.newName g.g.members) =
          .ok { v with groups := v.groups ++ [⟨g.newName, g.g.members⟩] } := by
        simp only [exec, hall, Bool.not_true, Bool.false_eq_true, if_false, hnot, mergeMembers_nil _ hmnd]
      have hnd' : ((gs.filter (·.needed)).map (·.newName)).Nodup ∧ g.newName ∉ (gs.filter (·.needed)).map (·.newName) := by
        simp only [List.filter_cons, hn, if_true, List.map_cons, List.nodup_cons] at hnd
        exact ⟨hnd.2, hnd.1⟩
      obtain ⟨w, hw, r1, r2, r3, r4, r5, r6⟩ := ih { v with groups := v.groups ++ [⟨g.newName, g.g.members⟩] } hnd'.1
        (by
          intro g' hg' hn'
          simp only [List.map_append, List.map_cons, List.map_nil, List.mem_append, List.mem_singleton, not_or]
          refine ⟨hfresh g' (List.mem_cons_of_mem _ hg') hn', ?_⟩
          intro e
          apply hnd'.2
          rw [← e]
          exact List.mem_map_of_mem (List.mem_filter.mpr ⟨hg', by simpa using hn'⟩))
        (fun g' hg' hn' => hmem g' (List.mem_cons_of_mem _ hg') hn')
      refine ⟨w, by rw [e1]; exact Runs.cons hexec hw, r1, r2, r3, r4, r5, ?_⟩
      rw [r6, e2]
      simp [List.append_assoc]

/-! ### Services (no service-groups): the summary from the flags -/

theorem svcSummary_direct {a b : Vsys} {st : St}
    (hb : st.bSvc.map (·.o) = b.svcs) (hadef : st.aSvc.map (·.o) = a.svcs) (hs : SFlagSound st)
    (hc : ∀ x, RefSvc b x → x ∈ b.svcs.map (·.name) → SCovered st x ∧ SMarked st x)
    (ha : (a.svcs.map (·.name)).Nodup) : SvcSummary a b st := by
  have hbn := map_o_name hb
  have han := map_o_name_a hadef
  refine ⟨hb, hadef, ?_, ?_, ?_, ?_⟩
  · intro ob hob he
    obtain ⟨bi, hbi⟩ := List.getElem?_of_mem hob
    obtain ⟨ai, oa, q1, _, _⟩ := (hs bi ob hbi).2 he
    have := lastIdx_spec q1
    rw [han] at this
    exact List.mem_of_getElem? this
  · intro ob hob hn
    obtain ⟨bi, hbi⟩ := List.getElem?_of_mem hob
    have := (hs bi ob hbi).1 hn
    unfold St.aSvcIdx at this
    rw [han] at this
    exact lastIdx_none_not_mem this
  · intro x hrx hxb
    have hsome : (st.bSvcIdx x).isSome := by
      unfold St.bSvcIdx; rw [hbn]; exact lastIdx_isSome_of_mem hxb
    cases hbi : st.bSvcIdx x with
    | none => simp [hbi] at hsome
    | some bi =>
      obtain ⟨ob, hob, hcase⟩ := (hc x hrx hxb).1 bi hbi
      have hname : ob.o.name = x := by
        have := lastIdx_spec hbi
        rw [List.getElem?_map, hob] at this
        simpa using this
      refine ⟨ob, List.mem_of_getElem? hob, hname, ?_⟩
      rcases hcase with ⟨ai, oa, q1, q2, q3⟩ | ⟨q1, q2⟩
      · left
        have hn := lastIdx_spec q1
        have hoaname : oa.o.name = x := by
          rw [List.getElem?_map, q2] at hn
          simpa using hn
        have hmem : oa.o ∈ a.svcs := by
          rw [← hadef]; exact List.mem_map_of_mem (List.mem_of_getElem? q2)
        refine ⟨by rw [← hoaname]; exact List.mem_map_of_mem hmem, ?_⟩
        rcases q3 with q3 | q3
        · left
          rw [← hoaname, lookupObj_of_mem ha hmem, q3]
        · exact Or.inr q3
      · right
        unfold St.aSvcIdx at q1
        rw [han] at q1
        exact ⟨lastIdx_none_not_mem q1, q2⟩
  · intro x hrx hxb oa hoa hn
    obtain ⟨i, hi⟩ := List.getElem?_of_mem hoa
    have hix : (st.aSvc.map (·.o.name))[i]? = some x := by
      rw [List.getElem?_map, hi]; simp [hn]
    have hsome : (st.aSvcIdx x).isSome := by
      unfold St.aSvcIdx; exact lastIdx_isSome_of_mem (List.mem_of_getElem? hix)
    cases hai : st.aSvcIdx x with
    | none => simp [hai] at hsome
    | some ai =>
      have haix := lastIdx_spec hai
      have : i = ai := nodup_getElem?_inj (by rw [han]; exact ha) hix haix
      subst this
      obtain ⟨o', ho', hn'⟩ := (hc x hrx hxb).2 i hai
      rw [hi] at ho'
      cases ho'
      exact hn'

/-! ### The whole transfer phase -/

theorem transferCmds_grp (st : St) (hbSG : st.bSG = []) :
    transferCmds st = addrTransfer st.bAddr ++ grpTransfer st.bGrp ++ svcTransfer st.bSvc := by
  simp [transferCmds, addrTransfer, svcTransfer, grpTransfer, hbSG]

/-- What the rule phase finds on the device after the transfer phase (with address-groups). -/
structure AfterTransferG (R : String → Prop) (a b : Vsys) (st : St) (a1 : Vsys) : Prop where
  rules : a1.rules = a.rules
  groups : a1.groups = a.groups ++ newGroups st.bGrp
  sgroups : a1.sgroups = a.sgroups
  name : a1.name = a.name
  addrRef : ∀ x, R x → x ∈ b.addrs.map (·.name) → lookupObj a1.addrs x = lookupObj b.addrs x
  addrOther : ∀ n, n ∉ b.addrs.map (·.name) → lookupObj a1.addrs n = lookupObj a.addrs n
  addrNames : ∀ n ∈ a1.addrs.map (·.name), n ∈ a.addrs.map (·.name) ∨ ∃ ob ∈ st.bAddr, ob.flagged = true ∧ ob.o.name = n
  addrKeep : ∀ n, n ∈ a.addrs.map (·.name) → n ∈ a1.addrs.map (·.name)
  svcRef : ∀ x, RefSvc b x → x ∈ b.svcs.map (·.name) → lookupObj a1.svcs x = lookupObj b.svcs x
  svcOther : ∀ n, n ∉ b.svcs.map (·.name) → lookupObj a1.svcs n = lookupObj a.svcs n
  svcNames : ∀ n ∈ a1.svcs.map (·.name), n ∈ a.svcs.map (·.name) ∨ ∃ ob ∈ st.bSvc, ob.flagged = true ∧ ob.o.name = n
  svcKeep : ∀ n, n ∈ a.svcs.map (·.name) → n ∈ a1.svcs.map (·.name)

/-- **Transfer phase with address-groups.** -/
theorem runs_transferG (sh : Shared) (R : String → Prop) (a b : Vsys) (st : St)
    (hA : AddrSumR R a b st) (hS : SvcSummary a b st) (hbSG : st.bSG = [])
    (hbn : (b.addrs.map (·.name)).Nodup) (hsn : (b.svcs.map (·.name)).Nodup)
    (hgn : ((st.bGrp.filter (·.needed)).map (·.newName)).Nodup)
    (hgf : ∀ g ∈ st.bGrp, g.needed = true → g.newName ∉ a.groups.map (·.name))
    (hgm : ∀ g ∈ st.bGrp, g.needed = true → g.g.members.Nodup ∧
      ∀ m ∈ g.g.members, R m ∧ m ∈ b.addrs.map (·.name)) :
    ∃ a1, Runs sh a (transferCmds st) a1 ∧ AfterTransferG R a b st a1 := by
  rw [transferCmds_grp st hbSG]
  have hbnames := map_o_name hA.bdefs
  have hsnames := map_o_name hS.bdefs
  obtain ⟨v1, hv1, r1, r2, r3, r4, r5, p1, p2, p3⟩ := runs_addrTransfer sh st.bAddr a (by rw [hbnames]; exact hbn)
    hA.editHas (fun o ho _ hn => hA.setLacks o ho hn)
  have bname_mem : ∀ ob ∈ st.bAddr, ob.o.name ∈ b.addrs.map (·.name) := by
    intro ob hob; rw [← hbnames]; exact List.mem_map_of_mem hob
  have sname_mem : ∀ ob ∈ st.bSvc, ob.o.name ∈ b.svcs.map (·.name) := by
    intro ob hob; rw [← hsnames]; exact List.mem_map_of_mem hob
  have buniq : ∀ ob ∈ st.bAddr, ∀ ob' ∈ st.bAddr, ob'.o.name = ob.o.name → ob' = ob := by
    intro ob hob ob' hob' hn
    obtain ⟨i, hi⟩ := List.getElem?_of_mem hob
    obtain ⟨j, hj⟩ := List.getElem?_of_mem hob'
    have h1 : (st.bAddr.map (·.o.name))[i]? = some ob.o.name := by rw [List.getElem?_map, hi]; rfl
    have h2 : (st.bAddr.map (·.o.name))[j]? = some ob.o.name := by rw [List.getElem?_map, hj]; simp [hn]
    have := nodup_getElem?_inj (by rw [hbnames]; exact hbn) h1 h2
    subst this
    rw [hi] at hj
    exact (Option.some.inj hj).symm
  have suniq : ∀ ob ∈ st.bSvc, ∀ ob' ∈ st.bSvc, ob'.o.name = ob.o.name → ob' = ob := by
    intro ob hob ob' hob' hn
    obtain ⟨i, hi⟩ := List.getElem?_of_mem hob
    obtain ⟨j, hj⟩ := List.getElem?_of_mem hob'
    have h1 : (st.bSvc.map (·.o.name))[i]? = some ob.o.name := by rw [List.getElem?_map, hi]; rfl
    have h2 : (st.bSvc.map (·.o.name))[j]? = some ob.o.name := by rw [List.getElem?_map, hj]; simp [hn]
    have := nodup_getElem?_inj (by rw [hsnames]; exact hsn) h1 h2
    subst this
    rw [hi] at hj
    exact (Option.some.inj hj).symm
  -- addresses the rules use, after the address transfer
  have addrRef1 : ∀ x, R x → x ∈ b.addrs.map (·.name) → lookupObj v1.addrs x = lookupObj b.addrs x := by
    intro x hx hxb
    obtain ⟨ob, hob, hname, hcase⟩ := hA.covered x hx hxb
    have hbval : lookupObj b.addrs x = some ob.o.val := by
      rw [← hname]
      exact lookupObj_of_mem hbn (by rw [← hA.bdefs]; exact List.mem_map_of_mem hob)
    rw [hbval]
    by_cases hf : ob.flagged = true
    · rw [← hname]; exact p1 ob hob hf
    · have hf' : ob.edit = false ∧ ob.needed = false := by
        simpa [BObj.flagged] using hf
      rcases hcase with ⟨_, hv | he⟩ | ⟨_, hn⟩
      · rw [p2 x (fun ob' hob' hf'' hn' => by
          have := buniq ob hob ob' hob' (hn'.trans hname.symm)
          subst this
          exact hf hf'')]
        exact hv
      · rw [hf'.1] at he; cases he
      · rw [hf'.2] at hn; cases hn
  -- the groups
  obtain ⟨v2, hv2, g1, g2, g3, g4, g5, g6⟩ := runs_grpTransfer sh st.bGrp v1 hgn
    (fun g hg hn => by rw [r3]; exact hgf g hg hn)
    (fun g hg hn => by
      obtain ⟨hnd, hm⟩ := hgm g hg hn
      refine ⟨hnd, fun m hmm => ?_⟩
      obtain ⟨hr, hb⟩ := hm m hmm
      have hl := addrRef1 m hr hb
      obtain ⟨val, hval⟩ := lookupObj_isSome_of_mem hb
      rw [hval] at hl
      exact lookupObj_some_any hl)
  -- the services
  obtain ⟨v3, hv3, t1, t2, t3, t4, t5, q1, q2, q3⟩ := runs_svcTransfer sh st.bSvc v2 (by rw [hsnames]; exact hsn)
    (fun o ho he => by rw [g3, r2]; exact hS.editHas o ho he)
    (fun o ho _ hn => by rw [g3, r2]; exact hS.setLacks o ho hn)
  refine ⟨v3, (hv1.append hv2).append hv3, ⟨t1.trans (g1.trans r1), by rw [t3, g6, r3], t4.trans (g4.trans r4),
    t5.trans (g5.trans r5), ?_, ?_, ?_, ?_, ?_, ?_, ?_, ?_⟩⟩
  · intro x hx hxb
    rw [t2, g2]; exact addrRef1 x hx hxb
  · intro n hn
    rw [t2, g2]
    exact p2 n (fun ob hob _ e => hn (e ▸ bname_mem ob hob))
  · intro n hn
    rw [t2, g2] at hn
    exact (p3 n).mp hn
  · intro n hn
    rw [t2, g2]
    exact (p3 n).mpr (Or.inl hn)
  · intro x hx hxb
    obtain ⟨ob, hob, hname, hcase⟩ := hS.covered x hx hxb
    have hbval : lookupObj b.svcs x = some ob.o.val := by
      rw [← hname]
      exact lookupObj_of_mem hsn (by rw [← hS.bdefs]; exact List.mem_map_of_mem hob)
    rw [hbval]
    by_cases hf : ob.flagged = true
    · rw [← hname]; exact q1 ob hob hf
    · have hf' : ob.edit = false ∧ ob.needed = false := by
        simpa [BObj.flagged] using hf
      rcases hcase with ⟨_, hv | he⟩ | ⟨_, hn⟩
      · rw [q2 x (fun ob' hob' hf'' hn' => by
          have := suniq ob hob ob' hob' (hn'.trans hname.symm)
          subst this
          exact hf hf''), g3, r2]
        exact hv
      · rw [hf'.1] at he; cases he
      · rw [hf'.2] at hn; cases hn
  · intro n hn
    rw [q2 n (fun ob hob _ e => hn (e ▸ sname_mem ob hob)), g3, r2]
  · intro n hn
    rcases (q3 n).mp hn with h | h
    · rw [g3, r2] at h; exact Or.inl h
    · exact Or.inr h
  · intro n hn
    exact (q3 n).mpr (Or.inl (by rw [g3, r2]; exact hn))

end NA.PanOs
