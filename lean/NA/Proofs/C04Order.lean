import NA.Proofs.C04Resume
/-!
Helper lemmas for C04 (idempotence): `sortRules` is a sort by a linear order on rule KEYS
(attributes, service, and for source / destination either the text or the sorted address list of
the group it names), so two rule lists with the same multiset of keys sort to the same sequence
of keys; sorted duplicate-free address lists with the same members are equal.
-/
namespace NA.Nsx

open Std

/-! ### Comparators pulled back along a projection -/

theorem orientedCmp_comap {α β : Type} (cmp : β → β → Ordering) [OrientedCmp cmp] (f : α → β) :
    OrientedCmp (fun a b => cmp (f a) (f b)) := ⟨OrientedCmp.eq_swap⟩

theorem transCmp_comap {α β : Type} (cmp : β → β → Ordering) [TransCmp cmp] (f : α → β) :
    TransCmp (fun a b => cmp (f a) (f b)) :=
  @TransCmp.mk _ _ (orientedCmp_comap cmp f) (fun h1 h2 => TransCmp.isLE_trans h1 h2)

/-! ### Insertion sort under a transitive, total comparator -/

def leOf {α : Type} (cmp : α → α → Ordering) (a b : α) : Bool := cmp a b != .gt

theorem leOf_isLE {α : Type} (cmp : α → α → Ordering) (a b : α) : leOf cmp a b = (cmp a b).isLE := by
  unfold leOf; cases cmp a b <;> rfl

theorem leOf_total {α : Type} (cmp : α → α → Ordering) [OrientedCmp cmp] (a b : α) (h : leOf cmp a b = false) :
    leOf cmp b a = true := by
  rw [leOf_isLE] at *
  have := OrientedCmp.eq_swap (cmp := cmp) (a := b) (b := a)
  rw [this]
  cases hc : cmp a b <;> simp_all [Ordering.swap, Ordering.isLE]

theorem mem_insertBy {α : Type} (le : α → α → Bool) (x y : α) (l : List α) :
    y ∈ insertBy le x l ↔ y = x ∨ y ∈ l := by
  rw [(insertBy_perm le x l).mem_iff]; simp

theorem pairwise_insertBy {α : Type} (cmp : α → α → Ordering) [TransCmp cmp] (x : α) (l : List α)
    (h : l.Pairwise (fun a b => leOf cmp a b = true)) :
    (insertBy (leOf cmp) x l).Pairwise (fun a b => leOf cmp a b = true) := by
  induction l with
  | nil => simp [insertBy]
  | cons y ys ih =>
    obtain ⟨hy, hys⟩ := List.pairwise_cons.mp h
    simp only [insertBy]
    by_cases hxy : leOf cmp x y = true
    · simp only [hxy, if_true]
      refine List.pairwise_cons.mpr ⟨?_, h⟩
      intro z hz
      rcases List.mem_cons.mp hz with e | e
      · rw [e]; exact hxy
      · have := hy z e
        rw [leOf_isLE] at *
        exact TransCmp.isLE_trans hxy this
    · have hxy' : leOf cmp x y = false := Bool.eq_false_iff.mpr hxy
      simp only [hxy', Bool.false_eq_true, if_false]
      refine List.pairwise_cons.mpr ⟨?_, ih hys⟩
      intro z hz
      rcases (mem_insertBy _ _ _ _).mp hz with e | e
      · rw [e]; exact leOf_total cmp x y hxy'
      · exact hy z e

theorem pairwise_isort {α : Type} (cmp : α → α → Ordering) [TransCmp cmp] (l : List α) :
    (isort (leOf cmp) l).Pairwise (fun a b => leOf cmp a b = true) := by
  induction l with
  | nil => simp [isort]
  | cons x xs ih => exact pairwise_insertBy cmp x _ ih

/-- Two sorted lists with the same elements are equal when the order is antisymmetric. -/
theorem sorted_perm_eq {α : Type} (cmp : α → α → Ordering) [LawfulEqCmp cmp] [OrientedCmp cmp] :
    ∀ (l1 l2 : List α), l1.Pairwise (fun a b => leOf cmp a b = true) →
      l2.Pairwise (fun a b => leOf cmp a b = true) → l1.Perm l2 → l1 = l2 := by
  intro l1
  induction l1 with
  | nil => intro l2 _ _ hp; exact (List.Perm.nil_eq hp)
  | cons a as ih =>
    intro l2 h1 h2 hp
    cases l2 with
    | nil => exact absurd hp.symm (by simp)
    | cons b bs =>
      obtain ⟨ha, has⟩ := List.pairwise_cons.mp h1
      obtain ⟨hb, hbs⟩ := List.pairwise_cons.mp h2
      have hab : a = b := by
        have ha_in : a ∈ b :: bs := hp.mem_iff.mp List.mem_cons_self
        have hb_in : b ∈ a :: as := hp.mem_iff.mpr List.mem_cons_self
        rcases List.mem_cons.mp ha_in with e | e
        · exact e
        · rcases List.mem_cons.mp hb_in with e' | e'
          · exact e'.symm
          · have h1' := hb a e      -- b ≤ a
            have h2' := ha b e'     -- a ≤ b
            rw [leOf_isLE] at h1' h2'
            have hsw := OrientedCmp.eq_swap (cmp := cmp) (a := a) (b := b)
            cases hc : cmp a b with
            | eq => exact LawfulEqCmp.eq_of_compare hc
            | lt =>
              have : cmp b a = .gt := OrientedCmp.gt_iff_lt.mpr hc
              rw [this] at h1'; simp [Ordering.isLE] at h1'
            | gt => rw [hc] at h2'; simp [Ordering.isLE] at h2'
      subst hab
      rw [ih bs has hbs hp.cons_inv]

theorem isort_unique {α : Type} (cmp : α → α → Ordering) [TransCmp cmp] [LawfulEqCmp cmp] {l1 l2 : List α}
    (hp : l1.Perm l2) : isort (leOf cmp) l1 = isort (leOf cmp) l2 :=
  sorted_perm_eq cmp _ _ (pairwise_isort cmp l1) (pairwise_isort cmp l2)
    (((isort_perm _ l1).trans hp).trans (isort_perm _ l2).symm)

theorem insertBy_map {α β : Type} (leA : α → α → Bool) (leB : β → β → Bool) (k : α → β)
    (h : ∀ a b, leA a b = leB (k a) (k b)) (x : α) (l : List α) :
    (insertBy leA x l).map k = insertBy leB (k x) (l.map k) := by
  induction l with
  | nil => rfl
  | cons y ys ih =>
    simp only [insertBy, List.map_cons, h x y]
    by_cases hc : leB (k x) (k y) = true
    · simp [hc]
    · simp [hc, ih]

theorem isort_map {α β : Type} (leA : α → α → Bool) (leB : β → β → Bool) (k : α → β)
    (h : ∀ a b, leA a b = leB (k a) (k b)) (l : List α) : (isort leA l).map k = isort leB (l.map k) := by
  induction l with
  | nil => rfl
  | cons x xs ih => simp only [isort, List.map_cons]; rw [insertBy_map leA leB k h, ih]

/-! ### Sorted address lists -/

theorem sortAddrs_eq_of_mem {l1 l2 : List String} (h1 : l1.Nodup) (h2 : l2.Nodup) (h : ∀ x, x ∈ l1 ↔ x ∈ l2) :
    sortAddrs l1 = sortAddrs l2 := by
  exact isort_unique compare ((List.perm_ext_iff_of_nodup h1 h2).mpr h)


/-! ### Rule keys and the linear order `sortRules` sorts by -/

/-- What `sortRules` sees of a source / destination entry: the sorted addresses of the group it
names, or its text. -/
inductive EPKey
  | grp (addrs : List String)
  | lit (s : String)
  deriving DecidableEq, Repr

def epKey (gm : String → Option Group) (p : String) : EPKey :=
  match gm p with
  | some g => .grp g.addrs
  | none => .lit p

structure RKey where
  attrs : Attrs
  service : String
  src : EPKey
  dst : EPKey
  deriving DecidableEq

def ruleKey (gm : String → Option Group) (r : Rule) : RKey := ⟨r.attrs, r.service, epKey gm r.src, epKey gm r.dst⟩

def EPKey.kind : EPKey → Nat
  | .grp _ => 0
  | .lit _ => 1
def EPKey.first : EPKey → String
  | .grp a => a.headD ""
  | .lit s => s
def EPKey.full : EPKey → List String
  | .grp a => a
  | .lit s => [s]

def lexC {α : Type} (c1 c2 : α → α → Ordering) : α → α → Ordering := fun a b => (c1 a b).then (c2 a b)
def onC {α β : Type} [Ord β] (f : α → β) : α → α → Ordering := fun a b => compare (f a) (f b)

theorem transCmp_lexC {α : Type} (c1 c2 : α → α → Ordering) [TransCmp c1] [TransCmp c2] : TransCmp (lexC c1 c2) :=
  inferInstanceAs (TransCmp (compareLex c1 c2))

theorem transCmp_onC {α β : Type} [Ord β] [TransCmp (compare : β → β → Ordering)] (f : α → β) :
    TransCmp (onC f) := transCmp_comap compare f

/-- first-element comparison of `elementCmp`, on keys -/
def c1 : EPKey → EPKey → Ordering := lexC (onC EPKey.kind) (onC EPKey.first)
/-- tie-breaker `groupCmp`, on keys -/
def c3 : EPKey → EPKey → Ordering
  | .grp a, .grp b => cmpList a b
  | _, _ => .eq
/-- a total version of the tie-breaker (agrees with `c3` whenever `c1` ties) -/
def c3' : EPKey → EPKey → Ordering := lexC (onC EPKey.kind) (onC EPKey.full)

theorem cmpList_eq_compare : ∀ (a b : List String), cmpList a b = compare a b
  | [], [] => by simp [cmpList]
  | [], _ :: _ => by simp [cmpList, List.compare_nil_cons]
  | _ :: _, [] => by simp [cmpList, List.compare_cons_nil]
  | x :: xs, y :: ys => by simp [cmpList, List.compare_cons_cons, cmpList_eq_compare xs ys]

theorem boolCmp_eq (a b : Bool) : boolCmp a b = compare (!a) (!b) := by
  cases a <;> cases b <;> decide

theorem elementCmp_key (gm : String → Option Group) (x y : String) :
    elementCmp gm x y = c1 (epKey gm x) (epKey gm y) := by
  unfold elementCmp epKey c1 lexC onC
  cases gm x <;> cases gm y <;> simp [EPKey.kind, EPKey.first, firstAddr, Ordering.then] <;> rfl

theorem groupCmp_key (gm : String → Option Group) (x y : String) :
    groupCmp gm x y = c3 (epKey gm x) (epKey gm y) := by
  unfold groupCmp epKey c3
  cases gm x <;> cases gm y <;> rfl

theorem c3_eq_of_c1 {x y : EPKey} (h : c1 x y = .eq) : c3 x y = c3' x y := by
  unfold c1 lexC onC at h
  rw [Ordering.then_eq_eq] at h
  cases x <;> cases y
  · simp [c3, c3', lexC, onC, EPKey.kind, EPKey.full, cmpList_eq_compare]
  · simp [EPKey.kind] at h
  · simp [EPKey.kind] at h
  · rename_i s t
    have : s = t := LawfulEqCmp.eq_of_compare (cmp := (compare : String → String → Ordering)) h.2
    subst this
    simp [c3, c3', lexC, onC, EPKey.kind, EPKey.full]

theorem ep_eq_of_c1_c3 {x y : EPKey} (h1 : c1 x y = .eq) (h3 : c3 x y = .eq) : x = y := by
  unfold c1 lexC onC at h1
  rw [Ordering.then_eq_eq] at h1
  cases x <;> cases y
  · rename_i a b
    simp only [c3, cmpList_eq_compare] at h3
    rw [LawfulEqCmp.eq_of_compare (cmp := (compare : List String → List String → Ordering)) h3]
  · simp [EPKey.kind] at h1
  · simp [EPKey.kind] at h1
  · rename_i s t
    have : s = t := LawfulEqCmp.eq_of_compare (cmp := (compare : String → String → Ordering)) h1.2
    rw [this]

/-- The comparator of `sortRules`, on keys. -/
def cmpK (a b : RKey) : Ordering :=
  (compare a.attrs.direction b.attrs.direction).then <|
  (compare a.attrs.seq b.attrs.seq).then <|
  (compare a.attrs.action b.attrs.action).then <|
  (boolCmp a.attrs.logged b.attrs.logged).then <|
  (compare a.attrs.tag b.attrs.tag).then <|
  (boolCmp a.attrs.disabled b.attrs.disabled).then <|
  (boolCmp a.attrs.dstExcl b.attrs.dstExcl).then <|
  (boolCmp a.attrs.srcExcl b.attrs.srcExcl).then <|
  (compare a.attrs.svcEntries b.attrs.svcEntries).then <|
  (compare a.attrs.ipProto b.attrs.ipProto).then <|
  (cmpList a.attrs.profiles b.attrs.profiles).then <|
  (cmpList a.attrs.scope b.attrs.scope).then <|
  (compare a.service b.service).then <|
  (c1 a.src b.src).then <| (c1 a.dst b.dst).then <| (c3 a.src b.src).then (c3 a.dst b.dst)

theorem cmpRules_key (gm : String → Option Group) (a b : Rule) :
    cmpRules gm a b = cmpK (ruleKey gm a) (ruleKey gm b) := by
  unfold cmpRules cmpK ruleKey
  simp only [elementCmp_key, groupCmp_key]

/-- The same comparator written as a lexicographic combination of standard comparisons. -/
def cmpK' : RKey → RKey → Ordering :=
  lexC (onC (·.attrs.direction)) <| lexC (onC (·.attrs.seq)) <| lexC (onC (·.attrs.action)) <|
  lexC (onC (fun k => !k.attrs.logged)) <| lexC (onC (·.attrs.tag)) <| lexC (onC (fun k => !k.attrs.disabled)) <|
  lexC (onC (fun k => !k.attrs.dstExcl)) <| lexC (onC (fun k => !k.attrs.srcExcl)) <|
  lexC (onC (·.attrs.svcEntries)) <| lexC (onC (·.attrs.ipProto)) <| lexC (onC (·.attrs.profiles)) <|
  lexC (onC (·.attrs.scope)) <| lexC (onC (·.service)) <|
  lexC (fun a b => c1 a.src b.src) <| lexC (fun a b => c1 a.dst b.dst) <|
  lexC (fun a b => c3' a.src b.src) (fun a b => c3' a.dst b.dst)

theorem tail_eq (s1 s2 d1 d2 : EPKey) :
    (c1 s1 s2).then ((c1 d1 d2).then ((c3 s1 s2).then (c3 d1 d2))) =
    (c1 s1 s2).then ((c1 d1 d2).then ((c3' s1 s2).then (c3' d1 d2))) := by
  cases hs : c1 s1 s2 with
  | lt => rfl
  | gt => rfl
  | eq =>
    cases hd : c1 d1 d2 with
    | lt => rfl
    | gt => rfl
    | eq => rw [c3_eq_of_c1 hs, c3_eq_of_c1 hd]

theorem cmpK_eq (a b : RKey) : cmpK a b = cmpK' a b := by
  unfold cmpK cmpK'
  simp only [lexC, onC, boolCmp_eq, cmpList_eq_compare, tail_eq]

instance : TransCmp c1 := by unfold c1; exact @transCmp_lexC _ _ _ (transCmp_onC _) (transCmp_onC _)
instance : TransCmp c3' := by unfold c3'; exact @transCmp_lexC _ _ _ (transCmp_onC _) (transCmp_onC _)

instance instTransCmpK' : TransCmp cmpK' := by
  unfold cmpK'
  have hc1s : TransCmp (fun a b : RKey => c1 a.src b.src) := transCmp_comap c1 (fun k : RKey => k.src)
  have hc1d : TransCmp (fun a b : RKey => c1 a.dst b.dst) := transCmp_comap c1 (fun k : RKey => k.dst)
  have hc3s : TransCmp (fun a b : RKey => c3' a.src b.src) := transCmp_comap c3' (fun k : RKey => k.src)
  have hc3d : TransCmp (fun a b : RKey => c3' a.dst b.dst) := transCmp_comap c3' (fun k : RKey => k.dst)
  have t1 := @transCmp_lexC _ _ _ hc3s hc3d
  have t2 := @transCmp_lexC _ _ _ hc1d t1
  have t3 := @transCmp_lexC _ _ _ hc1s t2
  have t4 := @transCmp_lexC _ _ _ (transCmp_onC (fun k : RKey => k.service)) t3
  have t5 := @transCmp_lexC _ _ _ (transCmp_onC (fun k : RKey => k.attrs.scope)) t4
  have t6 := @transCmp_lexC _ _ _ (transCmp_onC (fun k : RKey => k.attrs.profiles)) t5
  have t7 := @transCmp_lexC _ _ _ (transCmp_onC (fun k : RKey => k.attrs.ipProto)) t6
  have t8 := @transCmp_lexC _ _ _ (transCmp_onC (fun k : RKey => k.attrs.svcEntries)) t7
  have t9 := @transCmp_lexC _ _ _ (transCmp_onC (fun k : RKey => !k.attrs.srcExcl)) t8
  have t10 := @transCmp_lexC _ _ _ (transCmp_onC (fun k : RKey => !k.attrs.dstExcl)) t9
  have t11 := @transCmp_lexC _ _ _ (transCmp_onC (fun k : RKey => !k.attrs.disabled)) t10
  have t12 := @transCmp_lexC _ _ _ (transCmp_onC (fun k : RKey => k.attrs.tag)) t11
  have t13 := @transCmp_lexC _ _ _ (transCmp_onC (fun k : RKey => !k.attrs.logged)) t12
  have t14 := @transCmp_lexC _ _ _ (transCmp_onC (fun k : RKey => k.attrs.action)) t13
  have t15 := @transCmp_lexC _ _ _ (transCmp_onC (fun k : RKey => k.attrs.seq)) t14
  exact @transCmp_lexC _ _ _ (transCmp_onC (fun k : RKey => k.attrs.direction)) t15

theorem cmpK_eq_of_eq {a b : RKey} (h : cmpK a b = .eq) : a = b := by
  unfold cmpK at h
  simp only [Ordering.then_eq_eq, boolCmp_eq, cmpList_eq_compare] at h
  obtain ⟨h1, h2, h3, h4, h5, h6, h7, h8, h9, h10, h11, h12, h13, h14, h15, h16, h17⟩ := h
  obtain ⟨aa, asv, asrc, adst⟩ := a
  obtain ⟨ba, bsv, bsrc, bdst⟩ := b
  obtain ⟨a1, a2, a3, a4, a5, a6, a7, a8, a9, a10, a11, a12⟩ := aa
  obtain ⟨b1, b2, b3, b4, b5, b6, b7, b8, b9, b10, b11, b12⟩ := ba
  simp only at h1 h2 h3 h4 h5 h6 h7 h8 h9 h10 h11 h12 h13 h14 h15 h16 h17
  have e1 := LawfulEqCmp.eq_of_compare (cmp := (compare : String → String → Ordering)) h1
  have e2 := LawfulEqCmp.eq_of_compare (cmp := (compare : Int → Int → Ordering)) h2
  have e3 := LawfulEqCmp.eq_of_compare (cmp := (compare : String → String → Ordering)) h3
  have e4 := LawfulEqCmp.eq_of_compare (cmp := (compare : Bool → Bool → Ordering)) h4
  have e5 := LawfulEqCmp.eq_of_compare (cmp := (compare : String → String → Ordering)) h5
  have e6 := LawfulEqCmp.eq_of_compare (cmp := (compare : Bool → Bool → Ordering)) h6
  have e7 := LawfulEqCmp.eq_of_compare (cmp := (compare : Bool → Bool → Ordering)) h7
  have e8 := LawfulEqCmp.eq_of_compare (cmp := (compare : Bool → Bool → Ordering)) h8
  have e9 := LawfulEqCmp.eq_of_compare (cmp := (compare : String → String → Ordering)) h9
  have e10 := LawfulEqCmp.eq_of_compare (cmp := (compare : String → String → Ordering)) h10
  have e11 := LawfulEqCmp.eq_of_compare (cmp := (compare : List String → List String → Ordering)) h11
  have e12 := LawfulEqCmp.eq_of_compare (cmp := (compare : List String → List String → Ordering)) h12
  have e13 := LawfulEqCmp.eq_of_compare (cmp := (compare : String → String → Ordering)) h13
  have e14 := ep_eq_of_c1_c3 h14 h16
  have e15 := ep_eq_of_c1_c3 h15 h17
  have e4' : a4 = b4 := by cases a4 <;> cases b4 <;> simp_all
  have e6' : a6 = b6 := by cases a6 <;> cases b6 <;> simp_all
  have e7' : a7 = b7 := by cases a7 <;> cases b7 <;> simp_all
  have e8' : a8 = b8 := by cases a8 <;> cases b8 <;> simp_all
  subst e1 e2 e3 e4' e5 e6' e7' e8' e9 e10 e11 e12 e13 e14 e15
  rfl

instance instLawfulEqCmpK' : LawfulEqCmp cmpK' :=
  @LawfulEqCmp.mk _ _ ⟨by intro a; have := OrientedCmp.eq_swap (cmp := cmpK') (a := a) (b := a); cases h : cmpK' a a <;> simp_all [Ordering.swap]⟩ (by
    intro a b h
    rw [← cmpK_eq] at h
    exact cmpK_eq_of_eq h)

/-- The key sequences of two sorted rule lists with the same multiset of keys coincide. -/
theorem sortRules_keys (gmA gmB : String → Option Group) (la lb : List Rule)
    (hp : (la.map (ruleKey gmA)).Perm (lb.map (ruleKey gmB))) :
    (sortRules gmA la).map (ruleKey gmA) = (sortRules gmB lb).map (ruleKey gmB) := by
  have hA : ∀ a b : Rule, (cmpRules gmA a b != .gt) = leOf cmpK' (ruleKey gmA a) (ruleKey gmA b) := by
    intro a b; rw [cmpRules_key, cmpK_eq]; rfl
  have hB : ∀ a b : Rule, (cmpRules gmB a b != .gt) = leOf cmpK' (ruleKey gmB a) (ruleKey gmB b) := by
    intro a b; rw [cmpRules_key, cmpK_eq]; rfl
  unfold sortRules
  rw [isort_map _ (leOf cmpK') (ruleKey gmA) hA, isort_map _ (leOf cmpK') (ruleKey gmB) hB]
  exact isort_unique cmpK' hp

end NA.Nsx
