import NA.Proofs.C09Recv
/-!
# C09: the console functions and the ASA / IOS / Linux programs keep the invariant
-/
namespace NA.C09
open NA.Sess NA.Apply NA.Spec.C09

def Pat.okFlags : Pat → Bool
  | .special fs => fs.all specialPrompt
  | .stdOr fs => fs.all specialPrompt
  | _ => true

theorem matches_arrives (p : Pat) (hp : Pat.okFlags p = true) (r : Reply) (h : p.matches r = true) :
    promptArrives r = true := by
  cases p with
  | std => simp [Pat.matches] at h; simp [promptArrives, h]
  | http => simp [Pat.matches] at h; simp [promptArrives, h]
  | special fs =>
    simp only [Pat.matches, Bool.and_eq_true, Bool.or_eq_true, List.any_eq_true] at h
    obtain ⟨harr, f, hf, hfl⟩ := h
    simp only [Pat.okFlags, List.all_eq_true] at hp
    simp only [promptArrives, Bool.or_eq_true, Bool.and_eq_true, List.any_eq_true]
    rcases harr with h1 | h1
    · exact Or.inl h1
    · exact Or.inr ⟨h1, f, by simpa using hfl, hp f hf⟩
  | stdOr fs =>
    simp only [Pat.matches, Bool.and_eq_true, Bool.or_eq_true, List.any_eq_true] at h
    simp only [Pat.okFlags, List.all_eq_true] at hp
    simp only [promptArrives, Bool.or_eq_true, Bool.and_eq_true, List.any_eq_true]
    rcases h with h1 | ⟨h1, f, hf, hfl⟩
    · exact Or.inl h1
    · exact Or.inr ⟨h1, f, by simpa using hfl, hp f hf⟩

/-- roles whose replies the code inspects only for arrival -/
def Role.arrivalOnly : Role → Bool
  | .login | .setup | .read | .cleanup => true
  | _ => false

section
variable (b : Backend) (hb : Backend.isConsole b = true)
include hb

theorem bad_arrivalOnly (ρ : Role) (hρ : Role.arrivalOnly ρ = true) (r : Reply) (ha : promptArrives r = true) :
    badChecked b ρ r = false := by
  cases ρ <;> simp [Role.arrivalOnly] at hρ <;> simp [badChecked, ha, hb]

/-- a wait under a role that is inspected only for arrival -/
theorem presV_waitCall (name : String) (cl lits : List String) (ρ : Role) (hρ : Role.arrivalOnly ρ = true)
    (p : Pat) (hp : Pat.okFlags p = true) :
    PresV (badChecked b)
      (.call name cl (expectLog ρ p ;; .ite .err "err != nil" (.abort lits) .skip ;; .ret .none ["_"])) := by
  intro env s hj hm
  cases waitCall_spec (badChecked b) name cl lits ρ p env s hj hm with
  | ok h hpm _ _ =>
    exact jv_of_clean _ (h.clean _ (bad_arrivalOnly b hb ρ hρ _ (matches_arrives p hp _ hpm)))
  | aborted h _ => exact h

theorem presV_waitPrompt (ρ : Role) (hρ : Role.arrivalOnly ρ = true) (p : Pat) (hp : Pat.okFlags p = true) :
    PresV (badChecked b) (waitPrompt ρ p) := presV_waitCall b hb _ _ _ ρ hρ p hp

theorem presV_WaitLogin (ρ : Role) (hρ : Role.arrivalOnly ρ = true) (p : Pat) (hp : Pat.okFlags p = true) (l : List String) :
    PresV (badChecked b) (WaitLogin ρ p l) := presV_waitCall b hb _ _ _ ρ hρ p hp

theorem presV_Send (ρ : Role) (t : Txt) (l : List String) : PresV (badChecked b) (Send ρ t l) :=
  presV_call _ (presV_send _ ρ t)

theorem presV_StripEcho : PresV (badChecked b) StripEcho :=
  presV_call _ (presV_seq _ (presV_ite _ (presV_abort _ _) (presV_skip _)) (presV_ret _ _ _))

theorem presV_StripStdPrompt : PresV (badChecked b) StripStdPrompt :=
  presV_call _ (presV_seq _ (presV_ite _ (presV_abort _ _) (presV_skip _)) (presV_ret _ _ _))

theorem presV_GetOutput (ρ : Role) (hρ : Role.arrivalOnly ρ = true) : PresV (badChecked b) (GetOutput ρ) :=
  presV_call _ (presV_seq _ (presV_waitPrompt b hb ρ hρ .std rfl)
    (presV_seq _ (presV_StripStdPrompt b hb) (presV_ret _ _ _)))

theorem presV_SendCmd (ρ : Role) (hρ : Role.arrivalOnly ρ = true) (t : Txt) (l : List String) :
    PresV (badChecked b) (SendCmd ρ t l) :=
  presV_call _ (presV_seq _ (presV_Send b hb ρ t _) (presV_waitPrompt b hb ρ hρ .std rfl))

theorem presV_IssueCmd (ρ : Role) (hρ : Role.arrivalOnly ρ = true) (t : Txt) (p : Pat) (hp : Pat.okFlags p = true)
    (l : List String) : PresV (badChecked b) (IssueCmd ρ t p l) :=
  presV_call _ (presV_seq _ (presV_Send b hb ρ t _) (presV_seq _ (presV_waitPrompt b hb ρ hρ p hp) (presV_ret _ _ _)))

theorem presV_GetCmdOutput (ρ : Role) (hρ : Role.arrivalOnly ρ = true) (t : Txt) (l : List String) :
    PresV (badChecked b) (GetCmdOutput ρ t l) :=
  presV_call _ (presV_seq _ (presV_Send b hb ρ t _) (presV_seq _ (presV_GetOutput b hb ρ hρ)
    (presV_seq _ (presV_StripEcho b hb) (presV_ret _ _ _))))

end

/-! ## waits whose reply is inspected further -/
section specs
variable (bad : Role → Reply → Bool)

theorem send_run (ρ : Role) (t : Txt) (l : List String) (env : Env) (s : St) (hm : s.mode = .run) :
    (exec (Send ρ t l) env s).mode = .run := by
  simp [Send, sendBody, exec, hm]

/-- GetOutput: wait for the standard prompt -/
theorem getOutput_spec (ρ : Role) (env : Env) (s : St) (hj : J bad s) (hm : s.mode = .run) :
    Awaited bad ρ .std s (exec (GetOutput ρ) env s) := by
  have h1 : Awaited bad ρ .std s (exec (waitPrompt ρ .std) env s) :=
    waitCall_spec bad "waitPrompt" ["_"] ["while waiting for prompt '%s': %v", "_", "err"] ρ .std env s hj hm
  simp only [GetOutput, getOutputBody, exec_seq, exec_call _ _ _ _ _ hm]
  change Awaited bad ρ .std s (if (exec (.ret .none ["_"]) env (exec StripStdPrompt env (exec (waitPrompt ρ .std) env s))).mode = .ret then _ else _)
  generalize exec (waitPrompt ρ .std) env s = s1 at h1
  cases h1 with
  | aborted h hp =>
    have hne : s1.mode ≠ .run := by rw [hp]; decide
    simp only [exec_nonrun _ _ _ hne, hp]
    exact .aborted h hp
  | ok h hpm he hc =>
    have hm1 := h.mode
    obtain ⟨tr0, hsplit, hs0, hf0⟩ := h.split
    simp only [StripStdPrompt, stripStdPromptBody, exec, hm1, evalCond, if_true, Bool.false_eq_true, if_false]
    exact .ok ⟨rfl, tr0, hsplit, hs0, hf0⟩ hpm he hc

/-- outcome of `GetCmdOutput`: the reply arrived completely and its echo is right, or the run aborted -/
inductive Fetched (ρ : Role) (s s' : St) : Prop
  | ok (h : Pd bad ρ s') (harr : s'.last.arr = .full) (hecho : s'.last.echoOk = true) (he : s'.errv = false)
       (hc : s'.ctr = s.ctr)
  | aborted (h : Jv bad s') (hm : s'.mode = .panic)

theorem std_matches_full (r : Reply) (h : Pat.std.matches r = true) : r.arr = .full := by
  simpa [Pat.matches] using h

/-- `GetOutput ;; StripEcho`, the common part of every checked exchange -/
theorem outputEcho_spec (ρ : Role) (env : Env) (s : St) (hj : J bad s) (hm : s.mode = .run) :
    Fetched bad ρ s (exec (GetOutput ρ ;; StripEcho) env s) := by
  have h1 : Awaited bad ρ .std s (exec (GetOutput ρ) env s) := getOutput_spec bad ρ env s hj hm
  rw [exec_seq]
  generalize exec (GetOutput ρ) env s = s1 at h1
  cases h1 with
  | aborted h hp =>
    have hne : s1.mode ≠ .run := by rw [hp]; decide
    rw [exec_nonrun _ _ _ hne]
    exact .aborted h hp
  | ok h hpm he hc =>
    have hm1 := h.mode
    obtain ⟨tr0, hsplit, hs0, hf0⟩ := h.split
    have harr := std_matches_full _ hpm
    cases hecho : s1.last.echoOk with
    | true =>
      simp only [StripEcho, stripEchoBody, exec, hm1, evalCond, hecho, if_true, Bool.false_eq_true, if_false,
        Bool.not_true]
      exact .ok ⟨rfl, tr0, hsplit, hs0, hf0⟩ harr hecho he hc
    | false =>
      simp only [StripEcho, stripEchoBody, exec, hm1, evalCond, hecho, if_true, Bool.not_false]
      refine .aborted ⟨?_, by simp, by simp, by simp⟩ (by simp)
      show NA.Spec.C09.safe bad (s1.tr ++ [Ev.logErr]) = true
      rw [safe_append_quiet bad _ _ (by simp [isChangeOrSave])]; exact h.safe

theorem getCmdOutput_spec (ρ : Role) (t : Txt) (l : List String) (env : Env) (s : St) (hj : J bad s)
    (hm : s.mode = .run) : Fetched bad ρ s (exec (GetCmdOutput ρ t l) env s) := by
  have hs0 : Jv bad (exec (Send ρ t) env s) := presV_call _ (presV_send _ ρ t) env s hj hm
  have hm0 : (exec (Send ρ t) env s).mode = .run := send_run ρ t _ env s hm
  have hc0 : (exec (Send ρ t) env s).ctr = s.ctr := by simp [Send, sendBody, exec, hm]
  have h1 : Fetched bad ρ (exec (Send ρ t) env s) (exec (GetOutput ρ ;; StripEcho) env (exec (Send ρ t) env s)) :=
    outputEcho_spec bad ρ env _ hs0.toJ hm0
  simp only [GetCmdOutput, getCmdOutputBody, exec_seq, exec_call _ _ _ _ _ hm]
  rw [exec_seq] at h1
  generalize exec StripEcho env (exec (GetOutput ρ) env (exec (Send ρ t) env s)) = s1 at h1
  cases h1 with
  | aborted h hp =>
    have hne : s1.mode ≠ .run := by rw [hp]; decide
    simp only [exec_nonrun _ _ _ hne, hp]
    exact .aborted h hp
  | ok h harr hecho he hc =>
    have hm1 := h.mode
    obtain ⟨tr0, hsplit, hs0', hf0⟩ := h.split
    simp only [exec, hm1, if_true]
    exact .ok ⟨rfl, tr0, hsplit, hs0', hf0⟩ harr hecho he (hc.trans hc0)

end specs
end NA.C09
