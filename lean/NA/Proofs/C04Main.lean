import NA.Proofs.C04Plan
import NA.Model.NsxAccept
/-!
Helper lemmas for C04, level 5: from the decidable side conditions (`accepted`) to the
hypotheses of the loops, the planner's context (`mkCtx`), and the end-to-end statement.
-/
namespace NA.Nsx

/-! ### Association lists with distinct keys -/

theorem lookup_eq_some_iff {β : Type} (l : List (String × β)) (hn : (l.map Prod.fst).Nodup) (k : String) (v : β) :
    l.lookup k = some v ↔ (k, v) ∈ l := by
  induction l with
  | nil => simp
  | cons kv rest ih =>
    obtain ⟨k', v'⟩ := kv
    simp only [List.map_cons, List.nodup_cons] at hn
    rw [List.lookup_cons]
    by_cases h : k = k'
    · subst h
      simp only [beq_self_eq_true, List.mem_cons, Prod.mk.injEq, true_and]
      constructor
      · intro e; exact Or.inl (Option.some.inj e).symm
      · rintro (e | e)
        · rw [e]
        · exact absurd (List.mem_map_of_mem (f := Prod.fst) e) hn.1
    · have : (k == k') = false := by simpa using h
      simp only [this, List.mem_cons, Prod.mk.injEq, h, false_and, false_or]
      exact ih hn.2

theorem lookup_reverse {β : Type} (l : List (String × β)) (hn : (l.map Prod.fst).Nodup) (k : String) :
    l.reverse.lookup k = l.lookup k := by
  have hn' : (l.reverse.map Prod.fst).Nodup := by
    rw [List.map_reverse]; exact (List.reverse_perm _).nodup_iff.mpr hn
  cases h : l.lookup k with
  | some v =>
    rw [lookup_eq_some_iff _ hn'] 
    exact List.mem_reverse.mpr ((lookup_eq_some_iff _ hn k v).mp h)
  | none =>
    cases h' : l.reverse.lookup k with
    | none => rfl
    | some v =>
      have := (lookup_eq_some_iff _ hn k v).mpr (List.mem_reverse.mp ((lookup_eq_some_iff _ hn' k v).mp h'))
      rw [h] at this; cases this

/-! ### Groups after `sortGroups` and `genUniqGroups` -/

theorem sortAddrs_perm (l : List String) : (sortAddrs l).Perm l := List.mergeSort_perm _ _

theorem gids_sortGroups (gs : List Group) : gids (sortGroups gs) = gids gs := by
  simp [gids, sortGroups, List.map_map, Function.comp]

theorem mem_sortGroups {gs : List Group} {ga : Group} (h : ga ∈ sortGroups gs) :
    ∃ g ∈ gs, ga = { g with addrs := sortAddrs g.addrs } := by
  unfold sortGroups at h
  obtain ⟨g, hg, e⟩ := List.mem_map.mp h
  exact ⟨g, hg, e.symm⟩

/-- The same group under another id. -/
def SameButIdG (g' g : Group) : Prop := g' = { g with id := g'.id }

theorem zipWith_setIdG (b : List Group) (ids : List String) (h : ids.length = b.length) :
    gids (List.zipWith (fun (g : Group) id => { g with id := id }) b ids) = ids ∧
    Forall2 SameButIdG (List.zipWith (fun (g : Group) id => { g with id := id }) b ids) b := by
  induction b generalizing ids with
  | nil =>
    cases ids with
    | nil => exact ⟨rfl, .nil⟩
    | cons _ _ => simp at h
  | cons r rest ih =>
    cases ids with
    | nil => simp at h
    | cons i is =>
      obtain ⟨h1, h2⟩ := ih is (by simpa using h)
      refine ⟨?_, .cons rfl h2⟩
      simp only [List.zipWith_cons_cons, gids, List.map_cons]
      exact congrArg _ h1

theorem hasPrefix_append_right {p s : String} (t : String) (h : hasPrefix p s = true) : hasPrefix p (s ++ t) = true := by
  unfold hasPrefix at *
  rw [List.isPrefixOf_iff_prefix] at *
  rw [String.toList_append]
  exact h.trans (List.prefix_append _ _)

theorem freshId_managed {used : List String} {base n : String} (h : freshId used base = some n)
    (hb : managed base = true) : managed n = true := by
  unfold freshId at h
  have hm := List.mem_of_find?_eq_some h
  obtain ⟨i, _, e⟩ := List.mem_map.mp hm
  subst e
  unfold managed at *
  rw [String.append_assoc]
  exact hasPrefix_append_right _ hb

theorem renameIds_managed (aIds : List String) :
    ∀ (ids used out : List String), renameIds aIds ids used = some out → (∀ x ∈ ids, managed x = true) →
      ∀ x ∈ out, managed x = true := by
  intro ids
  induction ids with
  | nil => intro used out h _; simp [renameIds] at h; subst h; simp
  | cons id rest ih =>
    intro used out h hm
    unfold renameIds at h
    by_cases hc : aIds.contains id = true
    · simp only [hc, if_true] at h
      cases hf : freshId used id with
      | none => simp [hf] at h
      | some n =>
        simp only [hf] at h
        cases hr : renameIds aIds rest (n :: used) with
        | none => simp [hr] at h
        | some out' =>
          simp only [hr, Option.map_some, Option.some.injEq] at h
          subst h
          intro x hx
          rcases List.mem_cons.mp hx with e | e
          · subst e; exact freshId_managed hf (hm id List.mem_cons_self)
          · exact ih _ _ hr (fun y hy => hm y (List.mem_cons_of_mem _ hy)) x e
    · have hc' : aIds.contains id = false := Bool.eq_false_iff.mpr hc
      simp only [hc', Bool.false_eq_true, if_false] at h
      cases hr : renameIds aIds rest used with
      | none => simp [hr] at h
      | some out' =>
        simp only [hr, Option.map_some, Option.some.injEq] at h
        subst h
        intro x hx
        rcases List.mem_cons.mp hx with e | e
        · subst e; exact hm x List.mem_cons_self
        · exact ih _ _ hr (fun y hy => hm y (List.mem_cons_of_mem _ hy)) x e

theorem genUniqGroups_spec {aIds : List String} {b bG : List Group} (h : genUniqGroups aIds b = some bG)
    (hb : (gids b).Nodup) (hm : ∀ g ∈ b, managed g.id = true) :
    (gids bG).Nodup ∧ (∀ x ∈ gids bG, x ∉ aIds) ∧ (∀ x ∈ gids bG, managed x = true) ∧ Forall2 SameButIdG bG b := by
  unfold genUniqGroups at h
  cases hr : renameIds aIds (b.map (·.id)) (aIds ++ b.map (·.id)) with
  | none => simp [hr] at h
  | some ids =>
    simp only [hr, Option.map_some, Option.some.injEq] at h
    subst h
    obtain ⟨h1, h2, h3, _⟩ := renameIds_spec aIds _ _ _ hr
      (fun x hx => List.mem_append.mpr (Or.inl hx)) (fun x hx => List.mem_append.mpr (Or.inr hx)) hb
    have h4 := renameIds_managed aIds _ _ _ hr (by
      intro x hx
      obtain ⟨g, hg, e⟩ := List.mem_map.mp hx
      exact e ▸ hm g hg)
    obtain ⟨e1, e2⟩ := zipWith_setIdG b ids (by simpa using h1)
    rw [e1]
    exact ⟨h2, h3, h4, e2⟩

/-- The pairs (original id, renamed group) the planner's `ab.b.groups` consists of. -/
def bpairs (b bG : List Group) : List (String × Group) := (b.map (·.id)).zip bG

theorem bpairs_keys {b bG : List Group} (h : Forall2 SameButIdG bG b) : (bpairs b bG).map Prod.fst = gids b := by
  induction h with
  | nil => rfl
  | cons _ _ ih => simp only [bpairs, gids, List.map_cons, List.zip_cons_cons] at ih ⊢; rw [ih]

theorem bpairs_mem {b bG : List Group} (h : Forall2 SameButIdG bG b) {k : String} {v : Group}
    (hm : (k, v) ∈ bpairs b bG) : v ∈ bG ∧ ∃ g0 ∈ b, g0.id = k ∧ v = { g0 with id := v.id } := by
  induction h with
  | nil => simp [bpairs] at hm
  | cons hab _ ih =>
    simp only [bpairs, List.map_cons, List.zip_cons_cons, List.mem_cons, Prod.mk.injEq] at hm
    rcases hm with ⟨e1, e2⟩ | hm
    · subst e1; subst e2
      exact ⟨List.mem_cons_self, _, List.mem_cons_self, rfl, hab⟩
    · obtain ⟨h1, g0, hg0, h2, h3⟩ := ih hm
      exact ⟨List.mem_cons_of_mem _ h1, g0, List.mem_cons_of_mem _ hg0, h2, h3⟩

theorem bpairs_total {b bG : List Group} (h : Forall2 SameButIdG bG b) {g0 : Group} (hg : g0 ∈ b) :
    ∃ v, (g0.id, v) ∈ bpairs b bG := by
  induction h with
  | nil => cases hg
  | cons _ _ ih =>
    rcases List.mem_cons.mp hg with e | e
    · subst e; exact ⟨_, by simp only [bpairs, List.map_cons, List.zip_cons_cons]; exact List.mem_cons_self⟩
    · obtain ⟨v, hv⟩ := ih e
      exact ⟨v, by simp only [bpairs, List.map_cons, List.zip_cons_cons]; exact List.mem_cons_of_mem _ hv⟩

theorem bpairs_inj {b bG : List Group} (h : Forall2 SameButIdG bG b) (hn : (gids bG).Nodup)
    {k1 k2 : String} {v1 v2 : Group} (h1 : (k1, v1) ∈ bpairs b bG) (h2 : (k2, v2) ∈ bpairs b bG)
    (e : v1.id = v2.id) : k1 = k2 := by
  induction h with
  | nil => simp [bpairs] at h1
  | cons hab hrest ih =>
    simp only [gids, List.map_cons, List.nodup_cons] at hn
    simp only [bpairs, List.map_cons, List.zip_cons_cons, List.mem_cons, Prod.mk.injEq] at h1 h2
    rcases h1 with ⟨a1, a2⟩ | h1 <;> rcases h2 with ⟨b1, b2⟩ | h2
    · rw [a1, b1]
    · subst a2
      exact absurd (e ▸ List.mem_map_of_mem (f := (·.id)) (bpairs_mem hrest h2).1) hn.1
    · subst b2
      exact absurd (e ▸ List.mem_map_of_mem (f := (·.id)) (bpairs_mem hrest h1).1) hn.1
    · exact ih hn.2 h1 h2


/-! ### From the decidable side conditions to propositions -/

structure StoreFacts (S : Store) : Prop where
  pol_nodup : (pids S.policies).Nodup
  grp_nodup : (gids S.groups).Nodup
  svc_nodup : (sids S.services).Nodup
  rules : ∀ p ∈ S.policies, (rids p.rules).Nodup ∧ ∀ r ∈ p.rules, refsOk S r = true
  addrs : ∀ g ∈ S.groups, g.addrs.Nodup

theorem storeFacts_of {S : Store} (h1 : storeWF S = true) (h2 : addrsNodup S = true) : StoreFacts S := by
  unfold storeWF at h1
  simp only [Bool.and_eq_true, idsNodup_iff, List.all_eq_true] at h1
  obtain ⟨⟨⟨a, b⟩, c⟩, d⟩ := h1
  unfold addrsNodup at h2
  simp only [List.all_eq_true, idsNodup_iff] at h2
  refine ⟨a, b, c, ?_, h2⟩
  intro p hp
  have := d p hp
  unfold policyWF at this
  simp only [Bool.and_eq_true, idsNodup_iff, List.all_eq_true] at this
  exact this

structure TargetFacts (T : Config) : Prop where
  pol_nodup : (pids T.policies).Nodup
  pol_managed : ∀ p ∈ T.policies, managed p.id = true
  grp : ∀ g ∈ T.groups, managed g.id = true ∧ g.addrs.Nodup
  grp_nodup : (gids T.groups).Nodup
  svc : ∀ s ∈ T.services, managed s.id = true
  rules : ∀ p ∈ T.policies, (rids p.rules).Nodup ∧ ∀ r ∈ p.rules, refsDefined T r = true

theorem targetFacts_of {T : Config} (h1 : targetWF T = true) (h2 : policyIdsManaged T = true) : TargetFacts T := by
  unfold targetWF at h1
  simp only [Bool.and_eq_true, idsNodup_iff, List.all_eq_true] at h1
  obtain ⟨⟨⟨⟨⟨a, b⟩, c⟩, d⟩, _⟩, f⟩ := h1
  unfold policyIdsManaged at h2
  simp only [List.all_eq_true] at h2
  exact ⟨a, h2, b, c, d, f⟩

theorem serviceRef_servicePath (id : String) : serviceRef (servicePath id) = some id := cutPrefix_append _ _

theorem serviceRef_some {p x : String} (h : serviceRef p = some x) : p = servicePath x := cutPrefix_some h

/-- `refsDefined`, entry by entry. -/
theorem refsDefined_ep {T : Config} {r : Rule} (h : refsDefined T r = true) :
    (∀ x, groupRef r.src = some x → managed x = true → x ∈ gids T.groups) ∧
    (∀ x, groupRef r.dst = some x → managed x = true → x ∈ gids T.groups) ∧
    (∀ x, serviceRef r.service = some x → managed x = true → x ∈ sids T.services) := by
  unfold refsDefined at h
  simp only [Bool.and_eq_true] at h
  obtain ⟨⟨h1, h2⟩, h3⟩ := h
  refine ⟨?_, ?_, ?_⟩
  · intro x hx hm
    simp only [hx, hm, Bool.not_true, Bool.false_or, List.any_eq_true, beq_iff_eq] at h1
    obtain ⟨g, hg, e⟩ := h1
    exact e ▸ List.mem_map_of_mem (f := (·.id)) hg
  · intro x hx hm
    simp only [hx, hm, Bool.not_true, Bool.false_or, List.any_eq_true, beq_iff_eq] at h2
    obtain ⟨g, hg, e⟩ := h2
    exact e ▸ List.mem_map_of_mem (f := (·.id)) hg
  · intro x hx hm
    simp only [hx, hm, Bool.not_true, Bool.false_or, List.any_eq_true, beq_iff_eq] at h3
    obtain ⟨s, hs, e⟩ := h3
    exact e ▸ List.mem_map_of_mem (f := (·.id)) hs

theorem extRefs_ep {S : Store} {T : Config} (h : extRefsOK S T = true) {p : Policy} (hp : p ∈ T.policies)
    {r : Rule} (hr : r ∈ p.rules) :
    (∀ x, groupRef r.src = some x → managed x = false → hasGroup S x = true) ∧
    (∀ x, groupRef r.dst = some x → managed x = false → hasGroup S x = true) ∧
    (∀ x, serviceRef r.service = some x → managed x = false → hasService S x = true) := by
  unfold extRefsOK at h
  simp only [List.all_eq_true, Bool.and_eq_true] at h
  obtain ⟨⟨h1, h2⟩, h3⟩ := h p hp r hr
  refine ⟨?_, ?_, ?_⟩
  · intro x hx hm; simpa [hx, hm] using h1
  · intro x hx hm; simpa [hx, hm] using h2
  · intro x hx hm; simpa [hx, hm] using h3

theorem unmanagedIndep_ep {S : Store} (h : unmanagedIndep S = true) {p : Policy} (hp : p ∈ S.policies)
    (hm : managed p.id = false) {r : Rule} (hr : r ∈ p.rules) :
    (∀ x, groupRef r.src = some x → managed x = false) ∧ (∀ x, groupRef r.dst = some x → managed x = false) ∧
    (∀ x, serviceRef r.service = some x → managed x = false) := by
  unfold unmanagedIndep at h
  simp only [List.all_eq_true, Bool.or_eq_true, Bool.and_eq_true] at h
  rcases h p hp with h | h
  · rw [hm] at h; cases h
  · obtain ⟨⟨h1, h2⟩, h3⟩ := h r hr
    refine ⟨?_, ?_, ?_⟩
    · intro x hx; simpa [hx] using h1
    · intro x hx; simpa [hx] using h2
    · intro x hx; simpa [hx] using h3


/-! ### The planner's context -/

theorem mem_gids {G : List Group} {g : Group} (h : g ∈ G) : g.id ∈ gids G := List.mem_map_of_mem (f := (·.id)) h

theorem gids_filter_managed {G : List Group} {id : String} :
    id ∈ gids (G.filter (managed ·.id)) ↔ id ∈ gids G ∧ managed id = true := by
  unfold gids
  constructor
  · intro h
    obtain ⟨g, hg, e⟩ := List.mem_map.mp h
    obtain ⟨h1, h2⟩ := List.mem_filter.mp hg
    exact ⟨List.mem_map.mpr ⟨g, h1, e⟩, e ▸ h2⟩
  · rintro ⟨h, hm⟩
    obtain ⟨g, hg, e⟩ := List.mem_map.mp h
    exact List.mem_map.mpr ⟨g, List.mem_filter.mpr ⟨hg, by rw [e]; exact hm⟩, e⟩

structure CtxFacts (diff : Diff) (S : Store) (T : Config) (ctx : Ctx) : Prop where
  ok : CtxOK ctx S.groups
  diff_eq : ctx.diff = diff
  a_eq : ctx.aGroups = sortGroups (load S).groups
  b_dom : ∀ k, k ∈ gids T.groups → ∃ gb, ctx.bmap.lookup k = some gb
  b_of : ∀ k gb, ctx.bmap.lookup k = some gb →
    ∃ gt ∈ T.groups, gt.id = k ∧ gb.addrs.Perm gt.addrs ∧ managed gb.id = true ∧ managed k = true

theorem ctxFacts_of {diff : Diff} {S : Store} {T : Config} {ctx : Ctx} (hS : StoreFacts S) (hT : TargetFacts T)
    (hmk : mkCtx diff (load S) T = some ctx) : CtxFacts diff S T ctx := by
  unfold mkCtx at hmk
  simp only at hmk
  cases hg : genUniqGroups ((sortGroups (load S).groups).map (·.id)) (sortGroups T.groups) with
  | none => simp [hg] at hmk
  | some bG =>
    simp only [hg, Option.map_some, Option.some.injEq] at hmk
    subst hmk
    have hb0n : (gids (sortGroups T.groups)).Nodup := by rw [gids_sortGroups]; exact hT.grp_nodup
    have hb0m : ∀ g ∈ sortGroups T.groups, managed g.id = true := by
      intro g hg'
      obtain ⟨g0, hg0, e⟩ := mem_sortGroups hg'
      rw [e]; exact (hT.grp g0 hg0).1
    obtain ⟨hn, hfresh, hman, hsame⟩ := genUniqGroups_spec hg hb0n hb0m
    have hkeys : (bpairs (sortGroups T.groups) bG).map Prod.fst = gids (sortGroups T.groups) := bpairs_keys hsame
    have hlook : ∀ k, List.lookup k (bpairs (sortGroups T.groups) bG).reverse =
        List.lookup k (bpairs (sortGroups T.groups) bG) :=
      fun k => lookup_reverse _ (by rw [hkeys]; exact hb0n) k
    have hmem : ∀ k gb, List.lookup k (bpairs (sortGroups T.groups) bG).reverse = some gb ↔
        (k, gb) ∈ bpairs (sortGroups T.groups) bG := by
      intro k gb
      rw [hlook]
      exact lookup_eq_some_iff _ (by rw [hkeys]; exact hb0n) k gb
    have hload : (load S).groups = S.groups.filter (managed ·.id) := rfl
    have hb_of : ∀ k gb, List.lookup k (bpairs (sortGroups T.groups) bG).reverse = some gb →
        ∃ gt ∈ T.groups, gt.id = k ∧ gb.addrs.Perm gt.addrs ∧ managed gb.id = true ∧ managed k = true := by
      intro k gb h
      obtain ⟨hgb, g0, hg0, hk, hsm⟩ := bpairs_mem hsame ((hmem k gb).mp h)
      obtain ⟨gt, hgt, e⟩ := mem_sortGroups hg0
      refine ⟨gt, hgt, by rw [← hk, e], ?_, hman _ (mem_gids hgb), ?_⟩
      · rw [hsm, e]; exact sortAddrs_perm _
      · rw [← hk, e]; exact (hT.grp gt hgt).1
    refine ⟨⟨hS.grp_nodup, ?_, ?_, ?_, ?_, ?_⟩, rfl, rfl, ?_, hb_of⟩
    · intro ga hga
      obtain ⟨g, hgm, e⟩ := mem_sortGroups hga
      rw [hload] at hgm
      have hg1 := (List.mem_filter.mp hgm).1
      refine ⟨g, ?_, by rw [e], ?_⟩
      · rw [e]; exact findGroup_mem_nodup hS.grp_nodup hg1
      · rw [e]; exact (sortAddrs_perm _).symm
    · intro ga hga
      obtain ⟨g, hgm, e⟩ := mem_sortGroups hga
      rw [hload] at hgm
      rw [e]
      exact (sortAddrs_perm _).nodup_iff.mpr (hS.addrs g (List.mem_filter.mp hgm).1)
    · intro k gb h hin
      obtain ⟨hgb, _⟩ := bpairs_mem hsame ((hmem k gb).mp h)
      have h1 := hfresh _ (mem_gids hgb)
      apply h1
      show gb.id ∈ gids (sortGroups (load S).groups)
      rw [gids_sortGroups, hload, gids_filter_managed]
      exact ⟨hin, hman _ (mem_gids hgb)⟩
    · intro k1 k2 g1 g2 h1 h2 e
      exact bpairs_inj hsame hn ((hmem k1 g1).mp h1) ((hmem k2 g2).mp h2) e
    · intro k gb h
      obtain ⟨gt, hgt, _, hp, _⟩ := hb_of k gb h
      exact hp.nodup_iff.mpr (hT.grp gt hgt).2
    · intro k hk
      rw [← gids_sortGroups] at hk
      obtain ⟨g0, hg0, e⟩ := List.mem_map.mp hk
      obtain ⟨v, hv⟩ := bpairs_total hsame hg0
      exact ⟨v, (hmem k v).mpr (e ▸ hv)⟩

end NA.Nsx
