import NA.Proofs.C04Keys
import NA.Model.NsxAccept
/-!
Helper lemmas for C04, level 5: from the decidable side conditions (`accepted`) to the
hypotheses of the loops, the planner's context (`mkCtx`), and the end-to-end statement.
-/
namespace NA.Nsx

/-! ### Association lists with distinct keys -/

theorem lookup_eq_some_iff {β : Type} (l : List (String × β)) (hn : (l.map Prod.fst).Nodup) (k : String) (v : β) :
    l.lookup k = some v ↔ (k, v) ∈ l := by
  induction l with
  | nil => simp
  | cons kv rest ih =>
    obtain ⟨k', v'⟩ := kv
    simp only [List.map_cons, List.nodup_cons] at hn
    rw [List.lookup_cons]
    by_cases h : k = k'
    · subst h
      simp only [beq_self_eq_true, List.mem_cons, Prod.mk.injEq, true_and]
      constructor
      · intro e; exact Or.inl (Option.some.inj e).symm
      · rintro (e | e)
        · rw [e]
        · exact absurd (List.mem_map_of_mem (f := Prod.fst) e) hn.1
    · have : (k == k') = false := by simpa using h
      simp only [this, List.mem_cons, Prod.mk.injEq, h, false_and, false_or]
      exact ih hn.2

theorem lookup_reverse {β : Type} (l : List (String × β)) (hn : (l.map Prod.fst).Nodup) (k : String) :
    l.reverse.lookup k = l.lookup k := by
  have hn' : (l.reverse.map Prod.fst).Nodup := by
    rw [List.map_reverse]; exact (List.reverse_perm _).nodup_iff.mpr hn
  cases h : l.lookup k with
  | some v =>
    rw [lookup_eq_some_iff _ hn'] 
    exact List.mem_reverse.mpr ((lookup_eq_some_iff _ hn k v).mp h)
  | none =>
    cases h' : l.reverse.lookup k with
    | none => rfl
    | some v =>
      have := (lookup_eq_some_iff _ hn k v).mpr (List.mem_reverse.mp ((lookup_eq_some_iff _ hn' k v).mp h'))
      rw [h] at this; cases this

/-! ### Groups after `sortGroups` and `genUniqGroups` -/

theorem sortAddrs_perm (l : List String) : (sortAddrs l).Perm l := isort_perm _ _

theorem gids_sortGroups (gs : List Group) : gids (sortGroups gs) = gids gs := by
  simp [gids, sortGroups, List.map_map, Function.comp]

theorem mem_sortGroups {gs : List Group} {ga : Group} (h : ga ∈ sortGroups gs) :
    ∃ g ∈ gs, ga = { g with addrs := sortAddrs g.addrs } := by
  unfold sortGroups at h
  obtain ⟨g, hg, e⟩ := List.mem_map.mp h
  exact ⟨g, hg, e.symm⟩

/-- The same group under another id. -/
def SameButIdG (g' g : Group) : Prop := g' = { g with id := g'.id }

theorem zipWith_setIdG (b : List Group) (ids : List String) (h : ids.length = b.length) :
    gids (List.zipWith (fun (g : Group) id => { g with id := id }) b ids) = ids ∧
    Forall2 SameButIdG (List.zipWith (fun (g : Group) id => { g with id := id }) b ids) b := by
  induction b generalizing ids with
  | nil =>
    cases ids with
    | nil => exact ⟨rfl, .nil⟩
    | cons _ _ => simp at h
  | cons r rest ih =>
    cases ids with
    | nil => simp at h
    | cons i is =>
      obtain ⟨h1, h2⟩ := ih is (by simpa using h)
      refine ⟨?_, .cons rfl h2⟩
      simp only [List.zipWith_cons_cons, gids, List.map_cons]
      exact congrArg _ h1

theorem hasPrefix_append_right {p s : String} (t : String) (h : hasPrefix p s = true) : hasPrefix p (s ++ t) = true := by
  unfold hasPrefix at *
  rw [List.isPrefixOf_iff_prefix] at *
  rw [String.toList_append]
  exact h.trans (List.prefix_append _ _)

theorem freshId_managed {used : List String} {base n : String} (h : freshId used base = some n)
    (hb : managed base = true) : managed n = true := by
  unfold freshId at h
  have hm := List.mem_of_find?_eq_some h
  obtain ⟨i, _, e⟩ := List.mem_map.mp hm
  subst e
  unfold managed at *
  rw [String.append_assoc]
  exact hasPrefix_append_right _ hb

theorem renameIds_managed (aIds : List String) :
    ∀ (ids used out : List String), renameIds aIds ids used = some out → (∀ x ∈ ids, managed x = true) →
      ∀ x ∈ out, managed x = true := by
  intro ids
  induction ids with
  | nil => intro used out h _; simp [renameIds] at h; subst h; simp
  | cons id rest ih =>
    intro used out h hm
    unfold renameIds at h
    by_cases hc : aIds.contains id = true
    · simp only [hc, if_true] at h
      cases hf : freshId used id with
      | none => simp [hf] at h
      | some n =>
        simp only [hf] at h
        cases hr : renameIds aIds rest (n :: used) with
        | none => simp [hr] at h
        | some out' =>
          simp only [hr, Option.map_some, Option.some.injEq] at h
          subst h
          intro x hx
          rcases List.mem_cons.mp hx with e | e
          · subst e; exact freshId_managed hf (hm id List.mem_cons_self)
          · exact ih _ _ hr (fun y hy => hm y (List.mem_cons_of_mem _ hy)) x e
    · have hc' : aIds.contains id = false := Bool.eq_false_iff.mpr hc
      simp only [hc', Bool.false_eq_true, if_false] at h
      cases hr : renameIds aIds rest used with
      | none => simp [hr] at h
      | some out' =>
        simp only [hr, Option.map_some, Option.some.injEq] at h
        subst h
        intro x hx
        rcases List.mem_cons.mp hx with e | e
        · subst e; exact hm x List.mem_cons_self
        · exact ih _ _ hr (fun y hy => hm y (List.mem_cons_of_mem _ hy)) x e

theorem genUniqGroups_spec {aIds : List String} {b bG : List Group} (h : genUniqGroups aIds b = some bG)
    (hb : (gids b).Nodup) (hm : ∀ g ∈ b, managed g.id = true) :
    (gids bG).Nodup ∧ (∀ x ∈ gids bG, x ∉ aIds) ∧ (∀ x ∈ gids bG, managed x = true) ∧ Forall2 SameButIdG bG b := by
  unfold genUniqGroups at h
  cases hr : renameIds aIds (b.map (·.id)) (aIds ++ b.map (·.id)) with
  | none => simp [hr] at h
  | some ids =>
    simp only [hr, Option.map_some, Option.some.injEq] at h
    subst h
    obtain ⟨h1, h2, h3, _⟩ := renameIds_spec aIds _ _ _ hr
      (fun x hx => List.mem_append.mpr (Or.inl hx)) (fun x hx => List.mem_append.mpr (Or.inr hx)) hb
    have h4 := renameIds_managed aIds _ _ _ hr (by
      intro x hx
      obtain ⟨g, hg, e⟩ := List.mem_map.mp hx
      exact e ▸ hm g hg)
    obtain ⟨e1, e2⟩ := zipWith_setIdG b ids (by simpa using h1)
    rw [e1]
    exact ⟨h2, h3, h4, e2⟩

/-- The pairs (original id, renamed group) the planner's `ab.b.groups` consists of. -/
def bpairs (b bG : List Group) : List (String × Group) := (b.map (·.id)).zip bG

theorem bpairs_keys {b bG : List Group} (h : Forall2 SameButIdG bG b) : (bpairs b bG).map Prod.fst = gids b := by
  induction h with
  | nil => rfl
  | cons _ _ ih => simp only [bpairs, gids, List.map_cons, List.zip_cons_cons] at ih ⊢; rw [ih]

theorem bpairs_mem {b bG : List Group} (h : Forall2 SameButIdG bG b) {k : String} {v : Group}
    (hm : (k, v) ∈ bpairs b bG) : v ∈ bG ∧ ∃ g0 ∈ b, g0.id = k ∧ v = { g0 with id := v.id } := by
  induction h with
  | nil => simp [bpairs] at hm
  | cons hab _ ih =>
    simp only [bpairs, List.map_cons, List.zip_cons_cons, List.mem_cons, Prod.mk.injEq] at hm
    rcases hm with ⟨e1, e2⟩ | hm
    · subst e1; subst e2
      exact ⟨List.mem_cons_self, _, List.mem_cons_self, rfl, hab⟩
    · obtain ⟨h1, g0, hg0, h2, h3⟩ := ih hm
      exact ⟨List.mem_cons_of_mem _ h1, g0, List.mem_cons_of_mem _ hg0, h2, h3⟩

theorem bpairs_total {b bG : List Group} (h : Forall2 SameButIdG bG b) {g0 : Group} (hg : g0 ∈ b) :
    ∃ v, (g0.id, v) ∈ bpairs b bG := by
  induction h with
  | nil => cases hg
  | cons _ _ ih =>
    rcases List.mem_cons.mp hg with e | e
    · subst e; exact ⟨_, by simp only [bpairs, List.map_cons, List.zip_cons_cons]; exact List.mem_cons_self⟩
    · obtain ⟨v, hv⟩ := ih e
      exact ⟨v, by simp only [bpairs, List.map_cons, List.zip_cons_cons]; exact List.mem_cons_of_mem _ hv⟩

theorem bpairs_inj {b bG : List Group} (h : Forall2 SameButIdG bG b) (hn : (gids bG).Nodup)
    {k1 k2 : String} {v1 v2 : Group} (h1 : (k1, v1) ∈ bpairs b bG) (h2 : (k2, v2) ∈ bpairs b bG)
    (e : v1.id = v2.id) : k1 = k2 := by
  induction h with
  | nil => simp [bpairs] at h1
  | cons hab hrest ih =>
    simp only [gids, List.map_cons, List.nodup_cons] at hn
    simp only [bpairs, List.map_cons, List.zip_cons_cons, List.mem_cons, Prod.mk.injEq] at h1 h2
    rcases h1 with ⟨a1, a2⟩ | h1 <;> rcases h2 with ⟨b1, b2⟩ | h2
    · rw [a1, b1]
    · subst a2
      exact absurd (e ▸ List.mem_map_of_mem (f := (·.id)) (bpairs_mem hrest h2).1) hn.1
    · subst b2
      exact absurd (e ▸ List.mem_map_of_mem (f := (·.id)) (bpairs_mem hrest h1).1) hn.1
    · exact ih hn.2 h1 h2


/-! ### From the decidable side conditions to propositions -/

structure StoreFacts (S : Store) : Prop where
  pol_nodup : (pids S.policies).Nodup
  grp_nodup : (gids S.groups).Nodup
  svc_nodup : (sids S.services).Nodup
  rules : ∀ p ∈ S.policies, (rids p.rules).Nodup ∧ ∀ r ∈ p.rules, refsOk S r = true
  addrs : ∀ g ∈ S.groups, g.addrs.Nodup

theorem storeFacts_of {S : Store} (h1 : storeWF S = true) (h2 : addrsNodup S = true) : StoreFacts S := by
  unfold storeWF at h1
  simp only [Bool.and_eq_true, idsNodup_iff, List.all_eq_true] at h1
  obtain ⟨⟨⟨a, b⟩, c⟩, d⟩ := h1
  unfold addrsNodup at h2
  simp only [List.all_eq_true, idsNodup_iff] at h2
  refine ⟨a, b, c, ?_, h2⟩
  intro p hp
  have := d p hp
  unfold policyWF at this
  simp only [Bool.and_eq_true, idsNodup_iff, List.all_eq_true] at this
  exact this

structure TargetFacts (T : Config) : Prop where
  pol_nodup : (pids T.policies).Nodup
  pol_managed : ∀ p ∈ T.policies, managed p.id = true
  grp : ∀ g ∈ T.groups, managed g.id = true ∧ g.addrs.Nodup
  grp_nonempty : ∀ g ∈ T.groups, g.addrs ≠ []
  grp_nodup : (gids T.groups).Nodup
  svc : ∀ s ∈ T.services, managed s.id = true
  rules : ∀ p ∈ T.policies, (rids p.rules).Nodup ∧ ∀ r ∈ p.rules, refsDefined T r = true

theorem targetFacts_of {T : Config} (h1 : targetWF T = true) (h2 : policyIdsManaged T = true) : TargetFacts T := by
  unfold targetWF at h1
  simp only [Bool.and_eq_true, idsNodup_iff, List.all_eq_true] at h1
  obtain ⟨⟨⟨⟨⟨a, b⟩, c⟩, d⟩, _⟩, f⟩ := h1
  unfold policyIdsManaged at h2
  simp only [List.all_eq_true] at h2
  refine ⟨a, h2, fun g hg => ⟨(b g hg).1.1, (b g hg).1.2⟩, ?_, c, d, f⟩
  intro g hg he
  have := (b g hg).2
  rw [he] at this
  simp at this

theorem serviceRef_servicePath (id : String) : serviceRef (servicePath id) = some id := cutPrefix_append _ _

theorem serviceRef_some {p x : String} (h : serviceRef p = some x) : p = servicePath x := cutPrefix_some h

/-- `refsDefined`, entry by entry. -/
theorem refsDefined_ep {T : Config} {r : Rule} (h : refsDefined T r = true) :
    (∀ x, groupRef r.src = some x → managed x = true → x ∈ gids T.groups) ∧
    (∀ x, groupRef r.dst = some x → managed x = true → x ∈ gids T.groups) ∧
    (∀ x, serviceRef r.service = some x → managed x = true → x ∈ sids T.services) := by
  unfold refsDefined at h
  simp only [Bool.and_eq_true] at h
  obtain ⟨⟨h1, h2⟩, h3⟩ := h
  refine ⟨?_, ?_, ?_⟩
  · intro x hx hm
    simp only [hx, hm, Bool.not_true, Bool.false_or, List.any_eq_true, beq_iff_eq] at h1
    obtain ⟨g, hg, e⟩ := h1
    exact e ▸ List.mem_map_of_mem (f := (·.id)) hg
  · intro x hx hm
    simp only [hx, hm, Bool.not_true, Bool.false_or, List.any_eq_true, beq_iff_eq] at h2
    obtain ⟨g, hg, e⟩ := h2
    exact e ▸ List.mem_map_of_mem (f := (·.id)) hg
  · intro x hx hm
    simp only [hx, hm, Bool.not_true, Bool.false_or, List.any_eq_true, beq_iff_eq] at h3
    obtain ⟨s, hs, e⟩ := h3
    exact e ▸ List.mem_map_of_mem (f := (·.id)) hs

theorem extRefs_ep {S : Store} {T : Config} (h : extRefsOK S T = true) {p : Policy} (hp : p ∈ T.policies)
    {r : Rule} (hr : r ∈ p.rules) :
    (∀ x, groupRef r.src = some x → managed x = false → hasGroup S x = true) ∧
    (∀ x, groupRef r.dst = some x → managed x = false → hasGroup S x = true) ∧
    (∀ x, serviceRef r.service = some x → managed x = false → hasService S x = true) := by
  unfold extRefsOK at h
  simp only [List.all_eq_true, Bool.and_eq_true] at h
  obtain ⟨⟨h1, h2⟩, h3⟩ := h p hp r hr
  refine ⟨?_, ?_, ?_⟩
  · intro x hx hm; simpa [hx, hm] using h1
  · intro x hx hm; simpa [hx, hm] using h2
  · intro x hx hm; simpa [hx, hm] using h3

theorem unmanagedIndep_ep {S : Store} (h : unmanagedIndep S = true) {p : Policy} (hp : p ∈ S.policies)
    (hm : managed p.id = false) {r : Rule} (hr : r ∈ p.rules) :
    (∀ x, groupRef r.src = some x → managed x = false) ∧ (∀ x, groupRef r.dst = some x → managed x = false) ∧
    (∀ x, serviceRef r.service = some x → managed x = false) := by
  unfold unmanagedIndep at h
  simp only [List.all_eq_true, Bool.or_eq_true, Bool.and_eq_true] at h
  rcases h p hp with h | h
  · rw [hm] at h; cases h
  · obtain ⟨⟨h1, h2⟩, h3⟩ := h r hr
    refine ⟨?_, ?_, ?_⟩
    · intro x hx; simpa [hx] using h1
    · intro x hx; simpa [hx] using h2
    · intro x hx; simpa [hx] using h3


/-! ### The planner's context -/

theorem mem_gids {G : List Group} {g : Group} (h : g ∈ G) : g.id ∈ gids G := List.mem_map_of_mem (f := (·.id)) h

theorem gids_filter_managed {G : List Group} {id : String} :
    id ∈ gids (G.filter (managed ·.id)) ↔ id ∈ gids G ∧ managed id = true := by
  unfold gids
  constructor
  · intro h
    obtain ⟨g, hg, e⟩ := List.mem_map.mp h
    obtain ⟨h1, h2⟩ := List.mem_filter.mp hg
    exact ⟨List.mem_map.mpr ⟨g, h1, e⟩, e ▸ h2⟩
  · rintro ⟨h, hm⟩
    obtain ⟨g, hg, e⟩ := List.mem_map.mp h
    exact List.mem_map.mpr ⟨g, List.mem_filter.mpr ⟨hg, by rw [e]; exact hm⟩, e⟩

structure CtxFacts (diff : Diff) (S : Store) (T : Config) (ctx : Ctx) : Prop where
  ok : CtxOK ctx S.groups
  diff_eq : ctx.diff = diff
  a_eq : ctx.aGroups = sortGroups (load S).groups
  b_dom : ∀ k, k ∈ gids T.groups → ∃ gb, ctx.bmap.lookup k = some gb
  b_of : ∀ k gb, ctx.bmap.lookup k = some gb →
    ∃ gt ∈ T.groups, gt.id = k ∧ gb.addrs.Perm gt.addrs ∧ managed gb.id = true ∧ managed k = true
  b_sorted : ∀ k gb, ctx.bmap.lookup k = some gb → ∃ gt ∈ T.groups, gt.id = k ∧ gb.addrs = sortAddrs gt.addrs

theorem ctxFacts_of {diff : Diff} {S : Store} {T : Config} {ctx : Ctx} (hS : StoreFacts S) (hT : TargetFacts T)
    (hmk : mkCtx diff (load S) T = some ctx) : CtxFacts diff S T ctx := by
  unfold mkCtx at hmk
  simp only at hmk
  cases hg : genUniqGroups ((sortGroups (load S).groups).map (·.id)) (sortGroups T.groups) with
  | none => simp [hg] at hmk
  | some bG =>
    simp only [hg, Option.map_some, Option.some.injEq] at hmk
    subst hmk
    have hb0n : (gids (sortGroups T.groups)).Nodup := by rw [gids_sortGroups]; exact hT.grp_nodup
    have hb0m : ∀ g ∈ sortGroups T.groups, managed g.id = true := by
      intro g hg'
      obtain ⟨g0, hg0, e⟩ := mem_sortGroups hg'
      rw [e]; exact (hT.grp g0 hg0).1
    obtain ⟨hn, hfresh, hman, hsame⟩ := genUniqGroups_spec hg hb0n hb0m
    have hkeys : (bpairs (sortGroups T.groups) bG).map Prod.fst = gids (sortGroups T.groups) := bpairs_keys hsame
    have hlook : ∀ k, List.lookup k (bpairs (sortGroups T.groups) bG).reverse =
        List.lookup k (bpairs (sortGroups T.groups) bG) :=
      fun k => lookup_reverse _ (by rw [hkeys]; exact hb0n) k
    have hmem : ∀ k gb, List.lookup k (bpairs (sortGroups T.groups) bG).reverse = some gb ↔
        (k, gb) ∈ bpairs (sortGroups T.groups) bG := by
      intro k gb
      rw [hlook]
      exact lookup_eq_some_iff _ (by rw [hkeys]; exact hb0n) k gb
    have hload : (load S).groups = S.groups.filter (managed ·.id) := rfl
    have hb_of : ∀ k gb, List.lookup k (bpairs (sortGroups T.groups) bG).reverse = some gb →
        ∃ gt ∈ T.groups, gt.id = k ∧ gb.addrs.Perm gt.addrs ∧ managed gb.id = true ∧ managed k = true := by
      intro k gb h
      obtain ⟨hgb, g0, hg0, hk, hsm⟩ := bpairs_mem hsame ((hmem k gb).mp h)
      obtain ⟨gt, hgt, e⟩ := mem_sortGroups hg0
      refine ⟨gt, hgt, by rw [← hk, e], ?_, hman _ (mem_gids hgb), ?_⟩
      · rw [hsm, e]; exact sortAddrs_perm _
      · rw [← hk, e]; exact (hT.grp gt hgt).1
    have hb_sorted : ∀ k gb, List.lookup k (bpairs (sortGroups T.groups) bG).reverse = some gb →
        ∃ gt ∈ T.groups, gt.id = k ∧ gb.addrs = sortAddrs gt.addrs := by
      intro k gb h
      obtain ⟨_, g0, hg0, hk, hsm⟩ := bpairs_mem hsame ((hmem k gb).mp h)
      obtain ⟨gt, hgt, e⟩ := mem_sortGroups hg0
      exact ⟨gt, hgt, by rw [← hk, e], by rw [hsm, e]⟩
    refine ⟨⟨hS.grp_nodup, ?_, ?_, ?_, ?_, ?_, ?_⟩, rfl, rfl, ?_, hb_of, hb_sorted⟩
    · intro ga hga
      obtain ⟨g, hgm, e⟩ := mem_sortGroups hga
      rw [hload] at hgm
      have hg1 := (List.mem_filter.mp hgm).1
      refine ⟨g, ?_, by rw [e], ?_⟩
      · rw [e]; exact findGroup_mem_nodup hS.grp_nodup hg1
      · rw [e]; exact (sortAddrs_perm _).symm
    · intro ga hga
      obtain ⟨g, hgm, e⟩ := mem_sortGroups hga
      rw [hload] at hgm
      rw [e]
      exact (sortAddrs_perm _).nodup_iff.mpr (hS.addrs g (List.mem_filter.mp hgm).1)
    · intro k gb h hin
      obtain ⟨hgb, _⟩ := bpairs_mem hsame ((hmem k gb).mp h)
      have h1 := hfresh _ (mem_gids hgb)
      apply h1
      show gb.id ∈ gids (sortGroups (load S).groups)
      rw [gids_sortGroups, hload, gids_filter_managed]
      exact ⟨hin, hman _ (mem_gids hgb)⟩
    · intro k1 k2 g1 g2 h1 h2 e
      exact bpairs_inj hsame hn ((hmem k1 g1).mp h1) ((hmem k2 g2).mp h2) e
    · intro k gb h
      obtain ⟨gt, hgt, _, hp, _⟩ := hb_of k gb h
      exact hp.nodup_iff.mpr (hT.grp gt hgt).2
    · intro k gb h he
      obtain ⟨gt, hgt, _, hp, _⟩ := hb_of k gb h
      rw [he] at hp
      exact hT.grp_nonempty gt hgt (List.Perm.nil_eq hp).symm
    · intro k hk
      rw [← gids_sortGroups] at hk
      obtain ⟨g0, hg0, e⟩ := List.mem_map.mp hk
      obtain ⟨v, hv⟩ := bpairs_total hsame hg0
      exact ⟨v, (hmem k v).mpr (e ▸ hv)⟩


/-! ### Hypotheses of the loops -/

theorem ginv_init {ctx : Ctx} {G0 : List Group} (hc : CtxOK ctx G0) : GInv ctx G0 G0 {} :=
  { nodup := hc.g0_nodup, unneeded := fun _ _ _ => rfl, others := fun _ _ _ => rfl,
    nod := fun k n h => by simp at h, inj := fun k1 k2 n h => by simp at h,
    needed_a := fun n h => by simp at h, needed_owned := fun n h => by simp at h,
    ids := fun id h => Or.inl h, grow := fun id h => h }

theorem findGroupLast_none {gs : List Group} {k : String} : findGroupLast gs k = none ↔ k ∉ gids gs := by
  unfold findGroupLast
  rw [findGroup_none]
  simp [gids]

theorem gmb_some {ctx : Ctx} {p : String} {gb : Group} (h : ctx.gmb p = some gb) :
    ∃ k, groupRef p = some k ∧ ctx.bmap.lookup k = some gb := by
  unfold Ctx.gmb at h
  cases hr : groupRef p with
  | none => simp [hr] at h
  | some k => exact ⟨k, rfl, by simpa [hr] using h⟩

theorem aext_ep {diff : Diff} {S : Store} {T : Config} {ctx : Ctx} (hcf : CtxFacts diff S T ctx) {p : String}
    (hep : epOk S p = true) (hga : ctx.gma p = none) : ctx.gmb p = none := by
  cases hb : ctx.gmb p with
  | none => rfl
  | some gb =>
    exfalso
    obtain ⟨k, hk, hl⟩ := gmb_some hb
    obtain ⟨_, _, _, _, _, hmk⟩ := hcf.b_of k gb hl
    unfold epOk at hep
    rw [hk] at hep
    have hin : k ∈ gids S.groups := hasGroup_iff.mp hep
    unfold Ctx.gma at hga
    rw [hk] at hga
    simp only at hga
    rw [findGroupLast_none, hcf.a_eq, gids_sortGroups] at hga
    exact hga (gids_filter_managed.mpr ⟨hin, hmk⟩)

theorem refsOk_parts {S : Store} {r : Rule} (h : refsOk S r = true) :
    epOk S r.src = true ∧ epOk S r.dst = true ∧ svcOk S r.service = true := by
  unfold refsOk at h
  simp only [Bool.and_eq_true] at h
  exact ⟨h.1.1, h.1.2, h.2⟩

theorem brefs_of {diff : Diff} {S S1 : Store} {T : Config} {ctx : Ctx} (hcf : CtxFacts diff S T ctx)
    (hT : TargetFacts T) (hext : extRefsOK S T = true) (hg : S1.groups = S.groups)
    (hs1 : ∀ id, hasService S id = true → hasService S1 id = true)
    (hs2 : ∀ id ∈ sids T.services, hasService S1 id = true)
    {pb : Policy} (hpb : pb ∈ T.policies) {rb : Rule} (hrb : rb ∈ pb.rules) : BRefs ctx S1 rb := by
  obtain ⟨d1, d2, d3⟩ := refsDefined_ep ((hT.rules pb hpb).2 rb hrb)
  obtain ⟨e1, e2, e3⟩ := extRefs_ep hext hpb hrb
  have hep : ∀ p, (∀ x, groupRef p = some x → managed x = true → x ∈ gids T.groups) →
      (∀ x, groupRef p = some x → managed x = false → hasGroup S x = true) →
      ctx.gmb p = none → epOk S1 p = true := by
    intro p hd he hn
    unfold epOk
    cases hr : groupRef p with
    | none => rfl
    | some x =>
      simp only
      cases hm : managed x with
      | true =>
        exfalso
        obtain ⟨gb, hgb⟩ := hcf.b_dom x (hd x hr hm)
        unfold Ctx.gmb at hn
        rw [hr] at hn
        simp only at hn
        rw [hgb] at hn; cases hn
      | false =>
        have := he x hr hm
        unfold hasGroup at this ⊢
        rw [hg]; exact this
  refine ⟨?_, hep _ d1 e1, hep _ d2 e2⟩
  unfold svcOk
  cases hr : serviceRef rb.service with
  | none => rfl
  | some x =>
    simp only
    cases hm : managed x with
    | true => exact hs2 x (d3 x hr hm)
    | false => exact hs1 x (e3 x hr hm)

theorem overB_abort (ctx : Ctx) (A : Config) : ∀ (ps : List Policy) (st : PSt), (overB ctx A ps st).1.abort = st.abort := by
  have hadapt : ∀ (rules : List Rule) (st : PSt), (adaptRules ctx st rules).1.abort = st.abort := by
    intro rules
    induction rules with
    | nil => intro st; rfl
    | cons r rest ih =>
      intro st
      simp only [adaptRules]
      rw [ih, adaptGroup_abort, adaptGroup_abort]
  intro ps
  induction ps with
  | nil => intro st; rfl
  | cons p rest ih =>
    intro st
    unfold overB
    by_cases h : A.policies.any (·.id == p.id) = true
    · simp only [h, if_true]; exact ih st
    · have h' : A.policies.any (·.id == p.id) = false := Bool.eq_false_iff.mpr h
      simp only [h', Bool.false_eq_true, if_false]
      rw [ih]
      simp only [createPolicy]
      exact hadapt _ _


/-! ### The whole plan -/

theorem plan_eq {diff : Diff} {A B : Config} {ctx : Ctx} (hmk : mkCtx diff A B = some ctx) :
    plan diff A B =
      { calls := (planServices A.services B.services).1 ++ (overA ctx B A.policies {}).2 ++
          (overB ctx A B.policies (overA ctx B A.policies {}).1).2 ++
          (A.services.filter (!(planServices A.services B.services).2.contains ·.id)).map (Call.deleteService ·.id) ++
          (A.groups.filter (!(overB ctx A B.policies (overA ctx B A.policies {}).1).1.needed.contains ·.id)).map
            (Call.deleteGroup ·.id)
        abort := (overB ctx A B.policies (overA ctx B A.policies {}).1).1.abort
        needed := (overB ctx A B.policies (overA ctx B A.policies {}).1).1.needed
        nod := (overB ctx A B.policies (overA ctx B A.policies {}).1).1.nod } := by
  simp [plan, hmk]

theorem plan_abort_none_ctx {diff : Diff} {A B : Config} (h : (plan diff A B).abort = none) :
    ∃ ctx, mkCtx diff A B = some ctx := by
  cases hmk : mkCtx diff A B with
  | some ctx => exact ⟨ctx, rfl⟩
  | none => simp [plan, hmk] at h

theorem findService_mem_nodup {ss : List Service} {s : Service} (hn : (sids ss).Nodup) (hs : s ∈ ss) :
    findService ss s.id = some s := by
  induction ss with
  | nil => cases hs
  | cons x rest ih =>
    rw [findService_cons]
    simp only [sids, List.map_cons, List.nodup_cons] at hn
    rcases List.mem_cons.mp hs with h | h
    · subst h; simp
    · have hne : x.id ≠ s.id := fun he => hn.1 (he ▸ List.mem_map_of_mem (f := (·.id)) h)
      rw [if_neg hne]
      exact ih hn.2 h

theorem findPolicy_mem_nodup {ps : List Policy} {p : Policy} (hn : (pids ps).Nodup) (hp : p ∈ ps) :
    findPolicy ps p.id = some p := by
  unfold findPolicy
  induction ps with
  | nil => cases hp
  | cons x rest ih =>
    simp only [List.find?_cons]
    simp only [pids, List.map_cons, List.nodup_cons] at hn
    rcases List.mem_cons.mp hp with h | h
    · subst h; simp
    · have hne : x.id ≠ p.id := fun he => hn.1 (he ▸ List.mem_map_of_mem (f := (·.id)) h)
      have : (x.id == p.id) = false := by simpa using hne
      simp only [this]
      exact ih hn.2 h

theorem findPolicy_some {ps : List Policy} {id : String} {p : Policy} (h : findPolicy ps id = some p) :
    p ∈ ps ∧ p.id = id := by
  unfold findPolicy at h
  exact ⟨List.mem_of_find?_eq_some h, by simpa using List.find?_some h⟩

theorem findService_reverse_none {ss : List Service} {id : String} : findService ss.reverse id = none ↔ id ∉ sids ss := by
  rw [findService_none_iff]; simp [sids]

/-- What is known after the service phase and the two policy loops. -/
structure MidFacts (diff : Diff) (S : Store) (T : Config) (ctx : Ctx) (st2 : PSt) (S3 : Store) : Prop where
  ginv : GInv ctx S.groups S3.groups st2
  svc_target : ∀ id ∈ sids T.services,
    (findService S3.services id).map (·.defn) = (findService T.services id).map (·.defn)
  svc_old : ∀ id, hasService S id = true → hasService S3 id = true
  svc_new : ∀ id, hasService S3 id = true → hasService S id = true ∨ id ∈ sids T.services
  svc_frame : ∀ id, id ∉ sids T.services → findService S3.services id = findService S.services id
  pol_nodup : (pids S3.policies).Nodup
  pol_real : ∀ pb ∈ T.policies, Realised ctx st2.nod S3 pb.id pb.rules
  pol_managed : ∀ id, hasPolicy S3 id = true → managed id = true → id ∈ pids T.policies
  pol_frame : ∀ id, managed id = false → findPolicy S3.policies id = findPolicy S.policies id
  needed_svc : ∀ x, x ∈ (planServices (load S).services T.services).2 ↔
    x ∈ sids T.services ∧ (findService (load S).services.reverse x).isSome = true
  keys : ∀ k n, st2.nod.lookup k = some n → TargetKey T k


theorem pids_filter_managed {ps : List Policy} {id : String} :
    id ∈ pids (ps.filter (managed ·.id)) ↔ id ∈ pids ps ∧ managed id = true := by
  unfold pids
  constructor
  · intro h
    obtain ⟨g, hg, e⟩ := List.mem_map.mp h
    obtain ⟨h1, h2⟩ := List.mem_filter.mp hg
    exact ⟨List.mem_map.mpr ⟨g, h1, e⟩, e ▸ h2⟩
  · rintro ⟨h, hm⟩
    obtain ⟨g, hg, e⟩ := List.mem_map.mp h
    exact List.mem_map.mpr ⟨g, List.mem_filter.mpr ⟨hg, by rw [e]; exact hm⟩, e⟩

theorem any_id_iff {ps : List Policy} {id : String} : ps.any (·.id == id) = true ↔ id ∈ pids ps := by
  unfold pids
  rw [List.any_eq_true]
  constructor
  · rintro ⟨p, hp, he⟩; exact List.mem_map.mpr ⟨p, hp, by simpa using he⟩
  · intro h
    obtain ⟨p, hp, he⟩ := List.mem_map.mp h
    exact ⟨p, hp, by simpa using he⟩

theorem eq_of_id_eq {ps : List Policy} (hn : (pids ps).Nodup) {p q : Policy} (hp : p ∈ ps) (hq : q ∈ ps)
    (e : p.id = q.id) : p = q := by
  have h1 := findPolicy_mem_nodup hn hp
  have h2 := findPolicy_mem_nodup hn hq
  rw [e] at h1
  rw [h1] at h2
  exact Option.some.inj h2

/-- Service phase and both policy loops. -/
theorem plan_mid {diff : Diff} (hdiff : ∀ n m eq, validScript n m eq (diff n m eq) = true)
    {S : Store} {T : Config} {ctx : Ctx} (hS : StoreFacts S) (hT : TargetFacts T)
    (hext : extRefsOK S T = true) (hmk : mkCtx diff (load S) T = some ctx)
    (hab : (overB ctx (load S) T.policies (overA ctx T (load S).policies {}).1).1.abort = none) :
    ∃ S3, run S ((planServices (load S).services T.services).1 ++ (overA ctx T (load S).policies {}).2 ++
          (overB ctx (load S) T.policies (overA ctx T (load S).policies {}).1).2) = some S3 ∧
      MidFacts diff S T ctx (overB ctx (load S) T.policies (overA ctx T (load S).policies {}).1).1 S3 := by
  have hcf := ctxFacts_of (diff := diff) hS hT hmk
  have hc := hcf.ok
  have hdiff' : ∀ n m eq, validScript n m eq (ctx.diff n m eq) = true := by rw [hcf.diff_eq]; exact hdiff
  have hloadS : (load S).services = S.services.filter (managed ·.id) := rfl
  have hloadP : (load S).policies = S.policies.filter (managed ·.id) := rfl
  -- 1. services
  obtain ⟨S1, hrun1, hg1, hp1, hsmono, hsnew, hsframe, hsdef, hsneeded⟩ :=
    planSvc_spec (load S).services T.services [] S
      (by
        intro sb hsb _ hnone
        rw [Bool.eq_false_iff]
        intro hhas
        rw [findService_reverse_none, hloadS] at hnone
        apply hnone
        obtain ⟨s, hs, e⟩ := List.mem_map.mp (hasService_iff.mp hhas)
        exact List.mem_map.mpr ⟨s, List.mem_filter.mpr ⟨hs, by rw [e]; exact hT.svc sb hsb⟩, e⟩)
      (by
        intro sb _ _ sa hsa
        obtain ⟨hm, hid⟩ := findService_some hsa
        have hm' : sa ∈ S.services := (List.mem_filter.mp (List.mem_reverse.mp hm)).1
        rw [← hid, findService_mem_nodup hS.svc_nodup hm']; rfl)
  have hrunSvc : run S (planServices (load S).services T.services).1 = some S1 := hrun1
  have hle1 : GroupsLE S S1 := fun id h => by rw [hg1]; exact h
  -- 2. device policies
  have hpidsA : (pids (load S).policies).Nodup := by
    rw [hloadP]; exact (List.Sublist.map _ List.filter_sublist).nodup hS.pol_nodup
  have hginv1 : GInv ctx S.groups S1.groups {} := by rw [hg1]; exact ginv_init hc
  have hAok : ∀ pa ∈ (load S).policies, APolOK ctx S1 pa := by
    intro pa hpa
    have hpaS : pa ∈ S.policies := (List.mem_filter.mp hpa).1
    obtain ⟨hr1, hr2⟩ := hS.rules pa hpaS
    refine ⟨pa, by rw [hp1]; exact findPolicy_mem_nodup hS.pol_nodup hpaS, rfl, hr1, ?_⟩
    intro ra hra
    have hrefs := hr2 ra hra
    obtain ⟨e1, e2, _⟩ := refsOk_parts hrefs
    exact ⟨refsOk_mono' hsmono hle1 hrefs, fun h => aext_ep hcf e1 h, fun h => aext_ep hcf e2 h⟩
  have hsT : ∀ id ∈ sids T.services, hasService S1 id = true := by
    intro id hid
    have := hsdef id (by simp) hid
    cases hf : findService S1.services id with
    | none =>
      rw [hf] at this
      cases hf' : findService T.services id with
      | none => exact absurd hid (findService_none_iff.mp hf')
      | some t => rw [hf'] at this; cases this
    | some s =>
      obtain ⟨hm, he⟩ := findService_some hf
      exact hasService_iff.mpr (he ▸ List.mem_map_of_mem (f := (·.id)) hm)
  have hBok1 : ∀ pb ∈ T.policies, BPolOK ctx S1 pb := fun pb hpb =>
    ⟨(hT.rules pb hpb).1, fun rb hrb => brefs_of hcf hT hext hg1 hsmono hsT hpb hrb⟩
  have habA : (overA ctx T (load S).policies {}).1.abort = none := by
    rw [overB_abort] at hab; exact hab
  obtain ⟨S2, hrun2, hinv2, hmono2, hsv2, hle2, hframe2, hnonew2, hndp2, hres2⟩ :=
    overA_spec hc hdiff' T (load S).policies S1 {} hpidsA hginv1 hAok hBok1 habA
  -- 3. new policies
  obtain ⟨S3, hrun3, hinv3, hmono3, hsv3, hle3, hframe3, hnonew3, hndp3, hres3⟩ :=
    overB_spec hc (load S) T.policies S2 (overA ctx T (load S).policies {}).1 hT.pol_nodup hinv2
      (fun pb hpb => (hBok1 pb hpb).mono hsv2 hle2)
      (by
        intro pb hpb hany
        rw [Bool.eq_false_iff]
        intro hhas
        have h1 := hnonew2 pb.id hhas
        rw [hasPolicy_mem, hp1] at h1
        have : pb.id ∈ pids (load S).policies := by
          rw [hloadP]; exact pids_filter_managed.mpr ⟨h1, hT.pol_managed pb hpb⟩
        rw [← any_id_iff, hany] at this
        cases this)
  refine ⟨S3, ?_, ?_⟩
  · rw [List.append_assoc, run_append hrunSvc, run_append hrun2]; exact hrun3
  · have hsvc3 : S3.services = S1.services := hsv3.trans hsv2
    have hhas3 : ∀ id, hasService S3 id = hasService S1 id := fun id => by unfold hasService; rw [hsvc3]
    refine { ginv := hinv3, svc_target := ?_, svc_old := ?_, svc_new := ?_, svc_frame := ?_, pol_nodup := ?_,
             pol_real := ?_, pol_managed := ?_, pol_frame := ?_, needed_svc := ?_, keys := ?_ }
    · intro id hid; rw [hsvc3]; exact hsdef id (by simp) hid
    · intro id h; rw [hhas3]; exact hsmono id h
    · intro id h; rw [hhas3] at h; exact hsnew id h
    · intro id hid; rw [hsvc3]; exact hsframe id (Or.inr hid)
    · exact hndp3 (hndp2 (by rw [hp1]; exact hS.pol_nodup))
    · intro pb hpb
      by_cases hin : pb.id ∈ pids (load S).policies
      · obtain ⟨pa, hpa, e⟩ := List.mem_map.mp hin
        have h2 := hres2 pa hpa
        cases hfl : findPolicyLast T.policies pa.id with
        | none =>
          exfalso
          unfold findPolicyLast at hfl
          rw [findPolicy, List.find?_eq_none] at hfl
          exact hfl pb (List.mem_reverse.mpr hpb) (by simpa using e.symm)
        | some pb' =>
          rw [hfl] at h2
          simp only at h2
          obtain ⟨hm', hid'⟩ := findPolicyLast_mem hfl
          have : pb' = pb := eq_of_id_eq hT.pol_nodup hm' hpb (by rw [hid']; exact e)
          subst this
          have e' : pa.id = pb'.id := e
          rw [e'] at h2
          exact h2.transport hmono3 (hframe3 pb'.id (Or.inr (any_id_iff.mpr hin)))
      · exact hres3 pb hpb (Bool.eq_false_iff.mpr fun h => hin (any_id_iff.mp h))
    · intro id hhas hm
      rcases hnonew3 id hhas with h | h
      · have h1 := hnonew2 id h
        rw [hasPolicy_mem, hp1] at h1
        have hinA : id ∈ pids (load S).policies := by rw [hloadP]; exact pids_filter_managed.mpr ⟨h1, hm⟩
        obtain ⟨pa, hpa, e⟩ := List.mem_map.mp hinA
        have h2 := hres2 pa hpa
        cases hfl : findPolicyLast T.policies pa.id with
        | none =>
          rw [hfl] at h2
          simp only at h2
          obtain ⟨p, hp⟩ := hasPolicy_iff.mp h
          have e' : pa.id = id := e
          rw [e'] at h2
          rw [h2] at hp; cases hp
        | some pb' =>
          obtain ⟨hm', hid'⟩ := findPolicyLast_mem hfl
          have e' : pa.id = id := e
          exact e' ▸ hid' ▸ List.mem_map_of_mem (f := (·.id)) hm'
      · exact h
    · intro id hm
      have h1 : id ∉ pids T.policies := by
        intro h
        obtain ⟨pb, hpb, e⟩ := List.mem_map.mp h
        have := hT.pol_managed pb hpb
        have e' : pb.id = id := e
        rw [e', hm] at this; cases this
      have h2 : id ∉ pids (load S).policies := by
        intro h
        rw [hloadP] at h
        have := (pids_filter_managed.mp h).2
        rw [hm] at this; cases this
      rw [hframe3 id (Or.inl h1), hframe2 id h2, hp1]
    · intro x
      have := hsneeded x
      simpa [planServices] using this
    · intro k n h
      have hk := ((overA_keys ctx T (load S).policies {}).trans
        (overB_keys ctx (load S) T T.policies _ (fun _ hp => hp))) k n h
      rcases hk with h0 | h0
      · simp at h0
      · exact h0


/-! ### From realisation to the specification's equivalence -/

theorem Forall2_perm_right {α β : Type} {R : α → β → Prop} {l : List α} {m m' : List β}
    (h : Forall2 R l m) (hp : m.Perm m') : ∃ l', l.Perm l' ∧ Forall2 R l' m' := by
  induction hp generalizing l with
  | nil => exact ⟨l, List.Perm.refl _, h⟩
  | cons x _ ih =>
    cases h with
    | cons hab hrest =>
      obtain ⟨l', hl', hf⟩ := ih hrest
      exact ⟨_ :: l', List.Perm.cons _ hl', .cons hab hf⟩
  | swap x y _ =>
    cases h with
    | cons hab hrest =>
      cases hrest with
      | cons hab2 hrest2 => exact ⟨_, List.Perm.swap _ _ _, .cons hab2 (.cons hab hrest2)⟩
  | trans _ _ ih1 ih2 =>
    obtain ⟨l1, hl1, hf1⟩ := ih1 h
    obtain ⟨l2, hl2, hf2⟩ := ih2 hf1
    exact ⟨l2, hl1.trans hl2, hf2⟩

theorem Forall2.exists_left {α β : Type} {R : α → β → Prop} {l : List α} {m : List β} (h : Forall2 R l m)
    {y : β} (hy : y ∈ m) : ∃ x ∈ l, R x y := by
  induction h with
  | nil => cases hy
  | cons hab _ ih =>
    rcases List.mem_cons.mp hy with e | e
    · subst e; exact ⟨_, List.mem_cons_self, hab⟩
    · obtain ⟨x, hx, hr⟩ := ih e
      exact ⟨x, List.mem_cons_of_mem _ hx, hr⟩

theorem Forall2.comp {α β γ : Type} {R : α → β → Prop} {Q : β → γ → Prop} {P : α → γ → Prop}
    (hpq : ∀ a b c, R a b → Q b c → P a c) {l : List α} {m : List β} {n : List γ}
    (h1 : Forall2 R l m) (h2 : Forall2 Q m n) : Forall2 P l n := by
  induction h1 generalizing n with
  | nil => cases h2; exact .nil
  | cons hab _ ih =>
    cases h2 with
    | cons hbc hrest => exact .cons (hpq _ _ _ hab hbc) (ih hrest)

theorem RuleReal.of_same {ctx : Ctx} {nod : List (String × String)} {r b rb : Rule} (h : RuleReal ctx nod r b)
    (hs : SameButId b rb) : RuleReal ctx nod r rb := by
  unfold SameButId at hs
  rw [hs] at h
  exact h

/-- A realised policy, rule by rule and in the order of the target. -/
theorem Realised.ordered {ctx : Ctx} {nod : List (String × String)} {S : Store} {pid : String} {tr : List Rule}
    (h : Realised ctx nod S pid tr) :
    ∃ p L, findPolicy S.policies pid = some p ∧ p.rules.Perm L ∧ Forall2 (RuleReal ctx nod) L tr := by
  obtain ⟨p, L, B, bR, h1, h2, h3, h4, h5⟩ := h
  obtain ⟨L', hL', hf⟩ := Forall2_perm_right h3 h4
  exact ⟨p, L', h1, h2.trans hL', Forall2.comp (fun _ _ _ hr hs => hr.of_same hs) hf h5⟩

theorem findGroup_filter_keep (G : List Group) (q : Group → Bool) (id : String)
    (hq : ∀ g ∈ G, g.id = id → q g = true) : findGroup (G.filter q) id = findGroup G id := by
  unfold findGroup
  induction G with
  | nil => rfl
  | cons g rest ih =>
    simp only [List.filter_cons, List.find?_cons]
    by_cases he : g.id = id
    · have : q g = true := hq g List.mem_cons_self he
      simp [this, he]
    · have h1 : (g.id == id) = false := by simpa using he
      by_cases hqg : q g = true
      · simp only [hqg, if_true, List.find?_cons, h1]
        exact ih fun g' hg' => hq g' (List.mem_cons_of_mem _ hg')
      · have hqg' : q g = false := Bool.eq_false_iff.mpr hqg
        simp only [hqg', Bool.false_eq_true, if_false, h1]
        exact ih fun g' hg' => hq g' (List.mem_cons_of_mem _ hg')

theorem findService_filter_keep (ss : List Service) (q : Service → Bool) (id : String)
    (hq : ∀ s ∈ ss, s.id = id → q s = true) : findService (ss.filter q) id = findService ss id := by
  unfold findService
  induction ss with
  | nil => rfl
  | cons g rest ih =>
    simp only [List.filter_cons, List.find?_cons]
    by_cases he : g.id = id
    · have : q g = true := hq g List.mem_cons_self he
      simp [this, he]
    · have h1 : (g.id == id) = false := by simpa using he
      by_cases hqg : q g = true
      · simp only [hqg, if_true, List.find?_cons, h1]
        exact ih fun g' hg' => hq g' (List.mem_cons_of_mem _ hg')
      · have hqg' : q g = false := Bool.eq_false_iff.mpr hqg
        simp only [hqg', Bool.false_eq_true, if_false, h1]
        exact ih fun g' hg' => hq g' (List.mem_cons_of_mem _ hg')

theorem eq_of_gid_eq {G : List Group} (hn : (gids G).Nodup) {g h : Group} (hg : g ∈ G) (hh : h ∈ G)
    (e : g.id = h.id) : g = h := by
  have h1 := findGroup_mem_nodup hn hg
  have h2 := findGroup_mem_nodup hn hh
  rw [e] at h1
  rw [h1] at h2
  exact Option.some.inj h2


/-- An entry realising a target entry never names a device group that was not claimed. -/
theorem epreal_not_unclaimed {diff : Diff} {S : Store} {T : Config} {ctx : Ctx} {st : PSt} {G : List Group}
    (hcf : CtxFacts diff S T ctx) (hinv : GInv ctx S.groups G st) {pS pB id : String}
    (h : EPreal ctx st.nod pS pB) (hps : pS = groupPath id) (hin : id ∈ gids S.groups) (hnn : id ∉ st.needed)
    (hmid : managed id = true)
    (hdef : ∀ x, groupRef pB = some x → managed x = true → x ∈ gids T.groups) : False := by
  unfold EPreal at h
  cases hr : groupRef pB with
  | none =>
    simp only [hr] at h
    rw [← h, hps, groupRef_groupPath] at hr; cases hr
  | some k =>
    simp only [hr] at h
    cases hl : ctx.bmap.lookup k with
    | some gb =>
      simp only [hl] at h
      obtain ⟨n, hn, hp⟩ := h
      have : n = id := groupPath_inj (hp.symm.trans hps)
      subst this
      obtain ⟨gb', _, hb', _, _, hor⟩ := hinv.nod k n hn
      rcases hor with ⟨h1, _⟩ | h1
      · exact hnn h1
      · exact hcf.ok.b_fresh k gb' hb' (h1 ▸ hin)
    | none =>
      simp only [hl] at h
      rw [← h, hps, groupRef_groupPath] at hr
      have : k = id := (Option.some.inj hr).symm
      subst this
      obtain ⟨gb, hgb⟩ := hcf.b_dom k (hdef k (by rw [← h, hps, groupRef_groupPath]) hmid)
      rw [hgb] at hl; cases hl

/-- Realisation under the final state implies the specification's equivalence of entries. -/
theorem epequiv_of_epreal {diff : Diff} {S : Store} {T : Config} {ctx : Ctx} {st : PSt} {G G5 : List Group}
    (hcf : CtxFacts diff S T ctx) (hT : TargetFacts T) (hinv : GInv ctx S.groups G st)
    (hkeep : ∀ n, (n ∈ st.needed ∨ n ∉ gids S.groups) → findGroup G5 n = findGroup G n)
    {pS pB : String} (h : EPreal ctx st.nod pS pB) : EPEquiv G5 T.groups pS pB := by
  unfold EPEquiv targetGroup
  unfold EPreal at h
  cases hr : groupRef pB with
  | none => simp only [hr] at h ⊢; exact h
  | some x =>
    simp only [hr] at h ⊢
    have hnone : ctx.bmap.lookup x = none → pS = pB := fun hl => by simpa [hl] using h
    cases hm : managed x with
    | false =>
      simp only [Bool.false_eq_true, if_false]
      cases hl : ctx.bmap.lookup x with
      | none => exact hnone hl
      | some gb =>
        obtain ⟨_, _, _, _, _, hmk⟩ := hcf.b_of x gb hl
        rw [hm] at hmk; cases hmk
    | true =>
      simp only [if_true]
      cases hfl : findGroupLast T.groups x with
      | none =>
        simp only
        cases hl : ctx.bmap.lookup x with
        | none => exact hnone hl
        | some gb =>
          obtain ⟨gt, hgt, hid, _⟩ := hcf.b_of x gb hl
          exact absurd (hid ▸ mem_gids hgt) (findGroupLast_none.mp hfl)
      | some gt =>
        simp only
        unfold findGroupLast at hfl
        obtain ⟨hgtm, hgtid⟩ := findGroup_some hfl
        have hgtm' : gt ∈ T.groups := List.mem_reverse.mp hgtm
        obtain ⟨gb, hgb⟩ := hcf.b_dom x (hgtid ▸ mem_gids hgtm')
        simp only [hgb] at h
        obtain ⟨n, hn, hp⟩ := h
        obtain ⟨gb', g, hb', hfg, hmem, hor⟩ := hinv.nod x n hn
        rw [hgb] at hb'
        have : gb' = gb := (Option.some.inj hb').symm
        subst this
        obtain ⟨gt', hgt', hid', hperm, _⟩ := hcf.b_of x gb' hgb
        have : gt' = gt := eq_of_gid_eq hT.grp_nodup hgt' hgtm' (by rw [hid', hgtid])
        subst this
        obtain ⟨_, _, _, _, hmgb, _⟩ := hcf.b_of x gb' hgb
        have hmn : managed n = true := by
          rcases hor with ⟨_, h2⟩ | h1
          · rw [hcf.a_eq, gids_sortGroups] at h2
            exact (gids_filter_managed.mp h2).2
          · rw [h1]; exact hmgb
        refine ⟨n, g, hp, hmn, ?_, fun y => by rw [hmem y, hperm.mem_iff]⟩
        rw [hkeep n ?_]; exact hfg
        rcases hor with ⟨h1, _⟩ | h1
        · exact Or.inl h1
        · exact Or.inr (h1 ▸ hcf.ok.b_fresh x gb' hgb)


theorem sids_filter_managed {ss : List Service} {id : String} :
    id ∈ sids (ss.filter (managed ·.id)) ↔ id ∈ sids ss ∧ managed id = true := by
  unfold sids
  constructor
  · intro h
    obtain ⟨g, hg, e⟩ := List.mem_map.mp h
    obtain ⟨h1, h2⟩ := List.mem_filter.mp hg
    exact ⟨List.mem_map.mpr ⟨g, h1, e⟩, e ▸ h2⟩
  · rintro ⟨h, hm⟩
    obtain ⟨g, hg, e⟩ := List.mem_map.mp h
    exact List.mem_map.mpr ⟨g, List.mem_filter.mpr ⟨hg, by rw [e]; exact hm⟩, e⟩

/-- No two groups with different ids carry the same address set. -/
def DistinctContent (gs : List Group) : Prop :=
  ∀ g1 ∈ gs, ∀ g2 ∈ gs, (∀ x, x ∈ g1.addrs ↔ x ∈ g2.addrs) → g1.id = g2.id

/-- End to end: for every accepted pair and every `diff` returning valid scripts, the whole
script of `diffConfig` is accepted by the strict manager and the state reached is equivalent to
the target, with no managed service or group left over. -/
theorem plan_converges {diff : Diff} (hdiff : ∀ n m eq, validScript n m eq (diff n m eq) = true)
    {S : Store} {T : Config} (hS : StoreFacts S) (hT : TargetFacts T) (hext : extRefsOK S T = true)
    (hind : unmanagedIndep S = true) (hab : (plan diff (load S) T).abort = none) :
    ∃ S', run S (plan diff (load S) T).calls = some S' ∧ Converged S' T ∧ ServicesConverged S' T ∧
      NoLeftoverGroup S' T ∧ (DistinctContent T.groups → DistinctContent (load S').groups) := by
  obtain ⟨ctx, hmk⟩ := plan_abort_none_ctx hab
  rw [plan_eq hmk] at hab ⊢
  simp only at hab ⊢
  have hcf := ctxFacts_of (diff := diff) hS hT hmk
  obtain ⟨S3, hrun3, hmid⟩ := plan_mid hdiff hS hT hext hmk hab
  generalize hst2 : (overB ctx (load S) T.policies (overA ctx T (load S).policies {}).1).1 = st2 at *
  have hinv := hmid.ginv
  -- every policy of S3 is either realised or outside Netspoc's scope and untouched
  have hfind3 : ∀ p ∈ S3.policies, findPolicy S3.policies p.id = some p :=
    fun p hp => findPolicy_mem_nodup hmid.pol_nodup hp
  have hclass : ∀ p ∈ S3.policies,
      (∃ pb ∈ T.policies, pb.id = p.id ∧ ∃ L, p.rules.Perm L ∧ Forall2 (RuleReal ctx st2.nod) L pb.rules) ∨
      (managed p.id = false ∧ p ∈ S.policies) := by
    intro p hp
    cases hm : managed p.id with
    | true =>
      left
      have hin := hmid.pol_managed p.id (hasPolicy_mem.mpr (List.mem_map_of_mem (f := (·.id)) hp)) hm
      obtain ⟨pb, hpb, e⟩ := List.mem_map.mp hin
      obtain ⟨p', L, h1, h2, h3⟩ := (hmid.pol_real pb hpb).ordered
      have e' : pb.id = p.id := e
      rw [e', hfind3 p hp] at h1
      have : p' = p := (Option.some.inj h1).symm
      subst this
      exact ⟨pb, hpb, e', L, h2, h3⟩
    | false =>
      right
      refine ⟨rfl, ?_⟩
      have := hmid.pol_frame p.id hm
      rw [hfind3 p hp] at this
      exact (findPolicy_some this.symm).1
  have hrule : ∀ p ∈ S3.policies, ∀ r ∈ p.rules,
      (∃ pb ∈ T.policies, ∃ rb ∈ pb.rules, RuleReal ctx st2.nod r rb) ∨ (managed p.id = false ∧ p ∈ S.policies) := by
    intro p hp r hr
    rcases hclass p hp with ⟨pb, hpb, _, L, hperm, hf⟩ | h
    · obtain ⟨rb, hrb, hreal⟩ := hf.exists_right (hperm.mem_iff.mp hr)
      exact Or.inl ⟨pb, hpb, rb, hrb, hreal⟩
    · exact Or.inr h
  -- services to delete
  have hmapS : ((load S).services.filter (!(planServices (load S).services T.services).2.contains ·.id)).map
      (Call.deleteService ·.id) =
      (((load S).services.filter (!(planServices (load S).services T.services).2.contains ·.id)).map (·.id)).map
        Call.deleteService := by rw [List.map_map]; rfl
  have hmapG : ((load S).groups.filter (!st2.needed.contains ·.id)).map (Call.deleteGroup ·.id) =
      (((load S).groups.filter (!st2.needed.contains ·.id)).map (·.id)).map Call.deleteGroup := by
    rw [List.map_map]; rfl
  rw [hmapS, hmapG]
  generalize hdsS : ((load S).services.filter (!(planServices (load S).services T.services).2.contains ·.id)).map
      (·.id) = dsS
  generalize hdsG : ((load S).groups.filter (!st2.needed.contains ·.id)).map (·.id) = dsG
  have hloadSv : (load S).services = S.services.filter (managed ·.id) := rfl
  have hloadG : (load S).groups = S.groups.filter (managed ·.id) := rfl
  have hdsS_mem : ∀ id, id ∈ dsS ↔ id ∈ sids S.services ∧ managed id = true ∧ id ∉ sids T.services := by
    intro id
    rw [← hdsS]
    constructor
    · intro h
      obtain ⟨s, hs, e⟩ := List.mem_map.mp h
      obtain ⟨hs1, hs2⟩ := List.mem_filter.mp hs
      have hin : id ∈ sids (load S).services := e ▸ List.mem_map_of_mem (f := (·.id)) hs1
      rw [hloadSv, sids_filter_managed] at hin
      refine ⟨hin.1, hin.2, ?_⟩
      intro hT'
      have hneeded : id ∈ (planServices (load S).services T.services).2 := by
        rw [hmid.needed_svc]
        refine ⟨hT', ?_⟩
        cases hf : findService (load S).services.reverse id with
        | some _ => rfl
        | none =>
          rw [findService_reverse_none, hloadSv, sids_filter_managed] at hf
          exact absurd hin hf
      have e' : s.id = id := e
      rw [e'] at hs2
      simp only [Bool.not_eq_eq_eq_not, Bool.not_true, List.contains_eq_mem, decide_eq_false_iff_not] at hs2
      exact hs2 hneeded
    · rintro ⟨h1, h2, h3⟩
      have hin : id ∈ sids (load S).services := by rw [hloadSv, sids_filter_managed]; exact ⟨h1, h2⟩
      obtain ⟨s, hs, e⟩ := List.mem_map.mp hin
      refine List.mem_map.mpr ⟨s, List.mem_filter.mpr ⟨hs, ?_⟩, e⟩
      have e' : s.id = id := e
      rw [e']
      simp only [Bool.not_eq_eq_eq_not, Bool.not_true, List.contains_eq_mem, decide_eq_false_iff_not]
      intro hn
      exact h3 ((hmid.needed_svc id).mp hn).1
  have hdsS_nodup : dsS.Nodup := by
    rw [← hdsS]
    exact (List.Sublist.map _ (List.filter_sublist.trans List.filter_sublist)).nodup hS.svc_nodup
  have hdsG_mem : ∀ id, id ∈ dsG ↔ id ∈ gids S.groups ∧ managed id = true ∧ id ∉ st2.needed := by
    intro id
    rw [← hdsG]
    constructor
    · intro h
      obtain ⟨g, hg, e⟩ := List.mem_map.mp h
      obtain ⟨hg1, hg2⟩ := List.mem_filter.mp hg
      have hin : id ∈ gids (load S).groups := e ▸ List.mem_map_of_mem (f := (·.id)) hg1
      rw [hloadG, gids_filter_managed] at hin
      refine ⟨hin.1, hin.2, ?_⟩
      have e' : g.id = id := e
      rw [e'] at hg2
      simpa using hg2
    · rintro ⟨h1, h2, h3⟩
      have hin : id ∈ gids (load S).groups := by rw [hloadG, gids_filter_managed]; exact ⟨h1, h2⟩
      obtain ⟨g, hg, e⟩ := List.mem_map.mp hin
      refine List.mem_map.mpr ⟨g, List.mem_filter.mpr ⟨hg, ?_⟩, e⟩
      have e' : g.id = id := e
      rw [e']
      simpa using h3
  have hdsG_nodup : dsG.Nodup := by
    rw [← hdsG]
    exact (List.Sublist.map _ (List.filter_sublist.trans List.filter_sublist)).nodup hS.grp_nodup
  -- 4. services are deleted
  obtain ⟨S4, hrun4, hg4, hp4, hs4⟩ := delServices_spec dsS S3 (by
    intro id hid
    obtain ⟨h1, h2, h3⟩ := (hdsS_mem id).mp hid
    refine ⟨hmid.svc_old id (hasService_iff.mpr h1), ?_⟩
    rw [Bool.eq_false_iff]
    intro hused
    unfold serviceUsed at hused
    rw [List.any_eq_true] at hused
    obtain ⟨p, hp, hany⟩ := hused
    rw [List.any_eq_true] at hany
    obtain ⟨r, hr, he⟩ := hany
    have he' : r.service = servicePath id := by simpa using he
    rcases hrule p hp r hr with ⟨pb, hpb, rb, hrb, hreal⟩ | ⟨hm, hpS⟩
    · obtain ⟨_, _, d3⟩ := refsDefined_ep ((hT.rules pb hpb).2 rb hrb)
      exact h3 (d3 id (by rw [← hreal.2.1, he', serviceRef_servicePath]) h2)
    · obtain ⟨_, _, u3⟩ := unmanagedIndep_ep hind hpS hm hr
      have := u3 id (by rw [he', serviceRef_servicePath])
      rw [h2] at this; cases this) hdsS_nodup
  -- 5. groups are deleted
  obtain ⟨S5, hrun5, hs5, hp5, hg5⟩ := delGroups_spec dsG S4 (by
    intro id hid
    obtain ⟨h1, h2, h3⟩ := (hdsG_mem id).mp hid
    refine ⟨?_, ?_⟩
    · rw [hasGroup_iff, hg4]; exact hinv.grow id h1
    · rw [Bool.eq_false_iff]
      intro hused
      unfold groupUsed at hused
      rw [List.any_eq_true] at hused
      obtain ⟨p, hp, hany⟩ := hused
      rw [hp4] at hp
      rw [List.any_eq_true] at hany
      obtain ⟨r, hr, he⟩ := hany
      unfold ruleUsesGroup at he
      rcases hrule p hp r hr with ⟨pb, hpb, rb, hrb, hreal⟩ | ⟨hm, hpS⟩
      · obtain ⟨d1, d2, _⟩ := refsDefined_ep ((hT.rules pb hpb).2 rb hrb)
        rcases Bool.or_eq_true_iff.mp he with e | e
        · exact epreal_not_unclaimed hcf hinv hreal.2.2.1 (by simpa using e) h1 h3 h2 d1
        · exact epreal_not_unclaimed hcf hinv hreal.2.2.2 (by simpa using e) h1 h3 h2 d2
      · obtain ⟨u1, u2, _⟩ := unmanagedIndep_ep hind hpS hm hr
        rcases Bool.or_eq_true_iff.mp he with e | e
        · have := u1 id (by rw [show r.src = groupPath id by simpa using e, groupRef_groupPath])
          rw [h2] at this; cases this
        · have := u2 id (by rw [show r.dst = groupPath id by simpa using e, groupRef_groupPath])
          rw [h2] at this; cases this) hdsG_nodup
  have hpol5 : S5.policies = S3.policies := hp5.trans hp4
  have hgrp5 : S5.groups = S3.groups.filter (fun g => !dsG.contains g.id) := by rw [hg5, hg4]
  have hsvc5 : S5.services = S3.services.filter (fun s => !dsS.contains s.id) := by rw [hs5, hs4]
  have hkeep : ∀ n, (n ∈ st2.needed ∨ n ∉ gids S.groups) → findGroup S5.groups n = findGroup S3.groups n := by
    intro n hn
    rw [hgrp5]
    apply findGroup_filter_keep
    intro g _ hgid
    have : n ∉ dsG := by
      intro hd
      obtain ⟨h1, _, h3⟩ := (hdsG_mem n).mp hd
      rcases hn with hn | hn
      · exact h3 hn
      · exact hn h1
    rw [hgid]
    simpa using this
  refine ⟨S5, ?_, ⟨?_, ?_⟩, ⟨?_, ?_⟩, ?_, ?_⟩
  · rw [List.append_assoc, run_append hrun3, run_append hrun4]; exact hrun5
  · -- every target policy is there with equivalent rules
    intro pb hpb
    obtain ⟨p, L, h1, h2, h3⟩ := (hmid.pol_real pb hpb).ordered
    refine ⟨p, L, by rw [hpol5]; exact h1, h2, h3.imp fun r rb hr => ?_⟩
    exact ⟨hr.1, hr.2.1, epequiv_of_epreal hcf hT hinv hkeep hr.2.2.1, epequiv_of_epreal hcf hT hinv hkeep hr.2.2.2⟩
  · -- every managed policy left is a target policy
    intro p hp hm
    rw [hpol5] at hp
    have hin := hmid.pol_managed p.id (hasPolicy_mem.mpr (List.mem_map_of_mem (f := (·.id)) hp)) hm
    obtain ⟨pb, hpb, e⟩ := List.mem_map.mp hin
    exact ⟨pb, hpb, e⟩
  · -- target services carry the target's definition
    intro t ht
    have hin : t.id ∈ sids T.services := List.mem_map_of_mem (f := (·.id)) ht
    rw [hsvc5, findService_filter_keep]
    · exact hmid.svc_target t.id hin
    · intro s _ hsid
      have : t.id ∉ dsS := fun hd => ((hdsS_mem t.id).mp hd).2.2 hin
      rw [hsid]; simpa using this
  · -- no managed service is left that the target does not define
    intro s hs hm
    rw [hsvc5] at hs
    obtain ⟨hs3, hkeepS⟩ := List.mem_filter.mp hs
    have hnot : s.id ∉ dsS := by simpa using hkeepS
    have hhas3 : hasService S3 s.id = true := hasService_iff.mpr (List.mem_map_of_mem (f := (·.id)) hs3)
    have hinT : s.id ∈ sids T.services := by
      rcases hmid.svc_new s.id hhas3 with h | h
      · by_cases hn : s.id ∈ sids T.services
        · exact hn
        · exact absurd ((hdsS_mem s.id).mpr ⟨hasService_iff.mp h, hm, hn⟩) hnot
      · exact h
    obtain ⟨t, ht, e⟩ := List.mem_map.mp hinT
    exact ⟨t, ht, e⟩
  · -- no managed group is left that no target rule uses
    intro g hg hm
    rw [hgrp5] at hg
    obtain ⟨hg3, hkeepG⟩ := List.mem_filter.mp hg
    have hnot : g.id ∉ dsG := by simpa using hkeepG
    have hown : ∃ k, st2.nod.lookup k = some g.id := by
      rcases hinv.ids g.id (mem_gids hg3) with h0 | ⟨k, _, hk, _, _⟩
      · apply hinv.needed_owned
        by_cases hn : g.id ∈ st2.needed
        · exact hn
        · exact absurd ((hdsG_mem g.id).mpr ⟨h0, hm, hn⟩) hnot
      · exact ⟨k, hk⟩
    obtain ⟨k, hk⟩ := hown
    obtain ⟨pb, hpb, rb, hrb, hrefs⟩ := hmid.keys k g.id hk
    obtain ⟨p, L, h1, h2, h3⟩ := (hmid.pol_real pb hpb).ordered
    obtain ⟨r, hrL, hreal⟩ := h3.exists_left hrb
    have hr : r ∈ p.rules := h2.mem_iff.mpr hrL
    obtain ⟨hpm, hpid⟩ := findPolicy_some h1
    refine ⟨p, by rw [hpol5]; exact hpm, ⟨pb, hpb, hpid.symm⟩, r, hr, ?_⟩
    obtain ⟨gb, _, hgb, _, _, _⟩ := hinv.nod k g.id hk
    have huse : ∀ pS pB, EPreal ctx st2.nod pS pB → groupRef pB = some k → pS = groupPath g.id := by
      intro pS pB hep hr'
      unfold EPreal at hep
      simp only [hr', hgb] at hep
      obtain ⟨n, hn, hp⟩ := hep
      rw [hk] at hn
      rw [hp, ← Option.some.inj hn]
    unfold ruleUsesGroup
    rcases hrefs with h | h
    · simp [huse _ _ hreal.2.2.1 h]
    · simp [huse _ _ hreal.2.2.2 h]
  · -- managed groups left carry the contents of pairwise different target groups
    intro hdT g1 hg1 g2 hg2 hsame
    have hname : ∀ g ∈ (load S5).groups, ∃ k gt, st2.nod.lookup k = some g.id ∧ gt ∈ T.groups ∧ gt.id = k ∧
        ∀ x, x ∈ g.addrs ↔ x ∈ gt.addrs := by
      intro g hg
      obtain ⟨hgS5, hm⟩ := List.mem_filter.mp hg
      rw [hgrp5] at hgS5
      obtain ⟨hg3, hkeepG⟩ := List.mem_filter.mp hgS5
      have hnot : g.id ∉ dsG := by simpa using hkeepG
      have hown : ∃ k, st2.nod.lookup k = some g.id := by
        rcases hinv.ids g.id (mem_gids hg3) with h0 | ⟨k, _, hk, _, _⟩
        · apply hinv.needed_owned
          by_cases hn : g.id ∈ st2.needed
          · exact hn
          · exact absurd ((hdsG_mem g.id).mpr ⟨h0, hm, hn⟩) hnot
        · exact ⟨k, hk⟩
      obtain ⟨k, hk⟩ := hown
      obtain ⟨gb, g', hgb, hfg, hmem, _⟩ := hinv.nod k g.id hk
      have : g' = g := by
        have := findGroup_mem_nodup hinv.nodup hg3
        rw [hfg] at this
        exact Option.some.inj this
      subst this
      obtain ⟨gt, hgt, hid, hperm, _⟩ := hcf.b_of k gb hgb
      exact ⟨k, gt, hk, hgt, hid, fun x => by rw [hmem x, hperm.mem_iff]⟩
    obtain ⟨k1, gt1, hk1, hgt1, hid1, hm1⟩ := hname g1 hg1
    obtain ⟨k2, gt2, hk2, hgt2, hid2, hm2⟩ := hname g2 hg2
    have := hdT gt1 hgt1 gt2 hgt2 (fun x => by rw [← hm1 x, ← hm2 x, hsame x])
    rw [hid1, hid2] at this
    rw [this, hk2] at hk1
    exact (Option.some.inj hk1).symm

end NA.Nsx
