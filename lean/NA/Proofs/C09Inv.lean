import NA.Proofs.C09Trace
/-!
# C09: the invariant and how the constructs of the session language preserve it

`J bad s`: no change command or save follows a bad reply in `s.tr`; a state that still runs
normally has seen no bad reply; a function returns after a bad reply only with an error.
-/
namespace NA.C09
open NA.Sess NA.Apply NA.Spec.C09

variable (bad : Role → Reply → Bool)

structure J (s : St) : Prop where
  safe : safe bad s.tr = true
  run : s.mode = .run → faulted bad s.tr = false
  cont : s.mode = .cont → faulted bad s.tr = false
  ret : s.mode = .ret → faulted bad s.tr = true → s.errv = true

/-- the same, but an error value may be pending in a state that runs -/
structure Je (s : St) : Prop where
  safe : safe bad s.tr = true
  run : s.mode = .run → faulted bad s.tr = true → s.errv = true
  cont : s.mode = .cont → faulted bad s.tr = false
  ret : s.mode = .ret → faulted bad s.tr = true → s.errv = true

/-- the same, but the function never returns normally after a bad reply -/
structure Jv (s : St) : Prop where
  safe : safe bad s.tr = true
  run : s.mode = .run → faulted bad s.tr = false
  cont : s.mode = .cont → faulted bad s.tr = false
  ret : s.mode = .ret → faulted bad s.tr = false

theorem Jv.toJ {s : St} (h : Jv bad s) : J bad s :=
  ⟨h.safe, h.run, h.cont, fun hm hf => by rw [h.ret hm] at hf; exact absurd hf (by decide)⟩
theorem J.toJe {s : St} (h : J bad s) : Je bad s :=
  ⟨h.safe, fun hm hf => by rw [h.run hm] at hf; exact absurd hf (by decide), h.cont, h.ret⟩

theorem faulted_snoc (a : List Ev) (e : Ev) : faulted bad (a ++ [e]) = (faulted bad a || isBadGot bad e) := by
  simp [faulted, List.any_append]

/-- appending events that are not bad replies to a trace without bad replies -/
theorem clean_append {tr l : List Ev} (hs : safe bad tr = true) (hf : faulted bad tr = false)
    (hl : faulted bad l = false) : safe bad (tr ++ l) = true ∧ faulted bad (tr ++ l) = false :=
  ⟨safe_append_of_not_faulted bad tr l hs hf hl, by rw [faulted_append, hf, hl]; rfl⟩

theorem jv_of_clean {s' : St} (h : safe bad s'.tr = true ∧ faulted bad s'.tr = false) : Jv bad s' :=
  ⟨h.1, fun _ => h.2, fun _ => h.2, fun _ => h.2⟩

/-- `p` keeps `J` (started in a state that runs; otherwise it does nothing). -/
def Pres (p : Sess) : Prop := ∀ env s, J bad s → J bad (exec p env s)
def PresV (p : Sess) : Prop := ∀ env s, J bad s → s.mode = .run → Jv bad (exec p env s)
/-- `p` may leave an error pending -/
def PresE (p : Sess) : Prop := ∀ env s, J bad s → s.mode = .run → Je bad (exec p env s)

theorem Pres.of_run {p : Sess} (h : ∀ env s, J bad s → s.mode = .run → J bad (exec p env s)) : Pres bad p := by
  intro env s hj
  by_cases hm : s.mode = .run
  · exact h env s hj hm
  · rw [exec_nonrun p env s hm]; exact hj

theorem PresV.pres {p : Sess} (h : PresV bad p) : Pres bad p :=
  Pres.of_run bad fun env s hj hm => (h env s hj hm).toJ

/-! ## leaves -/

theorem j_clean {s : St} (hj : J bad s) (hm : s.mode = .run) : safe bad s.tr = true ∧ faulted bad s.tr = false :=
  ⟨hj.safe, hj.run hm⟩

theorem presV_skip : PresV bad .skip := fun _ s hj hm => by
  simpa [exec] using jv_of_clean bad (j_clean bad hj hm)

/-- anything may be put on the wire while no bad reply has been seen -/
theorem presV_send (ρ : Role) (t : Txt) : PresV bad (.send ρ t) := fun env s hj hm => by
  simp only [exec, hm, if_true]
  exact jv_of_clean bad (clean_append bad hj.safe (hj.run hm) (by simp [faulted, isBadGot]))

theorem presV_mark (e : Ev) (he : isBadGot bad e = false) : PresV bad (.mark e) := fun env s hj hm => by
  simp only [exec, hm, if_true]
  exact jv_of_clean bad (clean_append bad hj.safe (hj.run hm) (by simp [faulted, he]))

theorem presV_abort (l : List String) : PresV bad (.abort l) := fun env s hj hm => by
  simp only [exec, hm, if_true]
  exact jv_of_clean bad (clean_append bad hj.safe (hj.run hm) (by simp [faulted, isBadGot]))

theorem presV_warn (l : List String) : PresV bad (.warn l) := fun env s hj hm => by
  simp only [exec, hm, if_true]
  exact jv_of_clean bad (clean_append bad hj.safe (hj.run hm) (by simp [faulted, isBadGot]))

theorem presV_ret (v : RetV) (l : List String) : PresV bad (.ret v l) := fun env s hj hm => by
  simp only [exec, hm, if_true]
  have hc := j_clean bad hj hm
  exact jv_of_clean bad hc

theorem presV_cont : PresV bad .cont := fun env s hj hm => by
  simp only [exec, hm, if_true]
  have hc := j_clean bad hj hm
  exact jv_of_clean bad hc

theorem presV_setCtr (n : Nat) : PresV bad (.setCtr n) := fun env s hj hm => by
  simp only [exec, hm, if_true]
  have hc := j_clean bad hj hm
  exact jv_of_clean bad hc

theorem presV_decCtr : PresV bad .decCtr := fun env s hj hm => by
  simp only [exec, hm, if_true]
  have hc := j_clean bad hj hm
  exact jv_of_clean bad hc

theorem presV_setPlan : PresV bad .setPlan := fun env s hj hm => by
  simp only [exec, hm, if_true]
  have hc := j_clean bad hj hm
  exact jv_of_clean bad hc

theorem presV_assumeBanner : PresV bad .assumeBanner := fun env s hj hm => by
  simp only [exec, hm, if_true]
  have hc := j_clean bad hj hm
  exact jv_of_clean bad hc

/-! ## composition -/

theorem presV_seq {a b : Sess} (ha : PresV bad a) (hb : PresV bad b) : PresV bad (a ;; b) := fun env s hj hm => by
  simp only [exec]
  have h1 := ha env s hj hm
  by_cases hm1 : (exec a env s).mode = .run
  · exact hb env _ h1.toJ hm1
  · rw [exec_nonrun b env _ hm1]; exact h1

theorem presV_ite {c : Cond} {l : String} {t e : Sess} (ht : PresV bad t) (he : PresV bad e) :
    PresV bad (.ite c l t e) := fun env s hj hm => by
  simp only [exec, hm, if_true]
  split
  · exact ht env s hj hm
  · exact he env s hj hm

theorem presV_when {c : Cond} {body : Sess} (hb : PresV bad body) : PresV bad (.when c body) := fun env s hj hm => by
  simp only [exec, hm, if_true]
  split
  · exact hb env s hj hm
  · have hc := j_clean bad hj hm
    exact jv_of_clean bad hc

theorem presV_scope {c : String} {body : Sess} (hb : PresV bad body) : PresV bad (.scope c body) :=
  fun env s hj hm => by simpa [exec] using hb env s hj hm

/-- a function whose body never returns normally after a bad reply -/
theorem presV_call {n : String} {l : List String} {body : Sess} (hb : PresV bad body) :
    PresV bad (.call n l body) := fun env s hj hm => by
  have h1 := hb env s hj hm
  simp only [exec, hm, if_true]
  split
  · rename_i hr
    exact ⟨h1.safe, fun _ => h1.ret hr, by simp, by simp⟩
  · exact h1

theorem presV_op (n : String) (l : List String) : PresV bad (op n l) := presV_call bad (presV_skip bad)

theorem each_nonrun (f : List String → St → St) (hf : ∀ pk s, s.mode ≠ .run → f pk s = s)
    (l : List (List String)) (s : St) (h : s.mode ≠ .run) : each f l s = s := by
  induction l generalizing s with
  | nil => rfl
  | cons pk rest ih => simp only [each]; rw [hf pk s h]; exact ih s h

theorem presV_forEach {body : Sess} (hb : PresV bad body) : PresV bad (.forEach body) := fun env s hj hm => by
  simp only [exec, hm, if_true]
  have key : ∀ (l : List (List String)) (s : St), Jv bad s →
      Jv bad (each (fun pk st => exec body { env with cur := pk } st) l s) := by
    intro l
    induction l with
    | nil => intro s h; exact h
    | cons pk rest ih =>
      intro s h
      simp only [each]
      apply ih
      by_cases hm' : s.mode = .run
      · exact hb _ s h.toJ hm'
      · rw [exec_nonrun body _ s hm']; exact h
  exact key s.plan s (jv_of_clean bad (j_clean bad hj hm))

theorem iter_presV (f : St → St) (hf : ∀ s, J bad s → s.mode = .run → Jv bad (f s)) :
    ∀ (n : Nat) (s : St), Jv bad s → Jv bad (iter n f s) := by
  intro n
  induction n with
  | zero =>
    intro s h
    simp only [iter]
    split
    · exact ⟨h.safe, by simp, by simp, by simp⟩
    · exact h
  | succ n ih =>
    intro s h
    simp only [iter]
    split
    · rename_i hm
      have h1 := hf s h.toJ hm
      split
      · rename_i hc
        exact ih _ ⟨h1.safe, fun _ => h1.cont hc, by simp, by simp⟩
      · exact ih _ h1
      · exact h1
    · exact h

theorem presV_loopN {n : Nat} {body : Sess} (hb : PresV bad body) : PresV bad (.loopN n body) :=
  fun env s hj hm => by
    simp only [exec]
    exact iter_presV bad _ (fun s h hm => hb env s h hm) n s (jv_of_clean bad (j_clean bad hj hm))

theorem presV_loopFuel {body : Sess} (hb : PresV bad body) : PresV bad (.loopFuel body) :=
  fun env s hj hm => by
    simp only [exec]
    exact iter_presV bad _ (fun s h hm => hb env s h hm) env.fuel s (jv_of_clean bad (j_clean bad hj hm))

end NA.C09
