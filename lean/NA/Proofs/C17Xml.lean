import NA.Model.MaskXml
import NA.Proofs.C17Sinks
/-!
# Lemmas for C17: the modelled `parseAPIKey` returns the key of a PAN-OS keygen answer

`parseAPIKeyM (stdKeygen …) = .ok k` for every layout of white space, either quote, every key made
of plain bytes and everything that may follow the root element.
-/
namespace NA.Mask

/-- Blank, tab or newline only. -/
def PWs (w : Str) : Prop := ∀ c ∈ w, c = ' ' ∨ c = '\t' ∨ c = '\n'

/-- Bytes that are character data as they stand (no `<`, `&`, `]`, control or non-ASCII byte). -/
def Plain (s : Str) : Prop := ∀ c ∈ s, plainChar c = true

theorem PWs.plain {w : Str} (h : PWs w) : Plain w := by
  intro c hc
  rcases h c hc with rfl | rfl | rfl <;> decide

theorem plainChar_ne {c : Char} (h : plainChar c = true) : c ≠ '<' ∧ c ≠ '&' ∧ c ≠ ']' := by
  refine ⟨?_, ?_, ?_⟩ <;> (intro hc; subst hc; revert h; decide)

theorem lexText_plain {s : Str} (hs : Plain s) (r : Str) :
    lexText (s ++ '<' :: r) = .ok (s, '<' :: r) := by
  unfold lexText
  induction s with
  | nil => simp [lexTextA]
  | cons c cs ih =>
    have hc := hs c (by simp)
    obtain ⟨h1, h2, h3⟩ := plainChar_ne hc
    have := ih (fun d hd => hs d (by simp [hd]))
    simp only [List.cons_append, lexTextA, h1, h2, h3, hc, if_false, if_true, this, consOk]

theorem skipWs_pws {w : Str} (hw : PWs w) (c : Char) (hc : isWs c = false) (r : Str) :
    skipWs (w ++ c :: r) = c :: r := by
  induction w with
  | nil => simp [skipWs, hc]
  | cons d ds ih =>
    have hd : isWs d = true := by
      rcases hw d (by simp) with rfl | rfl | rfl <;> decide
    simp only [List.cons_append, skipWs, hd, if_true]
    exact ih (fun e he => hw e (by simp [he]))

theorem lexF_step (n : Nat) {s : Str} (hs : Plain s) (r : Str) (tg : Tok) (rest : Str)
    (ht : lexTag r = .ok tg rest) :
    lexF (n + 1) (s ++ '<' :: r) = .text s :: tg :: lexF n rest := by
  simp only [lexF, lexText_plain hs, ht]

/-! ### the six tags of the answer -/

theorem scanQuoted_success (q : Char) (hq : q = '"' ∨ q = '\'') (r : Str) :
    scanQuoted q (sSuccess ++ q :: r) = some (.ok (sSuccess, r)) := by
  rcases hq with rfl | rfl <;> simp [scanQuoted, sSuccess, plainChar]

theorem lexTag_eq_open (c : Char) (r : Str) (h1 : c ≠ '/') (h2 : c ≠ '?') (h3 : c ≠ '!') :
    lexTag (c :: r) = lexOpen (c :: r) := by
  simp [lexTag, h1, h2, h3]

theorem scanName_all (l : Str) (hl : ∀ d ∈ l, nameChar d = true) (c : Char) (hc : nameChar c = false) (r : Str) :
    scanName (l ++ c :: r) = (l, c :: r) := by
  induction l with
  | nil => simp [scanName, hc]
  | cons d ds ih =>
    have := ih (fun e he => hl e (by simp [he]))
    simp [scanName, hl d (by simp), this]

theorem lexTag_response {w1 w2 w3 : Str} (h1 : PWs w1) (h2 : PWs w2) (h3 : PWs w3) (q : Char)
    (hq : q = '"' ∨ q = '\'') (r : Str) :
    lexTag (sResp ++ ' ' :: (sStatus ++ (w1 ++ '=' :: (w2 ++ q :: (sSuccess ++ q :: (w3 ++ '>' :: r)))))) =
      .ok (.start sResp [(sStatus, sSuccess)] false) r := by
  have hqw : isWs q = false := by rcases hq with rfl | rfl <;> decide
  -- the attribute name ends at white space or `=`
  have e3 : ∀ x : Str, scanName (sStatus ++ (w1 ++ '=' :: x)) = (sStatus, w1 ++ '=' :: x) := by
    intro x
    cases w1 with
    | nil => exact scanName_all sStatus (by decide) '=' (by decide) x
    | cons d ds =>
      have : nameChar d = false := by
        rcases h1 d (by simp) with rfl | rfl | rfl <;> decide
      exact scanName_all sStatus (by decide) d this _
  have hno : ∀ x : Str, nameOk sStatus (w1 ++ '=' :: x) = some true := by
    intro x
    cases w1 with
    | nil => simp [nameOk, sStatus, nameStart]
    | cons d ds =>
      rcases h1 d (by simp) with rfl | rfl | rfl <;> simp [nameOk, sStatus, nameStart]
  have hopen : sResp ++ ' ' :: (sStatus ++ (w1 ++ '=' :: (w2 ++ q :: (sSuccess ++ q :: (w3 ++ '>' :: r))))) =
      'r' :: (['e', 's', 'p', 'o', 'n', 's', 'e'] ++ ' ' :: (sStatus ++ (w1 ++ '=' :: (w2 ++ q :: (sSuccess ++ q :: (w3 ++ '>' :: r)))))) := by
    simp [sResp]
  have hattr : scanAttr (sStatus ++ (w1 ++ '=' :: (w2 ++ q :: (sSuccess ++ q :: (w3 ++ '>' :: r))))) =
      .ok (sStatus, sSuccess, w3 ++ '>' :: r) := by
    unfold scanAttr
    rw [e3]
    simp only [hno]
    rw [skipWs_pws h1 '=' (by decide)]
    simp only []
    rw [skipWs_pws h2 q hqw]
    simp only [hq, if_true]
    rw [scanQuoted_success q hq]
  rw [hopen, lexTag_eq_open _ _ (by decide) (by decide) (by decide), ← hopen]
  unfold lexOpen
  rw [scanName_all sResp (by decide) ' ' (by decide)]
  have hn : ∀ x : Str, nameOk sResp (' ' :: x) = some true := by intro x; simp [nameOk, sResp, nameStart]
  simp only [hn]
  -- one attribute, then `>`
  obtain ⟨m, hm⟩ : ∃ m, (' ' :: (sStatus ++ (w1 ++ '=' :: (w2 ++ q :: (sSuccess ++ q :: (w3 ++ '>' :: r)))))).length + 1 = m + 2 :=
    ⟨(sStatus ++ (w1 ++ '=' :: (w2 ++ q :: (sSuccess ++ q :: (w3 ++ '>' :: r))))).length, by simp only [List.length_cons]⟩
  rw [hm]
  have sk1 : skipWs (' ' :: (sStatus ++ (w1 ++ '=' :: (w2 ++ q :: (sSuccess ++ q :: (w3 ++ '>' :: r)))))) =
      's' :: (['t', 'a', 't', 'u', 's'] ++ (w1 ++ '=' :: (w2 ++ q :: (sSuccess ++ q :: (w3 ++ '>' :: r))))) := by
    simp [skipWs, isWs, sStatus]
  have back : 's' :: (['t', 'a', 't', 'u', 's'] ++ (w1 ++ '=' :: (w2 ++ q :: (sSuccess ++ q :: (w3 ++ '>' :: r))))) =
      sStatus ++ (w1 ++ '=' :: (w2 ++ q :: (sSuccess ++ q :: (w3 ++ '>' :: r)))) := by simp [sStatus]
  rw [scanAttrs, sk1]
  have c1 : ('s' = '/') = False := by decide
  have c2 : ('s' = '>') = False := by decide
  simp only [c1, c2, if_false]
  rw [back, hattr]
  simp only []
  rw [scanAttrs, skipWs_pws h3 '>' (by decide)]
  simp

theorem lexTag_open (name : Str) (hn : ∀ c ∈ name, nameChar c = true) (h0 : ∃ c cs, name = c :: cs ∧ nameStart c = true)
    (hnp : name.head? ≠ some '/' ∧ name.head? ≠ some '?' ∧ name.head? ≠ some '!') (r : Str) :
    lexTag (name ++ '>' :: r) = .ok (.start name [] false) r := by
  obtain ⟨c, cs, rfl, hc⟩ := h0
  have h1 : c ≠ '/' := by intro h; subst h; simp at hnp
  have h2 : c ≠ '?' := by intro h; subst h; simp at hnp
  have h3 : c ≠ '!' := by intro h; subst h; simp at hnp
  rw [List.cons_append, lexTag_eq_open _ _ h1 h2 h3, ← List.cons_append]
  unfold lexOpen
  rw [scanName_all (c :: cs) hn '>' (by decide)]
  simp [nameOk, hc, scanAttrs, skipWs, isWs]

theorem lexTag_close (name : Str) (hn : ∀ c ∈ name, nameChar c = true) (h0 : ∃ c cs, name = c :: cs ∧ nameStart c = true)
    (r : Str) : lexTag ('/' :: (name ++ '>' :: r)) = .ok (.stop name) r := by
  obtain ⟨c, cs, rfl, hc⟩ := h0
  simp only [lexTag, if_true]
  unfold lexClose
  rw [scanName_all (c :: cs) hn '>' (by decide)]
  simp [nameOk, hc, skipWs, isWs]

/-- **The modelled parser returns the key** of every answer of the PAN-OS shape. -/
theorem parseAPIKeyM_stdKeygen {w0 w1 w2 w3 w4 w5 w6 w7 : Str} (q : Char) {k : Str} (tail : Str)
    (h0 : PWs w0) (h1 : PWs w1) (h2 : PWs w2) (h3 : PWs w3) (h4 : PWs w4) (h5 : PWs w5) (h6 : PWs w6) (h7 : PWs w7)
    (hq : q = '"' ∨ q = '\'') (hk : Plain k) :
    parseAPIKeyM (stdKeygen w0 w1 w2 q w3 w4 w5 k w6 w7 tail) = .ok k := by
  -- the answer, cut at its six `<`
  have shape : stdKeygen w0 w1 w2 q w3 w4 w5 k w6 w7 tail =
      w0 ++ '<' :: (sResp ++ ' ' :: (sStatus ++ (w1 ++ '=' :: (w2 ++ q :: (sSuccess ++ q :: (w3 ++ '>' ::
        (w4 ++ '<' :: (sResult ++ '>' :: (w5 ++ '<' :: (sKeyN ++ '>' :: (k ++ '<' :: ('/' :: (sKeyN ++ '>' ::
          (w6 ++ '<' :: ('/' :: (sResult ++ '>' :: (w7 ++ '<' :: ('/' :: (sResp ++ '>' :: tail))))))))))))))))))) := by
    have a1 : "<response status".toList = '<' :: (sResp ++ ' ' :: sStatus) := by decide
    have a2 : "success".toList = sSuccess := by decide
    have a3 : "<result>".toList = '<' :: (sResult ++ ['>']) := by decide
    have a4 : "</result>".toList = '<' :: '/' :: (sResult ++ ['>']) := by decide
    have a5 : "</response>".toList = '<' :: '/' :: (sResp ++ ['>']) := by decide
    have a6 : litOpen = '<' :: (sKeyN ++ ['>']) := by decide
    have a7 : litClose = '<' :: '/' :: (sKeyN ++ ['>']) := by decide
    unfold stdKeygen
    rw [a1, a2, a3, a4, a5, a6, a7]
    simp [List.append_assoc]
  have nc : ∀ name : Str, name = sResp ∨ name = sResult ∨ name = sKeyN →
      (∀ c ∈ name, nameChar c = true) ∧ (∃ c cs, name = c :: cs ∧ nameStart c = true) ∧
        (name.head? ≠ some '/' ∧ name.head? ≠ some '?' ∧ name.head? ≠ some '!') := by
    intro name h
    rcases h with rfl | rfl | rfl
    · exact ⟨by decide, ⟨'r', _, rfl, by decide⟩, by decide⟩
    · exact ⟨by decide, ⟨'r', _, rfl, by decide⟩, by decide⟩
    · exact ⟨by decide, ⟨'k', _, rfl, by decide⟩, by decide⟩
  obtain ⟨m, hm⟩ : ∃ m, (stdKeygen w0 w1 w2 q w3 w4 w5 k w6 w7 tail).length + 1 = m + 6 := by
    refine ⟨(stdKeygen w0 w1 w2 q w3 w4 w5 k w6 w7 tail).length - 5, ?_⟩
    have : 5 ≤ (stdKeygen w0 w1 w2 q w3 w4 w5 k w6 w7 tail).length := by
      rw [shape]; simp [sResp]; omega
    omega
  unfold parseAPIKeyM lex
  rw [hm, shape]
  rw [lexF_step _ h0.plain _ _ _ (lexTag_response h1 h2 h3 q hq _)]
  rw [lexF_step _ h4.plain _ _ _ (lexTag_open sResult (nc _ (Or.inr (Or.inl rfl))).1 (nc _ (Or.inr (Or.inl rfl))).2.1
    (nc _ (Or.inr (Or.inl rfl))).2.2 _)]
  rw [lexF_step _ h5.plain _ _ _ (lexTag_open sKeyN (nc _ (Or.inr (Or.inr rfl))).1 (nc _ (Or.inr (Or.inr rfl))).2.1
    (nc _ (Or.inr (Or.inr rfl))).2.2 _)]
  rw [lexF_step _ hk _ _ _ (lexTag_close sKeyN (nc _ (Or.inr (Or.inr rfl))).1 (nc _ (Or.inr (Or.inr rfl))).2.1 _)]
  rw [lexF_step _ h6.plain _ _ _ (lexTag_close sResult (nc _ (Or.inr (Or.inl rfl))).1 (nc _ (Or.inr (Or.inl rfl))).2.1 _)]
  rw [lexF_step _ h7.plain _ _ _ (lexTag_close sResp (nc _ (Or.inl rfl)).1 (nc _ (Or.inl rfl)).2.1 _)]
  have n1 : (sResult = sMsg) = False := by decide
  have n2 : (sResp = sResp) = True := by simp
  simp only [rootOf, inside, addKid, ne_eq, not_true_eq_false, if_false, List.reverse_cons, List.reverse_nil,
    List.nil_append, List.cons_append, Bool.false_eq_true, n2, not_true]
  simp [keyOfRoot, lastAttr, lastChild, directText, n1]

/-- `stdKeygen` is an instance of the body shape `keyBody pre k post` of the masking theorems. -/
theorem stdKeygen_keyBody (w0 w1 w2 : Str) (q : Char) (w3 w4 w5 k w6 w7 tail : Str) :
    ∃ pre post, ∀ k' : Str, stdKeygen w0 w1 w2 q w3 w4 w5 k' w6 w7 tail = keyBody pre k' post :=
  ⟨w0 ++ ("<response status".toList ++ (w1 ++ ('=' :: (w2 ++ (q :: ("success".toList ++ (q :: (w3 ++ ('>' :: (w4 ++
      ("<result>".toList ++ w5))))))))))),
    w6 ++ ("</result>".toList ++ (w7 ++ ("</response>".toList ++ tail))),
    fun k' => by simp [stdKeygen, keyBody, List.append_assoc]⟩

end NA.Mask
