import NA.Proofs.F1Transfer
/-!
# F1: `diffCmds` for two access lists (all four branches) on the strict device, preserving `Full`
-/
namespace NA.F1
open NA.AsaDev
open NA.Acl (Range)

theorem AclOK.of_gNeeded {e : Env} {st st' : St} {d : Dev} {ls : List RLine} {bl : List Line} (h : AclOK e st d ls bl)
    (g1 : ∀ x ∈ st.gNeeded, x ∈ st'.gNeeded) : AclOK e st' d ls bl :=
  ⟨h.1, fun p hp => ⟨(h.2 p hp).1, (h.2 p hp).2.1, fun q hq =>
    ⟨((h.2 p hp).2.2 q hq).1, ((h.2 p hp).2.2 q hq).2.1, ((h.2 p hp).2.2 q hq).2.2.mono g1⟩⟩⟩

/-- `Full` depends only on these fields of the engine state. -/
theorem Full.of_marks {e : Env} {st st' : St} {d : Dev} (h : Full e st d) (hm : st'.mode = st.mode)
    (g1 : st'.gNeeded = st.gNeeded) (g2 : st'.gReady = st.gReady) (g3 : st'.gName = st.gName)
    (a1 : st'.aNeeded = st.aNeeded) (a2 : st'.aReady = st.aReady) (a3 : st'.aName = st.aName) : Full e st' d := by
  have hg : ∀ x ∈ st.gNeeded, x ∈ st'.gNeeded := fun y hy => by rw [g1]; exact hy
  have hfa : ∀ x, FrozenAcl e st x → FrozenAcl e st' x := fun x hx => hx.mono (fun y hy => by rw [a1]; exact hy)
  have hfa' : ∀ x, FrozenAcl e st' x → FrozenAcl e st x := fun x hx => hx.mono (fun y hy => by rw [← a1]; exact hy)
  have hn : ∀ b, st'.aNameOf b = st.aNameOf b := fun b => by simp [St.aNameOf, a3]
  refine ⟨sem_marks h.sem hm g1 g2 g3, h.keysNodup, h.devAcls, ?_, ?_, ?_, ?_⟩
  · intro n hn' hnn; exact h.untouched n hn' (by rw [← a1]; exact hnn)
  · intro b hb
    rw [a2] at hb
    obtain ⟨r1, r2, r3⟩ := h.ready b hb
    rw [hn]
    exact ⟨r1, r2.of_gNeeded hg, hfa _ r3⟩
  · intro b hbB hb
    rw [a2] at hb
    rw [hn]; exact h.unready b hbB hb
  · intro X hX hf
    exact (h.frozenLines X hX (hfa' X hf)).mono hg

theorem Full.hit {e : Env} {st : St} {d : Dev} (h : Full e st d) (x : String) : Full e (st.hit x) d :=
  h.of_marks rfl rfl rfl rfl rfl rfl rfl

/-- A step that changes marks outside of the invariant only. -/
theorem Step.of_marks {e : Env} {st st' : St} {d : Dev} (ho : st'.out = st.out)
    (g1 : st'.gNeeded = st.gNeeded) (a1 : st'.aNeeded = st.aNeeded) (a2 : st'.aReady = st.aReady)
    (a3 : st'.aName = st.aName) : Step e st d st' d :=
  ⟨⟨[], by simp [ho], exec_nil d⟩, fun _ h _ => ⟨h, rfl⟩, fun x hx => by rw [g1]; exact hx,
   fun _ h _ => ⟨h, rfl⟩, fun x hx => by rw [a1]; exact hx,
   fun b hb => ⟨by rw [a2]; exact hb, by simp [St.aNameOf, a3]⟩, rfl⟩

/-- All names of the lines of an access list that matches a target list are frozen. -/
theorem AclOK.namesFrozen {e : Env} {st : St} {d : Dev} {ls : List RLine} {bl : List Line} (h : AclOK e st d ls bl) :
    NamesFrozen e st ls := by
  intro l hl x hx
  obtain ⟨i, hi, hli⟩ := List.getElem_of_mem hl
  have hi' : i < bl.length := by rw [← h.1]; exact hi
  have hz : (l, bl[i]) ∈ ls.zip bl := by rw [← hli]; exact mem_zip_of_getElem _ _ i hi hi'
  obtain ⟨_, hlen, hnames⟩ := h.2 _ hz
  simp only at hlen hnames
  obtain ⟨j, hj, hxj⟩ := List.getElem_of_mem hx
  have hz2 : (x, (bl[i]).refs[j]'(by rw [← hlen]; exact hj)) ∈ l.names.zip (bl[i]).refs := by
    rw [← hxj]; exact mem_zip_of_getElem _ _ j hj (by rw [← hlen]; exact hj)
  exact (hnames _ hz2).2.2

theorem LineOK.of_gNeeded {e : Env} {st st' : St} {d : Dev} {l : RLine} {b : Line} (h : LineOK e st d l b)
    (g1 : ∀ x ∈ st.gNeeded, x ∈ st'.gNeeded) : LineOK e st' d l b :=
  ⟨h.1, h.2.1, fun q hq => ⟨(h.2.2 q hq).1, (h.2.2 q hq).2.1, (h.2.2 q hq).2.2.mono g1⟩⟩

/-- The incremental branch of `diffAcl`. -/
theorem incrementalAcl_full (e : Env) (hw : WF e) (hA : RefsClosedA e) (hB : RefsClosedB e) (st : St) (d : Dev)
    (hF : Full e st d) (aN bN : Name) (haN : aN ∈ A0 e) (hna : aN ∉ st.aNeeded) (hnr : bN ∉ st.aReady)
    (stP : St) (hP1 : stP.mode = st.mode) (hP2 : stP.gNeeded = st.gNeeded) (hP3 : stP.gReady = st.gReady)
    (hP4 : stP.gName = st.gName) (hP5 : stP.aNeeded = st.aNeeded) (hP6 : stP.aReady = st.aReady)
    (hP7 : stP.aName = (bN, aN) :: st.aName) (hP8 : stP.out = st.out) (hP9 : stP.bNeeded = st.bNeeded)
    (hP10 : stP.bToDel = st.bToDel)
    (hscript : scriptOK ((e.aLines aN).map (·.body)) ((e.bLines bN).map (·.body)) (lookupD e.sc.acl (aN, bN)) 0 0 = true)
    (hcheck : planCheck e stP aN bN (lookupD e.sc.acl (aN, bN)) = "hyp:ok")
    (hlenA : RefsMatchBody (e.aLines aN)) (hlenB : RefsMatchBody (e.bLines bN))
    (st' : St) (hst' : st' = { (diffASAACLs e stP aN bN (lookupD e.sc.acl (aN, bN))) with
      aNeeded := addSet aN (diffASAACLs e stP aN bN (lookupD e.sc.acl (aN, bN))).aNeeded,
      aReady := addSet bN (diffASAACLs e stP aN bN (lookupD e.sc.acl (aN, bN))).aReady }) :
    ∃ d', Step e st d st' d' ∧ Full e st' d' ∧ bN ∈ st'.aReady ∧ st'.aNameOf bN = aN ∧ aN ∈ st'.aNeeded ∧
      d'.binds = d.binds ∧ d'.routes = d.routes ∧ st'.bNeeded = st.bNeeded ∧ st'.bToDel = st.bToDel := by
  have hsemP : Sem e stP d := sem_marks hF.sem hP1 hP2 hP3 hP4
  have hal : linesOf d aN = (e.aLines aN).map resolveA := hF.untouched aN haN hna
  obtain ⟨d', l1, hlen, hlines⟩ := acl_pair_converges_checked e hw hA hB stP d hsemP aN bN _ hal hscript hcheck hlenA hlenB
  have hfr := diffASAACLs_aclMarks e stP aN bN (lookupD e.sc.acl (aN, bN))
  generalize diffASAACLs e stP aN bN (lookupD e.sc.acl (aN, bN)) = st3 at l1 hlines hfr hst'
  subst hst'
  -- marks
  have h3n : st3.aNeeded = st.aNeeded := hfr.aNeeded.trans hP5
  have h3r : st3.aReady = st.aReady := hfr.aReady.trans hP6
  have h3name : st3.aName = (bN, aN) :: st.aName := hfr.aName.trans hP7
  have hnotfrozen : ¬ FrozenAcl e st aN := by
    intro hf; rcases hf with hf | hf
    · exact hna hf
    · exact hf haN
  obtain ⟨cs, ho, he⟩ := l1.out
  -- the step
  have hstepX : StepX e st d { st3 with aNeeded := addSet aN st3.aNeeded, aReady := addSet bN st3.aReady } d' aN := by
    refine ⟨⟨cs, by rw [← hP8]; exact ho, he⟩, ?_, ?_, ?_, ?_, ?_, l1.intfs⟩
    · intro x hx hf
      exact ⟨l1.hasMono x hx, l1.stable x hx (hf.mono (fun y hy => by rw [hP2]; exact hy))⟩
    · intro x hx; exact l1.grow x (by rw [hP2]; exact hx)
    · intro X hX; exact ⟨hasAcl_congr_keys l1.aclKeys X, l1.others X hX⟩
    · intro x hx; exact mem_addSet.mpr (Or.inr (by rw [h3n]; exact hx))
    · intro b hb
      refine ⟨mem_addSet.mpr (Or.inr (by rw [h3r]; exact hb)), ?_⟩
      have hne : b ≠ bN := fun e1 => hnr (e1 ▸ hb)
      have hbf : (b == bN) = false := by simpa using hne
      simp [St.aNameOf, h3name, List.lookup, hbf]
  have hstep := hstepX.toStep (fun hx => hnotfrozen hx.2)
  have hsem' : Sem e { st3 with aNeeded := addSet aN st3.aNeeded, aReady := addSet bN st3.aReady } d' :=
    sem_marks l1.sem rfl rfl rfl rfl
  have hacl' : hasAcl d' aN = true := by rw [hasAcl_congr_keys l1.aclKeys]; exact hF.devAcls aN haN
  have haclOK : AclOK e { st3 with aNeeded := addSet aN st3.aNeeded, aReady := addSet bN st3.aReady } d'
      (linesOf d' aN) (e.bLines bN) :=
    ⟨hlen, fun p hp => (hlines p hp).of_gNeeded (fun x hx => hx)⟩
  refine ⟨d', hstep, ?_, mem_addSet.mpr (Or.inl rfl), by simp [St.aNameOf, h3name, List.lookup],
    mem_addSet.mpr (Or.inl rfl), l1.binds, l1.routes, hfr.bNeeded.trans hP9, hfr.bToDel.trans hP10⟩
  apply Full.update hF hstep hsem' aN bN (by rw [l1.aclKeys]; exact hF.keysNodup) (fun n hn => hstepX.aStable n hn)
  · exact ⟨hacl', haclOK, Or.inl (mem_addSet.mpr (Or.inl rfl)), haclOK.namesFrozen⟩
  · intro x hx
    rcases mem_addSet.mp hx with h1 | h1
    · exact Or.inr h1
    · exact Or.inl (by rw [← h3n]; exact h1)
  · intro b
    constructor
    · intro hb
      rcases mem_addSet.mp hb with h1 | h1
      · exact Or.inl h1
      · exact Or.inr (by rw [← h3r]; exact h1)
    · intro hb
      rcases hb with h1 | h1
      · exact mem_addSet.mpr (Or.inl h1)
      · exact mem_addSet.mpr (Or.inr (by rw [h3r]; exact h1))
  · simp [St.aNameOf, h3name, List.lookup]
  · intro b hb
    have hbf : (b == bN) = false := by simpa using hb
    simp [St.aNameOf, h3name, List.lookup, hbf]
  · exact fun hx => hnotfrozen hx.2
  · exact Or.inl haN

theorem diffAcl_needed (e : Env) (st : St) (aN bN : Name) (h1 : st.aNeeded.contains aN = true) :
    diffAcl e st aN bN = (transferAcl e (st.hit "acl:device-acl-needed") bN,
      (transferAcl e (st.hit "acl:device-acl-needed") bN).aNameOf bN) := by
  unfold diffAcl; rw [if_pos h1]

theorem diffAcl_ready (e : Env) (st : St) (aN bN : Name) (h1 : ¬ st.aNeeded.contains aN = true)
    (h2 : st.aReady.contains bN = true) :
    diffAcl e st aN bN = (st.hit "acl:target-acl-ready", st.aNameOf bN) := by
  unfold diffAcl; rw [if_neg h1, if_pos h2]

theorem diffAcl_noparts (e : Env) (st : St) (aN bN : Name) (h1 : ¬ st.aNeeded.contains aN = true)
    (h2 : ¬ st.aReady.contains bN = true) (h3 : (!(lookupD e.sc.acl (aN, bN)).any (·.isEqual)) = true) :
    diffAcl e st aN bN = (transferAcl e (markDeletedAcl e (st.hit "acl:no-parts-equal") aN) bN,
      (transferAcl e (markDeletedAcl e (st.hit "acl:no-parts-equal") aN) bN).aNameOf bN) := by
  unfold diffAcl; rw [if_neg h1, if_neg h2]; simp only []; rw [if_pos h3]

/-- The state handed to `diffASAACLs` in the incremental branch. -/
def incrPre (e : Env) (st : St) (aN bN : Name) : St :=
  ({ st with aName := (bN, aN) :: st.aName }.hit "acl:incremental").hit (planCheck e st aN bN (lookupD e.sc.acl (aN, bN)))

def incrPost (e : Env) (st : St) (aN bN : Name) : St :=
  { (diffASAACLs e (incrPre e st aN bN) aN bN (lookupD e.sc.acl (aN, bN))) with
    aNeeded := addSet aN (diffASAACLs e (incrPre e st aN bN) aN bN (lookupD e.sc.acl (aN, bN))).aNeeded,
    aReady := addSet bN (diffASAACLs e (incrPre e st aN bN) aN bN (lookupD e.sc.acl (aN, bN))).aReady }

theorem diffAcl_incr (e : Env) (st : St) (aN bN : Name) (h1 : ¬ st.aNeeded.contains aN = true)
    (h2 : ¬ st.aReady.contains bN = true) (h3 : ¬ (!(lookupD e.sc.acl (aN, bN)).any (·.isEqual)) = true) :
    diffAcl e st aN bN = (incrPost e st aN bN, aN) := by
  unfold diffAcl; rw [if_neg h1, if_neg h2]; simp only []; rw [if_neg h3]; rfl

/-- `diffAcl` (all four branches): accepted, `Full` preserved, the target ACL is `ready` afterwards and the
returned name is its name; bindings and routes are not touched. -/
theorem diffAcl_full (e : Env) (hw : WF e) (hA : RefsClosedA e) (hB : RefsClosedB e) (st : St) (d : Dev)
    (hF : Full e st d) (aN bN : Name) (haN : aN ∈ A0 e) (hbN : bN ∈ BAcls e) (hc : aclStepCheck e st aN bN = true) :
    ∃ d', Step e st d (diffAcl e st aN bN).1 d' ∧ Full e (diffAcl e st aN bN).1 d' ∧
      bN ∈ (diffAcl e st aN bN).1.aReady ∧ (diffAcl e st aN bN).2 = (diffAcl e st aN bN).1.aNameOf bN ∧
      ((diffAcl e st aN bN).2 = aN → aN ∈ (diffAcl e st aN bN).1.aNeeded) ∧
      d'.binds = d.binds ∧ d'.routes = d.routes ∧
      (diffAcl e st aN bN).1.bNeeded = st.bNeeded ∧ (diffAcl e st aN bN).1.bToDel = st.bToDel := by
  unfold aclStepCheck at hc
  by_cases h1 : st.aNeeded.contains aN = true
  · -- the device ACL is already used: transfer
    rw [if_pos h1] at hc
    rw [diffAcl_needed e st aN bN h1]
    obtain ⟨d', s1, f1, r1, b1, ro1, n1, bn1, _, bt1⟩ := transferAcl_full e hw hB _ d (hF.hit "acl:device-acl-needed") bN hbN hc
    have s0 : Step e st d (st.hit "acl:device-acl-needed") d := Step.of_marks rfl rfl rfl rfl rfl
    refine ⟨d', s0.trans s1, f1, r1, rfl, ?_, b1, ro1, bn1, bt1⟩
    intro _
    show aN ∈ (transferAcl e (st.hit "acl:device-acl-needed") bN).aNeeded
    rw [n1]
    have : aN ∈ st.aNeeded := by simpa using h1
    exact this
  · rw [if_neg h1] at hc
    by_cases h2 : st.aReady.contains bN = true
    · rw [diffAcl_ready e st aN bN h1 h2]
      have hb2 : bN ∈ st.aReady := by simpa using h2
      have s0 : Step e st d (st.hit "acl:target-acl-ready") d := Step.of_marks rfl rfl rfl rfl rfl
      refine ⟨d, s0, hF.hit _, hb2, rfl, ?_, rfl, rfl, rfl, rfl⟩
      intro hname
      -- a ready target ACL named like a device ACL that is not needed: impossible
      exfalso
      obtain ⟨_, _, r3⟩ := hF.ready bN hb2
      have hname' : st.aNameOf bN = aN := hname
      rw [hname'] at r3
      rcases r3 with r3 | r3
      · apply h1; simpa using r3
      · exact r3 haN
    · rw [if_neg h2] at hc
      simp only [] at hc
      have hnr : bN ∉ st.aReady := by simpa using h2
      have hna : aN ∉ st.aNeeded := by simpa using h1
      by_cases h3 : (!(lookupD e.sc.acl (aN, bN)).any (·.isEqual)) = true
      · rw [if_pos h3] at hc
        rw [diffAcl_noparts e st aN bN h1 h2 h3]
        have hmarks : (markDeletedAcl e (st.hit "acl:no-parts-equal") aN).out = st.out ∧
            (markDeletedAcl e (st.hit "acl:no-parts-equal") aN).gNeeded = st.gNeeded ∧
            (markDeletedAcl e (st.hit "acl:no-parts-equal") aN).aNeeded = st.aNeeded ∧
            (markDeletedAcl e (st.hit "acl:no-parts-equal") aN).aReady = st.aReady ∧
            (markDeletedAcl e (st.hit "acl:no-parts-equal") aN).aName = st.aName ∧
            (markDeletedAcl e (st.hit "acl:no-parts-equal") aN).bNeeded = st.bNeeded ∧
            (markDeletedAcl e (st.hit "acl:no-parts-equal") aN).bToDel = st.bToDel ∧
            (markDeletedAcl e (st.hit "acl:no-parts-equal") aN).mode = st.mode ∧
            (markDeletedAcl e (st.hit "acl:no-parts-equal") aN).gReady = st.gReady ∧
            (markDeletedAcl e (st.hit "acl:no-parts-equal") aN).gName = st.gName := by
          unfold markDeletedAcl
          split <;> exact ⟨rfl, rfl, rfl, rfl, rfl, rfl, rfl, rfl, rfl, rfl⟩
        obtain ⟨m1, m2, m3, m4, m5, m6, m7, m8, m9, m10⟩ := hmarks
        generalize markDeletedAcl e (st.hit "acl:no-parts-equal") aN = stM at hc m1 m2 m3 m4 m5 m6 m7 m8 m9 m10
        have hFm : Full e stM d := hF.of_marks m8 m2 m9 m10 m3 m4 m5
        obtain ⟨d', s1, f1, r1, b1, ro1, n1, bn1, _, bt1⟩ := transferAcl_full e hw hB stM d hFm bN hbN hc
        have s0 : Step e st d stM d := Step.of_marks m1 m2 m3 m4 m5
        refine ⟨d', s0.trans s1, f1, r1, rfl, ?_, b1, ro1, bn1.trans m6, bt1.trans m7⟩
        intro hname
        exfalso
        -- the transferred ACL carries a generated name, which is not a device ACL
        have hnr' : bN ∉ stM.aReady := by rw [m4]; exact hnr
        obtain ⟨u1, u2⟩ := hFm.unready bN hbN hnr'
        obtain ⟨r1', _, _⟩ := f1.ready bN r1
        have hname' : (transferAcl e stM bN).aNameOf bN = aN := hname
        -- the name of bN after the transfer is frozen and exists; aN is a device ACL that is not needed
        obtain ⟨_, _, r3⟩ := f1.ready bN r1
        rw [hname'] at r3
        rcases r3 with r3 | r3
        · rw [n1, m3] at r3; exact hna r3
        · exact r3 haN
      · rw [if_neg h3] at hc
        simp only [Bool.and_eq_true, beq_iff_eq] at hc
        obtain ⟨⟨⟨c1, c2⟩, c3⟩, c4⟩ := hc
        rw [diffAcl_incr e st aN bN h1 h2 h3]
        obtain ⟨d', s1, f1, r1, nm1, nd1, b1, ro1, bn1, bt1⟩ := incrementalAcl_full e hw hA hB st d hF aN bN haN hna hnr
          (incrPre e st aN bN) rfl rfl rfl rfl rfl rfl rfl rfl rfl rfl c1 c2
          (RefsMatchBody.of_check c3) (RefsMatchBody.of_check c4) (incrPost e st aN bN) rfl
        exact ⟨d', s1, f1, r1, nm1.symm, fun _ => nd1, b1, ro1, bn1, bt1⟩

end NA.F1
