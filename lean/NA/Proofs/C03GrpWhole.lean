import NA.Proofs.C03GrpTransfer
/-
C03, whole-vsys theorems with address-groups, part 12: composition.  Core Lean only.
-/
namespace NA.PanOs

theorem lookupGrp_append_left {l1 l2 : List Grp} {n : String} (h : n ∈ l1.map (·.name)) :
    lookupGrp (l1 ++ l2) n = lookupGrp l1 n := by
  unfold lookupGrp
  rw [List.find?_append]
  cases hf : l1.find? (·.name == n) with
  | some g => rfl
  | none =>
    exfalso
    obtain ⟨g, hg, e⟩ := List.mem_map.mp h
    have := List.find?_eq_none.mp hf g hg
    simp [e] at this

theorem lookupGrp_of_mem {l : List Grp} (hnd : (l.map (·.name)).Nodup) {g : Grp} (hg : g ∈ l) :
    lookupGrp l g.name = some g.members := by
  unfold lookupGrp
  induction l with
  | nil => cases hg
  | cons x xs ih =>
    simp only [List.map_cons, List.nodup_cons] at hnd
    rcases List.mem_cons.mp hg with rfl | hg
    · simp
    · have hne : (x.name == g.name) = false := by
        have : x.name ≠ g.name := fun e => hnd.1 (e ▸ List.mem_map_of_mem hg)
        simpa using this
      simp only [List.find?_cons, hne]
      exact ih hnd.2 hg

/-- The address names the transfer phase must get right: used by a rule of the target directly
(and not a group) or as member of a group a rule names. -/
def RefAddrN (b : Vsys) (m : String) : Prop := RefAddrD b m ∧ m ∉ b.groups.map (·.name)

/-- **The group table at the start of the rule phase.** -/
theorem simG_init (sh : Shared) (a b : Vsys) (hP : GrpPair sh a b) (vg : Vsys) (extra : List Grp)
    (hg : vg.groups = a.groups ++ extra)
    (haddr : ∀ m, RefAddrN b m → m ∈ b.addrs.map (·.name) → vg.addrs.any (·.name == m) = true) :
    SimG sh (RefG b) (stM a b) vg := by
  obtain ⟨_, _, _, _, _, _, _, _, hagn, hbgn, hagm, hbgm, hnames, _, _, _, _, _, _⟩ := hP
  have hname_a : ∀ x ∈ a.groups.map (·.name), x ≠ "" := fun x hx => (hnames x (by simp [hx])).1
  have hname_b : ∀ x ∈ b.groups.map (·.name), x ∉ b.addrs.map (·.name) := fun x hx => (hnames x (by simp [hx])).2.2.2.2
  refine ⟨?_, ?_, ?_, ?_⟩
  · intro ga hga _
    obtain ⟨gr, hgr, e, _⟩ := stM_aGrp_mem a b hga
    refine ⟨gr.members, ?_, ?_, (hagm gr hgr).1⟩
    · rw [hg, e, lookupGrp_append_left (List.mem_map_of_mem hgr)]
      exact lookupGrp_of_mem hagn hgr
    · rw [e]; exact sortStrings_sameMem _
  · intro gb hgb ga hga he
    obtain ⟨_, _, _, _, hon⟩ := stM_bGrp_mem a b hgb
    obtain ⟨gr, hgr, e, _⟩ := stM_aGrp_mem a b hga
    rw [hon, e] at he
    exact absurd he.symm (hname_a gr.name (List.mem_map_of_mem hgr))
  · intro ga hga
    obtain ⟨gr, hgr, e, _⟩ := stM_aGrp_mem a b hga
    rw [hg, e]
    simp only [List.map_append, List.mem_append]
    exact Or.inl (List.mem_map_of_mem hgr)
  · intro gb hgb ⟨r, hr, hx⟩ m hm
    obtain ⟨gr, hgr, e, _, _⟩ := stM_bGrp_mem a b hgb
    rw [e] at hm hx
    have hm' : m ∈ gr.members := (mem_sortStrings m _).mp hm
    have hmb := (hbgm gr hgr).2 m hm'
    have hR : RefAddrN b m := ⟨⟨r, hr, Or.inr ⟨gr, hgr, hx, hm'⟩⟩, fun h => hname_b m h hmb⟩
    simp [addrRefOk, haddr m hR hmb]

/-- **Planner facts about the final state.** -/
theorem grp_fin_facts (sh : Shared) (diff : Differ) (hd : GoodDiffer diff) (hid : IdentityDiffer diff) (a b : Vsys)
    (hP : GrpPair sh a b) :
    GMono (stM a b) (planState diff a b) ∧ GInv (RefG b) (planState diff a b) := by
  have hI := stM_ginv sh a b hP
  obtain ⟨hAr, hBr⟩ := stM_shapes sh a b hP
  have hS := simG_init sh a b hP { a with addrs := a.addrs ++ b.addrs } [] (by simp)
    (by
      intro m _ hm
      obtain ⟨o, ho, e⟩ := List.mem_map.mp hm
      simp only [List.any_append, Bool.or_eq_true, List.any_eq_true, beq_iff_eq]
      exact Or.inr ⟨o, ho, e⟩)
  obtain ⟨fin, vg', e, i2, _, m2, _, _, _⟩ := diffRules_sim (sh := sh) diff hd hid (fuelOf a b) (sortVsys a) (sortVsys b)
    (sortVsys a).rules (bRulesOf a b) (stM a b) _ hI hS hAr hBr
  rw [planState_def, e]
  exact ⟨m2, i2⟩

theorem planState_objs (diff : Differ) (a b : Vsys) : (planState diff a b).objs = (stM a b).objs := by
  rw [planState_def]; exact diffRules_objs ..

theorem stM_sg_nil (a b : Vsys) (has : a.sgroups = []) (hbs : b.sgroups = []) :
    (stM a b).aSG = [] ∧ (stM a b).bSG = [] :=
  markObjects_sg_nil _ _ _ (by simp [st0, initSt, sortVsys, has]) (by simp [st0, initSt, sortVsys, hbs])

theorem stM_out (a b : Vsys) : (stM a b).out = [] := by
  unfold stM; rw [markObjects_out]; rfl

/-- `needed` of a target group after `markObjects` only for groups the rules name. -/
theorem stM_gprov (sh : Shared) (a b : Vsys) (hP : GrpPair sh a b) : GProv (RefG b) (stM a b) := by
  have hI := stM_ginv sh a b hP
  have hbp0 : BPlain (st0 a b) := by
    intro gb0 hgb0 m hm
    obtain ⟨gb, hgb, e⟩ := mem_of_map_eq_marks (l := (stM a b).bGrp) (l' := (st0 a b).bGrp)
      (f := fun g : BGrp => (g.g, g.newName, g.onDev)) (stM_gmark a b).bg.symm hgb0
    simp only [Prod.mk.injEq] at e
    rw [← (stM_gmark a b).bIdx]
    exact hI.bplain gb hgb m (by rw [e.1]; exact hm)
  apply markObjects_gprov (RefG b) _ _ _ hbp0
  · intro r' hr' x hx _
    simp only [sortVsys, List.mem_map] at hr'
    obtain ⟨r, hr, rfl⟩ := hr'
    refine ⟨r, hr, ?_⟩
    rcases hx with hx | hx
    · exact Or.inl ((mem_sortStrings x _).mp hx)
    · exact Or.inr ((mem_sortStrings x _).mp hx)
  · intro gb hgb hn
    unfold st0 initSt at hgb
    simp only [List.mem_map] at hgb
    obtain ⟨p, _, rfl⟩ := hgb
    cases hn

theorem st0_newNames (a b : Vsys) : (st0 a b).bGrp.map (·.newName) = newGroupNames a b := by
  unfold st0 initSt
  simp only
  rw [List.map_map]
  have hl : (newGroupNames a b).length = (sortVsys b).groups.length := by
    unfold newGroupNames; rw [groupNamesFor_length]
  have : ((sortVsys b).groups.zip (newGroupNames a b)).map ((fun x => x.newName) ∘ fun x => ({ g := x.1, newName := x.2 } : BGrp)) =
      ((sortVsys b).groups.zip (newGroupNames a b)).map Prod.snd := by
    apply List.map_congr_left; intro p _; rfl
  rw [this, List.map_snd_zip (by omega)]

/-- **The transfer phase, for a pair with address-groups.** -/
theorem grp_transfer (sh : Shared) (diff : Differ) (hd : GoodDiffer diff) (hid : IdentityDiffer diff) (a b : Vsys)
    (hP : GrpPair sh a b) :
    ∃ a1, Runs sh a (transferCmds (planState diff a b)) a1 ∧
      AfterTransferG (RefAddrN b) a b (planState diff a b) a1 := by
  obtain ⟨hmono, hIfin⟩ := grp_fin_facts sh diff hd hid a b hP
  have hIM := stM_ginv sh a b hP
  have hprov := stM_gprov sh a b hP
  obtain ⟨has, hbs, _, _, haan, hban, hasn, hbsn, hagn, hbgn, hagm, hbgm, hnames, _, _, _, _, _, _⟩ := hP
  have hobjs := planState_objs diff a b
  obtain ⟨e1, e2, e3, e4, e5, e6⟩ := objs_fields hobjs
  obtain ⟨af1, af2, af3, af4⟩ := stM_addrFlags a b hbgn
  obtain ⟨sf1, sf2, sf3, sf4⟩ := stM_svcFlags a b hbs
  have hA : AddrSumR (RefAddrN b) a b (planState diff a b) :=
    addrSumR_of (RefAddrN b) (by rw [e2]; exact af3) (by rw [e1]; exact af2) (af1.of_objs hobjs)
      (fun x hx hxb => by
        obtain ⟨c, m⟩ := af4 x hx.1 hx.2 hxb
        exact ⟨c.of_objs hobjs, m.of_objs hobjs⟩) haan
  have hS : SvcSummary a b (planState diff a b) :=
    svcSummary_direct (by rw [e4]; exact sf3) (by rw [e3]; exact sf2) (sf1.of_objs hobjs)
      (fun x hx hxb => by
        obtain ⟨c, m⟩ := sf4 x hx hxb
        exact ⟨c.of_objs hobjs, m.of_objs hobjs⟩) hasn
  have hbSG : (planState diff a b).bSG = [] := by rw [e6]; exact (stM_sg_nil a b has hbs).2
  -- the new names
  have hnn : (planState diff a b).bGrp.map (·.newName) = newGroupNames a b := by
    have h1 := congrArg (List.map (fun p : Grp × String => p.2)) hmono.bg
    have h2 := congrArg (List.map (fun p : Grp × String × String => p.2.1)) (stM_gmark a b).bg
    simp only [List.map_map, Function.comp_def] at h1 h2
    rw [h1, h2, st0_newNames]
  obtain ⟨_, hnnd, _, _⟩ := groupNamesFor_spec suffixInj (sortVsys a) (sortVsys b)
    (by rw [sortVsys_groups_names]; exact hbgn)
  have hgn : (((planState diff a b).bGrp.filter (·.needed)).map (·.newName)).Nodup := by
    have : (((planState diff a b).bGrp.filter (·.needed)).map (·.newName)).Sublist
        ((planState diff a b).bGrp.map (·.newName)) := List.Sublist.map _ List.filter_sublist
    exact this.nodup (by rw [hnn]; exact hnnd)
  have hgf : ∀ g ∈ (planState diff a b).bGrp, g.needed = true → g.newName ∉ a.groups.map (·.name) := by
    intro g hg _
    have := (hIfin.fresh g hg).2
    rw [hmono.anames, stM_aGrp_names] at this
    exact this
  have hgm : ∀ g ∈ (planState diff a b).bGrp, g.needed = true → g.g.members.Nodup ∧
      ∀ m ∈ g.g.members, RefAddrN b m ∧ m ∈ b.addrs.map (·.name) := by
    intro g hg hn
    refine ⟨hIfin.bmemnd g hg, ?_⟩
    obtain ⟨i, hi⟩ := List.getElem?_of_mem hg
    obtain ⟨gb0, hgb0, eg, _⟩ := hmono.bget' hi
    have hn0 : gb0.needed = true := hmono.bn i gb0 g hgb0 hi hn
    have hgb0mem : gb0 ∈ (stM a b).bGrp := List.mem_of_getElem? hgb0
    obtain ⟨r, hr, hx⟩ := hprov gb0 hgb0mem hn0
    obtain ⟨gr, hgr, e, _, _⟩ := stM_bGrp_mem a b hgb0mem
    intro m hm
    rw [eg, e] at hm
    rw [e] at hx
    have hm' : m ∈ gr.members := (mem_sortStrings m _).mp hm
    have hmb := (hbgm gr hgr).2 m hm'
    refine ⟨⟨⟨r, hr, Or.inr ⟨gr, hgr, hx, hm'⟩⟩, ?_⟩, hmb⟩
    intro h
    exact (hnames m (by simp [h])).2.2.2.2 hmb
  exact runs_transferG sh (RefAddrN b) a b _ hA hS hbSG hban hbsn hgn hgf hgm

/-! ### Every target rule is looked at: paired with a device rule, or inserted -/

theorem cover_validFrom {eq : Nat → Nat → Bool} {n m : Nat} (a : List String) :
    ∀ (rs : List Range) (x y d : Nat), validFrom eq n m x y rs = true →
      ∀ j, y ≤ j → j < m →
        (∃ i, (i, j) ∈ eqPairs rs) ∨ (∃ g ∈ insGroupsFrom a d rs, g.lowB ≤ j ∧ j < g.highB) := by
  intro rs
  induction rs with
  | nil =>
    intro x y d h j hy hj
    obtain ⟨_, hm⟩ := validFrom_nil h
    omega
  | cons r rs ih =>
    intro x y d h j hy hj
    have hfull := h
    obtain ⟨h1, h2, h3, h4, h5, h6, h7⟩ := validFrom_cons h
    by_cases hjr : j < r.highB
    · cases hk : r.kind with
      | del => have := kind_del_lowB hk; omega
      | ins =>
        right
        exact ⟨⟨a[max r.lowA d]?, r.lowB, r.highB⟩, by simp [insGroupsFrom, hk], by show r.lowB ≤ j; omega, hjr⟩
      | eq =>
        left
        obtain ⟨hlen, _⟩ := kind_eq_len hfull hk
        refine ⟨r.lowA + (j - r.lowB), ?_⟩
        simp only [eqPairs, hk, List.mem_append, List.mem_map, List.mem_range]
        exact Or.inl ⟨j - r.lowB, by omega, by
          simp only [Prod.mk.injEq, true_and]; omega⟩
    · have hjy : r.highB ≤ j := by omega
      cases hk : r.kind with
      | del =>
        rcases ih r.highA r.highB r.highA h7 j hjy hj with ⟨i, hi⟩ | ⟨g, hg, hgb⟩
        · exact Or.inl ⟨i, by simp only [eqPairs, hk, List.nil_append]; exact hi⟩
        · exact Or.inr ⟨g, by simp only [insGroupsFrom, hk]; exact hg, hgb⟩
      | ins =>
        rcases ih r.highA r.highB d h7 j hjy hj with ⟨i, hi⟩ | ⟨g, hg, hgb⟩
        · exact Or.inl ⟨i, by simp only [eqPairs, hk, List.nil_append]; exact hi⟩
        · exact Or.inr ⟨g, by simp only [insGroupsFrom, hk]; exact List.mem_cons_of_mem _ hg, hgb⟩
      | eq =>
        rcases ih r.highA r.highB d h7 j hjy hj with ⟨i, hi⟩ | ⟨g, hg, hgb⟩
        · exact Or.inl ⟨i, by simp only [eqPairs, hk, List.mem_append]; exact Or.inr hi⟩
        · exact Or.inr ⟨g, by simp only [insGroupsFrom, hk]; exact hg, hgb⟩

theorem cover_validScript {eq : Nat → Nat → Bool} {n m : Nat} (a : List String) {rs : List Range}
    (h : validScript eq n m rs = true) :
    ∀ j, j < m → (∃ i, (i, j) ∈ eqPairs rs) ∨ (∃ g ∈ insGroupsFrom a 0 rs, g.lowB ≤ j ∧ j < g.highB) := by
  unfold validScript at h
  rw [Bool.or_eq_true] at h
  rcases h with h | h
  · exact fun j hj => cover_validFrom a rs 0 0 0 h j (Nat.zero_le _) hj
  · simp only [Bool.and_eq_true, decide_eq_true_eq, beq_iff_eq] at h
    obtain ⟨⟨_, hm⟩, hrs⟩ := h
    subst hrs
    intro j hj
    right
    have h0m : (0 == m) = false := by
      have : 0 ≠ m := by omega
      simpa using this
    refine ⟨⟨a[max 0 n]?, 0, m⟩, ?_, Nat.zero_le _, hj⟩
    simp [nothingCommon, insGroupsFrom, Range.kind, Range.isDelete, Range.isInsert, h0m]

/-! ### The rule phase -/

theorem filterMap_ordOf_grp (cs : List Cmd) :
    cs.filterMap ordOf = (cs.filter (fun c => !c.isGrpMem)).filterMap ordOf := by
  induction cs with
  | nil => rfl
  | cons c cs ih =>
    cases hg : c.isGrpMem with
    | false => simp [List.filter_cons, hg, List.filterMap_cons, ih]
    | true =>
      have : ordOf c = none := by cases c <;> simp_all [Cmd.isGrpMem, ordOf]
      simp [List.filter_cons, hg, List.filterMap_cons, this, ih]

theorem listShape_nodup {v : Vsys} {l : List String} (h : ListShape v l) : l.Nodup := by
  rcases h.2 with ⟨_, h1⟩ | h1
  · exact h1
  · obtain ⟨g, rfl, _⟩ := singleGrp_spec h1
    simp

theorem adaptRule_name (st : St) (rb : Rule) : (adaptRule st rb).name = rb.name := rfl
theorem adaptRule_hdr (st : St) (rb : Rule) : (adaptRule st rb).hdr = rb.hdr := rfl
theorem adaptRule_srv (st : St) (rb : Rule) : (adaptRule st rb).srv = rb.srv := rfl

theorem ruleNames_map_adapt (st : St) (B : List Rule) : ruleNames (B.map (adaptRule st)) = ruleNames B := by
  simp [ruleNames, List.map_map, Function.comp_def, adaptRule_name]

/-- **The rule phase, for a pair with address-groups**: the device accepts everything the
planner has appended (group-member requests and rule requests interleaved); afterwards it has
one rule per target rule, in the target's order, each with the target rule's header, service set
and source / destination as the target names them — a group by its final name on the device —
and the group table satisfies the invariant of the claims for the final planner state. -/
theorem grp_rulePhase (sh : Shared) (diff : Differ) (hd : GoodDiffer diff) (hid : IdentityDiffer diff) (a b : Vsys)
    (hP : GrpPair sh a b) (a1 : Vsys)
    (hT : AfterTransferG (RefAddrN b) a b (planState diff a b) a1) :
    ∃ w2 vg', Runs sh a1 (planState diff a b).out w2 ∧
      w2.addrs = a1.addrs ∧ w2.svcs = a1.svcs ∧ w2.sgroups = a1.sgroups ∧ w2.name = a1.name ∧
      w2.groups = vg'.groups ∧ vg'.groups.map (·.name) = a1.groups.map (·.name) ∧ vg'.addrs = a1.addrs ∧
      SimG sh (RefG b) (planState diff a b) vg' ∧
      (∀ n, n ∉ a.groups.map (·.name) → lookupGrp vg'.groups n = lookupGrp a1.groups n) ∧
      w2.rules.length = b.rules.length ∧ (ruleNames w2.rules).Nodup ∧
      (∀ (t : Nat) (r : Rule), w2.rules[t]? = some r →
        RuleLike r (adaptRule (planState diff a b) ((bRulesOf a b).getD t default))) ∧
      (∀ rb ∈ bRulesOf a b, GSettled (planState diff a b) rb.src ∧ GSettled (planState diff a b) rb.dst) := by
  have hI := stM_ginv sh a b hP
  obtain ⟨hAr, hBr⟩ := stM_shapes sh a b hP
  have hP' := hP
  obtain ⟨has, hbs, han, hbn, haan, hban, hasn, hbsn, hagn, hbgn, hagm, hbgm, hnames, hal, hbl, har, hbr, hres, hsres⟩ := hP
  -- lookups of what the rules use, on the device after the transfer
  have haddrAny : ∀ m, RefAddrN b m → m ∈ b.addrs.map (·.name) → a1.addrs.any (·.name == m) = true := by
    intro m hR hm
    have hl := hT.addrRef m hR hm
    obtain ⟨val, hval⟩ := lookupObj_isSome_of_mem hm
    rw [hval] at hl
    exact lookupObj_some_any hl
  have hS := simG_init sh a b hP' a1 (newGroups (planState diff a b).bGrp) hT.groups haddrAny
  obtain ⟨fin, vg', e, i2, s2, m2, hset1, hset2, step⟩ := diffRules_sim (sh := sh) diff hd hid (fuelOf a b)
    (sortVsys a) (sortVsys b) (sortVsys a).rules (bRulesOf a b) (stM a b) a1 hI hS hAr hBr
  have hfin : fin = planState diff a b := by rw [planState_def]; exact e.symm
  subst hfin
  -- the script
  generalize hrs : diff (sortVsys a).rules.length (bRulesOf a b).length
    (fun i j => ruleEqual (sortVsys a) (sortVsys b) ((sortVsys a).rules.getD i default)
      ((bRulesOf a b).getD j default)) = rs at hset1 hset2 step
  obtain ⟨hv, hn⟩ := hd (sortVsys a).rules.length (bRulesOf a b).length
    (fun i j => ruleEqual (sortVsys a) (sortVsys b) ((sortVsys a).rules.getD i default)
      ((bRulesOf a b).getD j default))
  rw [hrs] at hv hn
  -- every target rule has been looked at
  have hsettled : ∀ rb ∈ bRulesOf a b, GSettled (planState diff a b) rb.src ∧ GSettled (planState diff a b) rb.dst := by
    intro rb hrb
    obtain ⟨j, hj⟩ := List.getElem?_of_mem hrb
    have hjlt : j < (bRulesOf a b).length := (List.getElem?_eq_some_iff.mp hj).1
    rcases cover_validScript (ruleNames (sortVsys a).rules) hv j hjlt with ⟨i, hi⟩ | ⟨g, hg, hlo, hhi⟩
    · have := hset1 (i, j) hi
      simp only at this
      rw [getD_of_getElem? hj] at this
      exact this
    · exact hset2 g hg rb ((mem_extract_iff _ _ _ _).mpr ⟨j, hlo, hhi, hj⟩)
  -- names of groups on the device
  have hgn1 : vg'.groups.map (·.name) = a1.groups.map (·.name) := step.gnames
  have agrp_in : ∀ x ∈ a.groups.map (·.name), x ∈ vg'.groups.map (·.name) := by
    intro x hx
    rw [hgn1, hT.groups]
    simp only [List.map_append, List.mem_append]
    exact Or.inl hx
  have grpAny : ∀ x, x ∈ vg'.groups.map (·.name) → addrRefOk sh vg' x = true := by
    intro x hx
    simp [addrRefOk, any_name_of_mem hx]
  -- the target with its groups called by their names on the device
  have htg : TargetOk sh vg' ((bRulesOf a b).map (adaptRule (planState diff a b))) := by
    intro rb' hrb'
    obtain ⟨rb, hrb, rfl⟩ := List.mem_map.mp hrb'
    obtain ⟨r, hr, es, ed, ev, _⟩ := bRulesOf_mem a b hrb
    obtain ⟨set1, set2⟩ := hsettled rb hrb
    -- one source / destination list
    have field : ∀ (l : List String), (l = r.src ∨ l = r.dst) → ListShape b l →
        GSettled (planState diff a b) (sortStrings l) →
        (adaptL (planState diff a b) (sortStrings l)).Nodup ∧
          ∀ m ∈ adaptL (planState diff a b) (sortStrings l), addrRefOk sh vg' m = true := by
      intro l hl hshape hset
      rcases hshape.2 with ⟨hng, hnd⟩ | hsg
      · have hidx : ∀ y ∈ sortStrings l, (planState diff a b).bGrpIdx y = none := by
          intro y hy
          rw [m2.bIdx]
          unfold St.bGrpIdx
          apply lastIdx_none_of_not_mem
          rw [stM_bGrp_names]
          intro h
          have := hng y ((mem_sortStrings y l).mp hy)
          rw [(isGrpOf_iff b y).mpr h] at this; cases this
        rw [adaptL_plain _ _ hidx]
        refine ⟨sortStrings_nodup hnd, ?_⟩
        intro m hm
        have hml : m ∈ l := (mem_sortStrings m l).mp hm
        have hres := (hbr r hr).1 m (by rcases hl with rfl | rfl <;> simp [hml])
        rcases hres with h | h | h | h
        · simp [addrRefOk, h]
        · simp [addrRefOk, h]
        · have hR : RefAddrN b m := ⟨⟨r, hr, Or.inl (by rcases hl with rfl | rfl; exact Or.inl hml; exact Or.inr hml)⟩,
            fun hg => by
              have := hng m hml
              rw [(isGrpOf_iff b m).mpr hg] at this; cases this⟩
          have := haddrAny m hR h
          rw [← step.addrs] at this
          simp [addrRefOk, this]
        · have := hng m hml
          rw [(isGrpOf_iff b m).mpr h] at this; cases this
      · obtain ⟨g, rfl, hg⟩ := singleGrp_spec hsg
        rw [sortStrings_single] at hset ⊢
        refine ⟨by simp [adaptL], ?_⟩
        intro m hm
        simp only [adaptL, List.map_cons, List.map_nil, List.mem_singleton] at hm
        subst hm
        -- the name of the group on the device
        have hsome : ((planState diff a b).bGrpIdx g).isSome := by
          rw [m2.bIdx]
          unfold St.bGrpIdx
          apply lastIdx_isSome_of_mem
          rw [stM_bGrp_names]; exact (isGrpOf_iff b g).mp hg
        obtain ⟨gbi, hgbi⟩ := Option.isSome_iff_exists.mp hsome
        obtain ⟨gb, hgb, hne⟩ := hset g (by simp) gbi hgbi
        have hval : adapt1 (planState diff a b) g = gb.onDev := by
          unfold adapt1; rw [hgbi]; simp [hgb]
        rw [hval]
        have hgbmem : gb ∈ (planState diff a b).bGrp := List.mem_of_getElem? hgb
        apply grpAny
        rcases i2.c3 gb hgbmem with h | h | h
        · exact absurd h hne
        · have hneeded := i2.c1 gb hgbmem h
          rw [hgn1, hT.groups, h]
          simp only [List.map_append, List.mem_append]
          right
          unfold newGroups
          simp only [List.map_map, List.mem_map, List.mem_filter, Function.comp]
          exact ⟨gb, ⟨hgbmem, hneeded⟩, rfl⟩
        · rw [m2.anames, stM_aGrp_names] at h
          exact agrp_in _ h
    obtain ⟨n1, r1⟩ := field r.src (Or.inl rfl) (hbl r hr).1 (by rw [← es]; exact set1)
    obtain ⟨n2, r2⟩ := field r.dst (Or.inr rfl) (hbl r hr).2 (by rw [← ed]; exact set2)
    refine ⟨by simp only [adaptRule]; rw [es]; exact n1, by simp only [adaptRule]; rw [ed]; exact n2, ?_, ?_, ?_⟩
    · intro m hm
      simp only [adaptRule] at hm
      rw [es] at hm
      exact r1 m hm
    · intro m hm
      simp only [adaptRule] at hm
      rw [ed] at hm
      exact r2 m hm
    · intro m hm
      rw [adaptRule_srv, ev] at hm
      have hmr : m ∈ r.srv := (mem_sortStrings m _).mp hm
      rcases (hbr r hr).2 m hmr with h | h | h | h
      · simp [refOk, srvRefOk, h]
      · simp [refOk, srvRefOk, h]
      · simp [refOk, srvRefOk, h]
      · have hl := hT.svcRef m ⟨r, hr, hmr⟩ h
        obtain ⟨val, hval⟩ := lookupObj_isSome_of_mem h
        rw [hval] at hl
        have := lookupObj_some_any hl
        rw [← step.svcs] at this
        simp [refOk, srvRefOk, this]
  -- the requests of the rule phase, split
  obtain ⟨cs, ho, hf1, hgrun, hkind⟩ := step.ex
  have hout : (planState diff a b).out = cs := by rw [ho, stM_out]; rfl
  -- order-relevant requests
  have hordx := diffRules_ord diff (fuelOf a b + 2) (stM a b) (sortVsys a) (sortVsys b) (sortVsys a).rules (bRulesOf a b)
  rw [← planState_def, hrs, hout, stM_out] at hordx
  simp only [List.filterMap_nil, List.nil_append] at hordx
  have hord : (plainRuleCmds diff (sortVsys a).rules ((bRulesOf a b).map (adaptRule (planState diff a b))) rs).filterMap ordOf =
      orderOps (ruleNames (sortVsys a).rules) (ruleNames ((bRulesOf a b).map (adaptRule (planState diff a b)))) rs := by
    rw [← hf1, ← filterMap_ordOf_grp, hordx, ruleNames_map_adapt]
  -- the generic rule phase on the device after the group-member requests
  have hal' : ∀ r ∈ a.rules, r.src.Nodup ∧ r.dst.Nodup :=
    fun r hr => ⟨listShape_nodup (hal r hr).1, listShape_nodup (hal r hr).2⟩
  obtain ⟨w2, hw2, u1, u2, u3, u4, u5, hlen, hnd, hlike⟩ := rulePhase_generic sh diff hd a.rules (sortVsys a).rules
    ((bRulesOf a b).map (adaptRule (planState diff a b))) rs
    (fun i j => ruleEqual (sortVsys a) (sortVsys b) ((sortVsys a).rules.getD i default) ((bRulesOf a b).getD j default))
    vg' (by rw [step.rules, hT.rules]) (sortedCopy_sortVsys a hal')
    (by
      rw [ruleNames_map_adapt, sortVsys_ruleNames, bRulesOf_names]
      exact uniqNames_nodup_append suffixInj _ _ han hbn)
    (by simpa using hv) hn
    (by
      intro i j _ _ h
      rw [getD_map_adapt, adaptRule_hdr]
      unfold ruleEqual at h
      simp only [Bool.and_eq_true, beq_iff_eq] at h
      exact h.1.1.1)
    htg hord
  have hother : ∀ n, n ∉ a.groups.map (·.name) → lookupGrp vg'.groups n = lookupGrp a1.groups n := by
    apply runs_grpMem_other sh _ (cs.filter Cmd.isGrpMem) a1 vg' ?_ hgrun
    intro c hc
    obtain ⟨hcm, hci⟩ := List.mem_filter.mp hc
    rcases hkind c hcm with ⟨h1, h2⟩ | h
    · exact ⟨h1, by rw [stM_aGrp_names] at h2; exact h2⟩
    · rw [onRules_not_grpMem h] at hci; cases hci
  refine ⟨w2, vg', ?_, u1.trans step.addrs, u2.trans step.svcs, u4.trans step.sgroups, u5.trans step.name, u3, hgn1,
    step.addrs, s2, hother, by rw [hlen]; simp [bRulesOf_length], hnd, ?_, hsettled⟩
  · rw [hout]
    apply runs_of_split sh cs a1 vg' w2 _ hgrun (by rw [hf1]; exact hw2)
    intro c hc
    rcases hkind c hc with ⟨h1, h2⟩ | h
    · left
      refine ⟨h1, ?_⟩
      rw [stM_aGrp_names] at h2
      rw [hT.groups]
      simp only [List.map_append, List.mem_append]
      exact Or.inl h2
    · exact Or.inr h
  · intro t r hr
    have := hlike t r hr
    rw [getD_map_adapt] at this
    exact this

end NA.PanOs
