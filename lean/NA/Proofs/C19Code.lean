import NA.Proofs.C19Number4
/-!
# C19 — the compiled code of every policy directory belongs to the tree of its HEAD

The compiler stamps `next` with the content id of the tree it read (`Dir.code`, the tree without
the POLICY file).  Between the compile and `mv next $POLICY` the script commits POLICY (same
content), may merge what others pushed (`git pull --no-rebase`: HEAD now has THEIR content) and
returns to its own commit with `git reset --hard $HASH`.  Domain `code`:
* `codeH` — the stamp of `next` is the content of HEAD of next/src,
* `codeS` — `$HASH` is set and the stamp of `next` is the content of commit `$HASH`;
requirement: `mv next $POLICY` only with `codeH`.  Dropping the `git reset` loses `codeH` at the `mv`.
-/
set_option linter.unusedVariables false
set_option linter.unnecessarySimpa false
set_option linter.unusedSimpArgs false
namespace NA.C19

/-- commands that change the stamp of `next` or whether `next` exists -/
def Cmd.wCode : Cmd → Bool
  | .rmrfNext | .mkdirNext | .mkdirNextP | .compile | .mvNextTo => true
  | _ => false

structure F4 where
  holds : Bool
  codeH : Bool
  codeS : Bool
  clean : Bool
  nextNone : Bool
  nextEmpty : Bool
  deriving DecidableEq, Repr

def F4.kept (a : F4) (c : Cmd) : F4 where
  holds := a.holds
  codeH := a.codeH && !c.wNext
  codeS := a.codeS && !c.wCode && !c.wHash
  clean := a.clean && !c.wCode
  nextNone := a.nextNone && !c.wNext
  nextEmpty := a.nextEmpty && !c.wNext

def tf4 (c : Cmd) (a : F4) (ok : Bool) : Option F4 :=
  let k := a.kept c
  match c with
  | .flockNB => some (if ok then { k with holds := true } else k)
  | .rmrfNext => some { k with nextNone := a.holds }
  | .mkdirNext =>
    if ok then some { k with clean := a.holds, nextEmpty := a.holds } else if a.nextNone then none else some k
  | .compile => some { k with codeH := ok && a.holds && a.clean }
  | .gitCommitPolicy => some { k with codeH := a.codeH }
  | .saveHash => if ok then some { k with codeS := a.codeH } else if a.codeH then none else some k
  | .gitResetHash => some { k with codeH := a.codeS }
  | _ => some k

def req4 (c : Cmd) (a : F4) : Bool :=
  match c with
  | .mvNextTo => a.codeH
  | _ => true

def code : Dom where
  F := F4
  le a b := (!b.holds || a.holds) && (!b.codeH || a.codeH) && (!b.codeS || a.codeS) && (!b.clean || a.clean) &&
    (!b.nextNone || a.nextNone) && (!b.nextEmpty || a.nextEmpty)
  meet a b := ⟨a.holds && b.holds, a.codeH && b.codeH, a.codeS && b.codeS, a.clean && b.clean, a.nextNone && b.nextNone,
    a.nextEmpty && b.nextEmpty⟩
  entry := ⟨false, false, false, false, false, false⟩
  tf := tf4
  req := req4

def treeOf (g : G) (i : Nat) : Nat := (commitAt g.store i).tree

structure Γ4 (a : F4) (g : G) (p : Proc) : Prop where
  holds : a.holds = true → g.lock = some p.pid
  codeH : a.codeH = true → g.lock = some p.pid ∧
            ∃ d h, g.next = some d ∧ d.head = some h ∧ d.code = treeOf g h ∧ d.mixed = false
  codeS : a.codeS = true → g.lock = some p.pid ∧ p.hash ≠ 0 ∧
            ∃ d, g.next = some d ∧ d.code = treeOf g p.hash ∧ d.mixed = false
  clean : a.clean = true → g.lock = some p.pid ∧ ∃ d, g.next = some d ∧ d.dirty = false ∧ d.mixed = false
  nextNone : a.nextNone = true → g.lock = some p.pid ∧ g.next = none
  nextEmpty : a.nextEmpty = true → g.lock = some p.pid ∧ ∃ d, g.next = some d ∧ d.head = none

theorem Γ4.mono {a b : F4} {g : G} {p : Proc} (h : Γ4 a g p) (hle : code.le a b = true) : Γ4 b g p := by
  simp only [code, Bool.and_eq_true, Bool.or_eq_true, Bool.not_eq_true'] at hle
  obtain ⟨⟨⟨⟨⟨h1, h2⟩, h3⟩, h4⟩, h5⟩, h6⟩ := hle
  constructor
  · intro hb; exact h.holds (by rcases h1 with h1 | h1 <;> simp_all)
  · intro hb; exact h.codeH (by rcases h2 with h2 | h2 <;> simp_all)
  · intro hb; exact h.codeS (by rcases h3 with h3 | h3 <;> simp_all)
  · intro hb; exact h.clean (by rcases h4 with h4 | h4 <;> simp_all)
  · intro hb; exact h.nextNone (by rcases h5 with h5 | h5 <;> simp_all)
  · intro hb; exact h.nextEmpty (by rcases h6 with h6 | h6 <;> simp_all)

/-- Global part: every compiled policy directory carries the content of its HEAD; ids are positive. -/
structure GI4 (g : G) : Prop where
  dirs : ∀ n d, lookupDir g.dirs n = some d → d.built = true →
          ∃ h, d.head = some h ∧ h ≤ g.store.length ∧ d.code = treeOf g h ∧ d.mixed = false
  rpos : 1 ≤ g.remote
  hpos : ∀ h, g.nextHead = some h → 1 ≤ h

/-! ### Frame -/

theorem fr_code (c : Cmd) (g : G) (p : Proc) (h : c.wCode = false) :
    (exec c g p).1.next.map (fun d => (d.code, d.dirty, d.mixed)) = g.next.map (fun d => (d.code, d.dirty, d.mixed)) := by
  cases c <;> simp [Cmd.wCode] at h <;> simp only [exec] <;> (repeat' split) <;> simp_all [G.setNextHead] <;>
    (repeat' split) <;> simp_all

theorem commitAt_exec (c : Cmd) {g : G} {p : Proc} {i : Nat} (h : i ≤ g.store.length) :
    commitAt (exec c g p).1.store i = commitAt g.store i := by
  obtain ⟨l, hl⟩ := fr_store_grow c g p
  rw [hl, commitAt_append h]

theorem treeOf_exec (c : Cmd) {g : G} {p : Proc} {i : Nat} (h : i ≤ g.store.length) :
    treeOf (exec c g p).1 i = treeOf g i := by
  unfold treeOf; rw [commitAt_exec c h]

theorem keep4 (c : Cmd) {a : F4} {g : G} {p : Proc} {pc : Nat} {t : Bool} (hΓ : Γ4 a g p) (hvg : VG g) (hvp : VP g p) :
    Γ4 (a.kept c) (exec c g p).1 (upd (exec c g p).2.1 pc t) := by
  have hl : g.lock = some p.pid → (exec c g p).1.lock = some (upd (exec c g p).2.1 pc t).pid := by
    intro h; simp [exec_pid]; exact exec_lock_own h
  constructor
  · intro hf; exact hl (hΓ.holds hf)
  · intro hf
    simp only [F4.kept, Bool.and_eq_true, Bool.not_eq_true'] at hf
    obtain ⟨h1, h2⟩ := hf
    obtain ⟨hL, d, h, hn, hh, hc, hm⟩ := hΓ.codeH h1
    refine ⟨hl hL, d, h, by rw [fr_next c g p h2]; exact hn, hh, ?_, hm⟩
    rw [treeOf_exec c (hvg.head h (by simp [G.nextHead, hn, hh]))]; exact hc
  · intro hf
    simp only [F4.kept, Bool.and_eq_true, Bool.not_eq_true'] at hf
    obtain ⟨⟨h1, h2⟩, h3⟩ := hf
    obtain ⟨hL, hne, d, hn, hc, hm⟩ := hΓ.codeS h1
    have hcode := fr_code c g p h2
    rw [hn] at hcode
    have hh : (exec c g p).2.1.hash = p.hash := fr_hash c g p h3
    refine ⟨hl hL, by show (exec c g p).2.1.hash ≠ 0; rw [hh]; exact hne, ?_⟩
    cases hn' : (exec c g p).1.next with
    | none => simp [hn'] at hcode
    | some d' =>
      simp [hn'] at hcode
      refine ⟨d', rfl, ?_, by rw [hcode.2.2]; exact hm⟩
      show d'.code = treeOf _ (exec c g p).2.1.hash
      rw [hh, treeOf_exec c hvp.hash, hcode.1]; exact hc
  · intro hf
    simp only [F4.kept, Bool.and_eq_true, Bool.not_eq_true'] at hf
    obtain ⟨h1, h2⟩ := hf
    obtain ⟨hL, d, hn, hd, hm⟩ := hΓ.clean h1
    have hcode := fr_code c g p h2
    rw [hn] at hcode
    refine ⟨hl hL, ?_⟩
    cases hn' : (exec c g p).1.next with
    | none => simp [hn'] at hcode
    | some d' =>
      simp [hn'] at hcode
      exact ⟨d', rfl, by rw [hcode.2.1]; exact hd, by rw [hcode.2.2]; exact hm⟩
  · intro hf
    simp only [F4.kept, Bool.and_eq_true, Bool.not_eq_true'] at hf
    obtain ⟨h1, h2⟩ := hf
    obtain ⟨hL, hn⟩ := hΓ.nextNone h1
    exact ⟨hl hL, by rw [fr_next c g p h2]; exact hn⟩
  · intro hf
    simp only [F4.kept, Bool.and_eq_true, Bool.not_eq_true'] at hf
    obtain ⟨h1, h2⟩ := hf
    obtain ⟨hL, hn⟩ := hΓ.nextEmpty h1
    exact ⟨hl hL, by rw [fr_next c g p h2]; exact hn⟩

/-! ### Own step -/

/-- The branches the domain calls impossible: `HASH=$(git log …)` failing although next/src has a
HEAD, and `mkdir $NEXT` failing right after `rm -rf $NEXT` under the lock. -/
theorem tf4_feasible {c : Cmd} {a : F4} {g : G} {p : Proc} (hΓ : Γ4 a g p) :
    ∃ x, tf4 c a (exec c g p).2.2 = some x := by
  by_cases hc : c = .saveHash
  · subst hc
    cases hok : (exec Cmd.saveHash g p).2.2
    · by_cases ha : a.codeH = true
      · exfalso
        obtain ⟨_, d, h, hn, hh, _⟩ := hΓ.codeH ha
        simp [exec, G.nextHead, hn, hh] at hok
      · simp [tf4, ha]
    · simp [tf4]
  by_cases hc2 : c = .mkdirNext
  · subst hc2
    cases hok : (exec Cmd.mkdirNext g p).2.2
    · by_cases ha : a.nextNone = true
      · exfalso
        obtain ⟨_, hn⟩ := hΓ.nextNone ha
        simp [exec, hn] at hok
      · simp [tf4, ha]
    · simp [tf4]
  · cases c <;> simp_all [tf4]

theorem own4 {c : Cmd} {a x : F4} {g : G} {p : Proc} {pc : Nat} {t : Bool} (hΓ : Γ4 a g p) (hvg : VG g) (hvp : VP g p)
    (hpos : ∀ h, g.nextHead = some h → 1 ≤ h)
    (htf : tf4 c a (exec c g p).2.2 = some x) : Γ4 x (exec c g p).1 (upd (exec c g p).2.1 pc t) := by
  have hK := keep4 c (pc := pc) (t := t) hΓ hvg hvp
  have hl : g.lock = some p.pid → (exec c g p).1.lock = some (upd (exec c g p).2.1 pc t).pid := by
    intro h; simp [exec_pid]; exact exec_lock_own h
  by_cases c1 : c = .flockNB
  · subst c1
    cases hok : (exec Cmd.flockNB g p).2.2 <;> simp [tf4, hok] at htf <;> subst htf
    · exact hK
    · refine ⟨fun _ => ?_, hK.codeH, hK.codeS, hK.clean, hK.nextNone, hK.nextEmpty⟩
      simp [exec_pid]; exact flock_ok hok
  by_cases c00 : c = .rmrfNext
  · subst c00
    simp [tf4] at htf; subst htf
    refine ⟨hK.holds, hK.codeH, hK.codeS, hK.clean, ?_, hK.nextEmpty⟩
    intro hf
    simp at hf
    exact ⟨hl (hΓ.holds hf), by simp [exec]⟩
  by_cases c0 : c = .mkdirNext
  · subst c0
    cases hok : (exec Cmd.mkdirNext g p).2.2
    · by_cases ha : a.nextNone = true
      · simp [tf4, hok, ha] at htf
      · simp [tf4, hok, ha] at htf; subst htf; exact hK
    · simp [tf4, hok] at htf; subst htf
      have hnew : ∃ d, (exec Cmd.mkdirNext g p).1.next = some d ∧ d.head = none ∧ d.dirty = false ∧ d.mixed = false := by
        simp only [exec] at hok ⊢
        cases hn : g.next with
        | none => simp
        | some d => simp [hn] at hok
      obtain ⟨d, hd1, hd2, hd3, hd4⟩ := hnew
      refine ⟨hK.holds, hK.codeH, hK.codeS, ?_, hK.nextNone, ?_⟩
      · intro hf
        simp at hf
        exact ⟨hl (hΓ.holds hf), d, hd1, hd3, hd4⟩
      · intro hf
        simp at hf
        exact ⟨hl (hΓ.holds hf), d, hd1, hd2⟩
  by_cases c2 : c = .compile
  · subst c2
    simp [tf4] at htf; subst htf
    refine ⟨hK.holds, ?_, hK.codeS, hK.clean, hK.nextNone, hK.nextEmpty⟩
    intro hf
    simp at hf
    obtain ⟨⟨hok, hh0⟩, hcl⟩ := hf
    obtain ⟨_, d, hn, hd, hm⟩ := hΓ.clean hcl
    refine ⟨hl (hΓ.holds hh0), ?_⟩
    simp only [exec, hn] at hok ⊢
    cases hh : d.head with
    | none => simp [hh] at hok
    | some h =>
      by_cases hg : (commitAt g.store h).good = true
      · simp [hh, hg, treeOf, hd, hm]
      · simp [hh, hg] at hok
  by_cases c3 : c = .gitCommitPolicy
  · subst c3
    simp [tf4] at htf; subst htf
    refine ⟨hK.holds, ?_, hK.codeS, hK.clean, hK.nextNone, hK.nextEmpty⟩
    intro hf
    simp at hf
    obtain ⟨hL, d, h, hn, hh, hc, hm⟩ := hΓ.codeH hf
    refine ⟨hl hL, ?_⟩
    have hnh : g.nextHead = some h := by simp [G.nextHead, hn, hh]
    have hv := hvg.head h hnh
    simp only [exec, hnh]
    cases hs : p.spol with
    | none => exact ⟨d, h, hn, hh, hc, hm⟩
    | some n =>
      simp only []
      split
      · exact ⟨d, h, hn, hh, hc, hm⟩
      · refine ⟨{ d with head := some (g.store.length + 1) }, g.store.length + 1, ?_, rfl, ?_, hm⟩
        · simp [G.setNextHead, hn]
        · simp [treeOf, commitAt_new]; exact hc
  by_cases c4 : c = .saveHash
  · subst c4
    cases hok : (exec Cmd.saveHash g p).2.2
    · by_cases ha : a.codeH = true
      · simp [tf4, hok, ha] at htf
      · simp [tf4, hok, ha] at htf; subst htf; exact hK
    · simp [tf4, hok] at htf; subst htf
      refine ⟨hK.holds, hK.codeH, ?_, hK.clean, hK.nextNone, hK.nextEmpty⟩
      intro hf
      simp at hf
      obtain ⟨hL, d, h, hn, hh, hc, hm⟩ := hΓ.codeH hf
      have hnh : g.nextHead = some h := by simp [G.nextHead, hn, hh]
      have h1 := hpos h hnh
      refine ⟨hl hL, ?_, d, ?_, ?_, hm⟩
      · simp [exec, hnh]; omega
      · simp [exec, hn]
      · simp [exec, hnh, treeOf] at hc ⊢; exact hc
  by_cases c5 : c = .gitResetHash
  · subst c5
    simp [tf4] at htf; subst htf
    refine ⟨hK.holds, ?_, hK.codeS, hK.clean, hK.nextNone, hK.nextEmpty⟩
    intro hf
    simp at hf
    obtain ⟨hL, hne, d, hn, hc, hm⟩ := hΓ.codeS hf
    refine ⟨hl hL, { d with head := some p.hash }, p.hash, ?_, rfl, ?_, hm⟩
    · simp [exec, hne, G.setNextHead, hn]
    · simp [exec, hne, treeOf] at hc ⊢; exact hc
  · have : x = a.kept c := by
      revert htf
      cases c <;> simp_all [tf4]
    subst this; exact hK

end NA.C19

namespace NA.C19

/-! ### Facts of a process that does not move -/

theorem Γ4.vacuous {b : F4} {g g' : G} {q : Proc} {pid : Nat} (h : Γ4 b g q) (hl : g.lock = some pid)
    (hne : q.pid ≠ pid) : Γ4 b g' q := by
  have no : g.lock = some q.pid → False := by
    intro h1; rw [hl] at h1; injection h1 with h1; exact hne h1.symm
  exact ⟨fun hf => (no (h.holds hf)).elim, fun hf => (no (h.codeH hf).1).elim, fun hf => (no (h.codeS hf).1).elim,
    fun hf => (no (h.clean hf).1).elim, fun hf => (no (h.nextNone hf).1).elim, fun hf => (no (h.nextEmpty hf).1).elim⟩

theorem Γ4.release {b : F4} {g : G} {q : Proc} {pid : Nat} (h : Γ4 b g q) (hne : q.pid ≠ pid) :
    Γ4 b (release g pid) q := by
  unfold NA.C19.release
  split
  · next hl => exact h.vacuous hl hne
  · exact h

/-- same lock (for the holder), same `next`, store only longer -/
theorem Γ4.grow {b : F4} {g g' : G} {q : Proc} (h : Γ4 b g q) (hvg : VG g) (hvp : VP g q)
    (hlock : g.lock = some q.pid → g'.lock = some q.pid) (hn : g'.next = g.next)
    (hs : ∃ l, g'.store = g.store ++ l) : Γ4 b g' q := by
  obtain ⟨l, hl⟩ := hs
  have ht : ∀ i, i ≤ g.store.length → treeOf g' i = treeOf g i := by
    intro i hi; simp [treeOf, hl, commitAt_append hi]
  refine ⟨fun hf => hlock (h.holds hf), ?_, ?_, ?_, fun hf => ⟨hlock (h.nextNone hf).1, by rw [hn]; exact (h.nextNone hf).2⟩,
    fun hf => ⟨hlock (h.nextEmpty hf).1, by rw [hn]; exact (h.nextEmpty hf).2⟩⟩
  · intro hf
    obtain ⟨hL, d, x, hd, hx, hc, hm⟩ := h.codeH hf
    exact ⟨hlock hL, d, x, by rw [hn]; exact hd, hx, by rw [ht x (hvg.head x (by simp [G.nextHead, hd, hx]))]; exact hc, hm⟩
  · intro hf
    obtain ⟨hL, hne, d, hd, hc, hm⟩ := h.codeS hf
    exact ⟨hlock hL, hne, d, by rw [hn]; exact hd, by rw [ht _ hvp.hash]; exact hc, hm⟩
  · intro hf
    obtain ⟨hL, d, hd, h1, h2⟩ := h.clean hf
    exact ⟨hlock hL, d, by rw [hn]; exact hd, h1, h2⟩

theorem other4 {c : Cmd} {b : F4} {g : G} {p q : Proc} (h : Γ4 b g q) (hvg : VG g) (hvp : VP g q) (hne : q.pid ≠ p.pid)
    (hmut : c.mutating = true → g.lock = some p.pid) : Γ4 b (exec c g p).1 q := by
  cases hm : c.mutating
  · obtain ⟨h2, _, _⟩ := exec_nonmut g p hm
    refine h.grow hvg hvp ?_ h2 (fr_store_grow c g p)
    intro hl
    rcases exec_lock c g p with h1 | ⟨h0, _⟩
    · rw [h1]; exact hl
    · rw [h0] at hl; cases hl
  · exact h.vacuous (hmut hm) hne

/-! ### The global part -/

theorem lookupDir_setNested_fields {ds : List (Nat × Dir)} {m n : Nat} {d : Dir}
    (h : lookupDir (setNested ds m) n = some d) :
    ∃ d0, lookupDir ds n = some d0 ∧ d0.built = d.built ∧ d0.head = d.head ∧ d0.code = d.code ∧ d0.mixed = d.mixed := by
  induction ds with
  | nil => simp [setNested, lookupDir] at h
  | cons x xs ih =>
    obtain ⟨k, e⟩ := x
    by_cases h1 : k = m <;> by_cases h2 : k = n <;> simp_all [setNested, lookupDir]
    all_goals first | (subst h; simp) | exact ih h

theorem GI4.grow {g g' : G} (h : GI4 g) (hd : g'.dirs = g.dirs) (hs : ∃ l, g'.store = g.store ++ l)
    (hr : 1 ≤ g'.remote) (hh : ∀ x, g'.nextHead = some x → 1 ≤ x) : GI4 g' := by
  obtain ⟨l, hl⟩ := hs
  refine ⟨?_, hr, hh⟩
  intro n d hn hb
  rw [hd] at hn
  obtain ⟨x, hx, hv, hc, hm⟩ := h.dirs n d hn hb
  refine ⟨x, hx, by rw [hl]; simp; omega, ?_, hm⟩
  simp [treeOf, hl, commitAt_append hv]; exact hc

theorem gi4_exec {c : Cmd} {a : F4} {g : G} {p : Proc} (h : GI4 g) (hΓ : Γ4 a g p) (hreq : req4 c a = true)
    (hvg : VG g) (hvp : VP g p) : GI4 (exec c g p).1 := by
  have hlen := len_exec c (g := g) (p := p)
  have hrpos : 1 ≤ (exec c g p).1.remote := by
    by_cases hc : c.wRemote = false
    · rw [fr_remote c g p hc]; exact h.rpos
    · have : c = .gitPush := by cases c <;> simp_all [Cmd.wRemote]
      subst this
      simp only [exec]
      cases hh : g.nextHead with
      | none => simpa using h.rpos
      | some x =>
        simp only []
        split
        · simpa using h.hpos x hh
        · simpa using h.rpos
  have hhpos : ∀ x, (exec c g p).1.nextHead = some x → 1 ≤ x := by
    intro x hx
    rcases head_exec c g p x hx with h1 | h1 | ⟨h1, _⟩ | ⟨h1, h2⟩
    · exact h.hpos x h1
    · rw [h1]; exact h.rpos
    · omega
    · omega
  by_cases hc : c = .mvNextTo
  · subst hc
    refine ⟨?_, hrpos, hhpos⟩
    simp only [req4] at hreq
    obtain ⟨_, d0, x0, hn0, hx0, hc0, hm0⟩ := hΓ.codeH hreq
    have hv0 : x0 ≤ g.store.length := hvg.head x0 (by simp [G.nextHead, hn0, hx0])
    intro n d
    simp only [exec, hn0]
    cases he : lookupDir g.dirs p.policy with
    | none =>
      simp only [lookupDir]
      by_cases hpn : p.policy = n
      · simp [hpn]; intro hd _; subst hd; exact ⟨x0, hx0, hv0, by simpa [treeOf] using hc0, hm0⟩
      · simp [hpn]; intro hd hb; simpa [treeOf] using h.dirs n d hd hb
    | some e =>
      by_cases hn : e.nested = true
      · simp [hn]; intro hd hb; simpa [treeOf] using h.dirs n d hd hb
      · simp [hn]
        intro hd hb
        obtain ⟨d1, h1, hb1, hh1, hc1, hm1⟩ := lookupDir_setNested_fields hd
        obtain ⟨x, hx, hv, hcx, hmx⟩ := h.dirs n d1 h1 (by rw [hb1]; exact hb)
        exact ⟨x, by rw [← hh1]; exact hx, hv, by rw [← hc1]; simpa [treeOf] using hcx, by rw [← hm1]; exact hmx⟩
  · exact h.grow (exec_dirs g p hc) (fr_store_grow c g p) hrpos hhpos

theorem GI4.release {g : G} {pid : Nat} (h : GI4 g) : GI4 (release g pid) := by
  unfold NA.C19.release
  split
  · exact ⟨h.dirs, h.rpos, h.hpos⟩
  · exact h

/-! ### Invariant over all schedules -/

structure Inv4 (ann : Ann code) (s : State) : Prop where
  gi    : GI4 s.g
  procs : ∀ p ∈ s.procs, p.alive = true → ∃ a, code.at ann p.pc = some a ∧ Γ4 a s.g p

theorem Inv4.dying {ann : Ann code} {s : State} {d : List Nat} (h : Inv4 ann s) : Inv4 ann { s with dying := d } :=
  ⟨h.gi, h.procs⟩

theorem inv4_init {ann : Ann code} (se : Bool) : Inv4 ann (init se) :=
  ⟨⟨fun n d h => by simp [init, lookupDir] at h, by simp [init], fun h hh => by simp [init, G.nextHead] at hh⟩,
   fun p hp => by simp [init] at hp⟩

theorem inv4_stepCore {prog : Prog} {ann1 : Ann safety} {ann2 : Ann numbering} {ann : Ann code}
    (hc1 : check safety prog ann1 = true) (hc : check code prog ann = true) {s : State}
    (hinv1 : Inv1 ann1 s) (hinv2 : Inv2 ann2 s) (hinv : Inv4 ann s) (e : Event) : Inv4 ann (stepCore prog s e) := by
  obtain ⟨hgi, hprocs⟩ := hinv
  have hvg := hinv2.vg
  cases e with
  | commit good pol email =>
    simp only [stepCore]
    have hs : ∃ l, (applyCommit s.g good pol email).store = s.g.store ++ l := ⟨_, rfl⟩
    refine ⟨?_, ?_⟩
    · have := hgi.grow (g' := applyCommit s.g good pol email) rfl hs (by simp [applyCommit])
        (fun x hx => hgi.hpos x (by simpa [G.nextHead, applyCommit] using hx))
      exact ⟨this.dirs, this.rpos, this.hpos⟩
    · intro p hp ha
      obtain ⟨a, h1, h2⟩ := hprocs p hp ha
      have := h2.grow (g' := applyCommit s.g good pol email) hvg (hinv2.vp p hp) (fun h => h) rfl hs
      exact ⟨a, h1, ⟨this.holds, this.codeH, this.codeS, this.clean, this.nextNone, this.nextEmpty⟩⟩
  | spawn =>
    simp only [stepCore]
    refine ⟨hgi, ?_⟩
    intro p hp ha
    simp only [List.mem_append, List.mem_singleton] at hp
    rcases hp with hp | hp
    · exact hprocs p hp ha
    · subst hp
      obtain ⟨a, h1, h2⟩ := check_entry hc
      refine ⟨a, h1, Γ4.mono ?_ h2⟩
      exact ⟨fun h => by simp [code] at h, fun h => by simp [code] at h, fun h => by simp [code] at h,
        fun h => by simp [code] at h, fun h => by simp [code] at h, fun h => by simp [code] at h⟩
  | kill pid =>
    simp only [stepCore]
    cases hf : findProc s.procs pid with
    | none => exact ⟨hgi, hprocs⟩
    | some p =>
      obtain ⟨hpm, hpp⟩ := findProc_some hf
      by_cases hal : p.alive = true
      · simp only [hal, if_true]
        refine ⟨hgi.release, ?_⟩
        intro q hq hqa
        rcases mem_replaceProc hq with ⟨rfl, _⟩ | ⟨hq1, hq2⟩
        · simp at hqa
        · obtain ⟨b, h1, h2⟩ := hprocs q hq1 hqa
          exact ⟨b, h1, h2.release (by simpa [hpp] using hq2)⟩
      · simp [hal]; exact ⟨hgi, hprocs⟩
  | killDuring pid => exact ⟨hgi, hprocs⟩
  | step pid =>
    simp only [stepCore]
    cases hf : findProc s.procs pid with
    | none => exact ⟨hgi, hprocs⟩
    | some p =>
      obtain ⟨hpm, hpp⟩ := findProc_some hf
      by_cases hal : p.alive = true
      · simp only [hal, if_true]
        obtain ⟨a1, ha1, hΓ1⟩ := hinv1.procs p hpm hal
        have hlt : p.pc < prog.length := by rw [← check_len hc1]; exact at_some_lt ha1
        have hi : instrAt prog p.pc = some prog[p.pc] := by simp [instrAt, hlt]
        generalize prog[p.pc] = i at hi
        obtain ⟨hreq1, _⟩ := check_step hc1 (by simpa [instrAt] using hi) ha1
        have hmut : i.cmd.mutating = true → s.g.lock = some p.pid := by
          intro hm
          have hr : req1 i.cmd a1 = true := hreq1
          simp [req1, hm] at hr
          exact hΓ1.holds hr.1
        by_cases hex : ∃ n, i.cmd = .exit n
        · obtain ⟨n, hnn⟩ := hex
          rw [stepProc_exit hi hnn]
          refine ⟨hgi.release, ?_⟩
          intro q hq hqa
          rcases mem_replaceProc hq with ⟨rfl, _⟩ | ⟨hq1, hq2⟩
          · simp at hqa
          · obtain ⟨b, h1, h2⟩ := hprocs q hq1 hqa
            exact ⟨b, h1, h2.release (by simpa using hq2)⟩
        · have hne : ∀ n, i.cmd ≠ .exit n := fun n h => hex ⟨n, h⟩
          rw [stepProc_nonexit hi hne]
          obtain ⟨a, ha, hΓ⟩ := hprocs p hpm hal
          obtain ⟨hreq, _, _, hedge1, hedge2⟩ := check_step hc (by simpa [instrAt] using hi) ha
          refine ⟨gi4_exec hgi hΓ hreq hvg (hinv2.vp p hpm), ?_⟩
          intro q hq hqa
          rcases mem_replaceProc hq with ⟨rfl, _⟩ | ⟨hq1, hq2⟩
          · obtain ⟨x, hx⟩ := tf4_feasible (c := i.cmd) hΓ
            have hΓ' : Γ4 x (exec i.cmd s.g p).1 (after i s.g p) := own4 hΓ hvg (hinv2.vp p hpm) hgi.hpos hx
            cases hok : (exec i.cmd s.g p).2.2
            · obtain ⟨b, hb1, hb2⟩ := hedge2 x (by rw [hok] at hx; exact hx)
              refine ⟨b, ?_, hΓ'.mono hb2⟩
              simp [after, hok]; exact hb1
            · obtain ⟨b, hb1, hb2⟩ := hedge1 x (by rw [hok] at hx; exact hx)
              refine ⟨b, ?_, hΓ'.mono hb2⟩
              simp [after, hok]; exact hb1
          · obtain ⟨b, h1, h2⟩ := hprocs q hq1 hqa
            rw [after_pid] at hq2
            exact ⟨b, h1, other4 h2 hvg (hinv2.vp q hq1) hq2 hmut⟩
      · simp [hal]; exact ⟨hgi, hprocs⟩

theorem inv124_step {prog : Prog} {ann1 : Ann safety} {ann2 : Ann numbering} {ann : Ann code}
    (hinh : inhOK prog = true) (hc1 : check safety prog ann1 = true) (hc2 : check numbering prog ann2 = true) (hc : check code prog ann = true)
    {s : State} (h : Inv1 ann1 s ∧ Inv2 ann2 s ∧ Inv4 ann s) (e : Event) :
    Inv1 ann1 (step prog s e) ∧ Inv2 ann2 (step prog s e) ∧ Inv4 ann (step prog s e) :=
  step_lift hinh (P := fun s => Inv1 ann1 s ∧ Inv2 ann2 s ∧ Inv4 ann s)
    (fun _ e h => ⟨inv1_stepCore hc1 h.1 e, inv2_stepCore hc1 hc2 h.1 h.2.1 e, inv4_stepCore hc1 hc h.1 h.2.1 h.2.2 e⟩)
    (fun _ _ h => ⟨h.1.dying, h.2.1.dying, h.2.2.dying⟩) s e h

theorem inv124_run {prog : Prog} {ann1 : Ann safety} {ann2 : Ann numbering} {ann : Ann code}
    (hinh : inhOK prog = true) (hc1 : check safety prog ann1 = true) (hc2 : check numbering prog ann2 = true) (hc : check code prog ann = true)
    (se : Bool) (es : List Event) :
    Inv1 ann1 (run prog se es) ∧ Inv2 ann2 (run prog se es) ∧ Inv4 ann (run prog se es) := by
  unfold run
  have h0 : Inv1 ann1 (init se) ∧ Inv2 ann2 (init se) ∧ Inv4 ann (init se) :=
    ⟨inv1_init hc1 se, inv2_init (prog := prog) se, inv4_init se⟩
  generalize init se = s0 at h0
  induction es generalizing s0 with
  | nil => exact h0
  | cons e es ih => exact ih _ (inv124_step hinh hc1 hc2 hc h0 e)

end NA.C19
