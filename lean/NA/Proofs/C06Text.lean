import NA.Model.GateText
import NA.Spec.Gate
/-
C06: facts about the strings the marker checks look at.

* `infixL_iff`     — `strings.Contains` is "occurs as a contiguous block"
* `search_ofWord`  — a `checkbanner` value that is a plain word is searched as a substring
* `search_never`   — a regexp that matches no character matches nothing
* `grepOut_nil_iff` — what `grep '<re>' /etc/issue` prints is empty iff no non-empty line matches
-/
namespace NA.Gate
open NA.Gate.Spec

theorem isPrefixOf_iff (p s : List Char) : p.isPrefixOf s = true ↔ ∃ t, s = p ++ t := by
  rw [List.isPrefixOf_iff_prefix]
  constructor
  · rintro ⟨t, ht⟩; exact ⟨t, ht.symm⟩
  · rintro ⟨t, ht⟩; exact ⟨t, ht.symm⟩

/-- `strings.Contains(s, p)`: `p` occurs in `s` as a contiguous block. -/
theorem infixL_iff (s p : List Char) : infixL s p = true ↔ ∃ x y, s = x ++ p ++ y := by
  induction s with
  | nil =>
    simp only [infixL]
    constructor
    · intro h
      have : p = [] := by simpa using h
      exact ⟨[], [], by simp [this]⟩
    · rintro ⟨x, y, h⟩
      have h' : x ++ p ++ y = [] := h.symm
      simp at h'
      simp [h'.2.1]
  | cons c cs ih =>
    simp only [infixL, Bool.or_eq_true]
    constructor
    · intro h
      cases h with
      | inl h =>
        obtain ⟨t, ht⟩ := (isPrefixOf_iff p (c :: cs)).mp h
        exact ⟨[], t, by simpa using ht⟩
      | inr h =>
        obtain ⟨x, y, hxy⟩ := ih.mp h
        exact ⟨c :: x, y, by simp [hxy]⟩
    · rintro ⟨x, y, h⟩
      cases x with
      | nil =>
        left
        exact (isPrefixOf_iff p (c :: cs)).mpr ⟨y, by simpa using h⟩
      | cons a x' =>
        right
        apply ih.mpr
        simp only [List.cons_append, List.cons.injEq] at h
        exact ⟨x', y, h.2⟩

/-- matching a plain word at the current position = the word is a prefix -/
theorem m_ofWord (w : List Char) : ∀ (st : Bool) (s : List Char),
    Rx.m (Rx.ofWord w) st s (fun _ _ => true) = w.isPrefixOf s := by
  induction w with
  | nil => intro st s; simp [Rx.ofWord, Rx.m]
  | cons c w ih =>
    intro st s
    cases s with
    | nil => simp [Rx.ofWord, Rx.m]
    | cons x s =>
      simp only [Rx.ofWord, Rx.m, List.isPrefixOf]
      rw [ih false s]
      cases hx : x == c <;> cases hc : c == x <;> simp_all

theorem searchFrom_ofWord (w : List Char) : ∀ (st : Bool) (s : List Char),
    Rx.searchFrom (Rx.ofWord w) st s = infixL s w := by
  intro st s
  induction s generalizing st with
  | nil =>
    simp only [Rx.searchFrom, infixL, m_ofWord]
    cases w <;> rfl
  | cons c cs ih => simp [Rx.searchFrom, infixL, m_ofWord, ih]

/-- **A `checkbanner` that is a plain word is looked for as a substring.** -/
theorem search_ofWord (w s : List Char) : Rx.search (Rx.ofWord w) s = infixL s w :=
  searchFrom_ofWord w true s

/-- a regexp that matches no character at all -/
def Rx.never : Rx := .cls false false []

theorem search_never (s : List Char) : Rx.search Rx.never s = false := by
  unfold Rx.search
  generalize true = st
  induction s generalizing st with
  | nil => simp [Rx.searchFrom, Rx.never, Rx.m]
  | cons c cs ih =>
    have := ih false
    simp only [Rx.never] at this
    simp [Rx.searchFrom, Rx.never, Rx.m, Rx.inRanges, this]

/-- `grep` prints nothing iff no non-empty line of the file matches. -/
theorem grepOut_nil_iff (r : Rx) (issue : List Char) :
    grepOut r issue = [] ↔ ∀ l ∈ splitLines issue, l = [] ∨ r.search l = false := by
  unfold grepOut
  simp only [List.flatMap_eq_nil_iff, List.mem_filter, Bool.and_eq_true, Bool.not_eq_true',
    List.append_eq_nil_iff, List.cons_ne_self, and_false, imp_false, not_and, Bool.not_eq_true]
  constructor
  · intro h l hl
    by_cases he : l = []
    · exact Or.inl he
    · right
      have := h l hl
      apply this
      cases l with
      | nil => exact absurd rfl he
      | cons a t => rfl
  · intro h l hl hne
    cases h l hl with
    | inl he => rw [he] at hne; simp at hne
    | inr hs => exact hs

end NA.Gate
