import NA.Proofs.C20
import NA.Model.CursorHttp
/-!
C20, NSX / PAN-OS / info and status files: after the validity checks of `ParseConfig` every
accessor path of the diff code (`x[0]`, field through pointer) is safe.
-/
set_option linter.unusedSimpArgs false
namespace NA.C20.Nsx
open NA.C20 NA.C20.Res

theorem forAll_noPanic {α : Type} (f : α → Res Unit) : ∀ l : List α,
    (∀ a ∈ l, NoPanic (f a)) → NoPanic (forAll f l)
  | [], _ => by unfold forAll; exact noPanic_ok _
  | a :: as, h => by
    unfold forAll
    exact NoPanic.bind (h a (by simp)) fun _ =>
      forAll_noPanic f as (fun b hb => h b (List.mem_cons_of_mem _ hb))

theorem forAll_ok {α : Type} (f : α → Res Unit) : ∀ l : List α,
    forAll f l = .ok () → ∀ a ∈ l, f a = .ok ()
  | [], _, a, ha => by simp at ha
  | x :: xs, h, a, ha => by
    unfold forAll at h
    cases hx : f x with
    | ok u =>
      rw [hx] at h
      simp only [Res.bind] at h
      simp at ha
      rcases ha with rfl | ha
      · exact hx
      · exact forAll_ok f xs h a ha
    | diag m => rw [hx] at h; cases h
    | panic p => rw [hx] at h; cases h

theorem bind_ok {α β : Type} {x : Res α} {f : α → Res β} {b : β} (h : x.bind f = .ok b) :
    ∃ a, x = .ok a ∧ f a = .ok b := by
  cases x with
  | ok a => exact ⟨a, rfl, h⟩
  | diag m => cases h
  | panic p => cases h

/-- no nil pointer inside the lists. -/
structure NonNull (c : Config) : Prop where
  pol : ∀ p ∈ c.policies, ∃ q, p = some q ∧ ∀ r ∈ q.rules, r ≠ none
  grp : ∀ g ∈ c.groups, ∃ h, g = some h ∧ ∀ e ∈ h.expression, e ≠ none
  srv : ∀ s ∈ c.services, s ≠ none

theorem checkNoNull_noPanic (c : Config) : NoPanic (checkNoNull c) := by
  unfold checkNoNull
  refine NoPanic.bind (forAll_noPanic _ _ fun p _ => ?_) fun _ =>
    NoPanic.bind (forAll_noPanic _ _ fun g _ => ?_) fun _ => forAll_noPanic _ _ fun s _ => ?_
  · split
    · exact noPanic_diag _
    · exact forAll_noPanic _ _ fun r _ => by split <;> first | exact noPanic_diag _ | exact noPanic_ok _
  · split
    · exact noPanic_diag _
    · exact forAll_noPanic _ _ fun r _ => by split <;> first | exact noPanic_diag _ | exact noPanic_ok _
  · split
    · exact noPanic_diag _
    · exact noPanic_ok _

theorem checkNoNull_ok (c : Config) (h : checkNoNull c = .ok ()) : NonNull c := by
  unfold checkNoNull at h
  obtain ⟨_, h1, h⟩ := bind_ok h
  obtain ⟨_, h2, h3⟩ := bind_ok h
  refine ⟨?_, ?_, ?_⟩
  · intro p hp
    have := forAll_ok _ _ h1 p hp
    cases p with
    | none => simp at this
    | some q =>
      refine ⟨q, rfl, ?_⟩
      intro r hr
      have hr' := forAll_ok _ _ this r hr
      cases r with
      | none => simp at hr'
      | some _ => simp
  · intro g hg
    have := forAll_ok _ _ h2 g hg
    cases g with
    | none => simp at this
    | some q =>
      refine ⟨q, rfl, ?_⟩
      intro r hr
      have hr' := forAll_ok _ _ this r hr
      cases r with
      | none => simp at hr'
      | some _ => simp
  · intro s hs
    have := forAll_ok _ _ h3 s hs
    cases s with
    | none => simp at this
    | some _ => simp

theorem checkRaw_noPanic (c : Config) (hn : NonNull c) : NoPanic (checkRaw c) := by
  unfold checkRaw
  refine NoPanic.bind (forAll_noPanic _ _ fun p hp => ?_) fun _ =>
    NoPanic.bind (forAll_noPanic _ _ fun p hp => ?_) fun _ =>
    NoPanic.bind (forAll_noPanic _ _ fun g hg => ?_) fun _ => forAll_noPanic _ _ fun s hs => ?_
  · obtain ⟨q, rfl, hr⟩ := hn.pol p hp
    simp only [deref, Res.bind]
    refine forAll_noPanic _ _ fun r hrm => ?_
    cases r with
    | none => exact absurd rfl (hr none hrm)
    | some r => simp only [deref, Res.bind]; split <;> first | exact noPanic_diag _ | exact noPanic_ok _
  · obtain ⟨q, rfl, _⟩ := hn.pol p hp
    simp only [deref, Res.bind]; split <;> first | exact noPanic_diag _ | exact noPanic_ok _
  · obtain ⟨q, rfl, _⟩ := hn.grp g hg
    simp only [deref, Res.bind]
    split
    · exact noPanic_diag _
    · split <;> first | exact noPanic_diag _ | exact noPanic_ok _
  · cases s with
    | none => exact absurd rfl (hn.srv none hs)
    | some s => simp only [deref, Res.bind]; split <;> first | exact noPanic_diag _ | exact noPanic_ok _

theorem checkConfigValidity_noPanic (c : Config) (hn : NonNull c) : NoPanic (checkConfigValidity c) := by
  unfold checkConfigValidity
  refine NoPanic.bind (forAll_noPanic _ _ fun p hp => ?_) fun _ => forAll_noPanic _ _ fun g hg => ?_
  · obtain ⟨q, rfl, hr⟩ := hn.pol p hp
    simp only [deref, Res.bind]
    refine forAll_noPanic _ _ fun r hrm => ?_
    cases r with
    | none => exact absurd rfl (hr none hrm)
    | some r => simp only [deref, Res.bind]; split <;> first | exact noPanic_diag _ | exact noPanic_ok _
  · obtain ⟨q, rfl, _⟩ := hn.grp g hg
    simp only [deref, Res.bind]; split <;> first | exact noPanic_diag _ | exact noPanic_ok _

/-- `ParseConfig` of package nsx after the fix: the checks themselves never panic, whatever
`json.Unmarshal` produced (nil pointers, empty lists). -/
theorem validate_noPanic (isRaw : Bool) (c : Config) : NoPanic (validate true isRaw c) := by
  unfold validate
  simp only [if_true]
  refine NoPanic.bind' (checkNoNull_noPanic c) fun u hu => ?_
  cases u
  have hn := checkNoNull_ok c hu
  refine NoPanic.bind ?_ fun _ => checkConfigValidity_noPanic c hn
  split
  · exact checkRaw_noPanic c hn
  · exact noPanic_ok _

/-- What a configuration accepted by `ParseConfig` guarantees. -/
structure Valid (c : Config) : Prop where
  nn : NonNull c
  rules : ∀ p ∈ c.policies, ∀ q, p = some q → ∀ r ∈ q.rules, ∀ x, r = some x →
    x.src.length = 1 ∧ x.dst.length = 1 ∧ x.srv.length = 1
  groups : ∀ g ∈ c.groups, ∀ h, g = some h → h.expression.length = 1

theorem validate_ok (isRaw : Bool) (c : Config) (h : validate true isRaw c = .ok ()) : Valid c := by
  unfold validate at h
  simp only [if_true] at h
  obtain ⟨_, h1, h⟩ := bind_ok h
  obtain ⟨_, _, h3⟩ := bind_ok h
  have hn := checkNoNull_ok c h1
  unfold checkConfigValidity at h3
  obtain ⟨_, h4, h5⟩ := bind_ok h3
  refine ⟨hn, ?_, ?_⟩
  · intro p hp q hq r hr x hx
    subst hq hx
    have := forAll_ok _ _ h4 _ hp
    simp only [deref, Res.bind] at this
    have := forAll_ok _ _ this _ hr
    simp only [deref, Res.bind] at this
    split at this
    · cases this
    · rename_i hne
      simp at hne
      omega
  · intro g hg q hq
    subst hq
    have := forAll_ok _ _ h5 _ hg
    simp only [deref, Res.bind] at this
    split at this
    · cases this
    · rename_i hne
      simp at hne
      exact hne

theorem groupAddrs_noPanic (c : Config) (hv : Valid c) (g : Option Group) (hg : g ∈ c.groups) :
    NoPanic (groupAddrs g) := by
  obtain ⟨q, rfl, he⟩ := hv.nn.grp g hg
  have hl := hv.groups _ hg q rfl
  unfold groupAddrs
  simp only [deref, Res.bind]
  match hq : q.expression, hl, he with
  | [], hl, _ => simp at hl
  | e :: es, _, he =>
    cases e with
    | none => exact absurd rfl (he none (by simp))
    | some e => exact noPanic_ok _

/-- `sortGroups` on a validated configuration. -/
theorem sortGroups_noPanic (c : Config) (hv : Valid c) : NoPanic (sortGroups c) := by
  unfold sortGroups
  exact forAll_noPanic _ _ fun g hg => NoPanic.bind (groupAddrs_noPanic c hv g hg) fun _ => noPanic_ok _

/-- `sortRules` after the fix: a group of a validated configuration may have no address. -/
theorem firstAddr_noPanic (c : Config) (hv : Valid c) (g : Option Group) (hg : g ∈ c.groups) :
    NoPanic (firstAddr true g) := by
  unfold firstAddr
  refine NoPanic.bind (groupAddrs_noPanic c hv g hg) fun l => ?_
  split
  · exact noPanic_ok _
  · exact noPanic_ok _

theorem mem_allRules {c : Config} {r : Option Rule} (h : r ∈ allRules c) :
    ∃ q, some q ∈ c.policies ∧ r ∈ q.rules := by
  unfold allRules at h
  simp only [List.mem_flatMap] at h
  obtain ⟨p, hp, hr⟩ := h
  cases p with
  | none => simp at hr
  | some q => exact ⟨q, hp, hr⟩

/-- `Services[0]`, `SourceGroups[0]`, `DestinationGroups[0]` of every rule of a validated
configuration. -/
theorem ruleKeys_noPanic (c : Config) (hv : Valid c) (r : Option Rule) (hr : r ∈ allRules c) :
    NoPanic (ruleKeys r) := by
  obtain ⟨q, hq, hrq⟩ := mem_allRules hr
  obtain ⟨q', hq', hnn⟩ := hv.nn.pol _ hq
  cases hq'
  cases r with
  | none => exact absurd rfl (hnn none hrq)
  | some x =>
    obtain ⟨h1, h2, h3⟩ := hv.rules _ hq q rfl _ hrq x rfl
    unfold ruleKeys
    simp only [deref, Res.bind]
    match hs : x.srv, hsr : x.src, hd : x.dst, h1, h2, h3 with
    | s :: _, a :: _, b :: _, _, _, _ => exact noPanic_ok _
    | [], _, _, _, _, h3 => simp at h3
    | _ :: _, [], _, h1, _, _ => simp at h1
    | _ :: _, _ :: _, [], _, h2, _ => simp at h2

theorem equalizeHead_noPanic (ruleId path : Str) (ga gb : Option Group) :
    NoPanic (equalizeHead true ruleId path ga gb) := by
  unfold equalizeHead
  split
  · exact noPanic_ok _
  · split
    · exact noPanic_ok _
    · exact noPanic_failAt_fixed _ _

end NA.C20.Nsx

namespace NA.C20.PanOs
open NA.C20 NA.C20.Res

theorem checkRaw_noPanic (c : Config) : NoPanic (checkRaw true c) := by
  unfold checkRaw
  split
  · exact noPanic_ok _
  · exact noPanic_ok _

theorem addVsys_noPanic (p1 : Config) (v : Vsys) : NoPanic (addVsys true p1 v) := by
  unfold addVsys
  split
  · exact noPanic_ok _
  · exact noPanic_ok _
  · exact noPanic_ok _

theorem mergeNew_noPanic : ∀ (vs : List Vsys) (p1 : Config), NoPanic (mergeNew true p1 vs)
  | [], p1 => by unfold mergeNew; exact noPanic_ok _
  | v :: vs, p1 => by
    unfold mergeNew
    exact NoPanic.bind (addVsys_noPanic p1 v) fun p1' => mergeNew_noPanic vs p1'

/-- `MergeSpoc` after the fix: no Go panic for ANY two decoded configurations. -/
theorem mergeSpoc_noPanic (p1 p2 : Config) : NoPanic (mergeSpoc true p1 p2) := by
  unfold mergeSpoc
  split
  · exact noPanic_diag _
  · exact mergeNew_noPanic _ _

/-- `GetChanges`: `p1.Devices.Entries[0].Name` is only read for a vsys that was found in the first
device, so the first device exists. -/
theorem devNameFor_noPanic (p1 : Config) (vname : Str) : NoPanic (devNameFor p1 vname) := by
  unfold devNameFor
  split
  · rename_i h
    unfold firstDevice at h
    split
    · exact noPanic_ok _
    · rename_i hd; rw [hd] at h; simp at h
    · rename_i hd; rw [hd] at h; simp at h
  · exact noPanic_ok _

theorem getDevName_noPanic (h : Option (List Str)) : NoPanic (getDevName true h) := by
  unfold getDevName
  split <;> exact noPanic_ok _

/-- `rk` witnesses that the group graph has no cycle: members have a smaller rank than the group
(what `checkGroupCycle` establishes before `diffConfig` goes on). -/
def Ranked (groups : Str → Option (List Str)) (rk : Str → Nat) : Prop :=
  ∀ n ms, groups n = some ms → ∀ m ∈ ms, rk m < rk n

/-- `getObjListType` on an acyclic group graph: a stack of depth `rank + 2` suffices. -/
theorem objListType_noPanic (groups : Str → Option (List Str)) (isAddr : Str → Bool) (rk : Str → Nat)
    (hrk : Ranked groups rk) : ∀ (fuel : Nat) (l : List Str), (∀ e ∈ l, rk e + 1 < fuel) → 0 < fuel →
    NoPanic (objListType groups isAddr fuel l)
  | 0, _, _, h0 => by simp at h0
  | fuel + 1, l, hl, _ => by
    unfold objListType
    simp only
    split
    · rename_i e
      split
      · exact noPanic_ok _
      · split
        · rename_i ms hg
          have he : rk e + 1 < fuel + 1 := hl e (by simp)
          refine NoPanic.bind (objListType_noPanic groups isAddr rk hrk fuel ms ?_ (by omega)) fun t => noPanic_ok _
          intro m hm
          have := hrk e ms hg m hm
          omega
        · exact noPanic_ok _
    · exact noPanic_ok _

/-- `markAddresses` on an acyclic group graph: a stack of depth `rank + 2` suffices. -/
theorem markAddresses_noPanic (groups : Str → Option (List Str)) (rk : Str → Nat) (hrk : Ranked groups rk) :
    ∀ (fuel : Nat) (l : List Str), (∀ e ∈ l, rk e + 1 < fuel) → 0 < fuel → NoPanic (markAddresses groups fuel l)
  | 0, _, _, h0 => by simp at h0
  | fuel + 1, [], _, _ => by unfold markAddresses; exact noPanic_ok _
  | fuel + 1, e :: rest, hl, h0 => by
    unfold markAddresses
    refine NoPanic.bind ?_ fun _ =>
      markAddresses_noPanic groups rk hrk (fuel + 1) rest (fun x hx => hl x (List.mem_cons_of_mem _ hx)) h0
    split
    · rename_i ms hg
      have he : rk e + 1 < fuel + 1 := hl e (by simp)
      refine markAddresses_noPanic groups rk hrk fuel ms ?_ (by omega)
      intro m hm
      have := hrk e ms hg m hm
      omega
    · exact noPanic_ok _
termination_by fuel l => (fuel, l.length)

/-- A group that is its own (only) member: whatever the stack size, `getObjListType` overflows. -/
theorem objListType_cycle (isAddr : Str → Bool) : ∀ fuel : Nat,
    objListType (fun n => if n = lit "g0" then some [lit "g0"] else none) isAddr fuel [lit "g0"] =
      .panic (.explicit "fatal error: stack overflow")
  | 0 => by simp [objListType]
  | fuel + 1 => by
    have ih := objListType_cycle isAddr fuel
    unfold objListType
    simp only
    have h1 : ¬ (lit "g0" = lit "any") := by decide
    simp only [h1, if_false, if_true]
    rw [ih]
    rfl

/-- the same for the 2-cycle g0 = [g1], g1 = [g0]. -/
theorem objListType_cycle2 (isAddr : Str → Bool) : ∀ fuel : Nat,
    objListType (fun n => if n = lit "g0" then some [lit "g1"] else if n = lit "g1" then some [lit "g0"] else none)
        isAddr fuel [lit "g0"] = .panic (.explicit "fatal error: stack overflow") ∧
    objListType (fun n => if n = lit "g0" then some [lit "g1"] else if n = lit "g1" then some [lit "g0"] else none)
        isAddr fuel [lit "g1"] = .panic (.explicit "fatal error: stack overflow")
  | 0 => by simp [objListType]
  | fuel + 1 => by
    obtain ⟨ih0, ih1⟩ := objListType_cycle2 isAddr fuel
    have h1 : ¬ (lit "g0" = lit "any") := by decide
    have h2 : ¬ (lit "g1" = lit "any") := by decide
    have h3 : ¬ (lit "g1" = lit "g0") := by decide
    constructor
    · unfold objListType
      simp only [h1, if_false, if_true]
      rw [ih1]; rfl
    · unfold objListType
      simp only [h2, h3, if_false, if_true]
      rw [ih0]; rfl

end NA.C20.PanOs


namespace NA.C20.Files
open NA.C20 NA.C20.Res

/-- `LoadInfoFile` after the fix: the only panics left are the two explicit `panic(err)`
(unreadable / undecodable file) that the suite pins. -/
theorem loadInfoFile_explicitOnly : ∀ (l : List OpenRes) (p : Panic),
    loadInfoFile true l = .panic p → ∃ s, p = .explicit s
  | [], p, h => by simp [loadInfoFile] at h
  | .notExist :: rest, p, h => by
    simp only [loadInfoFile] at h; exact loadInfoFile_explicitOnly rest p h
  | .otherErr :: _, p, h => by
    simp only [loadInfoFile] at h; cases h; exact ⟨_, rfl⟩
  | .content dec isNull hasIP :: rest, p, h => by
    simp only [loadInfoFile] at h
    split at h
    · cases h; exact ⟨_, rfl⟩
    · split at h
      · rename_i hn; simp at hn
      · split at h
        · cases h
        · exact loadInfoFile_explicitOnly rest p h

/-- … and none at all when every existing info file is readable JSON. -/
theorem loadInfoFile_noPanic : ∀ (l : List OpenRes),
    (∀ o ∈ l, o ≠ .otherErr ∧ ∀ d n i, o = .content d n i → d = true) → NoPanic (loadInfoFile true l)
  | [], _ => by simp [loadInfoFile]; exact noPanic_ok _
  | .notExist :: rest, h => by
    simp only [loadInfoFile]; exact loadInfoFile_noPanic rest (fun o ho => h o (List.mem_cons_of_mem _ ho))
  | .otherErr :: _, h => by
    exact absurd rfl (h .otherErr (by simp)).1
  | .content dec isNull hasIP :: rest, h => by
    have hd : dec = true := (h _ (by simp)).2 dec isNull hasIP rfl
    subst hd
    simp only [loadInfoFile]
    split
    · rename_i hn; simp at hn
    · split
      · rename_i hn; simp at hn
      · split
        · exact noPanic_ok _
        · exact loadInfoFile_noPanic rest (fun o ho => h o (List.mem_cons_of_mem _ ho))


end NA.C20.Files
