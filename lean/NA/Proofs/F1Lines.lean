import NA.Proofs.F1Groups
import NA.Props.AsaAcl
/-!
# F1: `diffASAACLs` with object-groups reduces to the line planner on a merged list

A kept pair whose object-group reference changed is represented as a new-only cell (the target
line, re-added under the new group name) followed by an old-only cell (the device line, deleted);
`NA.Acl.asa_plan_converges` holds for ALL merged lists, hence also for these.
-/
namespace NA.F1
open NA.Acl (Range)

def cellA : MCell → Option Nat | .ins _ => none | .del a => some a | .keep a _ => some a
def cellB : MCell → Option Nat | .ins b => some b | .del _ => none | .keep _ b => some b

theorem nodup_map_of_inj_on {α β : Type} (g : α → β) : ∀ (l : List α), l.Nodup →
    (∀ x ∈ l, ∀ y ∈ l, g x = g y → x = y) → (l.map g).Nodup := by
  intro l
  induction l with
  | nil => intro _ _; simp
  | cons a l ih =>
    intro hn hinj
    obtain ⟨ha, hl⟩ := List.nodup_cons.mp hn
    rw [List.map_cons, List.nodup_cons]
    refine ⟨?_, ih hl (fun x hx y hy => hinj x (List.mem_cons_of_mem _ hx) y (List.mem_cons_of_mem _ hy))⟩
    intro hm
    obtain ⟨y, hy, e⟩ := List.mem_map.mp hm
    have := hinj y (List.mem_cons_of_mem _ hy) a List.mem_cons_self e
    exact ha (this ▸ hy)

theorem idxOf_lt_of_mem {s : String} : ∀ {l : List String}, s ∈ l → l.idxOf s < l.length := by
  intro l
  induction l with
  | nil => intro h; simp at h
  | cons x xs ih =>
    intro h
    rw [List.idxOf_cons]
    by_cases hx : x = s
    · simp [hx]
    · have : s ∈ xs := by
        rcases List.mem_cons.mp h with h | h
        · exact absurd h.symm hx
        · exact h
      have := ih this
      have hb : (x == s) = false := by simpa using hx
      simp [hb]; omega

theorem idxOf_inj_on {l : List String} {s t : String} (hs : s ∈ l) (_ht : t ∈ l)
    (h : l.idxOf s = l.idxOf t) : s = t := by
  have h1 := List.getElem_idxOf (idxOf_lt_of_mem hs)
  have h2 := List.getElem_idxOf (idxOf_lt_of_mem _ht)
  have : l[l.idxOf s]'(idxOf_lt_of_mem hs) = l[l.idxOf t]'(idxOf_lt_of_mem _ht) := by
    congr 1
  rw [h1, h2] at this
  exact this

/-- One cell of the merged list for `planASA`. -/
def encCell (cells : List MCell) (mkeys : List String) (i : Nat) : NA.Acl.Cell :=
  ⟨{ key := i, mkey := mkeys.idxOf (mkeys.getD i ""), permit := true },
    cellOld (cells.getD i default), cellNew (cells.getD i default)⟩

theorem encodeCells_eq_map (cells : List MCell) (mkeys : List String) :
    encodeCells cells mkeys = (List.range cells.length).map (encCell cells mkeys) := by
  unfold encodeCells
  apply List.map_congr_left
  intro i _
  unfold encCell
  cases cells.getD i default <;> rfl

theorem encodeCells_length (cells : List MCell) (mkeys : List String) :
    (encodeCells cells mkeys).length = cells.length := by
  rw [encodeCells_eq_map]; simp

theorem encodeCells_getD (cells : List MCell) (mkeys : List String) (i : Nat) (hi : i < cells.length) :
    (encodeCells cells mkeys).getD i default = encCell cells mkeys i := by
  rw [encodeCells_eq_map, List.getD_eq_getElem?_getD, List.getElem?_map, List.getElem?_range hi]
  rfl

/-- Pairwise different printed texts (without log) among the cells selected by `sel`. -/
def DistinctOn (cells : List MCell) (mkeys : List String) (sel : MCell → Bool) : Prop :=
  ∀ i j, i < cells.length → j < cells.length → sel (cells.getD i default) = true →
    sel (cells.getD j default) = true → mkeys.getD i "" = mkeys.getD j "" → i = j

theorem mkeys_nodup_side (cells : List MCell) (mkeys : List String) (hlen : mkeys.length = cells.length)
    (sel : MCell → Bool) (h : DistinctOn cells mkeys sel) :
    (((List.range cells.length).filter (fun i => sel (cells.getD i default))).map
      (fun i => mkeys.idxOf (mkeys.getD i ""))).Nodup := by
  apply nodup_map_of_inj_on
  · exact List.Nodup.sublist List.filter_sublist List.nodup_range
  · intro x hx y hy hxy
    simp only [List.mem_filter, List.mem_range] at hx hy
    have mx : mkeys.getD x "" ∈ mkeys := by
      rw [List.getD_eq_getElem?_getD, List.getElem?_eq_getElem (by omega)]; simp
    have my : mkeys.getD y "" ∈ mkeys := by
      rw [List.getD_eq_getElem?_getD, List.getElem?_eq_getElem (by omega)]; simp
    exact h x y hx.1 hy.1 hx.2 hy.2 (idxOf_inj_on mx my hxy)

theorem olds_mkeys (cells : List MCell) (mkeys : List String) :
    (NA.Acl.olds (encodeCells cells mkeys)).map (·.mkey) =
      ((List.range cells.length).filter (fun i => cellOld (cells.getD i default))).map
        (fun i => mkeys.idxOf (mkeys.getD i "")) := by
  rw [encodeCells_eq_map]
  unfold NA.Acl.olds
  rw [List.filter_map, List.map_map, List.map_map]
  rfl

theorem news_mkeys (cells : List MCell) (mkeys : List String) :
    (NA.Acl.news (encodeCells cells mkeys)).map (·.mkey) =
      ((List.range cells.length).filter (fun i => cellNew (cells.getD i default))).map
        (fun i => mkeys.idxOf (mkeys.getD i "")) := by
  rw [encodeCells_eq_map]
  unfold NA.Acl.news
  rw [List.filter_map, List.map_map, List.map_map]
  rfl

/-- `asa_lines_with_groups_converge`: for every merged list with group-changed pairs split into
(new-only, old-only), whose printed texts (without log) are pairwise different among the device's
lines and among the target's lines, the strict line device accepts the planned operations and
ends with exactly the target's lines. -/
theorem lines_with_groups_converge (cells : List MCell) (mkeys : List String)
    (hlen : mkeys.length = cells.length)
    (hold : DistinctOn cells mkeys cellOld) (hnew : DistinctOn cells mkeys cellNew) :
    NA.Acl.asaExec (NA.Acl.olds (encodeCells cells mkeys)) (NA.Acl.planASA (encodeCells cells mkeys))
      = some (NA.Acl.news (encodeCells cells mkeys)) := by
  apply NA.Acl.asa_plan_converges
  · rw [olds_mkeys]; exact mkeys_nodup_side cells mkeys hlen cellOld hold
  · rw [news_mkeys]; exact mkeys_nodup_side cells mkeys hlen cellNew hnew

/-! ## The merged list built by `diffASAACLs` projects to the two line lists -/

theorem equalizeRange_proj (e : Env) (al bl : List Line) (lowA lowB : Nat) : ∀ (n : Nat) (st : St) (acc : List MCell),
    (equalizeRange e al bl lowA lowB n st acc).2.filterMap cellA = acc.filterMap cellA ++ List.range' lowA n ∧
    (equalizeRange e al bl lowA lowB n st acc).2.filterMap cellB = acc.filterMap cellB ++ List.range' lowB n := by
  intro n
  induction n with
  | zero => intro st acc; simp [equalizeRange]
  | succ n ih =>
    intro st acc
    obtain ⟨iha, ihb⟩ := ih st acc
    unfold equalizeRange
    generalize equalizeRange e al bl lowA lowB n st acc = r at iha ihb
    obtain ⟨st1, acc1⟩ := r
    simp only at iha ihb ⊢
    generalize equalizePair e st1 (al.getD (lowA + n) default) (bl.getD (lowB + n) default) = q
    obtain ⟨st2, ok⟩ := q
    cases ok <;>
      simp [List.filterMap_append, List.filterMap_cons, iha, ihb, cellA, cellB, List.range'_concat, List.append_assoc]

theorem ins_cells_proj (lowB k : Nat) :
    ((List.range k).map fun i => MCell.ins (lowB + i)).filterMap cellA = [] ∧
    ((List.range k).map fun i => MCell.ins (lowB + i)).filterMap cellB = List.range' lowB k := by
  constructor
  · rw [List.filterMap_eq_nil_iff]; intro a ha
    obtain ⟨i, _, rfl⟩ := List.mem_map.mp ha; rfl
  · rw [List.filterMap_map, List.range'_eq_map_range]
    exact congrFun List.filterMap_eq_map _

theorem del_cells_proj (lowA k : Nat) :
    ((List.range k).map fun i => MCell.del (lowA + i)).filterMap cellA = List.range' lowA k ∧
    ((List.range k).map fun i => MCell.del (lowA + i)).filterMap cellB = [] := by
  constructor
  · rw [List.filterMap_map, List.range'_eq_map_range]
    exact congrFun List.filterMap_eq_map _
  · rw [List.filterMap_eq_nil_iff]; intro a ha
    obtain ⟨i, _, rfl⟩ := List.mem_map.mp ha; rfl

/-- For every script accepted by `scriptOK` on the compared keys: the a-indices of the cells are
`ia, ia+1, …` and the b-indices `ib, ib+1, …`, whatever the group equalisation decides per pair.
"A kept pair with a changed reference behaves like a new-only cell followed by an old-only cell." -/
theorem cellsPhase_proj (e : Env) (al bl : List Line) : ∀ (rs : List Range) (ia ib : Nat) (st : St) (acc : List MCell),
    scriptOK (al.map (·.body)) (bl.map (·.body)) rs ia ib = true →
    (cellsPhase e al bl rs st acc).2.filterMap cellA = acc.filterMap cellA ++ List.range' ia (al.length - ia) ∧
    (cellsPhase e al bl rs st acc).2.filterMap cellB = acc.filterMap cellB ++ List.range' ib (bl.length - ib) := by
  intro rs
  induction rs with
  | nil =>
    intro ia ib st acc h
    simp only [scriptOK, Bool.and_eq_true, beq_iff_eq, List.length_map] at h
    simp [cellsPhase, h.1, h.2]
  | cons r rs ih =>
    intro ia ib st acc h
    simp only [scriptOK, Bool.and_eq_true, beq_iff_eq, decide_eq_true_eq, Bool.or_eq_true, List.length_map] at h
    obtain ⟨⟨⟨⟨⟨⟨⟨hla, hlb⟩, h1⟩, h2⟩, h3⟩, h4⟩, hk⟩, hrest⟩ := h
    unfold cellsPhase
    by_cases hi : r.isInsert = true
    · have ha0 : r.highA = ia := by simp only [Range.isInsert, beq_iff_eq] at hi; omega
      simp only [hi, if_true]
      obtain ⟨ra, rb⟩ := ih r.highA r.highB st _ hrest
      obtain ⟨pa, pb⟩ := ins_cells_proj r.lowB (r.highB - r.lowB)
      rw [ra, rb, List.filterMap_append, List.filterMap_append, pa, pb, ha0, hlb, List.append_nil,
        List.append_assoc]
      refine ⟨rfl, ?_⟩
      congr 1
      have : bl.length - ib = (r.highB - ib) + (bl.length - r.highB) := by omega
      rw [this, ← List.range'_append]
      congr 2; omega
    · have hi' : r.isInsert = false := by simpa using hi
      by_cases hd : r.isDelete = true
      · have hb0 : r.highB = ib := by simp only [Range.isDelete, beq_iff_eq] at hd; omega
        simp only [hi', hd, if_true, Bool.false_eq_true, if_false]
        obtain ⟨ra, rb⟩ := ih r.highA r.highB st _ hrest
        obtain ⟨pa, pb⟩ := del_cells_proj r.lowA (r.highA - r.lowA)
        rw [ra, rb, List.filterMap_append, List.filterMap_append, pa, pb, hb0, hla, List.append_nil,
          List.append_assoc]
        refine ⟨?_, rfl⟩
        congr 1
        have : al.length - ia = (r.highA - ia) + (al.length - r.highA) := by omega
        rw [this, ← List.range'_append]
        congr 2; omega
      · have hd' : r.isDelete = false := by simpa using hd
        have heq : r.isEqual = true := by
          rcases hk with (hk | hk) | hk
          · exact absurd hk hd
          · exact absurd hk hi
          · exact hk.1
        simp only [hi', hd', heq, if_true, Bool.false_eq_true, if_false]
        obtain ⟨qa, qb⟩ := equalizeRange_proj e al bl r.lowA r.lowB (r.highA - r.lowA) st acc
        generalize equalizeRange e al bl r.lowA r.lowB (r.highA - r.lowA) st acc = q at qa qb
        obtain ⟨st1, acc1⟩ := q
        simp only at qa qb ⊢
        obtain ⟨ra, rb⟩ := ih r.highA r.highB st1 acc1 hrest
        rw [ra, rb, qa, qb, hla, hlb, List.append_assoc, List.append_assoc]
        have hlen : r.highB - ib = r.highA - ia := by
          simp only [Range.isEqual, beq_iff_eq] at heq; omega
        constructor
        · congr 1
          have : al.length - ia = (r.highA - ia) + (al.length - r.highA) := by omega
          rw [this, ← List.range'_append]
          congr 2; omega
        · congr 1
          have : bl.length - ib = (r.highA - ia) + (bl.length - r.highB) := by omega
          rw [this, ← List.range'_append]
          congr 2; omega

end NA.F1
