import NA.Proofs.F2Mode
/-!
# F2: executing the printed script on the strict device = mode-free semantics of the events

`exec_render`: if the engine's `subCmdOf` (`m`) and the device agree (`ModeInv`), executing
`render m evs` command by command on the strict device gives exactly `evsRun` (the events applied
without any mode), for every list of well-formed events.  This is the semantic half of
`ios_confmode_tracks`: no command is refused because of the configuration mode.
-/
namespace NA.F2
open NA.IosDev2

def ModeInv (m : Option Mode) (d : Dev) : Prop :=
  (∀ p, m = some p → d.mode = some p) ∧
  (∀ n, d.mode = some (.acl n) → hasAcl d n = true) ∧
  (∀ i, d.mode = some (.intf i) → hasIntf d i = true)

theorem exec_nil (d : Dev) : exec d [] = some d := rfl

theorem exec_cons (d : Dev) (c : Chg) (cs : List Chg) :
    exec d (c :: cs) = (toOpt (exec1 d c)).bind fun d' => exec d' cs := by
  simp only [exec, List.foldlM_cons]
  cases exec1 d c <;> rfl

theorem exec_append (d : Dev) (a b : List Chg) :
    exec d (a ++ b) = (exec d a).bind fun d' => exec d' b := by
  simp [exec, List.foldlM_append]

/-! ### the device's fields that matter do not depend on its mode -/

@[simp] theorem hasAcl_strip (d : Dev) (n : Name) : hasAcl (strip d) n = hasAcl d n := rfl
@[simp] theorem hasIntf_strip (d : Dev) (n : String) : hasIntf (strip d) n = hasIntf d n := rfl
@[simp] theorem entriesOf_strip (d : Dev) (n : Name) : entriesOf (strip d) n = entriesOf d n := rfl
@[simp] theorem slotOf_strip (d : Dev) (i dir : String) : slotOf (strip d) i dir = slotOf d i dir := rfl
@[simp] theorem aclBound_strip (d : Dev) (n : Name) : aclBound (strip d) n = aclBound d n := rfl
@[simp] theorem strip_strip (d : Dev) : strip (strip d) = strip d := rfl
@[simp] theorem strip_setAcl (d : Dev) (n : Name) (es : Entries) : strip (setAcl d n es) = setAcl (strip d) n es := rfl
@[simp] theorem strip_setSlot (d : Dev) (i dir : String) (v : Option Name) :
    strip (setSlot d i dir v) = setSlot (strip d) i dir v := rfl
@[simp] theorem strip_ensureAcl (d : Dev) (n : Name) : strip (ensureAcl d n) = ensureAcl (strip d) n := by
  unfold ensureAcl; simp only [hasAcl_strip]; by_cases h : hasAcl d n = true <;> simp [h] <;> rfl
@[simp] theorem strip_mode (d : Dev) : (strip d).mode = none := rfl

theorem execTop_strip (d : Dev) (c : Chg) :
    (toOpt (execTop (strip d) c)).map strip = (toOpt (execTop d c)).map strip := by
  cases c <;> simp only [execTop, hasAcl_strip, hasIntf_strip, entriesOf_strip, aclBound_strip] <;>
    (try rfl) <;> (repeat' split) <;> (try rfl) <;> simp_all

theorem evRun_strip (d : Dev) (e : Ev) : evRun (strip d) e = evRun d e := by
  cases e with
  | top c => simp only [evRun]; exact execTop_strip d c
  | exitTop c => simp only [evRun]; exact execTop_strip d c
  | openAcl n => simp [evRun]
  | reset => simp [evRun]
  | sub p c =>
    cases p with
    | acl n =>
      simp only [evRun, ← strip_ensureAcl, entriesOf_strip, ← strip_setAcl, strip_strip]
    | intf i =>
      simp only [evRun, hasIntf_strip, hasAcl_strip, slotOf_strip, ← strip_setSlot, strip_strip]
      rfl

theorem evsRun_cons (d : Dev) (e : Ev) (es : List Ev) :
    evsRun d (e :: es) = (evRun d e).bind fun d' => evsRun d' es := by
  simp [evsRun, List.foldlM_cons]

theorem evsRun_strip_map (d : Dev) (evs : List Ev) :
    (evsRun (strip d) evs).map strip = (evsRun d evs).map strip := by
  cases evs with
  | nil => simp [evsRun]
  | cons e es => simp [evsRun_cons, evRun_strip]


/-! ### single commands -/

theorem exec1_top {c : Chg} (h : isTopCmd c = true) (d : Dev) : toOpt (exec1 d c) = toOpt (execTop d c) := by
  cases c <;> simp_all [isTopCmd, exec1, isEntryCmd, isBindCmd, execTop, toOpt]

theorem exec1_aclMode (d : Dev) (n : Name) : exec1 d (.aclMode n) = execTop d (.aclMode n) := by
  simp [exec1, isEntryCmd, isBindCmd]

theorem exec1_intfMode (d : Dev) (n : String) : exec1 d (.intfMode n) = execTop d (.intfMode n) := by
  simp [exec1, isEntryCmd, isBindCmd]

theorem exec1_exit (d : Dev) (h : d.mode.isSome = true) : exec1 d .exit = .ok (strip d) := by
  cases hm : d.mode with
  | none => rw [hm] at h; cases h
  | some p => simp [exec1, hm, strip]

theorem exec1_entry {c : Chg} (h : isEntryCmd c = true) (d : Dev) (n : Name) (hm : d.mode = some (.acl n)) :
    toOpt (exec1 d c) = (toOpt (execEntry (entriesOf d n) c)).map (setAcl d n) := by
  cases c <;> simp_all [isEntryCmd, exec1] <;> (cases execEntry (entriesOf d n) _ <;> rfl)

theorem exec1_bindCmd (d : Dev) (i : String) (a dir : String) (hm : d.mode = some (.intf i)) :
    toOpt (exec1 d (.bind a dir)) = if hasAcl d a then some (setSlot d i dir (some a)) else none := by
  simp only [exec1, isEntryCmd, isBindCmd, hm]
  by_cases h : hasAcl d a = true <;> simp [h, toOpt]

theorem exec1_noBindCmd (d : Dev) (i : String) (a dir : String) (hm : d.mode = some (.intf i)) :
    toOpt (exec1 d (.noBind a dir)) = if slotOf d i dir == some a then some (setSlot d i dir none) else none := by
  simp only [exec1, isEntryCmd, isBindCmd, hm]
  by_cases h : slotOf d i dir = some a <;> simp [h, toOpt]

theorem execTop_top_mode {c : Chg} (h : isTopCmd c = true) {d d' : Dev} (hd : execTop d c = .ok d') :
    d'.mode = none := by
  cases c <;> simp_all [isTopCmd, execTop] <;> (repeat' split at hd) <;> simp_all <;>
    (try (cases hd; rfl)) <;> (subst hd; rfl)


/-! ### names are stable under the state updates -/

theorem hasAcl_setAcl (d : Dev) (n x : Name) (es : Entries) : hasAcl (setAcl d n es) x = hasAcl d x := by
  simp only [hasAcl, setAcl, List.any_map]
  congr 1
  funext p
  simp only [Function.comp]
  by_cases h : p.1 == n
  · simp only [h, ↓reduceIte]
    have := beq_iff_eq.mp h
    rw [this]
  · simp [h]

theorem hasAcl_ensure_self (d : Dev) (n : Name) : hasAcl (ensureAcl d n) n = true := by
  unfold ensureAcl
  by_cases h : hasAcl d n = true
  · simp [h]
  · rw [if_neg h]; simp [hasAcl]

theorem modeInv_of_mode_none {d : Dev} (h : d.mode = none) : ModeInv none d := by
  refine ⟨?_, ?_, ?_⟩
  · intro p hp; cases hp
  · intro n hn; rw [h] at hn; cases hn
  · intro n hn; rw [h] at hn; cases hn

theorem modeInv_none {m : Option Mode} {d : Dev} (h : ModeInv m d) : ModeInv none d := by
  refine ⟨?_, h.2.1, h.2.2⟩
  intro p hp; cases hp

/-- Everything but the mode agrees. -/
theorem strip_eq_iff {d0 d : Dev} (h : strip d0 = strip d) :
    d0.intfs = d.intfs ∧ d0.acls = d.acls ∧ d0.routes = d.routes := by
  have h1 := congrArg Dev.intfs h
  have h2 := congrArg Dev.acls h
  have h3 := congrArg Dev.routes h
  exact ⟨h1, h2, h3⟩

theorem strip_eq_of {d0 d : Dev} (h1 : d0.intfs = d.intfs) (h2 : d0.acls = d.acls) (h3 : d0.routes = d.routes) :
    strip d0 = strip d := by
  cases d0; cases d; simp_all [strip]

theorem ensureAcl_of_has {d : Dev} {n : Name} (h : hasAcl d n = true) : ensureAcl d n = d := by
  simp [ensureAcl, h]

@[simp] theorem hasIntf_setAcl (d : Dev) (n : Name) (es : Entries) (i : String) :
    hasIntf (setAcl d n es) i = hasIntf d i := rfl

theorem hasIntf_setSlot (d : Dev) (i dir : String) (v : Option Name) (x : String) :
    hasIntf (setSlot d i dir v) x = hasIntf d x := by
  simp only [hasIntf, setSlot, List.any_map]
  congr 1
  funext p
  simp only [Function.comp]
  by_cases h : p.name == i <;> simp only [h, ↓reduceIte, Bool.false_eq_true] <;> split <;> rfl

@[simp] theorem hasAcl_setSlot (d : Dev) (i dir : String) (v : Option Name) (x : Name) :
    hasAcl (setSlot d i dir v) x = hasAcl d x := rfl


/-- Outcome of one event on the real device: refused iff the mode-free semantics refuses; otherwise
the same state up to the mode, and the modes of engine and device agree again. -/
def StepOK (r : Option Dev) (cs : List Chg) (d : Dev) (m' : Option Mode) : Prop :=
  match r with
  | none => exec d cs = none
  | some d1 => ∃ d', exec d cs = some d' ∧ strip d' = strip d1 ∧ ModeInv m' d'

theorem exec_exit_cons (d : Dev) (q : Mode) (h : d.mode = some q) (cs : List Chg) :
    exec d (Chg.exit :: cs) = exec (strip d) cs := by
  rw [exec_cons, exec1_exit d (by simp [h])]
  rfl

theorem step_topcmd {c : Chg} (ht : isTopCmd c = true) (d0 d : Dev) (h : strip d0 = strip d) :
    StepOK ((toOpt (execTop d c)).map strip) [c] d0 none := by
  have h1 : (toOpt (execTop d0 c)).map strip = (toOpt (execTop d c)).map strip := by
    rw [← execTop_strip d0, ← execTop_strip d, h]
  rw [← h1]
  unfold StepOK
  simp only [exec_cons, exec_nil, exec1_top ht]
  cases hx : execTop d0 c with
  | error e => simp [toOpt]
  | ok d' =>
    have hmode := execTop_top_mode ht hx
    simp only [toOpt, Option.map_some, Option.bind_some]
    exact ⟨d', rfl, rfl, modeInv_of_mode_none hmode⟩

theorem step_aclLine (n : Name) (d0 d : Dev) (h : strip d0 = strip d) :
    ∃ d2, exec d0 [Chg.aclMode n] = some d2 ∧ d2.mode = some (.acl n) ∧ hasAcl d2 n = true ∧
      strip d2 = strip (ensureAcl d n) := by
  obtain ⟨hi, ha, hr⟩ := strip_eq_iff h
  have hha : hasAcl d0 n = hasAcl d n := by simp [hasAcl, ha]
  simp only [exec_cons, exec_nil, exec1_aclMode, execTop, toOpt, Option.bind_some]
  refine ⟨_, rfl, rfl, ?_, ?_⟩
  · by_cases hh : hasAcl d n = true
    · simp only [hha, hh, ↓reduceIte]
      simp only [hasAcl] at hh ⊢
      rw [ha]; exact hh
    · have hh0 : ¬ hasAcl d0 n = true := by rw [hha]; exact hh
      simp only [hh0]
      simp [hasAcl]
  · unfold ensureAcl
    by_cases hh : hasAcl d n = true
    · simp only [hha, hh, ↓reduceIte]
      exact strip_eq_of hi ha hr
    · simp only [hha, hh]
      exact strip_eq_of hi (by simp [ha]) hr

theorem step_entry {c : Chg} (hc : isEntryCmd c = true) (n : Name) (d d2 : Dev)
    (hmode : d2.mode = some (.acl n)) (hhas : hasAcl d2 n = true) (hs : strip d2 = strip (ensureAcl d n)) :
    StepOK (evRun d (.sub (.acl n) c)) [c] d2 (some (.acl n)) := by
  obtain ⟨hi, ha, hr⟩ := strip_eq_iff hs
  have hent : entriesOf d2 n = entriesOf (ensureAcl d n) n := by simp [entriesOf, ha]
  unfold StepOK
  simp only [evRun, hc, ↓reduceIte, exec_cons, exec_nil, exec1_entry hc d2 n hmode, hent]
  cases execEntry (entriesOf (ensureAcl d n) n) c with
  | error e => simp [toOpt]
  | ok es =>
    simp only [toOpt, Option.map_some, Option.bind_some]
    refine ⟨_, rfl, ?_, ?_, ?_, ?_⟩
    · rw [strip_strip, strip_setAcl, strip_setAcl, hs]
    · intro p h; cases h; exact hmode
    · intro n' h
      rw [hasAcl_setAcl]
      rw [show (setAcl d2 n es).mode = d2.mode from rfl, hmode] at h
      cases h
      exact hhas
    · intro i h
      rw [show (setAcl d2 n es).mode = d2.mode from rfl, hmode] at h
      cases h

theorem step_intfLine (i : String) (d0 d : Dev) (h : strip d0 = strip d) (hhi : hasIntf d i = true) :
    ∃ d2, exec d0 [Chg.intfMode i] = some d2 ∧ d2.mode = some (.intf i) ∧ hasIntf d2 i = true ∧
      strip d2 = strip d := by
  obtain ⟨hi, ha, hr⟩ := strip_eq_iff h
  have hh0 : hasIntf d0 i = true := by simp only [hasIntf, hi]; exact hhi
  simp only [exec_cons, exec_nil, exec1_intfMode, execTop, hh0, ↓reduceIte, toOpt, Option.bind_some]
  exact ⟨_, rfl, rfl, hh0, strip_eq_of hi ha hr⟩

theorem step_intfLine_refused (i : String) (d0 d : Dev) (h : strip d0 = strip d) (hhi : ¬ hasIntf d i = true)
    (cs : List Chg) : exec d0 (Chg.intfMode i :: cs) = none := by
  obtain ⟨hi, ha, hr⟩ := strip_eq_iff h
  have hh0 : hasIntf d0 i = false := by
    simp only [hasIntf, hi]; simpa [hasIntf] using hhi
  simp [exec_cons, exec1_intfMode, execTop, hh0, toOpt]

theorem step_bindcmd {c : Chg} (hc : isBindCmd c = true) (i : String) (d d2 : Dev)
    (hmode : d2.mode = some (.intf i)) (hhas : hasIntf d2 i = true) (hs : strip d2 = strip d) :
    StepOK (evRun d (.sub (.intf i) c)) [c] d2 (some (.intf i)) := by
  obtain ⟨hi, ha, hr⟩ := strip_eq_iff hs
  have hhi : hasIntf d i = true := by simp only [hasIntf, ← hi]; exact hhas
  have hha : ∀ a, hasAcl d2 a = hasAcl d a := fun a => by simp [hasAcl, ha]
  have hsl : ∀ dir, slotOf d2 i dir = slotOf d i dir := fun dir => by simp [slotOf, hi]
  have hinv : ∀ v dir, ModeInv (some (Mode.intf i)) (setSlot d2 i dir v) := by
    intro v dir
    refine ⟨?_, ?_, ?_⟩
    · intro p h; cases h; exact hmode
    · intro n' h'
      rw [show (setSlot d2 i dir v).mode = d2.mode from rfl, hmode] at h'
      cases h'
    · intro i' h'
      rw [show (setSlot d2 i dir v).mode = d2.mode from rfl, hmode] at h'
      cases h'
      rw [hasIntf_setSlot]; exact hhas
  unfold StepOK
  cases c with
  | bind a dir =>
    simp only [evRun, hhi, Bool.not_true, Bool.false_eq_true, ↓reduceIte, exec_cons, exec_nil,
      exec1_bindCmd d2 i a dir hmode, hha]
    by_cases h : hasAcl d a = true
    · simp only [h, ↓reduceIte, Option.bind_some]
      exact ⟨_, rfl, by rw [strip_strip, strip_setSlot, strip_setSlot, hs], hinv _ _⟩
    · simp [h]
  | noBind a dir =>
    simp only [evRun, hhi, Bool.not_true, Bool.false_eq_true, ↓reduceIte, exec_cons, exec_nil,
      exec1_noBindCmd d2 i a dir hmode, hsl]
    by_cases h : (slotOf d i dir == some a) = true
    · simp only [h, ↓reduceIte, Option.bind_some]
      exact ⟨_, rfl, by rw [strip_strip, strip_setSlot, strip_setSlot, hs], hinv _ _⟩
    · simp [h]
  | _ => simp [isBindCmd] at hc


theorem StepOK_append {r : Option Dev} {pre cs : List Chg} {d d0 : Dev} {m' : Option Mode}
    (hpre : exec d pre = some d0) (h : StepOK r cs d0 m') : StepOK r (pre ++ cs) d m' := by
  unfold StepOK at h ⊢
  cases r with
  | none => simp only [exec_append, hpre, Option.bind_some]; exact h
  | some d1 => simp only [exec_append, hpre, Option.bind_some]; exact h

/-- One event. -/
theorem step_render (e : Ev) (m : Option Mode) (d : Dev) (hinv : ModeInv m d) (hwf : wfEv e = true) :
    StepOK (evRun d e) (renderEv m e).1 d (renderEv m e).2 := by
  obtain ⟨hm1, hm2, hm3⟩ := hinv
  -- the optional `exit` in front
  have exitPre : ∀ (cs : List Chg) (r : Option Dev) (m' : Option Mode),
      (∀ d0 : Dev, strip d0 = strip d → StepOK r cs d0 m') →
      StepOK r ((if m.isSome then [Chg.exit] else []) ++ cs) d m' := by
    intro cs r m' h
    cases m with
    | none => simpa using h d rfl
    | some q =>
      have hd := hm1 q rfl
      simp only [Option.isSome_some, ↓reduceIte]
      exact StepOK_append (d0 := strip d) (by rw [exec_exit_cons d q hd]; rfl) (h (strip d) rfl)
  cases e with
  | reset =>
    simp only [evRun, renderEv, StepOK, exec_nil]
    exact ⟨d, rfl, rfl, modeInv_none ⟨hm1, hm2, hm3⟩⟩
  | top c => exact step_topcmd hwf d d rfl
  | exitTop c =>
    simp only [evRun, renderEv]
    exact exitPre [c] _ none (fun d0 h0 => step_topcmd hwf d0 d h0)
  | openAcl n =>
    obtain ⟨d2, h2, hmode, hhas, hs⟩ := step_aclLine n d d rfl
    simp only [evRun, renderEv, StepOK]
    refine ⟨d2, h2, by rw [hs, strip_strip], ?_, ?_, ?_⟩
    · intro p h; cases h; exact hmode
    · intro n' h; rw [hmode] at h; cases h; exact hhas
    · intro i h; rw [hmode] at h; cases h
  | sub p c =>
    cases p with
    | acl n =>
      have hc : isEntryCmd c = true := hwf
      by_cases hmp : m = some (.acl n)
      · subst hmp
        have hd := hm1 _ rfl
        have hh := hm2 n hd
        simp only [renderEv, beq_self_eq_true, ↓reduceIte]
        exact step_entry hc n d d hd hh (by rw [ensureAcl_of_has hh])
      · have hb : (m == some (Mode.acl n)) = false := by simpa using hmp
        simp only [renderEv, hb, Bool.false_eq_true, ↓reduceIte]
        refine exitPre _ _ _ (fun d0 h0 => ?_)
        obtain ⟨d2, h2, hmode, hhas, hs⟩ := step_aclLine n d0 d h0
        exact StepOK_append (pre := [Mode.line (.acl n)]) h2 (step_entry hc n d d2 hmode hhas hs)
    | intf i =>
      have hc : isBindCmd c = true := hwf
      by_cases hmp : m = some (.intf i)
      · subst hmp
        have hd := hm1 _ rfl
        have hh := hm3 i hd
        simp only [renderEv, beq_self_eq_true, ↓reduceIte]
        exact step_bindcmd hc i d d hd hh rfl
      · have hb : (m == some (Mode.intf i)) = false := by simpa using hmp
        simp only [renderEv, hb, Bool.false_eq_true, ↓reduceIte]
        refine exitPre _ _ _ (fun d0 h0 => ?_)
        by_cases hhi : hasIntf d i = true
        · obtain ⟨d2, h2, hmode, hhas, hs⟩ := step_intfLine i d0 d h0 hhi
          exact StepOK_append (pre := [Mode.line (.intf i)]) h2 (step_bindcmd hc i d d2 hmode hhas hs)
        · have hev : evRun d (.sub (.intf i) c) = none := by simp [evRun, hhi]
          rw [hev]
          exact step_intfLine_refused i d0 d h0 hhi [c]

/-- `ios_confmode_tracks`, semantic form: executing the printed script on the strict device is the
mode-free semantics of the events. -/
theorem exec_render (evs : List Ev) (m : Option Mode) (d : Dev) (hinv : ModeInv m d)
    (hwf : ∀ e ∈ evs, wfEv e = true) :
    (exec d (render m evs)).map strip = (evsRun d evs).map strip := by
  induction evs generalizing m d with
  | nil => simp [render, exec_nil, evsRun]
  | cons e es ih =>
    have hwe := hwf e (List.mem_cons_self ..)
    have hwes : ∀ e' ∈ es, wfEv e' = true := fun e' h => hwf e' (List.mem_cons_of_mem _ h)
    have hs := step_render e m d hinv hwe
    simp only [render, exec_append, evsRun_cons]
    unfold StepOK at hs
    cases hr : evRun d e with
    | none =>
      rw [hr] at hs
      simp [hs]
    | some d1 =>
      rw [hr] at hs
      obtain ⟨d', hex, hst, hinv'⟩ := hs
      simp only [hex, Option.bind_some]
      rw [ih _ d' hinv' hwes, ← evsRun_strip_map d', hst, evsRun_strip_map]

/-- The whole script of a list of decisions, from the initial device (at top level). -/
theorem exec_script (acts : List MA) (d : Dev) (hmode : d.mode = none) :
    (exec d (scriptOf acts)).map strip = (evsRun d (acts.flatMap expand)).map strip :=
  exec_render _ none d (modeInv_of_mode_none hmode) (acts_wf acts)

end NA.F2
