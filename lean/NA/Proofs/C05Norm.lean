import NA.Proofs.C05Ipt
/-!
C05, iptables: how `normalizeIPTables` acts on the entries of an option map (`getA_normalize`),
idempotence on stable maps, and the parser on a line built from options (`parsePairs_words`).
-/
namespace NA.C05
open NA.Linux NA.Linux.Spec

/-! ### association lists -/

theorem getA_setA {β : Type} (k k' : Str) (v : β) (m : List (Str × β)) :
    getA k (setA k' v m) = if k' = k then some v else getA k m := by
  induction m with
  | nil => simp [setA, getA]
  | cons x xs ih =>
    obtain ⟨k0, v0⟩ := x
    simp only [setA]
    by_cases h0 : k0 = k'
    · subst h0
      by_cases h : k0 = k <;> simp [getA, h]
    · by_cases h : k' = k
      · subst h; simp [getA, h0, ih]
      · by_cases h1 : k0 = k
        · subst h1; simp [getA, h0, h]
        · simp [getA, h0, h1, ih, h]

theorem getA_eraseA {β : Type} (k k' : Str) (m : List (Str × β)) :
    getA k (eraseA k' m) = if k' = k then none else getA k m := by
  induction m with
  | nil => simp [eraseA, getA]
  | cons x xs ih =>
    obtain ⟨k0, v0⟩ := x
    simp only [eraseA]
    by_cases h0 : k0 = k'
    · subst h0
      by_cases h : k0 = k
      · subst h; simp [ih]
      · simp [h, ih, getA]
    · by_cases h : k' = k
      · subst h; simp [getA, h0, ih]
      · by_cases h1 : k0 = k
        · subst h1; simp [getA, h0, h]
        · simp [getA, h0, h1, ih, h]

theorem getA_mapVal (f : Str → Str → Str) (k : Str) (m : Pairs) :
    getA k (m.map fun (kv : Str × Str) => (kv.1, f kv.1 kv.2)) = (getA k m).map (f k) := by
  induction m with
  | nil => simp [getA]
  | cons x xs ih =>
    obtain ⟨k0, v0⟩ := x
    by_cases h : k0 = k
    · subst h; simp [getA]
    · simp [getA, h, ih]

/-! ### the three steps of `normalizeIPTables` -/

def kM : Str := s "-m"
def kP : Str := s "-p"
def kXmark : Str := s "--set-xmark"
def kMark : Str := s "--set-mark"

/-- Is the `-m` entry dropped (it names the protocol)? -/
def mDrop (p : Pairs) : Bool :=
  match getA kM p with
  | some v => equalFold v ((getA kP p).getD [])
  | none => false

/-- Is this `--set-xmark` value rewritten to `--set-mark`? -/
def xConvV (v : Str) : Bool :=
  let (_, mask, found) := cutChar v '/'
  !found || lower mask = s "0xffffffff"

def step1 (p : Pairs) : Pairs := if mDrop p then eraseA kM p else p

def step2 (p : Pairs) : Pairs :=
  match getA kXmark p with
  | some v => if xConvV v then setA kMark v (eraseA kXmark p) else p
  | none => p

theorem normalize_eq (p : Pairs) :
    normalize p = (step2 (step1 p)).map fun (kv : Str × Str) => (kv.1, normVal kv.1 kv.2) := by
  unfold normalize step1 step2 mDrop xConvV kM kP kXmark kMark
  cases h1 : getA (s "-m") p with
  | none =>
    simp only [Bool.false_eq_true, ↓reduceIte]
    cases h2 : getA (s "--set-xmark") p with
    | none => rfl
    | some v => rfl
  | some m =>
    simp only
    by_cases he : equalFold m ((getA (s "-p") p).getD []) = true
    · simp only [he, ↓reduceIte]
      cases h2 : getA (s "--set-xmark") (eraseA (s "-m") p) with
      | none => rfl
      | some v => rfl
    · simp only [he, Bool.false_eq_true, ↓reduceIte]
      cases h2 : getA (s "--set-xmark") p with
      | none => rfl
      | some v => rfl

theorem getA_step1 (p : Pairs) (k : Str) :
    getA k (step1 p) = if k = kM ∧ mDrop p = true then none else getA k p := by
  unfold step1
  by_cases hd : mDrop p = true
  · simp only [hd, ↓reduceIte, getA_eraseA, and_true]
    by_cases h : kM = k
    · simp [h]
    · have : ¬ k = kM := fun e => h e.symm
      simp [h, this]
  · simp [hd]

/-- The value of a convertible `--set-xmark`, if any. -/
def xConv (p : Pairs) : Option Str :=
  match getA kXmark p with
  | some v => if xConvV v then some v else none
  | none => none

theorem getA_step2 (p : Pairs) (k : Str) :
    getA k (step2 p) =
      match xConv p with
      | some v => if k = kMark then some v else if k = kXmark then none else getA k p
      | none => getA k p := by
  unfold step2 xConv
  cases h : getA kXmark p with
  | none => rfl
  | some v =>
    simp only
    by_cases hc : xConvV v = true
    · simp only [hc, ↓reduceIte, getA_setA, getA_eraseA]
      by_cases h1 : kMark = k
      · simp [h1]
      · have h1' : ¬ k = kMark := fun e => h1 e.symm
        by_cases h2 : kXmark = k
        · simp [h1, h1', h2]
        · have h2' : ¬ k = kXmark := fun e => h2 e.symm
          simp [h1, h1', h2, h2']
    · simp [hc]

theorem kX_ne_kM : kXmark ≠ kM := by decide
theorem kMark_ne_kM : kMark ≠ kM := by decide
theorem kMark_ne_kX : kMark ≠ kXmark := by decide
theorem kP_ne_kM : kP ≠ kM := by decide

theorem xConv_step1 (p : Pairs) : xConv (step1 p) = xConv p := by
  unfold xConv
  rw [getA_step1]
  simp [kX_ne_kM]

/-- Lookup in the normalised map, in terms of lookups in the parsed map. -/
theorem getA_normalize (p : Pairs) (k : Str) :
    getA k (normalize p) =
      (match xConv p with
       | some v => if k = kMark then some v else if k = kXmark then none
                   else if k = kM ∧ mDrop p = true then none else getA k p
       | none => if k = kM ∧ mDrop p = true then none else getA k p).map (normVal k) := by
  rw [normalize_eq, getA_mapVal, getA_step2, xConv_step1]
  cases xConv p <;> simp only [getA_step1]

/-! ### idempotence -/

theorem getA_mem {β : Type} {k : Str} {v : β} {m : List (Str × β)} (h : getA k m = some v) : (k, v) ∈ m := by
  induction m with
  | nil => simp [getA] at h
  | cons x xs ih =>
    obtain ⟨k0, v0⟩ := x
    by_cases h0 : k0 = k
    · simp [getA, h0] at h; simp [h0, h]
    · simp [getA, h0] at h; simp [ih h]

/-- A map on which a second normalisation finds nothing to do: every value (looked up by key) is a
fixed point of the per-key rewriting, no convertible `--set-xmark` is left, and a surviving `-m` still
differs from the (normalised) protocol.  Decidable. -/
def StableB (q : Pairs) : Bool :=
  (keysA q).all (fun k => match getA k q with | some v => normVal k v == v | none => true) &&
  (xConv q).isNone && !mDrop q

def Stable (q : Pairs) : Prop := StableB q = true

instance (q : Pairs) : Decidable (Stable q) := by unfold Stable; exact inferInstance

theorem stable_iff (q : Pairs) :
    Stable q ↔ (∀ k v, getA k q = some v → normVal k v = v) ∧ xConv q = none ∧ mDrop q = false := by
  unfold Stable StableB
  simp only [Bool.and_eq_true, List.all_eq_true, Option.isNone_iff_eq_none, Bool.not_eq_eq_eq_not, Bool.not_true]
  constructor
  · rintro ⟨⟨h1, h2⟩, h3⟩
    refine ⟨?_, h2, h3⟩
    intro k v hg
    have hk : k ∈ keysA q := (mem_keysA k q).mpr (by simp [hasA, hg])
    have := h1 k hk
    simpa [hg] using this
  · rintro ⟨h1, h2, h3⟩
    refine ⟨⟨?_, h2⟩, h3⟩
    intro k _
    cases hg : getA k q with
    | none => rfl
    | some v => simpa using h1 k v hg

theorem normalize_of_stable (q : Pairs) (h : Stable q) : PairsEq (normalize q) q := by
  intro k
  obtain ⟨hv, hx, hm⟩ := (stable_iff q).mp h
  rw [getA_normalize, hx]
  simp only [hm, Bool.false_eq_true, and_false, ↓reduceIte]
  cases hq : getA k q with
  | none => rfl
  | some v => simp [hv k v hq]

/-! ### the option loop of the parser on a line built from options -/

/-- The entry the parser makes of an option (with its one hard coded special case). -/
def pkv (o : OptW) : Str × Str :=
  fixSyn o.key (if o.neg.isNeg then ['!'] else []) (joinWith [' '] o.args)

def pairsOf (l : List OptW) (acc : Pairs) : Pairs := l.foldl (fun acc o => setA (pkv o).1 (pkv o).2 acc) acc

/-- An option the parser reads back as written. -/
def OptOK (o : OptW) : Prop :=
  startsWithDash o.key = true ∧ (∀ a ∈ o.args, isArg a = true) ∧ (o.neg = .after → o.args ≠ [])

/-- What may follow an option: nothing, a key, or `!` and a key. -/
def RestOK (rest : List Str) : Prop :=
  rest = [] ∨ (∃ k tl, rest = k :: tl ∧ startsWithDash k = true) ∨
  (∃ k tl, rest = ['!'] :: k :: tl ∧ startsWithDash k = true)

theorem dash_ne_bang {k : Str} (h : startsWithDash k = true) : k ≠ ['!'] := by
  intro e; subst e; simp [startsWithDash] at h

theorem words_restOK (l : List OptW) (h : ∀ o ∈ l, OptOK o) : RestOK (l.flatMap OptW.words) := by
  cases l with
  | nil => left; rfl
  | cons o os =>
    have ho := h o (by simp)
    simp only [List.flatMap_cons]
    cases hn : o.neg with
    | no => right; left; exact ⟨o.key, o.args ++ os.flatMap OptW.words, by simp [OptW.words, hn], ho.1⟩
    | before => right; right; exact ⟨o.key, o.args ++ os.flatMap OptW.words, by simp [OptW.words, hn], ho.1⟩
    | after => right; left; exact ⟨o.key, ['!'] :: o.args ++ os.flatMap OptW.words, by simp [OptW.words, hn], ho.1⟩

theorem takeWhile_args (args rest : List Str) (ha : ∀ a ∈ args, isArg a = true) (hr : RestOK rest) :
    (args ++ rest).takeWhile isArg = args ∧ (args ++ rest).dropWhile isArg = rest := by
  induction args with
  | nil =>
    simp only [List.nil_append]
    rcases hr with h | ⟨k, tl, h, hk⟩ | ⟨k, tl, h, _⟩
    · subst h; simp
    · subst h; simp [List.takeWhile, List.dropWhile, isArg, hk]
    · subst h; simp [List.takeWhile, List.dropWhile, isArg]
  | cons a as ih =>
    have h1 : isArg a = true := ha a (by simp)
    have := ih (fun x hx => ha x (by simp [hx]))
    simp only [List.cons_append, List.takeWhile, List.dropWhile, h1, this.1, this.2, and_self]

/-- No `!` directly behind the key: the words are taken as they are. -/
theorem negAfter_none (args rest : List Str) (ha : ∀ a ∈ args, isArg a = true) (hr : RestOK rest) :
    negAfter (args ++ rest) = (false, args ++ rest) := by
  unfold negAfter
  split
  · rename_i x y rest' hws
    have : ¬ ((x = ['!'] && !startsWithDash y) = true) := by
      intro hc
      simp only [Bool.and_eq_true, decide_eq_true_eq, Bool.not_eq_eq_eq_not, Bool.not_true] at hc
      obtain ⟨hx, hy⟩ := hc
      cases args with
      | nil =>
        rw [List.nil_append] at hws
        rcases hr with h | ⟨k, tl, h, hk'⟩ | ⟨k, tl, h, hk'⟩
        · rw [h] at hws; simp at hws
        · rw [h] at hws; injection hws with h1 _; exact dash_ne_bang hk' (h1 ▸ hx)
        · rw [h] at hws; injection hws with _ h2; injection h2 with h2 _
          rw [h2] at hk'; rw [hy] at hk'; simp at hk'
      | cons a as =>
        rw [List.cons_append] at hws
        injection hws with h1 _
        have := ha a (by simp)
        simp only [isArg, Bool.and_eq_true, decide_eq_true_eq] at this
        exact this.2 (h1 ▸ hx)
    simp [this]
  · rfl

theorem negAfter_some (a : Str) (as rest : List Str) (ha : startsWithDash a = false) :
    negAfter (['!'] :: a :: as ++ rest) = (true, a :: as ++ rest) := by
  simp [negAfter, ha]

theorem readOpt_ok (o : OptW) (rest : List Str) (ho : OptOK o) (hr : RestOK rest) :
    (o.neg = .no → readOpt false o.key (o.args ++ rest) = (pkv o, rest)) ∧
    (o.neg = .before → readOpt true o.key (o.args ++ rest) = (pkv o, rest)) ∧
    (o.neg = .after → readOpt false o.key (['!'] :: o.args ++ rest) = (pkv o, rest)) := by
  obtain ⟨_, ha, hafter⟩ := ho
  have htd := takeWhile_args o.args rest ha hr
  have hna := negAfter_none o.args rest ha hr
  refine ⟨?_, ?_, ?_⟩
  · intro hn
    simp [readOpt, hna, htd.1, htd.2, pkv, OptW.value, hn, Neg.isNeg]
  · intro hn
    simp [readOpt, hna, htd.1, htd.2, pkv, OptW.value, hn, Neg.isNeg]
  · intro hn
    obtain ⟨a, as, hargs⟩ : ∃ a as, o.args = a :: as := by
      cases h : o.args with
      | nil => exact absurd h (hafter hn)
      | cons a as => exact ⟨a, as, rfl⟩
    have hap : startsWithDash a = false := by
      have := ha a (by simp [hargs])
      simp only [isArg, Bool.and_eq_true, Bool.not_eq_eq_eq_not, Bool.not_true] at this
      exact this.1
    rw [hargs] at htd ⊢
    have hn2 := negAfter_some a as rest hap
    simp only [List.cons_append] at hn2 htd ⊢
    simp [readOpt, hn2, htd.1, htd.2, pkv, OptW.value, hn, Neg.isNeg, hargs]

/-- One turn of the option loop. -/
theorem parse_step (o : OptW) (rest : List Str) (acc : Pairs) (fuel : Nat) (ho : OptOK o) (hr : RestOK rest) :
    parsePairsAux (fuel + 1) (o.words ++ rest) acc =
      parsePairsAux fuel rest (setA (pkv o).1 (pkv o).2 acc) := by
  have hkb := dash_ne_bang ho.1
  obtain ⟨h1, h2, h3⟩ := readOpt_ok o rest ho hr
  cases hn : o.neg with
  | no =>
    have hw : o.words = o.key :: o.args := by simp [OptW.words, hn]
    rw [hw, List.cons_append]
    simp only [parsePairsAux, if_neg hkb, h1 hn]
  | before =>
    have hw : o.words = ['!'] :: o.key :: o.args := by simp [OptW.words, hn]
    rw [hw, List.cons_append, List.cons_append]
    simp only [parsePairsAux, ↓reduceIte, h2 hn]
  | after =>
    have hw : o.words = o.key :: ['!'] :: o.args := by simp [OptW.words, hn]
    rw [hw, List.cons_append, List.cons_append]
    have h3' := h3 hn
    simp only [List.cons_append] at h3'
    simp only [parsePairsAux, if_neg hkb, h3']

theorem parse_opts : ∀ (l : List OptW) (acc : Pairs) (fuel : Nat), (∀ o ∈ l, OptOK o) →
    (l.flatMap OptW.words).length ≤ fuel →
    parsePairsAux fuel (l.flatMap OptW.words) acc = some (pairsOf l acc) := by
  intro l
  induction l with
  | nil => intro acc fuel _ _; cases fuel <;> simp [parsePairsAux, pairsOf]
  | cons o os ih =>
    intro acc fuel hok hf
    have hpos : 0 < (o.words).length := by cases hn : o.neg <;> simp [OptW.words, hn]
    simp only [List.flatMap_cons, List.length_append] at hf ⊢
    cases fuel with
    | zero => omega
    | succ fuel =>
      rw [parse_step o _ acc fuel (hok o (by simp)) (words_restOK os (fun x hx => hok x (by simp [hx])))]
      rw [ih _ fuel (fun x hx => hok x (by simp [hx])) (by omega)]
      simp [pairsOf]

/-- The parser on the words of a list of options. -/
theorem parsePairs_words (l : List OptW) (h : ∀ o ∈ l, OptOK o) :
    parsePairs (l.flatMap OptW.words) = some (pairsOf l []) :=
  parse_opts l [] _ h (Nat.le_succ _)

end NA.C05
