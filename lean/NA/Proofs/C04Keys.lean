import NA.Proofs.C04Plan
/-!
Helper lemmas for C04: a target group gets a name on the manager (`nameOnDevice`) only while a
target rule that refers to it is processed.  Purely about the planner's state; used for
`nsx_no_leftover_unused_group`.
-/
namespace NA.Nsx

/-- The key of target group `k` occurs as source or destination of rule `rb`. -/
def RefsKey (rb : Rule) (k : String) : Prop := groupRef rb.src = some k ∨ groupRef rb.dst = some k

/-- Every name in `st'` was already in `st` or belongs to a key satisfying `P`. -/
def KeysFrom (st st' : PSt) (P : String → Prop) : Prop :=
  ∀ k n, st'.nod.lookup k = some n → st.nod.lookup k = some n ∨ P k

theorem KeysFrom.refl (st : PSt) (P : String → Prop) : KeysFrom st st P := fun _ _ h => Or.inl h

theorem KeysFrom.trans {a b c : PSt} {P : String → Prop} (h1 : KeysFrom a b P) (h2 : KeysFrom b c P) :
    KeysFrom a c P := by
  intro k n h
  rcases h2 k n h with h' | h'
  · exact h1 k n h'
  · exact Or.inr h'

theorem KeysFrom.weaken {a b : PSt} {P Q : String → Prop} (h : KeysFrom a b P) (hpq : ∀ k, P k → Q k) :
    KeysFrom a b Q := fun k n hl => (h k n hl).imp id (hpq k)

theorem lookup_cons_cases {k k' v : String} {l : List (String × String)} {n : String}
    (h : List.lookup k ((k', v) :: l) = some n) : k = k' ∨ List.lookup k l = some n := by
  by_cases e : k = k'
  · exact Or.inl e
  · rw [lookup_cons_ne e] at h; exact Or.inr h

theorem adaptGroup_keys (ctx : Ctx) (st : PSt) (p : String) :
    KeysFrom st (adaptGroup ctx st p).1 (fun k => groupRef p = some k) := by
  intro k n h
  unfold adaptGroup at h
  cases hr : groupRef p with
  | none => simp only [hr] at h; exact Or.inl h
  | some key =>
    simp only [hr] at h
    cases hb : ctx.bmap.lookup key with
    | none => simp only [hb] at h; exact Or.inl h
    | some gb =>
      simp only [hb] at h
      cases hn : st.nod.lookup key with
      | some m => simp only [hn] at h; exact Or.inl h
      | none =>
        simp only [hn] at h
        cases hf : findOnDevice ctx.aGroups st.needed gb with
        | some ga =>
          simp only [hf] at h
          rcases lookup_cons_cases h with e | e
          · exact Or.inr (by rw [e])
          · exact Or.inl e
        | none =>
          simp only [hf] at h
          rcases lookup_cons_cases h with e | e
          · exact Or.inr (by rw [e])
          · exact Or.inl e

theorem equalize_keys (ctx : Ctx) (st : PSt) (la lb : String) :
    KeysFrom st (equalize ctx st la lb).1 (fun k => groupRef lb = some k) := by
  intro k n h
  unfold equalize at h
  cases hga : ctx.gma la with
  | none => simp only [hga] at h; exact Or.inl h
  | some ga =>
    simp only [hga] at h
    cases hr : groupRef lb with
    | none => simp only [hr] at h; exact Or.inl h
    | some key =>
      simp only [hr] at h
      cases hb : ctx.bmap.lookup key with
      | none => simp only [hb] at h; exact Or.inl h
      | some gb =>
        simp only [hb] at h
        by_cases h1 : (st.nod.lookup key == some ga.id) = true
        · simp only [h1, if_true] at h; exact Or.inl h
        · have h1' : (st.nod.lookup key == some ga.id) = false := Bool.eq_false_iff.mpr h1
          simp only [h1', Bool.false_eq_true, if_false] at h
          by_cases h2 : (st.needed.contains ga.id || (st.nod.lookup key).isSome) = true
          · simp only [h2, if_true] at h
            cases hn : st.nod.lookup key with
            | some nm => simp only [hn] at h; exact Or.inl h
            | none =>
              simp only [hn] at h
              rcases lookup_cons_cases h with e | e
              · exact Or.inr (by rw [e])
              · exact Or.inl e
          · have h2' : (st.needed.contains ga.id || (st.nod.lookup key).isSome) = false := Bool.eq_false_iff.mpr h2
            simp only [h2', Bool.false_eq_true, if_false] at h
            rcases lookup_cons_cases h with e | e
            · exact Or.inr (by rw [e])
            · exact Or.inl e

theorem stepItem_keys (ctx : Ctx) (st : PSt) (it : Item) :
    KeysFrom st (stepItem ctx st it).1 (fun k => match it with
      | .del _ => False
      | .ins rb => RefsKey rb k
      | .eq _ rb => RefsKey rb k) := by
  cases it with
  | del ra => exact KeysFrom.refl _ _
  | ins rb =>
    simp only [stepItem]
    exact ((adaptGroup_keys ctx st rb.src).weaken fun k h => Or.inl h).trans
      ((adaptGroup_keys ctx _ rb.dst).weaken fun k h => Or.inr h)
  | eq ra rb =>
    simp only [stepItem]
    exact ((equalize_keys ctx st ra.src rb.src).weaken fun k h => Or.inl h).trans
      ((equalize_keys ctx _ ra.dst rb.dst).weaken fun k h => Or.inr h)

/-- The target rule an item carries. -/
def Item.rb? : Item → Option Rule
  | .del _ => none
  | .ins rb => some rb
  | .eq _ rb => some rb

theorem stepItems_keys (ctx : Ctx) : ∀ (items : List Item) (st : PSt),
    KeysFrom st (stepItems ctx st items).1 (fun k => ∃ it ∈ items, ∃ rb, it.rb? = some rb ∧ RefsKey rb k) := by
  intro items
  induction items with
  | nil => intro st; exact KeysFrom.refl _ _
  | cons it rest ih =>
    intro st
    simp only [stepItems]
    refine ((stepItem_keys ctx st it).weaken ?_).trans ((ih _).weaken ?_)
    · intro k h
      cases it with
      | del ra => exact absurd h id
      | ins rb => exact ⟨_, List.mem_cons_self, rb, rfl, h⟩
      | eq ra rb => exact ⟨_, List.mem_cons_self, rb, rfl, h⟩
    · rintro k ⟨it', hit, rb, h1, h2⟩
      exact ⟨it', List.mem_cons_of_mem _ hit, rb, h1, h2⟩

theorem itemsOf_rb {rs : List Range} {a b : List Rule} {it : Item} (h : it ∈ itemsOf rs a b) {rb : Rule}
    (hrb : it.rb? = some rb) : rb ∈ b := by
  unfold itemsOf at h
  rw [List.mem_flatMap] at h
  obtain ⟨r, _, hr⟩ := h
  by_cases hd : r.isDelete = true
  · simp only [hd, if_true] at hr
    obtain ⟨x, _, e⟩ := List.mem_map.mp hr
    subst e; simp [Item.rb?] at hrb
  · have hd' : r.isDelete = false := Bool.eq_false_iff.mpr hd
    by_cases hi : r.isInsert = true
    · simp only [hd', hi, Bool.false_eq_true, if_false, if_true] at hr
      obtain ⟨x, hx, e⟩ := List.mem_map.mp hr
      subst e
      simp only [Item.rb?, Option.some.injEq] at hrb
      subst hrb
      exact List.mem_of_mem_drop (List.mem_of_mem_take hx)
    · have hi' : r.isInsert = false := Bool.eq_false_iff.mpr hi
      simp only [hd', hi', Bool.false_eq_true, if_false] at hr
      obtain ⟨⟨x, y⟩, hxy, e⟩ := List.mem_map.mp hr
      subst e
      simp only [Item.rb?, Option.some.injEq] at hrb
      subst hrb
      exact List.mem_of_mem_drop (List.of_mem_zip hxy).2

theorem SameButId_refs {b rb : Rule} (h : SameButId b rb) (k : String) : RefsKey b k ↔ RefsKey rb k := by
  unfold SameButId at h
  unfold RefsKey
  rw [h]

theorem diffRules_keys (ctx : Ctx) (st : PSt) (pa pb : Policy) :
    KeysFrom st (diffRules ctx st pa pb).1 (fun k => ∃ rb ∈ pb.rules, RefsKey rb k) := by
  unfold diffRules
  cases hg : genUniqRules (pa.rules.map (·.id)) pb.rules with
  | none => exact KeysFrom.refl _ _
  | some bR =>
    simp only
    have hsame : Forall2 SameButId bR pb.rules := by
      unfold genUniqRules at hg
      cases hr : renameIds (pa.rules.map (·.id)) (pb.rules.map (·.id)) (pa.rules.map (·.id) ++ pb.rules.map (·.id)) with
      | none => simp [hr] at hg
      | some ids =>
        simp only [hr, Option.map_some, Option.some.injEq] at hg
        subst hg
        -- lengths agree because renameIds keeps the length
        have hlen : ids.length = pb.rules.length := by
          have : ∀ (l used out : List String), renameIds (pa.rules.map (·.id)) l used = some out → out.length = l.length := by
            intro l
            induction l with
            | nil => intro used out h; simp [renameIds] at h; subst h; rfl
            | cons x xs ih =>
              intro used out h
              unfold renameIds at h
              by_cases hc : (pa.rules.map (·.id)).contains x = true
              · simp only [hc, if_true] at h
                cases hf : freshId used x with
                | none => simp [hf] at h
                | some n =>
                  simp only [hf] at h
                  cases hr' : renameIds (pa.rules.map (·.id)) xs (n :: used) with
                  | none => simp [hr'] at h
                  | some o =>
                    simp only [hr', Option.map_some, Option.some.injEq] at h
                    subst h; simp [ih _ _ hr']
              · have hc' : (pa.rules.map (·.id)).contains x = false := Bool.eq_false_iff.mpr hc
                simp only [hc', Bool.false_eq_true, if_false] at h
                cases hr' : renameIds (pa.rules.map (·.id)) xs used with
                | none => simp [hr'] at h
                | some o =>
                  simp only [hr', Option.map_some, Option.some.injEq] at h
                  subst h; simp [ih _ _ hr']
          simpa using this _ _ _ hr
        exact (zipWith_setId pb.rules ids hlen).2
    refine (stepItems_keys _ _ st).weaken ?_
    rintro k ⟨it, hit, rb, h1, h2⟩
    have hm := itemsOf_rb hit h1
    have hm' : rb ∈ bR := (isort_perm _ _).mem_iff.mp hm
    obtain ⟨rb0, hrb0, hs⟩ := hsame.exists_right hm'
    exact ⟨rb0, hrb0, (SameButId_refs hs k).mp h2⟩

theorem adaptRules_keys (ctx : Ctx) : ∀ (rules : List Rule) (st : PSt),
    KeysFrom st (adaptRules ctx st rules).1 (fun k => ∃ rb ∈ rules, RefsKey rb k) := by
  intro rules
  induction rules with
  | nil => intro st; exact KeysFrom.refl _ _
  | cons r rest ih =>
    intro st
    simp only [adaptRules]
    refine (((adaptGroup_keys ctx st r.src).weaken ?_).trans ((adaptGroup_keys ctx _ r.dst).weaken ?_)).trans
      ((ih _).weaken ?_)
    · intro k h; exact ⟨r, List.mem_cons_self, Or.inl h⟩
    · intro k h; exact ⟨r, List.mem_cons_self, Or.inr h⟩
    · rintro k ⟨rb, hrb, h⟩; exact ⟨rb, List.mem_cons_of_mem _ hrb, h⟩

/-- A key refers to a rule of some target policy. -/
def TargetKey (T : Config) (k : String) : Prop := ∃ pb ∈ T.policies, ∃ rb ∈ pb.rules, RefsKey rb k

theorem overA_keys (ctx : Ctx) (T : Config) : ∀ (ps : List Policy) (st : PSt),
    KeysFrom st (overA ctx T ps st).1 (TargetKey T) := by
  intro ps
  induction ps with
  | nil => intro st; exact KeysFrom.refl _ _
  | cons pa rest ih =>
    intro st
    unfold overA
    cases hT : findPolicyLast T.policies pa.id with
    | none => simp only; exact ih st
    | some pb =>
      simp only
      refine ((diffRules_keys ctx st pa pb).weaken ?_).trans (ih _)
      rintro k ⟨rb, hrb, h⟩
      exact ⟨pb, (findPolicyLast_mem hT).1, rb, hrb, h⟩

theorem overB_keys (ctx : Ctx) (A T : Config) : ∀ (ps : List Policy) (st : PSt), (∀ p ∈ ps, p ∈ T.policies) →
    KeysFrom st (overB ctx A ps st).1 (TargetKey T) := by
  intro ps
  induction ps with
  | nil => intro st _; exact KeysFrom.refl _ _
  | cons pb rest ih =>
    intro st hsub
    unfold overB
    by_cases h : A.policies.any (·.id == pb.id) = true
    · simp only [h, if_true]; exact ih st fun p hp => hsub p (List.mem_cons_of_mem _ hp)
    · have h' : A.policies.any (·.id == pb.id) = false := Bool.eq_false_iff.mpr h
      simp only [h', Bool.false_eq_true, if_false]
      refine KeysFrom.trans ?_ (ih _ fun p hp => hsub p (List.mem_cons_of_mem _ hp))
      simp only [createPolicy]
      refine (adaptRules_keys ctx pb.rules st).weaken ?_
      rintro k ⟨rb, hrb, hk⟩
      exact ⟨pb, hsub pb List.mem_cons_self, rb, hrb, hk⟩

end NA.Nsx
