import NA.Model.IosSession
/-!
# C15 helper lemmas, part 1: what is sent, in which order (arbitrary device)
-/
namespace NA.Ios

variable {σ α β : Type}

/-! ### results of `bindM` / `finally_` -/

theorem bindM_ok_iff (m : M σ α) (f : α → M σ β) (st : St σ) (b : β) :
    (bindM m f st).1 = .ok b ↔ ∃ a, (m st).1 = .ok a ∧ (f a (m st).2).1 = .ok b := by
  unfold bindM
  cases h : m st with
  | mk r st' =>
    cases r with
    | ok a => simp
    | abort e => simp

theorem bindM_snd_of_ok (m : M σ α) (f : α → M σ β) (st : St σ) (a : α) (h : (m st).1 = .ok a) :
    bindM m f st = f a (m st).2 := by
  unfold bindM
  cases h' : m st with
  | mk r st' => rw [h'] at h; simp at h; subst h; rfl

theorem bindM_of_abort (m : M σ α) (f : α → M σ β) (st : St σ) (e : Abort) (h : (m st).1 = .abort e) :
    bindM m f st = (.abort e, (m st).2) := by
  unfold bindM
  cases h' : m st with
  | mk r st' => rw [h'] at h; simp at h; subst h; rfl

theorem res_cases (r : Res α) : (∃ a, r = .ok a) ∨ (∃ e, r = .abort e) := by
  cases r with
  | ok a => exact .inl ⟨a, rfl⟩
  | abort e => exact .inr ⟨e, rfl⟩

/-! ### trace extension -/

/-- `op` appends `l` to the trace and `P result l` holds. -/
def Ext (op : M σ α) (P : Res α → List Str → Prop) : Prop :=
  ∀ st, ∃ l, (op st).2.trace = st.trace ++ l ∧ P (op st).1 l

theorem Ext.mono {op : M σ α} {P Q : Res α → List Str → Prop} (h : Ext op P)
    (hpq : ∀ r l, P r l → Q r l) : Ext op Q := by
  intro st; obtain ⟨l, h1, h2⟩ := h st; exact ⟨l, h1, hpq _ _ h2⟩

/-- ops that do not send -/
def Silent (op : M σ α) : Prop := ∀ st, (op st).2.trace = st.trace

theorem Silent.ext {op : M σ α} (h : Silent op) : Ext op (fun _ l => l = []) := by
  intro st; exact ⟨[], by simp [h st], rfl⟩

theorem silent_pure (a : α) : Silent (pureM a : M σ α) := fun _ => rfl
theorem silent_abort (e : Abort) : Silent (abortM e : M σ α) := fun _ => rfl

theorem silent_bind {m : M σ α} {f : α → M σ β} (hm : Silent m) (hf : ∀ a, Silent (f a)) :
    Silent (bindM m f) := by
  intro st
  rcases res_cases (m st).1 with ⟨a, h⟩ | ⟨e, h⟩
  · rw [bindM_snd_of_ok _ _ _ _ h, hf a, hm st]
  · rw [bindM_of_abort _ _ _ _ h]; exact hm st

theorem silent_expectEnd (n : String) (m : Str → Option Nat) : Silent (expectEnd (σ := σ) n m) := by
  intro st; unfold expectEnd; split <;> rfl

theorem silent_waitPrompt : Silent (waitPrompt (σ := σ)) := silent_expectEnd _ _
theorem silent_waitHashEnd : Silent (waitHashEnd (σ := σ)) := silent_expectEnd _ _
theorem silent_tryPrompt : Silent (tryPrompt (σ := σ)) := by
  intro st; unfold tryPrompt; split <;> rfl
theorem silent_stripStdPrompt (s : Str) : Silent (stripStdPrompt (σ := σ) s) := by
  intro st; unfold stripStdPrompt; cases promptFind s <;> rfl
theorem silent_stripEcho (c s : Str) : Silent (stripEcho (σ := σ) c s) := by
  intro st; unfold stripEcho; split <;> rfl
theorem silent_setActive (b : Bool) : Silent (setActive (σ := σ) b) := fun _ => rfl
theorem silent_getActive : Silent (getActive (σ := σ)) := fun _ => rfl
theorem silent_warn (c l : Str) : Silent (warn (σ := σ) c l) := fun _ => rfl

theorem silent_getOutput : Silent (getOutput (σ := σ)) :=
  silent_bind silent_waitPrompt (fun _ => silent_stripStdPrompt _)

theorem silent_forEach {f : α → M σ Unit} (hf : ∀ a, Silent (f a)) (l : List α) :
    Silent (forEach f l) := by
  induction l with
  | nil => exact silent_pure _
  | cons a as ih => exact silent_bind (hf a) (fun _ => ih)

theorem silent_stripProbe (pre post : Str) : Silent (stripProbe (σ := σ) pre post) := by
  unfold stripProbe
  split
  · exact silent_bind silent_waitHashEnd (fun _ => silent_stripStdPrompt _)
  · split
    · exact silent_bind silent_tryPrompt (fun _ => silent_pure _)
    · exact silent_pure _

theorem silent_stripReloadBanner (out : Str) : Silent (stripReloadBanner (σ := σ) out) := by
  unfold stripReloadBanner
  refine silent_bind silent_getActive (fun act => ?_)
  cases act
  · exact silent_pure _
  · simp only [if_true]
    cases bannerFind out with
    | none => exact silent_pure _
    | some r => exact silent_bind (silent_stripProbe _ _) (fun _ => silent_pure _)

theorem silent_checkOutput (ci o : Str) : Silent (checkOutput (σ := σ) ci o) := by
  unfold checkOutput
  split
  · exact silent_pure _
  · refine silent_bind (silent_forEach (fun _ => silent_warn _ _) _) (fun _ => ?_)
    split
    · exact silent_pure _
    · exact silent_abort _

theorem silent_check (ci : Str) : Silent (check (σ := σ) ci) := by
  unfold check
  refine silent_bind silent_getOutput (fun out => ?_)
  refine silent_bind (silent_stripReloadBanner _) (fun p => ?_)
  refine silent_bind (silent_stripEcho _ _) (fun o2 => ?_)
  exact silent_bind (silent_checkOutput _ _) (fun _ => silent_pure _)

/-! ### composition of `Ext` -/

theorem ext_bind {m : M σ α} {f : α → M σ β} {P : Res α → List Str → Prop}
    {Q : α → Res β → List Str → Prop} (hm : Ext m P) (hf : ∀ a, Ext (f a) (Q a)) :
    Ext (bindM m f) (fun r l =>
      (∃ e, r = .abort e ∧ P (.abort e) l) ∨
      (∃ a l1 l2, l = l1 ++ l2 ∧ P (.ok a) l1 ∧ Q a r l2)) := by
  intro st
  obtain ⟨l1, h1, hp⟩ := hm st
  rcases res_cases (m st).1 with ⟨a, h⟩ | ⟨e, h⟩
  · rw [bindM_snd_of_ok _ _ _ _ h]
    obtain ⟨l2, h2, hq⟩ := hf a (m st).2
    refine ⟨l1 ++ l2, by rw [h2, h1, List.append_assoc], .inr ⟨a, l1, l2, rfl, ?_, hq⟩⟩
    rw [← h]; exact hp
  · rw [bindM_of_abort _ _ _ _ h]
    exact ⟨l1, h1, .inl ⟨e, rfl, by rw [← h]; exact hp⟩⟩

/-- result of `finally_` -/
def finRes (rb : Res α) (rf : Res Unit) : Res α :=
  match rf with
  | .ok _ => rb
  | .abort e => .abort e

theorem finally_eq (body : M σ α) (fin : M σ Unit) (st : St σ) :
    finally_ body fin st = (finRes (body st).1 (fin (body st).2).1, (fin (body st).2).2) := by
  unfold finally_ finRes
  cases hb : body st with
  | mk r st' =>
    simp only
    cases hf : fin st' with
    | mk rf st'' => cases rf <;> rfl

theorem ext_finally {body : M σ α} {fin : M σ Unit} {P : Res α → List Str → Prop}
    {Q : Res Unit → List Str → Prop} (hb : Ext body P) (hf : Ext fin Q) :
    Ext (finally_ body fin) (fun r l =>
      ∃ rb rf l1 l2, l = l1 ++ l2 ∧ P rb l1 ∧ Q rf l2 ∧ r = finRes rb rf) := by
  intro st
  rw [finally_eq]
  obtain ⟨l1, h1, hp⟩ := hb st
  obtain ⟨l2, h2, hq⟩ := hf (body st).2
  exact ⟨l1 ++ l2, by simp only [h2, h1, List.append_assoc], _, _, l1, l2, rfl, hp, hq, rfl⟩

/-! ### what the primitives send -/

variable (D : Device σ)

theorem ext_send (s : Str) : Ext (send D s) (fun r l => r = .ok () ∧ l = [s]) := by
  intro st; exact ⟨[s], rfl, rfl, rfl⟩

/-- `SendCmd s` sends exactly `s`. -/
theorem ext_sendCmd (s : Str) : Ext (sendCmd D s) (fun _ l => l = [s]) := by
  unfold sendCmd
  refine (ext_bind (ext_send D s) (fun _ => (silent_bind silent_waitPrompt (fun _ => silent_pure _)).ext)).mono ?_
  intro r l h
  rcases h with ⟨e, _, h, _⟩ | ⟨a, l1, l2, rfl, ⟨_, rfl⟩, rfl⟩
  · cases h
  · simp

theorem ext_issueCmd (s : Str) (n : String) (alts : List (Str × Bool)) :
    Ext (issueCmd D s n alts) (fun _ l => l = [s]) := by
  unfold issueCmd
  refine (ext_bind (ext_send D s) (fun _ => (silent_expectEnd _ _).ext)).mono ?_
  intro r l h
  rcases h with ⟨e, _, h, _⟩ | ⟨a, l1, l2, rfl, ⟨_, rfl⟩, rfl⟩
  · cases h
  · simp


/-! ### sets of sends -/

/-- everything `op` sends satisfies `S` -/
def Sends (S : Str → Prop) (op : M σ α) : Prop := Ext op (fun _ l => ∀ s ∈ l, S s)

theorem Silent.sends {S : Str → Prop} {op : M σ α} (h : Silent op) : Sends S op :=
  h.ext.mono (by intro r l hl; subst hl; simp)

theorem sends_bind {S : Str → Prop} {m : M σ α} {f : α → M σ β} (hm : Sends S m)
    (hf : ∀ a, Sends S (f a)) : Sends S (bindM m f) := by
  refine (ext_bind hm hf).mono ?_
  intro r l h
  rcases h with ⟨e, _, h⟩ | ⟨a, l1, l2, rfl, h1, h2⟩
  · exact h
  · intro s hs; rcases List.mem_append.1 hs with h | h
    · exact h1 s h
    · exact h2 s h

theorem sends_finally {S : Str → Prop} {b : M σ α} {f : M σ Unit} (hb : Sends S b) (hf : Sends S f) :
    Sends S (finally_ b f) := by
  refine (ext_finally hb hf).mono ?_
  intro r l ⟨rb, rf, l1, l2, hl, h1, h2, _⟩
  subst hl
  intro s hs; rcases List.mem_append.1 hs with h | h
  · exact h1 s h
  · exact h2 s h

theorem sends_forEach {S : Str → Prop} {f : α → M σ Unit} (l : List α) (hf : ∀ a ∈ l, Sends S (f a)) :
    Sends S (forEach f l) := by
  induction l with
  | nil => exact (silent_pure ()).sends
  | cons a as ih =>
    exact sends_bind (hf a (by simp)) (fun _ => ih (fun b hb => hf b (by simp [hb])))

theorem sends_sendCmd {S : Str → Prop} (s : Str) (h : S s) : Sends S (sendCmd D s) :=
  (ext_sendCmd D s).mono (by intro r l hl; subst hl; simpa using h)

theorem sends_issueCmd {S : Str → Prop} (s : Str) (n : String) (alts : List (Str × Bool)) (h : S s) :
    Sends S (issueCmd D s n alts) :=
  (ext_issueCmd D s n alts).mono (by intro r l hl; subst hl; simpa using h)

theorem sends_send {S : Str → Prop} (s : Str) (h : S s) : Sends S (send D s) :=
  (ext_send D s).mono (by intro r l ⟨_, hl⟩; subst hl; simpa using h)

theorem Sends.mono {S T : Str → Prop} {op : M σ α} (h : Sends S op) (hst : ∀ s, S s → T s) : Sends T op :=
  Ext.mono h (fun _ _ hl s hs => hst s (hl s hs))

/-- the re-arm / schedule exchange sends only these -/
def reloadVocab (s : Str) : Prop := s = reloadCmd ∨ s = doReloadCmd ∨ s = lit "n" ∨ s = []

theorem sends_sendReloadCmd (b : Bool) : Sends reloadVocab (sendReloadCmd D b) := by
  unfold sendReloadCmd
  refine sends_bind (sends_issueCmd D _ _ _ (by cases b <;> simp [reloadVocab])) (fun out => ?_)
  refine sends_bind ?_ (fun _ => sends_bind (silent_setActive _).sends
    (fun _ => sends_sendCmd D _ (by simp [reloadVocab])))
  split
  · exact sends_bind (sends_issueCmd D _ _ _ (by simp [reloadVocab])) (fun _ => (silent_pure _).sends)
  · exact (silent_pure _).sends

theorem sends_cmd (fixed : Bool) (c : Str) :
    Sends (fun s => s = c ∨ reloadVocab s) (cmd D fixed c) := by
  unfold cmd
  refine sends_bind (sends_send D c (.inl rfl)) (fun _ => ?_)
  refine sends_bind (silent_check _).sends (fun n1 => ?_)
  refine sends_bind ?_ (fun need => ?_)
  · split
    · exact (silent_pure _).sends
    · exact sends_bind (silent_check _).sends (fun _ => (silent_pure _).sends)
  · split
    · exact (sends_sendReloadCmd D true).mono (fun s h => .inr h)
    · exact (silent_pure _).sends

theorem sends_changeLoop (fixed : Bool) (cs : List Str) :
    Sends (fun s => s ∈ cs ∨ reloadVocab s) (changeLoop D fixed cs) := by
  unfold changeLoop
  refine sends_forEach cs (fun c hc => (sends_cmd D fixed c).mono ?_)
  intro s h
  rcases h with rfl | h
  · exact .inl hc
  · exact .inr h

theorem sends_guardedBody (fixed : Bool) (cs : List Str) :
    Sends (fun s => s ∈ cs ∨ reloadVocab s ∨ s = confCmd ∨ s = endCmd) (guardedBody D fixed cs) := by
  unfold guardedBody
  refine sends_bind (sends_sendCmd D _ (by simp)) (fun _ => sends_finally ?_ (sends_sendCmd D _ (by simp)))
  exact (sends_changeLoop D fixed cs).mono (by
    intro s h; rcases h with h | h
    · exact .inl h
    · exact .inr (.inl h))

theorem sends_prepareDevice : Sends (fun s => s ∈ prepCmds) (prepareDevice D) := by
  unfold prepareDevice
  exact sends_forEach _ (fun c hc => sends_sendCmd D c hc)

theorem sends_writeMemRound : Sends (fun s => s = writeCmd ∨ s = []) (writeMemRound D) := by
  unfold writeMemRound
  refine sends_bind (sends_issueCmd D _ _ _ (by simp)) (fun out => ?_)
  refine sends_bind ?_ (fun o => ?_)
  · split
    · exact sends_bind (sends_send D _ (by simp)) (fun _ =>
        (silent_bind silent_getOutput (fun _ => silent_stripEcho _ _)).sends)
    · exact (silent_pure _).sends
  · split
    · exact (silent_pure _).sends
    · split
      · exact (silent_pure _).sends
      · exact (silent_abort _).sends

theorem sends_writeMem (n : Nat) : Sends (fun s => s = writeCmd ∨ s = []) (writeMem D n) := by
  induction n with
  | zero =>
    unfold writeMem
    refine sends_bind (sends_writeMemRound D) (fun r => ?_)
    cases r
    · exact (silent_pure _).sends
    · exact (silent_abort _).sends
  | succ n ih =>
    unfold writeMem
    refine sends_bind (sends_writeMemRound D) (fun r => ?_)
    cases r
    · exact (silent_pure _).sends
    · exact ih

end NA.Ios
