import NA.Proofs.C05Words
import NA.Proofs.C05Parse
import NA.Spec.LinuxOracle
/-!
C05 (round 3): `parseIPTables` on a whole file.  For an abstract rule set (tables → chains → grammar
rules) whose names are distinct words, the text of the rule set — in either spelling, with or
without the `[0:0]` counters — is parsed to an explicitly given value (`mkTables`).
-/
namespace NA.C05
open NA.Linux NA.Linux.Spec

/-! ### lines that `strings.TrimSpace` leaves alone -/

theorem getLast?_append_ne {α : Type} (a b : List α) (h : b ≠ []) : (a ++ b).getLast? = b.getLast? := by
  rw [List.getLast?_append]
  cases hb : b.getLast? with
  | none => exact absurd (List.getLast?_eq_none_iff.mp hb) h
  | some x => simp

theorem join_head_last : ∀ (ws : List Str), ws ≠ [] → (∀ x ∈ ws, Tok x) →
    (∀ c, (joinWith [' '] ws).head? = some c → isSpace c = false) ∧
    (∀ c, (joinWith [' '] ws).getLast? = some c → isSpace c = false) ∧ joinWith [' '] ws ≠ [] := by
  intro ws
  induction ws with
  | nil => intro h; exact absurd rfl h
  | cons x xs ih =>
    intro _ hall
    have hx := hall x (by simp)
    cases xs with
    | nil =>
      simp only [joinWith]
      refine ⟨fun c hc => hx.2 c (List.mem_of_mem_head? hc), fun c hc => hx.2 c (List.mem_of_getLast? hc), hx.1⟩
    | cons y ys =>
      obtain ⟨_, h2, h3⟩ := ih (by simp) (fun z hz => hall z (by simp [hz]))
      simp only [joinWith]
      refine ⟨?_, ?_, ?_⟩
      · intro c hc
        cases x with
        | nil => exact absurd rfl hx.1
        | cons a as =>
          simp only [List.cons_append, List.head?_cons, Option.some.injEq] at hc
          exact hx.2 c (by simp [hc])
      · intro c hc
        rw [getLast?_append_ne _ _ h3] at hc
        exact h2 c hc
      · intro e
        exact h3 (List.append_eq_nil_iff.mp e).2

theorem trimSpace_join (ws : List Str) (hne : ws ≠ []) (h : ∀ x ∈ ws, Tok x) :
    trimSpace (joinWith [' '] ws) = joinWith [' '] ws := by
  obtain ⟨h1, h2, _⟩ := join_head_last ws hne h
  exact trimSpace_id h1 h2

theorem trimSpace_cons_join (c : Char) (hc : isSpace c = false) (ws : List Str) (hne : ws ≠ [])
    (h : ∀ x ∈ ws, Tok x) : trimSpace (c :: joinWith [' '] ws) = c :: joinWith [' '] ws := by
  obtain ⟨_, h2, h3⟩ := join_head_last ws hne h
  apply trimSpace_id
  · intro d hd; simp at hd; rw [← hd]; exact hc
  · intro d hd
    rw [List.getLast?_cons_of_ne_nil h3] at hd
    exact h2 d hd

/-! ### association lists that grow at the end -/

theorem not_mem_keys_getA {β : Type} {k : Str} {m : List (Str × β)} (h : k ∉ keysA m) : getA k m = none := by
  cases hg : getA k m with
  | none => rfl
  | some v => exact absurd ((mem_keysA k m).mpr (by simp [hasA, hg])) h

theorem setA_new {β : Type} (k : Str) (v : β) (m : List (Str × β)) (h : k ∉ keysA m) :
    setA k v m = m ++ [(k, v)] := by
  induction m with
  | nil => rfl
  | cons x xs ih =>
    obtain ⟨k0, v0⟩ := x
    simp only [keysA, List.map_cons, List.mem_cons, not_or] at h
    have h0 : ¬ k0 = k := fun e => h.1 e.symm
    simp only [setA, h0, ↓reduceIte, List.cons_append]
    rw [ih (by simpa [keysA] using h.2)]

theorem setA_last {β : Type} (k : Str) (v w : β) (m : List (Str × β)) (h : k ∉ keysA m) :
    setA k w (m ++ [(k, v)]) = m ++ [(k, w)] := by
  induction m with
  | nil => simp [setA]
  | cons x xs ih =>
    obtain ⟨k0, v0⟩ := x
    simp only [keysA, List.map_cons, List.mem_cons, not_or] at h
    have h0 : ¬ k0 = k := fun e => h.1 e.symm
    simp only [List.cons_append, setA, h0, ↓reduceIte]
    rw [ih (by simpa [keysA] using h.2)]

theorem getA_last {β : Type} (k : Str) (v : β) (m : List (Str × β)) (h : k ∉ keysA m) :
    getA k (m ++ [(k, v)]) = some v := by
  induction m with
  | nil => simp [getA]
  | cons x xs ih =>
    obtain ⟨k0, v0⟩ := x
    simp only [keysA, List.map_cons, List.mem_cons, not_or] at h
    have h0 : ¬ k0 = k := fun e => h.1 e.symm
    simp only [List.cons_append, getA, h0, ↓reduceIte]
    exact ih (by simpa [keysA] using h.2)

/-- append a rule to the chain called `cn` -/
def appendRule (cm : Chains) (cn : Str) (ru : Rule) : Chains :=
  cm.map fun p => if p.1 = cn then (p.1, { p.2 with rules := p.2.rules ++ [ru] }) else p

theorem appendRule_keys (cm : Chains) (cn : Str) (ru : Rule) : keysA (appendRule cm cn ru) = keysA cm := by
  simp only [keysA, appendRule, List.map_map]
  apply List.map_congr_left
  intro p _
  simp only [Function.comp]
  split <;> rfl

theorem setA_appendRule (cm : Chains) (cn : Str) (ch : Chain) (ru : Rule) (hn : (keysA cm).Nodup)
    (hg : getA cn cm = some ch) :
    setA cn { ch with rules := ch.rules ++ [ru] } cm = appendRule cm cn ru := by
  induction cm with
  | nil => simp [getA] at hg
  | cons x xs ih =>
    obtain ⟨k0, v0⟩ := x
    simp only [keysA, List.map_cons, List.nodup_cons] at hn
    by_cases h0 : k0 = cn
    · subst h0
      simp only [getA, ↓reduceIte, Option.some.injEq] at hg
      subst hg
      have hrest : xs.map (fun p => if p.1 = k0 then (p.1, { p.2 with rules := p.2.rules ++ [ru] }) else p) = xs := by
        conv => rhs; rw [← List.map_id xs]
        apply List.map_congr_left
        intro p hp
        have : ¬ p.1 = k0 := fun e => hn.1 (by rw [← e]; exact List.mem_map_of_mem (f := fun x => x.fst) hp)
        simp [this]
      simp [setA, appendRule, hrest]
    · simp only [getA, h0, ↓reduceIte] at hg
      simp only [setA, h0, ↓reduceIte, appendRule, List.map_cons]
      have := ih (by simpa [keysA] using hn.2) hg
      simp only [appendRule] at this
      rw [this]

def addRules (cm : Chains) (l : List (Str × Rule)) : Chains := l.foldl (fun cm q => appendRule cm q.1 q.2) cm

theorem addRules_keys (cm : Chains) (l : List (Str × Rule)) : keysA (addRules cm l) = keysA cm := by
  induction l generalizing cm with
  | nil => rfl
  | cons q qs ih => simp only [addRules, List.foldl_cons] at ih ⊢; rw [ih, appendRule_keys]

theorem addRules_eq (cm : Chains) (l : List (Str × Rule)) :
    addRules cm l = cm.map fun p =>
      (p.1, { p.2 with rules := p.2.rules ++ (l.filter (fun q => q.1 = p.1)).map (·.2) }) := by
  induction l generalizing cm with
  | nil => simp [addRules]
  | cons q qs ih =>
    simp only [addRules, List.foldl_cons] at ih ⊢
    rw [ih, appendRule, List.map_map]
    apply List.map_congr_left
    intro p _
    simp only [Function.comp]
    by_cases h : p.1 = q.1
    · have h' : q.1 = p.1 := h.symm
      simp [h, List.filter_cons]
    · have h' : ¬ q.1 = p.1 := fun e => h e.symm
      simp [h, h', List.filter_cons]

theorem filter_flatMap_key {α β : Type} (key : α → Str) (pay : α → List β) :
    ∀ (items : List α) (x0 : α), (items.map key).Nodup → x0 ∈ items →
    ((items.flatMap fun x => (pay x).map fun y => (key x, y)).filter (fun p => p.1 = key x0)).map (·.2) = pay x0 := by
  intro items
  induction items with
  | nil => intro x0 _ h; simp at h
  | cons x xs ih =>
    intro x0 hnd hx0
    simp only [List.map_cons, List.nodup_cons] at hnd
    simp only [List.flatMap_cons, List.filter_append, List.map_append]
    rcases List.mem_cons.mp hx0 with e | hm
    · subst e
      have h1 : ((pay x0).map fun y => (key x0, y)).filter (fun p => p.1 = key x0) = (pay x0).map fun y => (key x0, y) := by
        apply List.filter_eq_self.mpr; intro p hp
        obtain ⟨y, _, hy⟩ := List.mem_map.mp hp
        simp [← hy]
      have h2 : (xs.flatMap fun x => (pay x).map fun y => (key x, y)).filter (fun p => p.1 = key x0) = [] := by
        apply List.filter_eq_nil_iff.mpr; intro p hp
        obtain ⟨z, hz, hp'⟩ := List.mem_flatMap.mp hp
        obtain ⟨y, _, hy⟩ := List.mem_map.mp hp'
        simp only [← hy, decide_eq_true_eq]
        intro e; exact hnd.1 (by rw [← e]; exact List.mem_map_of_mem hz)
      rw [h1, h2]
      simp only [List.map_map, List.map_nil, List.append_nil]
      conv => rhs; rw [← List.map_id (pay x0)]
      rfl
    · have hne : ¬ key x = key x0 := fun e => hnd.1 (by rw [e]; exact List.mem_map_of_mem hm)
      have h1 : ((pay x).map fun y => (key x, y)).filter (fun p => p.1 = key x0) = [] := by
        apply List.filter_eq_nil_iff.mpr; intro p hp
        obtain ⟨y, _, hy⟩ := List.mem_map.mp hp
        simp [← hy, hne]
      rw [h1, List.map_nil, List.nil_append]
      exact ih x0 hnd.2 hm

/-! ### single lines -/

/-- The spelling of a rule is readable: options the parser reads back, all words are words. -/
structure SpellOK (sp : ARule → List OptW) (r : ARule) : Prop where
  ok : ∀ o ∈ sp r, OptOK o
  tok : ∀ o ∈ sp r, ∀ w ∈ o.words, Tok w

def wordsOf (sp : ARule → List OptW) (r : ARule) : List Str := (sp r).flatMap OptW.words

/-- What the parser makes of one rule line. -/
def mkRule (sp : ARule → List OptW) (cn : Str) (r : ARule) : Rule :=
  { orig := ruleText cn (wordsOf sp r), pairs := normalize (pairsOf (sp r) []), app := false }

theorem ruleText_shape (cn : Str) (ws : List Str) :
    ruleText cn ws = '-' :: 'A' :: ' ' :: joinWith [' '] (cn :: ws) := by
  simp [ruleText, joinWith, s]

theorem ruleLine_toks (sp : ARule → List OptW) (cn : Str) (r : ARule) (hcn : Tok cn) (h : SpellOK sp r) :
    ∀ x ∈ s "-A" :: cn :: wordsOf sp r, Tok x := by
  intro x hx
  rcases List.mem_cons.mp hx with e | hx
  · rw [e]; decide
  · rcases List.mem_cons.mp hx with e | hx
    · rw [e]; exact hcn
    · obtain ⟨o, ho, hw⟩ := List.mem_flatMap.mp hx
      exact h.tok o ho x hw

theorem line_rule (sp : ARule → List OptW) (tb : Tables) (t cn : Str) (r : ARule) (ch : Chain)
    (hcn : Tok cn) (h : SpellOK sp r) (hg : getA cn ((getA t tb).getD []) = some ch) :
    parseIptLine { tb := tb, cur := some t, app := false } (trimSpace (ruleText cn (wordsOf sp r))) =
      .ok { tb := setA t (setA cn { ch with rules := ch.rules ++ [mkRule sp cn r] } ((getA t tb).getD [])) tb,
            cur := some t, app := false } := by
  have htoks := ruleLine_toks sp cn r hcn h
  have htrim : trimSpace (ruleText cn (wordsOf sp r)) = ruleText cn (wordsOf sp r) :=
    trimSpace_join _ (by simp) htoks
  have hf : fields (ruleText cn (wordsOf sp r)) = s "-A" :: cn :: wordsOf sp r := fields_join _ htoks
  have hp : parsePairs (wordsOf sp r) = some (pairsOf (sp r) []) := parsePairs_words _ h.ok
  rw [htrim]
  have hshape := ruleText_shape cn (wordsOf sp r)
  generalize hline : ruleText cn (wordsOf sp r) = line at hshape hf
  subst hshape
  simp only [parseIptLine, hf, ne_eq, not_true_eq_false, ↓reduceIte, hg, hp, mkRule, hline]

theorem line_chain (tb : Tables) (t cn pol : Str) (sfx : List Str) (hcn : Tok cn) (hpol : Tok pol)
    (hsfx : ∀ x ∈ sfx, Tok x) (hnew : cn ∉ keysA ((getA t tb).getD [])) :
    parseIptLine { tb := tb, cur := some t, app := false } (trimSpace (':' :: joinWith [' '] (cn :: pol :: sfx))) =
      .ok { tb := setA t (setA cn { policy := pol } ((getA t tb).getD [])) tb, cur := some t, app := false } := by
  have htoks : ∀ x ∈ cn :: pol :: sfx, Tok x := by
    intro x hx
    rcases List.mem_cons.mp hx with e | hx
    · rw [e]; exact hcn
    · rcases List.mem_cons.mp hx with e | hx
      · rw [e]; exact hpol
      · exact hsfx x hx
  rw [trimSpace_cons_join ':' rfl _ (by simp) htoks]
  have hh : hasA cn ((getA t tb).getD []) = false := by
    cases h : hasA cn ((getA t tb).getD []) with
    | false => rfl
    | true => exact absurd ((mem_keysA _ _).mpr h) hnew
  simp only [parseIptLine, fields_join _ htoks, hh, Bool.false_eq_true, ↓reduceIte]

theorem line_table (st : PState) (name : Str) (hn : Tok name) (hnew : name ∉ keysA st.tb) :
    parseIptLine st (trimSpace ('*' :: name)) = .ok { tb := setA name [] st.tb, cur := some name, app := false } := by
  have : trimSpace ('*' :: name) = '*' :: name := by
    have := trimSpace_cons_join '*' rfl [name] (by simp) (by intro x hx; simp at hx; rw [hx]; exact hn)
    simpa [joinWith] using this
  have hh : hasA name st.tb = false := by
    cases h : hasA name st.tb with
    | false => rfl
    | true => exact absurd ((mem_keysA _ _).mpr h) hnew
  rw [this]
  simp only [parseIptLine, hh, Bool.false_eq_true, ↓reduceIte]

theorem line_commit (st : PState) : parseIptLine st (trimSpace (s "COMMIT")) = .ok st := by
  have : trimSpace (s "COMMIT") = s "COMMIT" := by decide
  rw [this]; rfl

/-- Lines the parser skips: comment lines of iptables-save and blank lines. -/
def Ignorable (x : Str) : Prop := (∃ r, trimSpace x = '#' :: r) ∨ trimSpace x = []

theorem line_comment (st : PState) (x : Str) (h : Ignorable x) : parseIptLine st (trimSpace x) = .ok st := by
  rcases h with ⟨r, hr⟩ | hr
  · rw [hr]; rfl
  · rw [hr]; rfl

/-! ### a table block, a file -/

theorem aux_cons_ok {l : Str} {ls : List Str} {st st' : PState} (h : parseIptLine st (trimSpace l) = .ok st') :
    parseIPTablesAux (l :: ls) st = parseIPTablesAux ls st' := by
  simp [parseIPTablesAux, h, bind, Except.bind]

def chainLine (sfx : List Str) (c : AChain) : Str := ':' :: joinWith [' '] (c.name :: c.policy :: sfx)

def declOf (c : AChain) : Str × Chain := (c.name, { policy := c.policy })

/-- the chain declarations of a block -/
theorem block_decls (sfx : List Str) (hsfx : ∀ x ∈ sfx, Tok x) (done : Tables) (name : Str)
    (hname : name ∉ keysA done) : ∀ (cs : List AChain) (cm : Chains) (rest : List Str),
    (∀ c ∈ cs, Tok c.name ∧ Tok c.policy) → (cs.map (·.name)).Nodup → (∀ c ∈ cs, c.name ∉ keysA cm) →
    parseIPTablesAux (cs.map (chainLine sfx) ++ rest) { tb := done ++ [(name, cm)], cur := some name, app := false } =
      parseIPTablesAux rest { tb := done ++ [(name, cm ++ cs.map declOf)], cur := some name, app := false } := by
  intro cs
  induction cs with
  | nil => intro cm rest _ _ _; simp
  | cons c cs ih =>
    intro cm rest htok hnd hdis
    simp only [List.map_cons, List.nodup_cons] at hnd
    have hc := htok c (by simp)
    have hl := line_chain (done ++ [(name, cm)]) name c.name c.policy sfx hc.1 hc.2 hsfx (by
      rw [getA_last name cm done hname, Option.getD_some]; exact hdis c (by simp))
    rw [getA_last name cm done hname, Option.getD_some, setA_last name _ _ done hname,
      setA_new c.name _ cm (hdis c (by simp))] at hl
    have hl' : parseIptLine { tb := done ++ [(name, cm)], cur := some name, app := false }
        (trimSpace (chainLine sfx c)) = _ := hl
    rw [List.map_cons, List.cons_append, aux_cons_ok hl', ih _ rest (fun x hx => htok x (by simp [hx])) hnd.2 (by
      intro x hx
      simp only [keysA, List.map_append, List.map_cons, List.map_nil, List.mem_append, List.mem_singleton, not_or]
      exact ⟨hdis x (by simp [hx]), fun e => hnd.1 (by rw [← e]; exact List.mem_map_of_mem hx)⟩)]
    simp [declOf]

/-- the rule lines of a block -/
theorem block_rules (sp : ARule → List OptW) (done : Tables) (name : Str) (hname : name ∉ keysA done) :
    ∀ (rs : List (Str × ARule)) (cm : Chains) (rest : List Str), (keysA cm).Nodup →
    (∀ p ∈ rs, Tok p.1 ∧ p.1 ∈ keysA cm ∧ SpellOK sp p.2) →
    parseIPTablesAux (rs.map (fun p => ruleText p.1 (wordsOf sp p.2)) ++ rest)
        { tb := done ++ [(name, cm)], cur := some name, app := false } =
      parseIPTablesAux rest
        { tb := done ++ [(name, addRules cm (rs.map fun p => (p.1, mkRule sp p.1 p.2)))], cur := some name, app := false } := by
  intro rs
  induction rs with
  | nil => intro cm rest _ _; simp [addRules]
  | cons p rs ih =>
    intro cm rest hnd hall
    obtain ⟨h1, h2, h3⟩ := hall p (by simp)
    obtain ⟨ch, hch⟩ := (hasA_iff p.1 cm).mp ((mem_keysA p.1 cm).mp h2)
    have hl := line_rule sp (done ++ [(name, cm)]) name p.1 p.2 ch h1 h3 (by
      rw [getA_last name cm done hname]; exact hch)
    rw [getA_last name cm done hname, Option.getD_some, setA_last name _ _ done hname,
      setA_appendRule cm p.1 ch _ hnd hch] at hl
    rw [List.map_cons, List.cons_append, aux_cons_ok hl,
      ih _ rest (by rw [appendRule_keys]; exact hnd) (by
        intro q hq; rw [appendRule_keys]; exact hall q (by simp [hq]))]
    simp [addRules]

/-- The chains of a table as the parser builds them. -/
def mkChains (sp : ARule → List OptW) (tbl : ATable) : Chains :=
  tbl.chains.map fun c => (c.name, { policy := c.policy, rules := c.rules.map (mkRule sp c.name) })

def mkTables (sp : ARule → List OptW) (a : AState) : Tables := a.map fun tbl => (tbl.name, mkChains sp tbl)

/-- The lines of one table. -/
def blockLines (sfx : List Str) (sp : ARule → List OptW) (tbl : ATable) : List Str :=
  ['*' :: tbl.name] ++ tbl.chains.map (chainLine sfx) ++
  (tbl.chains.flatMap fun c => c.rules.map fun r => ruleText c.name (wordsOf sp r)) ++ [s "COMMIT"]

/-- Names are distinct words, rules are readable. -/
structure TableOK (sp : ARule → List OptW) (tbl : ATable) : Prop where
  name : Tok tbl.name
  chains : ∀ c ∈ tbl.chains, Tok c.name ∧ Tok c.policy
  nodup : (tbl.chains.map (·.name)).Nodup
  rules : ∀ c ∈ tbl.chains, ∀ r ∈ c.rules, SpellOK sp r

theorem rules_of_chain (sp : ARule → List OptW) (tbl : ATable) (h : TableOK sp tbl) :
    addRules (tbl.chains.map declOf)
      ((tbl.chains.flatMap fun c => c.rules.map fun r => (c.name, r)).map fun p => (p.1, mkRule sp p.1 p.2)) =
    mkChains sp tbl := by
  rw [addRules_eq, mkChains, List.map_map]
  apply List.map_congr_left
  intro c hc
  simp only [Function.comp, declOf, List.nil_append]
  have e : ∀ cs : List AChain,
      ((cs.flatMap fun c => c.rules.map fun r => (c.name, r)).map fun p => (p.1, mkRule sp p.1 p.2)) =
      cs.flatMap fun x => (x.rules.map (mkRule sp x.name)).map fun y => (x.name, y) := by
    intro cs
    induction cs with
    | nil => rfl
    | cons x xs ih => simp only [List.flatMap_cons, List.map_append, ih, List.map_map]; rfl
  have hf := filter_flatMap_key (fun x : AChain => x.name) (fun x => x.rules.map (mkRule sp x.name)) _ c h.nodup hc
  rw [e]
  exact congrArg (fun l => (c.name, ({ policy := c.policy, rules := l } : Chain))) hf

theorem block_ok (sfx : List Str) (hsfx : ∀ x ∈ sfx, Tok x) (sp : ARule → List OptW) (tbl : ATable)
    (h : TableOK sp tbl) (done : Tables) (hname : tbl.name ∉ keysA done) (c0 : Option Str) (a0 : Bool)
    (rest : List Str) :
    parseIPTablesAux (blockLines sfx sp tbl ++ rest) { tb := done, cur := c0, app := a0 } =
      parseIPTablesAux rest { tb := done ++ [(tbl.name, mkChains sp tbl)], cur := some tbl.name, app := false } := by
  have hrl : (tbl.chains.flatMap fun c => c.rules.map fun r => ruleText c.name (wordsOf sp r)) =
      (tbl.chains.flatMap fun c => c.rules.map fun r => (c.name, r)).map (fun p => ruleText p.1 (wordsOf sp p.2)) := by
    generalize tbl.chains = cs
    induction cs with
    | nil => rfl
    | cons x xs ih => simp only [List.flatMap_cons, List.map_append, ih, List.map_map]; rfl
  unfold blockLines
  rw [hrl]
  simp only [List.append_assoc, List.singleton_append, List.cons_append, List.nil_append]
  have hl := line_table { tb := done, cur := c0, app := a0 } tbl.name h.name hname
  rw [aux_cons_ok hl]
  simp only
  rw [setA_new tbl.name [] done hname,
    block_decls sfx hsfx done tbl.name hname tbl.chains [] _ h.chains h.nodup (by intro c _; simp [keysA])]
  simp only [List.nil_append]
  rw [block_rules sp done tbl.name hname _ _ _ (by
      simpa [keysA, declOf, List.map_map, Function.comp_def] using h.nodup) (by
      intro p hp
      obtain ⟨c, hc, hp'⟩ := List.mem_flatMap.mp hp
      obtain ⟨r, hr, e⟩ := List.mem_map.mp hp'
      subst e
      refine ⟨(h.chains c hc).1, ?_, h.rules c hc r hr⟩
      simp only [keysA, List.map_map, List.mem_map, Function.comp, declOf]
      exact ⟨c, hc, rfl⟩)]
  rw [aux_cons_ok (line_commit _), rules_of_chain sp tbl h]

/-- A whole rule set. -/
structure StateOK (sp : ARule → List OptW) (a : AState) : Prop where
  tables : ∀ tbl ∈ a, TableOK sp tbl
  nodup : (a.map (·.name)).Nodup

theorem file_ok (sfx : List Str) (hsfx : ∀ x ∈ sfx, Tok x) (sp : ARule → List OptW) :
    ∀ (a : AState) (done : Tables) (c0 : Option Str) (rest : List Str), StateOK sp a →
    (∀ tbl ∈ a, tbl.name ∉ keysA done) →
    ∃ c', parseIPTablesAux (a.flatMap (blockLines sfx sp) ++ rest) { tb := done, cur := c0, app := false } =
      parseIPTablesAux rest { tb := done ++ mkTables sp a, cur := c', app := false } := by
  intro a
  induction a with
  | nil => intro done c0 rest _ _; exact ⟨c0, by simp [mkTables]⟩
  | cons tbl ts ih =>
    intro done c0 rest hok hdis
    have hnd := hok.nodup
    simp only [List.map_cons, List.nodup_cons] at hnd
    obtain ⟨c', hc'⟩ := ih (done ++ [(tbl.name, mkChains sp tbl)]) (some tbl.name) rest
      ⟨fun x hx => hok.tables x (by simp [hx]), hnd.2⟩ (by
        intro x hx
        simp only [keysA, List.map_append, List.map_cons, List.map_nil, List.mem_append, List.mem_singleton, not_or]
        exact ⟨hdis x (by simp [hx]), fun e => hnd.1 (by rw [← e]; exact List.mem_map_of_mem hx)⟩)
    refine ⟨c', ?_⟩
    rw [List.flatMap_cons, List.append_assoc,
      block_ok sfx hsfx sp tbl (hok.tables tbl (by simp)) done (hdis tbl (by simp)) c0 false, hc']
    simp [mkTables]

/-- The parser on the text of a whole rule set, with any comment lines in front and behind. -/
theorem parse_file (sfx : List Str) (hsfx : ∀ x ∈ sfx, Tok x) (sp : ARule → List OptW) (a : AState)
    (h : StateOK sp a) (pre post : List Str) (hpre : ∀ x ∈ pre, Ignorable x)
    (hpost : ∀ x ∈ post, Ignorable x) :
    parseIPTables (pre ++ a.flatMap (blockLines sfx sp) ++ post) = .ok (mkTables sp a) := by
  have hcom : ∀ (l : List Str) (st : PState) (rest : List Str), (∀ x ∈ l, Ignorable x) →
      parseIPTablesAux (l ++ rest) st = parseIPTablesAux rest st := by
    intro l
    induction l with
    | nil => intro st rest _; rfl
    | cons x xs ih =>
      intro st rest hx
      rw [List.cons_append, aux_cons_ok (line_comment st x (hx x (by simp))), ih st rest (fun y hy => hx y (by simp [hy]))]
  obtain ⟨c', hc'⟩ := file_ok sfx hsfx sp a [] none post h (by intro _ _; simp [keysA])
  unfold parseIPTables
  rw [List.append_assoc, hcom pre _ _ hpre, hc']
  have := hcom post { tb := [] ++ mkTables sp a, cur := c', app := false } [] hpost
  rw [List.append_nil] at this
  rw [this]
  simp [parseIPTablesAux, bind, Except.bind, pure, Except.pure]

end NA.C05
