import NA.Proofs.F2Quiet
import NA.Proofs.F1Names
/-!
# F2: bookkeeping of names — which target ACL carries which device name

A state-only invariant `NInv` of the marks machine (no device involved), proved along `diffIntfs`:
the name function `nameOf` is injective on the `ready` target ACLs; a `ready` target ACL is bound by a
target interface; its name is either an adopted device ACL (then `needed`, not protected) or the
generated name; every `needed` device ACL is protected from the start or adopted; every ACL created
by a decision is the name of a `ready` target ACL.  Used for the second compare
(`F2Again.lean`).
-/
namespace NA.F2
open NA.IosDev2
open NA.F1 (genName lookupD addSet sortS isTagged diffUnordered slice lastIdx)
open NA.Acl (Range)

/-- `bN` is referenced by a target interface. -/
def BoundB (e : Env) (bN : Name) : Prop := ∃ bi ∈ e.b.intfs, ∃ bd ∈ bi.binds, bd.acl = bN

def NamedAct : MA → Prop
  | .transfer _ _ => True
  | .edit _ _ _ _ => True
  | _ => False

structure NInv (e : Env) (P : List Name) (st : St) : Prop where
  inj : ∀ b1 ∈ st.aReady, ∀ b2 ∈ st.aReady, st.nameOf b1 = st.nameOf b2 → b1 = b2
  bound : ∀ bN ∈ st.aReady, e.b.hasAcl bN = true ∧ BoundB e bN
  kind : ∀ bN ∈ st.aReady,
    (e.a.hasAcl (st.nameOf bN) = true ∧ st.nameOf bN ∈ st.aNeeded ∧ st.nameOf bN ∉ P) ∨
      st.nameOf bN = genName bN (e.a.acls.map (·.1))
  fresh : ∀ bN, e.b.hasAcl bN = true → bN ∉ st.aReady → st.nameOf bN = genName bN (e.a.acls.map (·.1))
  needed : ∀ n ∈ st.aNeeded, n ∈ P ∨ ∃ bN ∈ st.aReady, n = st.nameOf bN
  pNeeded : ∀ n ∈ P, n ∈ st.aNeeded
  acts : ∀ act ∈ st.acts, (∀ n ls, act = .transfer n ls → ∃ bN ∈ st.aReady, n = st.nameOf bN) ∧
    (∀ aN al bl rs, act = .edit aN al bl rs → e.a.hasAcl aN = true)
  noRoute : ∀ act ∈ st.acts, isRouteAct act = false

/-- A step that changes neither `ready`, names nor `needed` and adds only decisions that create no ACL. -/
theorem ninv_same {e : Env} {P : List Name} {st st' : St} (h : NInv e P st)
    (h1 : st'.aReady = st.aReady) (h2 : st'.aName = st.aName) (h3 : st'.aNeeded = st.aNeeded)
    (h4 : ∀ act ∈ st'.acts, act ∈ st.acts ∨ (¬ NamedAct act ∧ isRouteAct act = false)) : NInv e P st' := by
  have hn : ∀ x, st'.nameOf x = st.nameOf x := fun x => by simp [St.nameOf, h2]
  constructor
  · intro b1 hb1 b2 hb2 hh
    rw [h1] at hb1 hb2; rw [hn, hn] at hh
    exact h.inj b1 hb1 b2 hb2 hh
  · intro bN hbN; rw [h1] at hbN; exact h.bound bN hbN
  · intro bN hbN; rw [h1] at hbN; rw [hn, h3]; exact h.kind bN hbN
  · intro bN hb hbN; rw [h1] at hbN; rw [hn]; exact h.fresh bN hb hbN
  · intro n hnn; rw [h3] at hnn
    rcases h.needed n hnn with k | ⟨bN, k1, k2⟩
    · exact Or.inl k
    · exact Or.inr ⟨bN, by rw [h1]; exact k1, by rw [hn]; exact k2⟩
  · intro n hnn; rw [h3]; exact h.pNeeded n hnn
  · intro act hact
    rcases h4 act hact with k | k
    · obtain ⟨k1, k2⟩ := h.acts act k
      refine ⟨?_, k2⟩
      intro n ls hh
      obtain ⟨bN, j1, j2⟩ := k1 n ls hh
      exact ⟨bN, by rw [h1]; exact j1, by rw [hn]; exact j2⟩
    · refine ⟨?_, ?_⟩
      · intro n ls hh; rw [hh] at k; exact absurd trivial k.1
      · intro aN al bl rs hh; rw [hh] at k; exact absurd trivial k.1
  · intro act hact
    rcases h4 act hact with k | k
    · exact h.noRoute act k
    · exact k.2

theorem ninv_hit {e : Env} {P : List Name} {st : St} (h : NInv e P st) (s : String) : NInv e P (st.hit s) :=
  ninv_same h rfl rfl rfl (fun _ ha => Or.inl ha)

theorem mem_act {st : St} {a act : MA} (h : act ∈ (st.act a).acts) : act ∈ st.acts ∨ act = a := by
  have : act ∈ st.acts ++ [a] := h
  rcases List.mem_append.mp this with k | k
  · exact Or.inl k
  · exact Or.inr (by simpa using k)

/-- `addCmds` of a whole target ACL. -/
theorem ninv_transfer {e : Env} {P : List Name} {st : St} (h : NInv e P st) (bN : Name)
    (hb : e.b.hasAcl bN = true) (hbd : BoundB e bN) :
    NInv e P (transferAcl e st bN) ∧ (transferAcl e st bN).iNeeded = st.iNeeded ∧
      (∀ x ∈ st.aReady, x ∈ (transferAcl e st bN).aReady) ∧ bN ∈ (transferAcl e st bN).aReady := by
  unfold transferAcl
  by_cases hr : st.aReady.contains bN = true
  · rw [if_pos hr]
    exact ⟨h, rfl, fun x hx => hx, by simpa using hr⟩
  · rw [if_neg hr]
    have hnr : bN ∉ st.aReady := by simpa using hr
    refine ⟨?_, rfl, fun x hx => List.mem_cons_of_mem _ hx, List.mem_cons_self ..⟩
    obtain ⟨st', hst'⟩ : ∃ st' : St,
      st' = (({ st with aReady := bN :: st.aReady } : St).act (.transfer (st.nameOf bN) (e.b.lines bN))).hit "acl:transfer" := ⟨_, rfl⟩
    rw [← hst']
    have f1 : st'.aReady = bN :: st.aReady := by rw [hst']; rfl
    have f2 : st'.aName = st.aName := by rw [hst']; rfl
    have f3 : st'.aNeeded = st.aNeeded := by rw [hst']; rfl
    have f4 : st'.acts = st.acts ++ [.transfer (st.nameOf bN) (e.b.lines bN)] := by rw [hst']; rfl
    have hn : ∀ x, st'.nameOf x = st.nameOf x := fun x => by simp [St.nameOf, f2]
    have hfr := h.fresh bN hb hnr
    -- the new name differs from the name of every `ready` ACL
    have hdiff : ∀ b2 ∈ st.aReady, st.nameOf bN ≠ st.nameOf b2 := by
      intro b2 hb2 hc
      rcases h.kind b2 hb2 with ⟨k1, _, _⟩ | k
      · rw [← hc, hfr, genName_not_hasAcl] at k1; cases k1
      · rw [hfr, k] at hc
        exact hnr (NA.F1.genName_injective hc ▸ hb2)
    constructor
    · intro b1 hb1 b2 hb2 hh
      rw [f1] at hb1 hb2; rw [hn, hn] at hh
      rcases List.mem_cons.mp hb1 with rfl | hb1'
      · rcases List.mem_cons.mp hb2 with rfl | hb2'
        · rfl
        · exact absurd hh (hdiff b2 hb2')
      · rcases List.mem_cons.mp hb2 with rfl | hb2'
        · exact absurd hh.symm (hdiff b1 hb1')
        · exact h.inj b1 hb1' b2 hb2' hh
    · intro x hx; rw [f1] at hx
      rcases List.mem_cons.mp hx with rfl | hx'
      · exact ⟨hb, hbd⟩
      · exact h.bound x hx'
    · intro x hx; rw [f1] at hx; rw [hn, f3]
      rcases List.mem_cons.mp hx with rfl | hx'
      · exact Or.inr hfr
      · exact h.kind x hx'
    · intro x hxb hx; rw [f1] at hx; rw [hn]
      exact h.fresh x hxb (fun hc => hx (List.mem_cons_of_mem _ hc))
    · intro n hnn; rw [f3] at hnn
      rcases h.needed n hnn with k | ⟨b2, k1, k2⟩
      · exact Or.inl k
      · exact Or.inr ⟨b2, by rw [f1]; exact List.mem_cons_of_mem _ k1, by rw [hn]; exact k2⟩
    · intro n hnn; rw [f3]; exact h.pNeeded n hnn
    · intro act hact
      rw [f4] at hact
      rcases List.mem_append.mp hact with k | k
      · obtain ⟨k1, k2⟩ := h.acts act k
        refine ⟨?_, k2⟩
        intro n ls hh
        obtain ⟨b2, j1, j2⟩ := k1 n ls hh
        exact ⟨b2, by rw [f1]; exact List.mem_cons_of_mem _ j1, by rw [hn]; exact j2⟩
      · simp only [List.mem_singleton] at k
        refine ⟨?_, ?_⟩
        · intro n ls hh
          rw [k] at hh
          injection hh with h1 _
          exact ⟨bN, by rw [f1]; exact List.mem_cons_self .., by rw [hn]; exact h1.symm⟩
        · intro aN al bl rs hh; rw [k] at hh; cases hh
    · intro act hact
      rw [f4] at hact
      rcases List.mem_append.mp hact with k | k
      · exact h.noRoute act k
      · simp only [List.mem_singleton] at k
        rw [k]; rfl

/-- `diffCmds` for two ACL objects. -/
theorem ninv_diffAcl {e : Env} {P : List Name} {st : St} (h : NInv e P st) (aN bN : Name)
    (ha : e.a.hasAcl aN = true) (hb : e.b.hasAcl bN = true) (hbd : BoundB e bN) :
    NInv e P (diffAcl e st aN bN).1 ∧ (diffAcl e st aN bN).1.iNeeded = st.iNeeded ∧
      (∀ x ∈ st.aReady, x ∈ (diffAcl e st aN bN).1.aReady) ∧ bN ∈ (diffAcl e st aN bN).1.aReady := by
  unfold diffAcl
  by_cases hn : st.aNeeded.contains aN = true
  · simp only [hn, ↓reduceIte]
    exact ninv_transfer (ninv_hit h _) bN hb hbd
  · simp only [hn, Bool.false_eq_true, ↓reduceIte]
    have hnn : aN ∉ st.aNeeded := by simpa using hn
    by_cases hr : st.aReady.contains bN = true
    · simp only [hr, ↓reduceIte]
      have hmem : bN ∈ st.aReady := by simpa using hr
      exact ⟨ninv_hit h _, rfl, fun x hx => hx, hmem⟩
    · simp only [hr, Bool.false_eq_true, ↓reduceIte]
      have hnr : bN ∉ st.aReady := by simpa using hr
      obtain ⟨st', hst'⟩ : ∃ st' : St, st' = diffLines e (adoptSt st aN bN) aN bN := ⟨_, rfl⟩
      rw [← hst']
      have hfields : st'.aNeeded = aN :: st.aNeeded ∧ st'.aName = (bN, aN) :: st.aName ∧
          st'.aReady = bN :: st.aReady ∧ st'.iNeeded = st.iNeeded ∧
          (∀ act ∈ st'.acts, act ∈ st.acts ∨ ∃ al bl rs, act = .edit aN al bl rs) := by
        rw [hst']
        unfold diffLines
        simp only
        split
        · exact ⟨rfl, rfl, rfl, rfl, fun act hact => Or.inl hact⟩
        · refine ⟨rfl, rfl, rfl, rfl, ?_⟩
          intro act hact
          rcases mem_act hact with k | k
          · exact Or.inl k
          · exact Or.inr ⟨_, _, _, k⟩
      obtain ⟨f1, f2, f3, f5, f4⟩ := hfields
      have hname_b : st'.nameOf bN = aN := by simp [St.nameOf, f2]
      have hname_o : ∀ y, y ≠ bN → st'.nameOf y = st.nameOf y := by
        intro y hy
        have : (y == bN) = false := by simpa using hy
        simp [St.nameOf, f2, List.lookup, this]
      have hne : ∀ y ∈ st.aReady, y ≠ bN := fun y hy hc => hnr (hc ▸ hy)
      -- no `ready` ACL has the name `aN`
      have hdiff : ∀ b2 ∈ st.aReady, st.nameOf b2 ≠ aN := by
        intro b2 hb2 hc
        rcases h.kind b2 hb2 with ⟨_, k2, _⟩ | k
        · rw [hc] at k2; exact hnn k2
        · rw [k] at hc
          have := genName_not_hasAcl e.a b2
          rw [hc, ha] at this; cases this
      refine ⟨?_, f5, fun x hx => by rw [f3]; exact List.mem_cons_of_mem _ hx, by rw [f3]; exact List.mem_cons_self ..⟩
      constructor
      · intro b1 hb1 b2 hb2 hh
        rw [f3] at hb1 hb2
        rcases List.mem_cons.mp hb1 with rfl | hb1'
        · rcases List.mem_cons.mp hb2 with rfl | hb2'
          · rfl
          · rw [hname_b, hname_o b2 (hne b2 hb2')] at hh
            exact absurd hh.symm (hdiff b2 hb2')
        · rcases List.mem_cons.mp hb2 with rfl | hb2'
          · rw [hname_b, hname_o b1 (hne b1 hb1')] at hh
            exact absurd hh (hdiff b1 hb1')
          · rw [hname_o b1 (hne b1 hb1'), hname_o b2 (hne b2 hb2')] at hh
            exact h.inj b1 hb1' b2 hb2' hh
      · intro x hx; rw [f3] at hx
        rcases List.mem_cons.mp hx with rfl | hx'
        · exact ⟨hb, hbd⟩
        · exact h.bound x hx'
      · intro x hx; rw [f3] at hx
        rcases List.mem_cons.mp hx with rfl | hx'
        · left
          rw [hname_b]
          exact ⟨ha, by rw [f1]; exact List.mem_cons_self .., fun hc => hnn (h.pNeeded _ hc)⟩
        · rw [hname_o x (hne x hx'), f1]
          rcases h.kind x hx' with ⟨k1, k2, k3⟩ | k
          · exact Or.inl ⟨k1, List.mem_cons_of_mem _ k2, k3⟩
          · exact Or.inr k
      · intro x hxb hx; rw [f3] at hx
        have hx1 : x ≠ bN := fun hc => hx (hc ▸ List.mem_cons_self ..)
        rw [hname_o x hx1]
        exact h.fresh x hxb (fun hc => hx (List.mem_cons_of_mem _ hc))
      · intro n hn'; rw [f1] at hn'
        rcases List.mem_cons.mp hn' with rfl | hn''
        · exact Or.inr ⟨bN, by rw [f3]; exact List.mem_cons_self .., hname_b.symm⟩
        · rcases h.needed n hn'' with k | ⟨b2, k1, k2⟩
          · exact Or.inl k
          · exact Or.inr ⟨b2, by rw [f3]; exact List.mem_cons_of_mem _ k1, by rw [hname_o b2 (hne b2 k1)]; exact k2⟩
      · intro n hn'; rw [f1]; exact List.mem_cons_of_mem _ (h.pNeeded n hn')
      · intro act hact
        rcases f4 act hact with k | ⟨al, bl, rs, k⟩
        · obtain ⟨k1, k2⟩ := h.acts act k
          refine ⟨?_, k2⟩
          intro n ls hh
          obtain ⟨b2, j1, j2⟩ := k1 n ls hh
          exact ⟨b2, by rw [f3]; exact List.mem_cons_of_mem _ j1, by rw [hname_o b2 (hne b2 j1)]; exact j2⟩
        · refine ⟨?_, ?_⟩
          · intro n ls hh; rw [k] at hh; cases hh
          · intro aN' al' bl' rs' hh
            rw [k] at hh
            injection hh with h1 _ _ _
            rw [← h1]; exact ha
      · intro act hact
        rcases f4 act hact with k | ⟨al, bl, rs, k⟩
        · exact h.noRoute act k
        · rw [k]; rfl

theorem ninv_delBind1 {e : Env} {P : List Name} {st : St} (h : NInv e P st) (i : Nat) (x : String) (al : List Bind) (k : Nat) :
    NInv e P (delBind1 e i x al st k) ∧ (delBind1 e i x al st k).iNeeded = st.iNeeded ∧
      (delBind1 e i x al st k).aReady = st.aReady := by
  unfold delBind1
  simp only
  obtain ⟨st1, hst1⟩ : ∃ st1 : St, st1 = (if st.bNeeded.contains (i, k) = true then st else
      (({ st with bNeeded := (i, k) :: st.bNeeded } : St).act
        (.unbind x (al.getD k default).acl (al.getD k default).dir)).hit "bind:del") := ⟨_, rfl⟩
  rw [← hst1]
  have h1 : NInv e P st1 ∧ st1.iNeeded = st.iNeeded ∧ st1.aReady = st.aReady := by
    rw [hst1]
    split
    · exact ⟨h, rfl, rfl⟩
    · refine ⟨ninv_same h rfl rfl rfl ?_, rfl, rfl⟩
      intro act hact
      rcases mem_act (st := ({ st with bNeeded := (i, k) :: st.bNeeded } : St)) hact with j | j
      · exact Or.inl j
      · right; rw [j]; exact ⟨fun hc => hc, rfl⟩
  split
  · exact ⟨ninv_same h1.1 rfl rfl rfl (fun _ ha => Or.inl ha), h1.2.1, h1.2.2⟩
  · exact h1

theorem ninv_delBinds {e : Env} {P : List Name} (i : Nat) (x : String) (al : List Bind) (ks : List Nat)
    {st : St} (h : NInv e P st) :
    NInv e P (ks.foldl (delBind1 e i x al) st) ∧ (ks.foldl (delBind1 e i x al) st).iNeeded = st.iNeeded ∧
      (ks.foldl (delBind1 e i x al) st).aReady = st.aReady := by
  induction ks generalizing st with
  | nil => exact ⟨h, rfl, rfl⟩
  | cons k ks ih =>
    obtain ⟨k1, k2, k3⟩ := ninv_delBind1 h i x al k
    obtain ⟨j1, j2, j3⟩ := ih k1
    simp only [List.foldl_cons]
    exact ⟨j1, by rw [j2, k2], by rw [j3, k3]⟩

theorem ninv_addBind1 {e : Env} {P : List Name} {st : St} (h : NInv e P st) (x : String) (b : Bind)
    (hbd : BoundB e b.acl) :
    NInv e P (addBind1 e x st b) ∧ (addBind1 e x st b).iNeeded = st.iNeeded ∧
      (∀ y ∈ st.aReady, y ∈ (addBind1 e x st b).aReady) := by
  unfold addBind1
  by_cases hb : e.b.hasAcl b.acl = true
  · simp only [hb, ↓reduceIte]
    obtain ⟨k1, k2, k3, _⟩ := ninv_transfer h b.acl hb hbd
    refine ⟨ninv_same k1 rfl rfl rfl ?_, k2, k3⟩
    intro act hact
    rcases mem_act hact with j | j
    · exact Or.inl j
    · right; rw [j]; exact ⟨fun hc => hc, rfl⟩
  · simp only [hb, Bool.false_eq_true, ↓reduceIte]
    refine ⟨ninv_same h rfl rfl rfl ?_, rfl, fun y hy => hy⟩
    intro act hact
    rcases mem_act hact with j | j
    · exact Or.inl j
    · right; rw [j]; exact ⟨fun hc => hc, rfl⟩

theorem ninv_addBinds {e : Env} {P : List Name} (x : String) (bs : List Bind) (hbs : ∀ b ∈ bs, BoundB e b.acl)
    {st : St} (h : NInv e P st) :
    NInv e P (bs.foldl (addBind1 e x) st) ∧ (bs.foldl (addBind1 e x) st).iNeeded = st.iNeeded ∧
      (∀ y ∈ st.aReady, y ∈ (bs.foldl (addBind1 e x) st).aReady) := by
  induction bs generalizing st with
  | nil => exact ⟨h, rfl, fun y hy => hy⟩
  | cons b bs ih =>
    obtain ⟨k1, k2, k3⟩ := ninv_addBind1 h x b (hbs b (List.mem_cons_self ..))
    obtain ⟨j1, j2, j3⟩ := ih (fun b' hb' => hbs b' (List.mem_cons_of_mem _ hb')) k1
    simp only [List.foldl_cons]
    exact ⟨j1, by rw [j2, k2], fun y hy => j3 y (k3 y hy)⟩

theorem ninv_makeEqualBind {e : Env} {P : List Name} {st : St} (h : NInv e P st) (i k : Nat) (x : String) (a b : Bind)
    (hbd : BoundB e b.acl) :
    NInv e P (makeEqualBind e st i k x a b) ∧ (makeEqualBind e st i k x a b).iNeeded = st.iNeeded ∧
      (∀ y ∈ st.aReady, y ∈ (makeEqualBind e st i k x a b).aReady) := by
  unfold makeEqualBind
  simp only
  obtain ⟨st1, hst1⟩ : ∃ st1 : St, st1 = { st with bNeeded := (i, k) :: st.bNeeded } := ⟨_, rfl⟩
  rw [← hst1]
  have h1 : NInv e P st1 := by rw [hst1]; exact ninv_same h rfl rfl rfl (fun _ ha => Or.inl ha)
  have hi1 : st1.iNeeded = st.iNeeded := by rw [hst1]
  have hr1 : st1.aReady = st.aReady := by rw [hst1]
  by_cases hc : (e.a.hasAcl a.acl && e.b.hasAcl b.acl) = true
  · simp only [hc, ↓reduceIte]
    simp only [Bool.and_eq_true] at hc
    obtain ⟨k1, k2, k3, _⟩ := ninv_diffAcl h1 a.acl b.acl hc.1 hc.2 hbd
    split
    · refine ⟨ninv_same k1 rfl rfl rfl ?_, ?_, fun y hy => k3 y (by rw [hr1]; exact hy)⟩
      · intro act hact
        rcases mem_act hact with j | j
        · exact Or.inl j
        · right; rw [j]; exact ⟨fun hc => hc, rfl⟩
      · show (diffAcl e st1 a.acl b.acl).1.iNeeded = st.iNeeded
        rw [k2, hi1]
    · exact ⟨k1, by rw [k2, hi1], fun y hy => k3 y (by rw [hr1]; exact hy)⟩
  · simp only [hc, Bool.false_eq_true, ↓reduceIte]
    exact ⟨ninv_hit h1 _, hi1, fun y hy => by rw [← hr1] at hy; exact hy⟩

theorem ninv_pairs {e : Env} {P : List Name} (i : Nat) (x : String) (al : List Bind) (ps : List (Nat × Bind))
    (hps : ∀ p ∈ ps, BoundB e p.2.acl) {st : St} (h : NInv e P st) :
    NInv e P (ps.foldl (fun st p => makeEqualBind e st i p.1 x (al.getD p.1 default) p.2) st) ∧
    (ps.foldl (fun st p => makeEqualBind e st i p.1 x (al.getD p.1 default) p.2) st).iNeeded = st.iNeeded ∧
    (∀ y ∈ st.aReady, y ∈ (ps.foldl (fun st p => makeEqualBind e st i p.1 x (al.getD p.1 default) p.2) st).aReady) := by
  induction ps generalizing st with
  | nil => exact ⟨h, rfl, fun y hy => hy⟩
  | cons p ps ih =>
    obtain ⟨k1, k2, k3⟩ := ninv_makeEqualBind h i p.1 x (al.getD p.1 default) p.2 (hps p (List.mem_cons_self ..))
    obtain ⟨j1, j2, j3⟩ := ih (fun p' hp' => hps p' (List.mem_cons_of_mem _ hp')) k1
    simp only [List.foldl_cons]
    exact ⟨j1, by rw [j2, k2], fun y hy => j3 y (k3 y hy)⟩

/-- `diffBinds` of one interface pair. -/
theorem ninv_diffBinds {e : Env} {P : List Name} (i : Nat) (x : String) (al bl : List Bind)
    (hAn : (al.map (·.dir)).Nodup) (hAd : ∀ bd ∈ al, isDir bd.dir = true) (hAc : ∀ bd ∈ al, e.a.hasAcl bd.acl = true)
    (hB : BindsB e bl) (hbd : ∀ b ∈ bl, BoundB e b.acl) {st : St} (h : NInv e P st) :
    NInv e P (diffBinds e st i x al bl) ∧ (diffBinds e st i x al bl).iNeeded = st.iNeeded ∧
      (∀ y ∈ st.aReady, y ∈ (diffBinds e st i x al bl).aReady) := by
  obtain ⟨st0, ks, ps, bs, hst0, hcompEq, _, _, hps, _, _, hbs, _, _⟩ :=
    diffBinds_canon e i x al bl hAn hAd hAc hB st
  have h0 : NInv e P st0 ∧ st0.iNeeded = st.iNeeded ∧ st0.aReady = st.aReady := by
    rcases hst0 with rfl | rfl
    · exact ⟨h, rfl, rfl⟩
    · exact ⟨ninv_hit h _, rfl, rfl⟩
  obtain ⟨a1, a2, a3⟩ := ninv_delBinds i x al ks h0.1
  obtain ⟨b1, b2, b3⟩ := ninv_pairs i x al ps (fun p hp => hbd _ (hps p hp).2.2) a1
  obtain ⟨c1, c2, c3⟩ := ninv_addBinds x bs (fun b hb => hbd b (hbs b hb).1) b1
  rw [hcompEq]
  refine ⟨c1, by rw [c2, b2, a2, h0.2.1], ?_⟩
  intro y hy
  exact c3 y (b3 y (by rw [a3, h0.2.2]; exact hy))

/-! ## all interface pairs -/

/-- Static facts about the interfaces used by the walk. -/
structure NStatic (e : Env) : Prop where
  aIntf : ∀ ai ∈ e.a.intfs, (ai.binds.map (·.dir)).Nodup ∧ (∀ bd ∈ ai.binds, isDir bd.dir = true) ∧
    ∀ bd ∈ ai.binds, e.a.hasAcl bd.acl = true
  bIntf : ∀ bi ∈ e.b.intfs, BindsB e bi.binds

theorem ninv_ifpairs {e : Env} {P : List Name} (hs : NStatic e) (ps : List (Nat × Intf))
    (hps : ∀ p ∈ ps, p.1 < e.a.intfs.length ∧ p.2 ∈ e.b.intfs) {st : St} (h : NInv e P st) :
    NInv e P (ps.foldl (pairStep e e.a.intfs) st) ∧
    (∀ p ∈ ps, p.1 ∈ (ps.foldl (pairStep e e.a.intfs) st).iNeeded) ∧
    (∀ k ∈ st.iNeeded, k ∈ (ps.foldl (pairStep e e.a.intfs) st).iNeeded) := by
  induction ps generalizing st with
  | nil => exact ⟨h, by simp, fun k hk => hk⟩
  | cons p ps ih =>
    obtain ⟨hk, hb⟩ := hps p (List.mem_cons_self ..)
    have hmem := getD_mem e.a.intfs p.1 hk
    obtain ⟨a1, a2, a3⟩ := hs.aIntf _ hmem
    have h0 : NInv e P (({ st with iNeeded := p.1 :: st.iNeeded } : St).hit "intf:pair") :=
      ninv_same h rfl rfl rfl (fun _ ha => Or.inl ha)
    obtain ⟨k1, k2, _⟩ := ninv_diffBinds p.1 (e.a.intfs.getD p.1 default).name (e.a.intfs.getD p.1 default).binds
      p.2.binds a1 a2 a3 (hs.bIntf _ hb) (fun b hb' => ⟨p.2, hb, b, hb', rfl⟩) h0
    obtain ⟨j1, j2, j3⟩ := ih (fun p' hp' => hps p' (List.mem_cons_of_mem _ hp')) k1
    simp only [List.foldl_cons]
    have hstep : pairStep e e.a.intfs st p =
        diffBinds e (({ st with iNeeded := p.1 :: st.iNeeded } : St).hit "intf:pair") p.1 (e.a.intfs.getD p.1 default).name
          (e.a.intfs.getD p.1 default).binds p.2.binds := rfl
    rw [hstep]
    have hin : ∀ k ∈ p.1 :: st.iNeeded, k ∈ (diffBinds e (({ st with iNeeded := p.1 :: st.iNeeded } : St).hit "intf:pair") p.1
        (e.a.intfs.getD p.1 default).name (e.a.intfs.getD p.1 default).binds p.2.binds).iNeeded := by
      intro k hk'; rw [k2]; exact hk'
    refine ⟨j1, ?_, fun k hk' => j3 k (hin k (List.mem_cons_of_mem _ hk'))⟩
    intro p' hp'
    rcases List.mem_cons.mp hp' with rfl | hp''
    · exact j3 _ (hin _ (List.mem_cons_self ..))
    · exact j2 p' hp''

/-- `diffIntfs`: the invariant holds afterwards and every device interface that has a partner is `needed`. -/
theorem ninv_diffIntfs {e : Env} {P : List Name} (hs : NStatic e) (hnd : (e.a.intfs.map (·.name)).Nodup)
    {st : St} (h : NInv e P st) :
    NInv e P (diffIntfs e st e.a.intfs e.b.intfs) ∧
    (∀ k, k < e.a.intfs.length → (e.a.intfs.getD k default).name ∈ e.b.intfs.map (·.name) →
      k ∈ (diffIntfs e st e.a.intfs e.b.intfs).iNeeded) := by
  obtain ⟨al, hal⟩ : ∃ al, al = e.a.intfs := ⟨_, rfl⟩
  obtain ⟨bl, hbl⟩ : ∃ bl, bl = e.b.intfs := ⟨_, rfl⟩
  obtain ⟨ka, hka⟩ : ∃ ka, ka = al.map (·.name) := ⟨_, rfl⟩
  obtain ⟨kb, hkb⟩ : ∃ kb, kb = bl.map (·.name) := ⟨_, rfl⟩
  have hkaL : ka.length = al.length := by simp [hka]
  have hkbL : kb.length = bl.length := by simp [hkb]
  have hkaNd : ka.Nodup := by rw [hka, hal]; exact hnd
  have hkaG : ∀ k, k < al.length → ka.getD k "" = (al.getD k default).name := by
    intro k hk; rw [hka, getD_map_str al _ k hk]
  obtain ⟨rsA, rsB, hrs, hkA, hkB, _, hfE, _⟩ := diffUnordered_spec ka kb hkaNd
  rw [hkaL, hkbL] at hkA hkB
  obtain ⟨E, hE⟩ : ∃ E, E = sEq kb 0 ka := ⟨_, rfl⟩
  have hEmem : ∀ p ∈ E, p.1 < al.length ∧ p.2 < bl.length := by
    intro p hp
    rw [hE] at hp
    obtain ⟨t, ht, h1, hl⟩ := mem_sEq.mp (show (p.1, p.2) ∈ sEq kb 0 ka from hp)
    rw [hkaL] at ht
    simp only [Nat.zero_add] at h1
    obtain ⟨hj, _⟩ := lastIdx_some hl
    rw [hkbL] at hj
    rw [h1]
    exact ⟨ht, hj⟩
  obtain ⟨ps, hps⟩ : ∃ ps, ps = E.map fun p => (p.1, bl.getD p.2 default) := ⟨_, rfl⟩
  obtain ⟨k1, k2, _⟩ := ninv_ifpairs hs ps
    (by
      intro p hp
      rw [hps] at hp
      obtain ⟨q, hq', rfl⟩ := List.mem_map.mp hp
      obtain ⟨h1, h2⟩ := hEmem q hq'
      exact ⟨by rw [← hal]; exact h1, by rw [← hbl]; exact getD_mem bl _ h2⟩) h
  have hfold := intf_fold e al bl rsA rsB hkA hkB st
  rw [hfE, ← hE, ← hps] at hfold
  unfold diffIntfs
  simp only [← hal, ← hbl, ← hka, ← hkb, hrs]
  refine hits_fold_pred (fun s : St => NInv e P s ∧ (∀ k, k < al.length → (al.getD k default).name ∈ kb →
      k ∈ s.iNeeded)) ?_ _ ?_ _ _ ?_
  · intro s t ⟨q1, q2⟩; exact ⟨ninv_hit q1 t, q2⟩
  · intro s r
    split
    · split
      · exact Or.inl rfl
      · exact Or.inr ⟨_, rfl⟩
    · split
      · exact Or.inl rfl
      · exact Or.inr ⟨_, rfl⟩
  · have hbase : NInv e P (ps.foldl (pairStep e al) st) ∧ (∀ k, k < al.length → (al.getD k default).name ∈ kb →
        k ∈ (ps.foldl (pairStep e al) st).iNeeded) := by
      rw [hal]
      refine ⟨k1, ?_⟩
      intro k hk hkey
      rw [← hal] at hk hkey
      have hkey' : ka.getD k "" ∈ kb := by rw [hkaG k hk]; exact hkey
      cases hl : lastIdx (ka.getD k "") kb with
      | none => exact absurd hkey' (lastIdx_none.mp hl)
      | some j' =>
        have hmemE : (k, j') ∈ E := by
          rw [hE]; exact mem_sEq.mpr ⟨k, by rw [hkaL]; exact hk, by omega, hl⟩
        have hmemP : (k, bl.getD j' default) ∈ ps := by
          rw [hps]; exact List.mem_map.mpr ⟨(k, j'), hmemE, rfl⟩
        exact k2 _ hmemP
    split
    · rw [hfold]; exact ⟨ninv_hit hbase.1 _, hbase.2⟩
    · rw [hfold]; exact hbase

end NA.F2
