import NA.Proofs.F2Sem
/-!
# F2: `alignVRFs`, `checkIOSInterfaces`, `generateNamesForTransfer` — the state `diffConfig` starts from
-/
namespace NA.F2
open NA.IosDev2
open NA.F1 (genName lookupD addSet)

/-- Nothing but `needed` marks on device ACLs, messages and counters. -/
def CoreEmpty (st : St) : Prop :=
  st.aToDel = [] ∧ st.iNeeded = [] ∧ st.bNeeded = [] ∧ st.aReady = [] ∧ st.aName = [] ∧ st.acts = []

/-- The ACLs bound by interface `i` are `needed`. -/
def Marked (a : Config) (st : St) (i : Intf) : Prop :=
  ∀ bd ∈ i.binds, a.hasAcl bd.acl = true → bd.acl ∈ st.aNeeded

theorem mem_addSet {x y : Name} {s : List Name} : x ∈ addSet y s ↔ x = y ∨ x ∈ s := by
  unfold addSet
  split
  · rename_i h
    constructor
    · exact Or.inr
    · rintro (rfl | h1)
      · simpa using h
      · exact h1
  · simp

theorem markNeededIntf_spec (a : Config) (st : St) (i : Intf) :
    CoreEmpty st → CoreEmpty (markNeededIntf a st i) ∧
      (∀ n ∈ st.aNeeded, n ∈ (markNeededIntf a st i).aNeeded) ∧ Marked a (markNeededIntf a st i) i ∧
      (∀ n ∈ (markNeededIntf a st i).aNeeded, n ∈ st.aNeeded ∨ a.hasAcl n = true) := by
  intro hc
  have key : ∀ (bs : List Bind) (s : List Name),
      (∀ n ∈ s, n ∈ bs.foldl (fun s b => if a.hasAcl b.acl then addSet b.acl s else s) s) ∧
      (∀ bd ∈ bs, a.hasAcl bd.acl = true → bd.acl ∈ bs.foldl (fun s b => if a.hasAcl b.acl then addSet b.acl s else s) s) ∧
      (∀ n ∈ bs.foldl (fun s b => if a.hasAcl b.acl then addSet b.acl s else s) s, n ∈ s ∨ a.hasAcl n = true) := by
    intro bs
    induction bs with
    | nil => intro s; exact ⟨fun n h => h, by simp, fun n h => Or.inl h⟩
    | cons b bs ih =>
      intro s
      simp only [List.foldl_cons]
      obtain ⟨h1, h2, h3⟩ := ih (if a.hasAcl b.acl then addSet b.acl s else s)
      refine ⟨?_, ?_, ?_⟩
      · intro n hn
        apply h1
        split
        · exact mem_addSet.mpr (Or.inr hn)
        · exact hn
      · intro bd hbd hh
        rcases List.mem_cons.mp hbd with rfl | hbd'
        · apply h1
          simp only [hh, ↓reduceIte]
          exact mem_addSet.mpr (Or.inl rfl)
        · exact h2 bd hbd' hh
      · intro n hn
        rcases h3 n hn with h4 | h4
        · split at h4
          · rename_i hh
            rcases mem_addSet.mp h4 with rfl | h5
            · exact Or.inr hh
            · exact Or.inl h5
          · exact Or.inl h4
        · exact Or.inr h4
  obtain ⟨k1, k2, k3⟩ := key i.binds st.aNeeded
  exact ⟨hc, k1, k2, k3⟩

theorem coreEmpty_hit {st : St} (h : CoreEmpty st) (s : String) : CoreEmpty (st.hit s) := h
theorem coreEmpty_msg {st : St} (h : CoreEmpty st) (s : String) : CoreEmpty (st.msg s) := h

/-- Facts about marks that survive further marking. -/
structure MarkInv (a : Config) (st0 st : St) : Prop where
  core : CoreEmpty st
  mono : ∀ n ∈ st0.aNeeded, n ∈ st.aNeeded
  sound : ∀ n ∈ st.aNeeded, n ∈ st0.aNeeded ∨ a.hasAcl n = true

theorem markInv_refl (a : Config) (st : St) (h : CoreEmpty st) : MarkInv a st st :=
  ⟨h, fun _ h => h, fun _ h => Or.inl h⟩

theorem markInv_trans {a : Config} {s0 s1 s2 : St} (h1 : MarkInv a s0 s1) (h2 : MarkInv a s1 s2) : MarkInv a s0 s2 :=
  ⟨h2.core, fun n hn => h2.mono n (h1.mono n hn), fun n hn => by
    rcases h2.sound n hn with h | h
    · exact h1.sound n h
    · exact Or.inr h⟩

theorem markInv_hit {a : Config} {s0 s1 : St} (h : MarkInv a s0 s1) (s : String) : MarkInv a s0 (s1.hit s) :=
  ⟨h.core, h.mono, h.sound⟩
theorem markInv_msg {a : Config} {s0 s1 : St} (h : MarkInv a s0 s1) (s : String) : MarkInv a s0 (s1.msg s) :=
  ⟨h.core, h.mono, h.sound⟩

theorem markInv_mark {a : Config} {s0 s1 : St} (h : MarkInv a s0 s1) (i : Intf) :
    MarkInv a s0 (markNeededIntf a s1 i) ∧ Marked a (markNeededIntf a s1 i) i := by
  obtain ⟨c, m, mk, snd⟩ := markNeededIntf_spec a s1 i h.core
  exact ⟨⟨c, fun n hn => m n (h.mono n hn), fun n hn => by
    rcases snd n hn with h1 | h1
    · exact h.sound n h1
    · exact Or.inr h1⟩, mk⟩

theorem marked_mono {a : Config} {s1 s2 : St} (hm : ∀ n ∈ s1.aNeeded, n ∈ s2.aNeeded) {i : Intf}
    (h : Marked a s1 i) : Marked a s2 i := fun bd hbd hh => hm _ (h bd hbd hh)

theorem fold_marks (a : Config) (hit : String) (l : List Intf) (s0 s : St) (hs : MarkInv a s0 s) :
    MarkInv a s0 (l.foldl (fun st i => (markNeededIntf a st i).hit hit) s) ∧
    ∀ i ∈ l, Marked a (l.foldl (fun st i => (markNeededIntf a st i).hit hit) s) i := by
  induction l generalizing s0 s with
  | nil => exact ⟨hs, by simp⟩
  | cons x xs ih =>
    simp only [List.foldl_cons]
    obtain ⟨h1, h2⟩ := markInv_mark hs x
    have h1' := markInv_hit h1 hit
    obtain ⟨h3, h4⟩ := ih s0 _ h1'
    obtain ⟨h5, _⟩ := ih _ _ (markInv_refl a ((markNeededIntf a s x).hit hit) h1'.core)
    refine ⟨h3, ?_⟩
    intro i hi
    rcases List.mem_cons.mp hi with rfl | hi'
    · exact marked_mono h5.mono (show Marked a ((markNeededIntf a s i).hit hit) i from h2)
    · exact h4 i hi'

theorem fold_msgs (a : Config) {α : Type} (f : α → String) (l : List α) (s0 s : St) (hs : MarkInv a s0 s) :
    MarkInv a s0 (l.foldl (fun st v => st.msg (f v)) s) := by
  induction l generalizing s with
  | nil => exact hs
  | cons x xs ih => exact ih _ (markInv_msg hs _)

/-- `alignVRFs`. -/
theorem alignVRFs_spec (a b : Config) (st : St) (hc : CoreEmpty st) :
    MarkInv a st (alignVRFs a b st).1 ∧ (alignVRFs a b st).2.acls = a.acls ∧
    (∀ i ∈ a.intfs, i ∈ (alignVRFs a b st).2.intfs ∨ Marked a (alignVRFs a b st).1 i) ∧
    (∃ p : Intf → Bool, (alignVRFs a b st).2.intfs = a.intfs.filter p) ∧
    (∃ p : Route → Bool, (alignVRFs a b st).2.routes = a.routes.filter p) := by
  unfold alignVRFs
  simp only
  split
  · exact ⟨markInv_hit (markInv_refl a st hc) _, rfl, fun i hi => Or.inl hi,
      ⟨fun _ => true, (List.filter_eq_self.mpr (fun _ _ => rfl)).symm⟩,
      ⟨fun _ => true, (List.filter_eq_self.mpr (fun _ _ => rfl)).symm⟩⟩
  · obtain ⟨h1, h2⟩ := fold_marks a "align:interface-removed"
      (a.intfs.filter fun i => !(b.intfs.map (·.vrf) ++ b.routes.map (·.vrf)).contains i.vrf) st st (markInv_refl a st hc)
    have h3 : MarkInv a st (if (a.routes.filter fun r => !(b.intfs.map (·.vrf) ++ b.routes.map (·.vrf)).contains r.vrf).isEmpty
        then _ else _) := by
      split
      · exact h1
      · exact markInv_hit h1 _
    have h4 := fold_msgs a (fun v : String => "Leaving VRF " ++ (if v == "" then "<global>" else v) ++ " untouched")
      _ st _ h3
    refine ⟨h4, rfl, ?_, ⟨_, rfl⟩, ⟨_, rfl⟩⟩
    intro i hi
    by_cases hv : (b.intfs.map (·.vrf) ++ b.routes.map (·.vrf)).contains i.vrf = true
    · exact Or.inl (List.mem_filter.mpr ⟨hi, hv⟩)
    · right
      have hm := h2 i (List.mem_filter.mpr ⟨hi, by simpa using hv⟩)
      -- later steps only add hits and messages
      intro bd hbd hh
      have := hm bd hbd hh
      have hmono : MarkInv a _ _ := fold_msgs a
        (fun v : String => "Leaving VRF " ++ (if v == "" then "<global>" else v) ++ " untouched") _ _ _
        (markInv_refl a _ h3.core)
      exact hmono.mono _ (by
        split
        · exact this
        · exact this)

end NA.F2
