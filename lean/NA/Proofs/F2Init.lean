import NA.Proofs.F2Sem
/-!
# F2: `alignVRFs`, `checkIOSInterfaces`, `generateNamesForTransfer` — the state `diffConfig` starts from
-/
namespace NA.F2
open NA.IosDev2
open NA.F1 (genName lookupD addSet sortS)

/-- Nothing but `needed` marks on device ACLs, messages and counters. -/
def CoreEmpty (st : St) : Prop :=
  st.aToDel = [] ∧ st.iNeeded = [] ∧ st.bNeeded = [] ∧ st.aReady = [] ∧ st.aName = [] ∧ st.acts = []

/-- The ACLs bound by interface `i` are `needed`. -/
def Marked (a : Config) (st : St) (i : Intf) : Prop :=
  ∀ bd ∈ i.binds, a.hasAcl bd.acl = true → bd.acl ∈ st.aNeeded

theorem mem_addSet {x y : Name} {s : List Name} : x ∈ addSet y s ↔ x = y ∨ x ∈ s := by
  unfold addSet
  split
  · rename_i h
    constructor
    · exact Or.inr
    · rintro (rfl | h1)
      · simpa using h
      · exact h1
  · simp

theorem markNeededIntf_spec (a : Config) (st : St) (i : Intf) :
    CoreEmpty st → CoreEmpty (markNeededIntf a st i) ∧
      (∀ n ∈ st.aNeeded, n ∈ (markNeededIntf a st i).aNeeded) ∧ Marked a (markNeededIntf a st i) i ∧
      (∀ n ∈ (markNeededIntf a st i).aNeeded, n ∈ st.aNeeded ∨ a.hasAcl n = true) := by
  intro hc
  have key : ∀ (bs : List Bind) (s : List Name),
      (∀ n ∈ s, n ∈ bs.foldl (fun s b => if a.hasAcl b.acl then addSet b.acl s else s) s) ∧
      (∀ bd ∈ bs, a.hasAcl bd.acl = true → bd.acl ∈ bs.foldl (fun s b => if a.hasAcl b.acl then addSet b.acl s else s) s) ∧
      (∀ n ∈ bs.foldl (fun s b => if a.hasAcl b.acl then addSet b.acl s else s) s, n ∈ s ∨ a.hasAcl n = true) := by
    intro bs
    induction bs with
    | nil => intro s; exact ⟨fun n h => h, by simp, fun n h => Or.inl h⟩
    | cons b bs ih =>
      intro s
      simp only [List.foldl_cons]
      obtain ⟨h1, h2, h3⟩ := ih (if a.hasAcl b.acl then addSet b.acl s else s)
      refine ⟨?_, ?_, ?_⟩
      · intro n hn
        apply h1
        split
        · exact mem_addSet.mpr (Or.inr hn)
        · exact hn
      · intro bd hbd hh
        rcases List.mem_cons.mp hbd with rfl | hbd'
        · apply h1
          simp only [hh, ↓reduceIte]
          exact mem_addSet.mpr (Or.inl rfl)
        · exact h2 bd hbd' hh
      · intro n hn
        rcases h3 n hn with h4 | h4
        · split at h4
          · rename_i hh
            rcases mem_addSet.mp h4 with rfl | h5
            · exact Or.inr hh
            · exact Or.inl h5
          · exact Or.inl h4
        · exact Or.inr h4
  obtain ⟨k1, k2, k3⟩ := key i.binds st.aNeeded
  exact ⟨hc, k1, k2, k3⟩

theorem coreEmpty_hit {st : St} (h : CoreEmpty st) (s : String) : CoreEmpty (st.hit s) := h
theorem coreEmpty_msg {st : St} (h : CoreEmpty st) (s : String) : CoreEmpty (st.msg s) := h

/-- Facts about marks that survive further marking. -/
structure MarkInv (a : Config) (st0 st : St) : Prop where
  core : CoreEmpty st
  mono : ∀ n ∈ st0.aNeeded, n ∈ st.aNeeded
  sound : ∀ n ∈ st.aNeeded, n ∈ st0.aNeeded ∨ a.hasAcl n = true

theorem markInv_refl (a : Config) (st : St) (h : CoreEmpty st) : MarkInv a st st :=
  ⟨h, fun _ h => h, fun _ h => Or.inl h⟩

theorem markInv_trans {a : Config} {s0 s1 s2 : St} (h1 : MarkInv a s0 s1) (h2 : MarkInv a s1 s2) : MarkInv a s0 s2 :=
  ⟨h2.core, fun n hn => h2.mono n (h1.mono n hn), fun n hn => by
    rcases h2.sound n hn with h | h
    · exact h1.sound n h
    · exact Or.inr h⟩

theorem markInv_hit {a : Config} {s0 s1 : St} (h : MarkInv a s0 s1) (s : String) : MarkInv a s0 (s1.hit s) :=
  ⟨h.core, h.mono, h.sound⟩
theorem markInv_msg {a : Config} {s0 s1 : St} (h : MarkInv a s0 s1) (s : String) : MarkInv a s0 (s1.msg s) :=
  ⟨h.core, h.mono, h.sound⟩

theorem markInv_mark {a : Config} {s0 s1 : St} (h : MarkInv a s0 s1) (i : Intf) :
    MarkInv a s0 (markNeededIntf a s1 i) ∧ Marked a (markNeededIntf a s1 i) i := by
  obtain ⟨c, m, mk, snd⟩ := markNeededIntf_spec a s1 i h.core
  exact ⟨⟨c, fun n hn => m n (h.mono n hn), fun n hn => by
    rcases snd n hn with h1 | h1
    · exact h.sound n h1
    · exact Or.inr h1⟩, mk⟩

theorem marked_mono {a : Config} {s1 s2 : St} (hm : ∀ n ∈ s1.aNeeded, n ∈ s2.aNeeded) {i : Intf}
    (h : Marked a s1 i) : Marked a s2 i := fun bd hbd hh => hm _ (h bd hbd hh)

theorem fold_marks (a : Config) (hit : String) (l : List Intf) (s0 s : St) (hs : MarkInv a s0 s) :
    MarkInv a s0 (l.foldl (fun st i => (markNeededIntf a st i).hit hit) s) ∧
    ∀ i ∈ l, Marked a (l.foldl (fun st i => (markNeededIntf a st i).hit hit) s) i := by
  induction l generalizing s0 s with
  | nil => exact ⟨hs, by simp⟩
  | cons x xs ih =>
    simp only [List.foldl_cons]
    obtain ⟨h1, h2⟩ := markInv_mark hs x
    have h1' := markInv_hit h1 hit
    obtain ⟨h3, h4⟩ := ih s0 _ h1'
    obtain ⟨h5, _⟩ := ih _ _ (markInv_refl a ((markNeededIntf a s x).hit hit) h1'.core)
    refine ⟨h3, ?_⟩
    intro i hi
    rcases List.mem_cons.mp hi with rfl | hi'
    · exact marked_mono h5.mono (show Marked a ((markNeededIntf a s i).hit hit) i from h2)
    · exact h4 i hi'

theorem fold_msgs (a : Config) {α : Type} (f : α → String) (l : List α) (s0 s : St) (hs : MarkInv a s0 s) :
    MarkInv a s0 (l.foldl (fun st v => st.msg (f v)) s) := by
  induction l generalizing s with
  | nil => exact hs
  | cons x xs ih => exact ih _ (markInv_msg hs _)

/-- `alignVRFs`. -/
theorem alignVRFs_spec (a b : Config) (st : St) (hc : CoreEmpty st) :
    MarkInv a st (alignVRFs a b st).1 ∧ (alignVRFs a b st).2.acls = a.acls ∧
    (∀ i ∈ a.intfs, i ∈ (alignVRFs a b st).2.intfs ∨ Marked a (alignVRFs a b st).1 i) ∧
    (∃ p : Intf → Bool, (alignVRFs a b st).2.intfs = a.intfs.filter p) ∧
    (∃ p : Route → Bool, (alignVRFs a b st).2.routes = a.routes.filter p) := by
  unfold alignVRFs
  simp only
  split
  · exact ⟨markInv_hit (markInv_refl a st hc) _, rfl, fun i hi => Or.inl hi,
      ⟨fun _ => true, (List.filter_eq_self.mpr (fun _ _ => rfl)).symm⟩,
      ⟨fun _ => true, (List.filter_eq_self.mpr (fun _ _ => rfl)).symm⟩⟩
  · obtain ⟨bV, hbV⟩ : ∃ bV, bV = b.intfs.map (·.vrf) ++ b.routes.map (·.vrf) := ⟨_, rfl⟩
    rw [← hbV]
    obtain ⟨st1, hst1⟩ : ∃ st1, st1 = (a.intfs.filter fun i => !bV.contains i.vrf).foldl
        (fun st i => (markNeededIntf a st i).hit "align:interface-removed") st := ⟨_, rfl⟩
    rw [← hst1]
    obtain ⟨h1, h2⟩ := fold_marks a "align:interface-removed" (a.intfs.filter fun i => !bV.contains i.vrf) st st
      (markInv_refl a st hc)
    rw [← hst1] at h1 h2
    obtain ⟨st2, hst2⟩ : ∃ st2, st2 = (if (a.routes.filter fun r => !bV.contains r.vrf).isEmpty then st1
        else st1.hit "align:routes-removed") := ⟨_, rfl⟩
    rw [← hst2]
    have h3 : MarkInv a st st2 ∧ MarkInv a st1 st2 := by
      rw [hst2]
      split
      · exact ⟨h1, markInv_refl a st1 h1.core⟩
      · exact ⟨markInv_hit h1 _, markInv_hit (markInv_refl a st1 h1.core) _⟩
    have h4 := fold_msgs a (fun v : String => "Leaving VRF " ++ (if v == "" then "<global>" else v) ++ " untouched")
      ((sortS ((a.intfs.filter fun i => !bV.contains i.vrf).map (·.vrf) ++
        (a.routes.filter fun r => !bV.contains r.vrf).map (·.vrf))).eraseDups) st st2 h3.1
    have h5 := fold_msgs a (fun v : String => "Leaving VRF " ++ (if v == "" then "<global>" else v) ++ " untouched")
      ((sortS ((a.intfs.filter fun i => !bV.contains i.vrf).map (·.vrf) ++
        (a.routes.filter fun r => !bV.contains r.vrf).map (·.vrf))).eraseDups) st1 st2 h3.2
    refine ⟨h4, rfl, ?_, ⟨_, rfl⟩, ⟨_, rfl⟩⟩
    intro i hi
    by_cases hv : bV.contains i.vrf = true
    · exact Or.inl (List.mem_filter.mpr ⟨hi, hv⟩)
    · right
      have hm := h2 i (List.mem_filter.mpr ⟨hi, by simpa using hv⟩)
      exact marked_mono h5.mono hm


/-! ## `checkIOSInterfaces` -/

theorem checkStep_false (a b : Config) (s : St) (x : Intf) : checkStep a b (s, false) x = (s, false) := by
  simp [checkStep]

theorem fold_checkStep_false (a b : Config) (l : List Intf) (s : St) :
    l.foldl (checkStep a b) (s, false) = (s, false) := by
  induction l with
  | nil => rfl
  | cons x xs ih => simp only [List.foldl_cons, checkStep_false, ih]

theorem checkStep_true (a b : Config) (s0 s : St) (x : Intf) (hs : MarkInv a s0 s) :
    MarkInv a s0 (checkStep a b (s, true) x).1 ∧
    ((checkStep a b (s, true) x).2 = true → bFind b x.name = none → Marked a (checkStep a b (s, true) x).1 x) := by
  unfold checkStep
  simp only [Bool.not_true, Bool.false_eq_true, ↓reduceIte]
  cases hb : bFind b x.name with
  | some bi =>
    simp only
    have h1 : MarkInv a s0 (if (x.addr != bi.addr && bi.addr != "negotiated") = true then
        (s.msg ("WARNING>>> Different address defined for interface " ++ x.name ++ ": Device: " ++ quote x.addr ++
          ", Netspoc: " ++ quote bi.addr)).hit "check:address-differs" else s) := by
      split
      · exact markInv_hit (markInv_msg hs _) _
      · exact hs
    split
    · exact ⟨markInv_hit (markInv_msg h1 _) _, fun _ h => by cases h⟩
    · split
      · exact ⟨markInv_hit (markInv_msg h1 _) _, fun _ h => by cases h⟩
      · exact ⟨h1, fun _ h => by cases h⟩
  | none =>
    simp only
    obtain ⟨h1, h2⟩ := markInv_mark hs x
    split
    · exact ⟨markInv_hit (markInv_msg h1 _) _, fun _ _ => h2⟩
    · exact ⟨markInv_hit h1 _, fun _ _ => h2⟩

theorem fold_checkStep (a b : Config) (l : List Intf) (s0 s : St) (hs : MarkInv a s0 s)
    (hok : (l.foldl (checkStep a b) (s, true)).2 = true) :
    MarkInv a s0 (l.foldl (checkStep a b) (s, true)).1 ∧
    ∀ x ∈ l, bFind b x.name = none → Marked a (l.foldl (checkStep a b) (s, true)).1 x := by
  induction l generalizing s0 s with
  | nil => exact ⟨hs, by simp⟩
  | cons x xs ih =>
    simp only [List.foldl_cons] at hok ⊢
    obtain ⟨h1, h2⟩ := checkStep_true a b s0 s x hs
    obtain ⟨⟨s', f⟩, hsf⟩ : ∃ r, checkStep a b (s, true) x = r := ⟨_, rfl⟩
    rw [hsf] at hok h1 h2 ⊢
    cases f with
    | false => rw [fold_checkStep_false] at hok; cases hok
    | true =>
      simp only at h1 h2
      obtain ⟨h3, h4⟩ := ih s0 s' h1 hok
      obtain ⟨h5, _⟩ := ih s' s' (markInv_refl a s' h1.core) hok
      refine ⟨h3, ?_⟩
      intro y hy hb
      rcases List.mem_cons.mp hy with rfl | hy'
      · exact marked_mono h5.mono (h2 trivial hb)
      · exact h4 y hy' hb

theorem checkInterfaces_spec (a b : Config) (st : St) (hc : CoreEmpty st) (hok : (checkInterfaces a b st).2 = true) :
    MarkInv a st (checkInterfaces a b st).1 ∧
    (∀ ai ∈ a.intfs, bFind b ai.name = none → Marked a (checkInterfaces a b st).1 ai) ∧
    (∀ bi ∈ b.intfs, ∃ ai ∈ a.intfs, ai.name = bi.name) := by
  unfold checkInterfaces at hok ⊢
  simp only at hok ⊢
  obtain ⟨⟨s1, f1⟩, hs1⟩ : ∃ r, a.intfs.foldl (checkStep a b) (st, true) = r := ⟨_, rfl⟩
  rw [hs1] at hok ⊢
  cases f1 with
  | false => simp at hok
  | true =>
    simp only [Bool.not_true, Bool.false_eq_true, ↓reduceIte] at hok ⊢
    have hfold := fold_checkStep a b a.intfs st st (markInv_refl a st hc) (by rw [hs1])
    rw [hs1] at hfold
    cases hf : b.intfs.find? fun bi => !(a.intfs.any fun ai => ai.name == bi.name) with
    | some bi => rw [hf] at hok; simp at hok
    | none =>
      refine ⟨hfold.1, hfold.2, ?_⟩
      intro bi hbi
      have := List.find?_eq_none.mp hf bi hbi
      simp only [Bool.not_eq_true', Bool.not_eq_false, List.any_eq_true, beq_iff_eq] at this
      exact this

theorem bFind_none_iff (b : Config) (n : String) : bFind b n = none ↔ n ∉ b.intfs.map (·.name) := by
  unfold bFind
  rw [List.find?_eq_none]
  constructor
  · intro h hc
    obtain ⟨i, hi, rfl⟩ := List.mem_map.mp hc
    exact h i (List.mem_reverse.mpr hi) (by simp)
  · intro h i hi hc
    exact h (List.mem_map.mpr ⟨i, List.mem_reverse.mp hi, by simpa using hc⟩)


/-! ## upper bound: only ACLs bound by marked interfaces become `needed` -/

theorem markNeededIntf_bound (a : Config) (st : St) (i : Intf) :
    ∀ n ∈ (markNeededIntf a st i).aNeeded, n ∈ st.aNeeded ∨ n ∈ i.binds.map (·.acl) := by
  have key : ∀ (bs : List Bind) (s : List Name),
      ∀ n ∈ bs.foldl (fun s b => if a.hasAcl b.acl then addSet b.acl s else s) s, n ∈ s ∨ n ∈ bs.map (·.acl) := by
    intro bs
    induction bs with
    | nil => intro s n h; exact Or.inl h
    | cons b bs ih =>
      intro s n hn
      simp only [List.foldl_cons] at hn
      rcases ih _ n hn with h4 | h4
      · split at h4
        · rcases mem_addSet.mp h4 with rfl | h5
          · exact Or.inr (by simp)
          · exact Or.inl h5
        · exact Or.inl h4
      · exact Or.inr (by simp [h4])
  exact key i.binds st.aNeeded

/-- `N` bounds the `needed` device ACLs. -/
def NeededIn (N : List Name) (st : St) : Prop := ∀ n ∈ st.aNeeded, n ∈ N

theorem fold_marks_bound (a : Config) (hit : String) (N : List Name) (l : List Intf)
    (hl : ∀ i ∈ l, ∀ n ∈ i.binds.map (·.acl), n ∈ N) (s : St) (hs : NeededIn N s) :
    NeededIn N (l.foldl (fun st i => (markNeededIntf a st i).hit hit) s) := by
  induction l generalizing s with
  | nil => exact hs
  | cons x xs ih =>
    simp only [List.foldl_cons]
    apply ih (fun i hi => hl i (List.mem_cons_of_mem _ hi))
    intro n hn
    rcases markNeededIntf_bound a s x n hn with h | h
    · exact hs n h
    · exact hl x (List.mem_cons_self ..) n h

theorem fold_msgs_bound {α : Type} (N : List Name) (f : α → String) (l : List α) (s : St) (hs : NeededIn N s) :
    NeededIn N (l.foldl (fun st v => st.msg (f v)) s) := by
  induction l generalizing s with
  | nil => exact hs
  | cons x xs ih => exact ih _ hs

theorem alignVRFs_bound (a b : Config) (st : St) (N : List Name) (hs : NeededIn N st)
    (hN : ∀ i ∈ a.intfs, i ∉ (alignVRFs a b st).2.intfs → ∀ n ∈ i.binds.map (·.acl), n ∈ N) :
    NeededIn N (alignVRFs a b st).1 := by
  unfold alignVRFs at hN ⊢
  simp only at hN ⊢
  split
  · exact hs
  · rename_i hne
    simp only [hne, Bool.false_eq_true, ↓reduceIte] at hN
    apply fold_msgs_bound
    have h1 := fold_marks_bound a "align:interface-removed" N
      (a.intfs.filter fun i => !(b.intfs.map (·.vrf) ++ b.routes.map (·.vrf)).contains i.vrf)
      (by
        intro i hi
        obtain ⟨h1, h2⟩ := List.mem_filter.mp hi
        apply hN i h1
        intro hc
        have := (List.mem_filter.mp hc).2
        rw [this] at h2
        cases h2) st hs
    split
    · exact h1
    · exact h1

theorem checkStep_bound (a b : Config) (N : List Name) (s : St × Bool) (x : Intf) (hs : NeededIn N s.1)
    (hx : bFind b x.name = none → ∀ n ∈ x.binds.map (·.acl), n ∈ N) : NeededIn N (checkStep a b s x).1 := by
  unfold checkStep
  split
  · exact hs
  · cases hb : bFind b x.name with
    | some bi =>
      simp only
      have h1 : NeededIn N (if (x.addr != bi.addr && bi.addr != "negotiated") = true then
          (s.1.msg ("WARNING>>> Different address defined for interface " ++ x.name ++ ": Device: " ++ quote x.addr ++
            ", Netspoc: " ++ quote bi.addr)).hit "check:address-differs" else s.1) := by
        split <;> exact hs
      split
      · exact h1
      · split <;> exact h1
    | none =>
      simp only
      have h1 : NeededIn N (markNeededIntf a s.1 x) := by
        intro n hn
        rcases markNeededIntf_bound a s.1 x n hn with h | h
        · exact hs n h
        · exact hx hb n h
      split <;> exact h1

theorem checkInterfaces_bound (a b : Config) (st : St) (N : List Name) (hs : NeededIn N st)
    (hN : ∀ x ∈ a.intfs, bFind b x.name = none → ∀ n ∈ x.binds.map (·.acl), n ∈ N) :
    NeededIn N (checkInterfaces a b st).1 := by
  have hfold : ∀ (l : List Intf) (s : St × Bool), (∀ x ∈ l, x ∈ a.intfs) → NeededIn N s.1 →
      NeededIn N (l.foldl (checkStep a b) s).1 := by
    intro l
    induction l with
    | nil => intro s _ h; exact h
    | cons x xs ih =>
      intro s hl h
      simp only [List.foldl_cons]
      exact ih _ (fun y hy => hl y (List.mem_cons_of_mem _ hy))
        (checkStep_bound a b N s x h (hN x (hl x (List.mem_cons_self ..))))
  unfold checkInterfaces
  simp only
  have h1 := hfold a.intfs (st, true) (fun _ h => h) hs
  split
  · exact h1
  · split
    · exact h1
    · exact h1

end NA.F2
