import NA.Model.ApplyTop
import NA.Gen.Skel
/-!
# C09, T-gen: the skeleton of every Lean session program equals the skeleton regenerated from
the Go source on this run (`translate/skeleton` → `NA/Gen/Skel.lean`).

Removing an error check, moving the save in front of the loop, dropping a `defer`, adding a
send, changing a literal command: each changes the generated list and breaks one of these.
All proofs are kernel evaluation of a decidable equality of two finite lists.
-/
namespace NA.C09
open NA.Sess NA.Apply NA.Gen.Skel

set_option maxRecDepth 10000

theorem skel_console_Send (ρ : Role) : skel (sendBody ρ .cur) [] = console_Send := by cases ρ <;> rfl
theorem skel_console_SendCmd (ρ : Role) (t : Txt) : skel (sendCmdBody ρ t) [] = console_SendCmd := by rfl
theorem skel_console_IssueCmd (ρ : Role) (t : Txt) (p : Pat) : skel (issueCmdBody ρ t p) [] = console_IssueCmd := by rfl
theorem skel_console_GetCmdOutput (ρ : Role) (t : Txt) : skel (getCmdOutputBody ρ t) [] = console_GetCmdOutput := by rfl
theorem skel_console_GetOutput (ρ : Role) : skel (getOutputBody ρ) [] = console_GetOutput := by rfl
theorem skel_console_waitPrompt (ρ : Role) (p : Pat) : skel (waitPromptBody ρ p) [] = console_waitPrompt := by rfl
theorem skel_console_WaitShort (ρ : Role) (p : Pat) (m : Bool) : skel (waitShortBody ρ p m) [] = console_WaitShort := by rfl
theorem skel_console_WaitLogin (ρ : Role) (p : Pat) : skel (waitLoginBody ρ p) [] = console_WaitLogin := by rfl
theorem skel_console_expectLog (ρ : Role) (p : Pat) (m : Bool) : skel (expectLogBody ρ p m) [] = console_expectLog := by
  cases m <;> rfl
theorem skel_console_StripEcho : skel stripEchoBody [] = console_StripEcho := by decide
theorem skel_console_StripStdPrompt : skel stripStdPromptBody [] = console_StripStdPrompt := by decide
theorem skel_console_Close : skel closeBody [] = console_Close := by decide
theorem skel_errlog_HandleAbort : skel handleAbortSkel [] = errlog_HandleAbort := by decide
theorem skel_errlog_Abort : skel abortSkel [] = errlog_Abort := by decide

theorem skel_asa_ApplyCommands : skel asaApplyBody [] = asa_ApplyCommands := by decide
theorem skel_asa_cmd (ρ : Role) (t : Txt) : skel (asaCmdBody ρ t) [] = asa_cmd := by rfl
theorem skel_asa_CloseConnection : skel (Backend.closeConnectionBody .asa) [] = asa_CloseConnection := by decide

theorem skel_ios_ApplyCommands : skel iosApplyBody [] = ios_ApplyCommands := by decide
theorem skel_ios_cmd (ρ : Role) (t : Txt) : skel (iosCmdBody ρ t) [] = ios_cmd := by rfl
theorem skel_ios_writeMem : skel iosWriteMemBody [] = ios_writeMem := by decide
theorem skel_ios_prepareDevice : skel iosPrepareDeviceBody [] = ios_prepareDevice := by decide
theorem skel_ios_sendReloadCmd (d : Bool) : skel (iosSendReloadCmdBody d) [] = ios_sendReloadCmd := by cases d <;> rfl
theorem skel_ios_cancelReload : skel iosCancelReloadBody [] = ios_cancelReload := by decide
theorem skel_ios_CloseConnection : skel (Backend.closeConnectionBody .ios) [] = ios_CloseConnection := by decide

theorem skel_linux_ApplyCommands : skel linuxApplyBody [] = linux_ApplyCommands := by decide
theorem skel_linux_cmd (ρ : Role) (t : Txt) : skel (linuxCmdBody ρ t) [] = linux_cmd := by rfl
theorem skel_linux_writeStartupRouting : skel linuxWriteStartupRoutingBody [] = linux_writeStartupRouting := by decide
theorem skel_linux_writeStartupIPTables : skel linuxWriteStartupIPTablesBody [] = linux_writeStartupIPTables := by decide
theorem skel_linux_findIPTablesRestoreCmd : skel linuxFindRestoreBody [] = linux_findIPTablesRestoreCmd := by decide
theorem skel_linux_writeStartup (w : String) : skel (linuxWriteStartupBody w) [] = linux_writeStartup := by rfl
theorem skel_linux_putScp (w : String) : skel (linuxPutScpBody w) [] = linux_putScp := by rfl
theorem skel_linux_CloseConnection : skel (Backend.closeConnectionBody .linux) [] = linux_CloseConnection := by decide

theorem skel_panos_ApplyCommands : skel panosApplyBody [] = panos_ApplyCommands := by decide
theorem skel_panos_doCmd (ρ : Role) (t : Txt) : skel (panosDoCmdBody ρ t) [] = panos_ApplyCommands_doCmd := by rfl
theorem skel_panos_commit : skel panosCommitBody [] = panos_ApplyCommands_commit := by decide
theorem skel_panos_httpPrefixGetLog (ρ : Role) (t : Txt) : skel (panosHttpPrefixGetLogBody ρ t) [] = panos_httpPrefixGetLog := by rfl
theorem skel_panos_httpGet (ρ : Role) (t : Txt) : skel (panosHttpGetBody ρ t) [] = panos_httpGet := by rfl
theorem skel_panos_CloseConnection : skel (Backend.closeConnectionBody .panos) [] = panos_CloseConnection := by decide

theorem skel_nsx_ApplyCommands : skel nsxApplyBody [] = nsx_ApplyCommands := by decide
theorem skel_nsx_sendRequest (ρ : Role) (t : Txt) : skel (nsxSendRequestBody ρ t) [] = nsx_sendRequest := by rfl
theorem skel_nsx_CloseConnection : skel (Backend.closeConnectionBody .nsx) [] = nsx_CloseConnection := by decide

theorem skel_device_ApproveOrCompare (b : Backend) : skel (approveOrCompareBody b) [] = device_ApproveOrCompare := by cases b <;> decide
theorem skel_device_approve (b : Backend) : skel (approveBody b) [] = device_approve := by cases b <;> decide
theorem skel_device_compare (b : Backend) : skel (compareBody b) [] = device_compare := by cases b <;> decide
theorem skel_device_compareDevice (b : Backend) : skel (compareDeviceBody b) [] = device_compareDevice := by cases b <;> decide
theorem skel_device_applyCommands (b : Backend) : skel (applyCommandsBody b) [] = device_applyCommands := by cases b <;> decide
theorem skel_device_showCompareInfo : skel showCompareInfoBody [] = device_showCompareInfo := by decide
theorem skel_doapprove_Main (b : Backend) : skel (doApproveMainSkel b) [] = doapprove_Main := by cases b <;> decide
theorem skel_status_SetApprove : skel setApproveSkel [] = status_SetApprove := by decide
theorem skel_status_SetCompare : skel setCompareSkel [] = status_SetCompare := by decide

/-! ### LoadDevice (login and retrieval) of the five backends -/

theorem skel_cisco_LoginEnable : skel ciscoLoginEnableBody [] = cisco_LoginEnable := by decide
theorem skel_cisco_LoginEnable_waitPrompt (t : Txt) : skel (ciscoWaitPromptBody t) [] = cisco_LoginEnable_waitPrompt := by rfl
theorem skel_httpdevice_TryReachableHTTPLogin (login : Sess) :
    skel (tryReachableBody login) [] = httpdevice_TryReachableHTTPLogin := by rfl
theorem skel_asa_LoadDevice : skel asaLoadDevice [] = asa_LoadDevice := by decide
theorem skel_asa_setTerminal : skel asaSetTerminal [] = asa_setTerminal := by decide
theorem skel_asa_logVersion : skel asaLogVersionBody [] = asa_logVersion := by decide
theorem skel_asa_checkDeviceName : skel asaCheckDeviceNameBody [] = asa_checkDeviceName := by decide
theorem skel_ios_LoadDevice : skel iosLoadDevice [] = ios_LoadDevice := by decide
theorem skel_ios_setTerminal : skel iosSetTerminalBody [] = ios_setTerminal := by decide
theorem skel_ios_logVersion : skel iosLogVersionBody [] = ios_logVersion := by decide
theorem skel_ios_checkDeviceName : skel iosCheckDeviceNameBody [] = ios_checkDeviceName := by decide
theorem skel_linux_LoadDevice : skel linuxLoadDevice [] = linux_LoadDevice := by decide
theorem skel_linux_loginEnable : skel linuxLoginEnableBody [] = linux_loginEnable := by decide
theorem skel_linux_logVersion : skel linuxLogVersionBody [] = linux_logVersion := by decide
theorem skel_linux_checkDeviceName : skel linuxCheckDeviceNameBody [] = linux_checkDeviceName := by decide
theorem skel_linux_checkBanner : skel linuxCheckBannerBody [] = linux_checkBanner := by decide
theorem skel_linux_getDeviceRoutes : skel linuxGetDeviceRoutesBody [] = linux_getDeviceRoutes := by decide
theorem skel_linux_getDeviceIPTables : skel linuxGetDeviceIPTablesBody [] = linux_getDeviceIPTables := by decide
theorem skel_panos_LoadDevice : skel panosLoadDevice [] = panos_LoadDevice := by decide
theorem skel_panos_getAPIKey : skel panosGetAPIKeyBody [] = panos_getAPIKey := by decide
theorem skel_panos_checkHA : skel panosCheckHABody [] = panos_checkHA := by decide
theorem skel_nsx_LoadDevice : skel nsxLoadDevice [] = nsx_LoadDevice := by decide
theorem skel_nsx_getRawJSON (t : Txt) : skel (nsxGetRawJSONBody t) [] = nsx_getRawJSON := by rfl

/-- The Lean session program (one instance of each) behind every function of interest, by the
name the translator gives its skeleton. -/
def covered : List (String × List Site) := [
  ("console_Send", skel (sendBody .setup .cur) []),
  ("console_SendCmd", skel (sendCmdBody .setup .cur) []),
  ("console_IssueCmd", skel (issueCmdBody .setup .cur .std) []),
  ("console_GetCmdOutput", skel (getCmdOutputBody .setup .cur) []),
  ("console_GetOutput", skel (getOutputBody .setup) []),
  ("console_waitPrompt", skel (waitPromptBody .setup .std) []),
  ("console_WaitShort", skel (waitShortBody .setup .std) []),
  ("console_WaitLogin", skel (waitLoginBody .setup .std) []),
  ("console_expectLog", skel (expectLogBody .setup .std) []),
  ("console_StripEcho", skel stripEchoBody []),
  ("console_StripStdPrompt", skel stripStdPromptBody []),
  ("console_Close", skel closeBody []),
  ("errlog_HandleAbort", skel handleAbortSkel []),
  ("errlog_Abort", skel abortSkel []),
  ("cisco_LoginEnable", skel ciscoLoginEnableBody []),
  ("cisco_LoginEnable_waitPrompt", skel (ciscoWaitPromptBody .cur) []),
  ("httpdevice_TryReachableHTTPLogin", skel (tryReachableBody .skip) []),
  ("asa_ApplyCommands", skel asaApplyBody []),
  ("asa_cmd", skel (asaCmdBody .change .cur) []),
  ("asa_CloseConnection", skel (Backend.closeConnectionBody .asa) []),
  ("asa_LoadDevice", skel asaLoadDevice []),
  ("asa_setTerminal", skel asaSetTerminal []),
  ("asa_logVersion", skel asaLogVersionBody []),
  ("asa_checkDeviceName", skel asaCheckDeviceNameBody []),
  ("ios_ApplyCommands", skel iosApplyBody []),
  ("ios_cmd", skel (iosCmdBody .change .cur) []),
  ("ios_writeMem", skel iosWriteMemBody []),
  ("ios_prepareDevice", skel iosPrepareDeviceBody []),
  ("ios_sendReloadCmd", skel (iosSendReloadCmdBody false) []),
  ("ios_cancelReload", skel iosCancelReloadBody []),
  ("ios_CloseConnection", skel (Backend.closeConnectionBody .ios) []),
  ("ios_LoadDevice", skel iosLoadDevice []),
  ("ios_setTerminal", skel iosSetTerminalBody []),
  ("ios_logVersion", skel iosLogVersionBody []),
  ("ios_checkDeviceName", skel iosCheckDeviceNameBody []),
  ("linux_ApplyCommands", skel linuxApplyBody []),
  ("linux_cmd", skel (linuxCmdBody .change .cur) []),
  ("linux_writeStartupRouting", skel linuxWriteStartupRoutingBody []),
  ("linux_writeStartupIPTables", skel linuxWriteStartupIPTablesBody []),
  ("linux_findIPTablesRestoreCmd", skel linuxFindRestoreBody []),
  ("linux_writeStartup", skel (linuxWriteStartupBody "routing") []),
  ("linux_putScp", skel (linuxPutScpBody "routing") []),
  ("linux_CloseConnection", skel (Backend.closeConnectionBody .linux) []),
  ("linux_LoadDevice", skel linuxLoadDevice []),
  ("linux_loginEnable", skel linuxLoginEnableBody []),
  ("linux_logVersion", skel linuxLogVersionBody []),
  ("linux_checkDeviceName", skel linuxCheckDeviceNameBody []),
  ("linux_checkBanner", skel linuxCheckBannerBody []),
  ("linux_getDeviceRoutes", skel linuxGetDeviceRoutesBody []),
  ("linux_getDeviceIPTables", skel linuxGetDeviceIPTablesBody []),
  ("panos_ApplyCommands", skel panosApplyBody []),
  ("panos_ApplyCommands_doCmd", skel (panosDoCmdBody .change .cur) []),
  ("panos_ApplyCommands_commit", skel panosCommitBody []),
  ("panos_httpPrefixGetLog", skel (panosHttpPrefixGetLogBody .change .cur) []),
  ("panos_httpGet", skel (panosHttpGetBody .change .cur) []),
  ("panos_CloseConnection", skel (Backend.closeConnectionBody .panos) []),
  ("panos_LoadDevice", skel panosLoadDevice []),
  ("panos_getAPIKey", skel panosGetAPIKeyBody []),
  ("panos_checkHA", skel panosCheckHABody []),
  ("nsx_ApplyCommands", skel nsxApplyBody []),
  ("nsx_sendRequest", skel (nsxSendRequestBody .change .cur) []),
  ("nsx_CloseConnection", skel (Backend.closeConnectionBody .nsx) []),
  ("nsx_LoadDevice", skel nsxLoadDevice []),
  ("nsx_getRawJSON", skel (nsxGetRawJSONBody .cur) []),
  ("device_ApproveOrCompare", skel (approveOrCompareBody .asa) []),
  ("device_approve", skel (approveBody .asa) []),
  ("device_compare", skel (compareBody .asa) []),
  ("device_compareDevice", skel (compareDeviceBody .asa) []),
  ("device_applyCommands", skel (applyCommandsBody .asa) []),
  ("device_showCompareInfo", skel showCompareInfoBody []),
  ("doapprove_Main", skel (doApproveMainSkel .asa) []),
  ("status_SetApprove", skel setApproveSkel []),
  ("status_SetCompare", skel setCompareSkel []) ]

/-- **Every regenerated skeleton is covered, and nothing else**: the list of (name, skeleton) the
translator writes on this run equals the list of (name, skeleton of the Lean program).  A function
that appears in or disappears from the translator's set, a renamed one, or any changed call site
breaks this single equality. -/
theorem skel_all_covered : NA.Gen.Skel.all = covered := by decide

/-- The skeleton theorems of every function a `compare` run can reach (do-approve / drc front end,
ApproveOrCompare, compare, LoadDevice of the five backends with everything it calls, the console
and HTTP primitives, CloseConnection, the status and history writers): for properties that are
about compare runs only (C11). -/
def comparePathSkel : List Lean.Name := [
  ``NA.C09.skel_device_ApproveOrCompare,
  ``NA.C09.skel_device_compare,
  ``NA.C09.skel_device_compareDevice,
  ``NA.C09.skel_device_showCompareInfo,
  ``NA.C09.skel_errlog_HandleAbort,
  ``NA.C09.skel_errlog_Abort,
  ``NA.C09.skel_doapprove_Main,
  ``NA.C09.skel_status_SetCompare,
  ``NA.C09.skel_console_Send,
  ``NA.C09.skel_console_SendCmd,
  ``NA.C09.skel_console_IssueCmd,
  ``NA.C09.skel_console_GetCmdOutput,
  ``NA.C09.skel_console_GetOutput,
  ``NA.C09.skel_console_waitPrompt,
  ``NA.C09.skel_console_WaitShort,
  ``NA.C09.skel_console_WaitLogin,
  ``NA.C09.skel_console_expectLog,
  ``NA.C09.skel_console_StripEcho,
  ``NA.C09.skel_console_StripStdPrompt,
  ``NA.C09.skel_console_Close,
  ``NA.C09.skel_cisco_LoginEnable,
  ``NA.C09.skel_cisco_LoginEnable_waitPrompt,
  ``NA.C09.skel_httpdevice_TryReachableHTTPLogin,
  ``NA.C09.skel_asa_LoadDevice,
  ``NA.C09.skel_asa_setTerminal,
  ``NA.C09.skel_asa_logVersion,
  ``NA.C09.skel_asa_checkDeviceName,
  ``NA.C09.skel_asa_CloseConnection,
  ``NA.C09.skel_ios_LoadDevice,
  ``NA.C09.skel_ios_setTerminal,
  ``NA.C09.skel_ios_logVersion,
  ``NA.C09.skel_ios_checkDeviceName,
  ``NA.C09.skel_ios_CloseConnection,
  ``NA.C09.skel_linux_LoadDevice,
  ``NA.C09.skel_linux_loginEnable,
  ``NA.C09.skel_linux_logVersion,
  ``NA.C09.skel_linux_checkDeviceName,
  ``NA.C09.skel_linux_checkBanner,
  ``NA.C09.skel_linux_getDeviceRoutes,
  ``NA.C09.skel_linux_getDeviceIPTables,
  ``NA.C09.skel_linux_CloseConnection,
  ``NA.C09.skel_panos_LoadDevice,
  ``NA.C09.skel_panos_getAPIKey,
  ``NA.C09.skel_panos_checkHA,
  ``NA.C09.skel_panos_httpPrefixGetLog,
  ``NA.C09.skel_panos_httpGet,
  ``NA.C09.skel_panos_CloseConnection,
  ``NA.C09.skel_nsx_LoadDevice,
  ``NA.C09.skel_nsx_getRawJSON,
  ``NA.C09.skel_nsx_sendRequest,
  ``NA.C09.skel_nsx_CloseConnection]

end NA.C09
