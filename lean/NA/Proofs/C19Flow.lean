import NA.Model.NewPolicy
/-!
# C19 — program-generic machinery

A tiny verified data-flow framework: a *domain* gives abstract facts, a transfer function per
abstract command and branch, and a requirement per command.  `check D prog ann` is a decidable
test that the annotation `ann` (one fact set per instruction, `none` = unreachable) is inductive
for the program and that every reachable instruction meets its requirement.  The theorems of
`NA/Proofs/C19*.lean` say: if `check` succeeds then the concrete invariants hold in every
reachable state of every schedule.  `NA/Props/C19.lean` evaluates `check` on the program that
`shgen` regenerated from the script (kernel computation), so an edit of the script that breaks
the ordering/locking/numbering discipline makes that evaluation false.

`infer` computes an annotation (not verified; only its `check` matters).
-/
namespace NA.C19

structure Dom where
  F     : Type
  le    : F → F → Bool          -- `le a b`: every fact of `b` is a fact of `a`
  meet  : F → F → F
  entry : F
  tf    : Cmd → F → Bool → Option F     -- facts after the command on the ok / fail branch; none = branch impossible
  req   : Cmd → F → Bool                -- what must be known before the command runs

abbrev Ann (D : Dom) := List (Option D.F)

def Dom.at (D : Dom) (ann : Ann D) (pc : Nat) : Option D.F := ann.getD pc none

def checkEdge (D : Dom) (ann : Ann D) (x : Option D.F) (succ : Nat) : Bool :=
  match x with
  | none => true
  | some a =>
    match D.at ann succ with
    | some b => D.le a b
    | none => false

def checkAt (D : Dom) (prog : Prog) (ann : Ann D) (pc : Nat) (i : Instr) : Bool :=
  match D.at ann pc with
  | none => true
  | some a =>
    D.req i.cmd a && decide (i.ok < prog.length) && decide (i.fail < prog.length) &&
    checkEdge D ann (D.tf i.cmd a true) i.ok && checkEdge D ann (D.tf i.cmd a false) i.fail

def check (D : Dom) (prog : Prog) (ann : Ann D) : Bool :=
  decide (ann.length = prog.length) &&
  (match D.at ann 0 with
   | some a => D.le D.entry a
   | none => false) &&
  (List.range prog.length).all fun pc =>
    match prog[pc]? with
    | some i => checkAt D prog ann pc i
    | none => false

/-! ### Inference (plain forward propagation, a fixed number of rounds) -/

def joinInto (D : Dom) (ann : Ann D) (pc : Nat) (x : D.F) : Ann D :=
  match D.at ann pc with
  | none => ann.set pc (some x)
  | some b => ann.set pc (some (D.meet x b))

def propagate (D : Dom) (prog : Prog) (ann : Ann D) (pc : Nat) : Ann D :=
  match prog[pc]?, D.at ann pc with
  | some i, some a =>
    let ann := match D.tf i.cmd a true with
      | some x => joinInto D ann i.ok x
      | none => ann
    match D.tf i.cmd a false with
    | some x => joinInto D ann i.fail x
    | none => ann
  | _, _ => ann

def inferRound (D : Dom) (prog : Prog) (ann : Ann D) : Ann D :=
  (List.range prog.length).foldl (propagate D prog) ann

def inferLoop (D : Dom) (prog : Prog) : Nat → Ann D → Ann D
  | 0, ann => ann
  | n + 1, ann => inferLoop D prog n (inferRound D prog ann)

def infer (D : Dom) (prog : Prog) (rounds : Nat := 3) : Ann D :=
  inferLoop D prog rounds ((List.replicate prog.length none).set 0 (some D.entry))

/-! ### What `check` gives -/

theorem check_len {D : Dom} {prog : Prog} {ann : Ann D} (h : check D prog ann = true) :
    ann.length = prog.length := by
  simp [check] at h
  exact h.1.1

theorem check_entry {D : Dom} {prog : Prog} {ann : Ann D} (h : check D prog ann = true) :
    ∃ a, D.at ann 0 = some a ∧ D.le D.entry a = true := by
  simp [check] at h
  obtain ⟨⟨_, h2⟩, _⟩ := h
  split at h2
  · exact ⟨_, by assumption, h2⟩
  · simp at h2

theorem check_at {D : Dom} {prog : Prog} {ann : Ann D} (h : check D prog ann = true)
    {pc : Nat} {i : Instr} (hi : prog[pc]? = some i) : checkAt D prog ann pc i = true := by
  simp [check] at h
  have hlt : pc < prog.length := by
    rcases Nat.lt_or_ge pc prog.length with h1 | h1
    · exact h1
    · have := List.getElem?_eq_none h1; simp [this] at hi
  have := h.2 pc hlt
  simp [hi] at this
  exact this

/-- Everything `check` establishes for a reachable instruction. -/
theorem check_step {D : Dom} {prog : Prog} {ann : Ann D} (h : check D prog ann = true)
    {pc : Nat} {i : Instr} {a : D.F} (hi : prog[pc]? = some i) (ha : D.at ann pc = some a) :
    D.req i.cmd a = true ∧ i.ok < prog.length ∧ i.fail < prog.length ∧
    (∀ x, D.tf i.cmd a true = some x → ∃ b, D.at ann i.ok = some b ∧ D.le x b = true) ∧
    (∀ x, D.tf i.cmd a false = some x → ∃ b, D.at ann i.fail = some b ∧ D.le x b = true) := by
  have hc := check_at h hi
  simp [checkAt, ha] at hc
  obtain ⟨⟨⟨⟨h1, h2⟩, h3⟩, h4⟩, h5⟩ := hc
  refine ⟨h1, h2, h3, ?_, ?_⟩
  · intro x hx
    simp [checkEdge, hx] at h4
    split at h4
    · exact ⟨_, by assumption, h4⟩
    · simp at h4
  · intro x hx
    simp [checkEdge, hx] at h5
    split at h5
    · exact ⟨_, by assumption, h5⟩
    · simp at h5

theorem at_some_lt {D : Dom} {ann : Ann D} {pc : Nat} {a : D.F} (h : D.at ann pc = some a) :
    pc < ann.length := by
  rcases Nat.lt_or_ge pc ann.length with h1 | h1
  · exact h1
  · simp [Dom.at, List.getD, List.getElem?_eq_none h1] at h

/-! ### Processes in a list -/

def UniquePids (ps : List Proc) : Prop := ∀ p ∈ ps, ∀ q ∈ ps, p.pid = q.pid → p = q

theorem findProc_some {ps : List Proc} {pid : Nat} {p : Proc} (h : findProc ps pid = some p) :
    p ∈ ps ∧ p.pid = pid := by
  unfold findProc at h
  have h1 := List.mem_of_find?_eq_some h
  have h2 := List.find?_some h
  simp at h2
  exact ⟨h1, h2⟩

theorem mem_replaceProc {ps : List Proc} {p' q : Proc} (h : q ∈ replaceProc ps p') :
    (q = p' ∧ ∃ q0 ∈ ps, q0.pid = p'.pid) ∨ (q ∈ ps ∧ q.pid ≠ p'.pid) := by
  unfold replaceProc at h
  rw [List.mem_map] at h
  obtain ⟨q0, hq0, hq⟩ := h
  by_cases hp : q0.pid = p'.pid
  · simp [hp] at hq; exact Or.inl ⟨hq.symm, q0, hq0, hp⟩
  · simp [hp] at hq; subst hq; exact Or.inr ⟨hq0, hp⟩

theorem unique_replaceProc {ps : List Proc} {p' : Proc} (hu : UniquePids ps) :
    UniquePids (replaceProc ps p') := by
  intro a ha b hb hab
  rcases mem_replaceProc ha with ⟨rfl, _⟩ | ⟨ha1, ha2⟩ <;> rcases mem_replaceProc hb with ⟨rfl, _⟩ | ⟨hb1, hb2⟩
  · rfl
  · exact absurd hab.symm hb2
  · exact absurd hab ha2
  · exact hu a ha1 b hb1 hab

end NA.C19
