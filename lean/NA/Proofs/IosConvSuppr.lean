import NA.Proofs.IosConvBlk
import NA.Proofs.IosConvMove
/-!
Helpers for the convergence of the IOS planner, part 6: for ACLs without remark lines every
move that `planIOS` suppresses is harmless (`SupprOK`).
-/
namespace NA.Acl

attribute [-simp] List.getD_eq_getElem?_getD

/-! ### Runs: strictly increasing `before`, membership -/

theorem insertRuns_before_ge (M : List Cell) (idx b : Nat) :
    ∀ r ∈ insertRuns M idx b, b ≤ r.1 := by
  induction M generalizing idx b with
  | nil => simp [insertRuns]
  | cons c M ih =>
    intro r hr
    simp only [insertRuns] at hr
    split at hr
    · cases hR : insertRuns M (idx + 1) b with
      | nil => simp [hR] at hr; simp [hr]
      | cons r' rest =>
        obtain ⟨b', i', ls⟩ := r'
        have hge : ∀ r ∈ (b', i', ls) :: rest, b ≤ r.1 := by rw [← hR]; exact ih _ _
        simp only [hR] at hr
        split at hr
        · rcases List.mem_cons.mp hr with h | h
          · simp [h]
          · exact hge r (List.mem_cons_of_mem _ h)
        · rcases List.mem_cons.mp hr with h | h
          · simp [h]
          · exact hge r h
    · have := ih _ _ r hr
      split at this <;> omega

/-- Under `noJunk` a head run with `before = b` starts right here. -/
theorem insertRuns_head_idx (M : List Cell) (hj : noJunk M = true) (idx b : Nat)
    (r : Nat × Nat × List Line) (rest : List (Nat × Nat × List Line))
    (h : insertRuns M idx b = r :: rest) (hb : r.1 = b) : r.2.1 = idx := by
  cases M with
  | nil => simp [insertRuns] at h
  | cons c M =>
    simp only [insertRuns] at h
    split at h
    · cases hR : insertRuns M (idx + 1) b with
      | nil => simp [hR] at h; simp [← h.1]
      | cons r' rest' =>
        obtain ⟨b', i', ls⟩ := r'
        simp only [hR] at h
        split at h <;> (simp at h; simp [← h.1])
    · rename_i hc
      have hco : c.old = true := by
        have := (List.all_eq_true.mp hj) c List.mem_cons_self
        cases ho : c.old <;> cases hn : c.new <;> simp_all
      simp only [hco, if_true] at h
      have := insertRuns_before_ge M (idx + 1) (b + 1) r (by rw [h]; exact List.mem_cons_self)
      omega

theorem insertRuns_before_sorted (M : List Cell) (hj : noJunk M = true) (idx b : Nat) :
    (insertRuns M idx b).Pairwise fun r r' => r.1 < r'.1 := by
  induction M generalizing idx b with
  | nil => simp [insertRuns]
  | cons c M ih =>
    have hj' : noJunk M = true := by
      simp only [noJunk, List.all_cons, Bool.and_eq_true] at hj; exact hj.2
    simp only [insertRuns]
    split
    · cases hR : insertRuns M (idx + 1) b with
      | nil => simp
      | cons r' rest =>
        obtain ⟨b', i', ls⟩ := r'
        have hp := ih hj' (idx + 1) b
        rw [hR] at hp
        obtain ⟨hp1, hp2⟩ := List.pairwise_cons.mp hp
        simp only
        split
        · rename_i hm
          simp only [Bool.and_eq_true, beq_iff_eq] at hm
          obtain ⟨rfl, rfl⟩ := hm
          exact List.pairwise_cons.mpr ⟨hp1, hp2⟩
        · rename_i hm
          have hge := insertRuns_before_ge M (idx + 1) b (b', i', ls) (by rw [hR]; exact List.mem_cons_self)
          simp only at hge
          have hne : b' ≠ b := by
            intro e
            have := insertRuns_head_idx M hj' (idx + 1) b _ _ hR e
            simp only at this
            simp [e, this] at hm
          have hlt : b < b' := by omega
          refine List.pairwise_cons.mpr ⟨?_, hp⟩
          intro r hr
          rcases List.mem_cons.mp hr with rfl | hr
          · exact hlt
          · have := hp1 r hr; simp only at this ⊢; omega
    · exact ih hj' _ _

theorem pairwise_lt_inj {α : Type} (f : α → Nat) (l : List α) (h : l.Pairwise fun a b => f a < f b)
    {a b : α} (ha : a ∈ l) (hb : b ∈ l) (hab : f a = f b) : a = b := by
  induction l with
  | nil => simp at ha
  | cons x l ih =>
    obtain ⟨h1, h2⟩ := List.pairwise_cons.mp h
    rcases List.mem_cons.mp ha with ha' | ha'
    · rcases List.mem_cons.mp hb with hb' | hb'
      · rw [ha', hb']
      · have := h1 b hb'; rw [ha'] at hab; omega
    · rcases List.mem_cons.mp hb with hb' | hb'
      · have := h1 a ha'; rw [hb'] at hab; omega
      · exact ih h2 ha' hb'

theorem itemsFrom4_mem (bf idx o : Nat) (ls : List Line) (i : Nat) (b : Line) (h : ls[i]? = some b) :
    (idx + i, bf, o + i, b) ∈ itemsFrom4 bf idx o ls := by
  induction ls generalizing idx o i with
  | nil => simp at h
  | cons l ls ih =>
    cases i with
    | zero => simp at h; simp [itemsFrom4, h]
    | succ i =>
      simp only [List.getElem?_cons_succ] at h
      simp only [itemsFrom4, List.mem_cons]
      right
      have := ih (idx + 1) (o + 1) i h
      have e1 : idx + 1 + i = idx + (i + 1) := by omega
      have e2 : o + 1 + i = o + (i + 1) := by omega
      rw [e1, e2] at this
      exact this

theorem itemsFrom4_mem_inv (bf idx o : Nat) (ls : List Line) (x : Item4) (h : x ∈ itemsFrom4 bf idx o ls) :
    ∃ i, ls[i]? = some x.2.2.2 ∧ x.1 = idx + i ∧ x.2.1 = bf ∧ x.2.2.1 = o + i := by
  induction ls generalizing idx o with
  | nil => simp [itemsFrom4] at h
  | cons l ls ih =>
    simp only [itemsFrom4, List.mem_cons] at h
    rcases h with rfl | h
    · exact ⟨0, by simp, by simp, rfl, by simp⟩
    · obtain ⟨i, h1, h2, h3, h4⟩ := ih _ _ h
      exact ⟨i + 1, by simpa using h1, by omega, h3, by omega⟩

/-- Every new-only cell sits in a run of the model, at offset `runOff`, with `before = countOld`. -/
theorem cell_in_run (M : List Cell) {k : Nat} (hk : k ∈ addIdx M) :
    ∃ r ∈ insertRuns M 0 0, r.1 = countOld M k ∧ k = r.2.1 + runOff M k ∧
      r.2.2[runOff M k]? = some (M.getD k default).line := by
  have : item4 M k ∈ flat4 (insertRuns M 0 0) := by
    rw [insertRuns_items]; exact List.mem_map.mpr ⟨k, hk, rfl⟩
  simp only [flat4, List.mem_flatMap] at this
  obtain ⟨r, hr, hx⟩ := this
  obtain ⟨i, h1, h2, h3, h4⟩ := itemsFrom4_mem_inv _ _ _ _ _ hx
  simp only [item4, Nat.zero_add] at h1 h2 h3 h4
  refine ⟨r, hr, h3.symm, by omega, ?_⟩
  rw [h4]; exact h1

/-- … and every position of a run is such a cell. -/
theorem run_cell (M : List Cell) {r : Nat × Nat × List Line} (hr : r ∈ insertRuns M 0 0) {i : Nat}
    {b : Line} (h : r.2.2[i]? = some b) :
    r.2.1 + i ∈ addIdx M ∧ countOld M (r.2.1 + i) = r.1 ∧ runOff M (r.2.1 + i) = i ∧
      (M.getD (r.2.1 + i) default).line = b := by
  have h1 := itemsFrom4_mem r.1 r.2.1 0 r.2.2 i b h
  have h2 : (r.2.1 + i, r.1, 0 + i, b) ∈ flat4 (insertRuns M 0 0) := by
    simp only [flat4, List.mem_flatMap]; exact ⟨r, hr, h1⟩
  rw [insertRuns_items] at h2
  obtain ⟨j, hj, he⟩ := List.mem_map.mp h2
  simp only [item4, Prod.mk.injEq, Nat.zero_add] at he
  obtain ⟨rfl, e2, e3, e4⟩ := he
  exact ⟨hj, e2, e3, e4⟩

/-! ### Old cells and the device list -/

theorem countOld_le_olds (M : List Cell) (k : Nat) : countOld M k ≤ (olds M).length := by
  unfold countOld olds
  rw [List.length_map]
  exact List.Sublist.length_le ((List.take_sublist _ _).filter _)

theorem olds_getD (M : List Cell) (k : Nat) (hk : k < M.length) (ho : (M.getD k default).old = true) :
    countOld M k < (olds M).length ∧ (olds M).getD (countOld M k) default = (M.getD k default).line := by
  have hc : M.getD k default = M[k] := by simp [hk, List.getD_eq_getElem?_getD]
  rw [hc] at ho ⊢
  have hsplit : M = M.take k ++ M[k] :: M.drop (k + 1) := by
    rw [List.getElem_cons_drop, List.take_append_drop]
  have holds : olds M = ((M.take k).filter (·.old)).map (·.line) ++
      M[k].line :: ((M.drop (k + 1)).filter (·.old)).map (·.line) := by
    have := congrArg (List.filter (·.old)) hsplit
    rw [List.filter_append, List.filter_cons_of_pos (by simpa using ho)] at this
    unfold olds
    rw [this]
    simp
  have hlen : countOld M k = (((M.take k).filter (·.old)).map (·.line)).length := by
    simp [countOld]
  constructor
  · rw [holds, hlen]; simp
  · rw [List.getD_eq_getElem?_getD, holds, hlen, List.getElem?_append_right (Nat.le_refl _)]
    simp

/-! ### A suppressed move only crosses lines of its own action -/

theorem class_act {al : List Line} {blk : List Nat} {mx : Nat} {R : List (Nat × Nat × List Line)}
    (hg : Good al blk mx R) {lo hi x y : Nat} (hlh : blk.getD lo 0 = blk.getD hi 0) (hhi : hi < al.length)
    (hx1 : lo ≤ x) (hx2 : x ≤ hi) (hy1 : lo ≤ y) (hy2 : y ≤ hi) :
    (al.getD x default).act = (al.getD y default).act := by
  have ex := hg.contig lo x hi hx1 hx2 hhi hlh
  have ey := hg.contig lo y hi hy1 hy2 hhi hlh
  rcases Nat.le_total x y with h | h
  · exact hg.act x y h (by omega) (by rw [ex, ey])
  · exact (hg.act y x h (by omega) (by rw [ex, ey])).symm

theorem class_run {al : List Line} {blk : List Nat} {mx : Nat} {R : List (Nat × Nat × List Line)}
    (hg : Good al blk mx R) {lo hi : Nat} (hlh : blk.getD lo 0 = blk.getD hi 0) (hhi : hi < al.length)
    {r : Nat × Nat × List Line} (hr : r ∈ R) (h1 : lo < r.1) (h2 : r.1 ≤ hi) {l : Line} (hl : l ∈ r.2.2) :
    l.act = (al.getD lo default).act :=
  hg.runs r hr lo hi h1 h2 hhi hlh l hl

theorem numOf_inj (M : List Cell) (hj : noJunk M = true) (hs : runsShort M) {i j : Nat}
    (hi : i < M.length) (hjl : j < M.length) (h : numOf M i = numOf M j) : i = j := by
  rcases Nat.lt_trichotomy i j with hlt | heq | hgt
  · have := numOf_strictMono M hj hs hlt hjl; omega
  · exact heq
  · have := numOf_strictMono M hj hs hgt hi; omega

theorem mem_of_getElem? {α : Type} {l : List α} {i : Nat} {a : α} (h : l[i]? = some a) : a ∈ l :=
  List.mem_of_getElem? h

theorem suppr_between_act (M : List Cell) (hjunk : noJunk M = true) (hruns : runsShort M)
    (blk : List Nat) (mx : Nat) (hgood : Good (olds M) blk mx (insertRuns M 0 0).reverse)
    {j d : Nat} (hj : j ∈ addIdx M) (hd : d ∈ delIdx M)
    (hline : (M.getD j default).line.act = (M.getD d default).line.act)
    (hlk : iosDelLookup M (M.getD j default).line.mkey = some (countOld M d))
    (r : Nat × Nat × List Line) (hr : r ∈ insertRuns M 0 0) (hrsn : RunRsn M blk r (newItem M j)) :
    ∀ k, k < M.length → (j < k ∧ k < d ∨ d < k ∧ k < j) →
      (M.getD k default).line.act = (M.getD d default).line.act := by
  obtain ⟨i, b, ai, h1, h2, h3, h4, h5⟩ := hrsn
  obtain ⟨hjl, hjn⟩ := mem_addIdxI.mp hj
  obtain ⟨hdl, hdo⟩ := mem_delIdxI.mp hd
  simp only [Cell.newOnly, Cell.oldOnly, Bool.and_eq_true, Bool.not_eq_true'] at hjn hdo
  simp only [newItem, Prod.mk.injEq] at h2
  obtain ⟨hnum, hb⟩ := h2
  -- identify the run position with cell `j`
  obtain ⟨hj'mem, hco', hoff', hline'⟩ := run_cell M hr h1
  have hj'l := (mem_addIdxI.mp hj'mem).1
  have hj'n := (mem_addIdxI.mp hj'mem).2
  simp only [Cell.newOnly, Bool.and_eq_true, Bool.not_eq_true'] at hj'n
  have hjj : r.2.1 + i = j := by
    apply numOf_inj M hjunk hruns hj'l hjl
    rw [hnum]
    simp [numOf, hj'n.2, hco', hoff']
  have hbefore : countOld M j = r.1 := by rw [← hjj]; exact hco'
  have hai : ai = countOld M d := by
    rw [← hb, hlk] at h4; exact (Option.some.inj h4).symm
  subst hai
  -- the device line of `d`
  obtain ⟨hail, hald⟩ := olds_getD M d hdl hdo.1
  rw [← hald]
  have hlen : blk.length = (olds M).length := hgood.len
  have hcoj_le : countOld M j ≤ (olds M).length := countOld_le_olds M j
  -- action of line j
  have hactj : (M.getD j default).line.act = ((olds M).getD (countOld M d) default).act := by
    rw [hald, hline]
  -- moveOK: positions ≤ i of the run have the action of position i
  have hmove : ∀ i' c, i' ≤ i → r.2.2[i']? = some c → c.act = b.act := by
    intro i' c hi' hc
    have hall := List.all_eq_true.mp h3
    have hm1 : c ∈ r.2.2.take (i + 1) := by
      apply List.mem_of_getElem? (i := i')
      rw [List.getElem?_take]; simp [hc]; omega
    have hm2 : b ∈ r.2.2.take (i + 1) := by
      apply List.mem_of_getElem? (i := i)
      rw [List.getElem?_take]; simp [h1]
    have e1 := hall c hm1
    have e2 := hall b hm2
    simp only [beq_iff_eq] at e1 e2
    rw [← e1, ← e2]
  have hRmem : ∀ r', r' ∈ insertRuns M 0 0 → r' ∈ (insertRuns M 0 0).reverse :=
    fun r' h => List.mem_reverse.mpr h
  have hsorted := insertRuns_before_sorted M hjunk 0 0
  intro k hk hbetween
  -- k is an old cell or a new-only cell
  have hkc : M.getD k default = M[k] := by simp [hk, List.getD_eq_getElem?_getD]
  have hkj := (List.all_eq_true.mp hjunk) M[k] (List.getElem_mem _)
  rw [← hkc] at hkj
  simp only [blkCond, Bool.or_eq_true, Bool.and_eq_true, decide_eq_true_eq, beq_iff_eq] at h5
  by_cases hko : (M.getD k default).old = true
  · -- old cell: a device line
    obtain ⟨hkl, hkline⟩ := olds_getD M k hk hko
    rw [← hkline]
    rcases h5 with ⟨hpos, hcls⟩ | ⟨⟨_, hblt⟩, hcls⟩
    · rcases hbetween with ⟨hjk, hkd⟩ | ⟨hdk, hkj'⟩
      · -- A2
        have c1 := countOld_mono M (Nat.le_of_lt hjk)
        have c2 := countOld_lt M hkd hk hko
        exact class_act hgood hcls hail (by omega) (by omega) (by omega) (by omega)
      · -- A1
        have c1 := countOld_lt M hdk hdl hdo.1
        have c2 := countOld_lt M hkj' hk hko
        exact class_act hgood hcls.symm (by omega) (by omega) (by omega) (by omega) (by omega)
    · rcases hbetween with ⟨hjk, hkd⟩ | ⟨hdk, hkj'⟩
      · -- B1
        have c1 := countOld_mono M (Nat.le_of_lt hjk)
        have c2 := countOld_lt M hkd hk hko
        exact class_act hgood hcls hail (by omega) (by omega) (by omega) (by omega)
      · -- B2
        have c1 := countOld_lt M hdk hdl hdo.1
        have c2 := countOld_lt M hkj' hk hko
        exact class_act hgood hcls.symm (by omega) (by omega) (by omega) (by omega) (by omega)
  · -- new-only cell: in some run
    have hkn : k ∈ addIdx M := by
      refine mem_addIdxI.mpr ⟨hk, ?_⟩
      simp only [Bool.not_eq_true] at hko
      simp [hko] at hkj
      simp [Cell.newOnly, hko, hkj]
    simp only [Bool.not_eq_true] at hko
    obtain ⟨rk, hrk, hrkb, hrki, hrkl⟩ := cell_in_run M hkn
    have hlmem : (M.getD k default).line ∈ rk.2.2 := List.mem_of_getElem? hrkl
    -- same `before` ⇒ same run
    have hsame : countOld M k = countOld M j → rk = r := by
      intro e
      exact pairwise_lt_inj (fun r => r.1) _ hsorted hrk hr (by show rk.1 = r.1; rw [hrkb, e, hbefore])
    rcases h5 with ⟨hpos, hcls⟩ | ⟨⟨hsa, hblt⟩, hcls⟩
    · rcases hbetween with ⟨hjk, hkd⟩ | ⟨hdk, hkj'⟩
      · -- A2: class [before-1, ai]
        have c1 := countOld_mono M (Nat.le_of_lt hjk)
        have c2 := countOld_mono M (Nat.le_of_lt hkd)
        have := class_run hgood hcls hail (hRmem rk hrk) (by omega) (by omega) hlmem
        rw [this]
        exact class_act hgood hcls hail (by omega) (by omega) (by omega) (by omega)
      · -- A1: class [ai, before-1]
        have c1 := countOld_lt M hdk hdl hdo.1
        have c2 := countOld_mono M (Nat.le_of_lt hkj')
        by_cases hsr : countOld M k = countOld M j
        · have := hsame hsr
          subst this
          have hoff : runOff M k ≤ i := by omega
          rw [hmove (runOff M k) _ hoff hrkl, ← hb, hactj]
        · have := class_run hgood hcls.symm (by omega) (hRmem rk hrk) (by omega) (by omega) hlmem
          rw [this]
    · rcases hbetween with ⟨hjk, hkd⟩ | ⟨hdk, hkj'⟩
      · -- B1: class [before, ai]
        have c1 := countOld_mono M (Nat.le_of_lt hjk)
        have c2 := countOld_mono M (Nat.le_of_lt hkd)
        by_cases hsr : countOld M k = countOld M j
        · have := hsame hsr
          subst this
          have hall := List.all_eq_true.mp hsa
          have e1 := hall _ hlmem
          have e2 := hall b (List.mem_of_getElem? h1)
          simp only [beq_iff_eq] at e1 e2
          rw [e1, ← e2, ← hb, hactj]
        · have := class_run hgood hcls hail (hRmem rk hrk) (by omega) (by omega) hlmem
          rw [this]
          exact class_act hgood hcls hail (by omega) (by omega) (by omega) (by omega)
      · -- B2: class [ai, before]
        have c1 := countOld_lt M hdk hdl hdo.1
        have c2 := countOld_mono M (Nat.le_of_lt hkj')
        have := class_run hgood hcls.symm (by omega) (hRmem rk hrk) (by omega) (by omega) hlmem
        rw [this]

/-! ### Assembly -/

/-- The plan with its suppression decisions `g`, each with the reason the code had. -/
theorem plan_general' (M : List Cell) (hboth : (M.any fun c => c.old && c.new) = true)
    (hnn : ((news M).map (·.mkey)).Nodup) :
    ∃ g : Nat → Bool, planIOS M = (addIdx M).flatMap (cellOpsG M g) ++ delsOf M ∧
      ∀ j ∈ addIdx M, g j = true → ∃ r ∈ insertRuns M 0 0, RunRsn M
        (blockPass (olds M) (insertRuns M 0 0) (blocksOf (olds M)) (maxBlock (olds M))).1 r
        (newItem M j) := by
  obtain ⟨flags, hlen, hplan, hrsn⟩ := planIOS_shape' M hboth (lookups_nodup M hnn)
  have hplan' : planIOS M =
      (((addIdx M).map (newItem M)).zip flags).flatMap (itemOps M) ++ delsOf M := hplan
  have haddnd : (addIdx M).Nodup := List.Nodup.sublist List.filter_sublist List.nodup_range
  obtain ⟨g, hg⟩ := flags_as_fun (addIdx M) haddnd flags hlen
  refine ⟨g, ?_, ?_⟩
  · rw [hplan', hg, List.zip_map', List.flatMap_map]
    rfl
  · intro j hj hgj
    rw [hg, List.zip_map'] at hrsn
    exact hrsn (newItem M j, g j) (List.mem_map.mpr ⟨j, hj, rfl⟩) hgj

/-- Without remark lines, and if a deleted and an inserted line with the same `mkey` are `E`-related
(`E` preserving the action), every suppressed move is harmless. -/
theorem supprOK_noremark (E : Line → Line → Prop) (hEact : ∀ a b, E a b → a.act = b.act)
    (M : List Cell) (hjunk : noJunk M = true) (hruns : runsShort M)
    (hnr : ∀ c ∈ M, c.line.remark = false)
    (hsame : ∀ i ∈ delIdx M, ∀ j ∈ addIdx M,
      (M.getD i default).line.mkey = (M.getD j default).line.mkey →
      E (M.getD i default).line (M.getD j default).line)
    (g : Nat → Bool)
    (hg : ∀ j ∈ addIdx M, g j = true → ∃ r ∈ insertRuns M 0 0, RunRsn M
      (blockPass (olds M) (insertRuns M 0 0) (blocksOf (olds M)) (maxBlock (olds M))).1 r
      (newItem M j)) :
    SupprOK E M ((addIdx M).filter (supprAt M g)) := by
  have hnro : noRemark (olds M) := by
    intro l hl
    simp only [olds, List.mem_map, List.mem_filter] at hl
    obtain ⟨c, ⟨hc, _⟩, rfl⟩ := hl
    exact hnr c hc
  have hgood := good_blockPass (olds M) hnro (insertRuns M 0 0)
  have hrem : ∀ k, k < M.length → (M.getD k default).line.remark = false := by
    intro k hk
    have hkc : M.getD k default = M[k] := by simp [hk, List.getD_eq_getElem?_getD]
    rw [hkc]; exact hnr _ (List.getElem_mem _)
  intro j hjS
  obtain ⟨hj, hsup⟩ := List.mem_filter.mp hjS
  simp only [supprAt, Bool.and_eq_true] at hsup
  obtain ⟨hgj, hsome⟩ := hsup
  cases hl : delLookup M (M.getD j default).line.mkey with
  | none => rw [hl] at hsome; exact absurd hsome (by simp)
  | some d =>
    obtain ⟨hd, hdm⟩ := delLookup_someI hl
    have hline := hsame d hd j hj hdm
    refine ⟨d, hd, hdm, hline, ?_⟩
    intro k hk hb _
    obtain ⟨r, hr, hrsn⟩ := hg j hj hgj
    have hact := suppr_between_act M hjunk hruns _ _ hgood hj hd (hEact _ _ hline).symm
      (by simp [iosDelLookup, hl]) r hr hrsn k hk hb
    exact Or.inr (Or.inr (act_eq_permit (hrem d (mem_delIdxI.mp hd).1) (hrem k hk) hact.symm))

theorem LineEqv.act {a b : Line} (h : LineEqv a b) : a.act = b.act := by
  obtain ⟨_, h2, h3, _⟩ := h
  simp [Line.act, h2, h3]

end NA.Acl
