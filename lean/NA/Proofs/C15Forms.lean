import NA.Proofs.C15Check
/-!
# C15 helper lemmas, part 5: `check` on each of the forms the device is known to produce
-/
namespace NA.Ios

variable {σ : Type}

/-! ### cleanliness of the script -/

/-- a change command line: no line feed, BEL or `#`, does not end in a blank, does not contain the
device name -/
structure CleanCmd (c : Str) : Prop where
  noNL : '\n' ∉ c
  noBell : '\x07' ∉ c
  noHash : '#' ∉ c
  lastNS : ∃ p x, c = p ++ [x] ∧ isUniSpace x = false
  noName : ∀ n, routerName.isPrefixOf (c.drop n) = false

/-- output of a command: whole lines, no BEL, no line starting with the device name -/
structure CleanOut (o : Str) : Prop where
  noBell : '\x07' ∉ o
  endsNL : o = [] ∨ ∃ o', o = o' ++ ['\n']
  noName : noPH ('\n' :: o) = true

structure CleanMsg (m : Str) : Prop where
  ne : m ≠ []
  noNL : '\n' ∉ m

theorem blank_append (a b : Str) : blank (a ++ b) = (blank a && blank b) := by
  simp [blank, List.all_append]

theorem blank_nls (n : Nat) : blank (nls n) = true := by
  simp [blank, nls, isUniSpace]

theorem CleanCmd.ne {c : Str} (h : CleanCmd c) : c ≠ [] := by
  obtain ⟨p, x, hc, _⟩ := h.lastNS; rw [hc]; simp

theorem CleanCmd.not_blank {c : Str} (h : CleanCmd c) : blank c = false := by
  obtain ⟨p, x, hc, hx⟩ := h.lastNS
  rw [hc, blank_append]; simp [blank, hx]

theorem CleanCmd.noPH {c : Str} (h : CleanCmd c) : noPH c = true := noPH_of_no_nl c h.noNL

theorem CleanCmd.runNoHash_append {c : Str} (h : CleanCmd c) (w : Str) :
    runNoHash (c ++ '\n' :: w) = true := by
  have : ∀ (c : Str), '#' ∉ c → runNoHash (c ++ '\n' :: w) = true := by
    intro c hc
    induction c with
    | nil => simp [runNoHash, isReSpace]
    | cons x c ih =>
      have hx : x ≠ '#' := fun e => hc (by simp [e])
      simp [runNoHash, hx, ih (fun e => hc (by simp [e]))]
  exact this c h.noHash

theorem runNoHash_take_append {c : Str} (h : CleanCmd c) (n : Nat) (w : Str) :
    runNoHash (c.take n ++ '\n' :: w) = true := by
  have : ∀ (c : Str), '#' ∉ c → runNoHash (c ++ '\n' :: w) = true := by
    intro c hc
    induction c with
    | nil => simp [runNoHash, isReSpace]
    | cons x c ih =>
      have hx : x ≠ '#' := fun e => hc (by simp [e])
      simp [runNoHash, hx, ih (fun e => hc (by simp [e]))]
  exact this _ (fun e => h.noHash (List.mem_of_mem_take e))

/-- echo + output is a sequence of whole lines -/
theorem echo_out_endsNL (ci out : Str) (ho : CleanOut out) : ∃ u, ci ++ '\n' :: out = u ++ ['\n'] := by
  rcases ho.endsNL with rfl | ⟨o', rfl⟩
  · exact ⟨ci, rfl⟩
  · exact ⟨ci ++ '\n' :: o', by simp⟩

theorem noPH_echo_out (ci out : Str) (hc : CleanCmd ci) (ho : CleanOut out) :
    noPH (ci ++ '\n' :: out) = true := by
  have h := ho.noName
  rw [noPH] at h
  simp only [bne_self_eq_false, Bool.false_or, Bool.and_eq_true, Bool.not_eq_true'] at h
  rw [noPH_append_nl, hc.noPH, h.1, h.2]; rfl

theorem noPH_drop_last (u : Str) (h : noPH (u ++ ['\n']) = true) : noPH u = true := by
  rw [noPH_append_nl] at h
  simp only [Bool.and_eq_true] at h
  exact h.1.1

theorem prompt_eq : prompt = routerName ++ ['#'] := by decide

/-- `GetOutput` on `Y ++ "router#" ++ v` where `Y` is a sequence of whole lines -/
theorem getOutput_lines (st : St σ) (Y v : Str) (hY : ∃ u, Y = u ++ ['\n'])
    (hp : st.pend = Y ++ prompt ++ v) (hn : noPH Y = true) (hv : runNoHash v = true) :
    getOutput st = (.ok Y, setPend st v) := by
  obtain ⟨u, rfl⟩ := hY
  have hp' : st.pend = u ++ promptHead ++ '#' :: v := by
    rw [hp, prompt_eq, promptHead_eq]; simp
  exact getOutput_eval st u v hp' (noPH_drop_last u hn) hv

/-! ### no banner -/

theorem check_none (st : St σ) (ci out rest : Str) (hc : CleanCmd ci) (ho : CleanOut out)
    (hp : st.pend = ci ++ '\n' :: out ++ prompt ++ rest) (hr : runNoHash rest = true) :
    check ci st = (checkRes ci out out false, addWarns (setPend st rest) (warnsOf ci out)) := by
  have h1 := getOutput_lines st (ci ++ '\n' :: out) rest (echo_out_endsNL ci out ho)
    (by rw [hp]) (noPH_echo_out ci out hc ho) hr
  have h2 : stripReloadBanner (ci ++ '\n' :: out) (setPend st rest) =
      (.ok (ci ++ '\n' :: out, false), setPend st rest) :=
    strip_none _ _ (bannerFind_none _ (by
      intro h
      rcases List.mem_append.1 h with h | h
      · exact hc.noBell h
      · rcases List.mem_cons.1 h with h | h
        · cases h
        · exact ho.noBell h))
  exact check_compose st _ _ ci _ out out false h1 h2 rfl


/-! ### the banner inside a text -/

theorem bannerText_pieces (msg b : Str) :
    bannerText msg ++ b =
      '\n' :: ([] ++ '\n' :: ([] ++ '\n' :: (lit "\x07***" ++ '\n' ::
        ((lit "***" ++ msg) ++ '\n' :: (lit "***" ++ '\n' :: b))))) := by
  have e1 : lit "\n\n\n\x07***\n***" = '\n' :: '\n' :: '\n' :: (lit "\x07***" ++ '\n' :: lit "***") := by decide
  have e2 : lit "\n***\n" = '\n' :: (lit "***" ++ ['\n']) := by decide
  unfold bannerText
  rw [e1, e2]
  simp

theorem router_not_prefix_nl (w : Str) : routerName.isPrefixOf ('\n' :: w) = false := by
  simp [routerName, lit, List.isPrefixOf]

theorem noPH_banner (a b msg : Str) (hm : '\n' ∉ msg) :
    noPH (a ++ bannerText msg ++ b) = (noPH a && !routerName.isPrefixOf b && noPH b) := by
  have hstar : ∀ w, routerName.isPrefixOf (lit "***" ++ w) = false := by
    intro w; simp [routerName, lit, List.isPrefixOf]
  have hbell : ∀ w, routerName.isPrefixOf (lit "\x07***" ++ w) = false := by
    intro w; simp [routerName, lit, List.isPrefixOf]
  have hm' : noPH (lit "***" ++ msg) = true := noPH_of_no_nl _ (by
    intro h; rcases List.mem_append.1 h with h | h
    · revert h; decide
    · exact hm h)
  have h3 : noPH (lit "***") = true := by decide
  have h4 : noPH (lit "\x07***") = true := by decide
  rw [List.append_assoc, bannerText_pieces]
  rw [noPH_append_nl, noPH_append_nl, noPH_append_nl, noPH_append_nl, noPH_append_nl, noPH_append_nl]
  simp only [List.nil_append, router_not_prefix_nl, hbell, hstar, hm', h3, h4, List.append_assoc]
  simp [noPH, Bool.and_assoc]

theorem bell_not_mem_nls (n : Nat) : '\x07' ∉ nls n := by
  simp [nls]

theorem nls_snoc (n : Nat) : nls n ++ ['\n'] = '\n' :: nls n := by
  simp [nls, ← List.replicate_succ, List.replicate_succ']

theorem noPH_nls (n : Nat) (w : Str) : noPH (nls n ++ '\n' :: w) = (!routerName.isPrefixOf w && noPH w) := by
  induction n with
  | zero => simp [nls, noPH]
  | succ n ih =>
    have : nls (n + 1) ++ '\n' :: w = '\n' :: (nls n ++ '\n' :: w) := by simp [nls, List.replicate_succ]
    rw [this, noPH, ih]
    have : routerName.isPrefixOf (nls n ++ '\n' :: w) = false := by
      cases n with
      | zero => exact router_not_prefix_nl _
      | succ n => simp [nls, List.replicate_succ, routerName, lit, List.isPrefixOf]
    simp [this]

/-! ### form B: banner inside the echo -/

theorem check_inside (st : St σ) (ci out msg rest : Str) (off : Nat) (hc : CleanCmd ci) (ho : CleanOut out)
    (hm : CleanMsg msg)
    (hp : st.pend = ci.take off ++ bannerText msg ++ ci.drop off ++ '\n' :: out ++ prompt ++ rest)
    (ha : st.reloadActive = true) (hr : runNoHash rest = true)
    (hprobe : (ci.length ≤ off ∧ blank out = true) → rest = []) :
    check ci st = (checkRes ci out out (oneMinute msg), addWarns (setPend st rest) (warnsOf ci out)) := by
  -- first read
  let Y := ci.take off ++ bannerText msg ++ (ci.drop off ++ '\n' :: out)
  have hY : ∃ u, Y = u ++ ['\n'] := by
    obtain ⟨u, hu⟩ := echo_out_endsNL (ci.drop off) out ho
    exact ⟨ci.take off ++ bannerText msg ++ u, by simp [Y, hu]⟩
  have hnY : noPH Y = true := by
    show noPH (ci.take off ++ bannerText msg ++ (ci.drop off ++ '\n' :: out)) = true
    rw [noPH_banner _ _ _ hm.noNL]
    have h1 : noPH (ci.take off) = true := noPH_of_no_nl _ (fun e => hc.noNL (List.mem_of_mem_take e))
    have h2 : routerName.isPrefixOf (ci.drop off ++ '\n' :: out) = false := by
      rw [isPrefixOf_append_of_not_mem _ _ _ _ (by decide)]; exact hc.noName off
    have h3 : noPH (ci.drop off ++ '\n' :: out) = true := by
      have h := ho.noName
      rw [noPH] at h
      simp only [bne_self_eq_false, Bool.false_or, Bool.and_eq_true, Bool.not_eq_true'] at h
      rw [noPH_append_nl, noPH_of_no_nl _ (fun e => hc.noNL (List.mem_of_mem_drop e)), h.1, h.2]; rfl
    simp [h1, h2, h3]
  have h1 := getOutput_lines st Y rest hY (by rw [hp]; simp [Y]) hnY hr
  -- the banner
  have hf : bannerFind Y = some (ci.take off, msg, ci.drop off ++ '\n' :: out) :=
    bannerFind_banner _ _ _ (fun e => hc.noBell (List.mem_of_mem_take e)) hm.ne hm.noNL
  have hjoin : ci.take off ++ (ci.drop off ++ '\n' :: out) = ci ++ '\n' :: out := by
    rw [← List.append_assoc, List.take_append_drop]
  have hb1 : blank (ci.take off ++ (ci.drop off ++ '\n' :: out)) = false := by
    rw [hjoin, blank_append, hc.not_blank]; rfl
  have h2 : stripReloadBanner Y (setPend st rest) =
      (.ok (ci ++ '\n' :: out, oneMinute msg), setPend st rest) := by
    rw [← hjoin]
    cases hb2 : (!(ci.take off).isEmpty && blank (ci.drop off ++ '\n' :: out)) with
    | false => exact strip_plain _ _ _ _ _ (by simpa using ha) hf hb1 hb2
    | true =>
      -- probing placement: the banner ends the echo and the output is blank
      have hrest : rest = [] := by
        apply hprobe
        rw [blank_append] at hb2
        simp only [Bool.and_eq_true] at hb2
        obtain ⟨p, x, hcx, hx⟩ := hc.lastNS
        constructor
        · -- ci.drop off is blank, but it would contain the last character
          by_cases hlt : off < ci.length
          · exfalso
            have hmem : x ∈ ci.drop off := by
              have hlen : ci.length = p.length + 1 := by rw [hcx]; simp
              have : ci.drop off = p.drop off ++ [x] := by
                rw [hcx, List.drop_append_of_le_length (by omega)]
              rw [this]; simp
            have hall := hb2.2.1
            simp only [blank, List.all_eq_true] at hall
            have := hall x hmem
            rw [hx] at this; cases this
          · omega
        · have := hb2.2.2
          simp only [blank, List.all_cons, Bool.and_eq_true] at this
          exact this.2
      subst hrest
      exact strip_try_empty _ _ _ _ _ (by simpa using ha) hf hb1 hb2 rfl
  exact check_compose st _ _ ci Y out out _ h1 h2 rfl


theorem router_not_prefix_nls (n : Nat) : routerName.isPrefixOf (nls n) = false := by
  cases n with
  | zero => decide
  | succ n => simp [nls, List.replicate_succ, routerName, lit, List.isPrefixOf]

theorem noPH_nls' (n : Nat) : noPH (nls n) = true := by
  induction n with
  | zero => rfl
  | succ n ih =>
    have : nls (n + 1) = '\n' :: nls n := by simp [nls, List.replicate_succ]
    rw [this, noPH, ih, router_not_prefix_nls]; rfl

theorem noPH_append_nls (u : Str) (n : Nat) : noPH (u ++ nls n) = noPH u := by
  cases n with
  | zero => simp [nls]
  | succ n =>
    have : nls (n + 1) = '\n' :: nls n := by simp [nls, List.replicate_succ]
    rw [this, noPH_append_nl, router_not_prefix_nls, noPH_nls']; simp

theorem dropLastNL_snoc (u : Str) : dropLastNL (u ++ ['\n']) = u := by
  simp [dropLastNL]

/-! ### form A: banner and a fresh prompt before the echo -/

theorem check_before (st : St σ) (ci out msg : Str) (pad : Nat) (hc : CleanCmd ci) (ho : CleanOut out)
    (hm : CleanMsg msg)
    (hp : st.pend = nls pad ++ bannerText msg ++ '\n' :: prompt ++ (ci ++ '\n' :: out ++ prompt))
    (ha : st.reloadActive = true) :
    check ci st = (checkRes ci out out (oneMinute msg), addWarns (setPend st []) (warnsOf ci out)) := by
  let Y := nls pad ++ bannerText msg ++ ['\n']
  let v := ci ++ '\n' :: out ++ prompt
  have hnY : noPH Y = true := by
    show noPH (nls pad ++ bannerText msg ++ ['\n']) = true
    rw [noPH_banner _ _ _ hm.noNL, noPH_nls']; decide
  have hv : runNoHash v = true := by
    show runNoHash (ci ++ '\n' :: out ++ prompt) = true
    have := hc.runNoHash_append (out ++ prompt)
    simpa using this
  have h1 := getOutput_lines st Y v ⟨_, rfl⟩ (by rw [hp]; simp [Y, v]) hnY hv
  have hf : bannerFind Y = some (nls pad, msg, ['\n']) :=
    bannerFind_banner _ _ _ (bell_not_mem_nls pad) hm.ne hm.noNL
  obtain ⟨u, hu⟩ := echo_out_endsNL ci out ho
  have hpv : (setPend st v).pend = u ++ promptHead ++ ['#'] := by
    show ci ++ '\n' :: out ++ prompt = _
    rw [hu, prompt_eq, promptHead_eq]; simp
  have hnu : noPH u = true := noPH_drop_last u (by rw [← hu]; exact noPH_echo_out ci out hc ho)
  have h2 := strip_wait (setPend st v) Y (nls pad) msg ['\n'] u (by simpa using ha) hf
    (by rw [blank_append, blank_nls]; decide) hpv hnu
  rw [← hu, setPend_setPend] at h2
  exact check_compose st _ _ ci Y out out _ h1 h2 rfl

/-! ### forms C and D: banner after the output, with (`v` = a fresh prompt) or without one -/

theorem check_after (st : St σ) (ci out msg v rest : Str) (pad : Nat) (hc : CleanCmd ci) (ho : CleanOut out)
    (hm : CleanMsg msg)
    (hp : st.pend = dropLastNL (ci ++ '\n' :: out) ++ nls pad ++ bannerText msg ++ '\n' :: prompt ++ v)
    (ha : st.reloadActive = true)
    (hv : (v = [] ∧ rest = []) ∨ (v = promptHead ++ '#' :: rest ∧ runNoHash rest = true)) :
    ∃ R, neLines R = neLines out ∧
      check ci st = (checkRes ci out R (oneMinute msg), addWarns (setPend st rest) (warnsOf ci out)) := by
  obtain ⟨u, hu⟩ := echo_out_endsNL ci out ho
  have hbody : dropLastNL (ci ++ '\n' :: out) = u := by rw [hu]; exact dropLastNL_snoc u
  rw [hbody] at hp
  have hnu : noPH u = true := noPH_drop_last u (by rw [← hu]; exact noPH_echo_out ci out hc ho)
  let Y := u ++ nls pad ++ bannerText msg ++ ['\n']
  have hnY : noPH Y = true := by
    show noPH (u ++ nls pad ++ bannerText msg ++ ['\n']) = true
    rw [noPH_banner _ _ _ hm.noNL, noPH_append_nls, hnu]; decide
  have hrv : runNoHash v = true := by
    rcases hv with ⟨rfl, _⟩ | ⟨rfl, _⟩
    · rfl
    · rw [promptHead_eq]; simp [runNoHash, isReSpace]
  have h1 := getOutput_lines st Y v ⟨_, rfl⟩ (by rw [hp]; simp [Y]) hnY hrv
  -- u starts with the command
  have hbellu : '\x07' ∉ u := by
    intro h
    have : '\x07' ∈ ci ++ '\n' :: out := by rw [hu]; exact List.mem_append_left _ h
    rcases List.mem_append.1 this with h | h
    · exact hc.noBell h
    · rcases List.mem_cons.1 h with h | h
      · cases h
      · exact ho.noBell h
  have hf : bannerFind Y = some (u ++ nls pad, msg, ['\n']) :=
    bannerFind_banner _ _ _ (by
      intro h; rcases List.mem_append.1 h with h | h
      · exact hbellu h
      · exact bell_not_mem_nls pad h) hm.ne hm.noNL
  -- u = ci ++ something
  have hcu : ∃ w, u = ci ++ w ∧ (u ++ nls pad ++ ['\n'] = ci ++ '\n' :: (w.drop 1 ++ nls pad ++ (if w = [] then [] else ['\n'])) ) ∧
      neLines (w.drop 1 ++ nls pad ++ (if w = [] then [] else ['\n'])) = neLines out := by
    rcases ho.endsNL with rfl | ⟨o', rfl⟩
    · refine ⟨[], ?_, ?_, ?_⟩
      · have : ci ++ ['\n'] = u ++ ['\n'] := hu
        rw [List.append_nil]; exact (List.append_cancel_right this).symm
      · have : u = ci := (List.append_cancel_right (hu : ci ++ ['\n'] = u ++ ['\n'])).symm
        rw [this]; simp [nls_snoc]
      · simp [neLines_nls]; rfl
    · have hu' : u = ci ++ '\n' :: o' := by
        have : (ci ++ '\n' :: o') ++ ['\n'] = u ++ ['\n'] := by rw [← hu]; simp
        exact (List.append_cancel_right this).symm
      refine ⟨'\n' :: o', hu', ?_, ?_⟩
      · rw [hu']; simp
      · simp only [List.drop_succ_cons, List.drop_zero, reduceCtorEq, if_false]
        have e : o' ++ nls pad ++ ['\n'] = o' ++ '\n' :: nls pad := by
          rw [List.append_assoc, nls_snoc]
        rw [e, neLines_append_nl, neLines_nls, neLines_append_nl]
        have : neLines ([] : Str) = [] := by decide
        simp [this]
  obtain ⟨w, huw, hpay, hne⟩ := hcu
  have hb1 : blank (u ++ nls pad ++ ['\n']) = false := by
    rw [huw, blank_append, blank_append, blank_append, hc.not_blank]; rfl
  have hb2 : (!(u ++ nls pad).isEmpty && blank ['\n']) = true := by
    have : (u ++ nls pad).isEmpty = false := by
      rw [huw]; have := hc.ne
      cases ci with
      | nil => exact absurd rfl this
      | cons _ _ => rfl
    rw [this]; decide
  refine ⟨_, hne, ?_⟩
  have h2 : stripReloadBanner Y (setPend st v) =
      (.ok (u ++ nls pad ++ ['\n'], oneMinute msg), setPend st rest) := by
    rcases hv with ⟨rfl, rfl⟩ | ⟨rfl, hr⟩
    · exact strip_try_empty _ _ _ _ _ (by simpa using ha) hf hb1 hb2 rfl
    · have := strip_try_prompt (setPend st (promptHead ++ '#' :: rest)) Y _ msg ['\n'] rest
        (by simpa using ha) hf hb1 hb2 rfl hr
      rw [setPend_setPend] at this; exact this
  rw [hpay] at h2
  exact check_compose st _ _ ci Y _ out _ h1 h2 hne

/-! ### banner after the COMPLETE last line: `pre` extra empty lines before, `post` after, no fresh prompt -/

theorem nls_add (a b : Nat) : nls a ++ nls b = nls (a + b) := by
  simp [nls, List.replicate_append_replicate]

theorem nls_succ (n : Nat) : nls (n + 1) = '\n' :: nls n := by simp [nls, List.replicate_succ]

theorem bannerText_snoc (msg : Str) : bannerText msg = (bannerHead ++ msg ++ lit "\n***") ++ ['\n'] := by
  have : bannerTail = lit "\n***" ++ ['\n'] := by decide
  rw [bannerText_eq, this]; simp

theorem check_afterLine (st : St σ) (ci out msg : Str) (pre post : Nat) (hc : CleanCmd ci) (ho : CleanOut out)
    (hm : CleanMsg msg)
    (hp : st.pend = ci ++ '\n' :: out ++ nls pre ++ bannerText msg ++ nls post ++ prompt)
    (ha : st.reloadActive = true) :
    ∃ R, neLines R = neLines out ∧
      check ci st = (checkRes ci out R (oneMinute msg), addWarns (setPend st []) (warnsOf ci out)) := by
  obtain ⟨u, hu⟩ := echo_out_endsNL ci out ho
  have hnu : noPH u = true := noPH_drop_last u (by rw [← hu]; exact noPH_echo_out ci out hc ho)
  -- the complete line's line feed joins the empty lines in front of the banner
  have hp' : st.pend = (u ++ nls (pre + 1) ++ bannerText msg ++ nls post) ++ prompt ++ [] := by
    rw [hp, hu, nls_succ]; simp
  let Y := u ++ nls (pre + 1) ++ bannerText msg ++ nls post
  have hY : ∃ u', Y = u' ++ ['\n'] := by
    cases post with
    | zero => exact ⟨u ++ nls (pre + 1) ++ (bannerHead ++ msg ++ lit "\n***"), by
        show u ++ nls (pre + 1) ++ bannerText msg ++ nls 0 = _
        rw [bannerText_snoc]; simp [nls]⟩
    | succ k => exact ⟨u ++ nls (pre + 1) ++ bannerText msg ++ nls k, by
        show u ++ nls (pre + 1) ++ bannerText msg ++ nls (k + 1) = _
        rw [← nls_add k 1]; simp [nls]⟩
  have hnY : noPH Y = true := by
    show noPH (u ++ nls (pre + 1) ++ bannerText msg ++ nls post) = true
    rw [noPH_banner _ _ _ hm.noNL, noPH_append_nls, hnu, router_not_prefix_nls, noPH_nls']; rfl
  have h1 := getOutput_lines st Y [] hY hp' hnY rfl
  have hbellu : '\x07' ∉ u := by
    intro h
    have : '\x07' ∈ ci ++ '\n' :: out := by rw [hu]; exact List.mem_append_left _ h
    rcases List.mem_append.1 this with h | h
    · exact hc.noBell h
    · rcases List.mem_cons.1 h with h | h
      · cases h
      · exact ho.noBell h
  have hf : bannerFind Y = some (u ++ nls (pre + 1), msg, nls post) :=
    bannerFind_banner _ _ _ (by
      intro h; rcases List.mem_append.1 h with h | h
      · exact hbellu h
      · exact bell_not_mem_nls _ h) hm.ne hm.noNL
  -- u = ci ++ w, and the cleaned text is the echo line followed by the output and empty lines
  have hcu : ∃ R, u ++ nls (pre + 1) ++ nls post = ci ++ '\n' :: R ∧ neLines R = neLines out := by
    rcases ho.endsNL with rfl | ⟨o', rfl⟩
    · have hci : u = ci := (List.append_cancel_right (hu : ci ++ ['\n'] = u ++ ['\n'])).symm
      refine ⟨nls pre ++ nls post, by rw [hci, nls_succ]; simp, ?_⟩
      rw [nls_add, neLines_nls]; rfl
    · have hu' : u = ci ++ '\n' :: o' := by
        have : (ci ++ '\n' :: o') ++ ['\n'] = u ++ ['\n'] := by rw [← hu]; simp
        exact (List.append_cancel_right this).symm
      refine ⟨o' ++ nls (pre + 1) ++ nls post, by rw [hu']; simp, ?_⟩
      rw [List.append_assoc, nls_add, show pre + 1 + post = (pre + post) + 1 by omega, nls_succ,
        neLines_append_nl, neLines_nls, neLines_append_nl]
      have : neLines ([] : Str) = [] := by decide
      simp [this]
  obtain ⟨R, hpay, hne⟩ := hcu
  have hcne : ∃ w, u = ci ++ w := by
    rcases ho.endsNL with rfl | ⟨o', rfl⟩
    · exact ⟨[], by rw [(List.append_cancel_right (hu : ci ++ ['\n'] = u ++ ['\n'])).symm]; simp⟩
    · refine ⟨'\n' :: o', ?_⟩
      have : (ci ++ '\n' :: o') ++ ['\n'] = u ++ ['\n'] := by rw [← hu]; simp
      exact (List.append_cancel_right this).symm
  obtain ⟨w, huw⟩ := hcne
  have hb1 : blank (u ++ nls (pre + 1) ++ nls post) = false := by
    rw [huw, blank_append, blank_append, blank_append, hc.not_blank]; rfl
  have hb2 : (!(u ++ nls (pre + 1)).isEmpty && blank (nls post)) = true := by
    have : (u ++ nls (pre + 1)).isEmpty = false := by
      rw [huw]; have := hc.ne
      cases ci with
      | nil => exact absurd rfl this
      | cons _ _ => rfl
    rw [this, blank_nls]; rfl
  refine ⟨R, hne, ?_⟩
  have h2 : stripReloadBanner Y (setPend st []) =
      (.ok (u ++ nls (pre + 1) ++ nls post, oneMinute msg), setPend st []) :=
    strip_try_empty _ _ _ _ _ (by simpa using ha) hf hb1 hb2 rfl
  rw [hpay] at h2
  exact check_compose st _ _ ci Y _ out _ h1 h2 hne

end NA.Ios
