import NA.Proofs.C05Str
/-!
C05: the round trip `target → device → iptables-save → compare`, option by option.
`nEntry` is what `normalizeIPTables` makes of one entry of the option map; `opt_roundtrip` says that the
user's and the kernel's spelling of a grammar option give the same normalised entry.
-/
namespace NA.C05
open NA.Linux NA.Linux.Spec

/-- Entry-level view of `normalizeIPTables`; `d` = "the `-m` entry names the protocol". -/
def nEntry (d : Bool) (e : Str × Str) : Option (Str × Str) :=
  if e.1 = kM ∧ d = true then none
  else if e.1 = kXmark ∧ xConvV e.2 = true then some (kMark, normVal kMark e.2)
  else some (e.1, normVal e.1 e.2)

theorem b2neg_isNeg (b : Bool) : (b2neg b).isNeg = b := by cases b <;> rfl

theorem join1 (x : Str) : joinWith [' '] [x] = x := rfl

/-! ### per-key shapes of `normVal` -/

theorem normVal_s (v : Str) : normVal (s "-s") v = normAddr v := by
  unfold normVal; rw [if_pos (Or.inl rfl)]
theorem normVal_d (v : Str) : normVal (s "-d") v = normAddr v := by
  unfold normVal; rw [if_pos (Or.inr rfl)]
theorem normVal_p (v : Str) : normVal (s "-p") v = normProto v := by
  unfold normVal; rw [if_neg (by decide), if_pos rfl]
theorem normVal_sport (v : Str) : normVal (s "--sport") v = normPort v := by
  unfold normVal; rw [if_neg (by decide), if_neg (by decide), if_pos (Or.inl rfl)]
theorem normVal_dport (v : Str) : normVal (s "--dport") v = normPort v := by
  unfold normVal; rw [if_neg (by decide), if_neg (by decide), if_pos (Or.inr rfl)]
theorem normVal_state (v : Str) : normVal (s "--state") v = normState v := by
  unfold normVal; rw [if_neg (by decide), if_neg (by decide), if_neg (by decide), if_pos rfl]
theorem normVal_mark (v : Str) : normVal kMark v = normMark v := by
  unfold normVal kMark
  rw [if_neg (by decide), if_neg (by decide), if_neg (by decide), if_neg (by decide), if_pos rfl]
theorem normVal_log (v : Str) : normVal (s "--log-level") v = normLog v := by
  unfold normVal
  rw [if_neg (by decide), if_neg (by decide), if_neg (by decide), if_neg (by decide), if_neg (by decide), if_pos rfl]
/-- keys that are not rewritten -/
theorem normVal_other (k v : Str) (h : k ∉ [s "-s", s "-d", s "-p", s "--sport", s "--dport", s "--state",
    s "--set-mark", s "--log-level"]) : normVal k v = v := by
  simp only [List.mem_cons, List.not_mem_nil, or_false, not_or] at h
  obtain ⟨h1, h2, h3, h4, h5, h6, h7, h8⟩ := h
  unfold normVal
  rw [if_neg (by simp [h1, h2]), if_neg h3, if_neg (by simp [h4, h5]), if_neg h6, if_neg h7, if_neg h8]

/-! ### addresses -/

theorem addr_norm (pre ip : Str) (hpre : '/' ∉ pre) (hip : '/' ∉ ip) :
    normAddr (pre ++ (ip ++ ['/'] ++ s "32")) = normAddr (pre ++ ip) := by
  have e : pre ++ (ip ++ ['/'] ++ s "32") = (pre ++ ip) ++ s "/32" := by simp [s]
  unfold normAddr
  rw [e, cutSuffix_append]
  rw [cutSuffix_none_of_not_mem (pre ++ ip) (s "/32") '/' (by decide) (by simp [hpre, hip])]
  rfl

theorem ipTok_noslash {ip : Str} (h : ipTok ip = true) : '/' ∉ ip := by
  simp only [ipTok, Bool.and_eq_true, List.all_eq_true, Bool.or_eq_true, beq_iff_eq] at h
  intro hm
  rcases h.2 '/' hm with h1 | h1
  · simp [isDigit] at h1
  · simp at h1

theorem negPre_noslash (b : Bool) : '/' ∉ (if b = true then ['!'] else ([] : Str)) := by
  cases b <;> simp

/-! ### ports -/

theorem canonNum_head {d : Str} (h : canonNum d = true) (h0 : d ≠ ['0']) : d.head? ≠ some '0' := by
  simp only [canonNum, Bool.and_eq_true, Bool.or_eq_true, beq_iff_eq, bne_iff_ne] at h
  rcases h.2 with h1 | h1
  · exact absurd h1 h0
  · exact h1

theorem canonNum_ne_nil {d : Str} (h : canonNum d = true) : d ≠ [] := by
  intro e; subst e; simp [canonNum] at h

theorem head_append_of_ne_nil {d x : Str} (h : d ≠ []) : (d ++ x).head? = d.head? := by
  cases d with
  | nil => exact absurd rfl h
  | cons c cs => rfl

theorem port_roundtrip (ps : Ports) (z : Nat) (o : Bool)
    (hwf : ps.wf = true) : normPort (ps.user z o) = normPort ps.kernel := by
  unfold normPort
  simp only
  cases ps with
  | one p => simp only [Ports.user, Ports.kernel, trimLeft0_zeros]
  | range lo hi =>
    simp only [Ports.wf, Bool.and_eq_true, bne_iff_ne, Bool.not_eq_eq_eq_not, Bool.not_true] at hwf
    obtain ⟨⟨⟨hlo, hhi⟩, _⟩, _⟩ := hwf
    -- the part up to and including the colon, after trimming
    have hL : ∀ (r : Str), trimLeft0 ((if (o && lo = ['0']) = true then [] else zeros z ++ lo) ++ ([':'] ++ r)) =
        trimLeft0 (lo ++ ([':'] ++ r)) := by
      intro r
      by_cases h0 : lo = ['0']
      · subst h0
        cases o
        · simp [trimLeft0_zeros]
        · simp [trimLeft0]
      · simp [h0, trimLeft0_zeros]
    simp only [Ports.user, Ports.kernel, List.append_assoc]
    rw [hL]
    by_cases h5 : o = true ∧ hi = s "65535"
    · obtain ⟨ho, h5⟩ := h5
      subst h5
      simp only [ho, Bool.true_and, decide_true, ↓reduceIte, List.append_nil]
      -- kernel: lo:65535 ; user: lo:
      have hk' : trimLeft0 (lo ++ ([':'] ++ s "65535")) = trimLeft0 (lo ++ [':']) ++ s "65535" := by
        by_cases h0 : lo = ['0']
        · subst h0; simp [trimLeft0]
        · have hh := canonNum_head hlo h0
          rw [trimLeft0_of_head (by rw [head_append_of_ne_nil (canonNum_ne_nil hlo)]; exact hh),
            trimLeft0_of_head (by rw [head_append_of_ne_nil (canonNum_ne_nil hlo)]; exact hh)]
          simp
      rw [hk']
      -- split the trimmed `lo:` into its body and the colon
      obtain ⟨body, hb⟩ : ∃ body, trimLeft0 (lo ++ [':']) = body ++ [':'] := by
        by_cases h0 : lo = ['0']
        · subst h0; exact ⟨[], by simp [trimLeft0]⟩
        · refine ⟨lo, ?_⟩
          rw [trimLeft0_of_head (by rw [head_append_of_ne_nil (canonNum_ne_nil hlo)]; exact canonNum_head hlo h0)]
      rw [hb]
      have e1 : body ++ [':'] ++ s "65535" = body ++ s ":65535" := by simp [s]
      rw [e1, cutSuffix_append]
      have e2 : s ":65535" = s ":6553" ++ ['5'] := by decide
      rw [e2, cutSuffix_none_of_last body (s ":6553") ':' '5' (by decide)]
    · have : (if (o && decide (hi = s "65535")) = true then ([] : Str) else hi) = hi := by
        by_cases ho : o = true
        · have : ¬ hi = s "65535" := fun e => h5 ⟨ho, e⟩
          simp [this]
        · simp [ho]
      rw [this]

/-! ### marks, log level -/

theorem mark_roundtrip (hex v : Str) (h : markNorm v = markNorm (s "0x" ++ hex ++ s "/0xffffffff"))
    (hs : (markNorm v).isSome = true) :
    normMark v = normMark (s "0x" ++ hex ++ s "/0xffffffff") := by
  unfold normMark
  unfold markNorm at h hs
  simp only at h hs ⊢
  obtain ⟨n, hn⟩ := Option.isSome_iff_exists.mp hs
  rw [hn] at h
  rw [hn, ← h]

theorem cutChar_no (x : Str) (c : Char) (h : c ∉ x) : cutChar x c = (x, [], false) := by
  unfold cutChar
  have h2 : ∀ x : Str, c ∉ x → x.dropWhile (· != c) = [] := by
    intro x
    induction x with
    | nil => intro _; rfl
    | cons d ds ih =>
      intro h
      have hd : (d != c) = true := by simp; intro e; exact h (by simp [e])
      simp only [List.dropWhile, hd, ih (fun hm => h (by simp [hm]))]
  rw [h2 x h]

theorem cutChar_at (x y : Str) (c : Char) (h : c ∉ x) : cutChar (x ++ c :: y) c = (x, y, true) := by
  unfold cutChar
  have h1 : ∀ x : Str, c ∉ x → (x ++ c :: y).dropWhile (· != c) = c :: y ∧ (x ++ c :: y).takeWhile (· != c) = x := by
    intro x
    induction x with
    | nil => intro _; simp [List.dropWhile, List.takeWhile]
    | cons d ds ih =>
      intro h
      have hd : (d != c) = true := by simp; intro e; exact h (by simp [e])
      have := ih (fun hm => h (by simp [hm]))
      simp only [List.cons_append, List.dropWhile, List.takeWhile, hd, this.1, this.2, and_self]
  rw [(h1 x h).1, (h1 x h).2]

theorem hex_noslash {hex : Str} (h : hex.all (fun c => isDigit c || ('a' ≤ c && c ≤ 'f')) = true) : '/' ∉ hex := by
  intro hm
  have := List.all_eq_true.mp h '/' hm
  simp [isDigit] at this

theorem xConvV_kernel (hex : Str) (h : '/' ∉ hex) : xConvV (s "0x" ++ hex ++ s "/0xffffffff") = true := by
  have e : s "0x" ++ hex ++ s "/0xffffffff" = (s "0x" ++ hex) ++ '/' :: s "0xffffffff" := by simp [s]
  unfold xConvV
  rw [e, cutChar_at _ _ '/' (by simp [s, h])]
  show ((!true || decide (lower (s "0xffffffff") = s "0xffffffff")) = true)
  decide

end NA.C05

namespace NA.C05
open NA.Linux NA.Linux.Spec

/-! ### state sets -/

theorem stName_nocomma (x : Spec.St) : ',' ∉ x.name := by cases x <;> decide

theorem st_perm (l : List Spec.St) (h : l.Nodup) : (kernelStateOrder.filter (· ∈ l)).Perm l := by
  apply List.perm_iff_count.mpr
  intro a
  have hk : kernelStateOrder.Nodup := by decide
  have hf : (kernelStateOrder.filter (· ∈ l)).Nodup := hk.sublist List.filter_sublist
  rw [hf.count, h.count]
  have : a ∈ kernelStateOrder := by cases a <;> decide
  simp [List.mem_filter, this]

theorem state_roundtrip (l : List Spec.St) (hne : l ≠ []) (h : l.Nodup) :
    normState (joinWith [','] (l.map Spec.St.name)) =
    normState (joinWith [','] ((kernelStateOrder.filter (· ∈ l)).map Spec.St.name)) := by
  have hp := st_perm l h
  have hne2 : kernelStateOrder.filter (· ∈ l) ≠ [] := by
    intro e; rw [e] at hp; exact hne (List.Perm.nil_eq hp).symm
  unfold normState
  rw [splitChar_join ',' _ (by simpa using hne) (by
      intro x hx; obtain ⟨y, _, e⟩ := List.mem_map.mp hx; rw [← e]; exact stName_nocomma y),
    splitChar_join ',' _ (by simpa using hne2) (by
      intro x hx; obtain ⟨y, _, e⟩ := List.mem_map.mp hx; rw [← e]; exact stName_nocomma y)]
  rw [sortStrs_perm_eq (hp.map Spec.St.name).symm]

/-! ### protocols -/

theorem negS_cases (n : Neg) : (if n.isNeg = true then ['!'] else ([] : Str)) = [] ∨
    (if n.isNeg = true then ['!'] else ([] : Str)) = ['!'] := by cases n <;> simp [Neg.isNeg]

theorem canonNum_digits {d : Str} (h : canonNum d = true) : d.all isDigit = true := by
  simp only [canonNum, Bool.and_eq_true] at h; exact h.1.2

theorem proto_roundtrip (cfg : KCfg) (n : Neg) (p : Proto) (u num : Bool)
    (hwf : (AOpt.proto n p u num).wf = true) :
    normProto ((if n.isNeg = true then ['!'] else []) ++ p.uname u num) =
    normProto ((if n.isNeg = true then ['!'] else []) ++ p.kname cfg.protoNames) := by
  cases p with
  | num d =>
    simp only [AOpt.wf, Bool.and_eq_true] at hwf
    have hd := canonNum_digits hwf.1.1
    have : (Proto.num d).uname u num = d := by
      unfold Proto.uname Proto.kname
      cases u <;> simp [upper_digits hd]
    rw [this]; rfl
  | tcp => obtain ⟨names⟩ := cfg; revert hwf; cases n <;> cases u <;> cases num <;> cases names <;> decide
  | udp => obtain ⟨names⟩ := cfg; revert hwf; cases n <;> cases u <;> cases num <;> cases names <;> decide
  | icmp => obtain ⟨names⟩ := cfg; revert hwf; cases n <;> cases u <;> cases num <;> cases names <;> decide
  | vrrp => obtain ⟨names⟩ := cfg; revert hwf; cases n <;> cases u <;> cases num <;> cases names <;> decide
  | ipv6icmp => obtain ⟨names⟩ := cfg; revert hwf; cases n <;> cases u <;> cases num <;> cases names <;> decide

/-! ### one option, two spellings, one normal form -/

theorem pkv_plain (n : Neg) (k : Str) (args : List Str) (h : k ≠ s "--tcp-flags") :
    pkv ⟨n, k, args⟩ = (k, (OptW.mk n k args).value) := by
  unfold pkv fixSyn; rw [if_neg (fun hc => h hc.1)]; rfl

theorem nEntry_plain (d : Bool) (k v : Str) (h1 : k ≠ kM) (h2 : k ≠ kXmark) :
    nEntry d (k, v) = some (k, normVal k v) := by
  unfold nEntry; rw [if_neg (fun hc => h1 hc.1), if_neg (fun hc => h2 hc.1)]

theorem value_no (k : Str) (args : List Str) : (OptW.mk .no k args).value = joinWith [' '] args := by
  simp [OptW.value, Neg.isNeg]

theorem value_neg (n : Neg) (k : Str) (x : Str) :
    (OptW.mk n k [x]).value = (if n.isNeg = true then ['!'] else []) ++ x := by
  simp [OptW.value, joinWith]

theorem opt_roundtrip (cfg : KCfg) (a : AOpt) (hwf : a.wf = true) (hnm : ∀ n, a ≠ .mExplicit n) (d1 d2 : Bool) :
    nEntry d1 (pkv a.user) = nEntry d2 (pkv (a.kernel cfg)) := by
  cases a with
  | mExplicit n => exact absurd rfl (hnm n)
  | src n ip len h =>
    simp only [AOpt.wf, Bool.and_eq_true] at hwf
    have hip := ipTok_noslash hwf.1
    simp only [AOpt.user, AOpt.kernel]
    rw [pkv_plain _ _ _ (by decide), pkv_plain _ _ _ (by decide), nEntry_plain _ _ _ (by decide) (by decide),
      nEntry_plain _ _ _ (by decide) (by decide), value_neg, value_neg, b2neg_isNeg, normVal_s, normVal_s]
    by_cases hc : len = s "32" ∧ (!h) = true
    · rw [if_pos hc, hc.1]
      rw [addr_norm _ _ (negPre_noslash _) hip]
    · rw [if_neg hc]
  | dst n ip len h =>
    simp only [AOpt.wf, Bool.and_eq_true] at hwf
    have hip := ipTok_noslash hwf.1
    simp only [AOpt.user, AOpt.kernel]
    rw [pkv_plain _ _ _ (by decide), pkv_plain _ _ _ (by decide), nEntry_plain _ _ _ (by decide) (by decide),
      nEntry_plain _ _ _ (by decide) (by decide), value_neg, value_neg, b2neg_isNeg, normVal_d, normVal_d]
    by_cases hc : len = s "32" ∧ (!h) = true
    · rw [if_pos hc, hc.1]
      rw [addr_norm _ _ (negPre_noslash _) hip]
    · rw [if_neg hc]
  | inIf n name =>
    simp only [AOpt.user, AOpt.kernel]
    rw [pkv_plain _ _ _ (by decide), pkv_plain _ _ _ (by decide), nEntry_plain _ _ _ (by decide) (by decide),
      nEntry_plain _ _ _ (by decide) (by decide), value_neg, value_neg, b2neg_isNeg]
  | proto n p u num =>
    simp only [AOpt.user, AOpt.kernel]
    rw [pkv_plain _ _ _ (by decide), pkv_plain _ _ _ (by decide), nEntry_plain _ _ _ (by decide) (by decide),
      nEntry_plain _ _ _ (by decide) (by decide), value_neg, value_neg, b2neg_isNeg, normVal_p, normVal_p,
      proto_roundtrip cfg n p u num hwf]
  | sport ps z o =>
    simp only [AOpt.wf] at hwf
    simp only [AOpt.user, AOpt.kernel]
    rw [pkv_plain _ _ _ (by decide), pkv_plain _ _ _ (by decide), nEntry_plain _ _ _ (by decide) (by decide),
      nEntry_plain _ _ _ (by decide) (by decide), value_no, value_no, join1, join1, normVal_sport, normVal_sport,
      port_roundtrip ps z o hwf]
  | dport ps z o =>
    simp only [AOpt.wf] at hwf
    simp only [AOpt.user, AOpt.kernel]
    rw [pkv_plain _ _ _ (by decide), pkv_plain _ _ _ (by decide), nEntry_plain _ _ _ (by decide) (by decide),
      nEntry_plain _ _ _ (by decide) (by decide), value_no, value_no, join1, join1, normVal_dport, normVal_dport,
      port_roundtrip ps z o hwf]
  | syn n f =>
    obtain ⟨names⟩ := cfg
    cases names <;> cases n <;> cases f <;> cases d1 <;> cases d2 <;> decide
  | icmpType t =>
    simp only [AOpt.user, AOpt.kernel]
    rw [pkv_plain _ _ _ (by decide), nEntry_plain _ _ _ (by decide) (by decide), nEntry_plain _ _ _ (by decide) (by decide)]
  | state l =>
    simp only [AOpt.wf, Bool.and_eq_true, Bool.not_eq_eq_eq_not, Bool.not_true, List.isEmpty_eq_false_iff,
      decide_eq_true_eq] at hwf
    simp only [AOpt.user, AOpt.kernel]
    rw [pkv_plain _ _ _ (by decide), pkv_plain _ _ _ (by decide), nEntry_plain _ _ _ (by decide) (by decide),
      nEntry_plain _ _ _ (by decide) (by decide), value_no, value_no, join1, join1, normVal_state, normVal_state,
      state_roundtrip l hwf.1 hwf.2]
  | jump t =>
    simp only [AOpt.user, AOpt.kernel]
    rw [pkv_plain _ _ _ (by decide), nEntry_plain _ _ _ (by decide) (by decide), nEntry_plain _ _ _ (by decide) (by decide)]
  | goto t =>
    simp only [AOpt.user, AOpt.kernel]
    rw [pkv_plain _ _ _ (by decide), nEntry_plain _ _ _ (by decide) (by decide), nEntry_plain _ _ _ (by decide) (by decide)]
  | toSource ip =>
    simp only [AOpt.user, AOpt.kernel]
    rw [pkv_plain _ _ _ (by decide), nEntry_plain _ _ _ (by decide) (by decide), nEntry_plain _ _ _ (by decide) (by decide)]
  | logLevel lvl dbg =>
    simp only [AOpt.user, AOpt.kernel]
    rw [pkv_plain _ _ _ (by decide), pkv_plain _ _ _ (by decide), nEntry_plain _ _ _ (by decide) (by decide),
      nEntry_plain _ _ _ (by decide) (by decide), value_no, value_no, join1, join1, normVal_log, normVal_log]
    by_cases hc : dbg = true ∧ lvl = s "7"
    · rw [if_pos hc, hc.2]; decide
    · rw [if_neg hc]
  | setMark hex mask x v =>
    simp only [AOpt.wf, Bool.and_eq_true, Bool.or_eq_true, Bool.not_eq_eq_eq_not, Bool.not_true, beq_iff_eq] at hwf
    obtain ⟨⟨⟨⟨⟨_, hhex⟩, hsome⟩, heq⟩, hx⟩, hmask⟩ := hwf
    subst hmask
    have hk := xConvV_kernel hex (hex_noslash hhex)
    have hmr := mark_roundtrip hex v heq hsome
    have e2 : s "0x" ++ hex ++ s "/0x" ++ s "ffffffff" = s "0x" ++ hex ++ s "/0xffffffff" := by
      rw [List.append_assoc (s "0x" ++ hex)]; rfl
    have hkern : nEntry d2 (pkv (AOpt.kernel cfg (.setMark hex (s "ffffffff") x v))) =
        some (kMark, normMark v) := by
      simp only [AOpt.kernel]
      rw [pkv_plain _ _ _ (by decide), value_no, join1, e2]
      unfold nEntry
      rw [if_neg (by intro hc; exact absurd hc.1 kX_ne_kM), if_pos ⟨rfl, hk⟩, normVal_mark, ← hmr]
    rw [hkern]
    cases x with
    | false =>
      simp only [AOpt.user, Bool.false_eq_true, ↓reduceIte]
      rw [pkv_plain _ _ _ (by decide), value_no, join1, nEntry_plain _ _ _ (by decide) (by decide)]
      rw [show s "--set-mark" = kMark from rfl, normVal_mark]
    | true =>
      simp only [AOpt.user, ↓reduceIte]
      rw [pkv_plain _ _ _ (by decide), value_no, join1]
      have hxc : xConvV v = true := by
        rcases hx with h | h
        · exact absurd h (by simp)
        · unfold xConvV; simpa using h
      unfold nEntry
      rw [if_neg (by intro hc; exact absurd hc.1 kX_ne_kM), if_pos ⟨rfl, hxc⟩, normVal_mark]

end NA.C05
