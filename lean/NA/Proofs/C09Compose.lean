import NA.Proofs.C09Ana
/-!
# C09: the composition — a run that ends OK has sent everything, seen only good replies, and saved
-/
namespace NA.C09
open NA.Sess NA.Apply NA.Spec.C09

/-- what a normal end of an approve run guarantees, per backend -/
def needFacts : Backend → Facts
  | .asa | .ios | .panos => ⟨true, true, false, false, false, false⟩
  | .linux => ⟨true, false, true, true, false, true⟩
  | .nsx => ⟨true, false, false, false, false, false⟩

set_option maxRecDepth 100000 in
theorem needFacts_le (b : Backend) (sim : Bool) (h : b = .linux → sim = false) :
    Facts.le (needFacts b) (ana sim false (approveOrCompareBody b) AS.bot).ret.f0 = true := by
  cases b <;> cases sim <;> first | decide | (exfalso; simp at h)

/-- **Composition.**  For every backend, every device and every change script: if an approve run
ends by `return` (not by abort, not by looping for ever), then no inspected reply was bad, every
command of the script was put on the wire in order, and the save / commit / copy of the start-up
files was confirmed by the device. -/
theorem run_ok_facts (b : Backend) (env : Env) (hc : env.compare = false)
    (hsim : b = .linux → env.simulated = false) (hok : (runProg b env).mode = .ret) :
    faulted (badChecked b) (runProg b env).tr = false ∧ Holds (needFacts b) (runProg b env) := by
  constructor
  · cases hf : faulted (badChecked b) (runProg b env).tr with
    | false => rfl
    | true =>
      rcases exit_of_faulted b env hf with h | h <;> rw [hok] at h <;> cases h
  · have hpost := ana_sound env.simulated false (approveOrCompareBody b) AS.bot env ({} : St) rfl hc rfl (Sat.bot _)
    have herr := run_ret_errv b env hok
    have hsat : Sat (ana env.simulated false (approveOrCompareBody b) AS.bot).ret (runProg b env) := hpost.2 hok
    exact Holds.of_le (needFacts_le b env.simulated hsim) (hsat.h0 herr)

set_option maxRecDepth 100000 in
/-- a run ends by `return`, by abort, or not at all -/
theorem run_mode_cases (b : Backend) (env : Env) :
    (runProg b env).mode = .ret ∨ (runProg b env).mode = .panic ∨ (runProg b env).mode = .diverge := by
  have h1 : (runProg b env).mode ≠ .run := by
    unfold runProg; cases b <;> exact leaves_mode _ (by decide) env _ rfl
  have h2 : (runProg b env).mode ≠ .cont := by
    unfold runProg; cases b <;> exact noCont_mode _ (by decide) env _ (by simp)
  cases hm : (runProg b env).mode with
  | run => exact absurd hm h1
  | cont => exact absurd hm h2
  | ret => exact Or.inl rfl
  | panic => exact Or.inr (Or.inl rfl)
  | diverge => exact Or.inr (Or.inr rfl)


/-! ## compare runs -/

set_option maxRecDepth 100000 in
theorem compareFacts_le (b : Backend) (sim : Bool) :
    Facts.le fC (ana sim true (approveOrCompareBody b) AS.bot).ret.f0 = true := by
  cases b <;> cases sim <;> decide

/-- A compare run that ends by `return` has seen only good replies, and if a difference was
computed, `comp: *** device changed ***` is in the log. -/
theorem compare_ok_facts (b : Backend) (env : Env) (hc : env.compare = true) (hok : (runProg b env).mode = .ret) :
    faulted (badChecked b) (runProg b env).tr = false ∧ ChangedLogged (runProg b env) := by
  constructor
  · cases hf : faulted (badChecked b) (runProg b env).tr with
    | false => rfl
    | true =>
      rcases exit_of_faulted b env hf with h | h <;> rw [hok] at h <;> cases h
  · have hpost := ana_sound env.simulated true (approveOrCompareBody b) AS.bot env ({} : St) rfl hc rfl (Sat.bot _)
    have herr := run_ret_errv b env hok
    have hsat : Sat (ana env.simulated true (approveOrCompareBody b) AS.bot).ret (runProg b env) := hpost.2 hok
    exact (Holds.of_le (compareFacts_le b env.simulated) (hsat.h0 herr)).hC rfl

end NA.C09
