import NA.Proofs.AsaSafe
import NA.Proofs.IosConvSuppr
/-!
Step safety (C14) of the IOS planner model `planIOS`, part 1: the cell list seen "as executed".

A suppressed move leaves the device line of old-only cell `d` where it is and never inserts the
new-only cell `j`.  `keepCells M S` re-labels the cells accordingly (`d` becomes a kept cell,
`j` a cell that never exists); lines, old flags and therefore all device states are unchanged,
and `news (keepCells M S)` is the FINAL device list.  The mask-level lemma of the ASA proof
(`Shape.old_or_new`) then applies to `keepCells M S`.
-/
namespace NA.IosSafe
open NA.Acl

attribute [-simp] List.getD_eq_getElem?_getD

/-- Some suppressed new-only cell has the `mkey` of cell `i`. -/
def hasSuppr (M : List Cell) (S : List Nat) (i : Nat) : Bool :=
  S.any fun j => (M.getD j default).line.mkey == (M.getD i default).line.mkey

def keepCell (M : List Cell) (S : List Nat) (i : Nat) : Cell :=
  if S.contains i then ⟨(M.getD i default).line, false, false⟩
  else if (M.getD i default).old && !(M.getD i default).new && hasSuppr M S i then
    ⟨(M.getD i default).line, true, true⟩
  else M.getD i default

def keepCells (M : List Cell) (S : List Nat) : List Cell := (List.range M.length).map (keepCell M S)

theorem hasSuppr_iff (M : List Cell) (S : List Nat) (i : Nat) :
    hasSuppr M S i = true ↔ ∃ j ∈ S, (M.getD j default).line.mkey = (M.getD i default).line.mkey := by
  simp [hasSuppr, List.any_eq_true]

theorem kc_length (M : List Cell) (S : List Nat) : (keepCells M S).length = M.length := by
  simp [keepCells]

theorem kc_getD (M : List Cell) (S : List Nat) (i : Nat) (hi : i < M.length) :
    (keepCells M S).getD i default = keepCell M S i := by
  simp [keepCells, List.getD_eq_getElem?_getD, hi]

theorem kc_line (M : List Cell) (S : List Nat) (i : Nat) (hi : i < M.length) :
    ((keepCells M S).getD i default).line = (M.getD i default).line := by
  rw [kc_getD M S i hi]; unfold keepCell
  split
  · rfl
  · split <;> rfl

theorem kc_old (M : List Cell) (S : List Nat) (hS : ∀ j ∈ S, j ∈ addIdx M) (i : Nat) (hi : i < M.length) :
    ((keepCells M S).getD i default).old = (M.getD i default).old := by
  rw [kc_getD M S i hi]; unfold keepCell
  split
  · rename_i h
    have := ((mem_addIdx M i).1 (hS i (by simpa using h))).2.1
    rw [this]
  · split
    · rename_i h
      simp only [Bool.and_eq_true] at h
      rw [h.1.1]
    · rfl

theorem kc_new (M : List Cell) (S : List Nat) (i : Nat) (hi : i < M.length) :
    ((keepCells M S).getD i default).new =
      if S.contains i then false
      else if (M.getD i default).old && !(M.getD i default).new && hasSuppr M S i then true
      else (M.getD i default).new := by
  rw [kc_getD M S i hi]; unfold keepCell
  split
  · rfl
  · split <;> rfl

theorem kc_lines (M : List Cell) (S : List Nat) : (keepCells M S).map (·.line) = M.map (·.line) := by
  apply List.ext_getElem
  · simp [kc_length]
  · intro i h1 h2
    have hi : i < M.length := by simpa using h2
    have e1 : ((keepCells M S).map (·.line))[i] = ((keepCells M S).getD i default).line := by
      simp [List.getD_eq_getElem?_getD, kc_length, hi]
    have e2 : (M.map (·.line))[i] = (M.getD i default).line := by
      simp [List.getD_eq_getElem?_getD, hi]
    rw [e1, e2, kc_line M S i hi]

theorem masked_kc (M : List Cell) (S : List Nat) (μ : List Bool) :
    masked (keepCells M S) μ = masked M μ := by
  rw [masked_eq_pick, masked_eq_pick, kc_lines]

theorem oldMask_kc (M : List Cell) (S : List Nat) (hS : ∀ j ∈ S, j ∈ addIdx M) :
    oldMask (keepCells M S) = oldMask M := by
  apply List.ext_getElem
  · simp [oldMask, kc_length]
  · intro i h1 h2
    have hi : i < M.length := by simpa [oldMask] using h2
    have e1 : (oldMask (keepCells M S))[i] = (oldMask (keepCells M S)).getD i false := by
      simp [List.getD_eq_getElem?_getD, h1]
    have e2 : (oldMask M)[i] = (oldMask M).getD i false := by
      simp [List.getD_eq_getElem?_getD, h2]
    rw [e1, e2, oldMask_getD _ i (by rw [kc_length]; exact hi), oldMask_getD M i hi, kc_old M S hS i hi]

theorem olds_kc (M : List Cell) (S : List Nat) (hS : ∀ j ∈ S, j ∈ addIdx M) :
    olds (keepCells M S) = olds M := by
  rw [← masked_old, ← masked_old M, masked_kc, oldMask_kc M S hS]

theorem newMask_kc (M : List Cell) (S : List Nat) (hS : ∀ j ∈ S, j ∈ addIdx M) :
    newMask (keepCells M S) = finalMask M S := by
  apply List.ext_getElem
  · simp [newMask, finalMask, kc_length]
  · intro i h1 h2
    have hi : i < M.length := by simpa [finalMask] using h2
    have e1 : (newMask (keepCells M S))[i] = (newMask (keepCells M S)).getD i false := by
      simp [List.getD_eq_getElem?_getD, h1]
    have e2 : (finalMask M S)[i] = (finalMask M S).getD i false := by
      rw [List.getD_eq_getElem?_getD, List.getElem?_eq_getElem h2]; rfl
    rw [e1, e2, newMask_getD _ i (by rw [kc_length]; exact hi), kc_new M S i hi,
      finalMask_getD M S i hi]
    have hs : (S.any fun j => (M.getD j default).line.mkey == (M.getD i default).line.mkey) =
        hasSuppr M S i := rfl
    rw [hs]
    by_cases hc : i ∈ S
    · have := (mem_addIdx M i).1 (hS i hc)
      simp [hc, this.2.1, this.2.2]
    · cases ho : (M.getD i default).old <;> cases hn : (M.getD i default).new <;>
        cases hh : hasSuppr M S i <;> simp [hc]

/-- The target of `keepCells M S` is the final device list. -/
theorem news_kc (M : List Cell) (S : List Nat) (hS : ∀ j ∈ S, j ∈ addIdx M) :
    news (keepCells M S) = masked M (finalMask M S) := by
  rw [← masked_new, masked_kc, newMask_kc M S hS]

theorem mem_addIdx_kc (M : List Cell) (S : List Nat) (hS : ∀ j ∈ S, j ∈ addIdx M) (j : Nat) :
    j ∈ addIdx (keepCells M S) ↔ j ∈ addIdx M ∧ j ∉ S := by
  rw [mem_addIdx, mem_addIdx, kc_length]
  constructor
  · rintro ⟨hj, ho, hn⟩
    rw [kc_old M S hS j hj] at ho
    rw [kc_new M S j hj] at hn
    by_cases hc : j ∈ S
    · simp [hc] at hn
    · simp [hc, ho] at hn
      exact ⟨⟨hj, ho, hn⟩, hc⟩
  · rintro ⟨⟨hj, ho, hn⟩, hnS⟩
    refine ⟨hj, by rw [kc_old M S hS j hj]; exact ho, ?_⟩
    rw [kc_new M S j hj]
    simp [hnS, ho, hn]

theorem mem_delIdx_kc (M : List Cell) (S : List Nat) (hS : ∀ j ∈ S, j ∈ addIdx M) (i : Nat) :
    i ∈ delIdx (keepCells M S) ↔ i ∈ delIdx M ∧ hasSuppr M S i = false := by
  rw [mem_delIdx, mem_delIdx, kc_length]
  constructor
  · rintro ⟨hi, ho, hn⟩
    rw [kc_old M S hS i hi] at ho
    rw [kc_new M S i hi] at hn
    have hc : i ∉ S := by
      intro hc
      have := ((mem_addIdx M i).1 (hS i hc)).2.1
      rw [this] at ho; cases ho
    cases hn' : (M.getD i default).new <;> cases hh : hasSuppr M S i <;>
      simp [hc, ho, hn', hh, hi] at hn ⊢
  · rintro ⟨⟨hi, ho, hn⟩, hh⟩
    refine ⟨hi, by rw [kc_old M S hS i hi]; exact ho, ?_⟩
    rw [kc_new M S i hi]
    have hc : i ∉ S := by
      intro hc
      have := ((mem_addIdx M i).1 (hS i hc)).2.1
      rw [this] at ho; cases ho
    simp [hc, hn, hh]

theorem kc_mkey (M : List Cell) (S : List Nat) (i : Nat) (hi : i < M.length) :
    ((keepCells M S).getD i default).line.mkey = (M.getD i default).line.mkey := by
  rw [kc_line M S i hi]

/-- `delLookup` in the re-labelled list: the partner of an unsuppressed inserted cell. -/
theorem delLookup_kc (M : List Cell) (S : List Nat) (hS : ∀ j ∈ S, j ∈ addIdx M)
    (hno : ((olds M).map (·.mkey)).Nodup) {x j : Nat} (hx : x ∈ delIdx (keepCells M S))
    (hj : j < M.length) (hm : (M.getD j default).line.mkey = (M.getD x default).line.mkey) :
    delLookup (keepCells M S) ((keepCells M S).getD j default).line.mkey = some x := by
  have hxl : x < M.length := ((mem_delIdx_kc M S hS x).1 hx).1 |> fun h => ((mem_delIdx M x).1 h).1
  have := delLookup_of (keepCells M S) (by rw [olds_kc M S hS]; exact hno) hx
  rw [kc_mkey M S x hxl] at this
  rw [kc_mkey M S j hj, hm]
  exact this

/-! ### Masks during the add phase and during the delete phase have the ASA `Shape` -/

def sameKey (M : List Cell) (j x : Nat) : Prop :=
  (M.getD j default).line.mkey = (M.getD x default).line.mkey

/-- State while lines are inserted (`J`: inserted so far, a lower set of the unsuppressed new-only
cells; `K`: deleted by a move). -/
def AddSt (M : List Cell) (S : List Nat) (ν : List Bool) : Prop :=
  ∃ J K, MInv M J K ν ∧ (∀ d ∈ K, ∃ j ∈ J, sameKey M j d) ∧ (∀ j ∈ J, j ∉ S) ∧
    (∀ f ∈ J, ∀ y ∈ addIdx M, y ∉ S → y < f → y ∈ J)

/-- No inserted line has the `mkey` of old-only cell `x` (it is deleted in the delete phase). -/
def Unmoved (M : List Cell) (x : Nat) : Prop := ¬ ∃ j ∈ addIdx M, sameKey M j x

/-- State while lines are deleted bottom-up. -/
def DelSt (M : List Cell) (S : List Nat) (ν : List Bool) : Prop :=
  ∃ J K, MInv M J K ν ∧ (∀ j ∈ J, j ∉ S) ∧ (∀ y ∈ addIdx M, y ∉ S → y ∈ J) ∧
    (∀ x ∈ K, (∃ j ∈ J, sameKey M j x) ∨
      (Unmoved M x ∧ ∀ f ∈ delIdx M, Unmoved M f → f ∉ K → f < x))

/-- Facts shared by both phases. -/
theorem shape_core (M : List Cell) (S : List Nat) (hS : ∀ j ∈ S, j ∈ addIdx M)
    (hno : ((olds M).map (·.mkey)).Nodup)
    (hnn : ((news M).map (·.mkey)).Nodup) (ν : List Bool) (J K : List Nat) (h : MInv M J K ν)
    (hJS : ∀ j ∈ J, j ∉ S)
    (hK : ∀ x ∈ K, (∃ j ∈ J, sameKey M j x) ∨ Unmoved M x) :
    -- kept cells are present
    (∀ x, x < M.length → ((keepCells M S).getD x default).old = true →
      ((keepCells M S).getD x default).new = true → ν.getD x false = true) ∧
    -- an absent old-only cell with a partner in `J` counts as moved
    (∀ x, x ∈ delIdx (keepCells M S) → (∃ j ∈ J, sameKey M j x) → Moved (keepCells M S) ν x) := by
  have injS : ∀ j ∈ J, ∀ j0 ∈ S, ∀ x, sameKey M j x → sameKey M j0 x → False := by
    intro j hj j0 hj0 x h1 h2
    obtain ⟨hjl, _, hjn⟩ := (mem_addIdx M j).1 (h.jsub j hj)
    obtain ⟨hj0l, _, hj0n⟩ := (mem_addIdx M j0).1 (hS j0 hj0)
    have := new_mkey_inj M hnn hjl hj0l hjn hj0n (by unfold sameKey at h1 h2; rw [h1, h2])
    subst this
    exact hJS j hj hj0
  constructor
  · intro x hx ho hn
    rw [kc_old M S hS x hx] at ho
    rw [kc_new M S x hx] at hn
    by_cases hc : x ∈ S
    · simp [hc] at hn
    · cases hn' : (M.getD x default).new with
      | true => exact h.both x hx (by simp [Cell.both, ho, hn'])
      | false =>
        simp [hc, ho, hn'] at hn
        obtain ⟨j0, hj0, hk0⟩ := (hasSuppr_iff M S x).1 hn
        have hxd : x ∈ delIdx M := (mem_delIdx M x).2 ⟨hx, ho, hn'⟩
        have hxd' : x ∈ delIdx M := hxd
        cases hv : ν.getD x false with
        | true => rfl
        | false =>
          exfalso
          have hxdI : x ∈ delIdx M := hxd
          rcases (h.oldO x hxdI).mp hv with hk | ⟨j, hj, hm⟩
          · rcases hK x hk with ⟨j, hj, hm⟩ | hu
            · exact injS j hj j0 hj0 x hm hk0
            · exact hu ⟨j0, hS j0 hj0, hk0⟩
          · exact injS j hj j0 hj0 x hm hk0
  · intro x hx ⟨j, hj, hm⟩
    have hja := h.jsub j hj
    have hjl := ((mem_addIdx M j).1 hja).1
    refine ⟨j, (mem_addIdx_kc M S hS j).2 ⟨hja, hJS j hj⟩, (h.newO j hja).mpr hj, ?_⟩
    exact delLookup_kc M S hS hno hx hjl hm

theorem shape_of_addSt (M : List Cell) (S : List Nat) (hS : ∀ j ∈ S, j ∈ addIdx M)
    (hjunk : noJunk M = true) (hno : ((olds M).map (·.mkey)).Nodup)
    (hnn : ((news M).map (·.mkey)).Nodup) (ν : List Bool) (h : AddSt M S ν) :
    Shape (keepCells M S) ν := by
  obtain ⟨J, K, hinv, hK, hJS, hord⟩ := h
  obtain ⟨hboth, hmoved⟩ := shape_core M S hS hno hnn ν J K hinv hJS
    (fun x hx => Or.inl (hK x hx))
  have hB : ∀ f, OldBefore (keepCells M S) ν f := by
    intro f x _ hxd hμ
    apply hmoved x hxd
    have hxdM : x ∈ delIdx M := ((mem_delIdx_kc M S hS x).1 hxd).1
    rcases (hinv.oldO x hxdM).mp hμ with hk | hj
    · exact hK x hk
    · exact hj
  refine ⟨fun x hx => hboth x (by rw [← kc_length M S]; exact hx), fun f hf hμf => ?_, Or.inr (hB _)⟩
  rw [kc_length] at hf
  cases ho : (M.getD f default).old with
  | true => exact Or.inr ⟨by rw [kc_old M S hS f hf]; exact ho, hB f⟩
  | false =>
    have hfc : M.getD f default = M[f] := by simp [hf, List.getD_eq_getElem?_getD]
    have hj := (List.all_eq_true.mp hjunk) M[f] (List.getElem_mem _)
    rw [← hfc, ho] at hj
    have hn : (M.getD f default).new = true := by simpa using hj
    have hfa : f ∈ addIdx M := (mem_addIdx M f).2 ⟨hf, ho, hn⟩
    have hfJ : f ∈ J := (hinv.newO f hfa).mp hμf
    left
    refine ⟨?_, fun y hy hya => ?_⟩
    · exact ((mem_addIdx _ f).1 ((mem_addIdx_kc M S hS f).2 ⟨hfa, hJS f hfJ⟩)).2.2
    · obtain ⟨hyM, hyS⟩ := (mem_addIdx_kc M S hS y).1 hya
      exact (hinv.newO y hyM).mpr (hord f hfJ y hyM hyS hy)

theorem shape_of_delSt (M : List Cell) (S : List Nat) (hS : ∀ j ∈ S, j ∈ addIdx M)
    (hjunk : noJunk M = true) (hno : ((olds M).map (·.mkey)).Nodup)
    (hnn : ((news M).map (·.mkey)).Nodup) (ν : List Bool) (h : DelSt M S ν) :
    Shape (keepCells M S) ν := by
  obtain ⟨J, K, hinv, hJS, hcomp, hK⟩ := h
  obtain ⟨hboth, hmoved⟩ := shape_core M S hS hno hnn ν J K hinv hJS
    (fun x hx => (hK x hx).imp id (fun h => h.1))
  have hA : ∀ f, NewBefore (keepCells M S) ν f := by
    intro f y _ hya
    obtain ⟨hyM, hyS⟩ := (mem_addIdx_kc M S hS y).1 hya
    exact (hinv.newO y hyM).mpr (hcomp y hyM hyS)
  refine ⟨fun x hx => hboth x (by rw [← kc_length M S]; exact hx), fun f hf hμf => ?_, Or.inl (hA _)⟩
  rw [kc_length] at hf
  cases hn' : ((keepCells M S).getD f default).new with
  | true => exact Or.inl ⟨rfl, hA f⟩
  | false =>
    -- `f` is an old-only cell that stays until it is deleted
    have hfc : M.getD f default = M[f] := by simp [hf, List.getD_eq_getElem?_getD]
    have hj := (List.all_eq_true.mp hjunk) M[f] (List.getElem_mem _)
    rw [← hfc] at hj
    have hnS : f ∉ S := by
      intro hfS
      have hfa := hS f hfS
      have := (hinv.newO f hfa).mp hμf
      exact hJS f this hfS
    have hkn := kc_new M S f hf
    rw [hn'] at hkn
    have hold : (M.getD f default).old = true ∧ (M.getD f default).new = false ∧ hasSuppr M S f = false := by
      cases ho : (M.getD f default).old <;> cases hn : (M.getD f default).new <;>
        cases hh : hasSuppr M S f <;> simp [hnS, ho, hn, hh] at hkn hj ⊢
    obtain ⟨ho, hn, hh⟩ := hold
    have hfd : f ∈ delIdx M := (mem_delIdx M f).2 ⟨hf, ho, hn⟩
    have hfK : f ∉ K ∧ ¬ ∃ j ∈ J, sameKey M j f := by
      constructor
      · intro hk
        have := (hinv.oldO f hfd).mpr (Or.inl hk)
        rw [this] at hμf; cases hμf
      · intro hj'
        have := (hinv.oldO f hfd).mpr (Or.inr hj')
        rw [this] at hμf; cases hμf
    have hfU : Unmoved M f := by
      rintro ⟨j, hja, hm⟩
      by_cases hjS : j ∈ S
      · have := (hasSuppr_iff M S f).2 ⟨j, hjS, hm⟩
        rw [hh] at this; cases this
      · exact hfK.2 ⟨j, hcomp j hja hjS, hm⟩
    right
    refine ⟨by rw [kc_old M S hS f hf]; exact ho, fun x hxf hxd hμ => ?_⟩
    apply hmoved x hxd
    have hxdM : x ∈ delIdx M := ((mem_delIdx_kc M S hS x).1 hxd).1
    rcases (hinv.oldO x hxdM).mp hμ with hk | hj'
    · rcases hK x hk with hj' | ⟨_, hbehind⟩
      · exact hj'
      · have := hbehind f hfd hfU hfK.1
        omega
    · exact hj'

end NA.IosSafe
