import NA.Proofs.VpnGraphFuel
import NA.Proofs.VpnUnordered
import NA.Proofs.VpnGraphFinal
import NA.Proofs.VpnGraphCleanup
/-!
# "Unchanged" is reported only for an equivalent device (fragment G)

If the model emits no command at all, the device and the target have the same anchors, and every anchor has the
same content on both sides: the same top-level commands, the same sub-commands, and what they reference has — recursively —
the same content (`eqv`).  The proof follows the run backwards and forwards: every piece that emits makes the change list
non-empty for good (`out` only grows), so an empty list at the end means that none of the emitting branches was taken.
-/
namespace NA.Vpn.G

/-! ## same content -/

def subEqv (e : Ref → Ref → Bool) (x y : Sub) : Bool :=
  x.key == y.key && (match x.ref, y.ref with
    | some xa, some xb => e xa xb
    | none, none => true
    | _, _ => false)

def subsEqv (e : Ref → Ref → Bool) (sa sb : List Sub) : Bool :=
  sa.all (fun x => sb.any fun y => subEqv e x y) && sb.all (fun y => sa.any fun x => subEqv e x y)

def secEqv (e : Ref → Ref → Bool) (s t : Sec) : Bool := s.head == t.head && subsEqv e s.subs t.subs

def secsEqv (e : Ref → Ref → Bool) (sa sb : List Sec) : Bool :=
  sa.all (fun s => sb.any fun t => secEqv e s t) && sb.all (fun t => sa.any fun s => secEqv e s t)

/-- object `ra` of configuration `a` and object `rb` of configuration `b` have the same content (names of referenced
objects do not count, their content does) -/
def eqv : Nat → List Obj → List Obj → Ref → Ref → Bool
  | 0, _, _, _, _ => false
  | f + 1, a, b, ra, rb =>
    ra.1 == rb.1 &&
    match a.find? (fun o => o.id == ra), b.find? (fun o => o.id == rb) with
    | some oa, some ob =>
      (match ra.1 with
       | .aaa => ra.2 == rb.2
       | .acl => oa.lines == ob.lines
       | .pool => oa.lines == ob.lines
       | _ => secsEqv (eqv f a b) oa.secs ob.secs)
    | _, _ => false

theorem subEqv_mono {e e' : Ref → Ref → Bool} (h : ∀ x y, e x y = true → e' x y = true) (x y : Sub)
    (hx : subEqv e x y = true) : subEqv e' x y = true := by
  unfold subEqv at *
  simp only [Bool.and_eq_true] at *
  refine ⟨hx.1, ?_⟩
  have h2 := hx.2
  cases hxa : x.ref <;> cases hyb : y.ref <;> simp only [hxa, hyb] at h2 ⊢
  · cases h2
  · cases h2
  · exact h _ _ h2

theorem subsEqv_mono {e e' : Ref → Ref → Bool} (h : ∀ x y, e x y = true → e' x y = true) (sa sb : List Sub)
    (hx : subsEqv e sa sb = true) : subsEqv e' sa sb = true := by
  unfold subsEqv at *
  simp only [Bool.and_eq_true, List.all_eq_true, List.any_eq_true] at *
  refine ⟨?_, ?_⟩
  · intro x hxm
    obtain ⟨y, hy, he⟩ := hx.1 x hxm
    exact ⟨y, hy, subEqv_mono h x y he⟩
  · intro y hym
    obtain ⟨x, hxm, he⟩ := hx.2 y hym
    exact ⟨x, hxm, subEqv_mono h x y he⟩

theorem secsEqv_mono {e e' : Ref → Ref → Bool} (h : ∀ x y, e x y = true → e' x y = true) (sa sb : List Sec)
    (hx : secsEqv e sa sb = true) : secsEqv e' sa sb = true := by
  unfold secsEqv secEqv at *
  simp only [Bool.and_eq_true, List.all_eq_true, List.any_eq_true] at *
  refine ⟨?_, ?_⟩
  · intro s hs
    obtain ⟨t, ht, he⟩ := hx.1 s hs
    exact ⟨t, ht, he.1, subsEqv_mono h _ _ he.2⟩
  · intro t ht
    obtain ⟨s, hs, he⟩ := hx.2 t ht
    exact ⟨s, hs, he.1, subsEqv_mono h _ _ he.2⟩

theorem eqv_succ (a b : List Obj) : ∀ (f : Nat) (ra rb : Ref), eqv f a b ra rb = true → eqv (f + 1) a b ra rb = true
  | 0, _, _, h => by simp [eqv] at h
  | f + 1, ra, rb, h => by
    unfold eqv at h ⊢
    simp only [Bool.and_eq_true] at h ⊢
    refine ⟨h.1, ?_⟩
    have h2 := h.2
    cases hoa : a.find? (fun o => o.id == ra) with
    | none => rw [hoa] at h2; simp at h2
    | some oa =>
      cases hob : b.find? (fun o => o.id == rb) with
      | none => rw [hoa, hob] at h2; simp at h2
      | some ob =>
        rw [hoa, hob] at h2
        simp only at h2 ⊢
        cases hk : ra.1 <;> simp only [hk] at h2 ⊢ <;> first
          | exact h2
          | exact secsEqv_mono (fun x y hxy => eqv_succ a b f x y hxy) _ _ h2

theorem eqv_mono (a b : List Obj) (f g : Nat) (hfg : f ≤ g) (ra rb : Ref) (h : eqv f a b ra rb = true) : eqv g a b ra rb = true := by
  induction hfg with
  | refl => exact h
  | step _ ih => exact eqv_succ a b _ ra rb ih

/-! ## folds: an empty change list at the end means an empty list before, and nothing emitting in between -/

theorem emit_ne (st : St) (c : Chg) : (st.emit c).out ≠ [] := by
  unfold St.emit
  simp

theorem foldl_opt_back {α : Type} (P : St → Prop) (Q : α → Prop) (g : St → α → Option St) : ∀ (l : List α) (st st' : St),
    (∀ x ∈ l, ∀ s s', g s x = some s' → s'.out = [] → s.out = [] ∧ (P s → P s' ∧ Q x)) →
    l.foldl (fun (acc : Option St) x => acc.bind fun s => g s x) (some st) = some st' → st'.out = [] →
    st.out = [] ∧ (P st → P st' ∧ ∀ x ∈ l, Q x)
  | [], st, st', _, he, ho => by
    cases he
    exact ⟨ho, fun hp => ⟨hp, fun x hx => by cases hx⟩⟩
  | x :: xs, st, st', hg, he, ho => by
    rw [List.foldl_cons] at he
    cases hx : g st x with
    | none =>
      simp only [Option.bind_some, hx] at he
      rw [foldl_opt_none] at he; cases he
    | some s1 =>
      simp only [Option.bind_some, hx] at he
      have ih := foldl_opt_back P Q g xs s1 st' (fun y hy => hg y (List.mem_cons_of_mem _ hy)) he ho
      have h1 := hg x List.mem_cons_self st s1 hx ih.1
      refine ⟨h1.1, ?_⟩
      intro hp
      have h2 := h1.2 hp
      have h3 := ih.2 h2.1
      refine ⟨h3.1, ?_⟩
      intro y hy
      cases hy with
      | head => exact h2.2
      | tail _ hy => exact h3.2 y hy

theorem foldl_back {α : Type} (P : St → Prop) (Q : α → Prop) (g : St → α → St) : ∀ (l : List α) (st : St),
    (∀ x ∈ l, ∀ s, (g s x).out = [] → s.out = [] ∧ (P s → P (g s x) ∧ Q x)) →
    (l.foldl g st).out = [] → st.out = [] ∧ (P st → P (l.foldl g st) ∧ ∀ x ∈ l, Q x)
  | [], _, _, ho => ⟨ho, fun hp => ⟨hp, fun x hx => by cases hx⟩⟩
  | x :: xs, st, hg, ho => by
    rw [List.foldl_cons] at ho ⊢
    have ih := foldl_back P Q g xs (g st x) (fun y hy => hg y (List.mem_cons_of_mem _ hy)) ho
    have h1 := hg x List.mem_cons_self st ih.1
    refine ⟨h1.1, ?_⟩
    intro hp
    have h2 := h1.2 hp
    have h3 := ih.2 h2.1
    refine ⟨h3.1, ?_⟩
    intro y hy
    cases hy with
    | head => exact h2.2
    | tail _ hy => exact h3.2 y hy

/-! ## further well-formedness (decidable) and the invariant -/

structure WF2 (a b : List Obj) : Prop where
  kk : ∀ x ∈ a, ∀ y ∈ b, ∀ sx ∈ x.secs, ∀ sy ∈ y.secs, KindByKey sx.subs sy.subs
  rbk : ∀ x ∈ a, ∀ y ∈ b, ∀ sx ∈ x.secs, ∀ sy ∈ y.secs, ∀ s ∈ sx.subs, ∀ s' ∈ sy.subs,
    s.key = s'.key → s.ref.isSome = s'.ref.isSome
  ndA : ∀ o ∈ a, (o.secs.map (·.head)).Nodup ∧ ∀ sec ∈ o.secs, (keysOf sec.subs).Nodup
  ndB : ∀ o ∈ b, (o.secs.map (·.head)).Nodup ∧ ∀ sec ∈ o.secs, (keysOf sec.subs).Nodup
  pool : ∀ o ∈ b, o.kind = .pool → ∃ c, o.lines = [c]
  anchA : ∀ o ∈ a, o.anchor = true → o.kind = .tg ∨ o.kind = .user
  anchB : ∀ o ∈ b, o.anchor = true → o.kind = .tg ∨ o.kind = .user
  anchAB : ∀ o ∈ a, ∀ o' ∈ b, o.id = o'.id → o.anchor = o'.anchor

/-- `pend`: ready marks of objects whose comparison is still running (name adopted, content not yet verified) -/
structure K (a b : List Obj) (T : List Ref) (pend : List (Ref × String)) (st : St) : Prop where
  sa : st.a = a
  sb : st.b = b
  td : ∀ r ∈ T, r ∈ st.toDel
  rdy : ∀ p ∈ st.ready, p ∉ pend → eqv (rk p.1.1 + 1) a b (p.1.1, p.2) p.1 = true
  keep : ∀ p ∈ pend, p ∈ st.ready
  fix : ∀ p ∈ st.ready, rk p.1.1 = 2 → p.2 = p.1.2      -- objects of the top rank (the anchors) keep their name
  nd : ∀ r ∈ st.needed, rk r.1 < 2 ∨ ∃ o ∈ b, o.anchor = true ∧ o.id = r

variable {A : List Ref} {a b : List Obj} {T : List Ref}

theorem K.same {pend : List (Ref × String)} {st st' : St} (h : K a b T pend st)
    (ha : st'.a = st.a) (hb : st'.b = st.b) (hr : st'.ready = st.ready) (hn : st'.needed = st.needed)
    (ht : ∀ r ∈ st.toDel, r ∈ st'.toDel) : K a b T pend st' where
  sa := by rw [ha]; exact h.sa
  sb := by rw [hb]; exact h.sb
  td := fun r hr => ht r (h.td r hr)
  rdy := by rw [hr]; exact h.rdy
  keep := by rw [hr]; exact h.keep
  fix := by rw [hr]; exact h.fix
  nd := by rw [hn]; exact h.nd

theorem K.markNeeded {pend : List (Ref × String)} {st : St} (h : K a b T pend st) (r : Ref)
    (hr : rk r.1 < 2 ∨ ∃ o ∈ b, o.anchor = true ∧ o.id = r) : K a b T pend (st.markNeeded r) := by
  unfold St.markNeeded
  split
  · exact h
  · exact ⟨h.sa, h.sb, h.td, h.rdy, h.keep, h.fix, by
      intro x hx
      cases hx with
      | head => exact hr
      | tail _ hx => exact h.nd x hx⟩

theorem mem_setReady {st : St} {r : Ref} {n : String} {p : Ref × String} (hp : p ∈ (st.setReady r n).ready) :
    p = (r, n) ∨ (p ∈ st.ready ∧ p.1 ≠ r) := by
  unfold St.setReady at hp
  simp only [List.mem_cons, List.mem_filter] at hp
  rcases hp with hp | hp
  · exact Or.inl hp
  · exact Or.inr ⟨hp.1, by simpa using hp.2⟩

theorem K.setReady {pend : List (Ref × String)} {st : St} (h : K a b T pend st) (r : Ref) (n : String)
    (hp : ∀ q ∈ pend, q.1 ≠ r) (he : eqv (rk r.1 + 1) a b (r.1, n) r = true) (hfx : rk r.1 = 2 → n = r.2) :
    K a b T pend (st.setReady r n) where
  sa := h.sa
  sb := h.sb
  td := h.td
  nd := h.nd
  fix := by
    intro p hpm hr2
    rcases mem_setReady hpm with e | ⟨h1, _⟩
    · rw [e] at hr2 ⊢; exact hfx hr2
    · exact h.fix p h1 hr2
  rdy := by
    intro p hpm hnp
    rcases mem_setReady hpm with e | ⟨h1, _⟩
    · rw [e]; exact he
    · exact h.rdy p h1 hnp
  keep := by
    intro q hq
    unfold St.setReady
    simp only [List.mem_cons, List.mem_filter]
    exact Or.inr ⟨h.keep q hq, by simpa using hp q hq⟩

/-- adopt a name before the content is verified: the mark goes on the stack -/
theorem K.setReadyPend {pend : List (Ref × String)} {st : St} (h : K a b T pend st) (r : Ref) (n : String)
    (hp : ∀ q ∈ pend, q.1 ≠ r) (hfx : rk r.1 = 2 → n = r.2) : K a b T ((r, n) :: pend) (st.setReady r n) where
  sa := h.sa
  sb := h.sb
  td := h.td
  nd := h.nd
  fix := by
    intro p hpm hr2
    rcases mem_setReady hpm with e | ⟨h1, _⟩
    · rw [e] at hr2 ⊢; exact hfx hr2
    · exact h.fix p h1 hr2
  rdy := by
    intro p hpm hnp
    rcases mem_setReady hpm with e | ⟨h1, _⟩
    · exact absurd (by rw [e]; exact List.mem_cons_self) hnp
    · exact h.rdy p h1 (fun hm => hnp (List.mem_cons_of_mem _ hm))
  keep := by
    intro q hq
    unfold St.setReady
    cases hq with
    | head => exact List.mem_cons_self
    | tail _ hq =>
      simp only [List.mem_cons, List.mem_filter]
      exact Or.inr ⟨h.keep q hq, by simpa using hp q hq⟩

theorem K.pop {pend : List (Ref × String)} {st : St} {r : Ref} {n : String} (h : K a b T ((r, n) :: pend) st)
    (he : eqv (rk r.1 + 1) a b (r.1, n) r = true) : K a b T pend st where
  sa := h.sa
  sb := h.sb
  td := h.td
  nd := h.nd
  fix := h.fix
  rdy := by
    intro p hpm hnp
    by_cases e : p = (r, n)
    · rw [e]; exact he
    · exact h.rdy p hpm (by
        intro hm
        cases hm with
        | head => exact e rfl
        | tail _ hm => exact hnp hm)
  keep := fun q hq => h.keep q (List.mem_cons_of_mem _ hq)

/-- the name of a ready object that is not on the stack is the name of a device object of the same content -/
theorem K.cur_eqv {pend : List (Ref × String)} {st : St} (h : K a b T pend st) (r : Ref) (hr : st.isReady r = true)
    (hp : ∀ q ∈ pend, q.1 ≠ r) : eqv (rk r.1 + 1) a b (r.1, st.cur r) r = true :=
  h.rdy (r, st.cur r) (cur_mem_ready st r hr) (fun hm => hp _ hm rfl)

/-! ## pieces that always emit -/

theorem setMode_out (st : St) (k : Kind) (n hd : String) : (st.setMode k n hd).out = [] → st.out = [] := by
  unfold St.setMode
  split
  · exact id
  · dsimp only
    intro h
    exact absurd h (emit_ne _ _)

theorem foldl_emit_back {α : Type} (F : St → α → Chg) : ∀ (l : List α) (st : St),
    (l.foldl (fun st x => st.emit (F st x)) st).out = [] → st.out = [] ∧ l = []
  | [], _, h => ⟨h, rfl⟩
  | x :: xs, st, h => by
    rw [List.foldl_cons] at h
    exact absurd (foldl_emit_back F xs _ h).1 (emit_ne _ _)

theorem addSec_ne (st : St) (k : Kind) (n : String) (sec : Sec) : (addSec st k n sec).out ≠ [] := by
  intro h
  unfold addSec at h
  have := (foldl_emit_back (fun st s => .sub false (st.subText s) (st.subRef s) s.key s.body) sec.subs _ h).1
  exact emit_ne st _ this

theorem addSecs_back (add : St → Ref → Option St) (k : Kind) (n : String) : ∀ (secs : List Sec) (st st' : St),
    addSecs add st k n secs = some st' → st'.out = [] → secs = [] ∧ st' = st := by
  intro secs st st' he ho
  unfold addSecs at he
  have hb := foldl_opt_back (fun _ => True) (fun _ => False)
    (fun st sec => (followSubs add st sec.subs).map fun st => addSec st k n sec) secs st st' (by
      intro sec _ s s' hs ho'
      cases hf : followSubs add s sec.subs with
      | none => rw [hf] at hs; cases hs
      | some s1 =>
        rw [hf] at hs
        simp only [Option.map_some, Option.some.injEq] at hs
        rw [← hs] at ho'
        exact absurd ho' (addSec_ne _ _ _ _)) he ho
  cases secs with
  | nil => cases he; exact ⟨rfl, rfl⟩
  | cons x xs => exact absurd ((hb.2 trivial).2 x List.mem_cons_self) id

theorem addSubs_back (add : St → Ref → Option St) (k : Kind) (n hd : String) : ∀ (l : List Sub) (st st' : St),
    addSubs add st k n hd l = some st' → st'.out = [] → l = [] ∧ st' = st := by
  intro l st st' he ho
  unfold addSubs at he
  have hb := foldl_opt_back (fun _ => True) (fun _ => False)
    (fun st s => (match s.ref with | some x => add st x | none => some st).map fun (st : St) =>
        let st := st.setMode k n hd
        st.emit (.sub false (st.subText s) (st.subRef s) s.key s.body)) l st st' (by
      intro s _ s0 s' hs ho'
      cases hf : (match s.ref with | some x => add s0 x | none => some s0) with
      | none => simp only [hf] at hs; cases hs
      | some s1 =>
        simp only [hf, Option.map_some, Option.some.injEq] at hs
        rw [← hs] at ho'
        exact absurd ho' (emit_ne _ _)) he ho
  cases l with
  | nil => cases he; exact ⟨rfl, rfl⟩
  | cons x xs => exact absurd ((hb.2 trivial).2 x List.mem_cons_self) id

/-- a marking function that emits nothing -/
def MarkQuiet (mark : St → Ref → St) : Prop :=
  ∀ st x, (mark st x).a = st.a ∧ (mark st x).b = st.b ∧ (mark st x).ready = st.ready ∧ (mark st x).out = st.out ∧
    (mark st x).needed = st.needed ∧ ∀ r ∈ st.toDel, r ∈ (mark st x).toDel

theorem foldl_quiet {mark : St → Ref → St} (hm : MarkQuiet mark) : ∀ (l : List Ref) (st : St),
    (l.foldl mark st).a = st.a ∧ (l.foldl mark st).b = st.b ∧ (l.foldl mark st).ready = st.ready ∧
      (l.foldl mark st).out = st.out ∧ (l.foldl mark st).needed = st.needed ∧ ∀ r ∈ st.toDel, r ∈ (l.foldl mark st).toDel
  | [], _ => ⟨rfl, rfl, rfl, rfl, rfl, fun _ h => h⟩
  | x :: xs, st => by
    rw [List.foldl_cons]
    have h1 := hm st x
    have h2 := foldl_quiet hm xs (mark st x)
    exact ⟨h2.1.trans h1.1, h2.2.1.trans h1.2.1, h2.2.2.1.trans h1.2.2.1, h2.2.2.2.1.trans h1.2.2.2.1,
      h2.2.2.2.2.1.trans h1.2.2.2.2.1, fun r hr => h2.2.2.2.2.2 r (h1.2.2.2.2.2 r hr)⟩

theorem delSubs_back {mark : St → Ref → St} (hm : MarkQuiet mark) (k : Kind) (n hd : String) (l : List Sub) (st : St)
    (ho : (delSubs mark st k n hd l).out = []) : l = [] := by
  unfold delSubs at ho
  rw [(foldl_quiet hm _ _).2.2.2.1] at ho
  cases l with
  | nil => rfl
  | cons x xs =>
    exfalso
    have hb := foldl_back (fun _ => True) (fun _ => False)
      (fun st (s : Sub) => (st.setMode k n hd).emit (.sub true s.orig s.ref s.key s.body)) (x :: xs) st (by
        intro s _ s0 ho'
        exact absurd ho' (emit_ne _ _)) ho
    exact (hb.2 trivial).2 x List.mem_cons_self

theorem delSecs_back {mark : St → Ref → St} (hm : MarkQuiet mark) (k : Kind) (n : String) (secs : List Sec) (st : St)
    (ho : (delSecs mark st k n secs).out = []) : secs = [] := by
  unfold delSecs at ho
  cases secs with
  | nil => rfl
  | cons x xs =>
    exfalso
    have hb := foldl_back (fun _ => True) (fun _ => False)
      (fun st (sec : Sec) =>
        let st := { (st.emit (.sec true k n sec.head sec.mode)) with mode := none }
        (sec.subs.filterMap (·.ref)).foldl mark st) (x :: xs) st (by
        intro sec _ s0 ho'
        dsimp only at ho'
        rw [(foldl_quiet hm _ _).2.2.2.1] at ho'
        exact absurd ho' (emit_ne s0 _)) ho
    exact (hb.2 trivial).2 x List.mem_cons_self

/-! ## marks -/

theorem markDel_needed : ∀ (f : Nat) (st : St) (r : Ref), (markDel f st r).needed = st.needed
  | 0, _, _ => rfl
  | f + 1, st, r => by
    unfold markDel
    split
    · rfl
    · cases st.aObj r with
      | none => rfl
      | some o =>
        simp only
        split
        · rfl
        · have : ∀ (l : List Ref) (s0 : St), (l.foldl (markDel f) s0).needed = s0.needed := by
            intro l
            induction l with
            | nil => intro s0; rfl
            | cons x xs ih =>
              intro s0
              rw [List.foldl_cons]
              exact (ih (markDel f s0 x)).trans (markDel_needed f s0 x)
          exact this o.refs _

theorem markDel_toDel : ∀ (f : Nat) (st : St) (x : Ref), ∀ r ∈ st.toDel, r ∈ (markDel f st x).toDel
  | 0, _, _ => fun _ h => h
  | f + 1, st, x => by
    intro r hr
    unfold markDel
    split
    · exact hr
    · cases st.aObj x with
      | none => exact hr
      | some o =>
        simp only
        split
        · exact hr
        · have : ∀ (l : List Ref) (s0 : St), r ∈ s0.toDel → r ∈ (l.foldl (markDel f) s0).toDel := by
            intro l
            induction l with
            | nil => intro s0 h; exact h
            | cons y ys ih =>
              intro s0 h
              rw [List.foldl_cons]
              exact ih _ (markDel_toDel f s0 y r h)
          exact this o.refs _ (List.mem_cons_of_mem _ hr)

theorem markDel_quiet (f : Nat) : MarkQuiet (markDel f) := by
  intro st x
  have h := markDel_fields f st x
  exact ⟨h.1, h.2.1, h.2.2.1, h.2.2.2, markDel_needed f st x, markDel_toDel f st x⟩

theorem K.quiet {pend : List (Ref × String)} {st st' : St} (h : K a b T pend st)
    (hq : st'.a = st.a ∧ st'.b = st.b ∧ st'.ready = st.ready ∧ st'.out = st.out ∧ st'.needed = st.needed ∧
      ∀ r ∈ st.toDel, r ∈ st'.toDel) : K a b T pend st' :=
  h.same hq.1 hq.2.1 hq.2.2.1 hq.2.2.2.2.1 hq.2.2.2.2.2

/-! ## `eqv` for the three shapes of objects -/

theorem eqv_aaa {ra rb : Ref} (ha : (a.find? fun o => o.id == ra).isSome = true) (hb : (b.find? fun o => o.id == rb).isSome = true)
    (hk : ra.1 = .aaa) (hkb : rb.1 = .aaa) (hn : ra.2 = rb.2) : eqv 1 a b ra rb = true := by
  unfold eqv
  cases hoa : a.find? (fun o => o.id == ra) with
  | none => rw [hoa] at ha; cases ha
  | some oa =>
    cases hob : b.find? (fun o => o.id == rb) with
    | none => rw [hob] at hb; cases hb
    | some ob => simp [hk, hkb, hn]

theorem eqv_leaf {ra rb : Ref} {oa ob : Obj} (ha : a.find? (fun o => o.id == ra) = some oa) (hb : b.find? (fun o => o.id == rb) = some ob)
    (hk : ra.1 = rb.1) (hl : ra.1 = .acl ∨ ra.1 = .pool) (hlines : oa.lines = ob.lines) : eqv 1 a b ra rb = true := by
  unfold eqv
  rw [ha, hb]
  rcases hl with h | h <;> simp [← hk, h, hlines]

theorem eqv_sec {ra rb : Ref} {oa ob : Obj} {m : Nat} (ha : a.find? (fun o => o.id == ra) = some oa)
    (hb : b.find? (fun o => o.id == rb) = some ob) (hk : ra.1 = rb.1) (hr : rk ra.1 ≠ 0)
    (hs : secsEqv (eqv m a b) oa.secs ob.secs = true) : eqv (m + 1) a b ra rb = true := by
  unfold eqv
  rw [ha, hb]
  cases hkk : ra.1 <;> simp [hkk, rk] at hr <;> simp [← hk, hkk, hs]

theorem markNeeded_out (st : St) (r : Ref) : (st.markNeeded r).out = st.out := by
  unfold St.markNeeded
  split <;> rfl

theorem findPool_spec (st : St) (c dn : String) (h : findPool st c = some dn) :
    ∃ o, st.a.find? (fun o => o.id == (Kind.pool, dn)) = some o ∧ o.lines = [c] := by
  unfold findPool at h
  have := List.find?_some h
  cases ho : st.aObj (.pool, dn) with
  | none => simp [ho] at this
  | some o =>
    simp only [ho] at this
    exact ⟨o, ho, by simpa using this⟩

theorem markNeeded_a (st : St) (r : Ref) : (st.markNeeded r).a = st.a := by
  unfold St.markNeeded
  split <;> rfl
theorem markNeeded_b (st : St) (r : Ref) : (st.markNeeded r).b = st.b := by
  unfold St.markNeeded
  split <;> rfl
theorem markNeeded_ready (st : St) (r : Ref) : (st.markNeeded r).ready = st.ready := by
  unfold St.markNeeded
  split <;> rfl

theorem mem_setReady_of {st : St} {r : Ref} {n : String} {p : Ref × String} (hp : p ∈ st.ready) (hne : p.1 ≠ r) :
    p ∈ (st.setReady r n).ready := by
  unfold St.setReady
  simp only [List.mem_cons, List.mem_filter]
  exact Or.inr ⟨hp, by simpa using hne⟩

/-! ## transfer: without output the object was ready, or is an aaa-server / a pool found by content -/

theorem addAny_K (hw : WF A a b) (h2 : WF2 a b) (f : Nat) (pend : List (Ref × String)) (st st' : St) (r : Ref)
    (he : addAny (f + 1) st r = some st') (ho : st'.out = []) :
    st.out = [] ∧ (K a b T pend st → (b.find? fun y => y.id == r).isSome = true → (∀ q ∈ pend, q.1 ≠ r) →
      K a b T pend st' ∧ st'.isReady r = true) := by
  unfold addAny at he
  -- the common start of the non-aaa cases
  have start : ∀ (rest : Obj → Option St),
      (match st.bObj r with
        | none => some st
        | some o => if st.isReady r then some st else rest o) = some st' →
      (∀ o, st.bObj r = some o → st.isReady r = false → rest o = some st' →
        st.out = [] ∧ (K a b T pend st → (∀ q ∈ pend, q.1 ≠ r) → K a b T pend st' ∧ st'.isReady r = true)) →
      st.out = [] ∧ (K a b T pend st → (b.find? fun y => y.id == r).isSome = true → (∀ q ∈ pend, q.1 ≠ r) →
        K a b T pend st' ∧ st'.isReady r = true) := by
    intro rest he hrest
    cases hb : st.bObj r with
    | none =>
      rw [hb] at he; cases he
      refine ⟨ho, ?_⟩
      intro hK hsome _
      unfold St.bObj at hb
      rw [hK.sb] at hb
      rw [hb] at hsome; cases hsome
    | some o =>
      rw [hb] at he
      dsimp only at he
      by_cases hr : st.isReady r = true
      · rw [if_pos hr] at he; cases he
        exact ⟨ho, fun hK _ _ => ⟨hK, hr⟩⟩
      · rw [if_neg hr] at he
        have := hrest o hb (by simpa using hr) he
        exact ⟨this.1, fun hK _ hp => this.2 hK hp⟩
  have sec : rk r.1 ≠ 0 →
      (match st.bObj r with
        | none => some st
        | some o => if st.isReady r then some st else addSecs (addAny f) (st.setReady r (st.cur r)) r.1 (st.cur r) o.secs) = some st' →
      st.out = [] ∧ (K a b T pend st → (b.find? fun y => y.id == r).isSome = true → (∀ q ∈ pend, q.1 ≠ r) →
        K a b T pend st' ∧ st'.isReady r = true) := by
    intro hrk he
    refine start _ he ?_
    intro o hb hnr he'
    have hbk := addSecs_back _ _ _ _ _ _ he' ho
    rw [hbk.2] at ho
    refine ⟨ho, ?_⟩
    intro hK _
    have hom := find_id st.b r o hb
    rw [hK.sb] at hom
    exact absurd hbk.1 (hw.bsec o hom.1 (by rw [show o.kind = r.1 from by rw [← hom.2]; rfl]; exact hrk))
  cases hk : r.1 with
  | aaa =>
    simp only [hk] at he
    split at he
    · rename_i hsome
      cases he
      have ho' : st.out = [] := by
        have : ((st.markNeeded r).setReady r r.2).out = st.out := markNeeded_out st r
        rw [← this]; exact ho
      refine ⟨ho', ?_⟩
      intro hK hb hp
      refine ⟨(hK.markNeeded r (Or.inl (by rw [hk]; decide))).setReady r r.2 hp ?_ (fun _ => rfl), isReady_setReady_self _ r r.2⟩
      have hrk : rk r.1 + 1 = 1 := by rw [hk]; rfl
      rw [hrk]
      exact eqv_aaa (ra := r) (rb := r) (by unfold St.aObj at hsome; rw [hK.sa] at hsome; exact hsome) hb hk hk rfl
    · cases he
  | acl =>
    simp only [hk] at he
    refine start _ he ?_
    intro o hb hnr he'
    simp only [Option.some.injEq] at he'
    rw [← he'] at ho ⊢
    have hfb := foldl_emit_back (fun (_ : St) l => Chg.line (st.cur r) l) o.lines (st.setReady r (st.cur r)) ho
    refine ⟨hfb.1, ?_⟩
    intro hK _
    have hom := find_id st.b r o hb
    rw [hK.sb] at hom
    exact absurd hfb.2 (hw.bacl o hom.1 (by rw [← hk, ← hom.2]; rfl))
  | pool =>
    simp only [hk] at he
    refine start _ he ?_
    intro o hb hnr he'
    cases hfp : findPool (st.setReady r (st.cur r)) (o.lines.headD "") with
    | some dn =>
      rw [hfp] at he'
      simp only [Option.some.injEq] at he'
      have ho' : st.out = [] := by
        have : (((st.setReady r (st.cur r)).markNeeded (.pool, dn)).setReady r dn).out = st.out := markNeeded_out _ _
        rw [← this, he']; exact ho
      refine ⟨ho', ?_⟩
      intro hK hp
      obtain ⟨oa, hoa, hla⟩ := findPool_spec _ _ _ hfp
      have hom := find_id st.b r o hb
      rw [hK.sb] at hom
      obtain ⟨c, hc⟩ := h2.pool o hom.1 (by rw [← hk, ← hom.2]; rfl)
      have hrk : rk r.1 + 1 = 1 := by rw [hk]; rfl
      have hev : eqv (rk r.1 + 1) a b (r.1, dn) r = true := by
        rw [hrk]
        refine eqv_leaf (ra := (r.1, dn)) (rb := r) (oa := oa) (ob := o) ?_ ?_ rfl (Or.inr hk) ?_
        · have : (st.setReady r (st.cur r)).a = a := hK.sa
          rw [← this, hk]; exact hoa
        · unfold St.bObj at hb; rw [hK.sb] at hb; exact hb
        · rw [hla, hc]; rfl
      rw [← he']
      refine ⟨⟨(markNeeded_a _ _).trans hK.sa, (markNeeded_b _ _).trans hK.sb, ?_, ?_, ?_, ?_, ?_⟩, isReady_setReady_self _ r dn⟩
      · intro x hx
        have : (((st.setReady r (st.cur r)).markNeeded (Kind.pool, dn)).setReady r dn).toDel = st.toDel := by
          show ((st.setReady r (st.cur r)).markNeeded (Kind.pool, dn)).toDel = st.toDel
          unfold St.markNeeded; split <;> rfl
        rw [this]; exact hK.td x hx
      · intro p hpm hnp
        rcases mem_setReady hpm with e | ⟨h1, hne⟩
        · rw [e]; exact hev
        · rw [markNeeded_ready] at h1
          rcases mem_setReady h1 with e | ⟨h3, _⟩
          · exact absurd (by rw [e]) hne
          · exact hK.rdy p h3 hnp
      · intro q hq
        apply mem_setReady_of _ (hp q hq)
        rw [markNeeded_ready]
        exact mem_setReady_of (hK.keep q hq) (hp q hq)
      · intro p hpm hr2
        rcases mem_setReady hpm with e | ⟨h1, hne⟩
        · rw [e, hk] at hr2; simp [rk] at hr2
        · rw [markNeeded_ready] at h1
          rcases mem_setReady h1 with e | ⟨h3, _⟩
          · exact absurd (by rw [e]) hne
          · exact hK.fix p h3 hr2
      · intro x hx
        have hx' : x ∈ ((st.setReady r (st.cur r)).markNeeded (.pool, dn)).needed := hx
        unfold St.markNeeded at hx'
        split at hx'
        · exact hK.nd x hx'
        · cases hx' with
          | head => exact Or.inl (by show rk Kind.pool < 2; decide)
          | tail _ hx' => exact hK.nd x hx'
    | none =>
      rw [hfp] at he'
      simp only [Option.some.injEq] at he'
      rw [← he'] at ho
      exact absurd ho (emit_ne _ _)
  | gp => simp only [hk] at he; exact sec (by rw [hk]; decide) (by rw [hk]; exact he)
  | tg => simp only [hk] at he; exact sec (by rw [hk]; decide) (by rw [hk]; exact he)
  | user => simp only [hk] at he; exact sec (by rw [hk]; decide) (by rw [hk]; exact he)
  | certmap => simp only [hk] at he; exact sec (by rw [hk]; decide) (by rw [hk]; exact he)

/-! ## comparison -/

/-- what is known about a pair of references that `diff` is applied to -/
def PairOK (a b : List Obj) (f : Nat) (pend : List (Ref × String)) (xa xb : Ref) : Prop :=
  (a.find? fun o => o.id == xa).isSome = true ∧ (b.find? fun o => o.id == xb).isSome = true ∧ xa.1 = xb.1 ∧ rk xa.1 < f ∧
    (∀ q ∈ pend, rk xb.1 < rk q.1.1) ∧ (rk xa.1 < 2 ∨ ∃ o ∈ b, o.anchor = true ∧ o.id = xa) ∧ (rk xb.1 = 2 → xa.2 = xb.2)

def DiffK (a b : List Obj) (f : Nat) (diff : St → Ref → Ref → Option (St × String)) : Prop :=
  ∀ (T : List Ref) pend st xa xb st' n, diff st xa xb = some (st', n) → st'.out = [] →
    st.out = [] ∧ (K a b T pend st → PairOK a b f pend xa xb →
      K a b T pend st' ∧ (n = xa.2 → eqv (rk xa.1 + 1) a b xa xb = true) ∧ st'.isReady xb = true)

def PairsOK (a b : List Obj) (f : Nat) (pend : List (Ref × String)) (pairs : List (Sub × Sub)) : Prop :=
  ∀ q ∈ pairs, ∀ xa xb, q.1.ref = some xa → q.2.ref = some xb → PairOK a b f pend xa xb

theorem equalSubs_K {f : Nat} {diff : St → Ref → Ref → Option (St × String)} (hdiff : DiffK a b f diff)
    (pend : List (Ref × String)) (k : Kind) (n hd : String) (pairs : List (Sub × Sub)) (st st' : St)
    (he : equalSubs diff st k n hd pairs = some st') (ho : st'.out = []) :
    st.out = [] ∧ (K a b T pend st → PairsOK a b f pend pairs →
      K a b T pend st' ∧ ∀ q ∈ pairs, ∀ xa xb, q.1.ref = some xa → q.2.ref = some xb → eqv (rk xa.1 + 1) a b xa xb = true) := by
  unfold equalSubs at he
  have hb := foldl_opt_back (fun s => PairsOK a b f pend pairs → K a b T pend s)
    (fun (q : Sub × Sub) => PairsOK a b f pend pairs → q ∈ pairs →
      ∀ xa xb, q.1.ref = some xa → q.2.ref = some xb → eqv (rk xa.1 + 1) a b xa xb = true)
    (fun st q => match q.1.ref, q.2.ref with
      | some xa, some xb =>
        (diff st xa xb).map fun r =>
          if r.2 != xa.2 then
            let st := r.1.setMode k n hd
            st.emit (.sub false (st.subText q.2) (st.subRef q.2) q.2.key q.2.body)
          else r.1
      | _, _ => some st) pairs st st' (by
      intro q _ s s' hs ho'
      cases h1 : q.1.ref with
      | none =>
        simp only [h1] at hs; cases hs
        exact ⟨ho', fun hp => ⟨hp, by intro _ _ xa xb e; cases e⟩⟩
      | some xa =>
        cases h2 : q.2.ref with
        | none =>
          simp only [h1, h2] at hs; cases hs
          exact ⟨ho', fun hp => ⟨hp, by intro _ _ xa xb _ e; cases e⟩⟩
        | some xb =>
          simp only [h1, h2] at hs
          cases hd' : diff s xa xb with
          | none => rw [hd'] at hs; cases hs
          | some r =>
            rw [hd'] at hs
            simp only [Option.map_some, Option.some.injEq] at hs
            by_cases hne : (r.2 != xa.2) = true
            · rw [if_pos hne] at hs
              rw [← hs] at ho'
              exact absurd ho' (emit_ne _ _)
            · rw [if_neg hne] at hs
              have hn : r.2 = xa.2 := by simpa using hne
              rw [← hs] at ho'
              have hx := hdiff T pend s xa xb r.1 r.2 hd' ho'
              refine ⟨hx.1, ?_⟩
              intro hp
              refine ⟨?_, ?_⟩
              · intro hH
                rw [← hs]
                exact (hx.2 (hp hH) (hH q ‹q ∈ pairs› xa xb h1 h2)).1
              · intro hH hq ya yb e1 e2
                cases e1; cases e2
                exact (hx.2 (hp hH) (hH q hq xa xb h1 h2)).2.1 hn) he ho
  refine ⟨hb.1, ?_⟩
  intro hK hH
  have := hb.2 (fun _ => hK)
  exact ⟨this.1 hH, fun q hq => this.2 q hq hH hq⟩

/-! ## `diffUnordered` without deletions and insertions pairs everything -/

open NA.Vpn in
theorem unordered_facts (aKeys bKeys : List String) (hnd : aKeys.Nodup) :
    (∀ p, p ∈ (unorderedA bKeys aKeys 0 []).2.1 ↔ ∃ k, aKeys[p]? = some k ∧ k ∉ bKeys) ∧
    (∀ p j, (p, j) ∈ (unorderedA bKeys aKeys 0 []).1 ↔ ∃ k, aKeys[p]? = some k ∧ lastIdx bKeys k = some j) ∧
    (∀ q, q ∈ (insertRuns (unorderedA bKeys aKeys 0 []).2.2 bKeys 0 []).flatten ↔ ∃ k, bKeys[q]? = some k ∧ k ∉ aKeys) := by
  have h := unorderedA_spec bKeys aKeys 0 [] hnd (by intro k _ hk; cases hk)
  refine ⟨?_, ?_, ?_⟩
  · intro p; rw [h.1 p]; simp
  · intro p j; rw [h.2.1 p j]; simp
  · intro q
    rw [insertRuns_spec]
    constructor
    · rintro (hq | ⟨_, k, h1, h2⟩)
      · cases hq
      · have h1' : bKeys[q]? = some k := by simpa using h1
        refine ⟨k, h1', ?_⟩
        intro hka
        have : k ∈ (unorderedA bKeys aKeys 0 []).2.2 := (h.2.2 k).2 (Or.inr ⟨hka, List.mem_of_getElem? h1'⟩)
        have : (unorderedA bKeys aKeys 0 []).2.2.contains k = true := by simpa using this
        rw [this] at h2; cases h2
    · rintro ⟨k, h1, h2⟩
      right
      refine ⟨Nat.zero_le _, k, by simpa using h1, ?_⟩
      have : k ∉ (unorderedA bKeys aKeys 0 []).2.2 := by
        intro hm
        rcases (h.2.2 k).1 hm with h' | ⟨h', _⟩
        · cases h'
        · exact h2 h'
      simpa using this

theorem nodup_key_inj {α : Type} (key : α → String) : ∀ (l : List α), (l.map key).Nodup → ∀ x ∈ l, ∀ y ∈ l, key x = key y → x = y
  | [], _, _, hx, _, _, _ => by cases hx
  | z :: zs, hn, x, hx, y, hy, e => by
    simp only [List.map_cons, List.nodup_cons] at hn
    cases hx with
    | head =>
      cases hy with
      | head => rfl
      | tail _ hy => exact absurd (List.mem_map.2 ⟨y, hy, e.symm⟩) hn.1
    | tail _ hx =>
      cases hy with
      | head => exact absurd (List.mem_map.2 ⟨x, hx, e⟩) hn.1
      | tail _ hy => exact nodup_key_inj key zs hn.2 x hx y hy e

theorem mem_pairsOf_of {α : Type} (la lb : List α) (idx : List (Nat × Nat)) (p j : Nat) (x y : α)
    (hi : (p, j) ∈ idx) (hx : la[p]? = some x) (hy : lb[j]? = some y) : (x, y) ∈ pairsOf la lb idx := by
  unfold pairsOf
  exact List.mem_filterMap.2 ⟨(p, j), hi, by simp [hx, hy]⟩

open NA.Vpn in
theorem cover_of_no_del_ins {α : Type} (key : α → String) (la lb : List α)
    (hna : (la.map key).Nodup) (hnb : (lb.map key).Nodup)
    (hdel : (unorderedA (lb.map key) (la.map key) 0 []).2.1.filterMap (fun i => la[i]?) = [])
    (hins : (insertRuns (unorderedA (lb.map key) (la.map key) 0 []).2.2 (lb.map key) 0 []).flatten.filterMap (fun j => lb[j]?) = []) :
    (∀ x ∈ la, ∃ y ∈ lb, key x = key y ∧ (x, y) ∈ pairsOf la lb (unorderedA (lb.map key) (la.map key) 0 []).1) ∧
    (∀ y ∈ lb, ∃ x ∈ la, key x = key y ∧ (x, y) ∈ pairsOf la lb (unorderedA (lb.map key) (la.map key) 0 []).1) := by
  have hf := unordered_facts (la.map key) (lb.map key) hna
  rw [List.filterMap_eq_nil_iff] at hdel hins
  have pair : ∀ (p : Nat) (x : α), la[p]? = some x → key x ∈ lb.map key →
      ∃ y ∈ lb, key x = key y ∧ (x, y) ∈ pairsOf la lb (unorderedA (lb.map key) (la.map key) 0 []).1 := by
    intro p x hp hk
    have hsome := (lastIdx_isSome_iff (lb.map key) (key x)).2 hk
    cases hl : lastIdx (lb.map key) (key x) with
    | none => rw [hl] at hsome; cases hsome
    | some j =>
      have hpj : (p, j) ∈ (unorderedA (lb.map key) (la.map key) 0 []).1 :=
        (hf.2.1 p j).2 ⟨key x, by rw [List.getElem?_map, hp]; rfl, hl⟩
      have hbj := lastIdx_spec (lb.map key) (key x) j hl
      rw [List.getElem?_map] at hbj
      cases hy : lb[j]? with
      | none => rw [hy] at hbj; cases hbj
      | some y =>
        rw [hy] at hbj
        simp only [Option.map_some, Option.some.injEq] at hbj
        exact ⟨y, List.mem_of_getElem? hy, hbj.symm, mem_pairsOf_of la lb _ p j x y hpj hp hy⟩
  refine ⟨?_, ?_⟩
  · intro x hx
    obtain ⟨p, hp⟩ := List.getElem?_of_mem hx
    by_cases hk : key x ∈ lb.map key
    · exact pair p x hp hk
    · have : p ∈ (unorderedA (lb.map key) (la.map key) 0 []).2.1 :=
        (hf.1 p).2 ⟨key x, by rw [List.getElem?_map, hp]; rfl, hk⟩
      have := hdel p this
      rw [hp] at this; cases this
  · intro y hy
    obtain ⟨q, hq⟩ := List.getElem?_of_mem hy
    by_cases hk : key y ∈ la.map key
    · obtain ⟨x, hx, hxy⟩ := List.mem_map.1 hk
      obtain ⟨p, hp⟩ := List.getElem?_of_mem hx
      obtain ⟨y', hy', hkk, hpr⟩ := pair p x hp (by rw [hxy]; exact List.mem_map.2 ⟨y, hy, rfl⟩)
      have : y' = y := nodup_key_inj key lb hnb y' hy' y hy (by rw [← hkk, hxy])
      rw [this] at hpr
      exact ⟨x, hx, hxy, hpr⟩
    · have : q ∈ (insertRuns (unorderedA (lb.map key) (la.map key) 0 []).2.2 (lb.map key) 0 []).flatten :=
        (hf.2.2 q).2 ⟨key y, by rw [List.getElem?_map, hq]; rfl, hk⟩
      have := hins q this
      rw [hq] at this; cases this

theorem pairsOf_keys {α : Type} (key : α → String) (la lb : List α) (q : α × α)
    (h : q ∈ pairsOf la lb (NA.Vpn.unorderedA (lb.map key) (la.map key) 0 []).1) : q.1 ∈ la ∧ q.2 ∈ lb ∧ key q.1 = key q.2 := by
  obtain ⟨p, hp, h1, h2⟩ := mem_pairsOf la lb _ q h
  obtain ⟨_, k, h3, h4⟩ := unorderedA_pairs (lb.map key) (la.map key) 0 [] p.1 p.2 hp
  refine ⟨List.mem_of_getElem? h1, List.mem_of_getElem? h2, ?_⟩
  rw [Nat.sub_zero, List.getElem?_map, h1] at h3
  rw [List.getElem?_map, h2] at h4
  simp only [Option.map_some, Option.some.injEq] at h3 h4
  rw [h3, h4]

theorem flatten_filterMap_nil {α : Type} (runs : List (List Nat)) (lb : List α)
    (h : ∀ run ∈ runs, (run.filterMap fun j => lb[j]?) = []) : (runs.flatten.filterMap fun j => lb[j]?) = [] := by
  rw [List.filterMap_eq_nil_iff]
  intro q hq
  obtain ⟨run, hr, hqr⟩ := List.mem_flatten.1 hq
  exact (List.filterMap_eq_nil_iff.1 (h run hr)) q hqr

theorem diffSubs_K {f : Nat} {add : St → Ref → Option St} {diff : St → Ref → Ref → Option (St × String)} {mark : St → Ref → St}
    (hdiff : DiffK a b f diff) (hm : MarkQuiet mark) (pend : List (Ref × String)) (k : Kind) (n hd : String)
    (sa sb : List Sub) (st st' : St)
    (he : diffSubs add diff mark st k n hd sa sb = some st') (ho : st'.out = []) :
    st.out = [] ∧ (K a b T pend st → (keysOf sa).Nodup → (keysOf sb).Nodup →
      (∀ x ∈ sa, ∀ y ∈ sb, x.key = y.key → x.ref.isSome = y.ref.isSome) →
      (∀ x ∈ sa, ∀ y ∈ sb, ∀ xa xb, x.ref = some xa → y.ref = some xb → x.key = y.key → PairOK a b f pend xa xb) →
      K a b T pend st' ∧ subsEqv (eqv f a b) sa sb = true) := by
  unfold diffSubs at he
  by_cases h0 : (sa.isEmpty && sb.isEmpty) = true
  · rw [if_pos h0] at he
    cases he
    refine ⟨ho, fun hK _ _ _ _ => ⟨hK, ?_⟩⟩
    simp only [Bool.and_eq_true, List.isEmpty_iff] at h0
    rw [h0.1, h0.2]; rfl
  · rw [if_neg h0] at he
    dsimp only at he
    by_cases h1 : (NA.Vpn.unorderedA (keysOf sb) (keysOf sa) 0 []).1.isEmpty = true
    · -- nothing in common: something is deleted or added
      exfalso
      rw [if_pos h1] at he
      by_cases hsb : sb.isEmpty = true
      · rw [if_pos hsb] at he
        simp only [Option.some.injEq] at he
        by_cases hsa : sa.isEmpty = true
        · exact h0 (by rw [hsa, hsb]; rfl)
        · rw [if_neg hsa] at he
          rw [← he] at ho
          have := delSubs_back hm k n hd sa st ho
          rw [this] at hsa; exact hsa rfl
      · rw [if_neg hsb] at he
        have := (addSubs_back add k n hd sb _ st' he ho).1
        rw [this] at hsb; exact hsb rfl
    · rw [if_neg h1] at he
      generalize hst1 : delSubs mark st k n hd ((NA.Vpn.unorderedA (keysOf sb) (keysOf sa) 0 []).2.1.filterMap fun i => sa[i]?) = st1 at he
      cases hes : equalSubs diff st1 k n hd (pairsOf sa sb (NA.Vpn.unorderedA (keysOf sb) (keysOf sa) 0 []).1) with
      | none => rw [hes, foldl_opt_none] at he; cases he
      | some s2 =>
        rw [hes] at he
        have hb := foldl_opt_back (fun s => s = s2) (fun (run : List Nat) => (run.filterMap fun j => sb[j]?) = [])
          (fun st (run : List Nat) => addSubs add st k n hd (run.filterMap fun j => sb[j]?))
          (NA.Vpn.insertRuns (NA.Vpn.unorderedA (keysOf sb) (keysOf sa) 0 []).2.2 (keysOf sb) 0 []) s2 st' (by
            intro run _ s s' hs ho'
            have := addSubs_back add k n hd _ s s' hs ho'
            rw [this.2] at ho'
            exact ⟨ho', fun hp => ⟨by rw [this.2]; exact hp, this.1⟩⟩) he ho
        have hfin := hb.2 rfl
        have heq := equalSubs_K (T := T) hdiff pend k n hd _ st1 s2 hes hb.1
        have hdel : ((NA.Vpn.unorderedA (keysOf sb) (keysOf sa) 0 []).2.1.filterMap fun i => sa[i]?) = [] :=
          delSubs_back hm k n hd _ st (by rw [hst1]; exact heq.1)
        have hst : st1 = st := by rw [← hst1, hdel]; rfl
        rw [hst] at heq
        refine ⟨heq.1, ?_⟩
        intro hK hna hnb hrbk hpok
        have hpairs : PairsOK a b f pend (pairsOf sa sb (NA.Vpn.unorderedA (keysOf sb) (keysOf sa) 0 []).1) := by
          intro q hq xa xb h1' h2'
          have := pairsOf_keys (fun (s : Sub) => s.key) sa sb q hq
          exact hpok q.1 this.1 q.2 this.2.1 xa xb h1' h2' this.2.2
        have hres := heq.2 hK hpairs
        rw [hfin.1]
        refine ⟨hres.1, ?_⟩
        have hcov := cover_of_no_del_ins (fun (s : Sub) => s.key) sa sb hna hnb hdel (flatten_filterMap_nil _ sb hfin.2)
        have hsub : ∀ x ∈ sa, ∀ y ∈ sb, x.key = y.key →
            (x, y) ∈ pairsOf sa sb (NA.Vpn.unorderedA (keysOf sb) (keysOf sa) 0 []).1 → subEqv (eqv f a b) x y = true := by
          intro x hx y hy hkey hp
          unfold subEqv
          simp only [Bool.and_eq_true, beq_iff_eq]
          refine ⟨hkey, ?_⟩
          have hs := hrbk x hx y hy hkey
          cases hxr : x.ref with
          | none =>
            rw [hxr] at hs
            cases hyr : y.ref with
            | none => rfl
            | some _ => rw [hyr] at hs; cases hs
          | some xa =>
            rw [hxr] at hs
            cases hyr : y.ref with
            | none => rw [hyr] at hs; cases hs
            | some xb =>
              simp only
              have := hres.2 (x, y) hp xa xb hxr hyr
              exact eqv_mono a b _ f (hpok x hx y hy xa xb hxr hyr hkey).2.2.2.1 xa xb this
        unfold subsEqv
        simp only [Bool.and_eq_true, List.all_eq_true, List.any_eq_true]
        refine ⟨?_, ?_⟩
        · intro x hx
          obtain ⟨y, hy, hkey, hp⟩ := hcov.1 x hx
          exact ⟨y, hy, hsub x hx y hy hkey hp⟩
        · intro y hy
          obtain ⟨x, hx, hkey, hp⟩ := hcov.2 y hy
          exact ⟨x, hx, hsub x hx y hy hkey hp⟩

/-- what is known about two top-level commands with the same head -/
def SecOK (a b : List Obj) (f : Nat) (pend : List (Ref × String)) (s t : Sec) : Prop :=
  (keysOf s.subs).Nodup ∧ (keysOf t.subs).Nodup ∧
  (∀ x ∈ s.subs, ∀ y ∈ t.subs, x.key = y.key → x.ref.isSome = y.ref.isSome) ∧
  (∀ x ∈ s.subs, ∀ y ∈ t.subs, ∀ xa xb, x.ref = some xa → y.ref = some xb → x.key = y.key → PairOK a b f pend xa xb)

theorem diffSecs_K {f : Nat} {add : St → Ref → Option St} {diff : St → Ref → Ref → Option (St × String)} {mark : St → Ref → St}
    (hdiff : DiffK a b f diff) (hm : MarkQuiet mark) (pend : List (Ref × String)) (k : Kind) (n : String)
    (sa sb : List Sec) (st st' : St)
    (he : diffSecs add diff mark st k n sa sb (NA.Vpn.unorderedA (sb.map (·.head)) (sa.map (·.head)) 0 []) = some st')
    (ho : st'.out = []) :
    st.out = [] ∧ (K a b T pend st → (sa.map (·.head)).Nodup → (sb.map (·.head)).Nodup →
      (∀ s ∈ sa, ∀ t ∈ sb, s.head = t.head → SecOK a b f pend s t) →
      K a b T pend st' ∧ secsEqv (eqv f a b) sa sb = true) := by
  unfold diffSecs at he
  dsimp only at he
  generalize hst1 : delSecs mark st k n ((NA.Vpn.unorderedA (sb.map (·.head)) (sa.map (·.head)) 0 []).2.1.filterMap fun i => sa[i]?) = st1 at he
  cases hfs : (pairsOf sa sb (NA.Vpn.unorderedA (sb.map (·.head)) (sa.map (·.head)) 0 []).1).foldl
      (fun (acc : Option St) p => acc.bind fun st => diffSubs add diff mark st k n p.2.head p.1.subs p.2.subs) (some st1) with
  | none => rw [hfs] at he; cases he
  | some s2 =>
    rw [hfs] at he
    simp only [Option.bind_some] at he
    have hadd := addSecs_back add k n _ s2 st' he ho
    rw [hadd.2] at ho
    let Hyp : Prop := ∀ s ∈ sa, ∀ t ∈ sb, s.head = t.head → SecOK a b f pend s t
    have hb := foldl_opt_back (fun s => Hyp → K a b T pend s)
      (fun (p : Sec × Sec) => Hyp → p ∈ pairsOf sa sb (NA.Vpn.unorderedA (sb.map (·.head)) (sa.map (·.head)) 0 []).1 →
        subsEqv (eqv f a b) p.1.subs p.2.subs = true)
      (fun st (p : Sec × Sec) => diffSubs add diff mark st k n p.2.head p.1.subs p.2.subs) _ st1 s2 (by
        intro p hpm s s' hs ho'
        have hx := diffSubs_K (T := T) hdiff hm pend k n p.2.head p.1.subs p.2.subs s s' hs ho'
        have hpk := pairsOf_keys (fun (s : Sec) => s.head) sa sb p hpm
        refine ⟨hx.1, ?_⟩
        intro hp
        refine ⟨?_, ?_⟩
        · intro hH
          have hso := hH p.1 hpk.1 p.2 hpk.2.1 hpk.2.2
          exact (hx.2 (hp hH) hso.1 hso.2.1 hso.2.2.1 hso.2.2.2).1
        · intro hH _
          have hso := hH p.1 hpk.1 p.2 hpk.2.1 hpk.2.2
          exact (hx.2 (hp hH) hso.1 hso.2.1 hso.2.2.1 hso.2.2.2).2) hfs ho
    have hdel : ((NA.Vpn.unorderedA (sb.map (·.head)) (sa.map (·.head)) 0 []).2.1.filterMap fun i => sa[i]?) = [] :=
      delSecs_back hm k n _ st (by rw [hst1]; exact hb.1)
    have hst : st1 = st := by rw [← hst1, hdel]; rfl
    rw [hst] at hb
    refine ⟨hb.1, ?_⟩
    intro hK hna hnb hH
    have hres := hb.2 (fun _ => hK)
    rw [hadd.2]
    refine ⟨hres.1 hH, ?_⟩
    have hcov := cover_of_no_del_ins (fun (s : Sec) => s.head) sa sb hna hnb hdel hadd.1
    unfold secsEqv secEqv
    simp only [Bool.and_eq_true, List.all_eq_true, List.any_eq_true, beq_iff_eq]
    refine ⟨?_, ?_⟩
    · intro s hs
      obtain ⟨t, ht, hkey, hp⟩ := hcov.1 s hs
      exact ⟨t, ht, hkey, hres.2 (s, t) hp hH hp⟩
    · intro t ht
      obtain ⟨s, hs, hkey, hp⟩ := hcov.2 t ht
      exact ⟨s, hs, hkey, hres.2 (s, t) hp hH hp⟩

theorem DiffK.weaken {f m : Nat} {diff : St → Ref → Ref → Option (St × String)} (hm : m ≤ f) (h : DiffK a b f diff) :
    DiffK a b m diff := by
  intro T pend st xa xb st' n he ho
  have := h T pend st xa xb st' n he ho
  refine ⟨this.1, ?_⟩
  intro hK hp
  exact this.2 hK ⟨hp.1, hp.2.1, hp.2.2.1, by have := hp.2.2.2.1; omega, hp.2.2.2.2⟩

theorem pend_ne {pend : List (Ref × String)} {x : Ref} (h : ∀ q ∈ pend, rk x.1 < rk q.1.1) : ∀ q ∈ pend, q.1 ≠ x := by
  intro q hq e
  have := h q hq
  rw [e] at this
  omega

/-- the branches of `diffAny` that hand the target object to `addAny` and return the name it has afterwards -/
theorem addAny_pair_K (hw : WF A a b) (h2 : WF2 a b) (f : Nat) (pend : List (Ref × String)) (s0 st' : St) (xa xb : Ref) (n : String)
    (he : ((addAny (f + 1) s0 xb).map fun s => (s, s.cur xb)) = some (st', n)) (ho : st'.out = []) :
    s0.out = [] ∧ (K a b T pend s0 → (b.find? fun o => o.id == xb).isSome = true → xa.1 = xb.1 → (∀ q ∈ pend, rk xb.1 < rk q.1.1) →
      K a b T pend st' ∧ (n = xa.2 → eqv (rk xa.1 + 1) a b xa xb = true) ∧ st'.isReady xb = true) := by
  cases ha : addAny (f + 1) s0 xb with
  | none => rw [ha] at he; cases he
  | some s1 =>
    rw [ha] at he
    simp only [Option.map_some, Option.some.injEq, Prod.mk.injEq] at he
    rw [← he.1] at ho ⊢
    have hx := addAny_K (T := T) hw h2 f pend s0 s1 xb ha ho
    refine ⟨hx.1, ?_⟩
    intro hK hb hk hp
    have h1 := hx.2 hK hb (pend_ne hp)
    refine ⟨h1.1, ?_, h1.2⟩
    intro hn
    have := h1.1.cur_eqv xb h1.2 (pend_ne hp)
    rw [he.2, hn, ← hk] at this
    exact this

theorem diffAny_K (hw : WF A a b) (h2 : WF2 a b) : ∀ f, DiffK a b f (diffAny f)
  | 0 => by
    intro T pend st xa xb st' n he ho
    simp only [diffAny, Option.some.injEq, Prod.mk.injEq] at he
    rw [← he.1] at ho
    exact ⟨ho, fun _ hp => absurd hp.2.2.2.1 (Nat.not_lt_zero _)⟩
  | f + 1 => by
    intro T pend st xa xb st' n he ho
    have ih := diffAny_K hw h2 f
    unfold diffAny at he
    cases hoa : st.aObj xa with
    | none =>
      rw [hoa] at he
      simp only [Option.some.injEq, Prod.mk.injEq] at he
      rw [← he.1] at ho ⊢
      refine ⟨ho, ?_⟩
      intro hK hp
      unfold St.aObj at hoa
      rw [hK.sa] at hoa
      have := hp.1
      rw [hoa] at this; cases this
    | some oa =>
      cases hob : st.bObj xb with
      | none =>
        rw [hoa, hob] at he
        simp only [Option.some.injEq, Prod.mk.injEq] at he
        rw [← he.1] at ho ⊢
        refine ⟨ho, ?_⟩
        intro hK hp
        unfold St.bObj at hob
        rw [hK.sb] at hob
        have := hp.2.1
        rw [hob] at this; cases this
      | some ob =>
        rw [hoa, hob] at he
        simp only at he
        -- facts used by several branches
        have ready : st.isReady xb = true → some (st, st.cur xb) = some (st', n) →
            st.out = [] ∧ (K a b T pend st → PairOK a b (f + 1) pend xa xb →
              K a b T pend st' ∧ (n = xa.2 → eqv (rk xa.1 + 1) a b xa xb = true) ∧ st'.isReady xb = true) := by
          intro hr he
          simp only [Option.some.injEq, Prod.mk.injEq] at he
          rw [← he.1] at ho ⊢
          refine ⟨ho, ?_⟩
          intro hK hp
          refine ⟨hK, ?_, hr⟩
          intro hn
          have := hK.cur_eqv xb hr (pend_ne hp.2.2.2.2.1)
          rw [he.2, hn, ← hp.2.2.1] at this
          exact this
        have viaAdd : ∀ (s0 : St), (s0.a = st.a ∧ s0.b = st.b ∧ s0.ready = st.ready ∧ s0.out = st.out ∧ s0.needed = st.needed ∧
              ∀ r ∈ st.toDel, r ∈ s0.toDel) →
            ((addAny (f + 1) s0 xb).map fun s => (s, s.cur xb)) = some (st', n) →
            st.out = [] ∧ (K a b T pend st → PairOK a b (f + 1) pend xa xb →
              K a b T pend st' ∧ (n = xa.2 → eqv (rk xa.1 + 1) a b xa xb = true) ∧ st'.isReady xb = true) := by
          intro s0 hq he
          have hx := addAny_pair_K (T := T) hw h2 f pend s0 st' xa xb n he ho
          rw [hq.2.2.2.1] at hx
          refine ⟨hx.1, ?_⟩
          intro hK hp
          exact hx.2 (hK.quiet hq) hp.2.1 hp.2.2.1 hp.2.2.2.2.1
        have same : ∀ (hk : xa.1 = xb.1), (xb.1, xa.2) = xa := by
          intro hk; rw [← hk]
        have hfa : K a b T pend st → a.find? (fun o => o.id == xa) = some oa := by
          intro hK; unfold St.aObj at hoa; rw [hK.sa] at hoa; exact hoa
        have hfb : K a b T pend st → b.find? (fun o => o.id == xb) = some ob := by
          intro hK; unfold St.bObj at hob; rw [hK.sb] at hob; exact hob
        have equal : rk xa.1 = 0 → xa.1 ≠ .aaa → oa.lines = ob.lines →
            some ((st.markNeeded xa).setReady xb xa.2, xa.2) = some (st', n) →
            st.out = [] ∧ (K a b T pend st → PairOK a b (f + 1) pend xa xb →
              K a b T pend st' ∧ (n = xa.2 → eqv (rk xa.1 + 1) a b xa xb = true) ∧ st'.isReady xb = true) := by
          intro hr0 hna hl he
          simp only [Option.some.injEq, Prod.mk.injEq] at he
          rw [← he.1] at ho ⊢
          have ho' : st.out = [] := by rw [← markNeeded_out st xa]; exact ho
          refine ⟨ho', ?_⟩
          intro hK hp
          have hev : eqv (rk xa.1 + 1) a b xa xb = true := by
            rw [hr0]
            refine eqv_leaf (hfa hK) (hfb hK) hp.2.2.1 ?_ hl
            cases hk : xa.1 <;> simp [hk, rk] at hr0 hna ⊢
          refine ⟨(hK.markNeeded xa hp.2.2.2.2.2.1).setReady xb xa.2 (pend_ne hp.2.2.2.2.1) ?_ hp.2.2.2.2.2.2, fun _ => hev,
            isReady_setReady_self _ _ _⟩
          rw [same hp.2.2.1, ← hp.2.2.1]; exact hev
        have hma : K a b T pend st → oa ∈ a ∧ oa.kind = xa.1 := by
          intro hK
          have := find_id a xa oa (hfa hK)
          exact ⟨this.1, by rw [← this.2]; rfl⟩
        have hmb : K a b T pend st → ob ∈ b ∧ ob.kind = xb.1 := by
          intro hK
          have := find_id b xb ob (hfb hK)
          exact ⟨this.1, by rw [← this.2]; rfl⟩
        have sec : rk xa.1 ≠ 0 →
            (if st.isNeeded xa then (addAny (f + 1) st xb).map fun st => (st, st.cur xb)
              else if st.isReady xb then some (st, st.cur xb)
              else
                let u := NA.Vpn.unorderedA (ob.secs.map (·.head)) (oa.secs.map (·.head)) 0 []
                if u.1.isEmpty then (addAny (f + 1) (markDel (f + 1) st xa) xb).map fun st => (st, st.cur xb)
                else (diffSecs (addAny f) (diffAny f) (markDel f) ((st.markNeeded xa).setReady xb xa.2) xa.1 xa.2 oa.secs ob.secs u).map
                  fun st => (st, xa.2)) = some (st', n) →
            st.out = [] ∧ (K a b T pend st → PairOK a b (f + 1) pend xa xb →
              K a b T pend st' ∧ (n = xa.2 → eqv (rk xa.1 + 1) a b xa xb = true) ∧ st'.isReady xb = true) := by
          intro hr0 he
          by_cases h1 : st.isNeeded xa = true
          · rw [if_pos h1] at he; exact viaAdd st ⟨rfl, rfl, rfl, rfl, rfl, fun _ h => h⟩ he
          · rw [if_neg h1] at he
            by_cases h2' : st.isReady xb = true
            · rw [if_pos h2'] at he; exact ready h2' he
            · rw [if_neg h2'] at he
              dsimp only at he
              by_cases h3 : (NA.Vpn.unorderedA (ob.secs.map (·.head)) (oa.secs.map (·.head)) 0 []).1.isEmpty = true
              · rw [if_pos h3] at he
                exact viaAdd _ (markDel_quiet (f + 1) st xa) he
              · rw [if_neg h3] at he
                cases hd : diffSecs (addAny f) (diffAny f) (markDel f) ((st.markNeeded xa).setReady xb xa.2) xa.1 xa.2 oa.secs ob.secs
                    (NA.Vpn.unorderedA (ob.secs.map (·.head)) (oa.secs.map (·.head)) 0 []) with
                | none => rw [hd] at he; cases he
                | some s1 =>
                  rw [hd] at he
                  simp only [Option.map_some, Option.some.injEq, Prod.mk.injEq] at he
                  rw [← he.1] at ho ⊢
                  by_cases hgt : f < rk xa.1
                  · have hx := diffSecs_K (T := T) ih (markDel_quiet f) ((xb, xa.2) :: pend) xa.1 xa.2 oa.secs ob.secs _ s1 hd ho
                    have ho' : st.out = [] := by rw [← markNeeded_out st xa]; exact hx.1
                    exact ⟨ho', fun _ hp => absurd hgt (Nat.not_lt.2 (Nat.le_of_lt_succ hp.2.2.2.1))⟩
                  have hle : rk xa.1 ≤ f := Nat.le_of_not_lt hgt
                  have hx := diffSecs_K (T := T) (f := rk xa.1) (ih.weaken (m := rk xa.1) hle) (markDel_quiet f) ((xb, xa.2) :: pend)
                    xa.1 xa.2 oa.secs ob.secs _ s1 hd ho
                  have ho' : st.out = [] := by rw [← markNeeded_out st xa]; exact hx.1
                  refine ⟨ho', ?_⟩
                  intro hK hp
                  have hpn := pend_ne hp.2.2.2.2.1
                  have hoam := hma hK
                  have hobm := hmb hK
                  have hK0 : K a b T ((xb, xa.2) :: pend) ((st.markNeeded xa).setReady xb xa.2) :=
                    (hK.markNeeded xa hp.2.2.2.2.2.1).setReadyPend xb xa.2 hpn hp.2.2.2.2.2.2
                  have hres := hx.2 hK0 (h2.ndA oa hoam.1).1 (h2.ndB ob hobm.1).1 (by
                    intro s hs t ht _
                    refine ⟨(h2.ndA oa hoam.1).2 s hs, (h2.ndB ob hobm.1).2 t ht, h2.rbk oa hoam.1 ob hobm.1 s hs t ht, ?_⟩
                    intro x hx y hy ya yb hxr hyr hkey
                    have ha1 := hw.ares oa hoam.1 ya (ref_mem_refs oa s x ya hs hx hxr)
                    have hb1 := hw.bres ob hobm.1 yb (ref_mem_refs ob t y yb ht hy hyr)
                    rw [hoam.2] at ha1
                    rw [hobm.2] at hb1
                    have := rk_le_two xa.1
                    refine ⟨ha1.1, hb1.1, h2.kk oa hoam.1 ob hobm.1 s hs t ht x hx y hy hkey ya yb hxr hyr, ha1.2, ?_, Or.inl (by omega),
                      fun h => by have := rk_le_two xb.1; omega⟩
                    intro q hq
                    cases hq with
                    | head => exact hb1.2
                    | tail _ hq => have := hp.2.2.2.2.1 q hq; omega)
                  have hev : eqv (rk xa.1 + 1) a b xa xb = true := eqv_sec (hfa hK) (hfb hK) hp.2.2.1 hr0 hres.2
                  refine ⟨hres.1.pop (by rw [same hp.2.2.1, ← hp.2.2.1]; exact hev), fun _ => hev, ?_⟩
                  unfold St.isReady
                  exact List.any_eq_true.2 ⟨(xb, xa.2), hres.1.keep _ List.mem_cons_self, by simp⟩
        have quietOutside : ∀ (c : Bool), (if c then { st with outside := true } else st).a = st.a ∧
            (if c then { st with outside := true } else st).b = st.b ∧ (if c then { st with outside := true } else st).ready = st.ready ∧
            (if c then { st with outside := true } else st).out = st.out ∧ (if c then { st with outside := true } else st).needed = st.needed ∧
            ∀ r ∈ st.toDel, r ∈ (if c then { st with outside := true } else st).toDel := by
          intro c; cases c <;> exact ⟨rfl, rfl, rfl, rfl, rfl, fun _ h => h⟩
        obtain ⟨kk, hk⟩ : ∃ kk, xa.1 = kk := ⟨_, rfl⟩
        cases kk with
        | aaa =>
          simp only [hk] at he
          by_cases hne : (xa.2 != xb.2) = true
          · rw [if_pos hne] at he
            cases ha : addAny (f + 1) st xb with
            | none => rw [ha] at he; cases he
            | some s1 =>
              rw [ha] at he
              simp only [Option.map_some, Option.some.injEq, Prod.mk.injEq] at he
              rw [← he.1] at ho ⊢
              have hx := addAny_K (T := T) hw h2 f pend st s1 xb ha ho
              refine ⟨hx.1, ?_⟩
              intro hK hp
              refine ⟨(hx.2 hK hp.2.1 (pend_ne hp.2.2.2.2.1)).1, ?_, (hx.2 hK hp.2.1 (pend_ne hp.2.2.2.2.1)).2⟩
              intro hn
              exfalso
              rw [← he.2] at hn
              simp only [bne_iff_ne, ne_eq] at hne
              exact hne hn.symm
          · rw [if_neg hne] at he
            have hnn : xa.2 = xb.2 := by simpa using hne
            simp only [Option.some.injEq, Prod.mk.injEq] at he
            rw [← he.1] at ho ⊢
            have ho' : st.out = [] := by rw [← markNeeded_out st xa]; exact ho
            refine ⟨ho', ?_⟩
            intro hK hp
            have hev : eqv (rk xa.1 + 1) a b xa xb = true := by
              have : rk xa.1 + 1 = 1 := by rw [hk]; rfl
              rw [this]
              exact eqv_aaa (by rw [hfa hK]; rfl) (by rw [hfb hK]; rfl) hk (by rw [← hp.2.2.1]; exact hk) hnn
            refine ⟨(hK.markNeeded xa hp.2.2.2.2.2.1).setReady xb xa.2 (pend_ne hp.2.2.2.2.1) ?_ hp.2.2.2.2.2.2, fun _ => hev,
              isReady_setReady_self _ _ _⟩
            rw [same hp.2.2.1, ← hp.2.2.1]; exact hev
        | acl =>
          simp only [hk] at he
          by_cases h1 : st.isNeeded xa = true
          · rw [if_pos h1] at he; exact viaAdd st ⟨rfl, rfl, rfl, rfl, rfl, fun _ h => h⟩ he
          · rw [if_neg h1] at he
            by_cases h2' : st.isReady xb = true
            · rw [if_pos h2'] at he; exact ready h2' he
            · rw [if_neg h2'] at he
              by_cases h3 : (oa.lines == ob.lines) = true
              · rw [if_pos h3] at he
                exact equal (by rw [hk]; rfl) (by rw [hk]; decide) (by simpa using h3) he
              · rw [if_neg h3] at he
                refine viaAdd _ ?_ he
                have hq := markDel_quiet (f + 1) (if oa.lines.any (fun l => ob.lines.contains l) then { st with outside := true } else st) xa
                have hq2 := quietOutside (oa.lines.any fun l => ob.lines.contains l)
                exact ⟨hq.1.trans hq2.1, hq.2.1.trans hq2.2.1, hq.2.2.1.trans hq2.2.2.1, hq.2.2.2.1.trans hq2.2.2.2.1,
                  hq.2.2.2.2.1.trans hq2.2.2.2.2.1, fun r hr => hq.2.2.2.2.2 r (hq2.2.2.2.2.2 r hr)⟩
        | pool =>
          simp only [hk] at he
          by_cases h1 : st.isNeeded xa = true
          · rw [if_pos h1] at he; exact viaAdd st ⟨rfl, rfl, rfl, rfl, rfl, fun _ h => h⟩ he
          · rw [if_neg h1] at he
            by_cases h2' : st.isReady xb = true
            · rw [if_pos h2'] at he; exact ready h2' he
            · rw [if_neg h2'] at he
              by_cases h3 : (oa.lines == ob.lines) = true
              · rw [if_pos h3] at he
                exact equal (by rw [hk]; rfl) (by rw [hk]; decide) (by simpa using h3) he
              · rw [if_neg h3] at he
                have hq := markDel_quiet (f + 1) st xa
                cases hfp : findPool (markDel (f + 1) st xa) (ob.lines.headD "") with
                | none =>
                  rw [hfp] at he
                  exact viaAdd _ hq he
                | some dn =>
                  rw [hfp] at he
                  simp only [Option.some.injEq, Prod.mk.injEq] at he
                  rw [← he.1] at ho ⊢
                  have ho' : st.out = [] := by
                    rw [← hq.2.2.2.1, ← markNeeded_out (markDel (f + 1) st xa) (.pool, dn)]; exact ho
                  refine ⟨ho', ?_⟩
                  intro hK hp
                  obtain ⟨oa', hoa', hla⟩ := findPool_spec _ _ _ hfp
                  rw [hq.1, hK.sa] at hoa'
                  have hobm := hmb hK
                  obtain ⟨c, hc⟩ := h2.pool ob hobm.1 (by rw [hobm.2, ← hp.2.2.1]; exact hk)
                  have hkb : xb.1 = .pool := by rw [← hp.2.2.1]; exact hk
                  have hev : eqv (rk xb.1 + 1) a b (xb.1, dn) xb = true := by
                    have : rk xb.1 + 1 = 1 := by rw [hkb]; rfl
                    rw [this]
                    refine eqv_leaf (ra := (xb.1, dn)) (rb := xb) (oa := oa') (ob := ob) ?_ (hfb hK) rfl (Or.inr hkb) ?_
                    · rw [hkb]; exact hoa'
                    · rw [hla, hc]; rfl
                  refine ⟨(((hK.quiet hq).markNeeded (.pool, dn) (Or.inl (by show rk Kind.pool < 2; decide))).setReady xb dn
                    (pend_ne hp.2.2.2.2.1) hev (fun h => by rw [hkb] at h; simp [rk] at h)), ?_, isReady_setReady_self _ _ _⟩
                  intro hn
                  rw [← he.2] at hn
                  rw [hn, same hp.2.2.1, ← hp.2.2.1] at hev
                  exact hev
        | gp => simp only [hk] at he; exact sec (by rw [hk]; decide) (by rw [hk]; exact he)
        | tg => simp only [hk] at he; exact sec (by rw [hk]; decide) (by rw [hk]; exact he)
        | user => simp only [hk] at he; exact sec (by rw [hk]; decide) (by rw [hk]; exact he)
        | certmap => simp only [hk] at he; exact sec (by rw [hk]; decide) (by rw [hk]; exact he)

/-! ## the anchors -/

theorem mem_insertS_of (x y : String) : ∀ (zs : List String), (x = y ∨ x ∈ zs) → x ∈ NA.Vpn.insertS y zs
  | [], h => by
    rcases h with h | h
    · simp [NA.Vpn.insertS, h]
    · cases h
  | z :: zs, h => by
    unfold NA.Vpn.insertS
    split
    · rcases h with h | h
      · rw [h]; exact List.mem_cons_self
      · exact List.mem_cons_of_mem _ h
    · rcases h with h | h
      · exact List.mem_cons_of_mem _ (mem_insertS_of x y zs (Or.inl h))
      · cases h with
        | head => exact List.mem_cons_self
        | tail _ h => exact List.mem_cons_of_mem _ (mem_insertS_of x y zs (Or.inr h))

theorem mem_sortS_of (x : String) : ∀ (l : List String), x ∈ l → x ∈ sortS l
  | [], h => by cases h
  | y :: ys, h => by
    show x ∈ NA.Vpn.insertS y (sortS ys)
    apply mem_insertS_of
    cases h with
    | head => exact Or.inl rfl
    | tail _ h => exact Or.inr (mem_sortS_of x ys h)

theorem markDel_self (f : Nat) (st : St) (r : Ref) (ho : (st.aObj r).isSome = true) (hk : r.1 ≠ .aaa) :
    r ∈ (markDel (f + 1) st r).toDel := by
  unfold markDel
  have hk' : (r.1 == Kind.aaa) = false := by simpa using hk
  rw [if_neg (by rw [hk']; exact Bool.false_ne_true)]
  cases hoo : st.aObj r with
  | none => rw [hoo] at ho; cases ho
  | some o =>
    simp only
    split
    · rename_i hc
      simpa using hc
    · exact (foldl_quiet (markDel_quiet f) o.refs _).2.2.2.2.2 r List.mem_cons_self

theorem eqv_found : ∀ (f : Nat) (ra rb : Ref), eqv f a b ra rb = true →
    (a.find? fun o => o.id == ra).isSome = true ∧ (b.find? fun o => o.id == rb).isSome = true
  | 0, _, _, h => by simp [eqv] at h
  | f + 1, ra, rb, h => by
    unfold eqv at h
    simp only [Bool.and_eq_true] at h
    have h2 := h.2
    cases hoa : a.find? (fun o => o.id == ra) with
    | none => rw [hoa] at h2; simp at h2
    | some oa =>
      cases hob : b.find? (fun o => o.id == rb) with
      | none => rw [hoa, hob] at h2; simp at h2
      | some ob => exact ⟨rfl, rfl⟩

/-- an object of rank above 0 is transferred without output only if it is ready already -/
theorem addAny_top (hw : WF A a b) (f : Nat) (st st' : St) (r : Ref) (hr : rk r.1 ≠ 0)
    (he : addAny (f + 1) st r = some st') (ho : st'.out = []) :
    st.out = [] ∧ (st.b = b → (b.find? fun o => o.id == r).isSome = true → st.isReady r = true ∧ st' = st) := by
  unfold addAny at he
  have sec : (match st.bObj r with
        | none => some st
        | some o => if st.isReady r then some st else addSecs (addAny f) (st.setReady r (st.cur r)) r.1 (st.cur r) o.secs) = some st' →
      st.out = [] ∧ (st.b = b → (b.find? fun o => o.id == r).isSome = true → st.isReady r = true ∧ st' = st) := by
    intro he
    cases hb : st.bObj r with
    | none =>
      rw [hb] at he; cases he
      refine ⟨ho, ?_⟩
      intro hsb hsome
      unfold St.bObj at hb
      rw [hsb] at hb
      rw [hb] at hsome; cases hsome
    | some o =>
      rw [hb] at he
      dsimp only at he
      by_cases hrd : st.isReady r = true
      · rw [if_pos hrd] at he; cases he
        exact ⟨ho, fun _ _ => ⟨hrd, rfl⟩⟩
      · rw [if_neg hrd] at he
        have hbk := addSecs_back _ _ _ _ _ _ he ho
        rw [hbk.2] at ho
        refine ⟨ho, ?_⟩
        intro hsb _
        have hom := find_id st.b r o hb
        rw [hsb] at hom
        exact absurd hbk.1 (hw.bsec o hom.1 (by rw [show o.kind = r.1 from by rw [← hom.2]; rfl]; exact hr))
  obtain ⟨kk, hk⟩ : ∃ kk, r.1 = kk := ⟨_, rfl⟩
  cases kk with
  | aaa => rw [hk] at hr; exact absurd rfl hr
  | acl => rw [hk] at hr; exact absurd rfl hr
  | pool => rw [hk] at hr; exact absurd rfl hr
  | gp => simp only [hk] at he; exact sec (by rw [hk]; exact he)
  | tg => simp only [hk] at he; exact sec (by rw [hk]; exact he)
  | user => simp only [hk] at he; exact sec (by rw [hk]; exact he)
  | certmap => simp only [hk] at he; exact sec (by rw [hk]; exact he)

theorem anchorsA_K (hw : WF A a b) (h2 : WF2 a b) (k : Kind) (hk2 : rk k = 2) (bN : List String) :
    ∀ (l : List String) (T : List Ref) (st st' : St),
    l.foldl (fun (acc : Option St) n => acc.bind fun s =>
      if bN.contains n then (diffAny fuel s (k, n) (k, n)).map (·.1) else some (markDel fuel s (k, n))) (some st) = some st' →
    st'.out = [] →
    st.out = [] ∧ (K a b T [] st → (∀ n, bN.contains n = true → ∃ o ∈ b, o.anchor = true ∧ o.id = (k, n)) →
      (∀ n ∈ l, (a.find? fun o => o.id == (k, n)).isSome = true) →
      ∃ T', K a b T' [] st' ∧ (∀ r ∈ T, r ∈ T') ∧ (∀ n ∈ l, bN.contains n = true → eqv 3 a b (k, n) (k, n) = true) ∧
        (∀ n ∈ l, bN.contains n = false → (k, n) ∈ T'))
  | [], T, st, st', he, ho => by
    cases he
    exact ⟨ho, fun hK _ _ => ⟨T, hK, fun _ h => h, fun _ h => (nomatch h), fun _ h => (nomatch h)⟩⟩
  | n :: ns, T, st, st', he, ho => by
    rw [List.foldl_cons] at he
    simp only [Option.bind_some] at he
    by_cases hc : bN.contains n = true
    · rw [if_pos hc] at he
      cases hd : diffAny fuel st (k, n) (k, n) with
      | none => rw [hd] at he; simp only [Option.map_none] at he; rw [foldl_opt_none] at he; cases he
      | some r =>
        rw [hd] at he
        simp only [Option.map_some] at he
        have ih := anchorsA_K hw h2 k hk2 bN ns T r.1 st' he ho
        have hx := diffAny_K hw h2 fuel T [] st (k, n) (k, n) r.1 r.2 hd ih.1
        refine ⟨hx.1, ?_⟩
        intro hK hbN hfa
        obtain ⟨o', ho', hanch, hid⟩ := hbN n hc
        have hfb : (b.find? fun o => o.id == (k, n)).isSome = true := by
          have := find_isSome b o' ho'
          rw [hid] at this; exact this
        have h1 := hx.2 hK ⟨hfa n List.mem_cons_self, hfb, rfl, by show rk k < fuel; rw [hk2]; decide,
          fun _ hq => (nomatch hq), Or.inr ⟨o', ho', hanch, hid⟩, fun _ => rfl⟩
        obtain ⟨T', hK', hT, he1, he2⟩ := ih.2 h1.1 hbN (fun m hm => hfa m (List.mem_cons_of_mem _ hm))
        refine ⟨T', hK', hT, ?_, ?_⟩
        · intro m hm hcm
          cases hm with
          | head =>
            have hce := h1.1.cur_eqv (k, n) h1.2.2 (fun _ hq => (nomatch hq))
            have hfx := h1.1.fix _ (cur_mem_ready r.1 (k, n) h1.2.2) hk2
            simp only at hfx
            rw [hfx] at hce
            have : rk (k, n).1 + 1 = 3 := by show rk k + 1 = 3; rw [hk2]
            rw [this] at hce
            exact hce
          | tail _ hm => exact he1 m hm hcm
        · intro m hm hcm
          cases hm with
          | head => rw [hc] at hcm; cases hcm
          | tail _ hm => exact he2 m hm hcm
    · rw [if_neg hc] at he
      have ih := anchorsA_K hw h2 k hk2 bN ns ((k, n) :: T) (markDel fuel st (k, n)) st' he ho
      have hq := markDel_quiet fuel st (k, n)
      refine ⟨by rw [← hq.2.2.2.1]; exact ih.1, ?_⟩
      intro hK hbN hfa
      have hK1 := hK.quiet hq
      have hself : (k, n) ∈ (markDel fuel st (k, n)).toDel := by
        refine markDel_self 3 st (k, n) ?_ ?_
        · unfold St.aObj; rw [hK.sa]; exact hfa n List.mem_cons_self
        · intro e
          have : rk k = 0 := by rw [show k = Kind.aaa from e]; rfl
          omega
      have hK2 : K a b ((k, n) :: T) [] (markDel fuel st (k, n)) :=
        ⟨hK1.sa, hK1.sb, by
          intro x hx
          cases hx with
          | head => exact hself
          | tail _ hx => exact hK1.td x hx, hK1.rdy, hK1.keep, hK1.fix, hK1.nd⟩
      obtain ⟨T', hK', hT, he1, he2⟩ := ih.2 hK2 hbN (fun m hm => hfa m (List.mem_cons_of_mem _ hm))
      refine ⟨T', hK', fun x hx => hT x (List.mem_cons_of_mem _ hx), ?_, ?_⟩
      · intro m hm hcm
        cases hm with
        | head => exact absurd hcm hc
        | tail _ hm => exact he1 m hm hcm
      · intro m hm hcm
        cases hm with
        | head => exact hT _ List.mem_cons_self
        | tail _ hm => exact he2 m hm hcm

theorem anchorsB_K (hw : WF A a b) (k : Kind) (hk2 : rk k = 2) (aN : List String) :
    ∀ (l : List String) (st st' : St),
    l.foldl (fun (acc : Option St) n => acc.bind fun s => if aN.contains n then some s else addAny fuel s (k, n)) (some st) = some st' →
    st'.out = [] →
    st.out = [] ∧ (st.b = b → (∀ n ∈ l, (b.find? fun o => o.id == (k, n)).isSome = true) →
      st' = st ∧ ∀ n ∈ l, aN.contains n = false → st.isReady (k, n) = true)
  | [], st, st', he, ho => by
    cases he
    exact ⟨ho, fun _ _ => ⟨rfl, fun _ h => (nomatch h)⟩⟩
  | n :: ns, st, st', he, ho => by
    rw [List.foldl_cons] at he
    simp only [Option.bind_some] at he
    by_cases hc : aN.contains n = true
    · rw [if_pos hc] at he
      have ih := anchorsB_K hw k hk2 aN ns st st' he ho
      refine ⟨ih.1, ?_⟩
      intro hsb hfb
      have := ih.2 hsb (fun m hm => hfb m (List.mem_cons_of_mem _ hm))
      refine ⟨this.1, ?_⟩
      intro m hm hcm
      cases hm with
      | head => rw [hc] at hcm; cases hcm
      | tail _ hm => exact this.2 m hm hcm
    · rw [if_neg hc] at he
      cases ha : addAny fuel st (k, n) with
      | none => rw [ha, foldl_opt_none] at he; cases he
      | some s1 =>
        rw [ha] at he
        have ih := anchorsB_K hw k hk2 aN ns s1 st' he ho
        have hx := addAny_top hw 3 st s1 (k, n) (by show rk k ≠ 0; omega) ha ih.1
        refine ⟨hx.1, ?_⟩
        intro hsb hfb
        have h1 := hx.2 hsb (hfb n List.mem_cons_self)
        rw [h1.2] at ih
        have := ih.2 hsb (fun m hm => hfb m (List.mem_cons_of_mem _ hm))
        refine ⟨this.1, ?_⟩
        intro m hm hcm
        cases hm with
        | head => exact h1.1
        | tail _ hm => exact this.2 m hm hcm

theorem anchor_name_mem (l : List Obj) (k : Kind) (o : Obj) (ho : o ∈ l) (hk : o.kind = k) (ha : o.anchor = true) :
    o.name ∈ sortS ((l.filter fun o => o.kind == k && o.anchor).map (·.name)) := by
  apply mem_sortS_of
  exact List.mem_map.2 ⟨o, List.mem_filter.2 ⟨ho, by simp [hk, ha]⟩, rfl⟩

theorem anchor_name_obj (l : List Obj) (k : Kind) (n : String)
    (h : n ∈ sortS ((l.filter fun o => o.kind == k && o.anchor).map (·.name))) : ∃ o ∈ l, o.anchor = true ∧ o.id = (k, n) := by
  obtain ⟨o, ho, hon⟩ := List.mem_map.1 (mem_sortS n _ h)
  have ho' := List.mem_filter.1 ho
  have hk : o.kind = k ∧ o.anchor = true := by simpa using ho'.2
  exact ⟨o, ho'.1, hk.2, by unfold Obj.id; rw [hk.1, hon]⟩

theorem diffAnchors_K (hw : WF A a b) (h2 : WF2 a b)
    (k : Kind) (hk2 : rk k = 2) (T : List Ref) (st st' : St) (he : diffAnchors st k = some st') (ho : st'.out = []) :
    st.out = [] ∧ (K a b T [] st → ∃ T', K a b T' [] st' ∧ (∀ r ∈ T, r ∈ T') ∧
      (∀ o ∈ a, o.kind = k → o.anchor = true → (∃ o' ∈ b, o'.anchor = true ∧ o'.id = o.id) → eqv 3 a b o.id o.id = true) ∧
      (∀ o ∈ a, o.kind = k → o.anchor = true → (¬∃ o' ∈ b, o'.anchor = true ∧ o'.id = o.id) → o.id ∈ T') ∧
      (∀ o' ∈ b, o'.kind = k → o'.anchor = true → ∃ o ∈ a, o.anchor = true ∧ o.id = o'.id)) := by
  unfold diffAnchors at he
  dsimp only at he
  generalize haN : sortS ((st.a.filter fun o => o.kind == k && o.anchor).map (·.name)) = aN at he
  generalize hbN : sortS ((st.b.filter fun o => o.kind == k && o.anchor).map (·.name)) = bN at he
  cases hf1 : aN.foldl (fun (acc : Option St) n => acc.bind fun st =>
      if bN.contains n then (diffAny fuel st (k, n) (k, n)).map (·.1) else some (markDel fuel st (k, n))) (some st) with
  | none => rw [hf1, foldl_opt_none] at he; cases he
  | some s1 =>
    rw [hf1] at he
    have hB := anchorsB_K hw k hk2 aN bN s1 st' he ho
    have hA := anchorsA_K hw h2 k hk2 bN aN T st s1 hf1 hB.1
    refine ⟨hA.1, ?_⟩
    intro hK
    have haN' : aN = sortS ((a.filter fun o => o.kind == k && o.anchor).map (·.name)) := by rw [← haN, hK.sa]
    have hbN' : bN = sortS ((b.filter fun o => o.kind == k && o.anchor).map (·.name)) := by rw [← hbN, hK.sb]
    have hbobj : ∀ n, bN.contains n = true → ∃ o ∈ b, o.anchor = true ∧ o.id = (k, n) := by
      intro n hn
      rw [hbN'] at hn
      exact anchor_name_obj b k n (by simpa using hn)
    obtain ⟨T', hK1, hT, he1, he2⟩ := hA.2 hK hbobj (by
      intro n hn
      rw [haN'] at hn
      exact anchor_names a k n hn)
    have hB2 := hB.2 hK1.sb (by
      intro n hn
      obtain ⟨o', ho', _, hid⟩ := hbobj n (by simpa using hn)
      have := find_isSome b o' ho'
      rw [hid] at this; exact this)
    rw [hB2.1]
    refine ⟨T', hK1, hT, ?_, ?_, ?_⟩
    · intro o hoa hok hanch ⟨o', ho', hanch', hid⟩
      have hn : o.name ∈ aN := by rw [haN']; exact anchor_name_mem a k o hoa hok hanch
      have hkb : o'.kind = k := by
        have : o'.id.1 = o.id.1 := by rw [hid]
        exact this.trans hok
      have hnb : o'.name = o.name := by
        have : o'.id.2 = o.id.2 := by rw [hid]
        exact this
      have hc : bN.contains o.name = true := by
        rw [hbN']
        have := anchor_name_mem b k o' ho' hkb hanch'
        rw [hnb] at this
        simpa using this
      have := he1 o.name hn hc
      have hid' : (k, o.name) = o.id := by unfold Obj.id; rw [hok]
      rw [hid'] at this
      exact this
    · intro o hoa hok hanch hno
      have hn : o.name ∈ aN := by rw [haN']; exact anchor_name_mem a k o hoa hok hanch
      have hc : bN.contains o.name = false := by
        cases hcc : bN.contains o.name with
        | false => rfl
        | true =>
          exfalso
          obtain ⟨o', ho', hanch', hid⟩ := hbobj o.name hcc
          exact hno ⟨o', ho', hanch', by rw [hid]; unfold Obj.id; rw [hok]⟩
      have := he2 o.name hn hc
      have hid' : (k, o.name) = o.id := by unfold Obj.id; rw [hok]
      rw [hid'] at this
      exact this
    · intro o' ho' hok hanch'
      have hn : o'.name ∈ bN := by rw [hbN']; exact anchor_name_mem b k o' ho' hok hanch'
      cases hc : aN.contains o'.name with
      | true =>
        rw [haN'] at hc
        obtain ⟨o, hoa, hanch, hid⟩ := anchor_name_obj a k o'.name (by simpa using hc)
        exact ⟨o, hoa, hanch, by rw [hid]; unfold Obj.id; rw [hok]⟩
      | false =>
        -- the target's anchor was ready without having been transferred: the device has an object of that name
        have hrd := hB2.2 o'.name hn hc
        have hce := hK1.cur_eqv (k, o'.name) hrd (fun _ hq => (nomatch hq))
        have hfx := hK1.fix _ (cur_mem_ready s1 (k, o'.name) hrd) hk2
        simp only at hfx
        rw [hfx] at hce
        have hfound := (eqv_found _ _ _ hce).1
        cases hfo : a.find? (fun o => o.id == (k, o'.name)) with
        | none => rw [hfo] at hfound; cases hfound
        | some o =>
          have hom := find_id a _ o hfo
          have hid : o.id = o'.id := by rw [hom.2]; unfold Obj.id; rw [hok]
          exact ⟨o, hom.1, by rw [h2.anchAB o hom.1 o' ho' hid]; exact hanch', hid⟩

/-! ## the clean-up -/

theorem stillFrom_rank (hra : Ranked a) (st : St) (hsa : st.a = a) : ∀ (f : Nat) (acc : List Ref) (r0 : Ref),
    ∀ r ∈ stillFrom f st acc r0, r ∈ acc ∨ rk r.1 < 2
  | 0, _, _, r, h => Or.inl h
  | f + 1, acc, r0, r, h => by
    unfold stillFrom at h
    cases ho : st.aObj r0 with
    | none => rw [ho] at h; exact Or.inl h
    | some o =>
      rw [ho] at h
      simp only at h
      have hom := find_id st.a r0 o ho
      rw [hsa] at hom
      have key : ∀ (l : List Ref) (acc' : List Ref), (∀ x ∈ l, rk x.1 < 2) → (∀ y ∈ acc', y ∈ acc ∨ rk y.1 < 2) →
          ∀ y ∈ l.foldl (fun acc x =>
            if st.isNeeded x || (st.aObj x).isNone then acc
            else stillFrom f st (if acc.contains x then acc else x :: acc) x) acc', y ∈ acc ∨ rk y.1 < 2 := by
        intro l
        induction l with
        | nil => intro acc' _ hacc y hy; exact hacc y hy
        | cons x xs ih =>
          intro acc' hl hacc y hy
          rw [List.foldl_cons] at hy
          refine ih _ (fun z hz => hl z (List.mem_cons_of_mem _ hz)) ?_ y hy
          intro z hz
          split at hz
          · exact hacc z hz
          · rcases stillFrom_rank hra st hsa f _ x z hz with h1 | h1
            · split at h1
              · exact hacc z h1
              · cases h1 with
                | head => exact Or.inr (hl x List.mem_cons_self)
                | tail _ h1 => exact hacc z h1
            · exact Or.inr h1
      refine key o.refs acc ?_ (fun y hy => Or.inl hy) r h
      intro x hx
      have := hra o hom.1 x hx
      have := rk_le_two o.kind
      omega

theorem stillSet_rank (hra : Ranked a) (st : St) (hsa : st.a = a) : ∀ r ∈ stillSet st, rk r.1 < 2 := by
  unfold stillSet
  have key : ∀ (l : List Obj) (acc : List Ref), (∀ y ∈ acc, rk y.1 < 2) →
      ∀ y ∈ l.foldl (fun acc o => stillFrom fuel st acc o.id) acc, rk y.1 < 2 := by
    intro l
    induction l with
    | nil => intro acc hacc y hy; exact hacc y hy
    | cons o os ih =>
      intro acc hacc y hy
      rw [List.foldl_cons] at hy
      refine ih _ ?_ y hy
      intro z hz
      rcases stillFrom_rank hra st hsa fuel acc o.id z hz with h1 | h1
      · exact hacc z h1
      · exact h1
  exact key _ [] (fun _ h => (nomatch h))

theorem delRounds_ne (rank : Ref → Nat) (f : Nat) (objs : List DelObj) (hne : objs ≠ [])
    (hrk : ∀ p ∈ objs, ∀ q ∈ objs, p.refs.contains q.id = true → rank q.id < rank p.id)
    (hl : ∀ p ∈ objs, p.lines ≠ []) : delRounds (f + 1) objs ≠ [] := by
  cases objs with
  | nil => exact absurd rfl hne
  | cons o0 os =>
    obtain ⟨pm, hpm, hmax⟩ := exists_max_rank rank (o0 :: os) hne
    have hunf : delRounds (f + 1) (o0 :: os) =
        ((o0 :: os).filter fun o => !((o0 :: os).any fun x => x.refs.contains o.id)).flatMap (·.lines) ++
          delRounds f ((o0 :: os).filter fun o => (o0 :: os).any fun x => x.refs.contains o.id) := rfl
    rw [hunf]
    intro h
    have h1 := (List.append_eq_nil_iff.1 h).1
    have hpn : pm ∈ (o0 :: os).filter fun o => !((o0 :: os).any fun x => x.refs.contains o.id) := by
      apply List.mem_filter.2
      refine ⟨hpm, ?_⟩
      cases hir : (o0 :: os).any (fun x => x.refs.contains pm.id) with
      | false => rfl
      | true =>
        exfalso
        obtain ⟨x, hx, hxr⟩ := List.any_eq_true.1 hir
        have h1 := hrk x hx pm hpm hxr
        have h2 := hmax x hx
        omega
    have := List.flatMap_eq_nil_iff.1 h1 pm hpn
    exact hl pm hpm this

theorem delLines_ne (o : Obj) : delLines o ≠ [] := by
  unfold delLines
  cases o.kind <;> simp

/-- a device anchor that the target lacks is deleted by the clean-up -/
theorem anchor_pending (hw : WF A a b) (st : St) (hK : K a b T [] st) (o : Obj) (ho : o ∈ a) (hr : rk o.kind = 2)
    (ht : o.id ∈ T) (hno : ¬∃ o' ∈ b, o'.anchor = true ∧ o'.id = o.id) : pendingDel st ≠ [] := by
  have hra : Ranked a := (ranked_of_WF hw).1
  intro hnil
  have hmem : ({ id := o.id, lines := delLines o, refs := o.refs } : DelObj) ∈ pendingDel st := by
    unfold pendingDel
    rw [mem_foldr_insertD]
    refine List.mem_map.2 ⟨o, List.mem_filter.2 ⟨by rw [hK.sa]; exact ho, ?_⟩, rfl⟩
    have hn : st.isNeeded o.id = false := by
      cases hh : st.isNeeded o.id with
      | false => rfl
      | true =>
        exfalso
        unfold St.isNeeded at hh
        have hm : o.id ∈ st.needed := by simpa using hh
        rcases hK.nd o.id hm with h1 | h1
        · have : rk o.id.1 = rk o.kind := rfl
          omega
        · exact hno h1
    have hs : (stillSet st).contains o.id = false := by
      cases hh : (stillSet st).contains o.id with
      | false => rfl
      | true =>
        exfalso
        have := stillSet_rank hra st hK.sa o.id (by simpa using hh)
        have : rk o.id.1 = rk o.kind := rfl
        omega
    have hk : (o.kind != Kind.aaa) = true := by
      cases hkk : o.kind <;> simp [hkk, rk] at hr ⊢
    have htd : st.toDel.contains o.id = true := by simpa using hK.td o.id ht
    unfold eligible
    simp only [hn, hk, Bool.not_false, Bool.true_and, Bool.and_true, Bool.and_eq_true, Bool.or_eq_true, Bool.not_eq_true']
    exact ⟨Or.inl htd, hs⟩
  rw [hnil] at hmem
  cases hmem

/-- **"Unchanged" only for an equivalent device.** -/
theorem unchanged_equiv (a b : List Obj) (hw : WF (a.map (·.id)) a b) (h2 : WF2 a b) (h : engine a b = some []) :
    (∀ o ∈ a, o.anchor = true → ∃ o' ∈ b, o'.anchor = true ∧ o'.id = o.id) ∧
    (∀ o' ∈ b, o'.anchor = true → ∃ o ∈ a, o.anchor = true ∧ o.id = o'.id) ∧
    (∀ o ∈ a, o.anchor = true → eqv fuel a b o.id o.id = true) := by
  unfold engine run at h
  cases hd1 : diffAnchors (initSt a b) .tg with
  | none => rw [hd1] at h; cases h
  | some s1 =>
    rw [hd1] at h
    simp only [Option.bind_some] at h
    cases hd2 : diffAnchors s1 .user with
    | none => rw [hd2] at h; cases h
    | some s2 =>
      rw [hd2] at h
      simp only [Option.map_some, Option.some.injEq] at h
      rw [deleteUnused_out] at h
      have h' := List.append_eq_nil_iff.1 h
      have hpend : delRounds ((pendingDel s2).length + 1) (pendingDel s2) = [] := (List.append_eq_nil_iff.1 h'.2).2
      have hKi : K a b [] [] (initSt a b) :=
        ⟨rfl, rfl, fun _ h => (nomatch h), fun _ h => (nomatch h), fun _ h => (nomatch h), fun _ h => (nomatch h), fun _ h => (nomatch h)⟩
      have hU0 := diffAnchors_K hw h2 .user rfl [] s1 s2 hd2 h'.1
      have hT := diffAnchors_K hw h2 .tg rfl [] (initSt a b) s1 hd1 hU0.1
      obtain ⟨T1, hK1, _, ht1, ht2, ht3⟩ := hT.2 hKi
      have hU := diffAnchors_K hw h2 .user rfl T1 s1 s2 hd2 h'.1
      obtain ⟨T2, hK2, hT12, hu1, hu2, hu3⟩ := hU.2 hK1
      -- nothing is pending
      have hpnil : pendingDel s2 = [] := by
        cases hp : pendingDel s2 with
        | nil => rfl
        | cons p ps =>
          exfalso
          refine delRounds_ne (fun r => rk r.1) (pendingDel s2).length (pendingDel s2) (by rw [hp]; exact List.cons_ne_nil _ _) ?_ ?_ hpend
          · intro p1 hp1 q hq hc
            obtain ⟨o1, ho1, hid1, _, hr1, _⟩ := mem_pendingDel s2 p1 hp1
            obtain ⟨o2, _, hid2, _⟩ := mem_pendingDel s2 q hq
            rw [hK2.sa] at ho1
            rw [hr1] at hc
            have := (hw.ares o1 ho1 q.id (by simpa using hc)).2
            rw [hid1]
            exact this
          · intro p1 hp1
            obtain ⟨o1, _, _, hl1, _⟩ := mem_pendingDel s2 p1 hp1
            rw [hl1]; exact delLines_ne o1
      have hall : ∀ o ∈ a, o.anchor = true → ∃ o' ∈ b, o'.anchor = true ∧ o'.id = o.id := by
        intro o ho hanch
        apply Classical.byContradiction
        intro hno
        rcases h2.anchA o ho hanch with hk | hk
        · exact anchor_pending hw s2 hK2 o ho (by rw [hk]; rfl) (hT12 _ (ht2 o ho hk hanch hno)) hno hpnil
        · exact anchor_pending hw s2 hK2 o ho (by rw [hk]; rfl) (hu2 o ho hk hanch hno) hno hpnil
      refine ⟨hall, ?_, ?_⟩
      · intro o' ho' hanch'
        rcases h2.anchB o' ho' hanch' with hk | hk
        · exact ht3 o' ho' hk hanch'
        · exact hu3 o' ho' hk hanch'
      · intro o ho hanch
        have hex := hall o ho hanch
        rcases h2.anchA o ho hanch with hk | hk
        · exact eqv_mono a b 3 fuel (by decide) _ _ (ht1 o ho hk hanch hex)
        · exact eqv_mono a b 3 fuel (by decide) _ _ (hu1 o ho hk hanch hex)

/-! ## decidable form of the further well-formedness -/

def wf2B (a b : List Obj) : Bool :=
  kindByKeyB a b &&
  decide (∀ x ∈ a, ∀ y ∈ b, ∀ sx ∈ x.secs, ∀ sy ∈ y.secs, ∀ s ∈ sx.subs, ∀ s' ∈ sy.subs,
    s.key = s'.key → s.ref.isSome = s'.ref.isSome) &&
  decide (∀ o ∈ a, (o.secs.map (·.head)).Nodup ∧ ∀ sec ∈ o.secs, (keysOf sec.subs).Nodup) &&
  decide (∀ o ∈ b, (o.secs.map (·.head)).Nodup ∧ ∀ sec ∈ o.secs, (keysOf sec.subs).Nodup) &&
  decide (∀ o ∈ b, o.kind = .pool → o.lines.length = 1) &&
  decide (∀ o ∈ a, o.anchor = true → o.kind = .tg ∨ o.kind = .user) &&
  decide (∀ o ∈ b, o.anchor = true → o.kind = .tg ∨ o.kind = .user) &&
  decide (∀ o ∈ a, ∀ o' ∈ b, o.id = o'.id → o.anchor = o'.anchor)

theorem wf2_of_wf2B (a b : List Obj) (h : wf2B a b = true) : WF2 a b := by
  unfold wf2B at h
  simp only [Bool.and_eq_true, decide_eq_true_eq] at h
  obtain ⟨⟨⟨⟨⟨⟨⟨h1, h2⟩, h3⟩, h4⟩, h5⟩, h6⟩, h7⟩, h8⟩ := h
  refine ⟨kindByKey_of_B a b h1, h2, h3, h4, ?_, h6, h7, h8⟩
  intro o ho hk
  have := h5 o ho hk
  cases hl : o.lines with
  | nil => rw [hl] at this; cases this
  | cons c cs =>
    cases cs with
    | nil => exact ⟨c, rfl⟩
    | cons _ _ => rw [hl] at this; simp at this

end NA.Vpn.G
