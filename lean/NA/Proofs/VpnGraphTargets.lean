import NA.Proofs.VpnGraphFrame
import NA.Proofs.VpnUnordered
/-!
Frame (C07), engine side: every command of the body (everything before `deleteUnused`) targets an
object of a reference-closed set `R` of device objects that contains the compared anchors, or an
object under a name generated for / taken from the target; `toDelete` marks stay inside `R`.
-/
namespace NA.Vpn.G

/-- the name the target object `rb` is created under (its generated name; its own name if fixed) -/
def genOf (gen : List (Ref × String)) (rb : Ref) : String :=
  match gen.find? (fun p => p.1 == rb) with
  | some p => p.2
  | none => rb.2

/-- allowed targets: `R` (device side) or a new object of the target -/
def Allowed (R : Ref → Prop) (gen : List (Ref × String)) (r : Ref) : Prop :=
  R r ∨ ∃ rb : Ref, r = (rb.1, genOf gen rb)

/-- sub-commands with equal keys reference objects of the same kind -/
def KindByKey (sa sb : List Sub) : Prop :=
  ∀ s ∈ sa, ∀ s' ∈ sb, s.key = s'.key → ∀ xa xb, s.ref = some xa → s'.ref = some xb → xa.1 = xb.1

structure Inv (R : Ref → Prop) (a : List Obj) (gen : List (Ref × String)) (st : St) : Prop where
  sa : st.a = a
  sg : st.gen = gen
  kk : ∀ x ∈ st.a, ∀ y ∈ st.b, ∀ sx ∈ x.secs, ∀ sy ∈ y.secs, KindByKey sx.subs sy.subs
  mode : modeAfter none st.out = st.mode
  tg : ∀ r ∈ targets none st.out, Allowed R gen r
  cur : ∀ rb : Ref, rb.1 ≠ .aaa → (rb.1 ≠ .pool ∨ st.isReady rb = false) → Allowed R gen (rb.1, st.cur rb)
  del : ∀ r ∈ st.toDel, R r

variable {R : Ref → Prop} {a : List Obj} {gen : List (Ref × String)}

/-! ## names -/

theorem cur_notReady (st : St) (rb : Ref) (h : st.isReady rb = false) : st.cur rb = genOf st.gen rb := by
  unfold St.cur genOf
  have : st.ready.find? (fun p => p.1 == rb) = none := by
    apply List.find?_eq_none.2
    intro p hp hc
    unfold St.isReady at h
    have : st.ready.any (fun p => p.1 == rb) = true := List.any_eq_true.2 ⟨p, hp, hc⟩
    rw [h] at this; cases this
  rw [this]
  rfl

theorem cur_setReady_self (st : St) (r : Ref) (n : String) : (st.setReady r n).cur r = n := by
  unfold St.setReady St.cur
  simp

theorem cur_setReady_ne (st : St) (r rb : Ref) (n : String) (h : rb ≠ r) : (st.setReady r n).cur rb = st.cur rb := by
  unfold St.setReady St.cur
  have h1 : ((r, n).1 == rb) = false := by simpa using (fun e => h e.symm)
  simp only [List.find?_cons, h1]
  have : (st.ready.filter fun p => p.1 != r).find? (fun p => p.1 == rb) = st.ready.find? (fun p => p.1 == rb) := by
    induction st.ready with
    | nil => rfl
    | cons p ps ih =>
      by_cases hp : p.1 = r
      · have e1 : (p.1 != r) = false := by simp [hp]
        have e2 : (p.1 == rb) = false := by rw [hp]; simpa using (fun e => h e.symm)
        simp only [List.filter_cons, e1, List.find?_cons, e2, Bool.false_eq_true, if_false]
        exact ih
      · have e1 : (p.1 != r) = true := by simpa using hp
        simp only [List.filter_cons, e1, if_true, List.find?_cons, ih]
  rw [this]

theorem isReady_setReady_ne (st : St) (r rb : Ref) (n : String) (h : rb ≠ r) :
    (st.setReady r n).isReady rb = st.isReady rb := by
  unfold St.setReady St.isReady
  have h1 : ((r, n).1 == rb) = false := by simpa using (fun e => h e.symm)
  simp only [List.any_cons, h1, Bool.false_or]
  induction st.ready with
  | nil => rfl
  | cons p ps ih =>
    by_cases hp : p.1 = r
    · have e1 : (p.1 != r) = false := by simp [hp]
      have e2 : (p.1 == rb) = false := by rw [hp]; simpa using (fun e => h e.symm)
      simp only [List.filter_cons, e1, List.any_cons, e2, Bool.false_or, Bool.false_eq_true, if_false]
      exact ih
    · have e1 : (p.1 != r) = true := by simpa using hp
      simp only [List.filter_cons, e1, if_true, List.any_cons, ih]

/-! ## state updates that emit nothing -/

theorem Inv.setReady (h : Inv R a gen st) (r : Ref) (n : String) (hn : r.1 ≠ .pool → r.1 ≠ .aaa → Allowed R gen (r.1, n)) :
    Inv R a gen (st.setReady r n) where
  sa := h.sa
  sg := h.sg
  kk := h.kk
  mode := h.mode
  tg := h.tg
  del := h.del
  cur := by
    intro rb hna hrb
    by_cases e : rb = r
    · subst e
      rw [cur_setReady_self]
      rcases hrb with h1 | h1
      · exact hn h1 hna
      · exfalso
        unfold St.setReady St.isReady at h1
        simp at h1
    · rw [cur_setReady_ne st r rb n e]
      apply h.cur rb hna
      rw [isReady_setReady_ne st r rb n e] at hrb
      exact hrb

theorem Inv.markNeeded (h : Inv R a gen st) (r : Ref) : Inv R a gen (st.markNeeded r) := by
  unfold St.markNeeded
  split
  · exact h
  · exact ⟨h.sa, h.sg, h.kk, h.mode, h.tg, h.cur, h.del⟩

theorem Inv.setOutside (h : Inv R a gen st) : Inv R a gen { st with outside := true } :=
  ⟨h.sa, h.sg, h.kk, h.mode, h.tg, h.cur, h.del⟩

/-! ## emitting one command -/

theorem modeAfter_snoc (out : List Chg) (c : Chg) (m : Mode) :
    modeAfter m (out ++ [c]) = modeStep (modeAfter m out) c := by
  rw [modeAfter_append]; rfl

theorem targets_snoc (out : List Chg) (c : Chg) (m : Mode) :
    targets m (out ++ [c]) = targets m out ++ (targetOf (modeAfter m out) c).toList := by
  rw [targets_append]; simp [targets]

theorem cur_congr (st st' : St) (hr : st'.ready = st.ready) (hg : st'.gen = st.gen) (rb : Ref) : st'.cur rb = st.cur rb := by
  unfold St.cur; rw [hr, hg]

theorem isReady_congr (st st' : St) (hr : st'.ready = st.ready) (rb : Ref) : st'.isReady rb = st.isReady rb := by
  unfold St.isReady; rw [hr]

/-- one more command: the state's mode follows `modeStep`, its target (if any) is allowed -/
theorem Inv.step {st st' : St} (h : Inv R a gen st) (c : Chg)
    (ha : st'.a = st.a) (hb : st'.b = st.b) (hg : st'.gen = st.gen) (hr : st'.ready = st.ready) (hd : st'.toDel = st.toDel)
    (ho : st'.out = st.out ++ [c]) (hm : st'.mode = modeStep st.mode c)
    (ht : ∀ t, targetOf st.mode c = some t → Allowed R gen t) : Inv R a gen st' where
  sa := by rw [ha]; exact h.sa
  sg := by rw [hg]; exact h.sg
  kk := by rw [ha, hb]; exact h.kk
  mode := by rw [ho, modeAfter_snoc, h.mode, hm]
  tg := by
    intro r hr'
    rw [ho, targets_snoc, h.mode] at hr'
    rcases List.mem_append.1 hr' with h1 | h1
    · exact h.tg r h1
    · apply ht
      cases hto : targetOf st.mode c with
      | none => rw [hto] at h1; cases h1
      | some t =>
        rw [hto] at h1
        simp at h1
        rw [h1]
  cur := by
    intro rb hna hrb
    rw [cur_congr st st' hr hg]
    apply h.cur rb hna
    rw [isReady_congr st st' hr] at hrb
    exact hrb
  del := by rw [hd]; exact h.del

/-- state changes that neither emit nor touch names, marks of deletion -/
theorem Inv.same {st st' : St} (h : Inv R a gen st)
    (ha : st'.a = st.a) (hb : st'.b = st.b) (hg : st'.gen = st.gen) (hr : st'.ready = st.ready) (hd : st'.toDel = st.toDel)
    (ho : st'.out = st.out) (hm : st'.mode = st.mode) : Inv R a gen st' where
  sa := by rw [ha]; exact h.sa
  sg := by rw [hg]; exact h.sg
  kk := by rw [ha, hb]; exact h.kk
  mode := by rw [ho, hm]; exact h.mode
  tg := by rw [ho]; exact h.tg
  cur := by
    intro rb hna hrb
    rw [cur_congr st st' hr hg]
    apply h.cur rb hna
    rw [isReady_congr st st' hr] at hrb
    exact hrb
  del := by rw [hd]; exact h.del

theorem Inv.setMode {st : St} (h : Inv R a gen st) (k : Kind) (n hd : String) (hk : Allowed R gen (k, n)) :
    Inv R a gen (st.setMode k n hd) := by
  unfold St.setMode
  split
  · exact h
  · by_cases hs : st.mode.isSome = true
    · simp only [hs, if_true]
      have h1 : Inv R a gen { (st.emit .exit) with mode := none } :=
        h.step .exit rfl rfl rfl rfl rfl rfl rfl (by intro t ht; cases ht)
      exact h1.step (.sec false k n hd true) rfl rfl rfl rfl rfl rfl rfl (by intro t ht; cases ht; exact hk)
    · simp only [hs]
      have hn : st.mode = none := by
        cases hm : st.mode with
        | none => rfl
        | some m => rw [hm] at hs; simp at hs
      exact h.step (.sec false k n hd true) rfl rfl rfl rfl rfl rfl rfl (by intro t ht; cases ht; exact hk)

/-- a sub-command inside the open mode of an allowed object -/
theorem Inv.emitSub {st : St} (h : Inv R a gen st) (c : Chg) (k : Kind) (n hd : String)
    (hc : ∃ no t ref key body, c = .sub no t ref key body) (hm : st.mode = some (k, n, hd)) (hk : Allowed R gen (k, n)) :
    Inv R a gen (st.emit c) := by
  obtain ⟨no, t, ref, key, body, rfl⟩ := hc
  exact h.step (.sub no t ref key body) rfl rfl rfl rfl rfl rfl rfl (by
    intro t' ht
    rw [hm] at ht
    cases ht
    exact hk)

/-- the object whose mode is open is allowed -/
def ModeAllowed (R : Ref → Prop) (gen : List (Ref × String)) (st : St) : Prop :=
  ∀ k n hd, st.mode = some (k, n, hd) → Allowed R gen (k, n)

theorem Inv.emitSub' {st : St} (h : Inv R a gen st) (hma : ModeAllowed R gen st) (no : Bool) (t : String) (ref : Option Ref) (key : String) (body : List String) :
    Inv R a gen (st.emit (.sub no t ref key body)) ∧ ModeAllowed R gen (st.emit (.sub no t ref key body)) := by
  refine ⟨h.step (.sub no t ref key body) rfl rfl rfl rfl rfl rfl rfl ?_, hma⟩
  intro t' ht
  cases hm : st.mode with
  | none => rw [hm] at ht; cases ht
  | some m =>
    obtain ⟨k, n, hd⟩ := m
    rw [hm] at ht
    cases ht
    exact hma k n hd hm

theorem Inv.emitSubs {f : St → Sub → Chg} (hf : ∀ st s, ∃ no t ref key body, f st s = .sub no t ref key body) :
    ∀ (subs : List Sub) (st : St), Inv R a gen st → ModeAllowed R gen st →
      Inv R a gen (subs.foldl (fun st s => st.emit (f st s)) st)
  | [], _, h, _ => h
  | s :: ss, st, h, hma => by
    obtain ⟨no, t, ref, key, body, e⟩ := hf st s
    rw [List.foldl_cons, e]
    have := h.emitSub' hma no t ref key body
    exact Inv.emitSubs hf ss _ this.1 this.2

/-- `addCmd` of a top-level command with its sub-commands under an allowed name -/
theorem Inv.addSec {st : St} (h : Inv R a gen st) (k : Kind) (n : String) (sec : Sec) (hk : Allowed R gen (k, n)) :
    Inv R a gen (addSec st k n sec) := by
  unfold G.addSec
  have h1 : Inv R a gen { (st.emit (.sec false k n sec.head sec.mode)) with
      mode := if sec.mode then some (k, n, sec.head) else none } :=
    h.step (.sec false k n sec.head sec.mode) rfl rfl rfl rfl rfl rfl rfl (by intro t ht; cases ht; exact hk)
  apply Inv.emitSubs (f := fun st s => .sub false (st.subText s) (st.subRef s) s.key s.body) (fun st s => ⟨_, _, _, _, _, rfl⟩) _ _ h1
  intro k' n' hd' hm
  by_cases hsm : sec.mode = true
  · simp only [hsm, if_true] at hm
    cases hm
    exact hk
  · simp only [hsm] at hm
    cases hm

/-! ## folds -/

theorem foldl_opt_none {α : Type} (g : St → α → Option St) : ∀ (l : List α),
    l.foldl (fun (acc : Option St) x => acc.bind fun st => g st x) none = none
  | [] => rfl
  | _ :: xs => by rw [List.foldl_cons]; exact foldl_opt_none g xs

theorem foldl_opt_inv {α : Type} (P : St → Prop) (g : St → α → Option St) : ∀ (l : List α) (st st' : St),
    (∀ st x st', x ∈ l → P st → g st x = some st' → P st') →
    l.foldl (fun (acc : Option St) x => acc.bind fun st => g st x) (some st) = some st' → P st → P st'
  | [], st, st', _, h, hp => by cases h; exact hp
  | x :: xs, st, st', hg, h, hp => by
    rw [List.foldl_cons] at h
    cases hx : g st x with
    | none =>
      simp only [Option.bind_some, hx] at h
      rw [foldl_opt_none] at h; cases h
    | some st1 =>
      simp only [Option.bind_some, hx] at h
      exact foldl_opt_inv P g xs st1 st' (fun st y st' hy => hg st y st' (List.mem_cons_of_mem _ hy)) h
        (hg st x st1 List.mem_cons_self hp hx)

theorem foldl_inv {α : Type} (P : St → Prop) (g : St → α → St) : ∀ (l : List α) (st : St),
    (∀ st x, x ∈ l → P st → P (g st x)) → P st → P (l.foldl g st)
  | [], _, _, hp => hp
  | x :: xs, st, hg, hp =>
    foldl_inv P g xs (g st x) (fun st y hy => hg st y (List.mem_cons_of_mem _ hy)) (hg st x List.mem_cons_self hp)

/-! ## the higher-order pieces -/

def AddSpec (R : Ref → Prop) (a : List Obj) (gen : List (Ref × String)) (add : St → Ref → Option St) : Prop :=
  ∀ st x st', Inv R a gen st → add st x = some st' → Inv R a gen st'
def DiffSpec (R : Ref → Prop) (a : List Obj) (gen : List (Ref × String)) (diff : St → Ref → Ref → Option (St × String)) : Prop :=
  ∀ st xa xb st' n, Inv R a gen st → R xa → xa.1 = xb.1 → diff st xa xb = some (st', n) → Inv R a gen st'
def MarkSpec (R : Ref → Prop) (a : List Obj) (gen : List (Ref × String)) (mark : St → Ref → St) : Prop :=
  ∀ st x, Inv R a gen st → R x → Inv R a gen (mark st x)

theorem followSubs_inv {add : St → Ref → Option St} (hadd : AddSpec R a gen add) (subs : List Sub) (st st' : St)
    (h : Inv R a gen st) (he : followSubs add st subs = some st') : Inv R a gen st' := by
  unfold followSubs at he
  refine foldl_opt_inv (Inv R a gen) (fun st s => match s.ref with | some x => add st x | none => some st) subs st st' ?_ he h
  intro st s st' _ hp hs
  cases hr : s.ref with
  | none => simp only [hr] at hs; cases hs; exact hp
  | some x => simp only [hr] at hs; exact hadd st x st' hp hs

theorem addSecs_inv {add : St → Ref → Option St} (hadd : AddSpec R a gen add) (k : Kind) (n : String)
    (hk : Allowed R gen (k, n)) (secs : List Sec) (st st' : St)
    (h : Inv R a gen st) (he : addSecs add st k n secs = some st') : Inv R a gen st' := by
  unfold addSecs at he
  refine foldl_opt_inv (Inv R a gen) (fun st sec => (followSubs add st sec.subs).map fun st => addSec st k n sec) secs st st' ?_ he h
  intro st sec st' _ hp hs
  cases hf : followSubs add st sec.subs with
  | none => rw [hf] at hs; cases hs
  | some st1 =>
    rw [hf] at hs
    cases hs
    exact (followSubs_inv hadd sec.subs st st1 hp hf).addSec k n sec hk

theorem addSubs_inv {add : St → Ref → Option St} (hadd : AddSpec R a gen add) (k : Kind) (n hd : String)
    (hk : Allowed R gen (k, n)) (l : List Sub) (st st' : St)
    (h : Inv R a gen st) (he : addSubs add st k n hd l = some st') : Inv R a gen st' := by
  unfold addSubs at he
  refine foldl_opt_inv (Inv R a gen) (fun st s => (match s.ref with | some x => add st x | none => some st).map fun (st : St) =>
      let st := st.setMode k n hd
      st.emit (.sub false (st.subText s) (st.subRef s) s.key s.body)) l st st' ?_ he h
  intro st s st' _ hp hs
  have key : ∀ st1 : St, Inv R a gen st1 →
      Inv R a gen ((st1.setMode k n hd).emit (.sub false ((st1.setMode k n hd).subText s) ((st1.setMode k n hd).subRef s) s.key s.body)) := by
    intro st1 h1
    have h2 := h1.setMode k n hd hk
    have hm : (st1.setMode k n hd).mode = some (k, n, hd) := by
      unfold St.setMode
      split
      · rename_i he'; simpa using he'
      · rfl
    exact h2.emitSub _ k n hd ⟨_, _, _, _, _, rfl⟩ hm hk
  cases hr : s.ref with
  | none => simp only [hr, Option.map_some] at hs; cases hs; exact key st hp
  | some x =>
    simp only [hr] at hs
    cases ha : add st x with
    | none => rw [ha] at hs; cases hs
    | some st1 => rw [ha] at hs; cases hs; exact key st1 (hadd st x st1 hp ha)

theorem setMode_mode (st : St) (k : Kind) (n hd : String) : (st.setMode k n hd).mode = some (k, n, hd) := by
  unfold St.setMode
  split
  · rename_i he; simpa using he
  · rfl

theorem delSubs_inv {mark : St → Ref → St} (hmark : MarkSpec R a gen mark) (k : Kind) (n hd : String)
    (hk : Allowed R gen (k, n)) (l : List Sub) (hl : ∀ s ∈ l, ∀ x, s.ref = some x → R x) (st : St)
    (h : Inv R a gen st) : Inv R a gen (delSubs mark st k n hd l) := by
  unfold delSubs
  have h1 : Inv R a gen (l.foldl (fun st s => (st.setMode k n hd).emit (.sub true s.orig s.ref s.key s.body)) st) := by
    apply foldl_inv (Inv R a gen) _ l st _ h
    intro st s _ hp
    exact (hp.setMode k n hd hk).emitSub _ k n hd ⟨_, _, _, _, _, rfl⟩ (setMode_mode st k n hd) hk
  apply foldl_inv (Inv R a gen) mark _ _ _ h1
  intro st x hx hp
  obtain ⟨s, hs, hsx⟩ := List.mem_filterMap.1 hx
  exact hmark st x hp (hl s hs x hsx)

theorem equalSubs_inv {diff : St → Ref → Ref → Option (St × String)} (hdiff : DiffSpec R a gen diff) (k : Kind) (n hd : String)
    (hk : Allowed R gen (k, n)) (pairs : List (Sub × Sub))
    (hp : ∀ q ∈ pairs, ∀ xa xb, q.1.ref = some xa → q.2.ref = some xb → R xa ∧ xa.1 = xb.1) (st st' : St)
    (h : Inv R a gen st) (he : equalSubs diff st k n hd pairs = some st') : Inv R a gen st' := by
  unfold equalSubs at he
  refine foldl_opt_inv (Inv R a gen) (fun st q => match q.1.ref, q.2.ref with
      | some xa, some xb =>
        (diff st xa xb).map fun r =>
          if r.2 != xa.2 then
            let st := r.1.setMode k n hd
            st.emit (.sub false (st.subText q.2) (st.subRef q.2) q.2.key q.2.body)
          else r.1
      | _, _ => some st) pairs st st' ?_ he h
  intro st q st' hq hinv hs
  cases h1 : q.1.ref with
  | none => simp only [h1] at hs; cases hs; exact hinv
  | some xa =>
    cases h2 : q.2.ref with
    | none => simp only [h1, h2] at hs; cases hs; exact hinv
    | some xb =>
      simp only [h1, h2] at hs
      cases hd' : diff st xa xb with
      | none => rw [hd'] at hs; cases hs
      | some r =>
        rw [hd'] at hs
        simp only [Option.map_some] at hs
        have hr := hp q hq xa xb h1 h2
        have hi := hdiff st xa xb r.1 r.2 hinv hr.1 hr.2 (by rw [hd'])
        split at hs
        · cases hs
          exact (hi.setMode k n hd hk).emitSub _ k n hd ⟨_, _, _, _, _, rfl⟩ (setMode_mode r.1 k n hd) hk
        · cases hs; exact hi

theorem mem_pairsOf {α : Type} (la lb : List α) (idx : List (Nat × Nat)) (q : α × α) (h : q ∈ pairsOf la lb idx) :
    ∃ p ∈ idx, la[p.1]? = some q.1 ∧ lb[p.2]? = some q.2 := by
  unfold pairsOf at h
  obtain ⟨p, hp, hq⟩ := List.mem_filterMap.1 h
  refine ⟨p, hp, ?_⟩
  cases h1 : la[p.1]? with
  | none => simp [h1] at hq
  | some x =>
    cases h2 : lb[p.2]? with
    | none => simp [h1, h2] at hq
    | some y => simp [h1, h2] at hq; rw [← hq]; exact ⟨rfl, rfl⟩

/-- paired positions of `diffUnordered` carry equal keys (no assumption on duplicates) -/
theorem unorderedA_pairs (bKeys : List String) : ∀ (aKeys : List String) (i : Nat) (used : List String) (p j : Nat),
    (p, j) ∈ (NA.Vpn.unorderedA bKeys aKeys i used).1 →
      i ≤ p ∧ ∃ k, aKeys[p - i]? = some k ∧ bKeys[j]? = some k
  | [], _, _, _, _, h => by simp [NA.Vpn.unorderedA] at h
  | x :: xs, i, used, p, j, h => by
    unfold NA.Vpn.unorderedA at h
    cases hm : (if used.contains x then none else NA.Vpn.lastIdx bKeys x) with
    | some j0 =>
      have hj : NA.Vpn.lastIdx bKeys x = some j0 := by
        by_cases hu : used.contains x = true
        · rw [if_pos hu] at hm; cases hm
        · rw [if_neg hu] at hm; exact hm
      rw [hm] at h
      simp only [List.mem_cons] at h
      rcases h with h | h
      · have e1 : p = i := (Prod.mk.inj h).1
        have e2 : j = j0 := (Prod.mk.inj h).2
        subst e1; subst e2
        exact ⟨Nat.le_refl _, x, by simp, NA.Vpn.lastIdx_spec bKeys x j hj⟩
      · obtain ⟨h1, k, h2, h3⟩ := unorderedA_pairs bKeys xs (i + 1) _ p j h
        refine ⟨by omega, k, ?_, h3⟩
        have : p - i = (p - (i + 1)) + 1 := by omega
        rw [this, List.getElem?_cons_succ]; exact h2
    | none =>
      rw [hm] at h
      obtain ⟨h1, k, h2, h3⟩ := unorderedA_pairs bKeys xs (i + 1) _ p j h
      refine ⟨by omega, k, ?_, h3⟩
      have : p - i = (p - (i + 1)) + 1 := by omega
      rw [this, List.getElem?_cons_succ]; exact h2

theorem diffSubs_inv {add : St → Ref → Option St} {diff : St → Ref → Ref → Option (St × String)} {mark : St → Ref → St}
    (hadd : AddSpec R a gen add) (hdiff : DiffSpec R a gen diff) (hmark : MarkSpec R a gen mark)
    (k : Kind) (n hd : String) (hk : Allowed R gen (k, n)) (sa sb : List Sub)
    (hsa : ∀ s ∈ sa, ∀ x, s.ref = some x → R x) (hkk : KindByKey sa sb) (st st' : St)
    (h : Inv R a gen st) (he : diffSubs add diff mark st k n hd sa sb = some st') : Inv R a gen st' := by
  unfold diffSubs at he
  by_cases h0 : (sa.isEmpty && sb.isEmpty) = true
  · rw [if_pos h0] at he; cases he; exact h
  · rw [if_neg h0] at he
    dsimp only at he
    by_cases hv : (NA.Vpn.unorderedA (keysOf sb) (keysOf sa) 0 []).1.isEmpty = true
    · -- no sub-command in common
      rw [if_pos hv] at he
      have h1 : Inv R a gen (if sa.isEmpty then st else delSubs mark st k n hd sa) := by
        split
        · exact h
        · exact delSubs_inv hmark k n hd hk sa hsa st h
      by_cases hb : sb.isEmpty = true
      · rw [if_pos hb] at he; cases he; exact h1
      · rw [if_neg hb] at he
        exact addSubs_inv hadd k n hd hk sb _ st' h1 he
    · rw [if_neg hv] at he
      have h1 := delSubs_inv hmark k n hd hk
        ((NA.Vpn.unorderedA (keysOf sb) (keysOf sa) 0 []).2.1.filterMap fun i => sa[i]?)
        (by
          intro s hs x hx
          obtain ⟨i, _, hi⟩ := List.mem_filterMap.1 hs
          exact hsa s (List.mem_of_getElem? hi) x hx) st h
      generalize delSubs mark st k n hd _ = st1 at h1 he
      cases h2 : equalSubs diff st1 k n hd (pairsOf sa sb (NA.Vpn.unorderedA (keysOf sb) (keysOf sa) 0 []).1) with
      | none => rw [h2] at he; rw [foldl_opt_none] at he; cases he
      | some st2 =>
        rw [h2] at he
        have hi2 := equalSubs_inv hdiff k n hd hk _ (by
          intro q hq xa xb hxa hxb
          obtain ⟨p, hp, hqa, hqb⟩ := mem_pairsOf sa sb _ q hq
          obtain ⟨_, key, hka, hkb⟩ := unorderedA_pairs (keysOf sb) (keysOf sa) 0 [] p.1 p.2 hp
          have hma : q.1 ∈ sa := List.mem_of_getElem? hqa
          have hmb : q.2 ∈ sb := List.mem_of_getElem? hqb
          have e1 : q.1.key = key := by
            have : (keysOf sa)[p.1]? = some q.1.key := by unfold keysOf; rw [List.getElem?_map, hqa]; rfl
            rw [Nat.sub_zero] at hka
            rw [this] at hka; exact Option.some.inj hka
          have e2 : q.2.key = key := by
            have : (keysOf sb)[p.2]? = some q.2.key := by unfold keysOf; rw [List.getElem?_map, hqb]; rfl
            rw [this] at hkb; exact Option.some.inj hkb
          exact ⟨hsa q.1 hma xa hxa, hkk q.1 hma q.2 hmb (by rw [e1, e2]) xa xb hxa hxb⟩) st1 st2 h1 h2
        refine foldl_opt_inv (Inv R a gen) (fun st (run : List Nat) => addSubs add st k n hd (run.filterMap fun j => sb[j]?)) _ st2 st' ?_ he hi2
        intro st run st' _ hp hs
        exact addSubs_inv hadd k n hd hk _ st st' hp hs

theorem delSecs_inv {mark : St → Ref → St} (hmark : MarkSpec R a gen mark) (k : Kind) (n : String)
    (hk : Allowed R gen (k, n)) (secs : List Sec) (hs : ∀ sec ∈ secs, ∀ s ∈ sec.subs, ∀ x, s.ref = some x → R x) (st : St)
    (h : Inv R a gen st) : Inv R a gen (delSecs mark st k n secs) := by
  unfold delSecs
  apply foldl_inv (Inv R a gen) _ secs st _ h
  intro st sec hsec hp
  have h1 : Inv R a gen { (st.emit (.sec true k n sec.head sec.mode)) with mode := none } :=
    hp.step (.sec true k n sec.head sec.mode) rfl rfl rfl rfl rfl rfl rfl (by intro t ht; cases ht; exact hk)
  apply foldl_inv (Inv R a gen) mark _ _ _ h1
  intro st x hx hp
  obtain ⟨s, hs', hsx⟩ := List.mem_filterMap.1 hx
  exact hmark st x hp (hs sec hsec s hs' x hsx)

theorem diffSecs_inv {add : St → Ref → Option St} {diff : St → Ref → Ref → Option (St × String)} {mark : St → Ref → St}
    (hadd : AddSpec R a gen add) (hdiff : DiffSpec R a gen diff) (hmark : MarkSpec R a gen mark)
    (k : Kind) (n : String) (hk : Allowed R gen (k, n)) (sa sb : List Sec)
    (hsa : ∀ sec ∈ sa, ∀ s ∈ sec.subs, ∀ x, s.ref = some x → R x)
    (hkk : ∀ x ∈ sa, ∀ y ∈ sb, KindByKey x.subs y.subs)
    (u : List (Nat × Nat) × List Nat × List String) (st st' : St)
    (h : Inv R a gen st) (he : diffSecs add diff mark st k n sa sb u = some st') : Inv R a gen st' := by
  unfold diffSecs at he
  dsimp only at he
  have h1 := delSecs_inv hmark k n hk (u.2.1.filterMap fun i => sa[i]?) (by
    intro sec hsec
    obtain ⟨i, _, hi⟩ := List.mem_filterMap.1 hsec
    exact hsa sec (List.mem_of_getElem? hi)) st h
  generalize delSecs mark st k n _ = st1 at h1 he
  cases h2 : (pairsOf sa sb u.1).foldl (fun (acc : Option St) p =>
      acc.bind fun st => diffSubs add diff mark st k n p.2.head p.1.subs p.2.subs) (some st1) with
  | none => rw [h2] at he; cases he
  | some st2 =>
    rw [h2] at he
    simp only [Option.bind_some] at he
    have hi2 : Inv R a gen st2 := by
      refine foldl_opt_inv (Inv R a gen) (fun st (p : Sec × Sec) => diffSubs add diff mark st k n p.2.head p.1.subs p.2.subs) _ st1 st2 ?_ h2 h1
      intro st p st' hp hinv hs
      obtain ⟨q, _, hqa, hqb⟩ := mem_pairsOf sa sb _ p hp
      have hma : p.1 ∈ sa := List.mem_of_getElem? hqa
      have hmb : p.2 ∈ sb := List.mem_of_getElem? hqb
      exact diffSubs_inv hadd hdiff hmark k n p.2.head hk p.1.subs p.2.subs (hsa p.1 hma) (hkk p.1 hma p.2 hmb) st st' hinv hs
    exact addSecs_inv hadd k n hk _ st2 st' hi2 he

/-! ## marks -/

/-- `R` is closed under the references of the device's objects -/
def Closed (R : Ref → Prop) (a : List Obj) : Prop :=
  ∀ r o, R r → a.find? (fun o => o.id == r) = some o → ∀ x ∈ o.refs, R x

theorem markDel_inv (hc : Closed R a) : ∀ f, MarkSpec R a gen (markDel f)
  | 0 => fun _ _ h _ => h
  | f + 1 => by
    intro st r h hr
    unfold markDel
    split
    · exact h
    · cases ho : st.aObj r with
      | none => exact h
      | some o =>
        simp only
        split
        · exact h
        · have h1 : Inv R a gen { st with toDel := r :: st.toDel } :=
            ⟨h.sa, h.sg, h.kk, h.mode, h.tg, h.cur, by
              intro x hx
              cases hx with
              | head => exact hr
              | tail _ hx => exact h.del x hx⟩
          apply foldl_inv (Inv R a gen) (markDel f) _ _ _ h1
          intro st' x hx hp
          have : a.find? (fun o => o.id == r) = some o := by
            have := ho; unfold St.aObj at this; rw [h.sa] at this; exact this
          exact markDel_inv hc f st' x hp (hc r o hr this x hx)

/-! ## transfer -/

theorem foldl_lines_mode (n : String) (m : Option (Kind × String × String)) : ∀ (ls : List String) (st : St),
    ls.foldl (fun st l => st.emit (.line n l)) { st with mode := m } =
      { (ls.foldl (fun st l => st.emit (.line n l)) st) with mode := m }
  | [], _ => rfl
  | l :: ls, st => by
    rw [List.foldl_cons, List.foldl_cons]
    exact foldl_lines_mode n m ls (st.emit (.line n l))

theorem lines_inv (n : String) (hk : Allowed R gen (.acl, n)) : ∀ (ls : List String) (st : St),
    Inv R a gen st → st.mode = none →
      Inv R a gen (ls.foldl (fun st l => st.emit (.line n l)) st)
  | [], _, h, _ => h
  | l :: ls, st, h, hm => by
    rw [List.foldl_cons]
    have h1 : Inv R a gen (st.emit (.line n l)) :=
      h.step (.line n l) rfl rfl rfl rfl rfl rfl (by show st.mode = none; exact hm) (by intro t ht; cases ht; exact hk)
    exact lines_inv n hk ls _ h1 hm

/-- the lines of a new access-list -/
theorem aclLines_inv (n : String) (hk : Allowed R gen (.acl, n)) (ls : List String) (st : St) (h : Inv R a gen st) :
    Inv R a gen { (ls.foldl (fun st l => st.emit (.line n l)) st) with mode := if ls.isEmpty then st.mode else none } := by
  cases ls with
  | nil => exact h
  | cons l ls =>
    have h1 : Inv R a gen { (st.emit (.line n l)) with mode := none } :=
      h.step (.line n l) rfl rfl rfl rfl rfl rfl rfl (by intro t ht; cases ht; exact hk)
    have h2 := lines_inv n hk ls _ h1 rfl
    rw [foldl_lines_mode] at h2
    exact h2

theorem addAny_sec_inv (f : Nat) (ih : AddSpec R a gen (addAny f)) (st st' : St) (r : Ref)
    (hk : r.1 ≠ .pool) (ha : r.1 ≠ .aaa) (h : Inv R a gen st)
    (he : (match st.bObj r with
      | none => some st
      | some o =>
        if st.isReady r then some st else
        let n := st.cur r
        addSecs (addAny f) (st.setReady r n) r.1 n o.secs) = some st') : Inv R a gen st' := by
  cases hb : st.bObj r with
  | none => rw [hb] at he; cases he; exact h
  | some o =>
    rw [hb] at he
    dsimp only at he
    by_cases hr : st.isReady r = true
    · rw [if_pos hr] at he; cases he; exact h
    · rw [if_neg hr] at he
      have hcur := h.cur r ha (Or.inl hk)
      exact addSecs_inv ih r.1 (st.cur r) hcur o.secs _ st' (h.setReady r (st.cur r) (fun _ _ => hcur)) he

theorem addAny_inv : ∀ f, AddSpec R a gen (addAny f)
  | 0 => by intro st x st' h he; cases he; exact h
  | f + 1 => by
    intro st r st' h he
    have ih : AddSpec R a gen (addAny f) := addAny_inv f
    unfold addAny at he
    cases hk : r.1 with
    | aaa =>
      simp only [hk] at he
      split at he
      · cases he
        exact (h.markNeeded r).setReady r r.2 (fun _ hna => absurd hk hna)
      · cases he
    | acl =>
      simp only [hk] at he
      cases hb : st.bObj r with
      | none => rw [hb] at he; cases he; exact h
      | some o =>
        rw [hb] at he
        dsimp only at he
        by_cases hr : st.isReady r = true
        · rw [if_pos hr] at he; cases he; exact h
        · rw [if_neg hr] at he
          cases he
          have hcur := h.cur r (by rw [hk]; decide) (Or.inl (by rw [hk]; decide))
          rw [hk] at hcur
          exact aclLines_inv (st.cur r) hcur o.lines _ (h.setReady r (st.cur r) (fun _ _ => by rw [hk]; exact hcur))
    | pool =>
      simp only [hk] at he
      cases hb : st.bObj r with
      | none => rw [hb] at he; cases he; exact h
      | some o =>
        rw [hb] at he
        dsimp only at he
        by_cases hr : st.isReady r = true
        · rw [if_pos hr] at he; cases he; exact h
        · rw [if_neg hr] at he
          have hr' : st.isReady r = false := by simpa using hr
          have hcur := h.cur r (by rw [hk]; decide) (Or.inr hr')
          rw [hk] at hcur
          have h1 := h.setReady r (st.cur r) (fun hp _ => absurd hk hp)
          split at he
          · cases he
            exact (h1.markNeeded _).setReady r _ (fun hp _ => absurd hk hp)
          · cases he
            exact h1.step (.pool false (st.cur r) (o.lines.headD "")) rfl rfl rfl rfl rfl rfl rfl (by intro t ht; cases ht; exact hcur)
    | gp =>
      simp only [hk] at he
      exact addAny_sec_inv f ih st st' r (by rw [hk]; decide) (by rw [hk]; decide) h (by rw [hk]; exact he)
    | tg =>
      simp only [hk] at he
      exact addAny_sec_inv f ih st st' r (by rw [hk]; decide) (by rw [hk]; decide) h (by rw [hk]; exact he)
    | user =>
      simp only [hk] at he
      exact addAny_sec_inv f ih st st' r (by rw [hk]; decide) (by rw [hk]; decide) h (by rw [hk]; exact he)
    | certmap =>
      simp only [hk] at he
      exact addAny_sec_inv f ih st st' r (by rw [hk]; decide) (by rw [hk]; decide) h (by rw [hk]; exact he)

/-! ## comparison -/

theorem ref_mem_refs (o : Obj) (sec : Sec) (s : Sub) (x : Ref) (h1 : sec ∈ o.secs) (h2 : s ∈ sec.subs) (h3 : s.ref = some x) :
    x ∈ o.refs := by
  unfold Obj.refs
  exact List.mem_flatMap.2 ⟨sec, h1, List.mem_filterMap.2 ⟨s, h2, h3⟩⟩

theorem diffAny_sec_inv (hc : Closed R a) (f : Nat) (ihd : DiffSpec R a gen (diffAny f)) (st st' : St) (ra rb : Ref) (n : String)
    (oa ob : Obj) (hoa : st.aObj ra = some oa) (hob : st.bObj rb = some ob)
    (hk : ra.1 ≠ .pool) (hna : ra.1 ≠ .aaa) (hra : R ra) (hkind : ra.1 = rb.1) (h : Inv R a gen st)
    (he : (if st.isNeeded ra then (addAny (f + 1) st rb).map fun st => (st, st.cur rb)
        else if st.isReady rb then some (st, st.cur rb)
        else
          let u := NA.Vpn.unorderedA (ob.secs.map (·.head)) (oa.secs.map (·.head)) 0 []
          if u.1.isEmpty then
            (addAny (f + 1) (markDel (f + 1) st ra) rb).map fun st => (st, st.cur rb)
          else
            (diffSecs (addAny f) (diffAny f) (markDel f) ((st.markNeeded ra).setReady rb ra.2) ra.1 ra.2 oa.secs ob.secs u).map
              fun st => (st, ra.2)) = some (st', n)) : Inv R a gen st' := by
  by_cases h1 : st.isNeeded ra = true
  · rw [if_pos h1] at he
    cases ha : addAny (f + 1) st rb with
    | none => rw [ha] at he; cases he
    | some s1 =>
      rw [ha] at he
      simp only [Option.map_some, Option.some.injEq, Prod.mk.injEq] at he
      rw [← he.1]; exact addAny_inv (f + 1) st rb s1 h ha
  · rw [if_neg h1] at he
    by_cases h2 : st.isReady rb = true
    · rw [if_pos h2] at he; cases he; exact h
    · rw [if_neg h2] at he
      dsimp only at he
      by_cases h3 : (NA.Vpn.unorderedA (ob.secs.map (·.head)) (oa.secs.map (·.head)) 0 []).1.isEmpty = true
      · rw [if_pos h3] at he
        have hm := markDel_inv (gen := gen) hc (f + 1) st ra h hra
        cases ha : addAny (f + 1) (markDel (f + 1) st ra) rb with
        | none => rw [ha] at he; cases he
        | some s1 =>
          rw [ha] at he
          simp only [Option.map_some, Option.some.injEq, Prod.mk.injEq] at he
          rw [← he.1]; exact addAny_inv (f + 1) _ rb s1 hm ha
      · rw [if_neg h3] at he
        have hal : Allowed R gen (ra.1, ra.2) := Or.inl hra
        have h0 : Inv R a gen ((st.markNeeded ra).setReady rb ra.2) :=
          (h.markNeeded ra).setReady rb ra.2 (fun _ _ => by rw [← hkind]; exact hal)
        have hfa : a.find? (fun o => o.id == ra) = some oa := by
          have := hoa; unfold St.aObj at this; rw [h.sa] at this; exact this
        have hma : oa ∈ st.a := by unfold St.aObj at hoa; exact List.mem_of_find?_eq_some hoa
        have hmb : ob ∈ st.b := by unfold St.bObj at hob; exact List.mem_of_find?_eq_some hob
        cases hd : diffSecs (addAny f) (diffAny f) (markDel f) ((st.markNeeded ra).setReady rb ra.2) ra.1 ra.2 oa.secs ob.secs
            (NA.Vpn.unorderedA (ob.secs.map (·.head)) (oa.secs.map (·.head)) 0 []) with
        | none => rw [hd] at he; cases he
        | some s1 =>
          rw [hd] at he
          simp only [Option.map_some, Option.some.injEq, Prod.mk.injEq] at he
          rw [← he.1]
          exact diffSecs_inv (addAny_inv f) ihd (markDel_inv hc f) ra.1 ra.2 hal oa.secs ob.secs
            (fun sec hsec s hs x hx => hc ra oa hra hfa x (ref_mem_refs oa sec s x hsec hs hx))
            (fun x hx y hy => h.kk oa hma ob hmb x hx y hy) _ _ s1 h0 hd

theorem addAny_pair {st : St} {rb : Ref} {g : St → String} {st' : St} {n : String} (f : Nat) (h : Inv R a gen st)
    (he : ((addAny f st rb).map fun st => (st, g st)) = some (st', n)) : Inv R a gen st' := by
  cases ha : addAny f st rb with
  | none => rw [ha] at he; cases he
  | some s1 =>
    rw [ha] at he
    simp only [Option.map_some, Option.some.injEq, Prod.mk.injEq] at he
    rw [← he.1]; exact addAny_inv f st rb s1 h ha

theorem diffAny_inv (hc : Closed R a) : ∀ f, DiffSpec R a gen (diffAny f)
  | 0 => by
    intro st xa xb st' n h _ _ he
    simp only [diffAny, Option.some.injEq, Prod.mk.injEq] at he
    rw [← he.1]; exact h
  | f + 1 => by
    intro st ra rb st' n h hra hkind he
    have ih : DiffSpec R a gen (diffAny f) := diffAny_inv hc f
    unfold diffAny at he
    cases hoa : st.aObj ra with
    | none =>
      rw [hoa] at he
      simp only [Option.some.injEq, Prod.mk.injEq] at he
      rw [← he.1]; exact h
    | some oa =>
      cases hob : st.bObj rb with
      | none =>
        rw [hoa, hob] at he
        simp only [Option.some.injEq, Prod.mk.injEq] at he
        rw [← he.1]; exact h
      | some ob =>
        rw [hoa, hob] at he
        have hal : Allowed R gen (rb.1, ra.2) := by rw [← hkind]; exact Or.inl hra
        cases hk : ra.1 with
        | aaa =>
          simp only [hk] at he
          split at he
          · exact addAny_pair (f + 1) h he
          · simp only [Option.some.injEq, Prod.mk.injEq] at he
            rw [← he.1]
            exact (h.markNeeded ra).setReady rb ra.2 (fun _ _ => hal)
        | acl =>
          simp only [hk] at he
          split at he
          · exact addAny_pair (f + 1) h he
          · split at he
            · simp only [Option.some.injEq, Prod.mk.injEq] at he; rw [← he.1]; exact h
            · split at he
              · simp only [Option.some.injEq, Prod.mk.injEq] at he
                rw [← he.1]
                exact (h.markNeeded ra).setReady rb ra.2 (fun _ _ => hal)
              · refine addAny_pair (f + 1) (markDel_inv hc (f + 1) _ ra ?_ hra) he
                split
                · exact h.setOutside
                · exact h
        | pool =>
          simp only [hk] at he
          split at he
          · exact addAny_pair (f + 1) h he
          · split at he
            · simp only [Option.some.injEq, Prod.mk.injEq] at he; rw [← he.1]; exact h
            · split at he
              · simp only [Option.some.injEq, Prod.mk.injEq] at he
                rw [← he.1]
                exact (h.markNeeded ra).setReady rb ra.2 (fun _ _ => hal)
              · have hm := markDel_inv (gen := gen) hc (f + 1) st ra h hra
                split at he
                · simp only [Option.some.injEq, Prod.mk.injEq] at he
                  rw [← he.1]
                  exact (hm.markNeeded _).setReady rb _ (fun hp _ => absurd (by rw [← hkind, hk]) hp)
                · exact addAny_pair (f + 1) hm he
        | gp =>
          simp only [hk] at he
          exact diffAny_sec_inv hc f ih st st' ra rb n oa ob hoa hob (by rw [hk]; decide) (by rw [hk]; decide) hra hkind h
            (by rw [hk]; exact he)
        | tg =>
          simp only [hk] at he
          exact diffAny_sec_inv hc f ih st st' ra rb n oa ob hoa hob (by rw [hk]; decide) (by rw [hk]; decide) hra hkind h
            (by rw [hk]; exact he)
        | user =>
          simp only [hk] at he
          exact diffAny_sec_inv hc f ih st st' ra rb n oa ob hoa hob (by rw [hk]; decide) (by rw [hk]; decide) hra hkind h
            (by rw [hk]; exact he)
        | certmap =>
          simp only [hk] at he
          exact diffAny_sec_inv hc f ih st st' ra rb n oa ob hoa hob (by rw [hk]; decide) (by rw [hk]; decide) hra hkind h
            (by rw [hk]; exact he)

/-! ## the anchors and the whole body -/

theorem diffAnchors_inv (hc : Closed R a) (hanch : ∀ o ∈ a, o.anchor = true → R o.id) (k : Kind) (st st' : St)
    (h : Inv R a gen st) (he : diffAnchors st k = some st') : Inv R a gen st' := by
  unfold diffAnchors at he
  dsimp only at he
  generalize hbN : sortS ((st.b.filter fun o => o.kind == k && o.anchor).map (·.name)) = bN at he
  generalize haN : sortS ((st.a.filter fun o => o.kind == k && o.anchor).map (·.name)) = aN at he
  have hmem : ∀ n ∈ aN, R (k, n) := by
    intro n hn
    rw [← haN] at hn
    have : n ∈ (st.a.filter fun o => o.kind == k && o.anchor).map (·.name) := by
      -- sorting keeps the elements
      have hs : ∀ (l : List String) (x : String), x ∈ sortS l → x ∈ l := by
        intro l
        induction l with
        | nil => intro x hx; simpa [sortS] using hx
        | cons y ys ih =>
          intro x hx
          have hi : ∀ (zs : List String), x ∈ NA.Vpn.insertS y zs → x = y ∨ x ∈ zs := by
            intro zs
            induction zs with
            | nil => intro h; simpa [NA.Vpn.insertS] using h
            | cons z zs ihz =>
              intro h
              unfold NA.Vpn.insertS at h
              split at h
              · simpa using h
              · cases h with
                | head => exact Or.inr List.mem_cons_self
                | tail _ h => rcases ihz h with e | e
                              · exact Or.inl e
                              · exact Or.inr (List.mem_cons_of_mem _ e)
          have : x ∈ NA.Vpn.insertS y (sortS ys) := by simpa [sortS] using hx
          rcases hi _ this with e | e
          · rw [e]; exact List.mem_cons_self
          · exact List.mem_cons_of_mem _ (ih x e)
      exact hs _ n hn
    obtain ⟨o, ho, hon⟩ := List.mem_map.1 this
    have ho' := List.mem_filter.1 ho
    have hk : o.kind = k ∧ o.anchor = true := by simpa using ho'.2
    have : R o.id := hanch o (by rw [← h.sa]; exact ho'.1) hk.2
    unfold Obj.id at this
    rw [hk.1, hon] at this
    exact this
  cases h1 : aN.foldl (fun (acc : Option St) n =>
      acc.bind fun st => if bN.contains n then (diffAny fuel st (k, n) (k, n)).map (·.1) else some (markDel fuel st (k, n))) (some st) with
  | none => rw [h1, foldl_opt_none] at he; cases he
  | some st1 =>
    rw [h1] at he
    have hi1 : Inv R a gen st1 := by
      refine foldl_opt_inv (Inv R a gen) (fun st n => if bN.contains n then (diffAny fuel st (k, n) (k, n)).map (·.1) else some (markDel fuel st (k, n))) aN st st1 ?_ h1 h
      intro st n st' hn hp hs
      split at hs
      · cases hd : diffAny fuel st (k, n) (k, n) with
        | none => rw [hd] at hs; cases hs
        | some r =>
          rw [hd] at hs
          cases hs
          exact diffAny_inv hc fuel st (k, n) (k, n) r.1 r.2 hp (hmem n hn) rfl (by rw [hd])
      · cases hs
        exact markDel_inv hc fuel st (k, n) hp (hmem n hn)
    refine foldl_opt_inv (Inv R a gen) (fun st n => if aN.contains n then some st else addAny fuel st (k, n)) bN st1 st' ?_ he hi1
    intro st n st' _ hp hs
    split at hs
    · cases hs; exact hp
    · exact addAny_inv fuel st (k, n) st' hp hs

theorem init_inv (a b : List Obj)
    (hkk : ∀ x ∈ a, ∀ y ∈ b, ∀ sx ∈ x.secs, ∀ sy ∈ y.secs, KindByKey sx.subs sy.subs) :
    Inv R a (initSt a b).gen (initSt a b) where
  sa := rfl
  sg := rfl
  kk := hkk
  mode := rfl
  tg := by intro r hr; cases hr
  cur := by
    intro rb _ _
    right
    refine ⟨rb, ?_⟩
    rw [cur_notReady]
    unfold St.isReady initSt
    rfl
  del := by intro r hr; cases hr

/-- **Targets of the body.**  `R`: any set of device references that contains the anchors of the device and is
closed under the references of the device's objects; sub-commands with equal keys reference objects of equal kind.
Then every command the engine emits before `deleteUnused` defines / changes / removes an object of `R` or an
object under a name generated for (or fixed by) the target; the `toDelete` marks stay inside `R`; and the mode
the engine believes to be in is the mode the commands really lead to. -/
theorem body_targets (a b : List Obj) (hc : Closed R a) (hanch : ∀ o ∈ a, o.anchor = true → R o.id)
    (hkk : ∀ x ∈ a, ∀ y ∈ b, ∀ sx ∈ x.secs, ∀ sy ∈ y.secs, KindByKey sx.subs sy.subs) (st : St)
    (he : ((diffAnchors (initSt a b) .tg).bind fun st => diffAnchors st .user) = some st) :
    (∀ r ∈ targets none st.out, Allowed R (initSt a b).gen r) ∧ (∀ r ∈ st.toDel, R r) ∧
      modeAfter none st.out = st.mode ∧ st.a = a := by
  cases h1 : diffAnchors (initSt a b) .tg with
  | none => rw [h1] at he; cases he
  | some st1 =>
    rw [h1] at he
    simp only [Option.bind_some] at he
    have i1 := diffAnchors_inv hc hanch .tg _ st1 (init_inv a b hkk) h1
    have i2 := diffAnchors_inv hc hanch .user st1 st i1 he
    exact ⟨i2.tg, i2.del, i2.mode, i2.sa⟩

end NA.Vpn.G
