import NA.Model.Merge
/-! Helper lemmas for C18: splitting a list at its trailing `q`-suffix, and the placement predicate. -/
namespace NA.C18

theorem upto_append_trailing (q : Entry → Bool) (l : List Entry) : upto q l ++ trailing q l = l := by
  unfold upto trailing
  rw [← List.reverse_append, List.takeWhile_append_dropWhile, List.reverse_reverse]

theorem trailing_all (q : Entry → Bool) (l : List Entry) : ∀ e ∈ trailing q l, q e = true := by
  intro e he
  unfold trailing at he
  rw [List.mem_reverse] at he
  have := List.all_takeWhile (p := q) (l := l.reverse)
  exact (List.all_eq_true.mp this) e he

/-- `upto q l` is empty or ends in an entry that does not satisfy `q`. -/
theorem upto_last (q : Entry → Bool) (l : List Entry) :
    upto q l = [] ∨ ∃ init x, upto q l = init ++ [x] ∧ q x = false := by
  unfold upto
  cases h : l.reverse.dropWhile q with
  | nil => left; simp
  | cons x rest =>
    right
    refine ⟨rest.reverse, x, by simp, ?_⟩
    have := List.head_dropWhile_not q (l := l.reverse) (by simp [h])
    simpa [h] using this

theorem insertBeforeTrailing_nil (q : Entry → Bool) (l : List Entry) : insertBeforeTrailing q l [] = l := by
  simp [insertBeforeTrailing, upto_append_trailing]

/-- If some entry of `n` does not satisfy `q`, the trailing `q`-suffix of `p ++ n` is that of `n`. -/
theorem trailing_append_of_exists (q : Entry → Bool) (p n : List Entry) (h : ∃ e ∈ n, q e = false) :
    trailing q (p ++ n) = trailing q n ∧ upto q (p ++ n) = p ++ upto q n := by
  obtain ⟨e, he, hq⟩ := h
  have hn : upto q n ≠ [] := by
    intro h0
    have := upto_append_trailing q n
    rw [h0, List.nil_append] at this
    have hall := trailing_all q n
    rw [this] at hall
    have := hall e he
    simp [hq] at this
  -- write n = init ++ [x] ++ trailing with q x = false
  rcases upto_last q n with h0 | ⟨init, x, hx, hqx⟩
  · exact absurd h0 hn
  · have hsplit : n = init ++ [x] ++ trailing q n := by
      rw [← hx]; exact (upto_append_trailing q n).symm
    have hall : ∀ y ∈ (trailing q n).reverse, q y = true := by
      intro y hy; exact trailing_all q n y (List.mem_reverse.mp hy)
    have key : (p ++ n).reverse = (trailing q n).reverse ++ (x :: (init.reverse ++ p.reverse)) := by
      conv => lhs; rw [hsplit]
      simp
    constructor
    · unfold trailing at *
      rw [key, List.takeWhile_append_of_pos hall]
      simp [hqx]
    · have : upto q (p ++ n) = (x :: (init.reverse ++ p.reverse)).reverse := by
        unfold upto
        rw [key, List.dropWhile_append_of_pos hall]
        simp [hqx]
      rw [this, hx]; simp

/-- The placement every `[APPEND]`-aware merge has to establish: the result is
`top ++ pre ++ app ++ post` where `pre ++ post` are the Netspoc entries, `post` consists of
entries satisfying `q` (deny / DROP lines) only, and `pre` is empty or ends in an entry that does not
(the last permit line). -/
def Placed (q : Entry → Bool) (top net app r : List Entry) : Prop :=
  ∃ pre post, net = pre ++ post ∧ r = top ++ pre ++ app ++ post ∧
    (∀ e ∈ post, q e = true) ∧ (pre = [] ∨ ∃ init x, pre = init ++ [x] ∧ q x = false)

theorem placed_insert (q : Entry → Bool) (top net app : List Entry) :
    Placed q top net app (top ++ insertBeforeTrailing q net app) := by
  refine ⟨upto q net, trailing q net, (upto_append_trailing q net).symm, ?_, trailing_all q net, upto_last q net⟩
  simp [insertBeforeTrailing, List.append_assoc]

theorem Placed.perm {q : Entry → Bool} {top net app r : List Entry} (h : Placed q top net app r) :
    r.Perm (top ++ net ++ app) := by
  obtain ⟨pre, post, hn, hr, _, _⟩ := h
  subst hn hr
  simp only [List.append_assoc]
  refine List.Perm.append_left top (List.Perm.append_left pre ?_)
  exact List.perm_append_comm

theorem Placed.sub_top {q : Entry → Bool} {top net app r : List Entry} (h : Placed q top net app r) :
    top.Sublist r := by
  obtain ⟨pre, post, _, hr, _, _⟩ := h
  subst hr
  simp only [List.append_assoc]
  exact List.sublist_append_left top _

theorem Placed.sub_net {q : Entry → Bool} {top net app r : List Entry} (h : Placed q top net app r) :
    net.Sublist r := by
  obtain ⟨pre, post, hn, hr, _, _⟩ := h
  subst hn hr
  simp only [List.append_assoc]
  refine List.Sublist.trans ?_ (List.sublist_append_right top _)
  exact List.Sublist.append (List.Sublist.refl pre) (List.sublist_append_right app post)

theorem Placed.sub_app {q : Entry → Bool} {top net app r : List Entry} (h : Placed q top net app r) :
    app.Sublist r := by
  obtain ⟨pre, post, _, hr, _, _⟩ := h
  subst hr
  simp only [List.append_assoc]
  refine List.Sublist.trans ?_ (List.sublist_append_right top _)
  refine List.Sublist.trans ?_ (List.sublist_append_right pre _)
  exact List.sublist_append_left app post

/-- The raw part as a whole (`top ++ app`, in file order) keeps its order. -/
theorem Placed.sub_top_app {q : Entry → Bool} {top net app r : List Entry} (h : Placed q top net app r) :
    (top ++ app).Sublist r := by
  obtain ⟨pre, post, _, hr, _, _⟩ := h
  subst hr
  simp only [List.append_assoc]
  refine List.Sublist.append (List.Sublist.refl top) ?_
  refine List.Sublist.trans ?_ (List.sublist_append_right pre _)
  exact List.sublist_append_left app post

theorem nonApp_append_appPart_perm (b : List Entry) : (nonApp b ++ appPart b).Perm b := by
  have := List.filter_append_perm (fun e : Entry => e.app) b
  unfold nonApp appPart
  exact List.perm_append_comm.trans this

/-- The two shapes of `asaSplit`: nothing is moved, or the last non-APPEND line of `b` is
`deny ip any6 any6` and goes behind the lines of `a`. -/
theorem asaSplit_cases (a b : List Entry) :
    asaSplit a b = (nonApp b, a) ∨
    ∃ init x, x.isAny6 = true ∧ nonApp b = init ++ [x] ∧ asaSplit a b = (init, a ++ [x]) := by
  unfold asaSplit
  simp only
  split
  · rename_i x hx
    split
    · rename_i h6
      right
      obtain ⟨ys, hys⟩ := List.getLast?_eq_some_iff.mp hx
      exact ⟨ys, x, h6, hys, by rw [hys]; simp⟩
    · left; rfl
  · left; rfl

theorem asaSplit_fst (a b : List Entry) :
    (asaSplit a b).1 = nonApp b ∨
    ∃ x, x.isAny6 = true ∧ nonApp b = (asaSplit a b).1 ++ [x] ∧ (asaSplit a b).2 = a ++ [x] := by
  rcases asaSplit_cases a b with h | ⟨init, x, hx, hp, h⟩
  · left; rw [h]
  · right; exact ⟨x, hx, by rw [h]; exact hp, by rw [h]⟩

theorem asaSplit_snd (a b : List Entry) :
    (asaSplit a b).2 = a ∨ ∃ x, x.isAny6 = true ∧ (asaSplit a b).2 = a ++ [x] := by
  rcases asaSplit_cases a b with h | ⟨init, x, hx, _, h⟩
  · left; rw [h]
  · right; exact ⟨x, hx, by rw [h]⟩

/-- `(top lines) ++ (Netspoc lines incl. a moved any6 line)` is a permutation of `nonApp b ++ a`. -/
theorem asaSplit_perm (a b : List Entry) :
    ((asaSplit a b).1 ++ (asaSplit a b).2).Perm (nonApp b ++ a) := by
  rcases asaSplit_cases a b with h | ⟨init, x, _, hp, h⟩
  · rw [h]
  · rw [h, hp]
    simp only [List.append_assoc]
    refine List.Perm.append_left _ ?_
    exact List.perm_append_comm

theorem perm_parts (a b r : List Entry) (h : r.Perm (nonApp b ++ a ++ appPart b)) : r.Perm (a ++ b) := by
  refine h.trans ?_
  have h2 : (nonApp b ++ a ++ appPart b).Perm (a ++ (nonApp b ++ appPart b)) := by
    simp only [List.append_assoc]
    exact (List.perm_append_comm_assoc (nonApp b) a (appPart b))
  exact h2.trans (List.Perm.append_left a (nonApp_append_appPart_perm b))


theorem mergeASA_perm (a b : List Entry) : (mergeASA a b).Perm (a ++ b) := by
  have h : Placed Entry.notPermit (asaSplit a b).1 (asaSplit a b).2 (appPart b) (mergeASA a b) :=
    placed_insert _ _ _ _
  refine h.perm.trans ?_
  exact perm_parts a b _ ((asaSplit_perm a b).append_right (appPart b))

theorem mergeIOS_perm (a b : List Entry) : (mergeIOS a b).Perm (a ++ b) :=
  perm_parts a b _ (placed_insert Entry.notPermit (nonApp b) a (appPart b)).perm

theorem mergeLinux_perm (a b : List Entry) : (mergeLinux a b).Perm (a ++ b) :=
  perm_parts a b _ (placed_insert Entry.isDrop (nonApp b) a (appPart b)).perm

theorem mergePan_perm (a b : List Entry) : (mergePan a b).Perm (a ++ b) :=
  perm_parts a b _ (List.Perm.refl _)

/-- Uniqueness of the split: `x ++ t` with `t` all `q` and `x` empty or ending in a non-`q` entry. -/
theorem split_unique (q : Entry → Bool) (x t : List Entry) (ht : ∀ e ∈ t, q e = true)
    (hx : x = [] ∨ ∃ init y, x = init ++ [y] ∧ q y = false) :
    trailing q (x ++ t) = t ∧ upto q (x ++ t) = x := by
  have hall : ∀ e ∈ t.reverse, q e = true := fun e he => ht e (List.mem_reverse.mp he)
  unfold trailing upto
  rw [List.reverse_append, List.takeWhile_append_of_pos hall, List.dropWhile_append_of_pos hall]
  rcases hx with rfl | ⟨init, y, rfl, hy⟩
  · simp
  · simp [hy]

/-- Inserting one more APPEND rule behind those already inserted (Linux, code as found). -/
theorem insert_one_more (q : Entry → Bool) (top a app : List Entry) (e : Entry)
    (happ : ∀ x ∈ app, q x = false)
    (hx : app ≠ [] ∨ upto q a ≠ [] ∨ top = [] ∨ ∃ init y, top = init ++ [y] ∧ q y = false) :
    insertBeforeTrailing q (top ++ insertBeforeTrailing q a app) [e] =
      top ++ insertBeforeTrailing q a (app ++ [e]) := by
  have hsplit : top ++ insertBeforeTrailing q a app = (top ++ upto q a ++ app) ++ trailing q a := by
    simp [insertBeforeTrailing, List.append_assoc]
  have hxx : (top ++ upto q a ++ app) = [] ∨ ∃ init y, (top ++ upto q a ++ app) = init ++ [y] ∧ q y = false := by
    by_cases h1 : app = []
    · subst h1
      by_cases h2 : upto q a = []
      · rw [h2]
        rcases hx with h | h | h | h
        · exact absurd rfl h
        · exact absurd h2 h
        · left; simp [h]
        · right; obtain ⟨init, y, hy, hq⟩ := h; exact ⟨init, y, by simp [hy], hq⟩
      · right
        rcases upto_last q a with h | ⟨init, y, hy, hq⟩
        · exact absurd h h2
        · exact ⟨top ++ init, y, by simp [hy, List.append_assoc], hq⟩
    · right
      obtain ⟨init, y, hy⟩ : ∃ init y, app = init ++ [y] :=
        ⟨app.dropLast, app.getLast h1, (List.dropLast_concat_getLast h1).symm⟩
      refine ⟨top ++ upto q a ++ init, y, by simp [hy, List.append_assoc], happ y ?_⟩
      rw [hy]; simp
  have := split_unique q (top ++ upto q a ++ app) (trailing q a) (trailing_all q a) hxx
  rw [hsplit]
  show upto q _ ++ [e] ++ trailing q _ = top ++ (upto q a ++ (app ++ [e]) ++ trailing q a)
  rw [this.1, this.2]
  simp [List.append_assoc]

theorem upto_ne_nil_of_exists (q : Entry → Bool) (a : List Entry) (h : ∃ x ∈ a, q x = false) : upto q a ≠ [] := by
  obtain ⟨x, hx, hq⟩ := h
  intro h0
  have h1 := upto_append_trailing q a
  rw [h0, List.nil_append] at h1
  have hx' : x ∈ trailing q a := by rw [h1]; exact hx
  have := trailing_all q a x hx'
  simp [hq] at this

/-- Hypothesis under which the Linux code as found behaves like the repaired code
(complement of F-C18b, F-C18c and the Linux case of F-C18d); `top`, `app`: what was placed already. -/
def LinuxOldOK (a top app b : List Entry) : Prop :=
  (top ++ nonApp b).length ≤ 1 ∧
  (∀ x ∈ (app ++ appPart b).dropLast, x.isDrop = false) ∧
  (app ++ appPart b = [] ∨ (∃ x ∈ a, x.isDrop = false) ∨ ∀ p ∈ top ++ nonApp b, p.isDrop = false)

theorem linuxOld_fold (a : List Entry) (b : List Entry) : ∀ (top app : List Entry), LinuxOldOK a top app b →
    b.foldl linuxStepOld (top ++ insertBeforeTrailing Entry.isDrop a app) =
      (nonApp b ++ top) ++ insertBeforeTrailing Entry.isDrop a (app ++ appPart b) := by
  induction b with
  | nil => intro top app _; simp [nonApp, appPart]
  | cons e b ih =>
    intro top app ⟨h1, h2, h3⟩
    cases he : e.app with
    | false =>
      have hn : nonApp (e :: b) = e :: nonApp b := by simp [nonApp, he]
      have ha : appPart (e :: b) = appPart b := by simp [appPart, he]
      rw [hn] at h1 h3
      rw [ha] at h2 h3
      have htop : top = [] := by
        cases top with
        | nil => rfl
        | cons t ts => simp at h1
      have hnb : nonApp b = [] := by
        cases hb : nonApp b with
        | nil => rfl
        | cons t ts => rw [hb, htop] at h1; simp at h1
      subst htop
      have key := ih [e] app ⟨by simp [hnb], h2, by
        rcases h3 with h | h | h
        · exact Or.inl h
        · exact Or.inr (Or.inl h)
        · refine Or.inr (Or.inr ?_)
          intro p hp
          apply h p
          simpa [hnb] using hp⟩
      simp only [List.foldl_cons, linuxStepOld, he, Bool.false_eq_true, if_false, List.nil_append]
      rw [hn, ha, hnb]
      rw [hnb] at key
      simpa using key
    | true =>
      have hn : nonApp (e :: b) = nonApp b := by simp [nonApp, he]
      have ha : appPart (e :: b) = e :: appPart b := by simp [appPart, he]
      rw [hn] at h1 h3
      rw [ha] at h2 h3
      have happ : ∀ x ∈ app, x.isDrop = false := by
        intro x hx
        apply h2 x
        rw [List.dropLast_append_of_ne_nil (by simp)]
        exact List.mem_append_left _ hx
      have hx : app ≠ [] ∨ upto Entry.isDrop a ≠ [] ∨ top = [] ∨ ∃ init y, top = init ++ [y] ∧ y.isDrop = false := by
        rcases h3 with h | h | h
        · simp at h
        · exact Or.inr (Or.inl (upto_ne_nil_of_exists _ a h))
        · cases top with
          | nil => exact Or.inr (Or.inr (Or.inl rfl))
          | cons t ts =>
            have : ts = [] := by
              cases ts with
              | nil => rfl
              | cons u us => simp at h1
            subst this
            exact Or.inr (Or.inr (Or.inr ⟨[], t, rfl, h t (by simp)⟩))
      have step := insert_one_more Entry.isDrop top a app e happ hx
      have key := ih top (app ++ [e]) ⟨h1, by simpa [List.append_assoc] using h2, by
        rcases h3 with h | h | h
        · simp at h
        · exact Or.inr (Or.inl h)
        · exact Or.inr (Or.inr h)⟩
      simp only [List.foldl_cons, linuxStepOld, he, if_true]
      rw [step, key, hn, ha]
      simp [List.append_assoc]

/-- Code as found = repaired code under `LinuxOldOK`. -/
theorem mergeLinuxOld_eq (a b : List Entry) (h : LinuxOldOK a [] [] b) : mergeLinuxOld a b = mergeLinux a b := by
  have := linuxOld_fold a b [] [] h
  simp only [List.nil_append, insertBeforeTrailing_nil, List.append_nil] at this
  unfold mergeLinuxOld mergeLinux
  exact this

end NA.C18
