import NA.Proofs.C09Saved
/-!
# C09: facts that stay true once established, and an analysis of what holds on a normal exit

`SExt s s'`: `s'` has the same change script as `s` and a trace that extends the trace of `s`.
Every program without `setPlan` only does that (`exec_stable`).
-/
namespace NA.C09
open NA.Sess NA.Apply NA.Spec.C09

def noSetPlan : Sess → Bool
  | .setPlan => false
  | .ite _ _ t e => noSetPlan t && noSetPlan e
  | .seq a b => noSetPlan a && noSetPlan b
  | .forEach b => noSetPlan b
  | .defer c b => noSetPlan c && noSetPlan b
  | .loopN _ b => noSetPlan b
  | .loopFuel b => noSetPlan b
  | .call _ _ b => noSetPlan b
  | .scope _ b => noSetPlan b
  | .when _ b => noSetPlan b
  | _ => true

def SExt (s s' : St) : Prop := s'.plan = s.plan ∧ s'.ipt = s.ipt ∧ ∃ l, s'.tr = s.tr ++ l

theorem SExt.refl (s : St) : SExt s s := ⟨rfl, rfl, [], by simp⟩
theorem SExt.trans {a b c : St} (h1 : SExt a b) (h2 : SExt b c) : SExt a c := by
  obtain ⟨p1, i1, l1, e1⟩ := h1
  obtain ⟨p2, i2, l2, e2⟩ := h2
  exact ⟨p2.trans p1, i2.trans i1, l1 ++ l2, by rw [e2, e1, List.append_assoc]⟩
theorem SExt.of_tr {s s' : St} (h : s'.tr = s.tr) (hp : s'.plan = s.plan := by rfl) (hi : s'.ipt = s.ipt := by rfl) :
    SExt s s' := ⟨hp, hi, [], by simp [h]⟩
theorem SExt.snoc {s s' : St} (e : Ev) (h : s'.tr = s.tr ++ [e]) (hp : s'.plan = s.plan := by rfl)
    (hi : s'.ipt = s.ipt := by rfl) : SExt s s' := ⟨hp, hi, [e], h⟩

theorem recvLoop_sext (dev : Dev) (ρ : Role) (p : Pat) : ∀ (n : Nat) (s : St), SExt s (recvLoop dev ρ p n s) := by
  intro n
  induction n with
  | zero => intro s; exact SExt.of_tr rfl
  | succ n ih =>
    intro s
    simp only [recvLoop]
    split
    · exact SExt.snoc _ rfl
    · split
      · exact (SExt.snoc (s' := { s with tr := s.tr ++ [Ev.skipped (dev s.tr)] }) _ rfl rfl).trans (ih _)
      · exact SExt.snoc _ rfl

theorem each_sext (f : List String → St → St) (hf : ∀ pk s, SExt s (f pk s)) :
    ∀ (l : List (List String)) (s : St), SExt s (each f l s) := by
  intro l
  induction l with
  | nil => intro s; exact SExt.refl s
  | cons pk rest ih => intro s; exact (hf pk s).trans (ih _)

theorem iter_sext (f : St → St) (hf : ∀ s, SExt s (f s)) : ∀ (n : Nat) (s : St), SExt s (iter n f s) := by
  intro n
  induction n with
  | zero =>
    intro s
    simp only [iter]
    split
    · exact SExt.of_tr rfl
    · exact SExt.refl s
  | succ n ih =>
    intro s
    simp only [iter]
    split
    · split
      · exact (hf s).trans ((SExt.of_tr (s' := { f s with mode := Mode.run }) rfl).trans (ih _))
      · exact (hf s).trans (ih _)
      · exact hf s
    · exact SExt.refl s

theorem exec_stable (p : Sess) (hq : noSetPlan p = true) : ∀ (env : Env) (s : St), SExt s (exec p env s) := by
  induction p with
  | skip => intro env s; exact SExt.refl s
  | send ρ t =>
    intro env s
    simp only [exec]
    split
    · exact SExt.snoc _ rfl
    · exact SExt.refl s
  | recv ρ p =>
    intro env s
    simp only [exec]
    split
    · exact recvLoop_sext _ _ _ _ _
    · exact SExt.refl s
  | recvMore p =>
    intro env s
    simp only [exec]
    split
    · exact SExt.of_tr rfl
    · exact SExt.refl s
  | roundTrip ρ t r =>
    intro env s
    simp only [exec]
    split
    · split
      · exact ((SExt.snoc (s' := { s with tr := s.tr ++ [Ev.sent ρ (t.lines env)] }) _ rfl).trans
          (recvLoop_sext _ _ _ _ _)).trans
          ((SExt.snoc (s' := { recvLoop env.dev ρ Pat.http 1 { s with tr := s.tr ++ [Ev.sent ρ (t.lines env)] } with
              tr := (recvLoop env.dev ρ Pat.http 1 { s with tr := s.tr ++ [Ev.sent ρ (t.lines env)] }).tr ++
                [Ev.sent ρ (t.lines env)] }) _ rfl).trans (recvLoop_sext _ _ _ _ _))
      · exact (SExt.snoc (s' := { s with tr := s.tr ++ [Ev.sent ρ (t.lines env)] }) _ rfl).trans
          (recvLoop_sext _ _ _ _ _)
    · exact SExt.refl s
  | ite c l t e iht ihe =>
    intro env s
    simp only [noSetPlan, Bool.and_eq_true] at hq
    simp only [exec]
    split
    · split
      · exact iht hq.1 env s
      · exact ihe hq.2 env s
    · exact SExt.refl s
  | abort l =>
    intro env s
    simp only [exec]
    split
    · exact SExt.snoc _ rfl
    · exact SExt.refl s
  | warn l =>
    intro env s
    simp only [exec]
    split
    · exact SExt.snoc _ rfl
    · exact SExt.refl s
  | mark e =>
    intro env s
    simp only [exec]
    split
    · exact SExt.snoc _ rfl
    · exact SExt.refl s
  | seq a b iha ihb =>
    intro env s
    simp only [noSetPlan, Bool.and_eq_true] at hq
    simp only [exec]
    exact (iha hq.1 env s).trans (ihb hq.2 env _)
  | forEach b ih =>
    intro env s
    simp only [exec]
    split
    · exact each_sext _ (fun pk st => ih hq _ st) _ _
    · exact SExt.refl s
  | defer c b ihc ihb =>
    intro env s
    simp only [noSetPlan, Bool.and_eq_true] at hq
    simp only [exec]
    split
    · split
      · exact ihb hq.2 env s
      · split
        · exact ((ihb hq.2 env s).trans (SExt.of_tr (s' := { exec b env s with mode := Mode.run }) rfl)).trans
            ((ihc hq.1 env _).trans (SExt.of_tr rfl))
        · exact ((ihb hq.2 env s).trans (SExt.of_tr (s' := { exec b env s with mode := Mode.run }) rfl)).trans
            (ihc hq.1 env _)
    · exact SExt.refl s
  | loopN n b ih =>
    intro env s
    simp only [exec]
    exact iter_sext _ (fun st => ih hq env st) _ _
  | loopFuel b ih =>
    intro env s
    simp only [exec]
    exact iter_sext _ (fun st => ih hq env st) _ _
  | cont =>
    intro env s
    simp only [exec]
    split
    · exact SExt.of_tr rfl
    · exact SExt.refl s
  | ret v l =>
    intro env s
    simp only [exec]
    split
    · exact SExt.of_tr rfl
    · exact SExt.refl s
  | setCtr n =>
    intro env s
    simp only [exec]
    split
    · exact SExt.of_tr rfl
    · exact SExt.refl s
  | decCtr =>
    intro env s
    simp only [exec]
    split
    · exact SExt.of_tr rfl
    · exact SExt.refl s
  | setPlan => simp [noSetPlan] at hq
  | call n l b ih =>
    intro env s
    simp only [exec]
    split
    · split
      · exact (ih hq env s).trans (SExt.of_tr rfl)
      · exact ih hq env s
    · exact SExt.refl s
  | scope c b ih =>
    intro env s
    simp only [exec]
    exact ih hq env s
  | «when» c b ih =>
    intro env s
    simp only [exec]
    split
    · split
      · exact ih hq env s
      · exact SExt.refl s
    · exact SExt.refl s
  | assumeBanner =>
    intro env s
    simp only [exec]
    split
    · exact SExt.of_tr rfl
    · exact SExt.refl s



/-! ## the facts -/

/-- the start-up file `w` was copied and the copy succeeded -/
def scpConfirmed (w : String) (tr : List Ev) : Prop :=
  ∃ pre r post, tr = pre ++ Ev.sent .save ["scp " ++ w] :: Ev.got .save r :: post ∧ r.arr = .full

/-- every command of the change script is on the wire, in order -/
def SentAll (s : St) : Prop := s.plan.Sublist (changeSends s.tr)
/-- if there is anything to change, the device confirmed the save / commit -/
def SavedV (s : St) : Prop := (!s.plan.isEmpty || s.ipt) = true → saveConfirmed s.tr = true
/-- Linux: if routes changed, the routing start-up file was copied successfully -/
def SavedR (s : St) : Prop := s.plan.isEmpty = false → scpConfirmed "routing" s.tr
/-- Linux: if iptables changed, the packet-filter start-up file was copied successfully -/
def SavedT (s : St) : Prop := s.ipt = true → scpConfirmed "iptables" s.tr
/-- Linux: if iptables changed, the last activation command (`mv` of the new packet-filter file) was sent -/
def MvSent (s : St) : Prop :=
  s.ipt = true → ["mv -f /etc/network/packet-filter.new /etc/network/packet-filter"] ∈ changeSends s.tr
/-- compare: if a difference was computed, `comp: *** device changed ***` is in the log -/
def ChangedLogged (s : St) : Prop := (!s.plan.isEmpty || s.ipt) = true → s.tr.contains Ev.logChanged = true

structure Facts where
  S : Bool
  V : Bool
  R : Bool
  T : Bool
  C : Bool
  M : Bool
  deriving DecidableEq, Repr

def Facts.top : Facts := ⟨true, true, true, true, true, true⟩
def Facts.bot : Facts := ⟨false, false, false, false, false, false⟩
def Facts.meet (a b : Facts) : Facts := ⟨a.S && b.S, a.V && b.V, a.R && b.R, a.T && b.T, a.C && b.C, a.M && b.M⟩
def Facts.join (a b : Facts) : Facts := ⟨a.S || b.S, a.V || b.V, a.R || b.R, a.T || b.T, a.C || b.C, a.M || b.M⟩
def Facts.le (need have_ : Facts) : Bool :=
  (!need.S || have_.S) && (!need.V || have_.V) && (!need.R || have_.R) && (!need.T || have_.T) && (!need.C || have_.C) && (!need.M || have_.M)

structure Holds (f : Facts) (st : St) : Prop where
  hS : f.S = true → SentAll st
  hV : f.V = true → SavedV st
  hR : f.R = true → SavedR st
  hT : f.T = true → SavedT st
  hC : f.C = true → ChangedLogged st
  hM : f.M = true → MvSent st

theorem Holds.bot (s : St) : Holds Facts.bot s :=
  ⟨by simp [Facts.bot], by simp [Facts.bot], by simp [Facts.bot], by simp [Facts.bot], by simp [Facts.bot], by simp [Facts.bot]⟩

theorem Holds.meet_left {a b : Facts} {s : St} (h : Holds a s) : Holds (a.meet b) s :=
  ⟨fun x => h.hS (by simp [Facts.meet] at x; exact x.1), fun x => h.hV (by simp [Facts.meet] at x; exact x.1),
   fun x => h.hR (by simp [Facts.meet] at x; exact x.1), fun x => h.hT (by simp [Facts.meet] at x; exact x.1),
   fun x => h.hC (by simp [Facts.meet] at x; exact x.1), fun x => h.hM (by simp [Facts.meet] at x; exact x.1)⟩

theorem Holds.meet_right {a b : Facts} {s : St} (h : Holds b s) : Holds (a.meet b) s :=
  ⟨fun x => h.hS (by simp [Facts.meet] at x; exact x.2), fun x => h.hV (by simp [Facts.meet] at x; exact x.2),
   fun x => h.hR (by simp [Facts.meet] at x; exact x.2), fun x => h.hT (by simp [Facts.meet] at x; exact x.2),
   fun x => h.hC (by simp [Facts.meet] at x; exact x.2), fun x => h.hM (by simp [Facts.meet] at x; exact x.2)⟩

theorem Holds.join {a b : Facts} {s : St} (ha : Holds a s) (hb : Holds b s) : Holds (a.join b) s := by
  refine ⟨fun x => ?_, fun x => ?_, fun x => ?_, fun x => ?_, fun x => ?_, fun x => ?_⟩ <;> simp [Facts.join] at x <;> rcases x with x | x
  · exact ha.hS x
  · exact hb.hS x
  · exact ha.hV x
  · exact hb.hV x
  · exact ha.hR x
  · exact hb.hR x
  · exact ha.hT x
  · exact hb.hT x
  · exact ha.hC x
  · exact hb.hC x
  · exact ha.hM x
  · exact hb.hM x

theorem Holds.of_le {need have_ : Facts} {s : St} (hle : Facts.le need have_ = true) (h : Holds have_ s) : Holds need s := by
  simp only [Facts.le, Bool.and_eq_true, Bool.or_eq_true, Bool.not_eq_true'] at hle
  obtain ⟨⟨⟨⟨⟨h1, h2⟩, h3⟩, h4⟩, h5⟩, h6⟩ := hle
  refine ⟨fun x => ?_, fun x => ?_, fun x => ?_, fun x => ?_, fun x => ?_, fun x => ?_⟩
  · rcases h1 with h1 | h1; · rw [x] at h1; cases h1
    exact h.hS h1
  · rcases h2 with h2 | h2; · rw [x] at h2; cases h2
    exact h.hV h2
  · rcases h3 with h3 | h3; · rw [x] at h3; cases h3
    exact h.hR h3
  · rcases h4 with h4 | h4; · rw [x] at h4; cases h4
    exact h.hT h4
  · rcases h5 with h5 | h5; · rw [x] at h5; cases h5
    exact h.hC h5
  · rcases h6 with h6 | h6; · rw [x] at h6; cases h6
    exact h.hM h6

theorem saveConfirmed_append (a l : List Ev) (h : saveConfirmed a = true) : saveConfirmed (a ++ l) = true :=
  saveConfirmed_mono a l h

theorem scpConfirmed_append (w : String) (a l : List Ev) (h : scpConfirmed w a) : scpConfirmed w (a ++ l) := by
  obtain ⟨pre, r, post, he, hr⟩ := h
  exact ⟨pre, r, post ++ l, by rw [he]; simp, hr⟩

/-- facts stay true while the script is the same and the trace only grows -/
theorem Holds.stable {f : Facts} {s s' : St} (hx : SExt s s') (h : Holds f s) : Holds f s' := by
  obtain ⟨hp, hi, l, ht⟩ := hx
  refine ⟨fun x => ?_, fun x => ?_, fun x => ?_, fun x => ?_, fun x => ?_, fun x => ?_⟩
  · have := h.hS x
    unfold SentAll at *
    rw [hp, ht, changeSends_append]
    exact this.trans (List.sublist_append_left _ _)
  · have := h.hV x
    unfold SavedV at *
    rw [hp, hi, ht]
    intro hc
    exact saveConfirmed_append _ _ (this hc)
  · have := h.hR x
    unfold SavedR at *
    rw [hp, ht]
    intro hc
    exact scpConfirmed_append _ _ _ (this hc)
  · have := h.hT x
    unfold SavedT at *
    rw [hi, ht]
    intro hc
    exact scpConfirmed_append _ _ _ (this hc)
  · have := h.hC x
    unfold ChangedLogged at *
    rw [hp, hi, ht]
    intro hc
    have h1 := this hc
    simp only [List.contains_iff_mem, List.mem_append] at h1 ⊢
    exact Or.inl h1
  · have := h.hM x
    unfold MvSent at *
    rw [hi, ht, changeSends_append]
    intro hc
    exact List.mem_append_left _ (this hc)

/-- nothing to do: every fact holds -/
theorem Holds.nothing (f : Facts) (s : St) (hp : s.plan.isEmpty = true) (hi : s.ipt = false) : Holds f s := by
  have hnil : s.plan = [] := by simpa using hp
  refine ⟨fun _ => ?_, fun _ => ?_, fun _ => ?_, fun _ => ?_, fun _ => ?_, fun _ => ?_⟩
  · unfold SentAll; rw [hnil]; exact List.nil_sublist _
  · unfold SavedV; rw [hp, hi]; simp
  · unfold SavedR; rw [hp]; simp
  · unfold SavedT; rw [hi]; simp
  · unfold ChangedLogged; rw [hp, hi]; simp
  · unfold MvSent; rw [hi]; simp

end NA.C09
