/-
C11: reachability in a finite call graph, checked by the kernel.

`closed g n` — every edge of `g` that starts below `n` ends below `n` — is a certificate that
the set {0 … n-1} is closed under the call relation; `closed_sound` lifts it to: nothing at or
above `n` is reachable from anything below `n`.  The translator numbers the nodes so that the
nodes reachable from the compare roots come first; Lean only has to check the certificate
(linear in the number of edges), not to compute a transitive closure.
-/
namespace NA.C11

abbrev Graph := List (Nat × List Nat)

/-- `b` is reachable from `a` by zero or more call edges. -/
inductive Reach (g : Graph) : Nat → Nat → Prop
  | refl (a : Nat) : Reach g a a
  | step {a b c : Nat} (succs : List Nat) : (a, succs) ∈ g → b ∈ succs → Reach g b c → Reach g a c

def closed (g : Graph) (n : Nat) : Bool :=
  g.all fun e => !(decide (e.1 < n)) || e.2.all fun b => decide (b < n)

theorem closed_sound (g : Graph) (n : Nat) (h : closed g n = true) :
    ∀ a b, Reach g a b → a < n → b < n := by
  intro a b hr
  induction hr with
  | refl a => exact id
  | step succs hmem hb _ ih =>
    intro ha
    apply ih
    have := (List.all_eq_true.mp h) _ hmem
    simp only [Bool.or_eq_true, Bool.not_eq_true', decide_eq_false_iff_not, List.all_eq_true,
      decide_eq_true_eq] at this
    cases this with
    | inl hn => exact absurd ha hn
    | inr hall => exact hall _ hb

/-- Nothing at or above `n` is reachable from below `n`. -/
theorem unreachable_of_closed (g : Graph) (n : Nat) (h : closed g n = true) (a t : Nat)
    (ha : a < n) (ht : n ≤ t) : ¬ Reach g a t := by
  intro hr
  have := closed_sound g n h a t hr ha
  omega

/-- consecutive nodes of the list are joined by edges of `g` -/
def isPath (g : Graph) : List Nat → Bool
  | [] => true
  | [_] => true
  | a :: b :: rest => (g.any fun e => e.1 == a && e.2.contains b) && isPath g (b :: rest)

theorem path_reach (g : Graph) : ∀ (l : List Nat) (a : Nat), isPath g (a :: l) = true →
    Reach g a ((a :: l).getLast (by simp)) := by
  intro l
  induction l with
  | nil => intro a _; exact Reach.refl a
  | cons b rest ih =>
    intro a h
    simp only [isPath, Bool.and_eq_true, List.any_eq_true] at h
    obtain ⟨⟨e, he, hab⟩, hrest⟩ := h
    simp only [Bool.and_eq_true, beq_iff_eq, List.contains_iff_mem] at hab
    have hr := ih b hrest
    have hl : (a :: b :: rest).getLast (by simp) = (b :: rest).getLast (by simp) := by
      simp [List.getLast_cons]
    rw [hl]
    have hmem : (a, e.2) ∈ g := by
      have : e = (a, e.2) := by rw [← hab.1]
      rw [← this]; exact he
    exact Reach.step e.2 hmem hab.2 hr

end NA.C11
