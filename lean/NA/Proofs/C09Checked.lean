import NA.Proofs.C09Console
/-!
# C09: exchanges whose reply the code inspects beyond arrival (change commands, exit status,
save confirmation) — console backends
-/
namespace NA.C09
open NA.Sess NA.Apply NA.Spec.C09

theorem arr_full_arrives (r : Reply) (h : r.arr = .full) : promptArrives r = true := by
  simp [promptArrives, h]

section
variable (b : Backend) (hb : Backend.isConsole b = true)
include hb

theorem bad_change_ok (r : Reply) (harr : r.arr = .full) (hecho : r.echoOk = true) (hout : r.out ≠ .text) :
    badChecked b .change r = false := by
  have : (r.out == Out.text) = false := by
    cases h : r.out <;> simp_all
  have ha := arr_full_arrives r harr
  simp [badChecked, ha, hb, hecho, this]

theorem bad_probe_ok (r : Reply) (harr : r.arr = .full) (hecho : r.echoOk = true) (h0 : Flag.status0 ∈ r.flags) :
    badChecked b .probe r = false := by
  have := arr_full_arrives r harr
  simp [badChecked, this, hb, hecho]
  simpa using h0

/-- after a wait whose reply is still unchecked: the abort -/
theorem pd_abort_jv {ρ : Role} {s1 : St} (h : Pd (badChecked b) ρ s1) (e : Bool) :
    Jv (badChecked b) { s1 with tr := s1.tr ++ [Ev.logErr], mode := Mode.panic, errv := e } := by
  refine ⟨?_, by simp, by simp, by simp⟩
  show NA.Spec.C09.safe (badChecked b) (s1.tr ++ [Ev.logErr]) = true
  rw [safe_append_quiet _ _ _ (by simp [isChangeOrSave])]; exact h.safe

theorem presV_asaCheck_change : PresV (badChecked b) (asaCheck .change) := by
  intro env s hj hm
  have h1 := outputEcho_spec (badChecked b) .change env s hj hm
  simp only [asaCheck, asaCheckBody, exec_call _ _ _ _ _ hm, exec_seq]
  rw [exec_seq] at h1
  generalize exec StripEcho env (exec (GetOutput .change) env s) = s1 at h1
  cases h1 with
  | aborted h hp =>
    have hne : s1.mode ≠ .run := by rw [hp]; decide
    simp only [exec_nonrun _ _ _ hne, hp]
    exact h
  | ok h harr hecho he hc =>
    have hm1 := h.mode
    cases hout : s1.last.out with
    | none =>
      simp [exec, hm1, evalCond, hout]
      exact jv_of_clean _ (h.clean _ (bad_change_ok b hb _ harr hecho (by simp [hout])))
    | info =>
      simp [exec, hm1, evalCond, hout]
      exact jv_of_clean _ (h.clean _ (bad_change_ok b hb _ harr hecho (by simp [hout])))
    | warning =>
      simp [exec, hm1, evalCond, hout]
      have hc := h.clean _ (bad_change_ok b hb _ harr hecho (by simp [hout]))
      exact jv_of_clean _ (clean_append _ hc.1 hc.2 (by simp [faulted, isBadGot]))
    | text =>
      simp [exec, hm1, evalCond, hout]
      exact pd_abort_jv b hb h _


theorem presV_iosCheck_change : PresV (badChecked b) (iosCheck .change) := by
  intro env s hj hm
  have h1 := outputEcho_spec (badChecked b) .change env s hj hm
  simp only [iosCheck, iosCheckBody, exec_call _ _ _ _ _ hm, exec_seq, exec_op]
  rw [exec_seq] at h1
  -- the order in the source is GetOutput, stripReloadBanner (no banner: identity), StripEcho
  generalize exec StripEcho env (exec (GetOutput .change) env s) = s1 at h1
  cases h1 with
  | aborted h hp =>
    have hne : s1.mode ≠ .run := by rw [hp]; decide
    simp only [exec_nonrun _ _ _ hne, hp]
    exact h
  | ok h harr hecho he hc =>
    have hm1 := h.mode
    cases hout : s1.last.out with
    | none =>
      simp [exec, hm1, evalCond, hout]
      exact jv_of_clean _ (h.clean _ (bad_change_ok b hb _ harr hecho (by simp [hout])))
    | info =>
      simp [exec, hm1, evalCond, hout]
      exact jv_of_clean _ (h.clean _ (bad_change_ok b hb _ harr hecho (by simp [hout])))
    | warning =>
      simp [exec, hm1, evalCond, hout]
      have hc := h.clean _ (bad_change_ok b hb _ harr hecho (by simp [hout]))
      exact jv_of_clean _ (clean_append _ hc.1 hc.2 (by simp [faulted, isBadGot]))
    | text =>
      simp [exec, hm1, evalCond, hout]
      exact pd_abort_jv b hb h _

theorem presV_linuxCheck_change : PresV (badChecked b) (linuxCheck .change) := by
  intro env s hj hm
  have h1 := outputEcho_spec (badChecked b) .change env s hj hm
  simp only [linuxCheck, linuxCheckBody, exec_call _ _ _ _ _ hm, exec_seq]
  rw [exec_seq] at h1
  generalize exec StripEcho env (exec (GetOutput .change) env s) = s1 at h1
  cases h1 with
  | aborted h hp =>
    have hne : s1.mode ≠ .run := by rw [hp]; decide
    simp only [exec_nonrun _ _ _ hne, hp]
    exact h
  | ok h harr hecho he hc =>
    have hm1 := h.mode
    cases hout : s1.last.out with
    | none =>
      simp [exec, hm1, evalCond, hout]
      exact jv_of_clean _ (h.clean _ (bad_change_ok b hb _ harr hecho (by simp [hout])))
    | info =>
      simp [exec, hm1, evalCond, hout]
      exact pd_abort_jv b hb h _
    | warning =>
      simp [exec, hm1, evalCond, hout]
      exact pd_abort_jv b hb h _
    | text =>
      simp [exec, hm1, evalCond, hout]
      exact pd_abort_jv b hb h _

/-- Linux: `echo $?` must answer `0` -/
theorem presV_linuxProbe :
    PresV (badChecked b)
      (GetCmdOutput .probe (.lit "echo $?") ["echo $?"] ;;
       .ite (.not (.flag .status0)) "$r.conn.GetCmdOutput(\"echo $?\") != \"0\\n\""
         (.abort ["%s failed (exit status)", "_"]) .skip) := by
  intro env s hj hm
  have h1 := getCmdOutput_spec (badChecked b) .probe (.lit "echo $?") ["echo $?"] env s hj hm
  rw [exec_seq]
  generalize exec (GetCmdOutput .probe (.lit "echo $?") ["echo $?"]) env s = s1 at h1
  cases h1 with
  | aborted h hp =>
    have hne : s1.mode ≠ .run := by rw [hp]; decide
    simp only [exec_nonrun _ _ _ hne]
    exact h
  | ok h harr hecho he hc =>
    have hm1 := h.mode
    by_cases h0 : Flag.status0 ∈ s1.last.flags
    · simp [exec, hm1, evalCond, h0]
      exact jv_of_clean _ (h.clean _ (bad_probe_ok b hb _ harr hecho h0))
    · simp [exec, hm1, evalCond, h0]
      exact pd_abort_jv b hb h _

theorem bad_save_ok (r : Reply) (harr : promptArrives r = true) (hc : saveContent r = true) :
    badChecked b .save r = false := by
  simp [badChecked, harr, hb, hc]

theorem saveContent_of_flag (r : Reply) (f : Flag)
    (hf : f = .okMark ∨ f = .overwrite ∨ f = .openFailed ∨ f = .pend ∨ f = .jobOk ∨ f = .noChanges ∨ f = .msgEmpty)
    (h : f ∈ r.flags) : saveContent r = true := by
  simp only [saveContent, List.any_eq_true]
  refine ⟨f, h, ?_⟩
  rcases hf with rfl | rfl | rfl | rfl | rfl | rfl | rfl <;> simp

/-- ASA: `write memory` must answer `[OK]` -/
theorem presV_asaSave :
    PresV (badChecked b)
      (GetCmdOutput .save (.lit "write memory") ["write memory"] ;;
       .ite (.not (.flag .okMark)) "¬strings.Contains($GetCmdOutput, \"[OK]\")"
         (.abort ["Command 'write memory' failed, missing [OK] in output:\n%s", "_"]) .skip) := by
  intro env s hj hm
  have h1 := getCmdOutput_spec (badChecked b) .save (.lit "write memory") ["write memory"] env s hj hm
  rw [exec_seq]
  generalize exec (GetCmdOutput .save (.lit "write memory") ["write memory"]) env s = s1 at h1
  cases h1 with
  | aborted h hp =>
    have hne : s1.mode ≠ .run := by rw [hp]; decide
    simp only [exec_nonrun _ _ _ hne]
    exact h
  | ok h harr hecho he hc =>
    have hm1 := h.mode
    by_cases h0 : Flag.okMark ∈ s1.last.flags
    · simp [exec, hm1, evalCond, h0]
      exact jv_of_clean _ (h.clean _ (bad_save_ok b hb _ (arr_full_arrives _ harr)
        (saveContent_of_flag b hb _ .okMark (Or.inl rfl) h0)))
    · simp [exec, hm1, evalCond, h0]
      exact pd_abort_jv b hb h _


omit hb in
theorem issueCmd_spec (bad : Role → Reply → Bool) (ρ : Role) (t : Txt) (p : Pat) (l : List String) (env : Env) (s : St)
    (hj : J bad s) (hm : s.mode = .run) : Awaited bad ρ p s (exec (IssueCmd ρ t p l) env s) := by
  have hs0 : Jv bad (exec (Send ρ t) env s) := presV_call _ (presV_send _ ρ t) env s hj hm
  have hm0 : (exec (Send ρ t) env s).mode = .run := send_run ρ t _ env s hm
  have hc0 : (exec (Send ρ t) env s).ctr = s.ctr := by simp [Send, sendBody, exec, hm]
  have h1 : Awaited bad ρ p (exec (Send ρ t) env s) (exec (waitPrompt ρ p) env (exec (Send ρ t) env s)) :=
    waitCall_spec bad _ _ _ ρ p env _ hs0.toJ hm0
  simp only [IssueCmd, issueCmdBody, exec_seq, exec_call _ _ _ _ _ hm]
  generalize exec (waitPrompt ρ p) env (exec (Send ρ t) env s) = s1 at h1
  cases h1 with
  | aborted h hp =>
    have hne : s1.mode ≠ .run := by rw [hp]; decide
    simp only [exec_nonrun _ _ _ hne, hp]
    exact .aborted h hp
  | ok h hpm he hc =>
    have hm1 := h.mode
    obtain ⟨tr0, hsplit, hs0', hf0⟩ := h.split
    simp only [exec, hm1, if_true]
    exact .ok ⟨rfl, tr0, hsplit, hs0', hf0⟩ hpm he (hc.trans hc0)

/-- IOS writeMem: what follows once the answer to `write memory` (or to the confirmation) is there -/
theorem writeMem_tail (env : Env) (sX : St) (h : Pd (badChecked b) .save sX) (ha : promptArrives sX.last = true) :
    Jv (badChecked b) (exec (
      .ite (.flag .okMark) "strings.Contains($IssueCmd, \"[OK]\")" (.ret .none []) .skip ;;
      .ite (.flag .openFailed) "strings.Contains($IssueCmd, \"startup-config file open failed\")"
        (.ite .ctrPos "$v > 0" (.decCtr ;; .cont) .skip ;;
         .abort ["write mem: startup-config open failed - giving up"]) .skip ;;
      .abort ["write mem: unexpected result: %s", "_"]) env sX) := by
  have hm1 := h.mode
  by_cases hok : Flag.okMark ∈ sX.last.flags
  · have hc := h.clean _ (bad_save_ok b hb _ ha (saveContent_of_flag b hb _ .okMark (Or.inl rfl) hok))
    simp [exec, hm1, evalCond, hok]
    exact jv_of_clean _ hc
  · by_cases hof : Flag.openFailed ∈ sX.last.flags
    · have hc := h.clean _ (bad_save_ok b hb _ ha (saveContent_of_flag b hb _ .openFailed (Or.inr (Or.inr (Or.inl rfl))) hof))
      by_cases hctr : sX.ctr > 0
      · simp [exec, hm1, evalCond, hok, hof, hctr]
        exact jv_of_clean _ hc
      · simp [exec, hm1, evalCond, hok, hof, hctr]
        exact jv_of_clean _ (clean_append _ hc.1 hc.2 (by simp [faulted, isBadGot]))
    · simp [exec, hm1, evalCond, hok, hof]
      exact pd_abort_jv b hb h _

theorem presV_iosWriteMemRound :
    PresV (badChecked b) (
      IssueCmd .save (.lit "write memory") (.stdOr [.confirm]) ["write memory", "#[ ]?|\\[confirm\\]"] ;;
      .ite (.flag .overwrite) "strings.Contains($IssueCmd, \"Overwrite the previous NVRAM configuration\")"
        (GetCmdOutput .save (.lit "") [""]) .skip ;;
      .ite (.flag .okMark) "strings.Contains($IssueCmd, \"[OK]\")" (.ret .none []) .skip ;;
      .ite (.flag .openFailed) "strings.Contains($IssueCmd, \"startup-config file open failed\")"
        (.ite .ctrPos "$v > 0" (.decCtr ;; .cont) .skip ;;
         .abort ["write mem: startup-config open failed - giving up"]) .skip ;;
      .abort ["write mem: unexpected result: %s", "_"]) := by
  intro env s hj hm
  have h1 := issueCmd_spec (badChecked b) .save (.lit "write memory") (.stdOr [.confirm])
    ["write memory", "#[ ]?|\\[confirm\\]"] env s hj hm
  rw [exec_seq]
  generalize exec (IssueCmd .save (.lit "write memory") (.stdOr [.confirm]) ["write memory", "#[ ]?|\\[confirm\\]"]) env s = s1 at h1
  cases h1 with
  | aborted h hp =>
    have hne : s1.mode ≠ .run := by rw [hp]; decide
    simp only [exec_nonrun _ _ _ hne]
    exact h
  | ok h hpm he hc =>
    have hm1 := h.mode
    have ha := matches_arrives _ (by rfl) _ hpm
    rw [exec_seq, exec_ite _ _ _ _ _ _ hm1]
    by_cases hov : Flag.overwrite ∈ s1.last.flags
    · have hcl := h.clean _ (bad_save_ok b hb _ ha (saveContent_of_flag b hb _ .overwrite (Or.inr (Or.inl rfl)) hov))
      have h2 := getCmdOutput_spec (badChecked b) .save (.lit "") [""] env s1 (jv_of_clean _ hcl).toJ hm1
      simp only [evalCond, List.contains_iff_mem, hov, decide_true, if_true]
      generalize exec (GetCmdOutput .save (.lit "") [""]) env s1 = s2 at h2
      cases h2 with
      | aborted h' hp' =>
        have hne : s2.mode ≠ .run := by rw [hp']; decide
        simp only [exec_nonrun _ _ _ hne]
        exact h'
      | ok h' harr' _ _ _ => exact writeMem_tail b hb env s2 h' (arr_full_arrives _ harr')
    · simp only [evalCond, List.contains_iff_mem, hov, decide_false, Bool.false_eq_true, if_false, exec_skip]
      exact writeMem_tail b hb env s1 h ha

/-- Linux: the scp of a start-up file (not simulated: one exchange whose failure aborts) -/
theorem presV_linuxScpRun (hl : b = .linux) (what : String) :
    PresV (badChecked b)
      (.call "Run" [] (.send .save (.lit ("scp " ++ what)) ;; .recv .save .http) ;;
       .ite .err "err != nil" (.abort ["%s failed: %v", "_", "err"]) .skip) := by
  intro env s hj hm
  have hs0 : Jv (badChecked b) (exec (.send .save (.lit ("scp " ++ what))) env s) := presV_send _ _ _ env s hj hm
  have hm0 : (exec (.send .save (.lit ("scp " ++ what))) env s).mode = .run := by simp [exec, hm]
  have hw := recv_waited (badChecked b) .save .http env _ hs0.toJ hm0
  simp only [exec_seq, exec_call _ _ _ _ _ hm]
  generalize exec (.recv .save .http) env (exec (.send .save (.lit ("scp " ++ what))) env s) = s1 at hw
  cases hw with
  | got h he =>
    have hm1 := h.mode
    cases hmt : Pat.http.matches s1.last with
    | true =>
      have he' : s1.errv = false := by rw [he, hmt]; rfl
      have harr : s1.last.arr = .full := by simpa [Pat.matches] using hmt
      have hg : badChecked b .save s1.last = false := by
        subst hl
        simp [badChecked, arr_full_arrives _ harr, Backend.isConsole]
      simp [exec, hm1, evalCond, he']
      exact jv_of_clean _ (h.clean _ hg)
    | false =>
      have he' : s1.errv = true := by rw [he, hmt]; rfl
      simp [exec, hm1, evalCond, he']
      exact pd_abort_jv b hb h _
  | nothing hc he hm' =>
    simp [exec, hm', evalCond, he]
    exact jv_of_clean _ (clean_append _ hc.1 hc.2 (by simp [faulted, isBadGot]))

omit hb in
theorem presV_recvMore (bad : Role → Reply → Bool) (p : Pat) : PresV bad (.recvMore p) := fun env s hj hm => by
  simp only [exec, hm, if_true]
  have hc := j_clean bad hj hm
  exact jv_of_clean bad hc

end
end NA.C09
