import NA.Proofs.C03Spec
/-
C03, whole-vsys theorems, part 1: how one accepted request acts on what the later proofs look at —
the rule found under a name (`findRule`), the object tables, and sufficient conditions for a
request to be accepted.  Facts about the strict device only (`Spec/PanOs.lean`); core Lean only.
-/
namespace NA.PanOs

/-! ### Scripts -/

theorem execAll_append (sh : Shared) : ∀ (cs ds : List Cmd) (v : Vsys),
    (execAll sh v cs).2.2 = none →
    execAll sh v (cs ++ ds) =
      ((execAll sh (execAll sh v cs).1 ds).1, cs.length + (execAll sh (execAll sh v cs).1 ds).2.1,
        (execAll sh (execAll sh v cs).1 ds).2.2) := by
  intro cs
  induction cs with
  | nil => intro ds v _; simp [execAll]
  | cons c cs ih =>
    intro ds v h
    cases hc : exec sh v c with
    | error e => rw [execAll_cons_err hc] at h; cases h
    | ok v' =>
      rw [execAll_cons_ok hc] at h
      simp only [List.cons_append]
      rw [execAll_cons_ok hc, execAll_cons_ok hc, ih ds v' h]
      simp only [List.length_cons]
      congr 2
      omega

/-- All requests of `cs` are accepted, leading from `v` to `w`. -/
def Runs (sh : Shared) (v : Vsys) (cs : List Cmd) (w : Vsys) : Prop :=
  execAll sh v cs = (w, cs.length, none)

theorem Runs.nil (sh : Shared) (v : Vsys) : Runs sh v [] v := rfl

theorem Runs.cons {sh : Shared} {v v' w : Vsys} {c : Cmd} {cs : List Cmd}
    (h : exec sh v c = .ok v') (hr : Runs sh v' cs w) : Runs sh v (c :: cs) w := by
  unfold Runs at hr ⊢
  rw [execAll_cons_ok h, hr]
  rfl

theorem Runs.append {sh : Shared} {v w u : Vsys} {cs ds : List Cmd}
    (h₁ : Runs sh v cs w) (h₂ : Runs sh w ds u) : Runs sh v (cs ++ ds) u := by
  unfold Runs at *
  rw [execAll_append sh cs ds v (by rw [h₁])]
  rw [h₁]
  simp only
  rw [h₂]
  simp

theorem Runs.single {sh : Shared} {v v' : Vsys} {c : Cmd} (h : exec sh v c = .ok v') : Runs sh v [c] v' :=
  Runs.cons h (Runs.nil sh v')

/-! ### The rule found under a name -/

theorem findRule_filter (rs : List Rule) (m n : String) :
    findRule (rs.filter (·.name != m)) n = if n == m then none else findRule rs n := by
  unfold findRule
  induction rs with
  | nil => simp
  | cons r rs ih =>
    by_cases hm : r.name = m
    · have : (r.name != m) = false := by simp [hm]
      simp only [List.filter_cons, this, Bool.false_eq_true, if_false, ih]
      by_cases hn : n = m
      · simp [hn]
      · have h1 : (n == m) = false := by simpa using hn
        have h2 : (r.name == n) = false := by
          have : r.name ≠ n := fun e => hn (e ▸ hm)
          simpa using this
        simp [h1, List.find?_cons, h2]
    · have : (r.name != m) = true := by simpa using hm
      simp only [List.filter_cons, this, if_true, List.find?_cons]
      by_cases hrn : r.name = n
      · have hnm : (n == m) = false := by
          have : n ≠ m := fun e => hm (hrn ▸ e)
          simpa using this
        simp [hrn, hnm]
      · have h2 : (r.name == n) = false := by simpa using hrn
        simp only [h2]
        exact ih

theorem findRule_modifyRule (rs : List Rule) (m n : String) (g : Rule → Rule)
    (hg : ∀ r, (g r).name = r.name) :
    findRule (modifyRule rs m g) n = if n == m then (findRule rs n).map g else findRule rs n := by
  unfold findRule modifyRule
  induction rs with
  | nil => simp
  | cons r rs ih =>
    simp only [List.map_cons, List.find?_cons]
    by_cases hrm : r.name = m
    · have h1 : (r.name == m) = true := by simpa using hrm
      simp only [h1, if_true, hg]
      by_cases hrn : r.name = n
      · have h2 : (r.name == n) = true := by simpa using hrn
        have h3 : (n == m) = true := by simpa using (hrn ▸ hrm)
        simp [h2, h3]
      · have h2 : (r.name == n) = false := by simpa using hrn
        simp only [h2]
        exact ih
    · have h1 : (r.name == m) = false := by simpa using hrm
      simp only [h1, Bool.false_eq_true, if_false]
      by_cases hrn : r.name = n
      · have h2 : (r.name == n) = true := by simpa using hrn
        have h3 : (n == m) = false := by
          have : n ≠ m := fun e => hrm (hrn ▸ e)
          simpa using this
        simp [h2, h3]
      · have h2 : (r.name == n) = false := by simpa using hrn
        simp only [h2]
        exact ih

theorem findRule_append_single (rs : List Rule) (r : Rule) (n : String) :
    findRule (rs ++ [r]) n =
      match findRule rs n with
      | some x => some x
      | none => if r.name == n then some r else none := by
  unfold findRule
  rw [List.find?_append]
  cases h : List.find? (fun x => x.name == n) rs with
  | some x => simp
  | none =>
    cases hb : (r.name == n) <;> simp [List.find?_cons, hb]

theorem findRule_insertBefore (d : String) (r : Rule) (rs : List Rule) (n : String)
    (hr : findRule rs r.name = none) :
    findRule (insertBefore d r rs) n = if r.name == n then some r else findRule rs n := by
  unfold findRule at *
  induction rs with
  | nil => cases hb : (r.name == n) <;> simp [insertBefore, List.find?_cons, hb]
  | cons x xs ih =>
    simp only [List.find?_cons] at hr
    have hxr : (x.name == r.name) = false := by
      cases h : (x.name == r.name) with
      | false => rfl
      | true => simp [h] at hr
    simp only [hxr] at hr
    simp only [insertBefore]
    split
    · cases hb : (r.name == n) <;> simp [List.find?_cons, hb]
    · simp only [List.find?_cons]
      by_cases hxn : x.name = n
      · have h1 : (x.name == n) = true := by simpa using hxn
        have h2 : (r.name == n) = false := by
          have : r.name ≠ n := by
            intro e
            have : x.name = r.name := hxn.trans e.symm
            simp [this] at hxr
          simpa using this
        simp [h1, h2]
      · have h1 : (x.name == n) = false := by simpa using hxn
        simp only [h1]
        exact ih hr

theorem findRule_some_name {rs : List Rule} {n : String} {r : Rule} (h : findRule rs n = some r) : r.name = n :=
  (findRule_name h).1

theorem findRule_none_iff (rs : List Rule) (n : String) :
    findRule rs n = none ↔ (ruleNames rs).contains n = false := by
  unfold findRule ruleNames
  rw [List.find?_eq_none]
  simp only [Bool.eq_false_iff, ne_eq, List.contains_iff_mem, List.mem_map, not_exists, not_and]
  constructor
  · intro h r hr hn; exact h r hr (by simp [hn])
  · intro h r hr hn; exact h r hr (by simpa using hn)

theorem findRule_isSome_iff (rs : List Rule) (n : String) :
    (findRule rs n).isSome ↔ (ruleNames rs).contains n = true := by
  cases h : findRule rs n with
  | none =>
    have := (findRule_none_iff rs n).mp h
    simp only [Option.isSome_none, Bool.false_eq_true, this]
  | some r =>
    have := (findRule_name h).2
    simp only [Option.isSome_some, this]

/-- What an accepted request does to the rule found under name `n`. -/
def ruleEffect (c : Cmd) (n : String) (cur : Option Rule) : Option Rule :=
  match c with
  | .delRule m => if n == m then none else cur
  | .setRule r => if r.name == n then some r else cur
  | .delMem m f x => if n == m then cur.map (fun r => r.set f ((r.get f).filter (· != x))) else cur
  | .addMem m f ms => if n == m then cur.map (fun r => r.set f (mergeMembers (r.get f) ms)) else cur
  | .editList m f ms => if n == m then cur.map (fun r => r.set f ms) else cur
  | _ => cur

theorem exec_findRule {sh : Shared} {v v' : Vsys} {c : Cmd} (h : exec sh v c = .ok v') (n : String) :
    findRule v'.rules n = ruleEffect c n (findRule v.rules n) := by
  cases c with
  | delRule m =>
    simp only [exec] at h
    split at h
    · simp only [Except.ok.injEq] at h; subst h
      simp [ruleEffect, findRule_filter]
    · cases h
  | setRule r =>
    simp only [exec] at h
    split at h
    · cases h
    · rename_i hc
      split at h
      · cases h
      · split at h
        · cases h
        · simp only [Except.ok.injEq] at h; subst h
          simp only [ruleEffect, findRule_append_single]
          have hnone : findRule v.rules r.name = none := by
            rw [findRule_none_iff]; simpa using hc
          by_cases hrn : r.name = n
          · subst hrn; simp [hnone]
          · have : (r.name == n) = false := by simpa using hrn
            simp only [this, Bool.false_eq_true, if_false]
            cases findRule v.rules n <;> rfl
  | move m d =>
    simp only [exec] at h
    split at h
    · cases h
    · rename_i r hf
      split at h
      · cases h
      · split at h
        · cases h
        · simp only [Except.ok.injEq] at h; subst h
          have hrn := findRule_some_name hf
          simp only [ruleEffect]
          rw [findRule_insertBefore d r _ n (by rw [findRule_filter]; simp [hrn])]
          rw [findRule_filter]
          by_cases hnm : n = m
          · subst hnm; simp [hrn, hf]
          · have h1 : (r.name == n) = false := by
              have : r.name ≠ n := fun e => hnm (e.symm.trans hrn)
              simpa using this
            have h2 : (n == m) = false := by simpa using hnm
            simp [h1, h2]
  | delMem m f x =>
    simp only [exec] at h
    split at h
    · cases h
    · split at h
      · simp only [Except.ok.injEq] at h; subst h
        simp [ruleEffect, findRule_modifyRule, Rule.set_name]
      · cases h
  | addMem m f ms =>
    simp only [exec] at h
    split at h
    · cases h
    · split at h
      · cases h
      · simp only [Except.ok.injEq] at h; subst h
        simp [ruleEffect, findRule_modifyRule, Rule.set_name]
  | editList m f ms =>
    simp only [exec] at h
    split at h
    · cases h
    · split at h
      · cases h
      · simp only [Except.ok.injEq] at h; subst h
        simp [ruleEffect, findRule_modifyRule, Rule.set_name]
  | bad w => simp [exec] at h
  | setAddr _ _ | editAddr _ _ | setSvc _ _ | editSvc _ _ | setGrp _ _ | setSGrp _ _ | delGMem _ _
  | delGrp _ | delAddr _ | delSGrp _ | delSvc _ =>
    simp only [exec] at h
    repeat' split at h
    all_goals first
      | (simp at h; done)
      | (simp only [Except.ok.injEq] at h; subst h; rfl)

/-! ### What a request leaves alone -/

/-- Requests on rules and their member lists. -/
def Cmd.onRules : Cmd → Bool
  | .delRule .. | .setRule .. | .move .. | .delMem .. | .addMem .. | .editList .. => true
  | _ => false

theorem exec_onRules_static {sh : Shared} {v v' : Vsys} {c : Cmd} (h : exec sh v c = .ok v')
    (hc : c.onRules = true) :
    v'.addrs = v.addrs ∧ v'.svcs = v.svcs ∧ v'.groups = v.groups ∧ v'.sgroups = v.sgroups ∧ v'.name = v.name := by
  cases c <;> simp only [Cmd.onRules] at hc <;> try (cases hc)
  all_goals
    simp only [exec] at h
    repeat' split at h
    all_goals first
      | (simp at h; done)
      | (simp only [Except.ok.injEq] at h; subst h; exact ⟨rfl, rfl, rfl, rfl, rfl⟩)

/-- Reference checks only look at the object tables. -/
theorem refOk_congr (sh : Shared) {v v' : Vsys} (h1 : v'.addrs = v.addrs) (h2 : v'.svcs = v.svcs)
    (h3 : v'.groups = v.groups) (h4 : v'.sgroups = v.sgroups) (f : Fld) (m : String) :
    refOk sh v' f m = refOk sh v f m := by
  cases f <;> simp [refOk, addrRefOk, srvRefOk, h1, h2, h3, h4]

/-! ### Sufficient conditions for acceptance -/

theorem exec_delRule_ok (sh : Shared) (v : Vsys) (n : String) (h : (findRule v.rules n).isSome) :
    ∃ v', exec sh v (.delRule n) = .ok v' := by
  have := (findRule_isSome_iff v.rules n).mp h
  simp only [exec, this, if_true]
  exact ⟨_, rfl⟩

theorem exec_delMem_ok (sh : Shared) (v : Vsys) (n : String) (f : Fld) (m : String) (r : Rule)
    (h : findRule v.rules n = some r) (hm : m ∈ r.get f) :
    ∃ v', exec sh v (.delMem n f m) = .ok v' := by
  have : (r.get f).contains m = true := by simpa using hm
  simp only [exec, h, this, if_true]
  exact ⟨_, rfl⟩

theorem exec_addMem_ok (sh : Shared) (v : Vsys) (n : String) (f : Fld) (ms : List String)
    (h : (findRule v.rules n).isSome) (hr : ∀ m ∈ ms, refOk sh v f m = true) :
    ∃ v', exec sh v (.addMem n f ms) = .ok v' := by
  have h1 := (findRule_isSome_iff v.rules n).mp h
  have h2 : ms.all (refOk sh v f) = true := by simpa [List.all_eq_true] using hr
  simp only [exec, h1, h2, Bool.not_true, Bool.false_eq_true, if_false]
  exact ⟨_, rfl⟩

theorem exec_editList_ok (sh : Shared) (v : Vsys) (n : String) (f : Fld) (ms : List String)
    (h : (findRule v.rules n).isSome) (hr : ∀ m ∈ ms, refOk sh v f m = true) :
    ∃ v', exec sh v (.editList n f ms) = .ok v' := by
  have h1 := (findRule_isSome_iff v.rules n).mp h
  have h2 : ms.all (refOk sh v f) = true := by simpa [List.all_eq_true] using hr
  simp only [exec, h1, h2, Bool.not_true, Bool.false_eq_true, if_false]
  exact ⟨_, rfl⟩

theorem exec_setRule_ok (sh : Shared) (v : Vsys) (r : Rule) (h : findRule v.rules r.name = none)
    (hs : ∀ m ∈ r.src, refOk sh v .src m = true) (hd : ∀ m ∈ r.dst, refOk sh v .dst m = true)
    (hv : ∀ m ∈ r.srv, refOk sh v .srv m = true) :
    ∃ v', exec sh v (.setRule r) = .ok v' := by
  have h1 := (findRule_none_iff v.rules r.name).mp h
  have h2 : r.src.all (addrRefOk sh v) = true := by simpa [List.all_eq_true, refOk] using hs
  have h3 : r.dst.all (addrRefOk sh v) = true := by simpa [List.all_eq_true, refOk] using hd
  have h4 : r.srv.all (srvRefOk sh v) = true := by simpa [List.all_eq_true, refOk] using hv
  simp only [exec, h1, h2, h3, h4, Bool.and_self, Bool.not_true, Bool.false_eq_true, if_false]
  exact ⟨_, rfl⟩

theorem exec_move_ok (sh : Shared) (v : Vsys) (n d : String) (h : (findRule v.rules n).isSome)
    (hd : (findRule v.rules d).isSome) (hne : n ≠ d) :
    ∃ v', exec sh v (.move n d) = .ok v' := by
  have h2 := (findRule_isSome_iff v.rules d).mp hd
  have h3 : (n == d) = false := by simpa using hne
  cases hf : findRule v.rules n with
  | none => simp [hf] at h
  | some r =>
    simp only [exec, hf, h2, h3, Bool.not_true, Bool.false_eq_true, if_false]
    exact ⟨_, rfl⟩

/-! ### Member lists as sets -/

/-- Same members (order and multiplicity ignored). -/
def SameMem (l l' : List String) : Prop := ∀ x, x ∈ l ↔ x ∈ l'

theorem SameMem.refl (l : List String) : SameMem l l := fun _ => Iff.rfl
theorem SameMem.symm {l l' : List String} (h : SameMem l l') : SameMem l' l := fun x => (h x).symm
theorem SameMem.trans {a b c : List String} (h₁ : SameMem a b) (h₂ : SameMem b c) : SameMem a c :=
  fun x => (h₁ x).trans (h₂ x)

theorem SameMem.of_perm {l l' : List String} (h : l.Perm l') : SameMem l l' := fun _ => h.mem_iff

theorem mem_mergeMembers (old new : List String) (x : String) :
    x ∈ mergeMembers old new ↔ x ∈ old ∨ x ∈ new := by
  unfold mergeMembers
  induction new generalizing old with
  | nil => simp
  | cons y ys ih =>
    simp only [List.foldl_cons]
    rw [ih]
    split
    · rename_i hc
      have : y ∈ old := by simpa using hc
      simp only [List.mem_cons]
      constructor
      · rintro (h | h)
        · exact Or.inl h
        · exact Or.inr (Or.inr h)
      · rintro (h | h | h)
        · exact Or.inl h
        · exact Or.inl (h ▸ this)
        · exact Or.inr h
    · simp only [List.mem_append, List.mem_cons, List.not_mem_nil, or_false]
      constructor
      · rintro ((h | h) | h)
        · exact Or.inl h
        · exact Or.inr (Or.inl h)
        · exact Or.inr (Or.inr h)
      · rintro (h | h | h)
        · exact Or.inl (Or.inl h)
        · exact Or.inl (Or.inr h)
        · exact Or.inr h

end NA.PanOs
