import NA.Proofs.F1Groups
/-!
# F1: what the in-place edit of an UNSHARED object-group keeps (C14)

Every state between two member commands holds a member set between `old ∩ new` and `old ∪ new`.  If the group is
used by ONE access-list line, no line of that access list is touched in the run, and the packet's address is covered
by at most one member text (members do not overlap), the verdict of every such state is the old or the new one.
-/
namespace NA.F1

theorem applyMem_append' : ∀ (pre suf : List (Bool × String)) (cur : List String),
    applyMem cur (pre ++ suf) = (applyMem cur pre).bind fun M => applyMem M suf := by
  intro pre
  induction pre with
  | nil => intro suf cur; rfl
  | cons op ops ih =>
    intro suf cur
    obtain ⟨b, m⟩ := op
    cases b
    · simp only [List.cons_append, applyMem]
      split
      · exact ih suf _
      · rfl
    · simp only [List.cons_append, applyMem]
      split
      · rfl
      · exact ih suf _

theorem applyMem_bounds : ∀ (ops : List (Bool × String)) (cur M : List String), applyMem cur ops = some M →
    (∀ x ∈ M, x ∈ cur ∨ x ∈ opInss ops) ∧ (∀ x ∈ cur, x ∈ M ∨ x ∈ opDels ops) := by
  intro ops
  induction ops with
  | nil =>
    intro cur M h
    simp only [applyMem, Option.some.injEq] at h
    subst h
    exact ⟨fun x hx => Or.inl hx, fun x hx => Or.inl hx⟩
  | cons op ops ih =>
    intro cur M h
    obtain ⟨b, m⟩ := op
    cases b
    · simp only [applyMem] at h
      split at h
      · obtain ⟨i1, i2⟩ := ih _ M h
        refine ⟨?_, ?_⟩
        · intro x hx
          rcases i1 x hx with h1 | h1
          · exact Or.inl (List.mem_filter.mp h1).1
          · right; simpa [opInss] using h1
        · intro x hx
          by_cases e1 : x = m
          · right; simp [opDels, e1]
          · rcases i2 x (List.mem_filter.mpr ⟨hx, by simpa using e1⟩) with h1 | h1
            · exact Or.inl h1
            · right
              simp only [opDels, List.filter_cons, Bool.not_false, if_true, List.map_cons, List.mem_cons]
              exact Or.inr h1
      · exact absurd h (by simp)
    · simp only [applyMem] at h
      split at h
      · exact absurd h (by simp)
      · obtain ⟨i1, i2⟩ := ih _ M h
        refine ⟨?_, ?_⟩
        · intro x hx
          rcases i1 x hx with h1 | h1
          · rcases List.mem_append.mp h1 with h2 | h2
            · exact Or.inl h2
            · right
              have : x = m := by simpa using h2
              simp [opInss, this]
          · right
            simp only [opInss, List.filter_cons, if_true, List.map_cons, List.mem_cons]
            exact Or.inr h1
        · intro x hx
          rcases i2 x (List.mem_append_left _ hx) with h1 | h1
          · exact Or.inl h1
          · right; simpa [opDels] using h1

theorem opInss_append (a b : List (Bool × String)) : opInss (a ++ b) = opInss a ++ opInss b := by
  simp [opInss]

theorem opDels_append (a b : List (Bool × String)) : opDels (a ++ b) = opDels a ++ opDels b := by
  simp [opDels]

/-- **Every state of the in-place edit lies between `la ∩ lb` and `la ∪ lb`.** -/
theorem memOps_prefix_sandwich (la lb cur : List String) (rs : List NA.Acl.Range) (hv : scriptOK la lb rs 0 0 = true)
    (hna : la.Nodup) (hnb : lb.Nodup) (hcur : cur.Perm la) (hdisj : ∀ m ∈ inssOf lb rs, m ∉ delsOf la rs)
    (pre suf : List (Bool × String)) (hs : memOps la lb rs = pre ++ suf) :
    ∃ M, applyMem cur pre = some M ∧ (∀ x, x ∈ la → x ∈ lb → x ∈ M) ∧ (∀ x ∈ M, x ∈ la ∨ x ∈ lb) := by
  obtain ⟨fin, hfin, hperm⟩ := memOps_converge la lb cur rs hv hna hnb hcur hdisj
  rw [hs, applyMem_append'] at hfin
  cases hM : applyMem cur pre with
  | none => rw [hM] at hfin; simp at hfin
  | some M =>
    rw [hM, Option.bind_some] at hfin
    obtain ⟨b1, b2⟩ := applyMem_bounds pre cur M hM
    obtain ⟨c1, _⟩ := applyMem_bounds suf M fin hfin
    obtain ⟨_, sp2⟩ := scriptOK_split la lb rs 0 0 hv
    have hinsLb : ∀ x ∈ inssOf lb rs, x ∈ lb := by
      intro x hx
      have : x ∈ lb.drop 0 := sp2.mem_iff.mpr (List.mem_append_right _ hx)
      simpa using this
    have hI : opInss pre ++ opInss suf = inssOf lb rs := by rw [← opInss_append, ← hs, opInss_memOps]
    have hD : opDels pre ++ opDels suf = delsOf la rs := by rw [← opDels_append, ← hs, opDels_memOps]
    refine ⟨M, rfl, ?_, ?_⟩
    · intro x hxa hxb
      rcases b2 x (hcur.mem_iff.mpr hxa) with h1 | h1
      · exact h1
      · -- deleted before: then it is not re-inserted, but the final state has it
        have hxfin : x ∈ fin := hperm.mem_iff.mpr hxb
        rcases c1 x hxfin with h2 | h2
        · exact h2
        · exfalso
          exact hdisj x (by rw [← hI]; exact List.mem_append_right _ h2) (by rw [← hD]; exact List.mem_append_left _ h1)
    · intro x hx
      rcases b1 x hx with h1 | h1
      · exact Or.inl (hcur.mem_iff.mp h1)
      · exact Or.inr (hinsLb x (by rw [← hI]; exact List.mem_append_left _ h1))

/-! ## Verdicts -/

/-- A line as the packet sees it: (matches, permits). -/
abbrev PLine := Bool × Bool

def firstMatch : List PLine → Option Bool
  | [] => none
  | (true, a) :: _ => some a
  | (false, _) :: ls => firstMatch ls

/-- Does the line with the group match?  `cov`: the one member text that covers the packet's address (members of
the old and the new group do not overlap), if any. -/
def groupLineHit (cov : Option String) (M : List String) : Bool :=
  match cov with
  | some m => M.contains m
  | none => false

/-- First match over `pre ++ [group line] ++ post` with implicit deny. -/
def evalG (pre : List PLine) (act : Bool) (cov : Option String) (post : List PLine) (M : List String) : Bool :=
  match firstMatch pre with
  | some a => a
  | none => if groupLineHit cov M then act else (firstMatch post).getD false

/-- **A member set between `old ∩ new` and `old ∪ new` gives the old or the new verdict**, whatever the other
lines are. -/
theorem evalG_old_or_new (pre post : List PLine) (act : Bool) (cov : Option String) (old new M : List String)
    (h1 : ∀ x, x ∈ old → x ∈ new → x ∈ M) (h2 : ∀ x ∈ M, x ∈ old ∨ x ∈ new) :
    evalG pre act cov post M = evalG pre act cov post old ∨ evalG pre act cov post M = evalG pre act cov post new := by
  unfold evalG
  cases firstMatch pre with
  | some a => exact Or.inl rfl
  | none =>
    simp only []
    cases cov with
    | none => exact Or.inl rfl
    | some m =>
      simp only [groupLineHit]
      by_cases hM : m ∈ M
      · rcases h2 m hM with h | h
        · left; simp [hM, h]
        · right; simp [hM, h]
      · by_cases ho : m ∈ old
        · have hn : m ∉ new := fun hn => hM (h1 m ho hn)
          right; simp [hM, hn]
        · left; simp [hM, ho]

end NA.F1
