import NA.Model.MergeOther
import NA.Proofs.C18Via
/-! Lemmas about the ports of the linux, panos and nsx merge code (`NA/Model/MergeOther.lean`). -/
namespace NA.C18

namespace N

/-- All rules stored under policy id `id`, in stored order. -/
def rulesOf (ps : List Policy) (id : String) : List String := (ps.filter (fun p => p.id == id)).flatMap (·.rules)

theorem rulesOf_cons (q : Policy) (qs : List Policy) (id : String) :
    rulesOf (q :: qs) id = (if q.id == id then q.rules else []) ++ rulesOf qs id := by
  unfold rulesOf
  by_cases h : q.id == id <;> simp [List.filter_cons, h]

theorem rulesOf_nil_of_not_mem (qs : List Policy) (id : String) (h : id ∉ qs.map (·.id)) : rulesOf qs id = [] := by
  induction qs with
  | nil => rfl
  | cons q qs ih =>
    rw [rulesOf_cons]
    have h1 : ¬ q.id = id := fun e => h (by simp [e])
    have h2 : id ∉ qs.map (·.id) := fun e => h (by simp only [List.map_cons, List.mem_cons]; exact Or.inr e)
    simp [h1, ih h2]

theorem ids_addPolicy (ps : List Policy) (p : Policy) :
    (addPolicy ps p).map (·.id) = if p.id ∈ ps.map (·.id) then ps.map (·.id) else ps.map (·.id) ++ [p.id] := by
  induction ps with
  | nil => simp [addPolicy]
  | cons q qs ih =>
    unfold addPolicy
    by_cases hq : p.id == q.id
    · have e : p.id = q.id := by simpa using hq
      have hm : p.id ∈ (q :: qs).map (·.id) := by simp [e]
      rw [if_pos hq, if_pos hm]; simp
    · have hne : ¬ p.id = q.id := by simpa using hq
      rw [if_neg hq, List.map_cons, ih]
      by_cases hm : p.id ∈ qs.map (·.id)
      · have hm' : p.id ∈ (q :: qs).map (·.id) := by simp only [List.map_cons, List.mem_cons]; exact Or.inr hm
        rw [if_pos hm, if_pos hm']; rfl
      · have hm' : p.id ∉ (q :: qs).map (·.id) := by
          simp only [List.map_cons, List.mem_cons]; intro h; rcases h with h | h; exact hne h; exact hm h
        rw [if_neg hm, if_neg hm']; rfl

theorem nodup_addPolicy (ps : List Policy) (p : Policy) (h : (ps.map (·.id)).Nodup) :
    ((addPolicy ps p).map (·.id)).Nodup := by
  rw [ids_addPolicy]
  by_cases hm : p.id ∈ ps.map (·.id)
  · rw [if_pos hm]; exact h
  · rw [if_neg hm, List.nodup_append]
    exact ⟨h, by simp, fun a ha b hb => by
      have : b = p.id := by simpa using hb
      subst this; intro e; subst e; exact hm ha⟩

/-- One policy of the merged part, exact form (ids of the policies so far pairwise different). -/
theorem rulesOf_addPolicy (ps : List Policy) (p : Policy) (id : String) (h : (ps.map (·.id)).Nodup) :
    rulesOf (addPolicy ps p) id = rulesOf ps id ++ (if p.id == id then p.rules else []) := by
  induction ps with
  | nil => by_cases hp : p.id == id <;> simp [addPolicy, rulesOf, hp]
  | cons q qs ih =>
    have hq : q.id ∉ qs.map (·.id) := (List.nodup_cons.mp h).1
    have hqs : (qs.map (·.id)).Nodup := (List.nodup_cons.mp h).2
    unfold addPolicy
    by_cases hpq : p.id == q.id
    · have e : p.id = q.id := by simpa using hpq
      simp only [hpq, if_true]
      rw [rulesOf_cons, rulesOf_cons]
      by_cases hid : q.id == id
      · have e2 : q.id = id := by simpa using hid
        have hz : rulesOf qs id = [] := rulesOf_nil_of_not_mem qs id (e2 ▸ hq)
        have hp : (p.id == id) = true := by rw [e]; exact hid
        simp [hid, hz, hp]
      · have hp : (p.id == id) = false := by rw [e]; simpa using hid
        simp [hid, hp]
    · simp only [hpq, Bool.false_eq_true, if_false]
      rw [rulesOf_cons, rulesOf_cons, ih hqs, List.append_assoc]

/-- … and as a permutation without any hypothesis (every rule exactly once). -/
theorem rulesOf_addPolicy_perm (ps : List Policy) (p : Policy) (id : String) :
    (rulesOf (addPolicy ps p) id).Perm (rulesOf ps id ++ (if p.id == id then p.rules else [])) := by
  induction ps with
  | nil => by_cases hp : p.id == id <;> simp [addPolicy, rulesOf, hp]
  | cons q qs ih =>
    unfold addPolicy
    by_cases hpq : p.id == q.id
    · have e : p.id = q.id := by simpa using hpq
      simp only [hpq, if_true]
      rw [rulesOf_cons, rulesOf_cons]
      by_cases hid : q.id == id
      · have hp : (p.id == id) = true := by rw [e]; exact hid
        simp only [hid, if_true, hp, List.append_assoc]
        exact List.Perm.append_left _ List.perm_append_comm
      · have hp : (p.id == id) = false := by rw [e]; simpa using hid
        simp [hid, hp]
    · simp only [hpq, Bool.false_eq_true, if_false]
      rw [rulesOf_cons, rulesOf_cons, List.append_assoc]
      exact List.Perm.append_left _ ih

theorem rulesOf_foldl (ps2 : List Policy) : ∀ (ps : List Policy) (id : String), (ps.map (·.id)).Nodup →
    rulesOf (ps2.foldl addPolicy ps) id = rulesOf ps id ++ rulesOf ps2 id := by
  induction ps2 with
  | nil => intro ps id _; simp [rulesOf]
  | cons p ps2 ih =>
    intro ps id h
    simp only [List.foldl_cons]
    rw [ih _ id (nodup_addPolicy ps p h), rulesOf_addPolicy ps p id h, rulesOf_cons, List.append_assoc]

theorem rulesOf_foldl_perm (ps2 : List Policy) : ∀ (ps : List Policy) (id : String),
    (rulesOf (ps2.foldl addPolicy ps) id).Perm (rulesOf ps id ++ rulesOf ps2 id) := by
  induction ps2 with
  | nil => intro ps id; simp [rulesOf]
  | cons p ps2 ih =>
    intro ps id
    simp only [List.foldl_cons]
    refine (ih _ id).trans ?_
    rw [rulesOf_cons, ← List.append_assoc]
    exact List.Perm.append_right _ (rulesOf_addPolicy_perm ps p id)

theorem ids_foldl_subset (ps2 : List Policy) : ∀ (ps : List Policy) (i : String),
    (i ∈ ps.map (·.id) ∨ i ∈ ps2.map (·.id)) → i ∈ (ps2.foldl addPolicy ps).map (·.id) := by
  induction ps2 with
  | nil => intro ps i h; rcases h with h | h; exact h; cases h
  | cons p ps2 ih =>
    intro ps i h
    simp only [List.foldl_cons]
    apply ih
    rw [ids_addPolicy]
    rcases h with h | h
    · left; split
      · exact h
      · exact List.mem_append_left _ h
    · rcases List.mem_cons.mp h with h1 | h1
      · left
        subst h1
        by_cases hm : p.id ∈ ps.map (·.id)
        · rw [if_pos hm]; exact hm
        · rw [if_neg hm]; simp
      · exact Or.inr h1

end N

namespace P

theorem findSome_isSome {α β : Type} (f : α → Option β) (l : List α) (x : α) (hx : x ∈ l) (hf : (f x).isSome = true) :
    (l.findSome? f).isSome = true := by
  induction l with
  | nil => cases hx
  | cons y ys ih =>
    simp only [List.findSome?_cons]
    cases hy : f y with
    | some b => rfl
    | none =>
      rcases List.mem_cons.mp hx with rfl | h
      · rw [hy] at hf; cases hf
      · exact ih h

theorem clashIn_isSome (typ vn : String) (l1 l2 : List Obj) (o1 o2 : Obj) (h1 : o1 ∈ l1) (h2 : o2 ∈ l2)
    (hn : o1.name = o2.name) (hv : o1.val ≠ o2.val) : (clashIn typ vn l1 l2).isSome = true := by
  unfold clashIn
  refine findSome_isSome _ l2 o2 h2 ?_
  have : l1.any (fun o => o.name == o2.name && o.val != o2.val) = true :=
    List.any_eq_true.mpr ⟨o1, h1, by simp [hn, hv]⟩
  simp [this]

theorem mapE_ok_mem {α β ε : Type} (f : α → Except ε β) : ∀ (l : List α) (l' : List β), mapE f l = .ok l' →
    ∀ x ∈ l, ∃ y ∈ l', f x = .ok y := by
  intro l
  induction l with
  | nil => intro l' _ x hx; cases hx
  | cons a as ih =>
    intro l' h x hx
    unfold mapE at h
    cases ha : f a with
    | error e => rw [ha] at h; cases h
    | ok y =>
      rw [ha] at h
      simp only at h
      cases hr : mapE f as with
      | error e => rw [hr] at h; cases h
      | ok ys =>
        rw [hr] at h
        simp only [Except.ok.injEq] at h
        subst h
        rcases List.mem_cons.mp hx with rfl | hx'
        · exact ⟨y, List.mem_cons_self, ha⟩
        · obtain ⟨y', hy', hf⟩ := ih ys hr x hx'
          exact ⟨y', List.mem_cons_of_mem _ hy', hf⟩

/-- What a successful merge of two vsys yields. -/
theorem mergeVsys_ok (g : Gen2) (v1 v2 v : Vsys) (h : mergeVsys g v1 v2 = .ok v) :
    v.name = v1.name ∧
    v.rules = (v2.rules.filter (fun r => !r.app)) ++ v1.rules ++ (v2.rules.filter (·.app)).map clearApp ∧
    v.addresses = v1.addresses ++ v2.addresses ∧ v.addressGroups = v1.addressGroups ++ v2.addressGroups ∧
    v.services = v1.services ++ v2.services ∧ v.serviceGroups = v1.serviceGroups ++ v2.serviceGroups := by
  unfold mergeVsys at h
  split at h
  · cases h
  · cases h; exact ⟨rfl, rfl, rfl, rfl, rfl, rfl⟩

theorem lookupLast_of_nodup (l : List Vsys) (v : Vsys) (hv : v ∈ l) (hn : (l.map (·.name)).Nodup) :
    lookupLast l v.name = some v := by
  unfold lookupLast
  have : l.filter (fun w => w.name == v.name) = [v] := by
    induction l with
    | nil => cases hv
    | cons w ws ih =>
      have hw : w.name ∉ ws.map (·.name) := (List.nodup_cons.mp hn).1
      have hws := (List.nodup_cons.mp hn).2
      rcases List.mem_cons.mp hv with rfl | hv'
      · have : ws.filter (fun w => w.name == v.name) = [] := by
          rw [List.filter_eq_nil_iff]
          intro x hx hxe
          exact hw (by have : x.name = v.name := by simpa using hxe
                       exact this ▸ List.mem_map.mpr ⟨x, hx, rfl⟩)
        simp [List.filter_cons, this]
      · have hne : ¬ w.name = v.name := fun e => hw (e ▸ List.mem_map.mpr ⟨v, hv', rfl⟩)
        simp [List.filter_cons, hne, ih hv' hws]
  rw [this]; rfl

end P

namespace L

theorem foldX_append {σ β ε : Type} (f : σ → β → Except ε σ) (s : σ) (l1 l2 : List β) :
    foldX f s (l1 ++ l2) = match foldX f s l1 with
      | .ok s' => foldX f s' l2
      | .error e => .error e := by
  induction l1 generalizing s with
  | nil => rfl
  | cons x xs ih =>
    simp only [List.cons_append, foldX]
    cases f s x with
    | ok s' => exact ih s'
    | error e => rfl

theorem foldX_error_of_mem {σ β ε : Type} (f : σ → β → Except ε σ) (x : β)
    (hx : ∀ s, ∃ e, f s x = .error e) : ∀ (l : List β) (s : σ), x ∈ l → ∃ e, foldX f s l = .error e := by
  intro l
  induction l with
  | nil => intro s h; cases h
  | cons y ys ih =>
    intro s h
    simp only [foldX]
    rcases List.mem_cons.mp h with rfl | h'
    · obtain ⟨e, he⟩ := hx s; exact ⟨e, by rw [he]⟩
    · cases hy : f s y with
      | error e => exact ⟨e, rfl⟩
      | ok s1 => exact ih s1 h'

theorem foldX_inv {σ β ε : Type} (f : σ → β → Except ε σ) (P : σ → Prop) (Q : β → Prop)
    (hstep : ∀ s x s', P s → Q x → f s x = .ok s' → P s') :
    ∀ (l : List β) (s s' : σ), (∀ x ∈ l, Q x) → P s → foldX f s l = .ok s' → P s' := by
  intro l
  induction l with
  | nil => intro s s' _ h0 h; simp only [foldX, Except.ok.injEq] at h; subst h; exact h0
  | cons x xs ih =>
    intro s s' hq h0 h
    simp only [foldX] at h
    cases hx : f s x with
    | error e => rw [hx] at h; cases h
    | ok s1 =>
      rw [hx] at h
      exact ih s1 s' (fun y hy => hq y (List.mem_cons_of_mem _ hy))
        (hstep s x s1 h0 (hq x List.mem_cons_self) hx) h

/-! ### The parser -/

def Line.isTable : Line → Bool
  | .table _ => true
  | _ => false

theorem parseStep_tables (g : Gen2) (st st' : PSt) (x : Line) (h : parseStep g st x = .ok st') (t : String)
    (ht : t ∈ st.tables) : t ∈ st'.tables := by
  cases x <;> simp only [parseStep] at h
  case table n =>
    split at h
    · cases g <;> simp only at h
      · cases h; exact ht
      · cases h
    · cases h; exact List.mem_append_left _ ht
  case chain n p =>
    split at h
    · cases h
    · split at h
      · cases g <;> simp only at h
        · cases h; exact ht
        · cases h
      · cases h; exact ht
  case chainShort => split at h <;> cases h; exact ht
  case rule c tx tg =>
    split at h
    · cases h
    · split at h
      · cases h; exact ht
      · cases h
  case append => cases h; exact ht
  case commit => cases h; exact ht
  case other => cases h

theorem parseStep_table_mem (g : Gen2) (st st' : PSt) (n : String) (h : parseStep g st (.table n) = .ok st') :
    n ∈ st'.tables := by
  simp only [parseStep] at h
  split at h
  · rename_i hc
    have : n ∈ st.tables := by simpa using hc
    cases g <;> simp only at h
    · cases h; exact this
    · cases h
  · cases h; simp

/-- A second `*TABLE` line for the same table is an error of the repaired parser. -/
theorem dup_table_error (l1 l2 l3 : List Line) (n : String) (s : PSt) :
    ∃ e, foldX (parseStep .new) s (l1 ++ .table n :: (l2 ++ .table n :: l3)) = .error e := by
  rw [foldX_append]
  cases h1 : foldX (parseStep .new) s l1 with
  | error e => exact ⟨e, rfl⟩
  | ok s1 =>
    simp only [foldX]
    cases h2 : parseStep .new s1 (.table n) with
    | error e => exact ⟨e, rfl⟩
    | ok s2 =>
      simp only
      rw [foldX_append]
      cases h3 : foldX (parseStep .new) s2 l2 with
      | error e => exact ⟨e, rfl⟩
      | ok s3 =>
        simp only [foldX]
        have hm2 := parseStep_table_mem .new s1 s2 n h2
        have hm3 : n ∈ s3.tables :=
          foldX_inv (parseStep .new) (fun s => n ∈ s.tables) (fun _ => True)
            (fun s x s' hs _ hx => parseStep_tables .new s s' x hx n hs) l2 s2 s3 (fun _ _ => trivial) hm2 h3
        exact ⟨.dupTable n, by simp [parseStep, hm3]⟩

def ChainInv (t n : String) (st : PSt) : Prop := st.cur = some t ∧ st.chains.any (sameChain t n) = true

theorem any_map_rules (cs : List Chain) (t n : String) (f : Chain → Chain)
    (hf : ∀ c, (f c).table = c.table ∧ (f c).name = c.name) :
    (cs.map f).any (sameChain t n) = cs.any (sameChain t n) := by
  induction cs with
  | nil => rfl
  | cons c cs ih =>
    simp only [List.map_cons, List.any_cons, ih]
    have := hf c
    simp [sameChain, this.1, this.2]

theorem parseStep_chainInv (st st' : PSt) (x : Line) (t n : String) (hi : ChainInv t n st)
    (hx : x.isTable = false) (h : parseStep .new st x = .ok st') : ChainInv t n st' := by
  obtain ⟨hc, ha⟩ := hi
  cases x <;> simp only [parseStep, hc] at h
  case table m => simp [Line.isTable] at hx
  case chain m p =>
    split at h
    · cases h
    · cases h; exact ⟨rfl, by simp [List.any_append, ha]⟩
  case chainShort => cases h; exact ⟨hc, ha⟩
  case rule c tx tg =>
    split at h
    · cases h
      refine ⟨rfl, ?_⟩
      rw [any_map_rules]
      · exact ha
      · intro ch; split <;> exact ⟨rfl, rfl⟩
    · cases h
  case append => cases h; exact ⟨rfl, ha⟩
  case commit => cases h; exact ⟨hc, ha⟩
  case other => cases h

/-- A second `:CHAIN` line for the same chain inside one table is an error of the repaired parser. -/
theorem dup_chain_error (l1 l2 l3 : List Line) (n p p' : String) (s : PSt) (hl2 : ∀ x ∈ l2, x.isTable = false) :
    ∃ e, foldX (parseStep .new) s (l1 ++ .chain n p :: (l2 ++ .chain n p' :: l3)) = .error e := by
  rw [foldX_append]
  cases h1 : foldX (parseStep .new) s l1 with
  | error e => exact ⟨e, rfl⟩
  | ok s1 =>
    simp only [foldX]
    cases h2 : parseStep .new s1 (.chain n p) with
    | error e => exact ⟨e, rfl⟩
    | ok s2 =>
      simp only
      rw [foldX_append]
      cases h3 : foldX (parseStep .new) s2 l2 with
      | error e => exact ⟨e, rfl⟩
      | ok s3 =>
        simp only [foldX]
        -- after the first line the chain exists in the current table
        have hi2 : ∃ t, ChainInv t n s2 := by
          simp only [parseStep] at h2
          split at h2
          · cases h2
          · rename_i t hcur
            split at h2
            · cases h2
            · cases h2
              exact ⟨t, hcur, by simp [List.any_append, sameChain]⟩
        obtain ⟨t, hi2⟩ := hi2
        have hi3 : ChainInv t n s3 :=
          foldX_inv (parseStep .new) (ChainInv t n) (fun x => x.isTable = false)
            (fun s x s' hs hq hx => parseStep_chainInv s s' x t n hs hq hx) l2 s2 s3 hl2 hi2 h3
        exact ⟨.dupChain n, by simp [parseStep, hi3.1, hi3.2]⟩

/-- What the `[APPEND]` mark means, stated without the parser's variable: the flag is set iff an
`[APPEND]` line occurs behind the last `*TABLE` line (or it was set before and no `*TABLE` line came). -/
theorem app_flag_spec (g : Gen2) : ∀ (pre : List Line) (s0 s : PSt), foldX (parseStep g) s0 pre = .ok s →
    (s.app = true ↔ (∃ u w, pre = u ++ .append :: w ∧ ∀ x ∈ w, x.isTable = false) ∨
                    (s0.app = true ∧ ∀ x ∈ pre, x.isTable = false)) := by
  intro pre
  induction pre with
  | nil =>
    intro s0 s h
    simp only [foldX, Except.ok.injEq] at h; subst h
    constructor
    · intro h; exact Or.inr ⟨h, fun _ hx => by cases hx⟩
    · rintro (⟨u, w, hu, _⟩ | ⟨h, _⟩)
      · cases u <;> cases hu
      · exact h
  | cons x xs ih =>
    intro s0 s h
    simp only [foldX] at h
    cases hx : parseStep g s0 x with
    | error e => rw [hx] at h; cases h
    | ok s1 =>
      rw [hx] at h
      have hih := ih s1 s h
      -- how the step changes the flag
      have hflag : (x.isTable = true → s1.app = false) ∧ (x = .append → s1.app = true) ∧
          (x.isTable = false → x ≠ .append → s1.app = s0.app) := by
        cases x <;> simp only [parseStep] at hx
        case table n =>
          refine ⟨fun _ => ?_, (fun h => by cases h), (fun h => by simp [Line.isTable] at h)⟩
          split at hx
          · cases g <;> simp only at hx <;> cases hx; rfl
          · cases hx; rfl
        case chain n p =>
          refine ⟨(fun h => by simp [Line.isTable] at h), (fun h => by cases h), fun _ _ => ?_⟩
          split at hx
          · cases hx
          · split at hx
            · cases g <;> simp only at hx <;> cases hx; rfl
            · cases hx; rfl
        case chainShort =>
          refine ⟨(fun h => by simp [Line.isTable] at h), (fun h => by cases h), fun _ _ => ?_⟩
          split at hx <;> cases hx; rfl
        case rule c tx tg =>
          refine ⟨(fun h => by simp [Line.isTable] at h), (fun h => by cases h), fun _ _ => ?_⟩
          split at hx
          · cases hx
          · split at hx <;> cases hx; rfl
        case append => cases hx; exact ⟨(fun h => by simp [Line.isTable] at h), (fun _ => rfl), fun _ h => absurd rfl h⟩
        case commit => cases hx; exact ⟨(fun h => by simp [Line.isTable] at h), (fun h => by cases h), fun _ _ => rfl⟩
        case other => cases hx
      rw [hih]
      constructor
      · rintro (⟨u, w, hu, hw⟩ | ⟨h1, hxs⟩)
        · exact Or.inl ⟨x :: u, w, by rw [hu]; rfl, hw⟩
        · by_cases hxa : x = .append
          · exact Or.inl ⟨[], xs, by rw [hxa]; rfl, hxs⟩
          · by_cases hxt : x.isTable = true
            · rw [hflag.1 hxt] at h1; cases h1
            · have hxt' : x.isTable = false := by simpa using hxt
              rw [hflag.2.2 hxt' hxa] at h1
              exact Or.inr ⟨h1, fun y hy => by
                rcases List.mem_cons.mp hy with rfl | hy'
                · exact hxt'
                · exact hxs y hy'⟩
      · rintro (⟨u, w, hu, hw⟩ | ⟨h0, hall⟩)
        · cases u with
          | nil =>
            simp only [List.nil_append, List.cons.injEq] at hu
            obtain ⟨rfl, rfl⟩ := hu
            exact Or.inr ⟨hflag.2.1 rfl, hw⟩
          | cons y u' =>
            simp only [List.cons_append, List.cons.injEq] at hu
            exact Or.inl ⟨u', w, hu.2, hw⟩
        · have hxt : x.isTable = false := hall x List.mem_cons_self
          by_cases hxa : x = .append
          · exact Or.inr ⟨hflag.2.1 hxa, fun y hy => hall y (List.mem_cons_of_mem _ hy)⟩
          · exact Or.inr ⟨by rw [hflag.2.2 hxt hxa]; exact h0, fun y hy => hall y (List.mem_cons_of_mem _ hy)⟩

/-! ### The merge -/

def isDropK (k : Kind) : Bool := k == .deny

/-- Rules merged into a builtin chain: non-APPEND raw rules, Netspoc's rules up to the last non-DROP rule,
APPEND raw rules, Netspoc's trailing DROP rules. -/
theorem mergeRules_placed (a b : List Rule) :
    G.PlacedL ruleKind isDropK (b.filter (fun r => !r.app)) a (b.filter (fun r => r.app)) (mergeRules a b) := by
  unfold mergeRules G.mergeVia
  have hp := placed_insert Entry.isDrop (nonApp (G.tagList ruleKind (·.app) a.length b)) (G.tagList ruleKind (·.app) 0 a)
    (appPart (G.tagList ruleKind (·.app) a.length b))
  have hv : ∀ e ∈ G.tagList ruleKind (·.app) 0 a, G.Valid ruleKind (·.app) (a ++ b) e := by
    have := G.tag_valid ruleKind (·.app) [] a b
    simpa using this
  have ht := G.placed_transfer ruleKind (·.app) (a ++ b) Entry.isDrop isDropK (fun _ => rfl) _ _ _ _ hv hp
  have h1 : G.pick (a ++ b) (G.tagList ruleKind (·.app) 0 a) = a := by
    have := G.pick_tag ruleKind (·.app) [] a b; simpa using this
  have h2 : G.pick (a ++ b) (nonApp (G.tagList ruleKind (·.app) a.length b)) = b.filter (fun r => !r.app) := by
    have := G.pick_tag_filter ruleKind (·.app) (fun x => !x) a b []
    simpa [nonApp] using this
  have h3 : G.pick (a ++ b) (appPart (G.tagList ruleKind (·.app) a.length b)) = b.filter (fun r => r.app) := by
    have := G.pick_tag_filter ruleKind (·.app) (fun x => x) a b []
    simpa [appPart] using this
  rw [h1, h2, h3] at ht
  exact ht

theorem mergeRules_mem (a b : List Rule) (r : Rule) : r ∈ mergeRules a b ↔ r ∈ a ∨ r ∈ b := by
  have hp := (mergeRules_placed a b).perm
  rw [hp.mem_iff]
  simp only [List.mem_append, List.mem_filter]
  constructor
  · rintro ((⟨h, _⟩ | h) | ⟨h, _⟩)
    · exact Or.inr h
    · exact Or.inl h
    · exact Or.inr h
  · rintro (h | h)
    · exact Or.inl (Or.inr h)
    · by_cases ha : r.app = true
      · exact Or.inr ⟨h, ha⟩
      · exact Or.inl (Or.inl ⟨h, by simpa using ha⟩)

theorem mem_insertChain (c x : Chain) (l : List Chain) : x ∈ insertChain c l ↔ x = c ∨ x ∈ l := by
  induction l with
  | nil => simp [insertChain]
  | cons y ys ih =>
    unfold insertChain
    split
    · simp
    · simp only [List.mem_cons, ih]
      constructor
      · rintro (h | h | h)
        · exact Or.inr (Or.inl h)
        · exact Or.inl h
        · exact Or.inr (Or.inr h)
      · rintro (h | h | h)
        · exact Or.inr (Or.inl h)
        · exact Or.inl h
        · exact Or.inr (Or.inr h)

theorem mem_sortChains (x : Chain) (l : List Chain) : x ∈ sortChains l ↔ x ∈ l := by
  unfold sortChains
  induction l with
  | nil => simp
  | cons y ys ih => simp only [List.foldr_cons, mem_insertChain, ih, List.mem_cons]

/-- Rule `r` is stored in chain `n` of table `t`. -/
def Has (cs : List Chain) (t n : String) (r : Rule) : Prop := ∃ c ∈ cs, c.table = t ∧ c.name = n ∧ r ∈ c.rules

theorem sameChain_iff (t n : String) (c : Chain) : sameChain t n c = true ↔ c.table = t ∧ c.name = n := by
  simp [sameChain]

/-- One chain of the merged part: nothing stored so far is lost, all its rules are stored. -/
theorem chainStep_keeps (a0 : List String) (acc acc' : Conf) (cb : Chain) (h : chainStep a0 acc cb = .ok acc') :
    (∀ t n r, Has acc.chains t n r → Has acc'.chains t n r) ∧ (∀ r ∈ cb.rules, Has acc'.chains cb.table cb.name r) := by
  unfold chainStep at h
  split at h
  · cases h
    exact ⟨fun t n r ⟨c, hc, h1⟩ => ⟨c, List.mem_append_left _ hc, h1⟩,
           fun r hr => ⟨cb, by simp, rfl, rfl, hr⟩⟩
  · split at h
    · cases h
      exact ⟨fun t n r ⟨c, hc, h1⟩ => ⟨c, List.mem_append_left _ hc, h1⟩,
             fun r hr => ⟨cb, by simp, rfl, rfl, hr⟩⟩
    · rename_i ca hfind
      split at h
      · cases h
      · cases h
        constructor
        · rintro t n r ⟨c, hc, ht, hn, hr⟩
          by_cases hs : sameChain cb.table cb.name c = true
          · refine ⟨{ c with rules := mergeRules c.rules cb.rules }, ?_, ht, hn, (mergeRules_mem _ _ r).mpr (Or.inl hr)⟩
            exact List.mem_map.mpr ⟨c, hc, by simp [hs]⟩
          · exact ⟨c, List.mem_map.mpr ⟨c, hc, by simp [hs]⟩, ht, hn, hr⟩
        · intro r hr
          have hca : ca ∈ acc.chains := List.mem_of_find?_eq_some hfind
          have hs : sameChain cb.table cb.name ca = true := by
            have := List.find?_some hfind; simpa using this
          obtain ⟨h1, h2⟩ := (sameChain_iff _ _ _).mp hs
          exact ⟨{ ca with rules := mergeRules ca.rules cb.rules }, List.mem_map.mpr ⟨ca, hca, by simp [hs]⟩, h1, h2,
            (mergeRules_mem _ _ r).mpr (Or.inr hr)⟩

theorem fold_keeps (a0 : List String) : ∀ (l : List Chain) (acc acc' : Conf), foldX (chainStep a0) acc l = .ok acc' →
    (∀ t n r, Has acc.chains t n r → Has acc'.chains t n r) ∧
    (∀ cb ∈ l, ∀ r ∈ cb.rules, Has acc'.chains cb.table cb.name r) := by
  intro l
  induction l with
  | nil => intro acc acc' h; simp only [foldX, Except.ok.injEq] at h; subst h; exact ⟨fun _ _ _ h => h, fun _ h => by cases h⟩
  | cons x xs ih =>
    intro acc acc' h
    simp only [foldX] at h
    cases hx : chainStep a0 acc x with
    | error e => rw [hx] at h; cases h
    | ok a1 =>
      rw [hx] at h
      obtain ⟨k1, k2⟩ := chainStep_keeps a0 acc a1 x hx
      obtain ⟨i1, i2⟩ := ih a1 acc' h
      refine ⟨fun t n r hh => i1 t n r (k1 t n r hh), fun cb hcb r hr => ?_⟩
      rcases List.mem_cons.mp hcb with rfl | hcb'
      · exact i1 _ _ r (k2 r hr)
      · exact i2 cb hcb' r hr

end L

end NA.C18
