import NA.Proofs.C05Routes
/-!
C05, iptables: `diffIPTables` reports nothing iff the two rule sets are extensionally equal.
-/
namespace NA.C05
open NA.Linux

/-! ### association lists -/

theorem mem_keysA {β : Type} (k : Str) (m : List (Str × β)) : k ∈ keysA m ↔ hasA k m = true := by
  induction m with
  | nil => simp [keysA, hasA, getA]
  | cons x xs ih =>
    obtain ⟨k', v⟩ := x
    simp only [keysA, List.map_cons, List.mem_cons, hasA, getA] at ih ⊢
    by_cases h : k' = k
    · simp [h]
    · have h' : ¬ k = k' := fun e => h e.symm
      simp [h, h', ih]

theorem hasA_iff {β : Type} (k : Str) (m : List (Str × β)) : hasA k m = true ↔ ∃ v, getA k m = some v := by
  simp [hasA, Option.isSome_iff_exists]

theorem mem_sortStrs (k : Str) (l : List Str) : k ∈ sortStrs l ↔ k ∈ l := (isort_perm _ l).mem_iff

theorem commaJoin_nil_iff (l : List Str) (h : [] ∉ l) : (commaJoin l).isEmpty = true ↔ l = [] := by
  constructor
  · intro he
    cases l with
    | nil => rfl
    | cons x xs =>
      exfalso
      have hx : x ≠ [] := fun e => h (by simp [e])
      cases x with
      | nil => exact hx rfl
      | cons c cs => cases xs <;> simp [commaJoin, joinWith] at he
  · intro e; subst e; rfl

/-- `checkExtra` finds nothing iff both maps have the same keys — provided no key is the empty
string (the code tests the comma-joined names for emptiness). -/
theorem checkExtra_none {α β : Type} (a : List (Str × α)) (b : List (Str × β))
    (hna : [] ∉ keysA a) (hnb : [] ∉ keysA b) :
    checkExtra a b = none ↔ ∀ k, hasA k a = hasA k b := by
  have hmem : ∀ {γ δ : Type} (x : List (Str × γ)) (y : List (Str × δ)), [] ∉ keysA x → [] ∉ getExtra x y := by
    intro γ δ x y hx hm
    simp only [getExtra, List.mem_filter, mem_sortStrs] at hm
    exact hx hm.1
  have hx : ∀ {γ δ : Type} (x : List (Str × γ)) (y : List (Str × δ)), [] ∉ keysA x →
      ((commaJoin (getExtra x y)).isEmpty = true ↔ ∀ k, hasA k x = true → hasA k y = true) := by
    intro γ δ x y hnx
    rw [commaJoin_nil_iff _ (hmem x y hnx)]
    simp only [getExtra, List.filter_eq_nil_iff, mem_sortStrs, mem_keysA]
    constructor
    · intro h k hk; simpa using h k hk
    · intro h k hk; simpa using h k hk
  unfold checkExtra
  constructor
  · intro h
    have h' : (commaJoin (getExtra a b)).isEmpty = true ∧ (commaJoin (getExtra b a)).isEmpty = true := by
      by_cases hc : ((commaJoin (getExtra a b)).isEmpty && (commaJoin (getExtra b a)).isEmpty) = true
      · simpa using hc
      · simp [hc] at h
    intro k
    have h1 := (hx a b hna).mp h'.1 k
    have h2 := (hx b a hnb).mp h'.2 k
    cases ha : hasA k a <;> cases hb : hasA k b <;> simp_all
  · intro h
    have h1 : (commaJoin (getExtra a b)).isEmpty = true := (hx a b hna).mpr (fun k hk => by rw [← h k]; exact hk)
    have h2 : (commaJoin (getExtra b a)).isEmpty = true := (hx b a hnb).mpr (fun k hk => by rw [h k]; exact hk)
    simp [h1, h2]

/-- No key is the empty string, at any level of a rule set. -/
def NEPairs (p : Pairs) : Prop := [] ∉ keysA p
def NERules (l : List Rule) : Prop := ∀ r ∈ l, NEPairs r.pairs
def NEChains (cm : Chains) : Prop := [] ∉ keysA cm ∧ ∀ c ch, getA c cm = some ch → NERules ch.rules
def NETables (tb : Tables) : Prop := [] ∉ keysA tb ∧ ∀ t cm, getA t tb = some cm → NEChains cm

/-! ### extensional equality -/

def PairsEq (p q : Pairs) : Prop := ∀ k, getA k p = getA k q

def RulesEq : List Rule → List Rule → Prop
  | [], [] => True
  | a :: as, b :: bs => PairsEq a.pairs b.pairs ∧ RulesEq as bs
  | _, _ => False

def ChainEq (a b : Chain) : Prop := a.policy = b.policy ∧ RulesEq a.rules b.rules

def ChainsEq (a b : Chains) : Prop := ∀ c,
  match getA c a, getA c b with
  | none, none => True
  | some x, some y => ChainEq x y
  | _, _ => False

/-- Same tables; in each the same chains; for each chain the same policy and, rule by rule in
order, the same option map. -/
def TablesEq (a b : Tables) : Prop := ∀ t,
  match getA t a, getA t b with
  | none, none => True
  | some x, some y => ChainsEq x y
  | _, _ => False

theorem firstDiff_same {α : Type} (f : α → IptDiff) (l : List α) :
    firstDiff f l = .same ↔ ∀ x ∈ l, f x = .same := by
  induction l with
  | nil => simp [firstDiff]
  | cons x xs ih =>
    simp only [firstDiff, List.mem_cons, forall_eq_or_imp]
    cases h : f x <;> simp [ih]

theorem diffRule_same (t c : Str) (i : Nat) (a b : Pairs) (hna : NEPairs a) (hnb : NEPairs b) :
    diffRule t c i a b = .same ↔ PairsEq a b := by
  unfold diffRule
  cases hce : checkExtra a b with
  | some x =>
    obtain ⟨ae, be⟩ := x
    simp only [reduceCtorEq, false_iff]
    intro heq
    have := (checkExtra_none a b hna hnb).mpr (fun k => by simp [hasA, heq k])
    simp [hce] at this
  | none =>
    have hk := (checkExtra_none a b hna hnb).mp hce
    simp only
    split
    · rename_i hemp
      simp only [true_iff]
      have hall : ∀ k, k ∈ keysA a → (getA k b).getD [] = (getA k a).getD [] := by
        intro k hk'
        have := List.filterMap_eq_nil_iff.mp (List.isEmpty_iff.mp hemp) k ((mem_sortStrs k _).mpr hk')
        by_cases hv : (getA k b).getD [] = (getA k a).getD []
        · exact hv
        · simp [hv] at this
      intro k
      cases ha : getA k a with
      | none =>
        have : hasA k b = false := by rw [← hk k]; simp [hasA, ha]
        have : getA k b = none := by simpa [hasA] using this
        rw [this]
      | some v =>
        have hka : hasA k a = true := by simp [hasA, ha]
        have hkb : hasA k b = true := by rw [← hk k]; exact hka
        obtain ⟨v2, hv2⟩ := (hasA_iff k b).mp hkb
        have := hall k ((mem_keysA k a).mpr hka)
        simp [ha, hv2] at this
        rw [hv2, this]
    · rename_i hne
      simp only [reduceCtorEq, false_iff]
      intro heq
      apply hne
      apply List.isEmpty_iff.mpr
      apply List.filterMap_eq_nil_iff.mpr
      intro k _
      simp [heq k]

theorem diffRules_same (t c : Str) : ∀ (i : Nat) (as bs : List Rule), as.length = bs.length →
    NERules as → NERules bs → (diffRules t c i as bs = .same ↔ RulesEq as bs) := by
  intro i as
  induction as generalizing i with
  | nil => intro bs h _ _; cases bs <;> simp_all [diffRules, RulesEq]
  | cons a as ih =>
    intro bs h hna hnb
    cases bs with
    | nil => simp at h
    | cons b bs =>
      simp only [List.length_cons, Nat.add_right_cancel_iff] at h
      simp only [diffRules, RulesEq]
      rw [← diffRule_same t c i a.pairs b.pairs (hna a (by simp)) (hnb b (by simp)),
        ← ih (i + 1) bs h (fun r hr => hna r (by simp [hr])) (fun r hr => hnb r (by simp [hr]))]
      cases hd : diffRule t c i a.pairs b.pairs <;> simp

theorem RulesEq_length : ∀ (as bs : List Rule), RulesEq as bs → as.length = bs.length := by
  intro as
  induction as with
  | nil => intro bs h; cases bs <;> simp_all [RulesEq]
  | cons a as ih =>
    intro bs h
    cases bs with
    | nil => simp [RulesEq] at h
    | cons b bs => simp [RulesEq] at h; simp [ih bs h.2]

theorem diffChain_same (t c : Str) (a b : Chain) (hna : NERules a.rules) (hnb : NERules b.rules) :
    diffChain t c a b = .same ↔ ChainEq a b := by
  unfold diffChain ChainEq
  by_cases hp : a.policy = b.policy
  · by_cases hl : a.rules.length = b.rules.length
    · simp [hp, hl, diffRules_same t c 0 _ _ hl hna hnb]
    · simp only [hp, ne_eq, not_true_eq_false, ↓reduceIte, hl, not_false_eq_true, reduceCtorEq, true_and, false_iff]
      intro h; exact hl (RulesEq_length _ _ h)
  · simp [hp]

theorem getD_of_some {β : Type} [Inhabited β] {k : Str} {m : List (Str × β)} {v : β} (h : getA k m = some v) :
    (getA k m).getD default = v := by simp [h]

theorem diffTable_same (t : Str) (a b : Chains) (hna : NEChains a) (hnb : NEChains b) :
    diffTable t a b = .same ↔ ChainsEq a b := by
  unfold diffTable
  cases hce : checkExtra a b with
  | some x =>
    obtain ⟨ae, be⟩ := x
    simp only [reduceCtorEq, false_iff]
    intro heq
    have := (checkExtra_none a b hna.1 hnb.1).mpr (fun k => by
      have := heq k
      cases ha : getA k a <;> cases hb : getA k b <;> simp_all [hasA])
    simp [hce] at this
  | none =>
    have hk := (checkExtra_none a b hna.1 hnb.1).mp hce
    simp only [firstDiff_same, mem_sortStrs, mem_keysA]
    constructor
    · intro h c
      cases ha : getA c a with
      | none =>
        have : hasA c b = false := by rw [← hk c]; simp [hasA, ha]
        have : getA c b = none := by simpa [hasA] using this
        simp [this]
      | some x =>
        have hka : hasA c a = true := by simp [hasA, ha]
        obtain ⟨y, hy⟩ := (hasA_iff c b).mp (by rw [← hk c]; exact hka)
        have := (diffChain_same t c _ _ (by rw [getD_of_some ha]; exact hna.2 c x ha) (by rw [getD_of_some hy]; exact hnb.2 c y hy)).mp (h c hka)
        simpa [ha, hy] using this
    · intro h c hc
      obtain ⟨x, hx⟩ := (hasA_iff c a).mp hc
      obtain ⟨y, hy⟩ := (hasA_iff c b).mp (by rw [← hk c]; exact hc)
      have := h c
      simp only [hx, hy] at this
      apply (diffChain_same t c _ _ (by rw [getD_of_some hx]; exact hna.2 c x hx) (by rw [getD_of_some hy]; exact hnb.2 c y hy)).mpr
      simpa [hx, hy] using this

/-- `diffIPTables` reports no difference iff the rule sets are extensionally equal. -/
theorem diffIPTables_same (a b : Tables) (hna : NETables a) (hnb : NETables b) :
    diffIPTables a b = .same ↔ TablesEq a b := by
  unfold diffIPTables
  cases hce : checkExtra a b with
  | some x =>
    obtain ⟨ae, be⟩ := x
    simp only [reduceCtorEq, false_iff]
    intro heq
    have := (checkExtra_none a b hna.1 hnb.1).mpr (fun k => by
      have := heq k
      cases ha : getA k a <;> cases hb : getA k b <;> simp_all [hasA])
    simp [hce] at this
  | none =>
    have hk := (checkExtra_none a b hna.1 hnb.1).mp hce
    simp only [firstDiff_same, mem_sortStrs, mem_keysA]
    constructor
    · intro h t
      cases ha : getA t a with
      | none =>
        have : hasA t b = false := by rw [← hk t]; simp [hasA, ha]
        have : getA t b = none := by simpa [hasA] using this
        simp [this]
      | some x =>
        have hka : hasA t a = true := by simp [hasA, ha]
        obtain ⟨y, hy⟩ := (hasA_iff t b).mp (by rw [← hk t]; exact hka)
        have := (diffTable_same t _ _ (by simpa [ha] using hna.2 t x ha) (by simpa [hy] using hnb.2 t y hy)).mp (h t hka)
        simpa [ha, hy] using this
    · intro h t ht
      obtain ⟨x, hx⟩ := (hasA_iff t a).mp ht
      obtain ⟨y, hy⟩ := (hasA_iff t b).mp (by rw [← hk t]; exact ht)
      have := h t
      simp only [hx, hy] at this
      apply (diffTable_same t _ _ (by simpa [hx] using hna.2 t x hx) (by simpa [hy] using hnb.2 t y hy)).mpr
      simpa [hx, hy] using this

end NA.C05
