import NA.Proofs.F1DiffAcl
/-!
# F1: the access-group anchors (`makeEqual` for every kept pair) on the strict device
-/
namespace NA.F1
open NA.AsaDev
open NA.Acl (Range)


theorem mem_setAssoc {κ β : Type} [BEq κ] [LawfulBEq κ] {m : List (κ × β)} {k : κ} {v : β} {p : κ × β}
    (h : p ∈ setAssoc m k v) : p = (k, v) ∨ (p ∈ m ∧ p.1 ≠ k) := by
  rw [setAssoc_eq] at h
  split at h
  · unfold mapSet at h
    obtain ⟨q, hq, rfl⟩ := List.mem_map.mp h
    by_cases e1 : q.1 = k
    · left; simp [e1]
    · right
      have : (q.1 == k) = false := by simpa using e1
      simp only [this, Bool.false_eq_true, if_false]
      exact ⟨hq, e1⟩
  · rename_i hn
    rcases List.mem_append.mp h with h1 | h1
    · right
      refine ⟨h1, ?_⟩
      intro e1
      apply hn
      exact List.any_eq_true.mpr ⟨p, h1, by simp [e1]⟩
    · left; simpa using h1

theorem lookup_of_mem_nodup' {κ β : Type} [BEq κ] [LawfulBEq κ] : ∀ (m : List (κ × β)) (n : κ) (v : β),
    (m.map (·.1)).Nodup → (n, v) ∈ m → m.lookup n = some v := by
  intro m
  induction m with
  | nil => intro n v _ h; simp at h
  | cons p ps ih =>
    intro n v hnd hm
    obtain ⟨k, w⟩ := p
    simp only [List.map_cons, List.nodup_cons] at hnd
    rcases List.mem_cons.mp hm with e1 | e1
    · simp only [Prod.mk.injEq] at e1
      obtain ⟨rfl, rfl⟩ := e1
      simp [List.lookup]
    · have hne : n ≠ k := fun e2 => hnd.1 (e2 ▸ List.mem_map.mpr ⟨(n, v), e1, rfl⟩)
      have hb : (n == k) = false := by simpa using hne
      simp only [List.lookup, hb]
      exact ih n v hnd.2 e1

theorem any_of_lookup {κ β : Type} [BEq κ] [LawfulBEq κ] {m : List (κ × β)} {k : κ} {v : β} (h : m.lookup k = some v) :
    m.any (·.1 == k) = true := by
  induction m with
  | nil => simp [List.lookup] at h
  | cons p ps ih =>
    obtain ⟨k2, v2⟩ := p
    simp only [List.lookup] at h
    by_cases e1 : k = k2
    · subst e1; simp
    · have hb : (k == k2) = false := by simpa using e1
      simp only [hb] at h
      simp [ih h]

/-- The invariant of the run over the access-group pairs: `pend` = device commands not yet handled,
`done` = target commands already handled. -/
structure BInv (e : Env) (st : St) (d : Dev) (pend : List Nat) (done : List Bind) : Prop where
  full : Full e st d
  intfs : d.intfs = e.a.intfs
  bkeys : (d.binds.map (·.1)).Nodup
  keysEq : d.binds.map (·.1) = e.a.binds.map fun x => (x.dir, x.intf)
  pendOrig : ∀ i ∈ pend, d.binds.lookup (keyOf e i) = some (aclOfI e i)
  frozenVals : ∀ p ∈ d.binds, FrozenAcl e st p.2 ∨ ∃ i ∈ pend, p.1 = keyOf e i
  doneOK : ∀ b ∈ done, b.acl ∈ st.aReady ∧ d.binds.lookup (b.dir, b.intf) = some (st.aNameOf b.acl)
  routes : d.routes = (ofConfig e.a).routes

/-- `Full` does not look at bindings, routes and interfaces of the device. -/
theorem Full.of_dev {e : Env} {st st' : St} {d d' : Dev} (h : Full e st d) (hg : d'.groups = d.groups)
    (ha : d'.acls = d.acls) (hm : ModeRel st' d')
    (g1 : st'.gNeeded = st.gNeeded) (g2 : st'.gReady = st.gReady) (g3 : st'.gName = st.gName)
    (a1 : st'.aNeeded = st.aNeeded) (a2 : st'.aReady = st.aReady) (a3 : st'.aName = st.aName) : Full e st' d' := by
  have hgN : ∀ x ∈ st.gNeeded, x ∈ st'.gNeeded := fun y hy => by rw [g1]; exact hy
  have hfa : ∀ x, FrozenAcl e st x → FrozenAcl e st' x := fun x hx => hx.mono (fun y hy => by rw [a1]; exact hy)
  have hfa' : ∀ x, FrozenAcl e st' x → FrozenAcl e st x := fun x hx => hx.mono (fun y hy => by rw [← a1]; exact hy)
  have hn : ∀ b, st'.aNameOf b = st.aNameOf b := fun b => by simp [St.aNameOf, a3]
  have hha : ∀ n, hasAcl d' n = hasAcl d n := fun n => by simp [hasAcl, ha]
  have hli : ∀ n, linesOf d' n = linesOf d n := fun n => by simp [linesOf, ha]
  have hhg : ∀ n, hasGroup d' n = hasGroup d n := fun n => by simp [hasGroup, hg]
  have hmg : ∀ n, membersOf d' n = membersOf d n := fun n => by simp [membersOf, hg]
  have hok : ∀ ls bl, AclOK e st d ls bl → AclOK e st' d' ls bl := fun ls bl h1 =>
    ⟨h1.1, fun p hp => ⟨(h1.2 p hp).1, (h1.2 p hp).2.1, fun q hq =>
      ⟨by rw [hhg]; exact ((h1.2 p hp).2.2 q hq).1, by rw [hmg]; exact ((h1.2 p hp).2.2 q hq).2.1,
        ((h1.2 p hp).2.2 q hq).2.2.mono hgN⟩⟩⟩
  refine ⟨h.sem.transport hg hm g1 g2 g3, by rw [ha]; exact h.keysNodup, fun n hn' => by rw [hha]; exact h.devAcls n hn',
    ?_, ?_, ?_, ?_⟩
  · intro n hn' hnn; rw [hli]; exact h.untouched n hn' (by rw [← a1]; exact hnn)
  · intro b hb
    rw [a2] at hb
    obtain ⟨r1, r2, r3⟩ := h.ready b hb
    rw [hn, hha, hli]
    exact ⟨r1, hok _ _ r2, hfa _ r3⟩
  · intro b hbB hb
    rw [a2] at hb
    rw [hn, hha]; exact h.unready b hbB hb
  · intro X hX hf
    rw [hli]
    exact (h.frozenLines X (by rw [← hha]; exact hX) (hfa' X hf)).mono hgN

/-- `makeEqual` for one pair of access-group commands. -/
theorem makeEqualBind_full (e : Env) (hw : WF e) (hA : RefsClosedA e) (hB : RefsClosedB e) (st : St) (d : Dev)
    (i : Nat) (pend : List Nat) (done : List Bind) (b : Bind)
    (hI : BInv e st d (i :: pend) done) (hc : pairCheck e st i b = true)
    (hpk : ∀ j ∈ pend, keyOf e j ≠ keyOf e i)
    (hdk : ∀ b' ∈ done, (b'.dir, b'.intf) ≠ (b.dir, b.intf)) :
    ∃ d', Step e st d (makeEqualBind e st i b) d' ∧ BInv e (makeEqualBind e st i b) d' pend (done ++ [b]) ∧
      (makeEqualBind e st i b).bToDel = st.bToDel ∧
      (∀ j, j ∈ (makeEqualBind e st i b).bNeeded ↔ j = i ∨ j ∈ st.bNeeded) := by
  unfold pairCheck at hc
  simp only [Bool.and_eq_true, beq_iff_eq, List.contains_eq_mem, decide_eq_true_eq] at hc
  obtain ⟨⟨⟨⟨⟨c1, c2⟩, c3⟩, c4⟩, c5⟩, c6⟩ := hc
  have hkey : keyOf e i = (b.dir, b.intf) := by unfold keyOf; rw [c1, c2]
  generalize hst1 : ({ st with bNeeded := makeEqualBind.addSet' i st.bNeeded } : St) = st1 at c6
  have hF1 : Full e st1 d := by rw [← hst1]; exact hI.full.of_marks rfl rfl rfl rfl rfl rfl rfl
  obtain ⟨d2, s2, f2, r2, n2, nd2, b2, ro2, bn2, bt2⟩ := diffAcl_full e hw hA hB st1 d hF1 (e.a.binds.getD i default).acl b.acl c3 c4 c6
  have s1 : Step e st d st1 d := by rw [← hst1]; exact Step.of_marks rfl rfl rfl rfl rfl
  have hbn1 : ∀ j, j ∈ st1.bNeeded ↔ j = i ∨ j ∈ st.bNeeded := by
    intro j; rw [← hst1]
    show j ∈ makeEqualBind.addSet' i st.bNeeded ↔ _
    unfold makeEqualBind.addSet'
    split
    · rename_i hx
      have : i ∈ st.bNeeded := by simpa using hx
      constructor
      · exact Or.inr
      · rintro (h1 | h1)
        · rw [h1]; exact this
        · exact h1
    · exact List.mem_cons
  have hbt1 : st1.bToDel = st.bToDel := by rw [← hst1]
  unfold makeEqualBind
  simp only []
  rw [hst1]
  generalize hq : diffAcl e st1 (e.a.binds.getD i default).acl b.acl = q at s2 f2 r2 n2 nd2 bn2 bt2 ⊢
  obtain ⟨st2, refName⟩ := q
  simp only at s2 f2 r2 n2 nd2 bn2 bt2 ⊢
  have nd2' : refName = aclOfI e i → aclOfI e i ∈ st2.aNeeded := nd2
  have horig : d2.binds.lookup (keyOf e i) = some (aclOfI e i) := by rw [b2]; exact hI.pendOrig i List.mem_cons_self
  by_cases hre : (refName != (e.a.binds.getD i default).acl) = true
  · -- the binding is re-pointed
    rw [if_pos hre]
    obtain ⟨hx1, _, hx3⟩ := f2.ready b.acl r2
    have hintf : d2.intfs.contains b.intf = true := by
      rw [s2.intfs, hI.intfs]; simpa using c5
    have hintf' : b.intf ∈ d2.intfs := by simpa using hintf
    have hex : exec1 d2 (.bind (printBind st2 b)) =
        .ok { d2 with binds := setAssoc d2.binds (b.dir, b.intf) (st2.aNameOf b.acl), mode := none } := by
      simp [exec1, printBind, hx1, hintf']
    generalize hd3 : ({ d2 with binds := setAssoc d2.binds (b.dir, b.intf) (st2.aNameOf b.acl), mode := none } : Dev) = d3 at hex
    generalize hst3 : ({ (st2.emit (.bind (printBind st2 b))) with mode := "" }.hit "bind:changed-ref" : St) = st3
    have hF3 : Full e st3 d3 := by
      rw [← hst3, ← hd3]
      exact f2.of_dev rfl rfl (by unfold ModeRel; rfl) rfl rfl rfl rfl rfl rfl
    have s3 : Step e st2 d2 st3 d3 := by
      rw [← hst3]
      refine ⟨⟨[_], rfl, exec_single hex⟩, ?_, fun x hx => hx, ?_, fun x hx => hx, fun bN hb' => ⟨hb', rfl⟩, by rw [← hd3]⟩
      · intro x hx _; rw [← hd3]; exact ⟨hx, rfl⟩
      · intro X hX _; rw [← hd3]; exact ⟨hX, rfl⟩
    have hb3 : d3.binds = setAssoc d2.binds (b.dir, b.intf) (st2.aNameOf b.acl) := by rw [← hd3]
    have hname3 : ∀ x, st3.aNameOf x = st2.aNameOf x := fun x => by rw [← hst3]; rfl
    have hany : d2.binds.any (·.1 == (b.dir, b.intf)) = true := by rw [← hkey]; exact any_of_lookup horig
    refine ⟨d3, (s1.trans s2).trans s3, ⟨hF3, ?_, ?_, ?_, ?_, ?_, ?_, ?_⟩, ?_, ?_⟩
    · rw [← hd3, s2.intfs]; exact hI.intfs
    · rw [hb3, keys_setAssoc_existing _ _ _ hany, b2]; exact hI.bkeys
    · rw [hb3, keys_setAssoc_existing _ _ _ hany, b2]; exact hI.keysEq
    · intro j hj
      rw [hb3, lookup_setAssoc_ne _ _ _ _ (by rw [← hkey]; exact hpk j hj), b2]
      exact hI.pendOrig j (List.mem_cons_of_mem _ hj)
    · intro p hp
      rw [hb3] at hp
      rcases mem_setAssoc hp with h1 | ⟨h1, h2⟩
      · left; rw [h1]
        show FrozenAcl e st3 (st2.aNameOf b.acl)
        rw [← hst3]; exact hx3
      · rw [b2] at h1
        rcases hI.frozenVals p h1 with h3 | ⟨j, hj, h3⟩
        · left
          exact ((h3.mono s1.aGrow).mono s2.aGrow).mono s3.aGrow
        · right
          rcases List.mem_cons.mp hj with e1 | e1
          · exfalso; apply h2; rw [h3, e1, hkey]
          · exact ⟨j, e1, h3⟩
    · intro b' hb'
      rcases List.mem_append.mp hb' with h1 | h1
      · obtain ⟨q1, q2⟩ := hI.doneOK b' h1
        obtain ⟨t1, t2⟩ := ((s1.trans s2).trans s3).aReadyMono b'.acl q1
        refine ⟨t1, ?_⟩
        rw [hb3, lookup_setAssoc_ne _ _ _ _ (hdk b' h1), b2, t2]; exact q2
      · have hbb : b' = b := by simpa using h1
        rw [hbb]
        refine ⟨by rw [← hst3]; exact r2, ?_⟩
        rw [hb3, lookup_setAssoc_self, hname3]
    · rw [← hd3, ro2]; exact hI.routes
    · rw [← hst3]; exact bt2.trans hbt1
    · intro j; rw [← hst3]
      show j ∈ st2.bNeeded ↔ _
      rw [bn2]; exact hbn1 j
  · -- the binding stays
    rw [if_neg hre]
    have hrn : refName = aclOfI e i := by
      have : ¬ (refName != (e.a.binds.getD i default).acl) = true := hre
      simpa [aclOfI] using this
    have hneeded := nd2' hrn
    refine ⟨d2, s1.trans s2, ⟨f2, by rw [s2.intfs]; exact hI.intfs, by rw [b2]; exact hI.bkeys,
      by rw [b2]; exact hI.keysEq, ?_, ?_, ?_,
      by rw [ro2]; exact hI.routes⟩, bt2.trans hbt1, fun j => by rw [bn2]; exact hbn1 j⟩
    · intro j hj; rw [b2]; exact hI.pendOrig j (List.mem_cons_of_mem _ hj)
    · intro p hp
      rw [b2] at hp
      rcases hI.frozenVals p hp with h3 | ⟨j, hj, h3⟩
      · left; exact (h3.mono s1.aGrow).mono s2.aGrow
      · rcases List.mem_cons.mp hj with e1 | e1
        · left
          -- the entry of the handled command: its value is the device ACL, which is needed now
          have hl := lookup_of_mem_nodup' d.binds p.1 p.2 hI.bkeys hp
          rw [h3, e1, hI.pendOrig i List.mem_cons_self] at hl
          have : p.2 = aclOfI e i := by simpa using hl.symm
          rw [this]; exact Or.inl hneeded
        · right; exact ⟨j, e1, h3⟩
    · intro b' hb'
      rcases List.mem_append.mp hb' with h1 | h1
      · obtain ⟨q1, q2⟩ := hI.doneOK b' h1
        obtain ⟨t1, t2⟩ := (s1.trans s2).aReadyMono b'.acl q1
        exact ⟨t1, by rw [b2, t2]; exact q2⟩
      · have hbb : b' = b := by simpa using h1
        rw [hbb]
        refine ⟨r2, ?_⟩
        rw [← hkey, horig, ← n2, hrn]

/-- The run over all pairs. -/
theorem pairsFold_full (e : Env) (hw : WF e) (hA : RefsClosedA e) (hB : RefsClosedB e) :
    ∀ (ps : List (Nat × Bind)) (st : St) (d : Dev) (pend : List Nat) (done : List Bind),
    BInv e st d (ps.map (·.1) ++ pend) done → runCheck e st ps = true →
    ((ps.map (·.1) ++ pend).map (keyOf e)).Nodup →
    ((done ++ ps.map (·.2)).map fun b => (b.dir, b.intf)).Nodup →
    ∃ d', Step e st d (ps.foldl (fun st p => makeEqualBind e st p.1 p.2) st) d' ∧
      BInv e (ps.foldl (fun st p => makeEqualBind e st p.1 p.2) st) d' pend (done ++ ps.map (·.2)) ∧
      (ps.foldl (fun st p => makeEqualBind e st p.1 p.2) st).bToDel = st.bToDel ∧
      (∀ j, j ∈ (ps.foldl (fun st p => makeEqualBind e st p.1 p.2) st).bNeeded ↔ j ∈ ps.map (·.1) ∨ j ∈ st.bNeeded) := by
  intro ps
  induction ps with
  | nil =>
    intro st d pend done hI _ _ _
    exact ⟨d, Step.refl e st d, by simpa using hI, rfl, fun j => by simp⟩
  | cons p ps ih =>
    intro st d pend done hI hc hk hdk
    obtain ⟨i, b⟩ := p
    simp only [runCheck, Bool.and_eq_true] at hc
    simp only [List.map_cons, List.cons_append, List.nodup_cons] at hk
    obtain ⟨d1, s1, i1, bt1, bn1⟩ := makeEqualBind_full e hw hA hB st d i (ps.map (·.1) ++ pend) done b hI hc.1
      (by
        intro j hj e1
        apply hk.1
        rw [← e1]
        exact List.mem_map.mpr ⟨j, hj, rfl⟩)
      (by
        intro b' hb' e1
        rw [List.map_append, List.nodup_append] at hdk
        exact hdk.2.2 _ (List.mem_map.mpr ⟨b', hb', rfl⟩) _ (List.mem_map.mpr ⟨b, List.mem_cons_self, rfl⟩) e1)
    obtain ⟨d2, s2, i2, bt2, bn2⟩ := ih (makeEqualBind e st i b) d1 pend (done ++ [b]) i1 hc.2 hk.2
      (by simpa [List.append_assoc] using hdk)
    refine ⟨d2, by rw [List.foldl_cons]; exact s1.trans s2, ?_, by rw [List.foldl_cons]; exact bt2.trans bt1, ?_⟩
    · rw [List.foldl_cons]
      simpa [List.append_assoc] using i2
    · intro j
      rw [List.foldl_cons, bn2, bn1]
      simp only [List.map_cons, List.mem_cons]
      constructor
      · rintro (h1 | h1 | h1)
        · exact Or.inl (Or.inr h1)
        · exact Or.inl (Or.inl h1)
        · exact Or.inr h1
      · rintro ((h1 | h1) | h1)
        · exact Or.inr (Or.inl h1)
        · exact Or.inl h1
        · exact Or.inr (Or.inr h1)

theorem foldl_id_of_all {α σ : Type} (f : σ → α → σ) (l : List α) (s : σ) (h : ∀ x ∈ l, ∀ t, f t x = t) : l.foldl f s = s := by
  induction l generalizing s with
  | nil => rfl
  | cons x xs ih => rw [List.foldl_cons, h x List.mem_cons_self, ih s (fun y hy => h y (List.mem_cons_of_mem _ hy))]

theorem foldl_congr_mem {α σ : Type} (f g : σ → α → σ) : ∀ (l : List α) (s : σ), (∀ t, ∀ x ∈ l, f t x = g t x) →
    l.foldl f s = l.foldl g s := by
  intro l
  induction l with
  | nil => intro s _; rfl
  | cons x xs ih =>
    intro s h
    rw [List.foldl_cons, List.foldl_cons, h s x List.mem_cons_self]
    exact ih _ (fun t y hy => h t y (List.mem_cons_of_mem _ hy))

theorem foldl_flatMap' {α β σ : Type} (f : σ → β → σ) (g : α → List β) : ∀ (l : List α) (s : σ),
    (l.flatMap g).foldl f s = l.foldl (fun t x => (g x).foldl f t) s := by
  intro l
  induction l with
  | nil => intro s; rfl
  | cons x xs ih => intro s; simp [List.flatMap_cons, List.foldl_append, ih]

theorem diffBinds_eq_pairs (e : Env) (st : St) (al : List Nat) (bl : List Bind) (h : bindsShape e st al bl = true) :
    diffBinds e st al bl =
      (bindPairs al bl (diffUnordered (al.map fun i => (e.a.binds.getD i default).key) (bl.map (·.key)))).foldl
        (fun st p => makeEqualBind e st p.1 p.2) st := by
  unfold bindsShape at h
  simp only [Bool.and_eq_true, Bool.not_eq_true'] at h
  obtain ⟨⟨h1, h2⟩, h3⟩ := h
  unfold diffBinds
  simp only []
  rw [if_neg (by rw [h1]; simp), if_neg (by rw [h2]; simp)]
  generalize diffUnordered (al.map fun i => (e.a.binds.getD i default).key) (bl.map (·.key)) = diff at h3 ⊢
  rw [List.all_eq_true] at h3
  have hk : ∀ r ∈ diff, r.isDelete = false ∧ r.isInsert = false ∧ r.isEqual = true := by
    intro r hr
    have := h3 r hr
    simp only [Bool.and_eq_true, Bool.not_eq_true'] at this
    exact ⟨this.1.1, this.1.2, this.2⟩
  rw [foldl_id_of_all _ diff st (fun r hr t => by simp [(hk r hr).1])]
  unfold bindPairs
  rw [foldl_flatMap']
  apply foldl_congr_mem
  intro t r hr
  simp [(hk r hr).2.1, (hk r hr).2.2]

end NA.F1
