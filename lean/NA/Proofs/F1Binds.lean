import NA.Proofs.F1DiffAcl
/-!
# F1: the access-group anchors (`makeEqual` for every kept pair) on the strict device
-/
namespace NA.F1
open NA.AsaDev
open NA.Acl (Range)


theorem mem_setAssoc {κ β : Type} [BEq κ] [LawfulBEq κ] {m : List (κ × β)} {k : κ} {v : β} {p : κ × β}
    (h : p ∈ setAssoc m k v) : p = (k, v) ∨ (p ∈ m ∧ p.1 ≠ k) := by
  rw [setAssoc_eq] at h
  split at h
  · unfold mapSet at h
    obtain ⟨q, hq, rfl⟩ := List.mem_map.mp h
    by_cases e1 : q.1 = k
    · left; simp [e1]
    · right
      have : (q.1 == k) = false := by simpa using e1
      simp only [this, Bool.false_eq_true, if_false]
      exact ⟨hq, e1⟩
  · rename_i hn
    rcases List.mem_append.mp h with h1 | h1
    · right
      refine ⟨h1, ?_⟩
      intro e1
      apply hn
      exact List.any_eq_true.mpr ⟨p, h1, by simp [e1]⟩
    · left; simpa using h1

theorem lookup_of_mem_nodup' {κ β : Type} [BEq κ] [LawfulBEq κ] : ∀ (m : List (κ × β)) (n : κ) (v : β),
    (m.map (·.1)).Nodup → (n, v) ∈ m → m.lookup n = some v := by
  intro m
  induction m with
  | nil => intro n v _ h; simp at h
  | cons p ps ih =>
    intro n v hnd hm
    obtain ⟨k, w⟩ := p
    simp only [List.map_cons, List.nodup_cons] at hnd
    rcases List.mem_cons.mp hm with e1 | e1
    · simp only [Prod.mk.injEq] at e1
      obtain ⟨rfl, rfl⟩ := e1
      simp [List.lookup]
    · have hne : n ≠ k := fun e2 => hnd.1 (e2 ▸ List.mem_map.mpr ⟨(n, v), e1, rfl⟩)
      have hb : (n == k) = false := by simpa using hne
      simp only [List.lookup, hb]
      exact ih n v hnd.2 e1

theorem any_of_lookup {κ β : Type} [BEq κ] [LawfulBEq κ] {m : List (κ × β)} {k : κ} {v : β} (h : m.lookup k = some v) :
    m.any (·.1 == k) = true := by
  induction m with
  | nil => simp [List.lookup] at h
  | cons p ps ih =>
    obtain ⟨k2, v2⟩ := p
    simp only [List.lookup] at h
    by_cases e1 : k = k2
    · subst e1; simp
    · have hb : (k == k2) = false := by simpa using e1
      simp only [hb] at h
      simp [ih h]

/-- The invariant of the run over the access-group commands: `pend` = compared device commands not yet handled,
`done` = target commands already handled; `managed` = the compared device commands. -/
structure BInv (e : Env) (managed : List Nat) (st : St) (d : Dev) (pend : List Nat) (done : List Bind) : Prop where
  full : Full e st d
  intfs : d.intfs = e.a.intfs
  bkeys : (d.binds.map (·.1)).Nodup
  pendOrig : ∀ i ∈ pend, d.binds.lookup (keyOf e i) = some (aclOfI e i)
  pendNd : (pend.map (keyOf e)).Nodup
  pendLt : ∀ i ∈ pend, i < e.a.binds.length
  frozenVals : ∀ p ∈ d.binds, FrozenAcl e st p.2 ∨ ∃ i ∈ pend, p.1 = keyOf e i
  keysFrom : ∀ p ∈ d.binds, (∃ i ∈ pend, p.1 = keyOf e i) ∨ (∃ x ∈ done, p.1 = (x.dir, x.intf)) ∨
    (∃ i, i < e.a.binds.length ∧ i ∉ managed ∧ p.1 = keyOf e i)
  doneOK : ∀ b ∈ done, b.acl ∈ st.aReady ∧ d.binds.lookup (b.dir, b.intf) = some (st.aNameOf b.acl)
  doneDisj : ∀ b ∈ done, ∀ j ∈ pend, (b.dir, b.intf) ≠ keyOf e j
  routes : d.routes = (ofConfig e.a).routes

theorem inj_of_nodup_map {α β : Type} (f : α → β) : ∀ (l : List α), (l.map f).Nodup → ∀ x ∈ l, ∀ y ∈ l, f x = f y → x = y := by
  intro l
  induction l with
  | nil => intro _ x hx; simp at hx
  | cons a l ih =>
    intro h x hx y hy e1
    simp only [List.map_cons, List.nodup_cons] at h
    rcases List.mem_cons.mp hx with rfl | hx' <;> rcases List.mem_cons.mp hy with rfl | hy'
    · rfl
    · exact absurd (List.mem_map.mpr ⟨y, hy', e1.symm⟩) h.1
    · exact absurd (List.mem_map.mpr ⟨x, hx', e1⟩) h.1
    · exact ih h.2 x hx' y hy' e1

theorem mem_filter_ne {i j : Nat} {l : List Nat} : j ∈ l.filter (· != i) ↔ j ∈ l ∧ j ≠ i := by
  simp [List.mem_filter]

theorem nodup_map_filter {α β : Type} (f : α → β) (p : α → Bool) {l : List α} (h : (l.map f).Nodup) :
    ((l.filter p).map f).Nodup := List.Nodup.sublist (List.filter_sublist.map f) h

/-- `Full` does not look at bindings, routes and interfaces of the device. -/
theorem Full.of_dev {e : Env} {st st' : St} {d d' : Dev} (h : Full e st d) (hg : d'.groups = d.groups)
    (ha : d'.acls = d.acls) (hm : ModeRel st' d')
    (g1 : st'.gNeeded = st.gNeeded) (g2 : st'.gReady = st.gReady) (g3 : st'.gName = st.gName)
    (a1 : st'.aNeeded = st.aNeeded) (a2 : st'.aReady = st.aReady) (a3 : st'.aName = st.aName) : Full e st' d' := by
  have hgN : ∀ x ∈ st.gNeeded, x ∈ st'.gNeeded := fun y hy => by rw [g1]; exact hy
  have hfa : ∀ x, FrozenAcl e st x → FrozenAcl e st' x := fun x hx => hx.mono (fun y hy => by rw [a1]; exact hy)
  have hfa' : ∀ x, FrozenAcl e st' x → FrozenAcl e st x := fun x hx => hx.mono (fun y hy => by rw [← a1]; exact hy)
  have hn : ∀ b, st'.aNameOf b = st.aNameOf b := fun b => by simp [St.aNameOf, a3]
  have hha : ∀ n, hasAcl d' n = hasAcl d n := fun n => by simp [hasAcl, ha]
  have hli : ∀ n, linesOf d' n = linesOf d n := fun n => by simp [linesOf, ha]
  have hhg : ∀ n, hasGroup d' n = hasGroup d n := fun n => by simp [hasGroup, hg]
  have hmg : ∀ n, membersOf d' n = membersOf d n := fun n => by simp [membersOf, hg]
  have hok : ∀ ls bl, AclOK e st d ls bl → AclOK e st' d' ls bl := fun ls bl h1 =>
    ⟨h1.1, fun p hp => ⟨(h1.2 p hp).1, (h1.2 p hp).2.1, fun q hq =>
      ⟨by rw [hhg]; exact ((h1.2 p hp).2.2 q hq).1, by rw [hmg]; exact ((h1.2 p hp).2.2 q hq).2.1,
        ((h1.2 p hp).2.2 q hq).2.2.mono hgN⟩⟩⟩
  refine ⟨h.sem.transport hg hm g1 g2 g3, by rw [ha]; exact h.keysNodup, fun n hn' => by rw [hha]; exact h.devAcls n hn',
    ?_, ?_, ?_, ?_⟩
  · intro n hn' hnn; rw [hli]; exact h.untouched n hn' (by rw [← a1]; exact hnn)
  · intro b hb
    rw [a2] at hb
    obtain ⟨r1, r2, r3⟩ := h.ready b hb
    rw [hn, hha, hli]
    exact ⟨r1, hok _ _ r2, hfa _ r3⟩
  · intro b hbB hb
    rw [a2] at hb
    rw [hn, hha]; exact h.unready b hbB hb
  · intro X hX hf
    rw [hli]
    exact (h.frozenLines X (by rw [← hha]; exact hX) (hfa' X hf)).mono hgN

/-- `makeEqual` for one pair of access-group commands. -/
theorem makeEqualBind_full (e : Env) (managed : List Nat) (hw : WF e) (hA : RefsClosedA e) (hB : RefsClosedB e) (st : St) (d : Dev)
    (i : Nat) (pend : List Nat) (done : List Bind) (b : Bind)
    (hI : BInv e managed st d pend done) (hi : i ∈ pend) (hc : pairCheck e st i b = true) :
    ∃ d', Step e st d (makeEqualBind e st i b) d' ∧
      BInv e managed (makeEqualBind e st i b) d' (pend.filter (· != i)) (done ++ [b]) ∧
      (makeEqualBind e st i b).bToDel = st.bToDel ∧
      (∀ j, j ∈ (makeEqualBind e st i b).bNeeded ↔ j = i ∨ j ∈ st.bNeeded) := by
  have hpk : ∀ j ∈ pend.filter (· != i), keyOf e j ≠ keyOf e i := by
    intro j hj e1
    obtain ⟨h1, h2⟩ := mem_filter_ne.mp hj
    exact h2 (inj_of_nodup_map (keyOf e) pend hI.pendNd j h1 i hi e1)
  unfold pairCheck at hc
  simp only [Bool.and_eq_true, beq_iff_eq, List.contains_eq_mem, decide_eq_true_eq] at hc
  obtain ⟨⟨⟨⟨⟨c1, c2⟩, c3⟩, c4⟩, c5⟩, c6⟩ := hc
  have hkey : keyOf e i = (b.dir, b.intf) := by unfold keyOf; rw [c1, c2]
  have hdk : ∀ b' ∈ done, (b'.dir, b'.intf) ≠ (b.dir, b.intf) := fun b' hb' => by
    rw [← hkey]; exact hI.doneDisj b' hb' i hi
  generalize hst1 : ({ st with bNeeded := makeEqualBind.addSet' i st.bNeeded } : St) = st1 at c6
  have hF1 : Full e st1 d := by rw [← hst1]; exact hI.full.of_marks rfl rfl rfl rfl rfl rfl rfl
  obtain ⟨d2, s2, f2, r2, n2, nd2, b2, ro2, bn2, bt2⟩ := diffAcl_full e hw hA hB st1 d hF1 (e.a.binds.getD i default).acl b.acl c3 c4 c6
  have s1 : Step e st d st1 d := by rw [← hst1]; exact Step.of_marks rfl rfl rfl rfl rfl
  have hbn1 : ∀ j, j ∈ st1.bNeeded ↔ j = i ∨ j ∈ st.bNeeded := by
    intro j; rw [← hst1]
    show j ∈ makeEqualBind.addSet' i st.bNeeded ↔ _
    unfold makeEqualBind.addSet'
    split
    · rename_i hx
      have : i ∈ st.bNeeded := by simpa using hx
      constructor
      · exact Or.inr
      · rintro (h1 | h1)
        · rw [h1]; exact this
        · exact h1
    · exact List.mem_cons
  have hbt1 : st1.bToDel = st.bToDel := by rw [← hst1]
  unfold makeEqualBind
  simp only []
  rw [hst1]
  generalize hq : diffAcl e st1 (e.a.binds.getD i default).acl b.acl = q at s2 f2 r2 n2 nd2 bn2 bt2 ⊢
  obtain ⟨st2, refName⟩ := q
  simp only at s2 f2 r2 n2 nd2 bn2 bt2 ⊢
  have nd2' : refName = aclOfI e i → aclOfI e i ∈ st2.aNeeded := nd2
  have horig : d2.binds.lookup (keyOf e i) = some (aclOfI e i) := by rw [b2]; exact hI.pendOrig i hi
  by_cases hre : (refName != (e.a.binds.getD i default).acl) = true
  · -- the binding is re-pointed
    rw [if_pos hre]
    obtain ⟨hx1, _, hx3⟩ := f2.ready b.acl r2
    have hintf : d2.intfs.contains b.intf = true := by
      rw [s2.intfs, hI.intfs]; simpa using c5
    have hintf' : b.intf ∈ d2.intfs := by simpa using hintf
    have hex : exec1 d2 (.bind (printBind st2 b)) =
        .ok { d2 with binds := setAssoc d2.binds (b.dir, b.intf) (st2.aNameOf b.acl), mode := none } := by
      simp [exec1, printBind, hx1, hintf']
    generalize hd3 : ({ d2 with binds := setAssoc d2.binds (b.dir, b.intf) (st2.aNameOf b.acl), mode := none } : Dev) = d3 at hex
    generalize hst3 : ({ (st2.emit (.bind (printBind st2 b))) with mode := "" }.hit "bind:changed-ref" : St) = st3
    have hF3 : Full e st3 d3 := by
      rw [← hst3, ← hd3]
      exact f2.of_dev rfl rfl (by unfold ModeRel; rfl) rfl rfl rfl rfl rfl rfl
    have s3 : Step e st2 d2 st3 d3 := by
      rw [← hst3]
      refine ⟨⟨[_], rfl, exec_single hex⟩, ?_, fun x hx => hx, ?_, fun x hx => hx, fun bN hb' => ⟨hb', rfl⟩, by rw [← hd3]⟩
      · intro x hx _; rw [← hd3]; exact ⟨hx, rfl⟩
      · intro X hX _; rw [← hd3]; exact ⟨hX, rfl⟩
    have hb3 : d3.binds = setAssoc d2.binds (b.dir, b.intf) (st2.aNameOf b.acl) := by rw [← hd3]
    have hname3 : ∀ x, st3.aNameOf x = st2.aNameOf x := fun x => by rw [← hst3]; rfl
    have hany : d2.binds.any (·.1 == (b.dir, b.intf)) = true := by rw [← hkey]; exact any_of_lookup horig
    refine ⟨d3, (s1.trans s2).trans s3, ⟨hF3, ?_, ?_, ?_, nodup_map_filter _ _ hI.pendNd,
      fun j hj => hI.pendLt j (mem_filter_ne.mp hj).1, ?_, ?_, ?_, ?_, ?_⟩, ?_, ?_⟩
    · rw [← hd3, s2.intfs]; exact hI.intfs
    · rw [hb3, keys_setAssoc_existing _ _ _ hany, b2]; exact hI.bkeys
    · intro j hj
      rw [hb3, lookup_setAssoc_ne _ _ _ _ (by rw [← hkey]; exact hpk j hj), b2]
      exact hI.pendOrig j (mem_filter_ne.mp hj).1
    · intro p hp
      rw [hb3] at hp
      rcases mem_setAssoc hp with h1 | ⟨h1, h2⟩
      · left; rw [h1]
        show FrozenAcl e st3 (st2.aNameOf b.acl)
        rw [← hst3]; exact hx3
      · rw [b2] at h1
        rcases hI.frozenVals p h1 with h3 | ⟨j, hj, h3⟩
        · left
          exact ((h3.mono s1.aGrow).mono s2.aGrow).mono s3.aGrow
        · right
          by_cases e1 : j = i
          · exfalso; apply h2; rw [h3, e1, hkey]
          · exact ⟨j, mem_filter_ne.mpr ⟨hj, e1⟩, h3⟩
    · intro p hp
      rw [hb3] at hp
      rcases mem_setAssoc hp with h1 | ⟨h1, h2⟩
      · right; left; exact ⟨b, by simp, by rw [h1]⟩
      · rw [b2] at h1
        rcases hI.keysFrom p h1 with ⟨j, hj, h3⟩ | ⟨x, hx, h3⟩ | h3
        · by_cases e1 : j = i
          · exfalso; apply h2; rw [h3, e1, hkey]
          · exact Or.inl ⟨j, mem_filter_ne.mpr ⟨hj, e1⟩, h3⟩
        · exact Or.inr (Or.inl ⟨x, List.mem_append_left _ hx, h3⟩)
        · exact Or.inr (Or.inr h3)
    · intro b' hb'
      rcases List.mem_append.mp hb' with h1 | h1
      · obtain ⟨q1, q2⟩ := hI.doneOK b' h1
        obtain ⟨t1, t2⟩ := ((s1.trans s2).trans s3).aReadyMono b'.acl q1
        refine ⟨t1, ?_⟩
        rw [hb3, lookup_setAssoc_ne _ _ _ _ (hdk b' h1), b2, t2]; exact q2
      · have hbb : b' = b := by simpa using h1
        rw [hbb]
        refine ⟨by rw [← hst3]; exact r2, ?_⟩
        rw [hb3, lookup_setAssoc_self, hname3]
    · intro b' hb' j hj
      rcases List.mem_append.mp hb' with h1 | h1
      · exact hI.doneDisj b' h1 j (mem_filter_ne.mp hj).1
      · have hbb : b' = b := by simpa using h1
        rw [hbb, ← hkey]; exact fun h => hpk j hj h.symm
    · rw [← hd3, ro2]; exact hI.routes
    · rw [← hst3]; exact bt2.trans hbt1
    · intro j; rw [← hst3]
      show j ∈ st2.bNeeded ↔ _
      rw [bn2]; exact hbn1 j
  · -- the binding stays
    rw [if_neg hre]
    have hrn : refName = aclOfI e i := by
      have : ¬ (refName != (e.a.binds.getD i default).acl) = true := hre
      simpa [aclOfI] using this
    have hneeded := nd2' hrn
    refine ⟨d2, s1.trans s2, ⟨f2, by rw [s2.intfs]; exact hI.intfs, by rw [b2]; exact hI.bkeys,
      ?_, nodup_map_filter _ _ hI.pendNd, fun j hj => hI.pendLt j (mem_filter_ne.mp hj).1, ?_, ?_, ?_, ?_,
      by rw [ro2]; exact hI.routes⟩, bt2.trans hbt1, fun j => by rw [bn2]; exact hbn1 j⟩
    · intro j hj; rw [b2]; exact hI.pendOrig j (mem_filter_ne.mp hj).1
    · intro p hp
      rw [b2] at hp
      rcases hI.frozenVals p hp with h3 | ⟨j, hj, h3⟩
      · left; exact (h3.mono s1.aGrow).mono s2.aGrow
      · by_cases e1 : j = i
        · left
          -- the entry of the handled command: its value is the device ACL, which is needed now
          have hl := lookup_of_mem_nodup' d.binds p.1 p.2 hI.bkeys hp
          rw [h3, e1, hI.pendOrig i hi] at hl
          have : p.2 = aclOfI e i := by simpa using hl.symm
          rw [this]; exact Or.inl hneeded
        · right; exact ⟨j, mem_filter_ne.mpr ⟨hj, e1⟩, h3⟩
    · intro p hp
      rw [b2] at hp
      rcases hI.keysFrom p hp with ⟨j, hj, h3⟩ | ⟨x, hx, h3⟩ | h3
      · by_cases e1 : j = i
        · exact Or.inr (Or.inl ⟨b, by simp, by rw [h3, e1, hkey]⟩)
        · exact Or.inl ⟨j, mem_filter_ne.mpr ⟨hj, e1⟩, h3⟩
      · exact Or.inr (Or.inl ⟨x, List.mem_append_left _ hx, h3⟩)
      · exact Or.inr (Or.inr h3)
    · intro b' hb'
      rcases List.mem_append.mp hb' with h1 | h1
      · obtain ⟨q1, q2⟩ := hI.doneOK b' h1
        obtain ⟨t1, t2⟩ := (s1.trans s2).aReadyMono b'.acl q1
        exact ⟨t1, by rw [b2, t2]; exact q2⟩
      · have hbb : b' = b := by simpa using h1
        rw [hbb]
        refine ⟨r2, ?_⟩
        rw [← hkey, horig, ← n2, hrn]
    · intro b' hb' j hj
      rcases List.mem_append.mp hb' with h1 | h1
      · exact hI.doneDisj b' h1 j (mem_filter_ne.mp hj).1
      · have hbb : b' = b := by simpa using h1
        rw [hbb, ← hkey]; exact fun h => hpk j hj h.symm

/-! ## Removed and added access-group commands -/

/-- Only marks outside of the invariant differ. -/
structure Core (st st' : St) : Prop where
  out : st'.out = st.out
  mode : st'.mode = st.mode
  gNeeded : st'.gNeeded = st.gNeeded
  gReady : st'.gReady = st.gReady
  gName : st'.gName = st.gName
  aNeeded : st'.aNeeded = st.aNeeded
  aReady : st'.aReady = st.aReady
  aName : st'.aName = st.aName
  bNeeded : st'.bNeeded = st.bNeeded

theorem Core.refl (st : St) : Core st st := ⟨rfl, rfl, rfl, rfl, rfl, rfl, rfl, rfl, rfl⟩

theorem Core.trans {s1 s2 s3 : St} (h1 : Core s1 s2) (h2 : Core s2 s3) : Core s1 s3 :=
  ⟨h2.out.trans h1.out, h2.mode.trans h1.mode, h2.gNeeded.trans h1.gNeeded, h2.gReady.trans h1.gReady,
   h2.gName.trans h1.gName, h2.aNeeded.trans h1.aNeeded, h2.aReady.trans h1.aReady, h2.aName.trans h1.aName,
   h2.bNeeded.trans h1.bNeeded⟩

theorem markDeletedAcl_core (e : Env) (st : St) (aN : Name) : Core st (markDeletedAcl e st aN) := by
  unfold markDeletedAcl
  split
  · exact Core.refl st
  · exact ⟨rfl, rfl, rfl, rfl, rfl, rfl, rfl, rfl, rfl⟩

theorem markDeletedBinds_core (e : Env) (st : St) (idx : List Nat) : Core st (markDeletedBinds e st idx) := by
  unfold markDeletedBinds
  have key : ∀ (l : List Nat) (s : St), Core st s → Core st (l.foldl (fun st i =>
      if st.bToDel.contains i then st else
      markDeletedAcl e { st with bToDel := i :: st.bToDel } (e.a.binds.getD i default).acl) s) := by
    intro l
    induction l with
    | nil => intro s hs; exact hs
    | cons i is ih =>
      intro s hs
      rw [List.foldl_cons]
      apply ih
      split
      · exact hs
      · exact hs.trans ((⟨rfl, rfl, rfl, rfl, rfl, rfl, rfl, rfl, rfl⟩ : Core s { s with bToDel := i :: s.bToDel }).trans
          (markDeletedAcl_core e _ _))
  exact key idx st (Core.refl st)

theorem BInv.of_core {e : Env} {managed : List Nat} {st st' : St} {d : Dev} {pend : List Nat} {done : List Bind}
    (h : BInv e managed st d pend done) (c : Core st st') : BInv e managed st' d pend done := by
  have hfa : ∀ x, FrozenAcl e st x → FrozenAcl e st' x := fun x hx => hx.mono (fun y hy => by rw [c.aNeeded]; exact hy)
  refine ⟨h.full.of_marks c.mode c.gNeeded c.gReady c.gName c.aNeeded c.aReady c.aName, h.intfs, h.bkeys, h.pendOrig,
    h.pendNd, h.pendLt, ?_, h.keysFrom, ?_, h.doneDisj, h.routes⟩
  · intro p hp
    rcases h.frozenVals p hp with h1 | h1
    · exact Or.inl (hfa _ h1)
    · exact Or.inr h1
  · intro b hb
    obtain ⟨q1, q2⟩ := h.doneOK b hb
    exact ⟨by rw [c.aReady]; exact q1, by unfold St.aNameOf; rw [c.aName]; exact q2⟩

theorem filter_filter_not_contains (pend : List Nat) (i : Nat) (rest : List Nat) :
    (pend.filter (· != i)).filter (fun j => !rest.contains j) = pend.filter (fun j => !(i :: rest).contains j) := by
  rw [List.filter_filter]
  apply List.filter_congr
  intro j _
  simp only [List.contains_cons, Bool.not_or, bne, Bool.and_comm]

theorem keys_delAssoc_sublist {κ β : Type} [BEq κ] (m : List (κ × β)) (k : κ) :
    ((delAssoc m k).map (·.1)).Sublist (m.map (·.1)) := by
  unfold delAssoc
  exact List.filter_sublist.map _

theorem mem_delAssoc {κ β : Type} [BEq κ] [LawfulBEq κ] {m : List (κ × β)} {k : κ} {p : κ × β}
    (h : p ∈ delAssoc m k) : p ∈ m ∧ p.1 ≠ k := by
  unfold delAssoc at h
  obtain ⟨h1, h2⟩ := List.mem_filter.mp h
  exact ⟨h1, by simpa using h2⟩

theorem keyOf_mem_keys (e : Env) (i : Nat) (hi : i < e.a.binds.length) :
    keyOf e i ∈ e.a.binds.map fun x => (x.dir, x.intf) := by
  unfold keyOf
  rw [List.getD_eq_getElem?_getD, List.getElem?_eq_getElem hi]
  exact List.mem_map.mpr ⟨e.a.binds[i], List.getElem_mem hi, rfl⟩

/-- The first loop of `delBinds`: `no access-group …` for every command of the slice. -/
theorem delFold_full (e : Env) (managed : List Nat) : ∀ (idx : List Nat) (st : St) (d : Dev) (pend : List Nat) (done : List Bind),
    BInv e managed st d pend done → idx.Nodup → (∀ i ∈ idx, i ∈ pend ∧ i ∉ st.bNeeded) →
    ∃ d', Step e st d (idx.foldl (fun st i =>
        if st.bNeeded.contains i then st else
        { (st.emit (.noBind (e.a.binds.getD i default))) with mode := "", bNeeded := i :: st.bNeeded }.hit "bind:del") st) d' ∧
      BInv e managed (idx.foldl (fun st i =>
        if st.bNeeded.contains i then st else
        { (st.emit (.noBind (e.a.binds.getD i default))) with mode := "", bNeeded := i :: st.bNeeded }.hit "bind:del") st) d'
        (pend.filter fun j => !idx.contains j) done ∧
      (∀ j, j ∈ (idx.foldl (fun st i =>
        if st.bNeeded.contains i then st else
        { (st.emit (.noBind (e.a.binds.getD i default))) with mode := "", bNeeded := i :: st.bNeeded }.hit "bind:del") st).bNeeded ↔
          j ∈ idx ∨ j ∈ st.bNeeded) := by
  intro idx
  induction idx with
  | nil =>
    intro st d pend done hI _ _
    refine ⟨d, Step.refl e st d, ?_, fun j => by simp⟩
    have : (pend.filter fun j => !([] : List Nat).contains j) = pend := List.filter_eq_self.mpr (fun _ _ => by simp)
    rw [List.foldl_nil, this]; exact hI
  | cons i is ih =>
    intro st d pend done hI hnd hc
    obtain ⟨hip, hin⟩ := hc i List.mem_cons_self
    have hin' : st.bNeeded.contains i = false := by simpa using hin
    rw [List.foldl_cons]
    simp only [hin', Bool.false_eq_true, if_false]
    generalize hst1 : ({ (st.emit (.noBind (e.a.binds.getD i default))) with mode := "", bNeeded := i :: st.bNeeded }.hit "bind:del" : St) = st1
    have horig := hI.pendOrig i hip
    have hex : exec1 d (.noBind (e.a.binds.getD i default)) = .ok { d with binds := delAssoc d.binds (keyOf e i), mode := none } := by
      have : d.binds.lookup ((e.a.binds.getD i default).dir, (e.a.binds.getD i default).intf) = some (e.a.binds.getD i default).acl := horig
      simp only [exec1, this, bne_self_eq_false, Bool.false_eq_true, if_false]
      rfl
    generalize hd1 : ({ d with binds := delAssoc d.binds (keyOf e i), mode := none } : Dev) = d1 at hex
    have hb1 : d1.binds = delAssoc d.binds (keyOf e i) := by rw [← hd1]
    have hF1 : Full e st1 d1 := by
      rw [← hst1, ← hd1]
      exact hI.full.of_dev rfl rfl (by unfold ModeRel; rfl) rfl rfl rfl rfl rfl rfl
    have s1 : Step e st d st1 d1 := by
      rw [← hst1]
      refine ⟨⟨[_], rfl, exec_single hex⟩, ?_, fun x hx => hx, ?_, fun x hx => hx, fun bN hb' => ⟨hb', rfl⟩, by rw [← hd1]⟩
      · intro x hx _; rw [← hd1]; exact ⟨hx, rfl⟩
      · intro X hX _; rw [← hd1]; exact ⟨hX, rfl⟩
    have hfa : ∀ x, FrozenAcl e st x → FrozenAcl e st1 x := fun x hx => by rw [← hst1]; exact hx
    have hkne : ∀ j ∈ pend, j ≠ i → keyOf e j ≠ keyOf e i := fun j hj hne e1 =>
      hne (inj_of_nodup_map (keyOf e) pend hI.pendNd j hj i hip e1)
    have hI1 : BInv e managed st1 d1 (pend.filter (· != i)) done := by
      refine ⟨hF1, by rw [← hd1]; exact hI.intfs, ?_, ?_, nodup_map_filter _ _ hI.pendNd,
        fun j hj => hI.pendLt j (mem_filter_ne.mp hj).1, ?_, ?_, ?_, ?_, by rw [← hd1]; exact hI.routes⟩
      · rw [hb1]; exact List.Nodup.sublist (keys_delAssoc_sublist _ _) hI.bkeys
      · intro j hj
        obtain ⟨h1, h2⟩ := mem_filter_ne.mp hj
        rw [hb1, lookup_delAssoc_ne _ _ (hkne j h1 h2)]
        exact hI.pendOrig j h1
      · intro p hp
        rw [hb1] at hp
        obtain ⟨h1, h2⟩ := mem_delAssoc hp
        rcases hI.frozenVals p h1 with h3 | ⟨j, hj, h3⟩
        · exact Or.inl (hfa _ h3)
        · by_cases e1 : j = i
          · exfalso; apply h2; rw [h3, e1]
          · exact Or.inr ⟨j, mem_filter_ne.mpr ⟨hj, e1⟩, h3⟩
      · intro p hp
        rw [hb1] at hp
        obtain ⟨h1, h2⟩ := mem_delAssoc hp
        rcases hI.keysFrom p h1 with ⟨j, hj, h3⟩ | h3 | h3
        · by_cases e1 : j = i
          · exfalso; apply h2; rw [h3, e1]
          · exact Or.inl ⟨j, mem_filter_ne.mpr ⟨hj, e1⟩, h3⟩
        · exact Or.inr (Or.inl h3)
        · exact Or.inr (Or.inr h3)
      · intro b hb
        obtain ⟨q1, q2⟩ := hI.doneOK b hb
        refine ⟨by rw [← hst1]; exact q1, ?_⟩
        rw [hb1, lookup_delAssoc_ne _ _ (hI.doneDisj b hb i hip)]
        rw [← hst1]; exact q2
      · intro b hb j hj
        exact hI.doneDisj b hb j (mem_filter_ne.mp hj).1
    have hnd' := List.nodup_cons.mp hnd
    obtain ⟨d2, s2, i2, bn2⟩ := ih st1 d1 (pend.filter (· != i)) done hI1 hnd'.2 (by
      intro j hj
      have hji : j ≠ i := fun e1 => hnd'.1 (e1 ▸ hj)
      obtain ⟨h1, h2⟩ := hc j (List.mem_cons_of_mem _ hj)
      refine ⟨mem_filter_ne.mpr ⟨h1, hji⟩, ?_⟩
      rw [← hst1]
      show j ∉ i :: st.bNeeded
      intro hx
      rcases List.mem_cons.mp hx with e1 | e1
      · exact hji e1
      · exact h2 e1)
    refine ⟨d2, s1.trans s2, by rw [← filter_filter_not_contains]; exact i2, ?_⟩
    intro j
    rw [bn2, ← hst1]
    show j ∈ is ∨ j ∈ i :: st.bNeeded ↔ _
    simp only [List.mem_cons]
    constructor
    · rintro (h | h | h)
      · exact Or.inl (Or.inr h)
      · exact Or.inl (Or.inl h)
      · exact Or.inr h
    · rintro ((h | h) | h)
      · exact Or.inr (Or.inl h)
      · exact Or.inl h
      · exact Or.inr (Or.inr h)

/-- `delCmds` of a slice of device access-group commands. -/
theorem delBinds_full (e : Env) (managed : List Nat) (idx : List Nat) (st : St) (d : Dev) (pend : List Nat) (done : List Bind)
    (hI : BInv e managed st d pend done) (hnd : idx.Nodup) (hc : ∀ i ∈ idx, i ∈ pend ∧ i ∉ st.bNeeded) :
    ∃ d', Step e st d (delBinds e st idx) d' ∧
      BInv e managed (delBinds e st idx) d' (pend.filter fun j => !idx.contains j) done ∧
      (∀ j, j ∈ (delBinds e st idx).bNeeded ↔ j ∈ idx ∨ j ∈ st.bNeeded) := by
  obtain ⟨d1, s1, i1, bn1⟩ := delFold_full e managed idx st d pend done hI hnd hc
  unfold delBinds
  simp only []
  generalize (idx.foldl (fun st i =>
        if st.bNeeded.contains i then st else
        { (st.emit (.noBind (e.a.binds.getD i default))) with mode := "", bNeeded := i :: st.bNeeded }.hit "bind:del") st) = st1 at s1 i1 bn1
  split
  · exact ⟨d1, s1, i1, bn1⟩
  · have c := markDeletedBinds_core e st1 idx
    refine ⟨d1, s1.trans (Step.of_marks c.out c.gNeeded c.aNeeded c.aReady c.aName), i1.of_core c, ?_⟩
    intro j; rw [c.bNeeded]; exact bn1 j

theorem keys_setAssoc_new' {κ β : Type} [BEq κ] [LawfulBEq κ] (m : List (κ × β)) (k : κ) (v : β) (h : m.any (·.1 == k) = false) :
    (setAssoc m k v).map (·.1) = m.map (·.1) ++ [k] := by
  rw [setAssoc_eq]
  simp [h]

/-- `addCmds` of one target access-group command at a new place. -/
theorem addOne_full (e : Env) (managed : List Nat) (hw : WF e) (hB : RefsClosedB e) (st : St) (d : Dev)
    (pend : List Nat) (done : List Bind) (b : Bind) (hI : BInv e managed st d pend done)
    (hc : opCheck e st pend done (.add b) = true) :
    ∃ d', Step e st d (addOne e st b) d' ∧ BInv e managed (addOne e st b) d' pend (done ++ [b]) ∧
      (addOne e st b).bNeeded = st.bNeeded := by
  unfold opCheck at hc
  simp only [Bool.and_eq_true, Bool.not_eq_true', List.contains_eq_mem, decide_eq_true_eq, decide_eq_false_iff_not] at hc
  obtain ⟨⟨⟨⟨c1, c2⟩, c3⟩, c4⟩, c5⟩ := hc
  obtain ⟨d1, s1, f1, r1, b1, ro1, _, bn1, _, _⟩ := transferAcl_full e hw hB st d hI.full b.acl c1 c5
  unfold addOne
  simp only []
  generalize transferAcl e st b.acl = st1 at s1 f1 r1 bn1 ⊢
  obtain ⟨hx1, _, hx3⟩ := f1.ready b.acl r1
  have hintf : b.intf ∈ d1.intfs := by rw [s1.intfs, hI.intfs]; exact c2
  have hex : exec1 d1 (.bind (printBind st1 b)) =
      .ok { d1 with binds := setAssoc d1.binds (b.dir, b.intf) (st1.aNameOf b.acl), mode := none } := by
    simp [exec1, printBind, hx1, hintf]
  generalize hd2 : ({ d1 with binds := setAssoc d1.binds (b.dir, b.intf) (st1.aNameOf b.acl), mode := none } : Dev) = d2 at hex
  generalize hst2 : ({ (st1.emit (.bind (printBind st1 b))) with mode := "" }.hit "bind:add" : St) = st2
  have hF2 : Full e st2 d2 := by
    rw [← hst2, ← hd2]
    exact f1.of_dev rfl rfl (by unfold ModeRel; rfl) rfl rfl rfl rfl rfl rfl
  have s2 : Step e st1 d1 st2 d2 := by
    rw [← hst2]
    refine ⟨⟨[_], rfl, exec_single hex⟩, ?_, fun x hx => hx, ?_, fun x hx => hx, fun bN hb' => ⟨hb', rfl⟩, by rw [← hd2]⟩
    · intro x hx _; rw [← hd2]; exact ⟨hx, rfl⟩
    · intro X hX _; rw [← hd2]; exact ⟨hX, rfl⟩
  have hb2 : d2.binds = setAssoc d.binds (b.dir, b.intf) (st1.aNameOf b.acl) := by rw [← hd2, b1]
  -- the place is new
  have hfresh : ∀ p ∈ d.binds, p.1 ≠ (b.dir, b.intf) := by
    intro p hp e1
    rcases hI.keysFrom p hp with ⟨j, hj, h3⟩ | ⟨x, hx, h3⟩ | ⟨j, hj, _, h3⟩
    · exact c3 (by rw [← e1, h3]; exact keyOf_mem_keys e j (hI.pendLt j hj))
    · exact c4 (List.mem_map.mpr ⟨x, hx, by rw [← h3, e1]⟩)
    · exact c3 (by rw [← e1, h3]; exact keyOf_mem_keys e j hj)
  have hany : d.binds.any (·.1 == (b.dir, b.intf)) = false := by
    cases hh : d.binds.any (·.1 == (b.dir, b.intf))
    · rfl
    · obtain ⟨p, hp, hpk⟩ := List.any_eq_true.mp hh
      exact absurd (by simpa using hpk) (hfresh p hp)
  have hname2 : ∀ x, st2.aNameOf x = st1.aNameOf x := fun x => by rw [← hst2]; rfl
  have hpend : ∀ j ∈ pend, keyOf e j ≠ (b.dir, b.intf) := fun j hj e1 =>
    c3 (e1 ▸ keyOf_mem_keys e j (hI.pendLt j hj))
  refine ⟨d2, s1.trans s2, ⟨hF2, ?_, ?_, ?_, hI.pendNd, hI.pendLt, ?_, ?_, ?_, ?_, ?_⟩, by rw [← hst2]; exact bn1⟩
  · rw [← hd2, s1.intfs]; exact hI.intfs
  · rw [hb2, keys_setAssoc_new' _ _ _ hany]
    apply List.nodup_append.mpr
    refine ⟨hI.bkeys, by simp, ?_⟩
    intro x hx y hy e1
    have : y = (b.dir, b.intf) := by simpa using hy
    obtain ⟨p, hp, hpx⟩ := List.mem_map.mp hx
    exact hfresh p hp (by rw [hpx, e1, this])
  · intro j hj
    rw [hb2, lookup_setAssoc_ne _ _ _ _ (hpend j hj)]
    exact hI.pendOrig j hj
  · intro p hp
    rw [hb2] at hp
    rcases mem_setAssoc hp with h1 | ⟨h1, _⟩
    · left; rw [h1]
      show FrozenAcl e st2 (st1.aNameOf b.acl)
      rw [← hst2]; exact hx3
    · rcases hI.frozenVals p h1 with h3 | h3
      · exact Or.inl ((h3.mono s1.aGrow).mono s2.aGrow)
      · exact Or.inr h3
  · intro p hp
    rw [hb2] at hp
    rcases mem_setAssoc hp with h1 | ⟨h1, _⟩
    · right; left; exact ⟨b, by simp, by rw [h1]⟩
    · rcases hI.keysFrom p h1 with h3 | ⟨x, hx, h3⟩ | h3
      · exact Or.inl h3
      · exact Or.inr (Or.inl ⟨x, List.mem_append_left _ hx, h3⟩)
      · exact Or.inr (Or.inr h3)
  · intro b' hb'
    rcases List.mem_append.mp hb' with h1 | h1
    · obtain ⟨q1, q2⟩ := hI.doneOK b' h1
      obtain ⟨t1, t2⟩ := (s1.trans s2).aReadyMono b'.acl q1
      refine ⟨t1, ?_⟩
      have hne : (b'.dir, b'.intf) ≠ (b.dir, b.intf) := fun e1 => c4 (List.mem_map.mpr ⟨b', h1, e1⟩)
      rw [hb2, lookup_setAssoc_ne _ _ _ _ hne, t2]; exact q2
    · have hbb : b' = b := by simpa using h1
      rw [hbb]
      refine ⟨by rw [← hst2]; exact r1, ?_⟩
      rw [hb2, lookup_setAssoc_self, hname2]
  · intro b' hb' j hj
    rcases List.mem_append.mp hb' with h1 | h1
    · exact hI.doneDisj b' h1 j hj
    · have hbb : b' = b := by simpa using h1
      rw [hbb]; exact fun h => hpend j hj h.symm
  · rw [← hd2, ro1]; exact hI.routes

/-- All operations of `diffBinds`, each checked in the engine's own state. -/
theorem opsFold_full (e : Env) (managed : List Nat) (hw : WF e) (hA : RefsClosedA e) (hB : RefsClosedB e) :
    ∀ (ops : List BOp) (st : St) (d : Dev) (pend : List Nat) (done : List Bind),
    BInv e managed st d pend done → opsCheck e st pend done ops = true →
    ∃ d', Step e st d (ops.foldl (applyOp e) st) d' ∧
      BInv e managed (ops.foldl (applyOp e) st) d' (opsEnd pend done ops).1 (opsEnd pend done ops).2 ∧
      (∀ j, j ∈ pend → j ∈ (opsEnd pend done ops).1 ∨ j ∈ (ops.foldl (applyOp e) st).bNeeded) ∧
      (∀ j ∈ st.bNeeded, j ∈ (ops.foldl (applyOp e) st).bNeeded) := by
  intro ops
  induction ops with
  | nil =>
    intro st d pend done hI _
    exact ⟨d, Step.refl e st d, hI, fun j hj => Or.inl hj, fun j hj => hj⟩
  | cons op ops ih =>
    intro st d pend done hI hc
    unfold opsCheck at hc
    simp only [Bool.and_eq_true] at hc
    obtain ⟨c1, c2⟩ := hc
    rw [List.foldl_cons]
    cases op with
    | delGroup idx =>
      have c1' := c1
      unfold opCheck at c1'
      simp only [Bool.and_eq_true, decide_eq_true_eq, List.all_eq_true, Bool.not_eq_true', List.contains_eq_mem,
        decide_eq_false_iff_not] at c1'
      obtain ⟨d1, s1, i1, bn1⟩ := delBinds_full e managed idx st d pend done hI c1'.1 c1'.2
      obtain ⟨d2, s2, i2, k2, m2⟩ := ih (delBinds e st idx) d1 _ done i1 c2
      refine ⟨d2, s1.trans s2, i2, ?_, fun j hj => m2 j ((bn1 j).mpr (Or.inr hj))⟩
      intro j hj
      by_cases hji : j ∈ idx
      · exact Or.inr (m2 j ((bn1 j).mpr (Or.inl hji)))
      · exact k2 j (List.mem_filter.mpr ⟨hj, by simpa using hji⟩)
    | add b =>
      obtain ⟨d1, s1, i1, bn1⟩ := addOne_full e managed hw hB st d pend done b hI c1
      obtain ⟨d2, s2, i2, k2, m2⟩ := ih (addOne e st b) d1 pend (done ++ [b]) i1 c2
      exact ⟨d2, s1.trans s2, i2, k2, fun j hj => m2 j (by rw [bn1]; exact hj)⟩
    | eq i b =>
      have c1' := c1
      unfold opCheck at c1'
      simp only [Bool.and_eq_true, List.contains_eq_mem, decide_eq_true_eq] at c1'
      obtain ⟨d1, s1, i1, _, bn1⟩ := makeEqualBind_full e managed hw hA hB st d i pend done b hI c1'.1 c1'.2
      obtain ⟨d2, s2, i2, k2, m2⟩ := ih (makeEqualBind e st i b) d1 _ (done ++ [b]) i1 c2
      refine ⟨d2, s1.trans s2, i2, ?_, fun j hj => m2 j ((bn1 j).mpr (Or.inr hj))⟩
      intro j hj
      by_cases hji : j = i
      · exact Or.inr (m2 j ((bn1 j).mpr (Or.inl hji)))
      · exact k2 j (mem_filter_ne.mpr ⟨hj, hji⟩)

theorem foldl_id_of_all {α σ : Type} (f : σ → α → σ) (l : List α) (s : σ) (h : ∀ x ∈ l, ∀ t, f t x = t) : l.foldl f s = s := by
  induction l generalizing s with
  | nil => rfl
  | cons x xs ih => rw [List.foldl_cons, h x List.mem_cons_self, ih s (fun y hy => h y (List.mem_cons_of_mem _ hy))]

theorem foldl_congr_mem {α σ : Type} (f g : σ → α → σ) : ∀ (l : List α) (s : σ), (∀ t, ∀ x ∈ l, f t x = g t x) →
    l.foldl f s = l.foldl g s := by
  intro l
  induction l with
  | nil => intro s _; rfl
  | cons x xs ih =>
    intro s h
    rw [List.foldl_cons, List.foldl_cons, h s x List.mem_cons_self]
    exact ih _ (fun t y hy => h t y (List.mem_cons_of_mem _ hy))

theorem foldl_flatMap' {α β σ : Type} (f : σ → β → σ) (g : α → List β) : ∀ (l : List α) (s : σ),
    (l.flatMap g).foldl f s = l.foldl (fun t x => (g x).foldl f t) s := by
  intro l
  induction l with
  | nil => intro s; rfl
  | cons x xs ih => intro s; simp [List.flatMap_cons, List.foldl_append, ih]

theorem diffBinds_eq_pairs (e : Env) (st : St) (al : List Nat) (bl : List Bind) (h : bindsShape e st al bl = true) :
    diffBinds e st al bl =
      (bindPairs al bl (diffUnordered (al.map fun i => (e.a.binds.getD i default).key) (bl.map (·.key)))).foldl
        (fun st p => makeEqualBind e st p.1 p.2) st := by
  unfold bindsShape at h
  simp only [Bool.and_eq_true, Bool.not_eq_true'] at h
  obtain ⟨⟨h1, h2⟩, h3⟩ := h
  unfold diffBinds
  simp only []
  rw [if_neg (by rw [h1]; simp), if_neg (by rw [h2]; simp)]
  generalize diffUnordered (al.map fun i => (e.a.binds.getD i default).key) (bl.map (·.key)) = diff at h3 ⊢
  rw [List.all_eq_true] at h3
  have hk : ∀ r ∈ diff, r.isDelete = false ∧ r.isInsert = false ∧ r.isEqual = true := by
    intro r hr
    have := h3 r hr
    simp only [Bool.and_eq_true, Bool.not_eq_true'] at this
    exact ⟨this.1.1, this.1.2, this.2⟩
  rw [foldl_id_of_all _ diff st (fun r hr t => by simp [(hk r hr).1])]
  unfold bindPairs
  rw [foldl_flatMap']
  apply foldl_congr_mem
  intro t r hr
  simp [(hk r hr).2.1, (hk r hr).2.2]

theorem markDeletedBinds_toDel (e : Env) : ∀ (idx : List Nat) (st : St),
    (∀ i ∈ idx, i ∈ (markDeletedBinds e st idx).bToDel) ∧ (∀ i ∈ st.bToDel, i ∈ (markDeletedBinds e st idx).bToDel) := by
  intro idx
  induction idx with
  | nil => intro st; exact ⟨fun i hi => by simp at hi, fun i hi => hi⟩
  | cons j js ih =>
    intro st
    unfold markDeletedBinds
    rw [List.foldl_cons]
    have hstep : ∀ i, (i = j ∨ i ∈ st.bToDel) → i ∈ (if st.bToDel.contains j then st else
        markDeletedAcl e { st with bToDel := j :: st.bToDel } (e.a.binds.getD j default).acl).bToDel := by
      intro i hi
      split
      · rename_i hc
        rcases hi with rfl | hi
        · simpa using hc
        · exact hi
      · have hb : (markDeletedAcl e { st with bToDel := j :: st.bToDel } (e.a.binds.getD j default).acl).bToDel = j :: st.bToDel := by
          unfold markDeletedAcl; split <;> rfl
        rw [hb]
        rcases hi with rfl | hi
        · exact List.mem_cons_self
        · exact List.mem_cons_of_mem _ hi
    obtain ⟨i1, i2⟩ := ih (if st.bToDel.contains j then st else
        markDeletedAcl e { st with bToDel := j :: st.bToDel } (e.a.binds.getD j default).acl)
    unfold markDeletedBinds at i1 i2
    refine ⟨?_, fun i hi => i2 i (hstep i (Or.inr hi))⟩
    intro i hi
    rcases List.mem_cons.mp hi with e1 | e1
    · exact i2 i (hstep i (Or.inl e1))
    · exact i1 i e1

/-- `diffBinds` in the branch "no parts equal". -/
theorem diffBinds_noparts (e : Env) (st : St) (al : List Nat) (bl : List Bind)
    (h1 : (!al.isEmpty && st.bNeeded.contains (al.headD 0)) = false)
    (h2 : (diffUnordered (al.map fun i => (e.a.binds.getD i default).key) (bl.map (·.key))).any (·.isEqual) = false) :
    diffBinds e st al bl = (bl.map BOp.add).foldl (applyOp e) (nopartsSt e st al) := by
  unfold diffBinds
  simp only []
  rw [if_neg (by rw [h1]; simp), if_pos (by rw [h2]; rfl)]
  unfold nopartsSt
  rw [List.foldl_map]
  split
  · rename_i hb
    have : bl = [] := by simpa using hb
    subst this
    rfl
  · rfl

theorem opsEnd_adds (pend : List Nat) : ∀ (bs : List Bind) (done : List Bind),
    opsEnd pend done (bs.map BOp.add) = (pend, done ++ bs) := by
  intro bs
  induction bs with
  | nil => intro done; simp [opsEnd]
  | cons b bs ih => intro done; simp [opsEnd, ih, List.append_assoc]

/-- `diffBinds` in the branch "some parts equal" is the fold of its operations. -/
theorem diffBinds_eq_ops (e : Env) (st : St) (al : List Nat) (bl : List Bind)
    (h1 : (!al.isEmpty && st.bNeeded.contains (al.headD 0)) = false)
    (h2 : (diffUnordered (al.map fun i => (e.a.binds.getD i default).key) (bl.map (·.key))).any (·.isEqual) = true) :
    diffBinds e st al bl =
      (bindOps al bl (diffUnordered (al.map fun i => (e.a.binds.getD i default).key) (bl.map (·.key)))).foldl (applyOp e) st := by
  unfold diffBinds
  simp only []
  rw [if_neg (by rw [h1]; simp), if_neg (by rw [h2]; simp)]
  generalize diffUnordered (al.map fun i => (e.a.binds.getD i default).key) (bl.map (·.key)) = diff
  unfold bindOps
  rw [List.foldl_append, foldl_flatMap', foldl_flatMap']
  have e1 : diff.foldl (fun st r => if r.isDelete then delBinds e st (slice al r.lowA r.highA) else st) st =
      diff.foldl (fun t r => (if r.isDelete then [BOp.delGroup (slice al r.lowA r.highA)] else []).foldl (applyOp e) t) st := by
    apply foldl_congr_mem
    intro t r _
    split <;> simp [applyOp]
  rw [← e1]
  apply foldl_congr_mem
  intro t r _
  split
  · split
    · rfl
    · rw [List.foldl_map]; rfl
  · split
    · rw [List.foldl_map]; rfl
    · rfl

end NA.F1
